import PkVerif.Lemmas.RefMerge
import PkVerif.Lemmas.FaultNs
/-! C13: shard, replica and cond over sub-stores whose calls may fail transiently.

The abstract contents of every two-way combinator here are the left-biased union of the two
sub-stores' abstract contents.  A sub-store step moves its contents to the before- or the after-state
of the operation (`StepOK`); the algebra below shows the union then also is at the before- or the
after-state of the same operation, whichever mix of the two sides happened.  What remains per
operation is the ANSWER: it must be exact or `.err`.  One answer of the real `replica2Impl` is
neither: the "best effort" `.ok` of a remove that one replica failed
(`replica2_rm_best_effort_counterexample`).  A second one, the fetch fallback passing on "not there"
after the holder FAILED, was found here (finding F-C13-5), has been repaired in the Go code and in the
model, and is kept as a counterexample about the old fetch (`replica2OldFetchImpl`). -/
namespace Pk.Stores
open Pk Pk.SMap Pk.RefMap

/-! ### union algebra for good maps -/

theorem ins_eq_self {V : Type} {m : SMap V} (hm : KAsc m) {k : Bytes} {v : V}
    (h : SMap.get m k = some v) : ins k v m = m := by
  apply SMap.ext (kasc_ins _ _ hm) hm
  intro x
  rw [get_ins]
  by_cases hx : x = k
  · subst hx; simp [h]
  · simp [hx]

theorem ins_ins {V : Type} {m : SMap V} (hm : KAsc m) (k : Bytes) (v : V) :
    ins k v (ins k v m) = ins k v m :=
  ins_eq_self (kasc_ins _ _ hm) (by rw [get_ins]; simp)

/-- on a good map a well-keyed receive is an insert: an existing row already holds these bytes -/
theorem next_recv_good {content : Bytes → Bytes} {m : SMap Bytes} (hm : Good content m) (k v : Bytes)
    (hv : v = content k) : next m (.recv k v) = ins k v m := by
  simp only [next]
  cases hg : SMap.get m k with
  | none => simp [has, hg]
  | some w =>
    have : w = v := by rw [hv]; exact (hm.2 k w hg).1
    subst this
    simp only [has, hg, Option.isSome_some, if_true]
    exact (ins_eq_self hm.1 hg).symm

theorem union_ins_right_good {content : Bytes → Bytes} {A B : SMap Bytes} (hA : Good content A)
    (hB : KAsc B) (k v : Bytes) (hv : v = content k) :
    union A (ins k v B) = ins k v (union A B) := by
  apply SMap.ext (kasc_union _ (kasc_ins _ _ hB)) (kasc_ins _ _ (kasc_union _ hB))
  intro x
  rw [get_union, get_ins, get_ins, get_union]
  by_cases hx : x = k
  · subst hx
    cases hg : SMap.get A x with
    | none => simp
    | some w => simp [(hA.2 x w hg).1, hv]
  · simp [hx]

theorem recv_union_left {content : Bytes → Bytes} {A B : SMap Bytes} (hA : Good content A)
    (hB : Good content B) (k v : Bytes) (hv : v = content k) :
    union (next A (.recv k v)) B = next (union A B) (.recv k v) := by
  rw [next_recv_good hA k v hv, next_recv_good (good_union hA hB) k v hv, union_ins_left k v A hB.1]

theorem recv_union_right {content : Bytes → Bytes} {A B : SMap Bytes} (hA : Good content A)
    (hB : Good content B) (k v : Bytes) (hv : v = content k) :
    union A (next B (.recv k v)) = next (union A B) (.recv k v) := by
  rw [next_recv_good hB k v hv, next_recv_good (good_union hA hB) k v hv,
    union_ins_right_good hA hB.1 k v hv]

theorem recv_union_both {content : Bytes → Bytes} {A B : SMap Bytes} (hA : Good content A)
    (hB : Good content B) (k v : Bytes) (hv : v = content k) :
    union (next A (.recv k v)) (next B (.recv k v)) = next (union A B) (.recv k v) := by
  rw [next_recv_good hA k v hv, next_recv_good hB k v hv, next_recv_good (good_union hA hB) k v hv,
    union_ins_left k v A (kasc_ins _ _ hB.1), union_ins_right_good hA hB.1 k v hv,
    ins_ins (kasc_union _ hB.1)]

/-- removing from the left only, the right still holding the blob: nothing changes -/
theorem union_del_left_has {content : Bytes → Bytes} {A B : SMap Bytes} (hA : Good content A)
    (hB : Good content B) (k : Bytes) (hk : has B k = true) : union (del k A) B = union A B := by
  apply SMap.ext (kasc_union _ hB.1) (kasc_union _ hB.1)
  intro x
  rw [get_union, get_union, get_del k hA.1]
  by_cases hx : x = k
  · subst hx
    cases hgb : SMap.get B x with
    | none => simp [has, hgb] at hk
    | some w =>
      cases hga : SMap.get A x with
      | none => simp
      | some u => simp [(hA.2 x u hga).1, (hB.2 x w hgb).1]
  · simp [hx]

/-- removing from the right only, the left still holding the blob: nothing changes -/
theorem union_del_right_has {V : Type} {A B : SMap V} (hB : KAsc B) (k : Bytes)
    (hk : has A k = true) : union A (del k B) = union A B := by
  apply SMap.ext (kasc_union _ (kasc_del _ hB)) (kasc_union _ hB)
  intro x
  rw [get_union, get_union, get_del k hB]
  by_cases hx : x = k
  · subst hx
    cases hga : SMap.get A x with
    | none => simp [has, hga] at hk
    | some u => rfl
  · simp [hx]

/-- the operation applied on the left only: the union is at its before- or after-state -/
theorem union_step_left {content : Bytes → Bytes} {A B : SMap Bytes} (hA : Good content A)
    (hB : Good content B) (op : Op) (hop : op.WK content) :
    union (next A op) B = union A B ∨ union (next A op) B = next (union A B) op := by
  cases op with
  | recv k v => exact Or.inr (recv_union_left hA hB k v hop.1)
  | rm k =>
    by_cases hk : has B k = true
    · exact Or.inl (union_del_left_has hA hB k hk)
    · exact Or.inr (next_union_left hA.1 hB.1 (.rm k) (by simpa [opKey] using hk))
  | fetch _ => exact Or.inl rfl
  | stat _ => exact Or.inl rfl
  | enum _ _ => exact Or.inl rfl

theorem union_step_right {content : Bytes → Bytes} {A B : SMap Bytes} (hA : Good content A)
    (hB : Good content B) (op : Op) (hop : op.WK content) :
    union A (next B op) = union A B ∨ union A (next B op) = next (union A B) op := by
  cases op with
  | recv k v => exact Or.inr (recv_union_right hA hB k v hop.1)
  | rm k =>
    by_cases hk : has A k = true
    · exact Or.inl (union_del_right_has hB.1 k hk)
    · exact Or.inr (next_union_right hA.1 hB.1 (.rm k) (by simpa [opKey] using hk))
  | fetch _ => exact Or.inl rfl
  | stat _ => exact Or.inl rfl
  | enum _ _ => exact Or.inl rfl

theorem union_step_both {content : Bytes → Bytes} {A B : SMap Bytes} (hA : Good content A)
    (hB : Good content B) (op : Op) (hop : op.WK content) :
    union (next A op) (next B op) = next (union A B) op := by
  cases op with
  | recv k v => exact recv_union_both hA hB k v hop.1
  | rm k => exact union_del_both k hA.1 hB.1
  | fetch _ => rfl
  | stat _ => rfl
  | enum _ _ => rfl

/-- each side at its before- or after-state (any mix): so is the union -/
theorem union_step_cases {content : Bytes → Bytes} {A B A' B' : SMap Bytes} (hA : Good content A)
    (hB : Good content B) (op : Op) (hop : op.WK content)
    (ha : A' = A ∨ A' = next A op) (hb : B' = B ∨ B' = next B op) :
    union A' B' = union A B ∨ union A' B' = next (union A B) op := by
  rcases ha with rfl | rfl <;> rcases hb with rfl | rfl
  · exact Or.inl rfl
  · exact union_step_right hA hB op hop
  · exact union_step_left hA hB op hop
  · exact Or.inr (union_step_both hA hB op hop)

/-! ### exact steps, and what a faulted-or-exact step leaves behind -/

def Exact (A A' : SMap Bytes) (o : Out) (op : Op) : Prop := o = out A op ∧ A' = next A op

theorem stepOK_move {A A' : SMap Bytes} {o : Out} {op : Op} (h : StepOK A A' o op) :
    A' = A ∨ A' = next A op := by
  rcases h with ⟨_, h⟩ | ⟨_, h⟩
  · exact Or.inr h
  · exact h

theorem out_ne_err (A : SMap Bytes) (op : Op) : out A op ≠ .err := by
  cases op with
  | recv _ _ => simp [out]
  | fetch k => simp only [out]; cases SMap.get A k <;> simp
  | stat k => simp only [out]; cases SMap.get A k <;> simp
  | enum _ _ => simp [out]
  | rm _ => simp [out]

/-- a read leaves the contents alone, failed or not -/
theorem stepOK_read_abs {A A' : SMap Bytes} {o : Out} {op : Op} (h : StepOK A A' o op)
    (hr : match op with | .fetch _ | .stat _ | .enum _ _ => True | _ => False) : A' = A := by
  cases op with
  | recv _ _ => cases hr
  | rm _ => cases hr
  | fetch _ => rcases stepOK_move h with h | h <;> exact h
  | stat _ => rcases stepOK_move h with h | h <;> exact h
  | enum _ _ => rcases stepOK_move h with h | h <;> exact h

/-- the combined answer `O` of two sub-answers is fine as soon as: it is exact when both are, and it
is `.err` when either is -/
theorem stepOK_union {content : Bytes → Bytes} {A B A' B' : SMap Bytes} {oa ob O : Out} {op : Op}
    (hA : Good content A) (hB : Good content B) (hop : op.WK content)
    (ha : StepOK A A' oa op) (hb : StepOK B B' ob op)
    (hex : Exact A A' oa op → Exact B B' ob op → Exact (union A B) (union A' B') O op)
    (hel : oa = .err → O = .err) (her : ob = .err → O = .err) :
    StepOK (union A B) (union A' B') O op := by
  have hm := union_step_cases hA hB op hop (stepOK_move ha) (stepOK_move hb)
  rcases ha with hea | ⟨hoa, _⟩
  · rcases hb with heb | ⟨hob, _⟩
    · exact Or.inl (hex hea heb)
    · exact Or.inr ⟨her hob, hm⟩
  · exact Or.inr ⟨hel hoa, hm⟩

/-! ### the contract of one step of a two-way combinator whose contents are the union -/

/-- both sub-invariants survive, each side is at its before- or after-state, the step is
faulted-or-exact on the union, and exact (staying quiet) when both sides are quiet -/
def PairSpec {content : Bytes → Bytes} {a b : Impl} (Fa : FRefines content a) (Fb : FRefines content b)
    (s s' : a.σ × b.σ) (o : Out) (op : Op) : Prop :=
  Fa.Inv s'.1 ∧ Fb.Inv s'.2 ∧
  (Fa.abs s'.1 = Fa.abs s.1 ∨ Fa.abs s'.1 = next (Fa.abs s.1) op) ∧
  (Fb.abs s'.2 = Fb.abs s.2 ∨ Fb.abs s'.2 = next (Fb.abs s.2) op) ∧
  StepSpec (union (Fa.abs s.1) (Fb.abs s.2)) (union (Fa.abs s'.1) (Fb.abs s'.2)) o op
    (Fa.Quiet s.1 ∧ Fb.Quiet s.2) (Fa.Quiet s'.1 ∧ Fb.Quiet s'.2)

/-- glue: two sub-steps (already taken, with their contracts) and a combined answer `O` -/
theorem pair_glue {content : Bytes → Bytes} {a b : Impl} (Fa : FRefines content a)
    (Fb : FRefines content b) {sa sa1 : a.σ} {sb sb1 : b.σ} {oa ob O : Out} {op : Op}
    (ha : Fa.Inv sa) (hb : Fb.Inv sb) (hop : op.WK content)
    (hia : Fa.Inv sa1)
    (hsa : StepSpec (Fa.abs sa) (Fa.abs sa1) oa op (Fa.Quiet sa) (Fa.Quiet sa1))
    (hib : Fb.Inv sb1)
    (hsb : StepSpec (Fb.abs sb) (Fb.abs sb1) ob op (Fb.Quiet sb) (Fb.Quiet sb1))
    (hex : Exact (Fa.abs sa) (Fa.abs sa1) oa op → Exact (Fb.abs sb) (Fb.abs sb1) ob op →
      Exact (union (Fa.abs sa) (Fb.abs sb)) (union (Fa.abs sa1) (Fb.abs sb1)) O op)
    (hel : oa = .err → O = .err) (her : ob = .err → O = .err) :
    PairSpec Fa Fb (sa, sb) (sa1, sb1) O op := by
  refine ⟨hia, hib, stepOK_move hsa.1, stepOK_move hsb.1,
    stepOK_union (Fa.good sa ha) (Fb.good sb hb) hop hsa.1 hsb.1 hex hel her, ?_⟩
  rintro ⟨hQa, hQb⟩
  obtain ⟨h1, h2, h3⟩ := hsa.2 hQa
  obtain ⟨h4, h5, h6⟩ := hsb.2 hQb
  have := hex ⟨h1, h2⟩ ⟨h4, h5⟩
  exact ⟨this.1, this.2, h3, h6⟩

/-- glue for an operation sent to both sides, answered by `O` of the two answers -/
theorem pair_both {content : Bytes → Bytes} {a b : Impl} (Fa : FRefines content a)
    (Fb : FRefines content b) (sa : a.σ) (sb : b.σ) (op : Op)
    (ha : Fa.Inv sa) (hb : Fb.Inv sb) (hop : op.WK content) (O : Out → Out → Out)
    (hex : ∀ A' B' oa ob, Exact (Fa.abs sa) A' oa op → Exact (Fb.abs sb) B' ob op →
      Exact (union (Fa.abs sa) (Fb.abs sb)) (union A' B') (O oa ob) op)
    (hel : ∀ ob, O .err ob = .err) (her : ∀ oa, O oa .err = .err) :
    PairSpec Fa Fb (sa, sb) ((a.step sa op).1, (b.step sb op).1)
      (O (a.step sa op).2 (b.step sb op).2) op := by
  obtain ⟨hia, hsa⟩ := Fa.sub sa op ha hop
  obtain ⟨hib, hsb⟩ := Fb.sub sb op hb hop
  exact pair_glue Fa Fb ha hb hop hia hsa hib hsb (hex _ _ _ _)
    (fun h => by rw [h]; exact hel _) (fun h => by rw [h]; exact her _)

/-! ### how `replica2Impl` combines the two answers -/

def recvAns (oa ob : Out) : Out :=
  match oa, ob with
  | .sized n, .sized n' => if n = n' then .sized n else .err
  | _, _ => .err

def statAns (oa ob : Out) : Out :=
  match oa, ob with
  | .sized n, .sized _ => .sized n
  | .sized n, .notExist => .sized n
  | .notExist, .sized n => .sized n
  | .notExist, .notExist => .notExist
  | _, _ => .err

def enumAns (limit : Nat) (oa ob : Out) : Out :=
  match oa, ob with
  | .refs x, .refs y => .refs (MergedEnum.mergedEnumerate limit [x, y])
  | _, _ => .err

/-- the real remove: `.ok` as soon as either side said `.ok` -/
def rmAns (oa ob : Out) : Out :=
  match oa, ob with
  | .ok, _ => .ok
  | _, .ok => .ok
  | _, _ => .err

/-- the strict remove: `.ok` only if both sides said `.ok` -/
def rmStrictAns (oa ob : Out) : Out :=
  match oa, ob with
  | .ok, .ok => .ok
  | _, _ => .err

theorem rep_recv_eq (a b : Impl) (sa : a.σ) (sb : b.σ) (k v : Bytes) :
    (replica2Impl a b).step (sa, sb) (.recv k v) =
      (((a.step sa (.recv k v)).1, (b.step sb (.recv k v)).1),
        recvAns (a.step sa (.recv k v)).2 (b.step sb (.recv k v)).2) := by
  simp only [replica2Impl]
  generalize a.step sa (.recv k v) = pa
  generalize b.step sb (.recv k v) = pb
  obtain ⟨sa1, oa⟩ := pa
  obtain ⟨sb1, ob⟩ := pb
  cases oa <;> cases ob <;> rfl

theorem rep_stat_eq (a b : Impl) (sa : a.σ) (sb : b.σ) (k : Bytes) :
    (replica2Impl a b).step (sa, sb) (.stat k) =
      (((a.step sa (.stat k)).1, (b.step sb (.stat k)).1),
        statAns (a.step sa (.stat k)).2 (b.step sb (.stat k)).2) := by
  simp only [replica2Impl]
  generalize a.step sa (.stat k) = pa
  generalize b.step sb (.stat k) = pb
  obtain ⟨sa1, oa⟩ := pa
  obtain ⟨sb1, ob⟩ := pb
  cases oa <;> cases ob <;> rfl

theorem enum2_eq (a b : Impl) (sa : a.σ) (sb : b.σ) (after : Bytes) (limit : Nat) :
    enum2 a b sa sb after limit =
      ((a.step sa (.enum after limit)).1, (b.step sb (.enum after limit)).1,
        enumAns limit (a.step sa (.enum after limit)).2 (b.step sb (.enum after limit)).2) := by
  unfold enum2
  generalize a.step sa (.enum after limit) = pa
  generalize b.step sb (.enum after limit) = pb
  obtain ⟨sa1, oa⟩ := pa
  obtain ⟨sb1, ob⟩ := pb
  cases oa <;> cases ob <;> rfl

theorem rep_enum_eq (a b : Impl) (sa : a.σ) (sb : b.σ) (after : Bytes) (limit : Nat) :
    (replica2Impl a b).step (sa, sb) (.enum after limit) =
      (((a.step sa (.enum after limit)).1, (b.step sb (.enum after limit)).1),
        enumAns limit (a.step sa (.enum after limit)).2 (b.step sb (.enum after limit)).2) := by
  simp only [replica2Impl, enum2_eq]

theorem rep_rm_eq (a b : Impl) (sa : a.σ) (sb : b.σ) (k : Bytes) :
    (replica2Impl a b).step (sa, sb) (.rm k) =
      (((a.step sa (.rm k)).1, (b.step sb (.rm k)).1),
        rmAns (a.step sa (.rm k)).2 (b.step sb (.rm k)).2) := by
  simp only [replica2Impl]
  generalize a.step sa (.rm k) = pa
  generalize b.step sb (.rm k) = pb
  obtain ⟨sa1, oa⟩ := pa
  obtain ⟨sb1, ob⟩ := pb
  cases oa <;> cases ob <;> rfl

theorem recvAns_exact {content : Bytes → Bytes} {A B A' B' : SMap Bytes} {oa ob : Out} {k v : Bytes}
    (hA : Good content A) (hB : Good content B) (hop : (Op.recv k v).WK content)
    (ha : Exact A A' oa (.recv k v)) (hb : Exact B B' ob (.recv k v)) :
    Exact (union A B) (union A' B') (recvAns oa ob) (.recv k v) := by
  obtain ⟨rfl, rfl⟩ := ha
  obtain ⟨rfl, rfl⟩ := hb
  exact ⟨by simp [recvAns, out], union_step_both hA hB _ hop⟩

theorem statAns_exact {A B A' B' : SMap Bytes} {oa ob : Out} {k : Bytes}
    (ha : Exact A A' oa (.stat k)) (hb : Exact B B' ob (.stat k)) :
    Exact (union A B) (union A' B') (statAns oa ob) (.stat k) := by
  obtain ⟨rfl, ha'⟩ := ha
  obtain ⟨rfl, hb'⟩ := hb
  refine ⟨?_, by rw [ha', hb']; rfl⟩
  simp only [out, get_union]
  cases SMap.get A k <;> cases SMap.get B k <;> rfl

theorem enumAns_exact {content : Bytes → Bytes} {A B A' B' : SMap Bytes} {oa ob : Out}
    {after : Bytes} {limit : Nat} (hA : Good content A) (hB : Good content B)
    (ha : Exact A A' oa (.enum after limit)) (hb : Exact B B' ob (.enum after limit)) :
    Exact (union A B) (union A' B') (enumAns limit oa ob) (.enum after limit) := by
  obtain ⟨rfl, ha'⟩ := ha
  obtain ⟨rfl, hb'⟩ := hb
  refine ⟨?_, by rw [ha', hb']; rfl⟩
  simp only [out, enumAns]
  rw [enum2_spec hA hB]

theorem rmStrictAns_exact {content : Bytes → Bytes} {A B A' B' : SMap Bytes} {oa ob : Out} {k : Bytes}
    (hA : Good content A) (hB : Good content B)
    (ha : Exact A A' oa (.rm k)) (hb : Exact B B' ob (.rm k)) :
    Exact (union A B) (union A' B') (rmStrictAns oa ob) (.rm k) := by
  obtain ⟨rfl, rfl⟩ := ha
  obtain ⟨rfl, rfl⟩ := hb
  exact ⟨rfl, union_del_both k hA.1 hB.1⟩

theorem recvAns_err_left (ob : Out) : recvAns .err ob = .err := by cases ob <;> rfl
theorem recvAns_err_right (oa : Out) : recvAns oa .err = .err := by cases oa <;> rfl
theorem statAns_err_left (ob : Out) : statAns .err ob = .err := by cases ob <;> rfl
theorem statAns_err_right (oa : Out) : statAns oa .err = .err := by cases oa <;> rfl
theorem enumAns_err_left (l : Nat) (ob : Out) : enumAns l .err ob = .err := by cases ob <;> rfl
theorem enumAns_err_right (l : Nat) (oa : Out) : enumAns l oa .err = .err := by cases oa <;> rfl
theorem rmStrictAns_err_left (ob : Out) : rmStrictAns .err ob = .err := by cases ob <;> rfl
theorem rmStrictAns_err_right (oa : Out) : rmStrictAns oa .err = .err := by cases oa <;> rfl

/-! ### 3. replica: receive, stat and enumerate of the real model -/

/-- `recv`, `stat` and `enum` of the real `replica2Impl` over any two fault-tolerant stores (no
relation between the two needed) -/
theorem replica2_both_spec {content : Bytes → Bytes} {a b : Impl} (Fa : FRefines content a)
    (Fb : FRefines content b) (sa : a.σ) (sb : b.σ) (op : Op)
    (hop3 : match op with | .recv _ _ | .stat _ | .enum _ _ => True | _ => False)
    (ha : Fa.Inv sa) (hb : Fb.Inv sb) (hop : op.WK content) :
    PairSpec Fa Fb (sa, sb) ((replica2Impl a b).step (sa, sb) op).1
      ((replica2Impl a b).step (sa, sb) op).2 op := by
  have hA := Fa.good sa ha
  have hB := Fb.good sb hb
  cases op with
  | fetch _ => cases hop3
  | rm _ => cases hop3
  | recv k v =>
    rw [rep_recv_eq]
    exact pair_both Fa Fb sa sb _ ha hb hop recvAns
      (fun _ _ _ _ h1 h2 => recvAns_exact hA hB hop h1 h2) recvAns_err_left recvAns_err_right
  | stat k =>
    rw [rep_stat_eq]
    exact pair_both Fa Fb sa sb _ ha hb hop statAns
      (fun _ _ _ _ h1 h2 => statAns_exact h1 h2) statAns_err_left statAns_err_right
  | enum after limit =>
    rw [rep_enum_eq]
    exact pair_both Fa Fb sa sb _ ha hb hop (enumAns limit)
      (fun _ _ _ _ h1 h2 => enumAns_exact hA hB h1 h2) (enumAns_err_left limit) (enumAns_err_right limit)

/-! ### fetch with fallback, generic in what is answered after the first replica FAILED -/

/-- replica fetch: first replica; on "not there" the second replica's answer; after a failure of the
first, `E` of the second replica's answer.  The real code has `E = fetchErrAns` (a failure outranks a
later "not there"); before the repair of finding F-C13-5 it had `E = id`. -/
def fetchStep (a b : Impl) (E : Out → Out) (sa : a.σ) (sb : b.σ) (k : Bytes) : (a.σ × b.σ) × Out :=
  match a.step sa (.fetch k) with
  | (sa1, .bytes v) => ((sa1, sb), .bytes v)
  | (sa1, .notExist) => ((sa1, (b.step sb (.fetch k)).1), (b.step sb (.fetch k)).2)
  | (sa1, _) => ((sa1, (b.step sb (.fetch k)).1), E (b.step sb (.fetch k)).2)

/-- after a failure of the first replica only a hit on the second is an answer -/
def fetchErrAns (ob : Out) : Out :=
  match ob with
  | .bytes v => .bytes v
  | _ => .err

theorem rep_fetch_eq (a b : Impl) (sa : a.σ) (sb : b.σ) (k : Bytes) :
    (replica2Impl a b).step (sa, sb) (.fetch k) = fetchStep a b fetchErrAns sa sb k := by
  rcases hpa : a.step sa (.fetch k) with ⟨sa1, oa⟩
  rcases hpb : b.step sb (.fetch k) with ⟨sb1, ob⟩
  cases oa <;> cases ob <;> simp [replica2Impl, fetchStep, fetchErrAns, hpa, hpb]

theorem get_union_of_right {content : Bytes → Bytes} {A B : SMap Bytes} (hA : Good content A)
    (hB : Good content B) {k w : Bytes} (h : SMap.get B k = some w) :
    SMap.get (union A B) k = some w := by
  rw [get_union]
  cases hg : SMap.get A k with
  | none => exact h
  | some u => simp [(hA.2 k u hg).1, (hB.2 k w h).1]

/-- the fetch of a replica pair: invariants kept, contents untouched; the answer is exact, or `.err`,
or – only after a FAILURE of the first replica and a miss on the second – `E .notExist` -/
theorem fetchStep_spec {content : Bytes → Bytes} {a b : Impl} (Fa : FRefines content a)
    (Fb : FRefines content b) (E : Out → Out) (hEe : E .err = .err)
    (hEb : ∀ w, E (.bytes w) = .bytes w) (sa : a.σ) (sb : b.σ) (k : Bytes)
    (ha : Fa.Inv sa) (hb : Fb.Inv sb) :
    Fa.Inv (fetchStep a b E sa sb k).1.1 ∧ Fb.Inv (fetchStep a b E sa sb k).1.2 ∧
    Fa.abs (fetchStep a b E sa sb k).1.1 = Fa.abs sa ∧
    Fb.abs (fetchStep a b E sa sb k).1.2 = Fb.abs sb ∧
    ((fetchStep a b E sa sb k).2 = out (union (Fa.abs sa) (Fb.abs sb)) (.fetch k) ∨
     (fetchStep a b E sa sb k).2 = .err ∨
     ((fetchStep a b E sa sb k).2 = E .notExist ∧ (a.step sa (.fetch k)).2 = .err ∧
       (b.step sb (.fetch k)).2 = .notExist ∧ SMap.get (Fb.abs sb) k = none ∧ ¬ Fa.Quiet sa)) ∧
    (Fa.Quiet sa ∧ Fb.Quiet sb →
      (fetchStep a b E sa sb k).2 = out (union (Fa.abs sa) (Fb.abs sb)) (.fetch k) ∧
      Fa.Quiet (fetchStep a b E sa sb k).1.1 ∧ Fb.Quiet (fetchStep a b E sa sb k).1.2) := by
  have hA := Fa.good sa ha
  have hB := Fb.good sb hb
  obtain ⟨hia, hsa⟩ := Fa.sub sa (.fetch k) ha trivial
  obtain ⟨hib, hsb⟩ := Fb.sub sb (.fetch k) hb trivial
  have haa := stepOK_read_abs hsa.1 trivial
  have hbb := stepOK_read_abs hsb.1 trivial
  unfold fetchStep
  generalize a.step sa (.fetch k) = pa at hia hsa haa
  generalize b.step sb (.fetch k) = pb at hib hsb hbb
  obtain ⟨sa1, oa⟩ := pa
  obtain ⟨sb1, ob⟩ := pb
  simp only at hia hsa haa hib hsb hbb
  obtain ⟨hsa1, hsa2⟩ := hsa
  obtain ⟨hsb1, hsb2⟩ := hsb
  rcases hsa1 with ⟨hoa, _⟩ | ⟨hoa, _⟩
  · cases hg : SMap.get (Fa.abs sa) k with
    | some v =>
      have hoa' : oa = .bytes v := by rw [hoa]; simp only [out, hg]
      subst hoa'
      have hU : Out.bytes v = out (union (Fa.abs sa) (Fb.abs sb)) (.fetch k) := by
        simp only [out, get_union, hg]
      exact ⟨hia, hb, haa, rfl, Or.inl hU, fun hQ => ⟨hU, (hsa2 hQ.1).2.2, hQ.2⟩⟩
    | none =>
      have hoa' : oa = .notExist := by rw [hoa]; simp only [out, hg]
      subst hoa'
      have hU : out (union (Fa.abs sa) (Fb.abs sb)) (.fetch k) = out (Fb.abs sb) (.fetch k) := by
        simp only [out, get_union, hg]
      refine ⟨hia, hib, haa, hbb, ?_, fun hQ => ⟨?_, (hsa2 hQ.1).2.2, (hsb2 hQ.2).2.2⟩⟩
      · rcases hsb1 with ⟨hob, _⟩ | ⟨hob, _⟩
        · exact Or.inl (hob.trans hU.symm)
        · exact Or.inr (Or.inl hob)
      · exact ((hsb2 hQ.2).1).trans hU.symm
  · subst hoa
    refine ⟨hia, hib, haa, hbb, ?_, fun hQ => absurd (hsa2 hQ.1).1.symm (out_ne_err _ _)⟩
    rcases hsb1 with ⟨hob, _⟩ | ⟨hob, _⟩
    · cases hgb : SMap.get (Fb.abs sb) k with
      | some w =>
        have hob' : ob = .bytes w := by rw [hob]; simp only [out, hgb]
        subst hob'
        refine Or.inl ?_
        simp only [out, get_union_of_right hA hB hgb]
        exact hEb w
      | none =>
        have hob' : ob = .notExist := by rw [hob]; simp only [out, hgb]
        subst hob'
        exact Or.inr (Or.inr ⟨rfl, rfl, rfl, rfl,
          fun hQ => absurd (hsa2 hQ).1.symm (out_ne_err _ _)⟩)
    · subst hob
      exact Or.inr (Or.inl hEe)

/-! ### 3a. the strict replica: the model for which the fault contract holds in full -/

/-- `replica2Impl` with one answer made honest: `.rm` answers `.ok` only if BOTH replicas did (`.err`
otherwise).  Everything else, and every state change, is `replica2Impl`'s. -/
def replica2StrictImpl (a b : Impl) : Impl where
  σ := a.σ × b.σ
  init := (a.init, b.init)
  step := fun (sa, sb) op =>
    match op with
    | .rm k =>
      (((a.step sa (.rm k)).1, (b.step sb (.rm k)).1),
        rmStrictAns (a.step sa (.rm k)).2 (b.step sb (.rm k)).2)
    | op => (replica2Impl a b).step (sa, sb) op

theorem fetchErrAns_err : fetchErrAns .err = .err := rfl
theorem fetchErrAns_bytes (w : Bytes) : fetchErrAns (.bytes w) = .bytes w := rfl

/-- a fetch of the pair in `PairSpec` form, given that a first-replica failure is never answered by a
bare "not there" -/
theorem fetchStep_pair {content : Bytes → Bytes} {a b : Impl} (Fa : FRefines content a)
    (Fb : FRefines content b) (E : Out → Out) (hEe : E .err = .err)
    (hEb : ∀ w, E (.bytes w) = .bytes w) (hEn : E .notExist = .err) (sa : a.σ) (sb : b.σ) (k : Bytes)
    (ha : Fa.Inv sa) (hb : Fb.Inv sb) :
    PairSpec Fa Fb (sa, sb) (fetchStep a b E sa sb k).1 (fetchStep a b E sa sb k).2 (.fetch k) := by
  obtain ⟨h1, h2, h3, h4, h5, h6⟩ := fetchStep_spec Fa Fb E hEe hEb sa sb k ha hb
  have hU : union (Fa.abs (fetchStep a b E sa sb k).1.1) (Fb.abs (fetchStep a b E sa sb k).1.2) =
      next (union (Fa.abs sa) (Fb.abs sb)) (.fetch k) := by rw [h3, h4]; rfl
  refine ⟨h1, h2, Or.inl h3, Or.inl h4, ?_, fun hQ => ⟨(h6 hQ).1, hU, (h6 hQ).2⟩⟩
  rcases h5 with h | h | ⟨h, _⟩
  · exact Or.inl ⟨h, hU⟩
  · exact Or.inr ⟨h, Or.inr hU⟩
  · exact Or.inr ⟨h.trans hEn, Or.inr hU⟩

theorem replica2Strict_step {content : Bytes → Bytes} {a b : Impl} (Fa : FRefines content a)
    (Fb : FRefines content b) (sa : a.σ) (sb : b.σ) (op : Op)
    (ha : Fa.Inv sa) (hb : Fb.Inv sb) (hop : op.WK content) :
    PairSpec Fa Fb (sa, sb) ((replica2StrictImpl a b).step (sa, sb) op).1
      ((replica2StrictImpl a b).step (sa, sb) op).2 op := by
  cases op with
  | recv k v => exact replica2_both_spec Fa Fb sa sb (.recv k v) trivial ha hb hop
  | stat k => exact replica2_both_spec Fa Fb sa sb (.stat k) trivial ha hb hop
  | enum after limit => exact replica2_both_spec Fa Fb sa sb (.enum after limit) trivial ha hb hop
  | fetch k =>
    show PairSpec Fa Fb (sa, sb) ((replica2Impl a b).step (sa, sb) (.fetch k)).1
      ((replica2Impl a b).step (sa, sb) (.fetch k)).2 (.fetch k)
    rw [rep_fetch_eq]
    exact fetchStep_pair Fa Fb fetchErrAns rfl (fun _ => rfl) rfl sa sb k ha hb
  | rm k =>
    exact pair_both Fa Fb sa sb (.rm k) ha hb hop rmStrictAns
      (fun _ _ _ _ h1 h2 => rmStrictAns_exact (Fa.good sa ha) (Fb.good sb hb) h1 h2)
      rmStrictAns_err_left rmStrictAns_err_right

/-- the strict replica over any two fault-tolerant stores is fault-tolerant; the two replicas need
not agree (after a failed write they may not): the contents are their union -/
def replica2FRefines {content : Bytes → Bytes} {a b : Impl} (Fa : FRefines content a)
    (Fb : FRefines content b) : FRefines content (replica2StrictImpl a b) where
  abs := fun s => union (Fa.abs s.1) (Fb.abs s.2)
  Inv := fun s => Fa.Inv s.1 ∧ Fb.Inv s.2
  Quiet := fun s => Fa.Quiet s.1 ∧ Fb.Quiet s.2
  init_inv := ⟨Fa.init_inv, Fb.init_inv⟩
  init_abs := by simp [replica2StrictImpl, Fa.init_abs, Fb.init_abs, union]
  good := fun s h => good_union (Fa.good _ h.1) (Fb.good _ h.2)
  step_ok := fun s op h hop =>
    have p := replica2Strict_step Fa Fb s.1 s.2 op h.1 h.2 hop
    ⟨⟨p.1, p.2.1⟩, p.2.2.2.2.1⟩
  quiet_step := fun s op h hq hop =>
    (replica2Strict_step Fa Fb s.1 s.2 op h.1 h.2 hop).2.2.2.2.2 hq

/-! ### 3b. the real replica: what holds, and the one answer that breaks the contract -/

theorem rmAns_vs_strict (oa ob : Out) :
    rmAns oa ob = rmStrictAns oa ob ∨
    (rmAns oa ob = .ok ∧ rmStrictAns oa ob = .err ∧ ((oa = .ok ∧ ob ≠ .ok) ∨ (oa ≠ .ok ∧ ob = .ok))) := by
  cases oa <;> cases ob <;> simp [rmAns, rmStrictAns]

/-- remove of the real replica: either the full contract, or – exactly one replica's remove having
FAILED – the call still answers `.ok`; even then both invariants hold and the contents are at the
before- or the after-state (but `.ok` promises the after-state: this is not `StepOK`) -/
theorem replica2_rm_step {content : Bytes → Bytes} {a b : Impl} (Fa : FRefines content a)
    (Fb : FRefines content b) (sa : a.σ) (sb : b.σ) (k : Bytes) (ha : Fa.Inv sa) (hb : Fb.Inv sb) :
    PairSpec Fa Fb (sa, sb) ((replica2Impl a b).step (sa, sb) (.rm k)).1
      ((replica2Impl a b).step (sa, sb) (.rm k)).2 (.rm k) ∨
    (((replica2Impl a b).step (sa, sb) (.rm k)).2 = .ok ∧
     (((a.step sa (.rm k)).2 = .ok ∧ (b.step sb (.rm k)).2 = .err) ∨
      ((a.step sa (.rm k)).2 = .err ∧ (b.step sb (.rm k)).2 = .ok)) ∧
     Fa.Inv ((replica2Impl a b).step (sa, sb) (.rm k)).1.1 ∧
     Fb.Inv ((replica2Impl a b).step (sa, sb) (.rm k)).1.2 ∧
     (Fa.abs ((replica2Impl a b).step (sa, sb) (.rm k)).1.1 = Fa.abs sa ∨
      Fa.abs ((replica2Impl a b).step (sa, sb) (.rm k)).1.1 = next (Fa.abs sa) (.rm k)) ∧
     (Fb.abs ((replica2Impl a b).step (sa, sb) (.rm k)).1.2 = Fb.abs sb ∨
      Fb.abs ((replica2Impl a b).step (sa, sb) (.rm k)).1.2 = next (Fb.abs sb) (.rm k)) ∧
     (union (Fa.abs ((replica2Impl a b).step (sa, sb) (.rm k)).1.1)
          (Fb.abs ((replica2Impl a b).step (sa, sb) (.rm k)).1.2) = union (Fa.abs sa) (Fb.abs sb) ∨
      union (Fa.abs ((replica2Impl a b).step (sa, sb) (.rm k)).1.1)
          (Fb.abs ((replica2Impl a b).step (sa, sb) (.rm k)).1.2) =
        next (union (Fa.abs sa) (Fb.abs sb)) (.rm k)) ∧
     ¬ (Fa.Quiet sa ∧ Fb.Quiet sb)) := by
  have P := replica2Strict_step Fa Fb sa sb (.rm k) ha hb trivial
  have hsa := (Fa.step_ok sa (.rm k) ha trivial).2
  have hsb := (Fb.step_ok sb (.rm k) hb trivial).2
  rw [rep_rm_eq]
  rcases rmAns_vs_strict (a.step sa (.rm k)).2 (b.step sb (.rm k)).2 with h | ⟨h1, h2, h3⟩
  · rw [h]; exact Or.inl P
  · refine Or.inr ⟨h1, ?_, P.1, P.2.1, P.2.2.1, P.2.2.2.1, stepOK_move P.2.2.2.2.1, ?_⟩
    · have hoa : (a.step sa (.rm k)).2 = .ok ∨ (a.step sa (.rm k)).2 = .err := by
        rcases hsa with ⟨h, _⟩ | ⟨h, _⟩
        · exact Or.inl h
        · exact Or.inr h
      have hob : (b.step sb (.rm k)).2 = .ok ∨ (b.step sb (.rm k)).2 = .err := by
        rcases hsb with ⟨h, _⟩ | ⟨h, _⟩
        · exact Or.inl h
        · exact Or.inr h
      rcases h3 with ⟨h4, h5⟩ | ⟨h4, h5⟩
      · rcases hob with h | h
        · exact absurd h h5
        · exact Or.inl ⟨h4, h⟩
      · rcases hoa with h | h
        · exact absurd h h4
        · exact Or.inr ⟨h, h5⟩
    · intro hQ
      have := (P.2.2.2.2.2 hQ).1
      change rmStrictAns _ _ = _ at this
      rw [h2] at this
      exact absurd this.symm (out_ne_err _ _)

/-- fetch of the real replica (after the repair of finding F-C13-5): the full contract -/
theorem replica2_fetch_step {content : Bytes → Bytes} {a b : Impl} (Fa : FRefines content a)
    (Fb : FRefines content b) (sa : a.σ) (sb : b.σ) (k : Bytes) (ha : Fa.Inv sa) (hb : Fb.Inv sb) :
    PairSpec Fa Fb (sa, sb) ((replica2Impl a b).step (sa, sb) (.fetch k)).1
      ((replica2Impl a b).step (sa, sb) (.fetch k)).2 (.fetch k) := by
  rw [rep_fetch_eq]
  exact fetchStep_pair Fa Fb fetchErrAns rfl (fun _ => rfl) rfl sa sb k ha hb

/-- the contract of the real `replica2Impl`, for every operation, PROVIDED the one bad case does not
occur at this step: a remove on which exactly one replica answered `.ok` -/
theorem replica2_step_ok_of {content : Bytes → Bytes} {a b : Impl} (Fa : FRefines content a)
    (Fb : FRefines content b) (sa : a.σ) (sb : b.σ) (op : Op)
    (ha : Fa.Inv sa) (hb : Fb.Inv sb) (hop : op.WK content)
    (hrm : ∀ k, op = .rm k → ((a.step sa (.rm k)).2 = .ok ↔ (b.step sb (.rm k)).2 = .ok)) :
    PairSpec Fa Fb (sa, sb) ((replica2Impl a b).step (sa, sb) op).1
      ((replica2Impl a b).step (sa, sb) op).2 op := by
  cases op with
  | recv k v => exact replica2_both_spec Fa Fb sa sb (.recv k v) trivial ha hb hop
  | stat k => exact replica2_both_spec Fa Fb sa sb (.stat k) trivial ha hb hop
  | enum after limit => exact replica2_both_spec Fa Fb sa sb (.enum after limit) trivial ha hb hop
  | fetch k => exact replica2_fetch_step Fa Fb sa sb k ha hb
  | rm k =>
    rcases replica2_rm_step Fa Fb sa sb k ha hb with h | ⟨_, h1, _⟩
    · exact h
    · have := hrm k rfl
      rcases h1 with ⟨h2, h3⟩ | ⟨h2, h3⟩
      · rw [this.mp h2] at h3; cases h3
      · rw [this.mpr h3] at h2; cases h2

/-- the StepOK/Inv contract of the real `replica2Impl` for every operation that is not `.rm` -/
theorem replica2_step_ok_except_rm {content : Bytes → Bytes} {a b : Impl} (Fa : FRefines content a)
    (Fb : FRefines content b) (sa : a.σ) (sb : b.σ) (op : Op)
    (ha : Fa.Inv sa) (hb : Fb.Inv sb) (hop : op.WK content) (hnrm : ∀ k, op ≠ .rm k) :
    (Fa.Inv ((replica2Impl a b).step (sa, sb) op).1.1 ∧ Fb.Inv ((replica2Impl a b).step (sa, sb) op).1.2) ∧
    StepOK (union (Fa.abs sa) (Fb.abs sb))
      (union (Fa.abs ((replica2Impl a b).step (sa, sb) op).1.1)
        (Fb.abs ((replica2Impl a b).step (sa, sb) op).1.2))
      ((replica2Impl a b).step (sa, sb) op).2 op :=
  have P := replica2_step_ok_of Fa Fb sa sb op ha hb hop (fun k h => absurd h (hnrm k))
  ⟨⟨P.1, P.2.1⟩, P.2.2.2.2.1⟩

/-- whatever failed, every step of the real replica keeps both sub-invariants -/
theorem replica2_step_inv {content : Bytes → Bytes} {a b : Impl} (Fa : FRefines content a)
    (Fb : FRefines content b) (sa : a.σ) (sb : b.σ) (op : Op)
    (ha : Fa.Inv sa) (hb : Fb.Inv sb) (hop : op.WK content) :
    Fa.Inv ((replica2Impl a b).step (sa, sb) op).1.1 ∧ Fb.Inv ((replica2Impl a b).step (sa, sb) op).1.2 := by
  cases op with
  | recv k v => exact let P := replica2_both_spec Fa Fb sa sb (.recv k v) trivial ha hb hop; ⟨P.1, P.2.1⟩
  | stat k => exact let P := replica2_both_spec Fa Fb sa sb (.stat k) trivial ha hb hop; ⟨P.1, P.2.1⟩
  | enum x l => exact let P := replica2_both_spec Fa Fb sa sb (.enum x l) trivial ha hb hop; ⟨P.1, P.2.1⟩
  | fetch k => exact let P := replica2_fetch_step Fa Fb sa sb k ha hb; ⟨P.1, P.2.1⟩
  | rm k =>
    rcases replica2_rm_step Fa Fb sa sb k ha hb with P | ⟨_, _, h1, h2, _⟩
    · exact ⟨P.1, P.2.1⟩
    · exact ⟨h1, h2⟩

/-- in quiet states every step of the real replica is exact, `.rm` included -/
theorem replica2_quiet_step {content : Bytes → Bytes} {a b : Impl} (Fa : FRefines content a)
    (Fb : FRefines content b) (sa : a.σ) (sb : b.σ) (op : Op)
    (ha : Fa.Inv sa) (hb : Fb.Inv sb) (hq : Fa.Quiet sa ∧ Fb.Quiet sb) (hop : op.WK content) :
    ((replica2Impl a b).step (sa, sb) op).2 = out (union (Fa.abs sa) (Fb.abs sb)) op ∧
    union (Fa.abs ((replica2Impl a b).step (sa, sb) op).1.1)
      (Fb.abs ((replica2Impl a b).step (sa, sb) op).1.2) = next (union (Fa.abs sa) (Fb.abs sb)) op ∧
    (Fa.Quiet ((replica2Impl a b).step (sa, sb) op).1.1 ∧
     Fb.Quiet ((replica2Impl a b).step (sa, sb) op).1.2) := by
  cases op with
  | recv k v => exact (replica2_both_spec Fa Fb sa sb (.recv k v) trivial ha hb hop).2.2.2.2.2 hq
  | stat k => exact (replica2_both_spec Fa Fb sa sb (.stat k) trivial ha hb hop).2.2.2.2.2 hq
  | enum x l => exact (replica2_both_spec Fa Fb sa sb (.enum x l) trivial ha hb hop).2.2.2.2.2 hq
  | fetch k => exact (replica2_fetch_step Fa Fb sa sb k ha hb).2.2.2.2.2 hq
  | rm k =>
    rcases replica2_rm_step Fa Fb sa sb k ha hb with P | ⟨_, _, _, _, _, _, _, h⟩
    · exact P.2.2.2.2.2 hq
    · exact absurd hq h

/-- so the real replica, too, recovers: after any history with any failures, once both sides are quiet
it answers every further history exactly like the reference map started from the union -/
theorem replica2_recovers {content : Bytes → Bytes} {a b : Impl} (Fa : FRefines content a)
    (Fb : FRefines content b) (s : a.σ × b.σ) (ha : Fa.Inv s.1) (hb : Fb.Inv s.2)
    (hq : Fa.Quiet s.1 ∧ Fb.Quiet s.2) (ops : List Op) (hops : ∀ op ∈ ops, op.WK content) :
    (replica2Impl a b).run s ops = run (union (Fa.abs s.1) (Fb.abs s.2)) ops := by
  induction ops generalizing s with
  | nil => rfl
  | cons op ops ih =>
    obtain ⟨sa, sb⟩ := s
    have hop := hops op (by simp)
    obtain ⟨ho, hab, hq'⟩ := replica2_quiet_step Fa Fb sa sb op ha hb hq hop
    obtain ⟨hia, hib⟩ := replica2_step_inv Fa Fb sa sb op ha hb hop
    simp only [Impl.run, run, ho]
    rw [ih _ hia hib hq' (fun o ho' => hops o (by simp [ho'])), hab]

/-- "best effort" remove, concretely: two memory stores, the first one's 2nd call fails before taking
effect.  Receive, remove, fetch: the remove answers `.ok` (the second store did remove), no call
answers an error, and yet the blob is still served afterwards.  The reference map says "not there". -/
theorem replica2_rm_best_effort_counterexample :
    (replica2Impl (faultLeaf memImpl [.none, .before]) (faultLeaf memImpl [])).run
        (replica2Impl (faultLeaf memImpl [.none, .before]) (faultLeaf memImpl [])).init
        [.recv [1] [7], .rm [1], .fetch [1]] = [.sized 1, .ok, .bytes [7]] ∧
    run [] [.recv [1] [7], .rm [1], .fetch [1]] = [.sized 1, .ok, .notExist] := by
  decide

/-- the same step against the contract: contents `{[1] ↦ [7]}` before and after, answer `.ok` -/
theorem replica2_rm_best_effort_not_stepOK :
    let I := replica2Impl (faultLeaf memImpl [.before]) (faultLeaf memImpl [])
    let s : I.σ := (([([1], [7])], [.before]), ([([1], [7])], []))
    (I.step s (.rm [1])).2 = .ok ∧
    ¬ StepOK (union s.1.1 s.2.1) (union (I.step s (.rm [1])).1.1.1 (I.step s (.rm [1])).1.2.1)
        (I.step s (.rm [1])).2 (.rm [1]) := by
  unfold StepOK
  decide

/-! ### finding F-C13-5 (fixed): the old fetch fallback -/

/-- `replica2Impl` with the fetch as it was before the repair of finding F-C13-5 (replica.go `Fetch`
returning the LAST replica's error): after a FAILURE of the first replica the second replica's answer
is passed on as it is, "not there" included.  A local definition, for the record only. -/
def replica2OldFetchImpl (a b : Impl) : Impl where
  σ := a.σ × b.σ
  init := (a.init, b.init)
  step := fun (sa, sb) op =>
    match op with
    | .fetch k => fetchStep a b id sa sb k
    | op => (replica2Impl a b).step (sa, sb) op

/-- the old fetch: either the full contract, or – the first replica's fetch having FAILED and the
second not holding the blob – the call answers "not there" although the first replica may well hold
the blob; the contents are untouched -/
theorem replica2OldFetch_fetch_step {content : Bytes → Bytes} {a b : Impl} (Fa : FRefines content a)
    (Fb : FRefines content b) (sa : a.σ) (sb : b.σ) (k : Bytes) (ha : Fa.Inv sa) (hb : Fb.Inv sb) :
    PairSpec Fa Fb (sa, sb) ((replica2OldFetchImpl a b).step (sa, sb) (.fetch k)).1
      ((replica2OldFetchImpl a b).step (sa, sb) (.fetch k)).2 (.fetch k) ∨
    (((replica2OldFetchImpl a b).step (sa, sb) (.fetch k)).2 = .notExist ∧
     (a.step sa (.fetch k)).2 = .err ∧ (b.step sb (.fetch k)).2 = .notExist ∧
     Fa.Inv ((replica2OldFetchImpl a b).step (sa, sb) (.fetch k)).1.1 ∧
     Fb.Inv ((replica2OldFetchImpl a b).step (sa, sb) (.fetch k)).1.2 ∧
     Fa.abs ((replica2OldFetchImpl a b).step (sa, sb) (.fetch k)).1.1 = Fa.abs sa ∧
     Fb.abs ((replica2OldFetchImpl a b).step (sa, sb) (.fetch k)).1.2 = Fb.abs sb ∧
     ¬ (Fa.Quiet sa ∧ Fb.Quiet sb)) := by
  show PairSpec Fa Fb (sa, sb) (fetchStep a b id sa sb k).1 (fetchStep a b id sa sb k).2 (.fetch k) ∨
    ((fetchStep a b id sa sb k).2 = .notExist ∧ _ ∧ _ ∧ Fa.Inv (fetchStep a b id sa sb k).1.1 ∧
     Fb.Inv (fetchStep a b id sa sb k).1.2 ∧ Fa.abs (fetchStep a b id sa sb k).1.1 = Fa.abs sa ∧
     Fb.abs (fetchStep a b id sa sb k).1.2 = Fb.abs sb ∧ _)
  obtain ⟨h1, h2, h3, h4, h5, h6⟩ := fetchStep_spec Fa Fb id rfl (fun _ => rfl) sa sb k ha hb
  have hU : union (Fa.abs (fetchStep a b id sa sb k).1.1) (Fb.abs (fetchStep a b id sa sb k).1.2) =
      next (union (Fa.abs sa) (Fb.abs sb)) (.fetch k) := by rw [h3, h4]; rfl
  have hq := fun hQ => (⟨(h6 hQ).1, hU, (h6 hQ).2⟩ :
    (fetchStep a b id sa sb k).2 = out (union (Fa.abs sa) (Fb.abs sb)) (.fetch k) ∧ _ ∧ _)
  rcases h5 with h | h | ⟨h, ha', hb', _, hnq⟩
  · exact Or.inl ⟨h1, h2, Or.inl h3, Or.inl h4, Or.inl ⟨h, hU⟩, hq⟩
  · exact Or.inl ⟨h1, h2, Or.inl h3, Or.inl h4, Or.inr ⟨h, Or.inr hU⟩, hq⟩
  · exact Or.inr ⟨h, ha', hb', h1, h2, h3, h4, fun hQ => hnq hQ.1⟩

/-- the old fetch fallback, concretely: a receive reaches the first store only (the second one's call
fails: the receive answers `.err`, which is fine); then the first store's fetch fails once: the old
replica asks the second store and passes on its "not there"; the next fetch serves the blob.  No
reference map answers "not there" and then the bytes without a receive in between.  The repaired
model answers `.err` to the middle call. -/
theorem replica2_fetch_fallback_counterexample :
    (replica2OldFetchImpl (faultLeaf memImpl [.none, .before]) (faultLeaf memImpl [.before])).run
        (replica2OldFetchImpl (faultLeaf memImpl [.none, .before]) (faultLeaf memImpl [.before])).init
        [.recv [1] [7], .fetch [1], .fetch [1]] = [.err, .notExist, .bytes [7]] ∧
    (replica2Impl (faultLeaf memImpl [.none, .before]) (faultLeaf memImpl [.before])).run
        (replica2Impl (faultLeaf memImpl [.none, .before]) (faultLeaf memImpl [.before])).init
        [.recv [1] [7], .fetch [1], .fetch [1]] = [.err, .err, .bytes [7]] := by
  decide

/-- the same step of the old fetch against the contract: contents `{[1] ↦ [7]}` (held by the first
store only), the first store's fetch fails, the answer is `.notExist`: neither exact nor `.err` -/
theorem replica2_fetch_fallback_not_stepOK :
    let I := replica2OldFetchImpl (faultLeaf memImpl [.before]) (faultLeaf memImpl [])
    let s : I.σ := (([([1], [7])], [.before]), ([], []))
    (I.step s (.fetch [1])).2 = .notExist ∧
    ¬ StepOK (union s.1.1 s.2.1) (union (I.step s (.fetch [1])).1.1.1 (I.step s (.fetch [1])).1.2.1)
        (I.step s (.fetch [1])).2 (.fetch [1]) := by
  unfold StepOK
  decide

/-! ### two fault-tolerant stores holding disjoint parts of the key space -/

/-- both sub-invariants hold, `a` holds only keys on side `false`, `b` only keys on side `true` -/
def PartFInv {content : Bytes → Bytes} {a b : Impl} (Fa : FRefines content a) (Fb : FRefines content b)
    (side : Bytes → Bool) (s : a.σ × b.σ) : Prop :=
  Fa.Inv s.1 ∧ Fb.Inv s.2 ∧
  (∀ k, has (Fa.abs s.1) k = true → side k = false) ∧
  (∀ k, has (Fb.abs s.2) k = true → side k = true)

/-- a store at its before- or after-state of `op` still holds keys of its side only, provided a
received key is of its side -/
theorem side_keep {m m' : SMap Bytes} {side : Bytes → Bool} {c : Bool} (hm : KAsc m)
    (h : ∀ k, has m k = true → side k = c) (op : Op) (hmv : m' = m ∨ m' = next m op)
    (hr : opIsRecv op = true → side (opKey op) = c) : ∀ k, has m' k = true → side k = c := by
  rcases hmv with rfl | rfl
  · exact h
  · intro k hh
    rcases has_next hm op k hh with h1 | ⟨h1, h2⟩
    · exact h k h1
    · rw [h2]; exact hr h1

theorem stepSpec_union_left {A B A' : SMap Bytes} {o : Out} {op : Op} {q q' r : Prop}
    (hA : KAsc A) (hB : KAsc B) (hne : opIsEnum op = false) (hk : has B (opKey op) = false)
    (h : StepSpec A A' o op q q') :
    StepSpec (union A B) (union A' B) o op (q ∧ r) (q' ∧ r) := by
  have hex : o = out A op → A' = next A op →
      o = out (union A B) op ∧ union A' B = next (union A B) op := by
    intro ho ha
    exact ⟨ho.trans (out_union_left op hne hk), by rw [ha]; exact next_union_left hA hB op hk⟩
  refine ⟨?_, fun hQ => ?_⟩
  · rcases h.1 with ⟨ho, ha⟩ | ⟨ho, ha | ha⟩
    · exact Or.inl (hex ho ha)
    · exact Or.inr ⟨ho, Or.inl (by rw [ha])⟩
    · exact Or.inr ⟨ho, Or.inr (by rw [ha]; exact next_union_left hA hB op hk)⟩
  · obtain ⟨ho, ha, hq'⟩ := h.2 hQ.1
    exact ⟨(hex ho ha).1, (hex ho ha).2, hq', hQ.2⟩

theorem stepSpec_union_right {A B B' : SMap Bytes} {o : Out} {op : Op} {q q' r : Prop}
    (hA : KAsc A) (hB : KAsc B) (hne : opIsEnum op = false) (hk : has A (opKey op) = false)
    (h : StepSpec B B' o op q q') :
    StepSpec (union A B) (union A B') o op (r ∧ q) (r ∧ q') := by
  have hex : o = out B op → B' = next B op →
      o = out (union A B) op ∧ union A B' = next (union A B) op := by
    intro ho ha
    exact ⟨ho.trans (out_union_right op hne hk), by rw [ha]; exact next_union_right hA hB op hk⟩
  refine ⟨?_, fun hQ => ?_⟩
  · rcases h.1 with ⟨ho, ha⟩ | ⟨ho, ha | ha⟩
    · exact Or.inl (hex ho ha)
    · exact Or.inr ⟨ho, Or.inl (by rw [ha])⟩
    · exact Or.inr ⟨ho, Or.inr (by rw [ha]; exact next_union_right hA hB op hk)⟩
  · obtain ⟨ho, ha, hq'⟩ := h.2 hQ.2
    exact ⟨(hex ho ha).1, (hex ho ha).2, hQ.1, hq'⟩

/-- what a step of a partitioned pair owes -/
def PartSpec {content : Bytes → Bytes} {a b : Impl} (Fa : FRefines content a) (Fb : FRefines content b)
    (side : Bytes → Bool) (s s' : a.σ × b.σ) (o : Out) (op : Op) : Prop :=
  PartFInv Fa Fb side s' ∧
  StepSpec (union (Fa.abs s.1) (Fb.abs s.2)) (union (Fa.abs s'.1) (Fb.abs s'.2)) o op
    (Fa.Quiet s.1 ∧ Fb.Quiet s.2) (Fa.Quiet s'.1 ∧ Fb.Quiet s'.2)

/-- a keyed operation sent to `a` only, its key being on `a`'s side -/
theorem fpart_left {content : Bytes → Bytes} {a b : Impl} (Fa : FRefines content a)
    (Fb : FRefines content b) (side : Bytes → Bool) (sa : a.σ) (sb : b.σ) (op : Op)
    (hne : opIsEnum op = false) (hI : PartFInv Fa Fb side (sa, sb)) (hop : op.WK content)
    (hs : side (opKey op) = false) :
    PartSpec Fa Fb side (sa, sb) ((a.step sa op).1, sb) (a.step sa op).2 op := by
  obtain ⟨hRa, hRb, hA, hB⟩ := hI
  obtain ⟨hi, hsp⟩ := Fa.sub sa op hRa hop
  have hk : has (Fb.abs sb) (opKey op) = false := has_false_of_side hB _ (by simp [hs])
  exact ⟨⟨hi, hRb, side_keep (Fa.good sa hRa).1 hA op (stepOK_move hsp.1) (fun _ => hs), hB⟩,
    stepSpec_union_left (Fa.good sa hRa).1 (Fb.good sb hRb).1 hne hk hsp⟩

/-- a keyed operation sent to `b` only, its key being on `b`'s side -/
theorem fpart_right {content : Bytes → Bytes} {a b : Impl} (Fa : FRefines content a)
    (Fb : FRefines content b) (side : Bytes → Bool) (sa : a.σ) (sb : b.σ) (op : Op)
    (hne : opIsEnum op = false) (hI : PartFInv Fa Fb side (sa, sb)) (hop : op.WK content)
    (hs : side (opKey op) = true) :
    PartSpec Fa Fb side (sa, sb) (sa, (b.step sb op).1) (b.step sb op).2 op := by
  obtain ⟨hRa, hRb, hA, hB⟩ := hI
  obtain ⟨hi, hsp⟩ := Fb.sub sb op hRb hop
  have hk : has (Fa.abs sa) (opKey op) = false := has_false_of_side hA _ (by simp [hs])
  exact ⟨⟨hRa, hi, hA, side_keep (Fb.good sb hRb).1 hB op (stepOK_move hsp.1) (fun _ => hs)⟩,
    stepSpec_union_right (Fa.good sa hRa).1 (Fb.good sb hRb).1 hne hk hsp⟩

/-- a `PairSpec` step that is not a receive keeps the partition -/
theorem part_of_pair {content : Bytes → Bytes} {a b : Impl} (Fa : FRefines content a)
    (Fb : FRefines content b) (side : Bytes → Bool) (s s' : a.σ × b.σ) (o : Out) (op : Op)
    (hnr : opIsRecv op = false) (hI : PartFInv Fa Fb side s) (P : PairSpec Fa Fb s s' o op) :
    PartSpec Fa Fb side s s' o op := by
  obtain ⟨hRa, hRb, hA, hB⟩ := hI
  obtain ⟨hia, hib, hma, hmb, hsp⟩ := P
  exact ⟨⟨hia, hib,
    side_keep (Fa.good _ hRa).1 hA op hma (fun h => by rw [hnr] at h; cases h),
    side_keep (Fb.good _ hRb).1 hB op hmb (fun h => by rw [hnr] at h; cases h)⟩, hsp⟩

/-! ### 2. shard -/

theorem shard2_step_F {content : Bytes → Bytes} (route : Bytes → Bool) {a b : Impl}
    (Fa : FRefines content a) (Fb : FRefines content b) (sa : a.σ) (sb : b.σ) (op : Op)
    (hI : PartFInv Fa Fb route (sa, sb)) (hop : op.WK content) :
    PartSpec Fa Fb route (sa, sb) ((shard2Impl route a b).step (sa, sb) op).1
      ((shard2Impl route a b).step (sa, sb) op).2 op := by
  cases op with
  | enum after limit =>
    have P := pair_both Fa Fb sa sb (.enum after limit) hI.1 hI.2.1 hop (enumAns limit)
      (fun _ _ _ _ h1 h2 => enumAns_exact (Fa.good sa hI.1) (Fb.good sb hI.2.1) h1 h2)
      (enumAns_err_left limit) (enumAns_err_right limit)
    have := part_of_pair Fa Fb route _ _ _ _ rfl hI P
    simp only [shard2Impl, enum2_eq]
    exact this
  | recv k v =>
    simp only [shard2Impl]
    by_cases hr : route k = true
    · simp only [hr, if_true]; exact fpart_right Fa Fb route sa sb _ rfl hI hop hr
    · have hr' : route k = false := by cases h : route k <;> simp_all
      simp only [hr', Bool.false_eq_true, if_false]; exact fpart_left Fa Fb route sa sb _ rfl hI hop hr'
  | fetch k =>
    simp only [shard2Impl]
    by_cases hr : route k = true
    · simp only [hr, if_true]; exact fpart_right Fa Fb route sa sb _ rfl hI hop hr
    · have hr' : route k = false := by cases h : route k <;> simp_all
      simp only [hr', Bool.false_eq_true, if_false]; exact fpart_left Fa Fb route sa sb _ rfl hI hop hr'
  | stat k =>
    simp only [shard2Impl]
    by_cases hr : route k = true
    · simp only [hr, if_true]; exact fpart_right Fa Fb route sa sb _ rfl hI hop hr
    · have hr' : route k = false := by cases h : route k <;> simp_all
      simp only [hr', Bool.false_eq_true, if_false]; exact fpart_left Fa Fb route sa sb _ rfl hI hop hr'
  | rm k =>
    simp only [shard2Impl]
    by_cases hr : route k = true
    · simp only [hr, if_true]; exact fpart_right Fa Fb route sa sb _ rfl hI hop hr
    · have hr' : route k = false := by cases h : route k <;> simp_all
      simp only [hr', Bool.false_eq_true, if_false]; exact fpart_left Fa Fb route sa sb _ rfl hI hop hr'

/-- shard over two fault-tolerant stores is fault-tolerant (the model as written, no caveat: a keyed
call reaches one shard only and its error is passed on; enumerate fails if either shard's does) -/
def shard2FRefines {content : Bytes → Bytes} (route : Bytes → Bool) {a b : Impl}
    (Fa : FRefines content a) (Fb : FRefines content b) : FRefines content (shard2Impl route a b) where
  abs := fun s => union (Fa.abs s.1) (Fb.abs s.2)
  Inv := PartFInv Fa Fb route
  Quiet := fun s => Fa.Quiet s.1 ∧ Fb.Quiet s.2
  init_inv := ⟨Fa.init_inv, Fb.init_inv,
    by intro k h; simp [shard2Impl, Fa.init_abs, has, SMap.get] at h,
    by intro k h; simp [shard2Impl, Fb.init_abs, has, SMap.get] at h⟩
  init_abs := by simp [shard2Impl, Fa.init_abs, Fb.init_abs, union]
  good := fun s h => good_union (Fa.good _ h.1) (Fb.good _ h.2.1)
  step_ok := fun s op h hop =>
    have p := shard2_step_F route Fa Fb s.1 s.2 op h hop
    ⟨p.1, p.2.1⟩
  quiet_step := fun s op h hq hop => (shard2_step_F route Fa Fb s.1 s.2 op h hop).2.2 hq

/-! ### 4. cond -/

/-- `cond2Impl` with reads and removes going through the strict replica (see `replica2StrictImpl`) -/
def cond2StrictImpl (isSchema : Bytes → Bool) (t e : Impl) : Impl where
  σ := t.σ × e.σ
  init := (t.init, e.init)
  step := fun (st, se) op =>
    match op with
    | .recv _ v =>
      if isSchema v then
        match t.step st op with
        | (st1, o) => ((st1, se), o)
      else
        match e.step se op with
        | (se1, o) => ((st, se1), o)
    | op => (replica2StrictImpl t e).step (st, se) op

/-- the invariant of cond: `t` holds only blobs whose content is schema, `e` only the others -/
def CondFInv {content : Bytes → Bytes} (isSchema : Bytes → Bool) {t e : Impl} (Ft : FRefines content t)
    (Fe : FRefines content e) (s : t.σ × e.σ) : Prop :=
  PartFInv Ft Fe (fun k => !isSchema (content k)) s

/-- a well-keyed receive of cond: to the one store chosen by sniffing the bytes (both models) -/
theorem cond2_recv_F {content : Bytes → Bytes} (isSchema : Bytes → Bool) {t e : Impl}
    (Ft : FRefines content t) (Fe : FRefines content e) (st : t.σ) (se : e.σ) (k v : Bytes)
    (hI : CondFInv isSchema Ft Fe (st, se)) (hop : (Op.recv k v).WK content) :
    PartSpec Ft Fe (fun k => !isSchema (content k)) (st, se)
      ((cond2Impl isSchema t e).step (st, se) (.recv k v)).1
      ((cond2Impl isSchema t e).step (st, se) (.recv k v)).2 (.recv k v) := by
  have hv : v = content k := hop.1
  simp only [cond2Impl]
  by_cases hs : isSchema v = true
  · simp only [hs, if_true]
    exact fpart_left Ft Fe _ st se _ rfl hI hop (by simp [opKey, ← hv, hs])
  · have hs' : isSchema v = false := by cases h : isSchema v <;> simp_all
    simp only [hs', Bool.false_eq_true, if_false]
    exact fpart_right Ft Fe _ st se _ rfl hI hop (by simp [opKey, ← hv, hs'])

theorem cond2Strict_recv_eq (isSchema : Bytes → Bool) (t e : Impl) (s : t.σ × e.σ) (k v : Bytes) :
    (cond2StrictImpl isSchema t e).step s (.recv k v) = (cond2Impl isSchema t e).step s (.recv k v) :=
  rfl

theorem cond2Strict_step {content : Bytes → Bytes} (isSchema : Bytes → Bool) {t e : Impl}
    (Ft : FRefines content t) (Fe : FRefines content e) (st : t.σ) (se : e.σ) (op : Op)
    (hI : CondFInv isSchema Ft Fe (st, se)) (hop : op.WK content) :
    PartSpec Ft Fe (fun k => !isSchema (content k)) (st, se)
      ((cond2StrictImpl isSchema t e).step (st, se) op).1
      ((cond2StrictImpl isSchema t e).step (st, se) op).2 op := by
  cases op with
  | recv k v => rw [cond2Strict_recv_eq]; exact cond2_recv_F isSchema Ft Fe st se k v hI hop
  | fetch k =>
    exact part_of_pair Ft Fe _ _ _ _ _ rfl hI (replica2Strict_step Ft Fe st se (.fetch k) hI.1 hI.2.1 hop)
  | stat k =>
    exact part_of_pair Ft Fe _ _ _ _ _ rfl hI (replica2Strict_step Ft Fe st se (.stat k) hI.1 hI.2.1 hop)
  | rm k =>
    exact part_of_pair Ft Fe _ _ _ _ _ rfl hI (replica2Strict_step Ft Fe st se (.rm k) hI.1 hI.2.1 hop)
  | enum x l =>
    exact part_of_pair Ft Fe _ _ _ _ _ rfl hI (replica2Strict_step Ft Fe st se (.enum x l) hI.1 hI.2.1 hop)

/-- cond (write by sniffing, read and remove through the strict replica of both targets) over two
fault-tolerant stores is fault-tolerant -/
def cond2FRefines {content : Bytes → Bytes} (isSchema : Bytes → Bool) {t e : Impl}
    (Ft : FRefines content t) (Fe : FRefines content e) :
    FRefines content (cond2StrictImpl isSchema t e) where
  abs := fun s => union (Ft.abs s.1) (Fe.abs s.2)
  Inv := CondFInv isSchema Ft Fe
  Quiet := fun s => Ft.Quiet s.1 ∧ Fe.Quiet s.2
  init_inv := ⟨Ft.init_inv, Fe.init_inv,
    by intro k h; simp [cond2StrictImpl, Ft.init_abs, has, SMap.get] at h,
    by intro k h; simp [cond2StrictImpl, Fe.init_abs, has, SMap.get] at h⟩
  init_abs := by simp [cond2StrictImpl, Ft.init_abs, Fe.init_abs, union]
  good := fun s h => good_union (Ft.good _ h.1) (Fe.good _ h.2.1)
  step_ok := fun s op h hop =>
    have p := cond2Strict_step isSchema Ft Fe s.1 s.2 op h hop
    ⟨p.1, p.2.1⟩
  quiet_step := fun s op h hq hop => (cond2Strict_step isSchema Ft Fe s.1 s.2 op h hop).2.2 hq

/-! ### 4b. the real cond: reads and removes are the real replica's, with its one bad answer -/

/-- the contract of the real `cond2Impl`, for every operation, PROVIDED the bad case of the real
replica (a remove on which exactly one store answered `.ok`) does not occur at this step -/
theorem cond2_step_ok_of {content : Bytes → Bytes} (isSchema : Bytes → Bool) {t e : Impl}
    (Ft : FRefines content t) (Fe : FRefines content e) (st : t.σ) (se : e.σ) (op : Op)
    (hI : CondFInv isSchema Ft Fe (st, se)) (hop : op.WK content)
    (hrm : ∀ k, op = .rm k → ((t.step st (.rm k)).2 = .ok ↔ (e.step se (.rm k)).2 = .ok)) :
    PartSpec Ft Fe (fun k => !isSchema (content k)) (st, se)
      ((cond2Impl isSchema t e).step (st, se) op).1 ((cond2Impl isSchema t e).step (st, se) op).2 op := by
  have P := fun hnr : opIsRecv op = false => part_of_pair Ft Fe (fun k => !isSchema (content k))
    (st, se) _ _ op hnr hI (replica2_step_ok_of Ft Fe st se op hI.1 hI.2.1 hop hrm)
  cases op with
  | recv k v => exact cond2_recv_F isSchema Ft Fe st se k v hI hop
  | fetch k => exact P rfl
  | stat k => exact P rfl
  | rm k => exact P rfl
  | enum x l => exact P rfl

/-- the StepOK/Inv contract of the real `cond2Impl` for every operation that is not `.rm` -/
theorem cond2_step_ok_except_rm {content : Bytes → Bytes} (isSchema : Bytes → Bool) {t e : Impl}
    (Ft : FRefines content t) (Fe : FRefines content e) (st : t.σ) (se : e.σ) (op : Op)
    (hI : CondFInv isSchema Ft Fe (st, se)) (hop : op.WK content) (hnrm : ∀ k, op ≠ .rm k) :
    CondFInv isSchema Ft Fe ((cond2Impl isSchema t e).step (st, se) op).1 ∧
    StepOK (union (Ft.abs st) (Fe.abs se))
      (union (Ft.abs ((cond2Impl isSchema t e).step (st, se) op).1.1)
        (Fe.abs ((cond2Impl isSchema t e).step (st, se) op).1.2))
      ((cond2Impl isSchema t e).step (st, se) op).2 op :=
  have P := cond2_step_ok_of isSchema Ft Fe st se op hI hop (fun k h => absurd h (hnrm k))
  ⟨P.1, P.2.1⟩

/-- whatever failed, every step of the real cond keeps its invariant -/
theorem cond2_step_inv {content : Bytes → Bytes} (isSchema : Bytes → Bool) {t e : Impl}
    (Ft : FRefines content t) (Fe : FRefines content e) (st : t.σ) (se : e.σ) (op : Op)
    (hI : CondFInv isSchema Ft Fe (st, se)) (hop : op.WK content) :
    CondFInv isSchema Ft Fe ((cond2Impl isSchema t e).step (st, se) op).1 := by
  have hgo : ∀ o, (∀ k, op ≠ .rm k) → op = o →
      CondFInv isSchema Ft Fe ((cond2Impl isSchema t e).step (st, se) o).1 := by
    intro o h1 ho
    subst ho
    exact (cond2_step_ok_of isSchema Ft Fe st se op hI hop (fun k h => absurd h (h1 k))).1
  obtain ⟨hRa, hRb, hA, hB⟩ := hI
  cases op with
  | recv k v => exact hgo _ (fun _ h => by cases h) rfl
  | stat k => exact hgo _ (fun _ h => by cases h) rfl
  | enum x l => exact hgo _ (fun _ h => by cases h) rfl
  | fetch k => exact hgo _ (fun _ h => by cases h) rfl
  | rm k =>
    rcases replica2_rm_step Ft Fe st se k hRa hRb with P | ⟨_, _, h1, h2, h3, h4, _⟩
    · exact (part_of_pair Ft Fe _ (st, se) _ _ _ rfl ⟨hRa, hRb, hA, hB⟩ P).1
    · exact ⟨h1, h2,
        side_keep (Ft.good _ hRa).1 hA (.rm k) h3 (fun h => by cases h),
        side_keep (Fe.good _ hRb).1 hB (.rm k) h4 (fun h => by cases h)⟩

/-- in quiet states every step of the real cond is exact -/
theorem cond2_quiet_step {content : Bytes → Bytes} (isSchema : Bytes → Bool) {t e : Impl}
    (Ft : FRefines content t) (Fe : FRefines content e) (st : t.σ) (se : e.σ) (op : Op)
    (hI : CondFInv isSchema Ft Fe (st, se)) (hq : Ft.Quiet st ∧ Fe.Quiet se) (hop : op.WK content) :
    ((cond2Impl isSchema t e).step (st, se) op).2 = out (union (Ft.abs st) (Fe.abs se)) op ∧
    union (Ft.abs ((cond2Impl isSchema t e).step (st, se) op).1.1)
      (Fe.abs ((cond2Impl isSchema t e).step (st, se) op).1.2) = next (union (Ft.abs st) (Fe.abs se)) op ∧
    (Ft.Quiet ((cond2Impl isSchema t e).step (st, se) op).1.1 ∧
     Fe.Quiet ((cond2Impl isSchema t e).step (st, se) op).1.2) := by
  cases op with
  | recv k v => exact (cond2_recv_F isSchema Ft Fe st se k v hI hop).2.2 hq
  | fetch k => exact replica2_quiet_step Ft Fe st se (.fetch k) hI.1 hI.2.1 hq hop
  | stat k => exact replica2_quiet_step Ft Fe st se (.stat k) hI.1 hI.2.1 hq hop
  | rm k => exact replica2_quiet_step Ft Fe st se (.rm k) hI.1 hI.2.1 hq hop
  | enum x l => exact replica2_quiet_step Ft Fe st se (.enum x l) hI.1 hI.2.1 hq hop

/-- so the real cond, too, recovers once both sides are quiet -/
theorem cond2_recovers {content : Bytes → Bytes} (isSchema : Bytes → Bool) {t e : Impl}
    (Ft : FRefines content t) (Fe : FRefines content e) (s : t.σ × e.σ)
    (hI : CondFInv isSchema Ft Fe s) (hq : Ft.Quiet s.1 ∧ Fe.Quiet s.2) (ops : List Op)
    (hops : ∀ op ∈ ops, op.WK content) :
    (cond2Impl isSchema t e).run s ops = run (union (Ft.abs s.1) (Fe.abs s.2)) ops := by
  induction ops generalizing s with
  | nil => rfl
  | cons op ops ih =>
    obtain ⟨st, se⟩ := s
    have hop := hops op (by simp)
    obtain ⟨ho, hab, hq'⟩ := cond2_quiet_step isSchema Ft Fe st se op hI hq hop
    have hi := cond2_step_inv isSchema Ft Fe st se op hI hop
    simp only [Impl.run, run, ho]
    rw [ih _ hi hq' (fun o ho' => hops o (by simp [ho'])), hab]

/-- cond, concretely (everything is schema, so every blob lives in the first store and the second
never holds it): ONE failed remove on the first store is masked by the second store's `.ok` -/
theorem cond2_rm_best_effort_counterexample :
    (cond2Impl (fun _ => true) (faultLeaf memImpl [.none, .before]) (faultLeaf memImpl [])).run
        (cond2Impl (fun _ => true) (faultLeaf memImpl [.none, .before]) (faultLeaf memImpl [])).init
        [.recv [1] [7], .rm [1], .fetch [1]] = [.sized 1, .ok, .bytes [7]] ∧
    run [] [.recv [1] [7], .rm [1], .fetch [1]] = [.sized 1, .ok, .notExist] := by
  decide

/-- `cond2Impl` reading through the OLD replica fetch (before the repair of finding F-C13-5); a
local definition, for the record only -/
def cond2OldFetchImpl (isSchema : Bytes → Bool) (t e : Impl) : Impl where
  σ := t.σ × e.σ
  init := (t.init, e.init)
  step := fun (st, se) op =>
    match op with
    | .fetch k => (replica2OldFetchImpl t e).step (st, se) (.fetch k)
    | op => (cond2Impl isSchema t e).step (st, se) op

/-- cond over the OLD fetch, concretely (finding F-C13-5, fixed): ONE failed fetch on the first store
is answered "not there" (the second store never holds a schema blob), and the next fetch serves the
blob; no call answers an error.  The repaired model answers `.err` to the middle call. -/
theorem cond2_fetch_fallback_counterexample :
    (cond2OldFetchImpl (fun _ => true) (faultLeaf memImpl [.none, .before]) (faultLeaf memImpl [])).run
        (cond2OldFetchImpl (fun _ => true) (faultLeaf memImpl [.none, .before]) (faultLeaf memImpl [])).init
        [.recv [1] [7], .fetch [1], .fetch [1]] = [.sized 1, .notExist, .bytes [7]] ∧
    run [] [.recv [1] [7], .fetch [1], .fetch [1]] = [.sized 1, .bytes [7], .bytes [7]] ∧
    (cond2Impl (fun _ => true) (faultLeaf memImpl [.none, .before]) (faultLeaf memImpl [])).run
        (cond2Impl (fun _ => true) (faultLeaf memImpl [.none, .before]) (faultLeaf memImpl [])).init
        [.recv [1] [7], .fetch [1], .fetch [1]] = [.sized 1, .err, .bytes [7]] := by
  decide

end Pk.Stores
