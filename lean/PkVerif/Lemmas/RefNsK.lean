import PkVerif.Lemmas.RefNs
/-! C01: the namespace combinator under a key predicate (`RefinesK`): same proof as `nsRefines`. -/
namespace Pk.Stores
open Pk Pk.SMap Pk.RefMap

def nsInvK {content : Bytes → Bytes} {K : Bytes → Prop} {master : Impl} (R : RefinesK content K master)
    (s : (nsImpl master).σ) : Prop :=
  R.Inv s.2 ∧ KAsc s.1 ∧
  ∀ k sz, SMap.get s.1 k = some sz →
    SMap.get (R.abs s.2) k = some (content k) ∧ (content k).length = sz ∧ k ≠ []

def nsRefinesK {content : Bytes → Bytes} {K : Bytes → Prop} {master : Impl} (R : RefinesK content K master) :
    RefinesK content K (nsImpl master) where
  abs := fun s => mapK content s.1
  Inv := nsInvK R
  init_inv := ⟨R.init_inv, kasc_nil, by intro k sz h; simp [nsImpl, SMap.get] at h⟩
  init_abs := rfl
  good := by
    rintro ⟨inv, ms⟩ ⟨_, hK, hI⟩
    refine ⟨kasc_mapK _ hK, ?_⟩
    intro k v h
    rw [get_mapK] at h
    cases hg : SMap.get inv k with
    | none => simp [has, hg] at h
    | some sz =>
      simp [has, hg] at h
      exact ⟨h.symm, (hI k sz hg).2.2⟩
  keys := by
    rintro ⟨inv, ms⟩ ⟨hR, _, hI⟩ k v h
    rw [get_mapK] at h
    cases hg : SMap.get inv k with
    | none => simp [has, hg] at h
    | some sz => exact R.keys ms hR k _ (hI k sz hg).1
  step_ok := by
    rintro ⟨inv, ms⟩ op ⟨hR, hK, hI⟩ hop hKop
    cases op with
    | recv k v =>
      obtain ⟨hv, hkne⟩ := hop
      obtain ⟨ho, ha, hi⟩ := R.step_ok ms (.recv k v) hR ⟨hv, hkne⟩ hKop
      simp only [nsImpl]
      by_cases hh : has inv k = true
      · simp only [hh, if_true, out, next, has_mapK]
        exact ⟨trivial, trivial, hR, hK, hI⟩
      · have hh' : has inv k = false := by cases h : has inv k <;> simp_all
        generalize hst : master.step ms (.recv k v) = pr at ho ha hi
        obtain ⟨ms', o⟩ := pr
        simp only [out] at ho
        simp only at ho ha hi
        subst ho
        simp only [hh', Bool.false_eq_true, if_false, hst, out, next, has_mapK, mapK_ins]
        refine ⟨trivial, by rw [hv], hi, kasc_ins _ _ hK, ?_⟩
        intro k' sz hg
        rw [get_ins] at hg
        rw [ha]
        by_cases hk : k' = k
        · subst hk
          simp only [if_true] at hg
          injection hg with hg
          refine ⟨?_, by rw [← hg, hv], hkne⟩
          simp only [next]
          by_cases hm : has (R.abs ms) k' = true
          · simp only [hm, if_true]
            cases hgm : SMap.get (R.abs ms) k' with
            | none => simp [has, hgm] at hm
            | some w => rw [((R.good ms hR).2 _ _ hgm).1]
          · have : has (R.abs ms) k' = false := by cases h : has (R.abs ms) k' <;> simp_all
            simp only [this, Bool.false_eq_true, if_false, get_ins, if_true, hv]
        · simp only [hk, if_false] at hg
          obtain ⟨h1, h2, h3⟩ := hI k' sz hg
          refine ⟨?_, h2, h3⟩
          simp only [next]
          by_cases hm : has (R.abs ms) k = true
          · simp only [hm, if_true]; exact h1
          · have : has (R.abs ms) k = false := by cases h : has (R.abs ms) k <;> simp_all
            simp only [this, Bool.false_eq_true, if_false, get_ins, hk, if_false]; exact h1
    | fetch k =>
      obtain ⟨ho, ha, hi⟩ := R.step_ok ms (.fetch k) hR trivial trivial
      simp only [nsImpl]
      cases hg : SMap.get inv k with
      | none =>
        simp only [out, next, get_mapK, has, hg]
        exact ⟨by simp, trivial, hR, hK, hI⟩
      | some sz =>
        obtain ⟨h1, h2, _⟩ := hI k sz hg
        generalize hst : master.step ms (.fetch k) = pr at ho ha hi
        obtain ⟨ms', o⟩ := pr
        simp only [out, h1] at ho
        simp only at ho ha hi
        subst ho
        simp only [next] at ha
        have hne : ¬ (content k).length ≠ sz := by simp [h2]
        simp only [hne, if_false, out, next, get_mapK, has, hg]
        refine ⟨by simp, trivial, hi, hK, ?_⟩
        rw [ha]; exact hI
    | stat k =>
      simp only [nsImpl]
      cases hg : SMap.get inv k with
      | none =>
        simp only [out, next, get_mapK, has, hg]
        exact ⟨by simp, trivial, hR, hK, hI⟩
      | some sz =>
        obtain ⟨_, h2, _⟩ := hI k sz hg
        simp only [out, next, get_mapK, has, hg]
        exact ⟨by simp [h2], trivial, hR, hK, hI⟩
    | rm k =>
      simp only [nsImpl, out, next, mapK_del]
      refine ⟨trivial, trivial, hR, kasc_del _ hK, ?_⟩
      intro k' sz hg
      rw [get_del k hK] at hg
      by_cases hk : k' = k
      · simp [hk] at hg
      · simp only [hk, if_false] at hg; exact hI k' sz hg
    | enum after limit =>
      simp only [nsImpl, out, next]
      refine ⟨?_, trivial, hR, hK, hI⟩
      have hne : ∀ p ∈ inv, p.1 ≠ [] := by
        intro p hp
        obtain ⟨k, sz⟩ := p
        exact (hI k sz (mem_get hK hp)).2.2
      rw [findSkip_eq_filter_gt hK hne]
      unfold enumOf
      rw [mapK_filter]
      rw [sizes_mapK]
      intro p hp
      have hp' := (List.mem_filter.mp hp).1
      exact ns_sizes (fun k sz h => (hI k sz h).2.1) hK p hp'


end Pk.Stores
