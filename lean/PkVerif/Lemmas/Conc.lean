import PkVerif.Model.Conc
/-!
# Lemmas: forward simulation from the interleaving model to the reference map (C14)

`CRefines` packages the proof obligations on a store's atomic sections: every section of a call
either is the call's linearisation step – it changes the abstract state exactly as `RefMap.next`
does and fixes the answer `RefMap.out` – or leaves the abstract state alone.  `sim_exec` is the one
generic theorem: for ANY schedule the recorded trace passes the linearizability check.
-/
namespace Pk.Conc
open Pk Pk.SMap Pk.RefMap

/-- the shape of `CRefines.pre_sec`'s conclusion -/
def PreGoal (S : CStore) (anom : Op → Out → Bool) (abs : S.σ → SMap Bytes) (Inv : S.σ → Prop)
    (Pre : Op → S.L → Prop) (Post : Op → S.L → Out → Prop) (s : S.σ) (op : Op) (l : S.L) : Prop :=
  Inv (S.sec s op l).1 ∧
    (if S.lin s op l = true then
      abs (S.sec s op l).1 = next (abs s) op ∧
      (match (S.sec s op l).2 with
       | .inl l' => Post op l' (out (abs s) op)
       | .inr o => o = out (abs s) op ∨ anom op o = true)
    else
      abs (S.sec s op l).1 = abs s ∧
      (match (S.sec s op l).2 with | .inl l' => Pre op l' | .inr _ => False))

def PostGoal (S : CStore) (anom : Op → Out → Bool) (abs : S.σ → SMap Bytes) (Inv : S.σ → Prop)
    (Post : Op → S.L → Out → Prop) (s : S.σ) (op : Op) (l : S.L) (o : Out) : Prop :=
  S.lin s op l = false ∧ Inv (S.sec s op l).1 ∧ abs (S.sec s op l).1 = abs s ∧
    (match (S.sec s op l).2 with
     | .inl l' => Post op l' o
     | .inr o' => o' = o ∨ anom op o' = true)

structure CRefines (content : Bytes → Bytes) (S : CStore) (anom : Op → Out → Bool) where
  abs : S.σ → SMap Bytes
  Inv : S.σ → Prop
  /-- invariant of the local state before / after the call's linearisation point; `Post op l o`: the
  reference map answered `o` at the linearisation point -/
  Pre : Op → S.L → Prop
  Post : Op → S.L → Out → Prop
  init_inv : Inv S.init
  init_abs : abs S.init = []
  good : ∀ s, Inv s → Good content (abs s)
  start_pre : ∀ op, op.WK content → Pre op (S.start op)
  /-- a section of a call that has not linearised yet: either it is the linearisation step, or it does
  not change the abstract state and does not return -/
  pre_sec : ∀ s op l, Inv s → op.WK content → Pre op l → PreGoal S anom abs Inv Pre Post s op l
  /-- a section after the linearisation step: never a second linearisation, no abstract change, and the
  answer is the one fixed at the linearisation point -/
  post_sec : ∀ s op l o, Inv s → op.WK content → Post op l o → PostGoal S anom abs Inv Post s op l o

theorem replay_append (anom : Op → Out → Bool) (tr evs : List Ev) :
    replay anom (tr ++ evs) = evs.foldl (chk anom) (replay anom tr) := by
  simp [replay, List.foldl_append]

theorem upd_same {α : Type} (f : Nat → α) (c : Nat) (v : α) : upd f c v c = v := by simp [upd]

theorem upd_other {α : Type} (f : Nat → α) {c c' : Nat} (v : α) (h : c' ≠ c) : upd f c v c' = f c' := by
  simp [upd, h]

theorem chk_inv_idle (anom : Op → Out → Bool) (k : Chk) (c : Nat) (op : Op) (h : k.cl c = .idle) :
    chk anom k (.inv c op) = { k with cl := upd k.cl c (.running op) } := by
  simp [chk, h]

theorem chk_lin_running (anom : Op → Out → Bool) (k : Chk) (c : Nat) (op : Op) (h : k.cl c = .running op) :
    chk anom k (.lin c op) = { m := next k.m op, cl := upd k.cl c (.done op (out k.m op)), ok := k.ok } := by
  simp [chk, h]

theorem chk_ret_done (anom : Op → Out → Bool) (k : Chk) (c : Nat) (op : Op) (o o' : Out)
    (h : k.cl c = .done op o') (ho : o = o' ∨ anom op o = true) :
    chk anom k (.ret c op o) = { k with cl := upd k.cl c .idle } := by
  simp [chk, h, ho]

section sim
variable {content : Bytes → Bytes} {S : CStore} {anom : Op → Out → Bool}

/-- the relation between a client's thread and the checker's view of that client -/
def ThrRel (R : CRefines content S anom) : Option (Thread S) → CSt → Prop
  | none, .idle => True
  | some t, .running op => t.op = op ∧ op.WK content ∧ R.Pre op t.l
  | some t, .done op o => t.op = op ∧ op.WK content ∧ R.Post op t.l o
  | _, _ => False

/-- the simulation invariant: the checker's reference map is the abstraction of the shared state -/
structure Sim (R : CRefines content S anom) (y : Sys S) : Prop where
  ok : (replay anom y.trace).ok = true
  inv : R.Inv y.sh
  m_eq : (replay anom y.trace).m = R.abs y.sh
  thr : ∀ c, ThrRel R (y.thr c) ((replay anom y.trace).cl c)

theorem sim_init (R : CRefines content S anom) : Sim R (Sys.init S) where
  ok := rfl
  inv := R.init_inv
  m_eq := by simp [Sys.init, replay, Chk.init, R.init_abs]
  thr := fun _ => by simp [Sys.init, replay, Chk.init, ThrRel]

theorem thrRel_upd (R : CRefines content S anom) (thr : Nat → Option (Thread S)) (cl : Nat → CSt)
    (c : Nat) (t : Option (Thread S)) (s : CSt) (h : ∀ c', ThrRel R (thr c') (cl c'))
    (hc : ThrRel R t s) : ∀ c', ThrRel R (upd thr c t c') (upd cl c s c') := by
  intro c'
  by_cases e : c' = c
  · subst e; simp [upd_same, hc]
  · simp [upd_other _ _ e, h c']

theorem sim_call (R : CRefines content S anom) (y : Sys S) (hs : Sim R y) (c : Nat) (op : Op)
    (hwk : op.WK content) : Sim R (Sys.step S y (.call c op)) := by
  simp only [Sys.step]
  cases ht : y.thr c with
  | some t => simpa using hs
  | none =>
    have rel := hs.thr c
    rw [ht] at rel
    have hcl : (replay anom y.trace).cl c = .idle := by
      cases hk : (replay anom y.trace).cl c <;> simp [hk, ThrRel] at rel ⊢
    have hr : replay anom (y.trace ++ [Ev.inv c op]) =
        { replay anom y.trace with cl := upd (replay anom y.trace).cl c (.running op) } := by
      rw [replay_append]; simp [chk_inv_idle anom _ c op hcl]
    exact
      { ok := by simp [hr, hs.ok]
        inv := hs.inv
        m_eq := by simp [hr, hs.m_eq]
        thr := by
          simp only [hr]
          exact thrRel_upd R _ _ c _ _ hs.thr ⟨rfl, hwk, R.start_pre op hwk⟩ }

theorem sim_step (R : CRefines content S anom) (y : Sys S) (hs : Sim R y) (c : Nat) :
    Sim R (Sys.step S y (.step c)) := by
  simp only [Sys.step]
  cases ht : y.thr c with
  | none => simpa using hs
  | some t =>
    have rel := hs.thr c
    rw [ht] at rel
    cases hk : (replay anom y.trace).cl c with
    | idle => simp [hk, ThrRel] at rel
    | running op =>
      rw [hk] at rel
      obtain ⟨hop, hwk, hpre⟩ := rel
      have hps := R.pre_sec y.sh op t.l hs.inv hwk hpre
      unfold PreGoal at hps
      obtain ⟨hinv', hrest⟩ := hps
      by_cases hl : S.lin y.sh op t.l = true
      · -- the linearisation step
        rw [if_pos hl] at hrest
        obtain ⟨habs, hout⟩ := hrest
        have hlin : replay anom (y.trace ++ [Ev.lin c op]) =
            { m := next (replay anom y.trace).m op,
              cl := upd (replay anom y.trace).cl c (.done op (out (replay anom y.trace).m op)),
              ok := (replay anom y.trace).ok } := by
          rw [replay_append]; simp [chk_lin_running anom _ c op hk]
        simp only [hop, hl, if_true]
        cases hr : (S.sec y.sh op t.l).2 with
        | inl l' =>
          rw [hr] at hout
          simp only []
          exact
            { ok := by simp [hlin, hs.ok]
              inv := hinv'
              m_eq := by simp [hlin, hs.m_eq, habs]
              thr := by
                simp only [hlin]
                refine thrRel_upd R _ _ c _ _ hs.thr ?_
                exact ⟨rfl, hwk, by rw [hs.m_eq]; exact hout⟩ }
        | inr o =>
          rw [hr] at hout
          simp only []
          simp only [List.append_assoc, List.cons_append, List.nil_append]
          have hret : replay anom (y.trace ++ [Ev.lin c op, Ev.ret c op o]) =
              { m := next (replay anom y.trace).m op,
                cl := upd (upd (replay anom y.trace).cl c (.done op (out (replay anom y.trace).m op))) c .idle,
                ok := (replay anom y.trace).ok } := by
            rw [show y.trace ++ [Ev.lin c op, Ev.ret c op o] = y.trace ++ [Ev.lin c op] ++ [Ev.ret c op o] by simp,
              replay_append, hlin]
            simp only [List.foldl_cons, List.foldl_nil]
            rw [chk_ret_done anom _ c op o (out (replay anom y.trace).m op) (by simp [upd_same])
              (by rw [hs.m_eq]; exact hout)]
          exact
            { ok := by simp [hret, hs.ok]
              inv := hinv'
              m_eq := by simp [hret, hs.m_eq, habs]
              thr := by
                simp only [hret]
                intro c'
                by_cases e : c' = c
                · subst e; simp [upd_same, ThrRel]
                · simp only [upd_other _ _ e]; exact hs.thr c' }
      · -- a section before the linearisation point
        rw [if_neg hl] at hrest
        obtain ⟨habs, hout⟩ := hrest
        have hl' : S.lin y.sh op t.l = false := by simpa using hl
        simp only [hop, hl', Bool.false_eq_true, if_false, List.append_nil]
        cases hr : (S.sec y.sh op t.l).2 with
        | inl l' =>
          rw [hr] at hout
          simp only []
          exact
            { ok := hs.ok
              inv := hinv'
              m_eq := by simp [hs.m_eq, habs]
              thr := by
                intro c'
                by_cases e : c' = c
                · subst e; simp only [upd_same, hk]; exact ⟨rfl, hwk, hout⟩
                · simp only [upd_other _ _ e]; exact hs.thr c' }
        | inr o => rw [hr] at hout; exact hout.elim
    | done op o =>
      rw [hk] at rel
      obtain ⟨hop, hwk, hpost⟩ := rel
      have hps := R.post_sec y.sh op t.l o hs.inv hwk hpost
      unfold PostGoal at hps
      obtain ⟨hl, hinv', habs, hout⟩ := hps
      simp only [hop, hl, Bool.false_eq_true, if_false, List.append_nil]
      cases hr : (S.sec y.sh op t.l).2 with
      | inl l' =>
        rw [hr] at hout
        simp only []
        exact
          { ok := hs.ok
            inv := hinv'
            m_eq := by simp [hs.m_eq, habs]
            thr := by
              intro c'
              by_cases e : c' = c
              · subst e; simp only [upd_same, hk]; exact ⟨rfl, hwk, hout⟩
              · simp only [upd_other _ _ e]; exact hs.thr c' }
      | inr o' =>
        rw [hr] at hout
        simp only []
        have hret : replay anom (y.trace ++ [Ev.ret c op o']) =
            { replay anom y.trace with cl := upd (replay anom y.trace).cl c .idle } := by
          rw [replay_append]
          simp only [List.foldl_cons, List.foldl_nil]
          rw [chk_ret_done anom _ c op o' o hk hout]
        exact
          { ok := by simp [hret, hs.ok]
            inv := hinv'
            m_eq := by simp [hret, hs.m_eq, habs]
            thr := by
              simp only [hret]
              intro c'
              by_cases e : c' = c
              · subst e; simp [upd_same, ThrRel]
              · simp only [upd_other _ _ e]; exact hs.thr c' }

/-- every call label of the schedule carries a well-keyed operation -/
def SchedWK (content : Bytes → Bytes) (sched : List Lbl) : Prop :=
  ∀ c op, Lbl.call c op ∈ sched → op.WK content

theorem sim_foldl (R : CRefines content S anom) (sched : List Lbl) (hwk : SchedWK content sched)
    (y : Sys S) (hs : Sim R y) : Sim R (sched.foldl (Sys.step S) y) := by
  induction sched generalizing y with
  | nil => exact hs
  | cons lbl rest ih =>
    simp only [List.foldl_cons]
    apply ih (fun c op h => hwk c op (by simp [h]))
    cases lbl with
    | call c op => exact sim_call R y hs c op (hwk c op (by simp))
    | step c => exact sim_step R y hs c

/-- the generic theorem: any schedule of any number of clients yields a linearizable trace, and the
shared state's abstraction is the reference map after the linearised history -/
theorem sim_exec (R : CRefines content S anom) (sched : List Lbl) (hwk : SchedWK content sched) :
    Sim R (exec S sched) :=
  sim_foldl R sched hwk _ (sim_init R)

end sim


/-! ## the three stores refine the reference map -/

theorem ins_of_get {V : Type} {m : SMap V} (hm : KAsc m) {k : Bytes} {v : V} (h : get m k = some v) :
    ins k v m = m := by
  apply SMap.ext (kasc_ins k v hm) hm
  intro x
  rw [get_ins]
  by_cases e : x = k
  · subst e; simp [h]
  · simp [e]

/-- receiving a well-keyed blob by plain insertion is the reference map's `next` -/
theorem ins_eq_next {content : Bytes → Bytes} {m : SMap Bytes} (hm : Good content m) (k v : Bytes)
    (hwk : (Op.recv k v).WK content) : ins k v m = next m (.recv k v) := by
  simp only [next]
  split
  · rename_i hh
    simp only [has, Option.isSome_iff_exists] at hh
    obtain ⟨v', hv'⟩ := hh
    have := (hm.2 k v' hv').1
    rw [this, ← hwk.1] at hv'
    exact ins_of_get hm.1 hv'
  · rfl

theorem scanStep_inr {m : SMap Bytes} {cur : Bytes} {acc : List (Bytes × Nat)} {rem : Nat} {o : Out}
    (h : scanStep m cur acc rem = .inr o) : ∃ l, o = .refs l := by
  unfold scanStep at h
  split at h
  · cases h; exact ⟨_, rfl⟩
  · split at h
    · cases h; exact ⟨_, rfl⟩
    · cases h

theorem scanStep_inl {m : SMap Bytes} {cur : Bytes} {acc : List (Bytes × Nat)} {rem : Nat} {l : PC}
    (h : scanStep m cur acc rem = .inl l) : ∃ a b c, l = .scan a b c := by
  unfold scanStep at h
  split at h
  · cases h
  · split at h
    · cases h
    · cases h; exact ⟨_, _, _, rfl⟩

theorem scanSec_inr {m : SMap Bytes} {a : Bytes} {n : Nat} {pc : PC} {o : Out}
    (h : scanSec m a n pc = .inr o) : ∃ l, o = .refs l := by
  unfold scanSec at h
  split at h
  · exact scanStep_inr h
  · split at h
    · cases h; exact ⟨_, rfl⟩
    · exact scanStep_inr h

theorem scanSec_inl {m : SMap Bytes} {a : Bytes} {n : Nat} {pc l : PC}
    (h : scanSec m a n pc = .inl l) : ∃ a b c, l = .scan a b c := by
  unfold scanSec at h
  split at h
  · exact scanStep_inl h
  · split at h
    · cases h
    · exact scanStep_inl h

section helpers
variable {S : CStore} {anom : Op → Out → Bool} {abs : S.σ → SMap Bytes} {Inv : S.σ → Prop}
  {Pre : Op → S.L → Prop} {Post : Op → S.L → Out → Prop} {s s' : S.σ} {op : Op} {l l' : S.L} {o : Out}

/-- the linearisation step returns -/
theorem pre_lin_ret (hl : S.lin s op l = true) (hs : S.sec s op l = (s', .inr o)) (hi : Inv s')
    (ha : abs s' = next (abs s) op) (ho : o = out (abs s) op ∨ anom op o = true) :
    PreGoal S anom abs Inv Pre Post s op l := by
  unfold PreGoal; rw [hs, if_pos hl]; exact ⟨hi, ha, ho⟩

/-- the linearisation step continues -/
theorem pre_lin_cont (hl : S.lin s op l = true) (hs : S.sec s op l = (s', .inl l')) (hi : Inv s')
    (ha : abs s' = next (abs s) op) (hp : Post op l' (out (abs s) op)) :
    PreGoal S anom abs Inv Pre Post s op l := by
  unfold PreGoal; rw [hs, if_pos hl]; exact ⟨hi, ha, hp⟩

/-- a section before the linearisation point -/
theorem pre_nolin_cont (hl : S.lin s op l = false) (hs : S.sec s op l = (s', .inl l')) (hi : Inv s')
    (ha : abs s' = abs s) (hp : Pre op l') :
    PreGoal S anom abs Inv Pre Post s op l := by
  unfold PreGoal; rw [hs, if_neg (by simp [hl])]; exact ⟨hi, ha, hp⟩

theorem post_ret (hl : S.lin s op l = false) (hs : S.sec s op l = (s', .inr o')) (hi : Inv s')
    (ha : abs s' = abs s) (ho : o' = o ∨ anom op o' = true) :
    PostGoal S anom abs Inv Post s op l o := by
  unfold PostGoal; rw [hs]; exact ⟨hl, hi, ha, ho⟩

theorem post_cont (hl : S.lin s op l = false) (hs : S.sec s op l = (s', .inl l')) (hi : Inv s')
    (ha : abs s' = abs s) (hp : Post op l' o) :
    PostGoal S anom abs Inv Post s op l o := by
  unfold PostGoal; rw [hs]; exact ⟨hl, hi, ha, hp⟩

end helpers

/-- memory.Storage: every call is its own linearisation point; no anomaly -/
def lockMapRefines (content : Bytes → Bytes) : CRefines content lockMap noAnom where
  abs := fun s => s
  Inv := Good content
  Pre := fun _ _ => True
  Post := fun _ _ _ => False
  init_inv := good_nil content
  init_abs := rfl
  good := fun _ h => h
  start_pre := fun _ _ => trivial
  pre_sec := by
    intro s op l hi hwk _
    exact pre_lin_ret (S := lockMap) (s' := next s op) (o := out s op) rfl rfl (good_next hi op hwk) rfl (Or.inl rfl)
  post_sec := by intro s op l o _ _ h; exact h.elim

/-- local-state invariants shared by the two multi-section stores -/
def dpPre : Op → PC → Prop
  | .enum _ _, .scan _ _ _ => False
  | _, _ => True

def dpPost : Op → PC → Out → Prop
  | .enum _ _, .scan _ _ _, _ => True
  | _, _, _ => False

theorem zeros_anom (k : Bytes) (n : Nat) : dpAnom (.fetch k) (.bytes (zeros n)) = true := by
  simp [dpAnom, zeros]

theorem dp_enum_pre (content : Bytes → Bytes) (s : DpState) (a : Bytes) (n : Nat) (l : PC)
    (hi : Good content s.idx) (hl : dpLin s (.enum a n) l = true) :
    PreGoal dpStore dpAnom (fun s => s.idx) (fun s => Good content s.idx) dpPre dpPost s (.enum a n) l := by
  cases hr : scanSec s.idx a n l with
  | inl l' =>
    obtain ⟨x, y, z, e⟩ := scanSec_inl hr
    subst e
    exact pre_lin_cont (S := dpStore) (s' := s) (l' := .scan x y z) hl (by simp [dpStore, dpSec, hr]) hi rfl (by simp [dpPost])
  | inr o =>
    obtain ⟨r, e⟩ := scanSec_inr hr
    subst e
    exact pre_lin_ret (S := dpStore) (s' := s) (o := .refs r) hl (by simp [dpStore, dpSec, hr]) hi rfl (Or.inr (by simp [dpAnom]))

/-- diskpacked: receive linearises at the duplicate check (duplicate) or at the locked append; remove
at the index commit; a fetch may see zeroed data, enumerate is a scan (both listed in `dpAnom`) -/
def dpRefines (content : Bytes → Bytes) : CRefines content dpStore dpAnom where
  abs := fun s => s.idx
  Inv := fun s => Good content s.idx
  Pre := dpPre
  Post := dpPost
  init_inv := good_nil content
  init_abs := rfl
  good := fun _ h => h
  start_pre := by intro op _; cases op <;> simp [dpStore, dpPre]
  pre_sec := by
    intro s op l hi hwk hpre
    cases op with
    | recv k v =>
      have app : ∀ l', l' ≠ PC.start → dpLin s (.recv k v) l' = true →
          dpSec s (.recv k v) l' = ({ idx := ins k v s.idx, zeroed := s.zeroed.filter (· ≠ k) }, .inr (.sized v.length)) →
          PreGoal dpStore dpAnom (fun s => s.idx) (fun s => Good content s.idx) dpPre dpPost s (.recv k v) l' := by
        intro l' _ h1 h2
        have e3 := ins_eq_next hi k v hwk
        exact pre_lin_ret (S := dpStore) h1 h2 (by show Good content (ins k v s.idx); rw [e3]; exact good_next hi _ hwk)
          e3 (Or.inl (by simp [out]))
      cases l with
      | start =>
        by_cases hh : has s.idx k = true
        · exact pre_lin_ret (S := dpStore) (s' := s) (o := .sized v.length) (by simp [dpStore, dpLin, hh]) (by simp [dpStore, dpSec, hh]) hi
            (by simp [next, hh]) (Or.inl (by simp [out]))
        · exact pre_nolin_cont (S := dpStore) (s' := s) (l' := .second) (by simp [dpStore, dpLin, hh])
            (by simp [dpStore, dpSec, hh]) hi rfl (by simp [dpPre])
      | second => exact app _ (by simp) rfl rfl
      | third => exact app _ (by simp) rfl rfl
      | fourth => exact app _ (by simp) rfl rfl
      | scan x y z => exact app _ (by simp) rfl rfl
    | fetch k =>
      have e2 : dpLin s (.fetch k) l = true := by cases l <;> simp [dpLin]
      cases hg : get s.idx k with
      | none =>
        exact pre_lin_ret (S := dpStore) (s' := s) (o := .notExist) e2 (by simp [dpStore, dpSec, hg]) hi rfl (Or.inl (by simp [out, hg]))
      | some v =>
        by_cases hz : k ∈ s.zeroed
        · exact pre_lin_ret (S := dpStore) (s' := s) (o := .bytes (zeros v.length)) e2 (by simp [dpStore, dpSec, hg, hz]) hi rfl (Or.inr (zeros_anom k _))
        · exact pre_lin_ret (S := dpStore) (s' := s) (o := .bytes v) e2 (by simp [dpStore, dpSec, hg, hz]) hi rfl (Or.inl (by simp [out, hg]))
    | stat k =>
      have e2 : dpLin s (.stat k) l = true := by cases l <;> simp [dpLin]
      exact pre_lin_ret (S := dpStore) (s' := s) (o := out s.idx (.stat k)) e2 (by simp [dpStore, dpSec]) hi rfl (Or.inl rfl)
    | rm k =>
      have com : ∀ l', l' ≠ PC.start → dpLin s (.rm k) l' = true →
          dpSec s (.rm k) l' = ({ idx := del k s.idx, zeroed := s.zeroed.filter (· ≠ k) }, .inr .ok) →
          PreGoal dpStore dpAnom (fun s => s.idx) (fun s => Good content s.idx) dpPre dpPost s (.rm k) l' := by
        intro l' _ h1 h2
        exact pre_lin_ret (S := dpStore) h1 h2 (good_next hi (.rm k) trivial) rfl (Or.inl (by simp [out]))
      cases l with
      | start =>
        exact pre_nolin_cont (S := dpStore) (s' := { s with zeroed := if has s.idx k then k :: s.zeroed else s.zeroed }) (l' := .second) (by simp [dpStore, dpLin]) (by simp [dpStore, dpSec]) hi rfl (by simp [dpPre])
      | second => exact com _ (by simp) rfl rfl
      | third => exact com _ (by simp) rfl rfl
      | fourth => exact com _ (by simp) rfl rfl
      | scan x y z => exact com _ (by simp) rfl rfl
    | enum a n =>
      cases l with
      | scan x y z => exact hpre.elim
      | start => exact dp_enum_pre content s a n _ hi rfl
      | second => exact dp_enum_pre content s a n _ hi rfl
      | third => exact dp_enum_pre content s a n _ hi rfl
      | fourth => exact dp_enum_pre content s a n _ hi rfl
  post_sec := by
    intro s op l o hi _ hpost
    cases op with
    | enum a n =>
      cases l with
      | scan x y z =>
        cases hr : scanSec s.idx a n (.scan x y z) with
        | inl l' =>
          obtain ⟨x', y', z', e⟩ := scanSec_inl hr
          subst e
          exact post_cont (S := dpStore) (s' := s) (l' := .scan x' y' z') rfl (by simp [dpStore, dpSec, hr]) hi rfl (by simp [dpPost])
        | inr o' =>
          obtain ⟨r, e⟩ := scanSec_inr hr
          subst e
          exact post_ret (S := dpStore) (s' := s) (o' := .refs r) rfl (by simp [dpStore, dpSec, hr]) hi rfl (Or.inr (by simp [dpAnom]))
      | _ => exact hpost.elim
    | _ => exact hpost.elim

def fsPre : Op → PC → Prop
  | .recv _ _, .fourth => False
  | .recv _ _, .scan _ _ _ => False
  | .enum _ _, .scan _ _ _ => False
  | _, _ => True

def fsPost : Op → PC → Out → Prop
  | .recv _ v, .fourth, o => o = .sized v.length
  | .enum _ _, .scan _ _ _, _ => True
  | _, _, _ => False

theorem fs_enum_pre (content : Bytes → Bytes) (s : SMap Bytes) (a : Bytes) (n : Nat) (l : PC)
    (hi : Good content s) (hl : fsLin s (.enum a n) l = true) :
    PreGoal filesStore fsAnom (fun s => s) (Good content) fsPre fsPost s (.enum a n) l := by
  cases hr : scanSec s a n l with
  | inl l' =>
    obtain ⟨x, y, z, e⟩ := scanSec_inl hr
    subst e
    exact pre_lin_cont (S := filesStore) (s' := s) (l' := .scan x y z) hl (by simp [filesStore, fsSec, hr]) hi rfl (by simp [fsPost])
  | inr o =>
    obtain ⟨r, e⟩ := scanSec_inr hr
    subst e
    exact pre_lin_ret (S := filesStore) (s' := s) (o := .refs r) hl (by simp [filesStore, fsSec, hr]) hi rfl (Or.inr (by simp [fsAnom]))

/-- files/localdisk: receive linearises at the rename; fetch at the failed stat or at the open; a
receive may answer `err` (Lstat after a concurrent remove), enumerate is a walk (both in `fsAnom`) -/
def fsRefines (content : Bytes → Bytes) : CRefines content filesStore fsAnom where
  abs := fun s => s
  Inv := Good content
  Pre := fsPre
  Post := fsPost
  init_inv := good_nil content
  init_abs := rfl
  good := fun _ h => h
  start_pre := by intro op _; cases op <;> simp [filesStore, fsPre]
  pre_sec := by
    intro s op l hi hwk hpre
    cases op with
    | recv k v =>
      cases l with
      | start => exact pre_nolin_cont (S := filesStore) (s' := s) (l' := .second) rfl rfl hi rfl (by simp [fsPre])
      | second => exact pre_nolin_cont (S := filesStore) (s' := s) (l' := .third) rfl rfl hi rfl (by simp [fsPre])
      | third =>
        have e3 := ins_eq_next hi k v hwk
        exact pre_lin_cont (S := filesStore) (s' := ins k v s) (l' := .fourth) rfl rfl
          (by rw [e3]; exact good_next hi _ hwk) e3 (by simp [fsPost, out])
      | fourth => exact hpre.elim
      | scan x y z => exact hpre.elim
    | fetch k =>
      have opn : ∀ l', fsLin s (.fetch k) l' = true → fsSec s (.fetch k) l' = (s, .inr (out s (.fetch k))) →
          PreGoal filesStore fsAnom (fun s => s) (Good content) fsPre fsPost s (.fetch k) l' := by
        intro l' h1 h2
        exact pre_lin_ret (S := filesStore) h1 h2 hi rfl (Or.inl rfl)
      cases l with
      | start =>
        by_cases hh : has s k = true
        · exact pre_nolin_cont (S := filesStore) (s' := s) (l' := .second) (by simp [filesStore, fsLin, hh])
            (by simp [filesStore, fsSec, hh]) hi rfl (by simp [fsPre])
        · have hg : get s k = none := by simpa [has] using hh
          exact pre_lin_ret (S := filesStore) (s' := s) (o := .notExist) (by simp [filesStore, fsLin, hh]) (by simp [filesStore, fsSec, hh])
            hi rfl (Or.inl (by simp [out, hg]))
      | second => exact opn _ rfl rfl
      | third => exact opn _ rfl rfl
      | fourth => exact opn _ rfl rfl
      | scan x y z => exact opn _ rfl rfl
    | stat k =>
      have e2 : fsLin s (.stat k) l = true := by cases l <;> simp [fsLin]
      exact pre_lin_ret (S := filesStore) (s' := s) (o := out s (.stat k)) e2 (by simp [filesStore, fsSec]) hi rfl (Or.inl rfl)
    | rm k =>
      have e2 : fsLin s (.rm k) l = true := by cases l <;> simp [fsLin]
      exact pre_lin_ret (S := filesStore) (s' := del k s) (o := .ok) e2 (by simp [filesStore, fsSec]) (good_next hi (.rm k) trivial) rfl
        (Or.inl (by simp [out]))
    | enum a n =>
      cases l with
      | scan x y z => exact hpre.elim
      | start => exact fs_enum_pre content s a n _ hi rfl
      | second => exact fs_enum_pre content s a n _ hi rfl
      | third => exact fs_enum_pre content s a n _ hi rfl
      | fourth => exact fs_enum_pre content s a n _ hi rfl
  post_sec := by
    intro s op l o hi hwk hpost
    cases op with
    | recv k v =>
      cases l with
      | fourth =>
        simp only [fsPost] at hpost
        subst hpost
        cases hg : get s k with
        | none =>
          exact post_ret (S := filesStore) (s' := s) (o' := .err) rfl (by simp [filesStore, fsSec, hg]) hi rfl (Or.inr (by simp [fsAnom]))
        | some b =>
          have hb := (hi.2 k b hg).1
          exact post_ret (S := filesStore) (s' := s) (o' := .sized b.length) rfl (by simp [filesStore, fsSec, hg]) hi rfl
            (Or.inl (by rw [hb, ← hwk.1]))
      | _ => exact hpost.elim
    | enum a n =>
      cases l with
      | scan x y z =>
        cases hr : scanSec s a n (.scan x y z) with
        | inl l' =>
          obtain ⟨x', y', z', e⟩ := scanSec_inl hr
          subst e
          exact post_cont (S := filesStore) (s' := s) (l' := .scan x' y' z') rfl (by simp [filesStore, fsSec, hr]) hi rfl (by simp [fsPost])
        | inr o' =>
          obtain ⟨r, e⟩ := scanSec_inr hr
          subst e
          exact post_ret (S := filesStore) (s' := s) (o' := .refs r) rfl (by simp [filesStore, fsSec, hr]) hi rfl (Or.inr (by simp [fsAnom]))
      | _ => exact hpost.elim
    | _ => exact hpost.elim


/-! ## what an accepted trace says about the final state -/

theorem chk_ok_mono (anom : Op → Out → Bool) (k : Chk) (e : Ev) (h : (chk anom k e).ok = true) : k.ok = true := by
  cases e with
  | inv c op => cases hcl : k.cl c <;> simp [chk, hcl] at h <;> exact h
  | lin c op =>
    cases hcl : k.cl c with
    | running op' =>
      by_cases e : op = op'
      · simpa [chk, hcl, e] using h
      · simp [chk, hcl, e] at h
    | idle => simp [chk, hcl] at h
    | done _ _ => simp [chk, hcl] at h
  | ret c op o =>
    cases hcl : k.cl c with
    | done op' o' =>
      by_cases e : op = op' ∧ (o = o' ∨ anom op o = true)
      · obtain ⟨e1, e2⟩ := e
        subst e1
        rw [chk_ret_done anom k c op o o' hcl e2] at h
        exact h
      · simp [chk, hcl, e] at h
    | idle => simp [chk, hcl] at h
    | running _ => simp [chk, hcl] at h

theorem foldl_ok_mono (anom : Op → Out → Bool) (tr : List Ev) (k : Chk)
    (h : (tr.foldl (chk anom) k).ok = true) : k.ok = true := by
  induction tr generalizing k with
  | nil => exact h
  | cons e rest ih => exact chk_ok_mono anom k e (ih _ h)

theorem runState_append (m : SMap Bytes) (a b : List Op) :
    runState m (a ++ b) = runState (runState m a) b := by
  induction a generalizing m with
  | nil => rfl
  | cons x xs ih => simp [runState, ih]

theorem linOps_cons_lin (c : Nat) (op : Op) (tr : List Ev) : linOps (.lin c op :: tr) = op :: linOps tr := by
  simp [linOps]

theorem linOps_cons_inv (c : Nat) (op : Op) (tr : List Ev) : linOps (.inv c op :: tr) = linOps tr := by
  simp [linOps]

theorem linOps_cons_ret (c : Nat) (op : Op) (o : Out) (tr : List Ev) : linOps (.ret c op o :: tr) = linOps tr := by
  simp [linOps]

/-- invariant of the checker: its map is the reference map after the linearised operations so far,
and every client marked as linearised owes that to a linearisation event -/
def ChkInv (k : Chk) (ops : List Op) : Prop :=
  k.m = runState [] ops ∧ ∀ c op o, k.cl c = .done op o → op ∈ ops

theorem done_upd {cl : Nat → CSt} {ops : List Op} (h2 : ∀ c op o, cl c = .done op o → op ∈ ops) (c : Nat) (st : CSt)
    (hst : ∀ op o, st = .done op o → op ∈ ops) :
    ∀ c' op o, upd cl c st c' = .done op o → op ∈ ops := by
  intro c' op o h
  by_cases e : c' = c
  · subst e; rw [upd_same] at h; exact hst _ _ h
  · rw [upd_other _ _ e] at h; exact h2 _ _ _ h

theorem chkInv_foldl (anom : Op → Out → Bool) (tr : List Ev) (k : Chk) (ops : List Op)
    (hk : ChkInv k ops) (hok : (tr.foldl (chk anom) k).ok = true) :
    ChkInv (tr.foldl (chk anom) k) (ops ++ linOps tr) ∧
      ∀ c op o, Ev.ret c op o ∈ tr → op ∈ ops ++ linOps tr := by
  induction tr generalizing k ops with
  | nil => simp [linOps]; exact hk
  | cons e rest ih =>
    simp only [List.foldl_cons] at hok ⊢
    have hok1 : (chk anom k e).ok = true := foldl_ok_mono anom rest _ hok
    cases e with
    | inv c op =>
      have hk' : ChkInv (chk anom k (.inv c op)) ops := by
        cases hcl : k.cl c with
        | idle =>
          rw [chk_inv_idle anom k c op hcl]
          exact ⟨hk.1, done_upd hk.2 c _ (by intro _ _ h; cases h)⟩
        | running _ => simp [chk, hcl] at hok1
        | done _ _ => simp [chk, hcl] at hok1
      obtain ⟨h1, h2⟩ := ih _ ops hk' hok
      rw [linOps_cons_inv]
      refine ⟨h1, ?_⟩
      intro c' op' o' hm
      simp only [List.mem_cons] at hm
      rcases hm with hm | hm
      · cases hm
      · exact h2 _ _ _ hm
    | lin c op =>
      have hk' : ChkInv (chk anom k (.lin c op)) (ops ++ [op]) := by
        cases hcl : k.cl c with
        | running op' =>
          by_cases e : op = op'
          · subst e
            rw [chk_lin_running anom k c op hcl]
            refine ⟨by simp [runState_append, runState, hk.1], ?_⟩
            exact done_upd (fun c op o h => List.mem_append_left _ (hk.2 c op o h)) c _
              (by intro op' o' h; cases h; simp)
          · simp [chk, hcl, e] at hok1
        | idle => simp [chk, hcl] at hok1
        | done _ _ => simp [chk, hcl] at hok1
      obtain ⟨h1, h2⟩ := ih _ _ hk' hok
      rw [linOps_cons_lin]
      simp only [List.append_assoc, List.singleton_append] at h1 h2
      refine ⟨h1, ?_⟩
      intro c' op' o' hm
      simp only [List.mem_cons] at hm
      rcases hm with hm | hm
      · cases hm
      · exact h2 _ _ _ hm
    | ret c op o =>
      cases hcl : k.cl c with
      | done op' o' =>
        by_cases e : op = op' ∧ (o = o' ∨ anom op o = true)
        · obtain ⟨e1, e2⟩ := e
          subst e1
          have hmem : op ∈ ops := hk.2 c op o' hcl
          have hk' : ChkInv (chk anom k (.ret c op o)) ops := by
            rw [chk_ret_done anom k c op o o' hcl e2]
            exact ⟨hk.1, done_upd hk.2 c _ (by intro _ _ h; cases h)⟩
          obtain ⟨h1, h2⟩ := ih _ ops hk' hok
          rw [linOps_cons_ret]
          refine ⟨h1, ?_⟩
          intro c' op'' o'' hm
          simp only [List.mem_cons] at hm
          rcases hm with hm | hm
          · cases hm; exact List.mem_append_left _ hmem
          · exact h2 _ _ _ hm
        · simp [chk, hcl, e] at hok1
      | idle => simp [chk, hcl] at hok1
      | running _ => simp [chk, hcl] at hok1

theorem replay_runState (anom : Op → Out → Bool) (tr : List Ev) (hok : (replay anom tr).ok = true) :
    (replay anom tr).m = runState [] (linOps tr) ∧ ∀ c op o, Ev.ret c op o ∈ tr → op ∈ linOps tr := by
  have := chkInv_foldl anom tr Chk.init [] ⟨rfl, by intro c op o h; simp [Chk.init] at h⟩ hok
  simpa [replay] using And.intro this.1.1 this.2

theorem kasc_next {m : SMap Bytes} (hm : KAsc m) (op : Op) : KAsc (next m op) := by
  cases op with
  | recv k v => simp only [next]; split; exact hm; exact kasc_ins k v hm
  | rm k => exact kasc_del k hm
  | _ => exact hm

theorem has_next {m : SMap Bytes} (hm : KAsc m) {k : Bytes} (op : Op) (hne : op ≠ .rm k)
    (h : has m k = true) : has (next m op) k = true := by
  cases op with
  | recv k' v' =>
    simp only [next]
    split
    · exact h
    · simp only [has, get_ins]
      by_cases e : k = k'
      · simp [e]
      · simpa [e, has] using h
  | rm k' =>
    have e : k ≠ k' := by intro e; subst e; exact hne rfl
    simp only [next, has, get_del k' hm, e, if_false]
    simpa [has] using h
  | _ => exact h

theorem has_recv (m : SMap Bytes) (k v : Bytes) : has (next m (.recv k v)) k = true := by
  simp only [next]
  split
  · assumption
  · simp [has, get_ins]

/-- a blob that is received somewhere in a history and never removed is present at the end -/
theorem has_runState {m : SMap Bytes} (hm : KAsc m) (k : Bytes) (ops : List Op)
    (hr : has m k = true ∨ ∃ v, Op.recv k v ∈ ops) (hn : ∀ op ∈ ops, op ≠ .rm k) :
    has (runState m ops) k = true := by
  induction ops generalizing m with
  | nil =>
    rcases hr with h | ⟨v, h⟩
    · exact h
    · simp at h
  | cons op rest ih =>
    simp only [runState]
    apply ih (kasc_next hm op)
    · rcases hr with h | ⟨v, h⟩
      · exact Or.inl (has_next hm op (hn op (by simp)) h)
      · simp only [List.mem_cons] at h
        rcases h with h | h
        · subst h; exact Or.inl (has_recv m k v)
        · exact Or.inr ⟨v, h⟩
    · intro op' h; exact hn op' (by simp [h])

def evOp : Ev → Op
  | .inv _ op => op
  | .lin _ op => op
  | .ret _ op _ => op

/-- every operation that occurs in the trace (and every operation in flight) was invoked by the schedule -/
theorem step_ops (S : CStore) (A : Op → Prop) (y : Sys S) (lbl : Lbl)
    (hA : ∀ c op, lbl = .call c op → A op)
    (h : (∀ ev ∈ y.trace, A (evOp ev)) ∧ ∀ c t, y.thr c = some t → A t.op) :
    (∀ ev ∈ (Sys.step S y lbl).trace, A (evOp ev)) ∧ ∀ c t, (Sys.step S y lbl).thr c = some t → A t.op := by
  cases lbl with
  | call c op =>
    simp only [Sys.step]
    cases ht : y.thr c with
    | some t => simpa using h
    | none =>
      refine ⟨?_, ?_⟩
      · intro ev hev
        simp only [List.mem_append, List.mem_singleton] at hev
        rcases hev with hev | hev
        · exact h.1 ev hev
        · subst hev; exact hA c op rfl
      · intro c' t hc'
        by_cases e : c' = c
        · subst e
          simp only [upd_same, Option.some.injEq] at hc'
          subst hc'; exact hA _ op rfl
        · simp only [upd_other _ _ e] at hc'; exact h.2 c' t hc'
  | step c =>
    simp only [Sys.step]
    cases ht : y.thr c with
    | none => simpa using h
    | some t =>
      have hAt : A t.op := h.2 c t ht
      have hevl : ∀ ev ∈ (if S.lin y.sh t.op t.l = true then [Ev.lin c t.op] else []), A (evOp ev) := by
        intro ev hev
        split at hev
        · simp only [List.mem_singleton] at hev; subst hev; exact hAt
        · simp at hev
      simp only []
      split
      · rename_i l' hr
        refine ⟨?_, ?_⟩
        · intro ev hev
          simp only [List.mem_append] at hev
          rcases hev with hev | hev
          · exact h.1 ev hev
          · exact hevl ev hev
        · intro c' t' hc'
          by_cases e : c' = c
          · subst e
            simp only [upd_same, Option.some.injEq] at hc'
            subst hc'; exact hAt
          · simp only [upd_other _ _ e] at hc'; exact h.2 c' t' hc'
      · rename_i o hr
        refine ⟨?_, ?_⟩
        · intro ev hev
          simp only [List.mem_append, List.mem_singleton] at hev
          rcases hev with (hev | hev) | hev
          · exact h.1 ev hev
          · exact hevl ev hev
          · subst hev; exact hAt
        · intro c' t' hc'
          by_cases e : c' = c
          · subst e; simp [upd_same] at hc'
          · simp only [upd_other _ _ e] at hc'; exact h.2 c' t' hc'

theorem exec_ops (S : CStore) (A : Op → Prop) (sched : List Lbl) (hA : ∀ c op, Lbl.call c op ∈ sched → A op) :
    ∀ ev ∈ (exec S sched).trace, A (evOp ev) := by
  have gen : ∀ (sched : List Lbl) (y : Sys S), (∀ c op, Lbl.call c op ∈ sched → A op) →
      ((∀ ev ∈ y.trace, A (evOp ev)) ∧ ∀ c t, y.thr c = some t → A t.op) →
      ((∀ ev ∈ (sched.foldl (Sys.step S) y).trace, A (evOp ev)) ∧
        ∀ c t, (sched.foldl (Sys.step S) y).thr c = some t → A t.op) := by
    intro sched
    induction sched with
    | nil => intro y _ h; exact h
    | cons lbl rest ih =>
      intro y hA h
      simp only [List.foldl_cons]
      exact ih _ (fun c op hm => hA c op (by simp [hm]))
        (step_ops S A y lbl (fun c op e => hA c op (by simp [e])) h)
  exact (gen sched (Sys.init S) hA ⟨by simp [Sys.init], by simp [Sys.init]⟩).1

theorem mem_linOps {tr : List Ev} {op : Op} (h : op ∈ linOps tr) : ∃ c, Ev.lin c op ∈ tr := by
  simp only [linOps, List.mem_filterMap] at h
  obtain ⟨ev, hev, he⟩ := h
  cases ev with
  | lin c op' => simp at he; subst he; exact ⟨c, hev⟩
  | inv c op' => simp at he
  | ret c op' o => simp at he

end Pk.Conc
