import PkVerif.Model.Conc
/-!
# Lemmas: forward simulation from the interleaving model to the reference map (C14)

`CRefines` packages the proof obligations on a store's atomic sections: every section of a call
either is the call's linearisation step – it changes the abstract state exactly as `RefMap.next`
does and fixes the answer `RefMap.out` – or leaves the abstract state alone.  `sim_exec` is the one
generic theorem: for ANY schedule the recorded trace passes the linearizability check.
-/
namespace Pk.Conc
open Pk Pk.SMap Pk.RefMap

structure CRefines (content : Bytes → Bytes) (S : CStore) (anom : Op → Out → Bool) where
  abs : S.σ → SMap Bytes
  Inv : S.σ → Prop
  /-- invariant of the local state before / after the call's linearisation point; `Post op l o`: the
  reference map answered `o` at the linearisation point -/
  Pre : Op → S.L → Prop
  Post : Op → S.L → Out → Prop
  init_inv : Inv S.init
  init_abs : abs S.init = []
  good : ∀ s, Inv s → Good content (abs s)
  start_pre : ∀ op, op.WK content → Pre op (S.start op)
  /-- a section of a call that has not linearised yet: either it is the linearisation step, or it does
  not change the abstract state and does not return -/
  pre_sec : ∀ s op l, Inv s → op.WK content → Pre op l →
    Inv (S.sec s op l).1 ∧
    (if S.lin s op l = true then
      abs (S.sec s op l).1 = next (abs s) op ∧
      (match (S.sec s op l).2 with
       | .inl l' => Post op l' (out (abs s) op)
       | .inr o => o = out (abs s) op ∨ anom op o = true)
    else
      abs (S.sec s op l).1 = abs s ∧
      (match (S.sec s op l).2 with | .inl l' => Pre op l' | .inr _ => False))
  /-- a section after the linearisation step: never a second linearisation, no abstract change, and the
  answer is the one fixed at the linearisation point -/
  post_sec : ∀ s op l o, Inv s → op.WK content → Post op l o →
    S.lin s op l = false ∧ Inv (S.sec s op l).1 ∧ abs (S.sec s op l).1 = abs s ∧
    (match (S.sec s op l).2 with
     | .inl l' => Post op l' o
     | .inr o' => o' = o ∨ anom op o' = true)

theorem replay_append (anom : Op → Out → Bool) (tr evs : List Ev) :
    replay anom (tr ++ evs) = evs.foldl (chk anom) (replay anom tr) := by
  simp [replay, List.foldl_append]

theorem upd_same {α : Type} (f : Nat → α) (c : Nat) (v : α) : upd f c v c = v := by simp [upd]

theorem upd_other {α : Type} (f : Nat → α) {c c' : Nat} (v : α) (h : c' ≠ c) : upd f c v c' = f c' := by
  simp [upd, h]

theorem chk_inv_idle (anom : Op → Out → Bool) (k : Chk) (c : Nat) (op : Op) (h : k.cl c = .idle) :
    chk anom k (.inv c op) = { k with cl := upd k.cl c (.running op) } := by
  simp [chk, h]

theorem chk_lin_running (anom : Op → Out → Bool) (k : Chk) (c : Nat) (op : Op) (h : k.cl c = .running op) :
    chk anom k (.lin c op) = { m := next k.m op, cl := upd k.cl c (.done op (out k.m op)), ok := k.ok } := by
  simp [chk, h]

theorem chk_ret_done (anom : Op → Out → Bool) (k : Chk) (c : Nat) (op : Op) (o o' : Out)
    (h : k.cl c = .done op o') (ho : o = o' ∨ anom op o = true) :
    chk anom k (.ret c op o) = { k with cl := upd k.cl c .idle } := by
  simp [chk, h, ho]

section sim
variable {content : Bytes → Bytes} {S : CStore} {anom : Op → Out → Bool}

/-- the relation between a client's thread and the checker's view of that client -/
def ThrRel (R : CRefines content S anom) : Option (Thread S) → CSt → Prop
  | none, .idle => True
  | some t, .running op => t.op = op ∧ op.WK content ∧ R.Pre op t.l
  | some t, .done op o => t.op = op ∧ op.WK content ∧ R.Post op t.l o
  | _, _ => False

/-- the simulation invariant: the checker's reference map is the abstraction of the shared state -/
structure Sim (R : CRefines content S anom) (y : Sys S) : Prop where
  ok : (replay anom y.trace).ok = true
  inv : R.Inv y.sh
  m_eq : (replay anom y.trace).m = R.abs y.sh
  thr : ∀ c, ThrRel R (y.thr c) ((replay anom y.trace).cl c)

theorem sim_init (R : CRefines content S anom) : Sim R (Sys.init S) where
  ok := rfl
  inv := R.init_inv
  m_eq := by simp [Sys.init, replay, Chk.init, R.init_abs]
  thr := fun _ => by simp [Sys.init, replay, Chk.init, ThrRel]

theorem thrRel_upd (R : CRefines content S anom) (thr : Nat → Option (Thread S)) (cl : Nat → CSt)
    (c : Nat) (t : Option (Thread S)) (s : CSt) (h : ∀ c', ThrRel R (thr c') (cl c'))
    (hc : ThrRel R t s) : ∀ c', ThrRel R (upd thr c t c') (upd cl c s c') := by
  intro c'
  by_cases e : c' = c
  · subst e; simp [upd_same, hc]
  · simp [upd_other _ _ e, h c']

theorem sim_call (R : CRefines content S anom) (y : Sys S) (hs : Sim R y) (c : Nat) (op : Op)
    (hwk : op.WK content) : Sim R (Sys.step S y (.call c op)) := by
  simp only [Sys.step]
  cases ht : y.thr c with
  | some t => simpa using hs
  | none =>
    have rel := hs.thr c
    rw [ht] at rel
    have hcl : (replay anom y.trace).cl c = .idle := by
      cases hk : (replay anom y.trace).cl c <;> simp [hk, ThrRel] at rel ⊢
    have hr : replay anom (y.trace ++ [Ev.inv c op]) =
        { replay anom y.trace with cl := upd (replay anom y.trace).cl c (.running op) } := by
      rw [replay_append]; simp [chk_inv_idle anom _ c op hcl]
    exact
      { ok := by simp [hr, hs.ok]
        inv := hs.inv
        m_eq := by simp [hr, hs.m_eq]
        thr := by
          simp only [hr]
          exact thrRel_upd R _ _ c _ _ hs.thr ⟨rfl, hwk, R.start_pre op hwk⟩ }

theorem sim_step (R : CRefines content S anom) (y : Sys S) (hs : Sim R y) (c : Nat) :
    Sim R (Sys.step S y (.step c)) := by
  simp only [Sys.step]
  cases ht : y.thr c with
  | none => simpa using hs
  | some t =>
    have rel := hs.thr c
    rw [ht] at rel
    cases hk : (replay anom y.trace).cl c with
    | idle => simp [hk, ThrRel] at rel
    | running op =>
      rw [hk] at rel
      obtain ⟨hop, hwk, hpre⟩ := rel
      obtain ⟨hinv', hrest⟩ := R.pre_sec y.sh op t.l hs.inv hwk hpre
      by_cases hl : S.lin y.sh op t.l = true
      · -- the linearisation step
        rw [if_pos hl] at hrest
        obtain ⟨habs, hout⟩ := hrest
        have hlin : replay anom (y.trace ++ [Ev.lin c op]) =
            { m := next (replay anom y.trace).m op,
              cl := upd (replay anom y.trace).cl c (.done op (out (replay anom y.trace).m op)),
              ok := (replay anom y.trace).ok } := by
          rw [replay_append]; simp [chk_lin_running anom _ c op hk]
        simp only [hop, hl, if_true]
        cases hr : (S.sec y.sh op t.l).2 with
        | inl l' =>
          rw [hr] at hout
          simp only []
          exact
            { ok := by simp [hlin, hs.ok]
              inv := hinv'
              m_eq := by simp [hlin, hs.m_eq, habs]
              thr := by
                simp only [hlin]
                refine thrRel_upd R _ _ c _ _ hs.thr ?_
                exact ⟨rfl, hwk, by rw [hs.m_eq]; exact hout⟩ }
        | inr o =>
          rw [hr] at hout
          simp only []
          have hret : replay anom (y.trace ++ [Ev.lin c op] ++ [Ev.ret c op o]) =
              { m := next (replay anom y.trace).m op,
                cl := upd (upd (replay anom y.trace).cl c (.done op (out (replay anom y.trace).m op))) c .idle,
                ok := (replay anom y.trace).ok } := by
            rw [replay_append, hlin]
            simp only [List.foldl_cons, List.foldl_nil]
            rw [chk_ret_done anom _ c op o (out (replay anom y.trace).m op) (by simp [upd_same])
              (by rw [hs.m_eq]; exact hout)]
          exact
            { ok := by simp [hret, hs.ok]
              inv := hinv'
              m_eq := by simp [hret, hs.m_eq, habs]
              thr := by
                simp only [hret]
                intro c'
                by_cases e : c' = c
                · subst e; simp [upd_same, ThrRel]
                · simp only [upd_other _ _ e]; exact hs.thr c' }
      · -- a section before the linearisation point
        rw [if_neg hl] at hrest
        obtain ⟨habs, hout⟩ := hrest
        have hl' : S.lin y.sh op t.l = false := by simpa using hl
        simp only [hop, hl', Bool.false_eq_true, if_false, List.append_nil]
        cases hr : (S.sec y.sh op t.l).2 with
        | inl l' =>
          rw [hr] at hout
          simp only []
          exact
            { ok := hs.ok
              inv := hinv'
              m_eq := by simp [hs.m_eq, habs]
              thr := by
                intro c'
                by_cases e : c' = c
                · subst e; simp only [upd_same, hk]; exact ⟨rfl, hwk, hout⟩
                · simp only [upd_other _ _ e]; exact hs.thr c' }
        | inr o => rw [hr] at hout; exact hout.elim
    | done op o =>
      rw [hk] at rel
      obtain ⟨hop, hwk, hpost⟩ := rel
      obtain ⟨hl, hinv', habs, hout⟩ := R.post_sec y.sh op t.l o hs.inv hwk hpost
      simp only [hop, hl, Bool.false_eq_true, if_false, List.append_nil]
      cases hr : (S.sec y.sh op t.l).2 with
      | inl l' =>
        rw [hr] at hout
        simp only []
        exact
          { ok := hs.ok
            inv := hinv'
            m_eq := by simp [hs.m_eq, habs]
            thr := by
              intro c'
              by_cases e : c' = c
              · subst e; simp only [upd_same, hk]; exact ⟨rfl, hwk, hout⟩
              · simp only [upd_other _ _ e]; exact hs.thr c' }
      | inr o' =>
        rw [hr] at hout
        simp only []
        have hret : replay anom (y.trace ++ [Ev.ret c op o']) =
            { replay anom y.trace with cl := upd (replay anom y.trace).cl c .idle } := by
          rw [replay_append]
          simp only [List.foldl_cons, List.foldl_nil]
          rw [chk_ret_done anom _ c op o' o hk hout]
        exact
          { ok := by simp [hret, hs.ok]
            inv := hinv'
            m_eq := by simp [hret, hs.m_eq, habs]
            thr := by
              simp only [hret]
              intro c'
              by_cases e : c' = c
              · subst e; simp [upd_same, ThrRel]
              · simp only [upd_other _ _ e]; exact hs.thr c' }

/-- every call label of the schedule carries a well-keyed operation -/
def SchedWK (content : Bytes → Bytes) (sched : List Lbl) : Prop :=
  ∀ c op, Lbl.call c op ∈ sched → op.WK content

theorem sim_foldl (R : CRefines content S anom) (sched : List Lbl) (hwk : SchedWK content sched)
    (y : Sys S) (hs : Sim R y) : Sim R (sched.foldl (Sys.step S) y) := by
  induction sched generalizing y with
  | nil => exact hs
  | cons lbl rest ih =>
    simp only [List.foldl_cons]
    apply ih (fun c op h => hwk c op (by simp [h]))
    cases lbl with
    | call c op => exact sim_call R y hs c op (hwk c op (by simp))
    | step c => exact sim_step R y hs c

/-- the generic theorem: any schedule of any number of clients yields a linearizable trace, and the
shared state's abstraction is the reference map after the linearised history -/
theorem sim_exec (R : CRefines content S anom) (sched : List Lbl) (hwk : SchedWK content sched) :
    Sim R (exec S sched) :=
  sim_foldl R sched hwk _ (sim_init R)

end sim

end Pk.Conc
