import PkVerif.Model.MergedEnum
/-!
# Correctness of the n-way merge of pkg/blobserver/mergedenum.go (core Lean only)

For ANY number of sources, each strictly ascending by key (`Pk.ltB`):

* `merged_keys_eq`         keys sent = the `limit` smallest keys of the union of the sources' keys
* `merged_asc`, `merged_length_le`, `merged_mem_keys`
* `merged_take_limit`      cutting every source at `limit` first changes nothing
* `merged_first_source`    an entry comes from the first source that has its key
* `mergedEnumerateStorage_keys`  with the `after` cursor and `limit` passed to well-behaved sources
-/
namespace Pk.MergedEnum

theorem stB : StrictTotal ltB := ⟨ltB_irrefl, ltB_trans, ltB_total⟩

/-- `Pk.Asc` is `List.Pairwise` for a transitive order -/
theorem asc_iff_pairwise {K : Type} (lt : K → K → Bool) (st : StrictTotal lt) (l : List K) :
    Asc lt l ↔ l.Pairwise (fun a b => lt a b = true) := by
  induction l with
  | nil => simp [Asc]
  | cons a t ih =>
    constructor
    · intro h
      exact List.pairwise_cons.mpr ⟨asc_head_lt lt st h, ih.mp (asc_tail lt h)⟩
    · intro h
      obtain ⟨h1, h2⟩ := List.pairwise_cons.mp h
      cases t with
      | nil => trivial
      | cons b t' => exact ⟨h1 b (by simp), ih.mpr h2⟩

/-- strictly ascending by key, as `Pairwise` on the entries -/
def PW (s : List SR) : Prop := s.Pairwise (fun a b => ltB a.1 b.1 = true)

theorem ascK_iff_pw (s : List SR) : Asc ltB (keys s) ↔ PW s := by
  rw [asc_iff_pairwise ltB stB, keys, List.pairwise_map]; rfl

/-! ## order facts -/

theorem ltB_false_of_lt {a b : Bytes} (h : ltB a b = true) : ltB b a = false := ltB_asymm a b h

theorem lt_of_not_lt_of_lt {x c lo : Bytes} (h1 : ltB x c = false) (h2 : ltB lo c = true) :
    ltB lo x = true := by
  rcases ltB_total lo x with h | h | h
  · exact h
  · subst h; rw [h2] at h1; cases h1
  · have := ltB_trans _ _ _ h h2; rw [this] at h1; cases h1

theorem not_lt_of_not_lt_of_lt {h lo k : Bytes} (h1 : ltB h lo = false) (h2 : ltB h k = true) :
    ltB k lo = false := by
  cases hk : ltB k lo with
  | false => rfl
  | true => have := ltB_trans _ _ _ h2 hk; rw [this] at h1; cases h1

theorem tooLow_some (l k : Bytes) : tooLow (some l) k = !ltB l k := by
  simp only [tooLow]
  rcases ltB_total l k with h | h | h
  · have h2 := ltB_asymm _ _ h
    have hne : (k == l) = false := by
      cases hb : k == l with
      | false => rfl
      | true => have := eq_of_beq hb; subst this; rw [ltB_irrefl] at h; cases h
    simp [h, h2, hne]
  · subst h; simp [ltB_irrefl]
  · have h2 := ltB_asymm _ _ h
    simp [h, h2]

theorem tooLow_mono (last : Option Bytes) {a b : Bytes} (ha : tooLow last a = false)
    (hab : ltB a b = true) : tooLow last b = false := by
  cases last with
  | none => rfl
  | some l =>
    rw [tooLow_some] at ha ⊢
    have hla : ltB l a = true := by simpa using ha
    simp [ltB_trans _ _ _ hla hab]

/-! ## skipLow -/

theorem skipLow_none (s : List SR) : skipLow none s = s := by
  cases s <;> simp [skipLow, tooLow]

theorem skipLow_split (last : Option Bytes) (s : List SR) :
    ∃ pre, s = pre ++ skipLow last s ∧ ∀ x ∈ pre, tooLow last x.1 = true := by
  induction s with
  | nil => exact ⟨[], by simp [skipLow], by simp⟩
  | cons a t ih =>
    by_cases ha : tooLow last a.1 = true
    · obtain ⟨pre, h1, h2⟩ := ih
      refine ⟨a :: pre, ?_, ?_⟩
      · simp only [skipLow, ha, if_true, List.cons_append]; rw [← h1]
      · intro x hx
        cases hx with
        | head => exact ha
        | tail _ hx' => exact h2 x hx'
    · exact ⟨[], by simp [skipLow, ha], by simp⟩

theorem skipLow_sublist (last : Option Bytes) (s : List SR) : (skipLow last s).Sublist s := by
  obtain ⟨pre, h, _⟩ := skipLow_split last s
  have : (skipLow last s).Sublist (pre ++ skipLow last s) := List.sublist_append_right _ _
  rw [← h] at this; exact this

theorem skipLow_pw (last : Option Bytes) {s : List SR} (h : PW s) : PW (skipLow last s) :=
  List.Pairwise.sublist (skipLow_sublist last s) h

theorem skipLow_head_not_low (last : Option Bytes) (s : List SR) (x : SR) (r : List SR)
    (h : skipLow last s = x :: r) : tooLow last x.1 = false := by
  induction s with
  | nil => simp [skipLow] at h
  | cons a t ih =>
    by_cases ha : tooLow last a.1 = true
    · simp only [skipLow, ha, if_true] at h; exact ih h
    · simp only [skipLow, ha] at h
      have : a = x := by simpa using (List.cons.inj h).1
      subst this; simpa using ha

theorem skipLow_eq_self (last : Option Bytes) (s : List SR)
    (h : ∀ x ∈ s, tooLow last x.1 = false) : skipLow last s = s := by
  cases s with
  | nil => rfl
  | cons a t => simp [skipLow, h a (by simp)]

theorem mem_skipLow (last : Option Bytes) {s : List SR} (hs : PW s) (x : SR) :
    x ∈ skipLow last s ↔ x ∈ s ∧ tooLow last x.1 = false := by
  induction s with
  | nil => simp [skipLow]
  | cons a t ih =>
    obtain ⟨h1, h2⟩ := List.pairwise_cons.mp hs
    by_cases ha : tooLow last a.1 = true
    · simp only [skipLow, ha, if_true]
      rw [ih h2]
      constructor
      · rintro ⟨hx, hl⟩; exact ⟨List.mem_cons_of_mem _ hx, hl⟩
      · rintro ⟨hx, hl⟩
        cases hx with
        | head => rw [ha] at hl; cases hl
        | tail _ hx' => exact ⟨hx', hl⟩
    · have ha' : tooLow last a.1 = false := by simpa using ha
      simp only [skipLow, ha]
      constructor
      · intro hx
        refine ⟨hx, ?_⟩
        cases hx with
        | head => exact ha'
        | tail _ hx' => exact tooLow_mono last ha' (h1 x hx')
      · rintro ⟨hx, _⟩; exact hx

theorem skipLow_append_of_ne_nil (last : Option Bytes) (s r : List SR) (h : skipLow last s ≠ []) :
    skipLow last (s ++ r) = skipLow last s ++ r := by
  induction s with
  | nil => simp [skipLow] at h
  | cons a t ih =>
    by_cases ha : tooLow last a.1 = true
    · simp only [skipLow, ha, if_true, List.cons_append] at h ⊢; exact ih h
    · simp [skipLow, ha]

/-- after a key `lo` not above the head has been sent, at most the head is skipped -/
theorem skipLow_length_ge (lo : Bytes) (h : SR) (rest : List SR) (hp : PW (h :: rest))
    (hlo : ltB h.1 lo = false) : rest.length ≤ (skipLow (some lo) (h :: rest)).length := by
  obtain ⟨h1, _⟩ := List.pairwise_cons.mp hp
  by_cases ha : tooLow (some lo) h.1 = true
  · simp only [skipLow, ha, if_true]
    rw [skipLow_eq_self]
    · exact Nat.le_refl _
    · intro x hx
      rw [tooLow_some]
      have hlt : ltB lo x.1 = true := by
        rcases ltB_total lo h.1 with g | g | g
        · exact ltB_trans _ _ _ g (h1 x hx)
        · rw [g]; exact h1 x hx
        · rw [g] at hlo; cases hlo
      simp [hlt]
  · simp [skipLow, ha]

/-! ## pick -/

theorem pick_some_spec (a lo : SR) (hs : List (Option SR)) (h : pick (some a) hs = some lo) :
    (lo = a ∧ ∀ x, some x ∈ hs → ltB x.1 a.1 = false) ∨
    (∃ pre post, hs = pre ++ some lo :: post ∧ ltB lo.1 a.1 = true ∧
      (∀ x, some x ∈ pre → ltB lo.1 x.1 = true) ∧ (∀ x, some x ∈ post → ltB x.1 lo.1 = false)) := by
  induction hs generalizing a with
  | nil =>
    simp only [pick, Option.some.injEq] at h
    exact Or.inl ⟨h.symm, by simp⟩
  | cons hd tl ih =>
    cases hd with
    | none =>
      simp only [pick] at h
      rcases ih a h with ⟨h1, h2⟩ | ⟨pre, post, h1, h2, h3, h4⟩
      · left; refine ⟨h1, ?_⟩
        intro x hx; simp at hx; exact h2 x hx
      · right; refine ⟨none :: pre, post, by simp [h1], h2, ?_, h4⟩
        intro x hx; simp at hx; exact h3 x hx
    | some sb =>
      by_cases hlt : ltB sb.1 a.1 = true
      · simp only [pick, hlt, if_true] at h
        rcases ih sb h with ⟨h1, h2⟩ | ⟨pre, post, h1, h2, h3, h4⟩
        · right; subst h1
          exact ⟨[], tl, by simp, hlt, by simp, h2⟩
        · right
          refine ⟨some sb :: pre, post, by simp [h1], ltB_trans _ _ _ h2 hlt, ?_, h4⟩
          intro x hx
          simp at hx
          rcases hx with hx | hx
          · subst hx; exact h2
          · exact h3 x hx
      · have hlt' : ltB sb.1 a.1 = false := by simpa using hlt
        simp only [pick, hlt] at h
        rcases ih a h with ⟨h1, h2⟩ | ⟨pre, post, h1, h2, h3, h4⟩
        · left; refine ⟨h1, ?_⟩
          intro x hx; simp at hx
          rcases hx with hx | hx
          · subst hx; exact hlt'
          · exact h2 x hx
        · right
          refine ⟨some sb :: pre, post, by simp [h1], h2, ?_, h4⟩
          intro x hx
          simp at hx
          rcases hx with hx | hx
          · subst hx; exact lt_of_not_lt_of_lt hlt' h2
          · exact h3 x hx

/-- the scan returns the first head with the lowest key -/
theorem pick_none_spec (lo : SR) (hs : List (Option SR)) (h : pick none hs = some lo) :
    ∃ pre post, hs = pre ++ some lo :: post ∧
      (∀ x, some x ∈ pre → ltB lo.1 x.1 = true) ∧ (∀ x, some x ∈ post → ltB x.1 lo.1 = false) := by
  induction hs with
  | nil => simp [pick] at h
  | cons hd tl ih =>
    cases hd with
    | none =>
      simp only [pick] at h
      obtain ⟨pre, post, h1, h2, h3⟩ := ih h
      refine ⟨none :: pre, post, by simp [h1], ?_, h3⟩
      intro x hx; simp at hx; exact h2 x hx
    | some sb =>
      simp only [pick] at h
      rcases pick_some_spec sb lo tl h with ⟨h1, h2⟩ | ⟨pre, post, h1, h2, h3, h4⟩
      · subst h1; exact ⟨[], tl, by simp, by simp, h2⟩
      · refine ⟨some sb :: pre, post, by simp [h1], ?_, h4⟩
        intro x hx
        simp at hx
        rcases hx with hx | hx
        · subst hx; exact h2
        · exact h3 x hx

theorem pick_none_min (lo : SR) (hs : List (Option SR)) (h : pick none hs = some lo) :
    some lo ∈ hs ∧ ∀ x, some x ∈ hs → ltB x.1 lo.1 = false := by
  obtain ⟨pre, post, h1, h2, h3⟩ := pick_none_spec lo hs h
  subst h1
  refine ⟨by simp, ?_⟩
  intro x hx
  simp only [List.mem_append, List.mem_cons] at hx
  rcases hx with hx | hx | hx
  · exact ltB_asymm _ _ (h2 x hx)
  · have : x = lo := by simpa using hx
    subst this; exact ltB_irrefl _
  · exact h3 x hx

theorem pick_some_ne_none (a : SR) (hs : List (Option SR)) : pick (some a) hs ≠ none := by
  induction hs generalizing a with
  | nil => simp [pick]
  | cons hd tl ih =>
    cases hd with
    | none => simpa [pick] using ih a
    | some sb =>
      simp only [pick]
      split
      · exact ih sb
      · exact ih a

theorem pick_none_eq_none (hs : List (Option SR)) (h : pick none hs = none) : ∀ x ∈ hs, x = none := by
  induction hs with
  | nil => simp
  | cons hd tl ih =>
    cases hd with
    | none =>
      simp only [pick] at h
      intro x hx
      cases hx with
      | head => rfl
      | tail _ hx' => exact ih h x hx'
    | some sb =>
      simp only [pick] at h
      exact absurd h (pick_some_ne_none sb tl)


/-! ## the union of the sources' keys, ascending and duplicate-free (the specification side) -/

def insertK (k : Bytes) : List Bytes → List Bytes
  | [] => [k]
  | a :: t => if ltB k a then k :: a :: t else if k == a then a :: t else a :: insertK k t

/-- all keys of all sources, ascending, each once -/
def unionKeys (srcs : List (List SR)) : List Bytes := (srcs.flatMap keys).foldr insertK []

theorem mem_insertK (k x : Bytes) (l : List Bytes) : x ∈ insertK k l ↔ x = k ∨ x ∈ l := by
  induction l with
  | nil => simp [insertK]
  | cons a t ih =>
    simp only [insertK]
    split
    · simp
    · split
      · rename_i h; have := eq_of_beq h; subst this; simp
      · simp only [List.mem_cons, ih]
        constructor
        · rintro (h | h | h)
          · exact Or.inr (Or.inl h)
          · exact Or.inl h
          · exact Or.inr (Or.inr h)
        · rintro (h | h | h)
          · exact Or.inr (Or.inl h)
          · exact Or.inl h
          · exact Or.inr (Or.inr h)

theorem insertK_pw (k : Bytes) (l : List Bytes) (h : l.Pairwise (fun a b => ltB a b = true)) :
    (insertK k l).Pairwise (fun a b => ltB a b = true) := by
  induction l with
  | nil => simp [insertK]
  | cons a t ih =>
    obtain ⟨h1, h2⟩ := List.pairwise_cons.mp h
    simp only [insertK]
    split
    · rename_i hka
      refine List.pairwise_cons.mpr ⟨?_, h⟩
      intro x hx
      cases hx with
      | head => exact hka
      | tail _ hx' => exact ltB_trans _ _ _ hka (h1 x hx')
    · split
      · exact h
      · rename_i hka hne
        have hak : ltB a k = true := by
          rcases ltB_total a k with g | g | g
          · exact g
          · subst g; simp at hne
          · rw [g] at hka; exact absurd rfl hka
        refine List.pairwise_cons.mpr ⟨?_, ih h2⟩
        intro x hx
        rcases (mem_insertK k x t).mp hx with g | g
        · subst g; exact hak
        · exact h1 x g

theorem mem_foldr_insertK (x : Bytes) (l : List Bytes) : x ∈ l.foldr insertK [] ↔ x ∈ l := by
  induction l with
  | nil => simp
  | cons a t ih => simp only [List.foldr, mem_insertK, ih, List.mem_cons]

theorem foldr_insertK_pw (l : List Bytes) : (l.foldr insertK []).Pairwise (fun a b => ltB a b = true) := by
  induction l with
  | nil => simp
  | cons a t ih => exact insertK_pw a _ ih

theorem mem_unionKeys (srcs : List (List SR)) (k : Bytes) :
    k ∈ unionKeys srcs ↔ ∃ s ∈ srcs, k ∈ keys s := by
  simp only [unionKeys, mem_foldr_insertK, List.mem_flatMap]

theorem unionKeys_pw (srcs : List (List SR)) :
    (unionKeys srcs).Pairwise (fun a b => ltB a b = true) := foldr_insertK_pw _

theorem unionKeys_asc (srcs : List (List SR)) : Asc ltB (unionKeys srcs) :=
  (asc_iff_pairwise ltB stB _).mpr (unionKeys_pw srcs)

/-- two strictly ascending lists with the same members are equal -/
theorem pw_ext (l₁ l₂ : List Bytes) (h₁ : l₁.Pairwise (fun a b => ltB a b = true))
    (h₂ : l₂.Pairwise (fun a b => ltB a b = true)) (h : ∀ k, k ∈ l₁ ↔ k ∈ l₂) : l₁ = l₂ := by
  induction l₁ generalizing l₂ with
  | nil =>
    cases l₂ with
    | nil => rfl
    | cons b t => have := (h b).mpr (by simp); cases this
  | cons a t ih =>
    cases l₂ with
    | nil => have := (h a).mp (by simp); cases this
    | cons b u =>
      obtain ⟨ha, ht⟩ := List.pairwise_cons.mp h₁
      obtain ⟨hb, hu⟩ := List.pairwise_cons.mp h₂
      have hab : a = b := by
        have h1 : a ∈ b :: u := (h a).mp (by simp)
        have h2 : b ∈ a :: t := (h b).mpr (by simp)
        cases h1 with
        | head => rfl
        | tail _ h1' =>
          cases h2 with
          | head => rfl
          | tail _ h2' =>
            have g1 := hb a h1'
            have g2 := ha b h2'
            rw [ltB_asymm _ _ g1] at g2; cases g2
      subst hab
      congr 1
      apply ih u ht hu
      intro k
      constructor
      · intro hk
        have : k ∈ a :: u := (h k).mp (List.mem_cons_of_mem _ hk)
        rcases List.mem_cons.mp this with g | g
        · have h3 := ha k hk; rw [g, ltB_irrefl] at h3; cases h3
        · exact g
      · intro hk
        have : k ∈ a :: t := (h k).mpr (List.mem_cons_of_mem _ hk)
        rcases List.mem_cons.mp this with g | g
        · have h3 := hb k hk; rw [g, ltB_irrefl] at h3; cases h3
        · exact g

/-- an ascending list starts with its least member -/
theorem pw_min_cons (U : List Bytes) (m : Bytes) (hU : U.Pairwise (fun a b => ltB a b = true))
    (hm : m ∈ U) (hmin : ∀ k ∈ U, ltB k m = false) : U = m :: U.filter (fun k => ltB m k) := by
  cases U with
  | nil => cases hm
  | cons a t =>
    obtain ⟨h1, _⟩ := List.pairwise_cons.mp hU
    have ham : m = a := by
      cases hm with
      | head => rfl
      | tail _ hm' =>
        have := h1 m hm'
        rw [hmin a (by simp)] at this; cases this
    subst ham
    have hall : ∀ x ∈ t, ltB m x = true := h1
    simp [List.filter, ltB_irrefl, List.filter_eq_self.mpr hall]

/-! ## the main theorem: what the loop sends -/

theorem loop_keys (fuel : Nat) : ∀ (last : Option Bytes) (ps : List (List SR)) (U : List Bytes),
    (∀ s ∈ ps, PW s) → U.Pairwise (fun a b => ltB a b = true) →
    (∀ k, k ∈ U ↔ ∃ s ∈ ps, k ∈ keys s) →
    keys (loop fuel last ps) = (U.filter (fun k => !tooLow last k)).take fuel := by
  induction fuel with
  | zero => intros; simp [loop, keys]
  | succ n ih =>
    intro last ps U hps hU hmem
    have hps' : ∀ s ∈ ps.map (skipLow last), PW s := by
      intro s hs
      obtain ⟨s0, hs0, rfl⟩ := List.mem_map.mp hs
      exact skipLow_pw last (hps s0 hs0)
    have hU' : (U.filter (fun k => !tooLow last k)).Pairwise (fun a b => ltB a b = true) :=
      List.Pairwise.filter _ hU
    have hmem' : ∀ k, k ∈ U.filter (fun k => !tooLow last k) ↔
        ∃ s ∈ ps.map (skipLow last), k ∈ keys s := by
      intro k
      simp only [List.mem_filter, hmem k, List.mem_map, keys]
      constructor
      · rintro ⟨⟨s, hs, x, hx, rfl⟩, hl⟩
        refine ⟨skipLow last s, ⟨s, hs, rfl⟩, x, ?_, rfl⟩
        exact (mem_skipLow last (hps s hs) x).mpr ⟨hx, by simpa using hl⟩
      · rintro ⟨_, ⟨s, hs, rfl⟩, x, hx, rfl⟩
        obtain ⟨hx1, hx2⟩ := (mem_skipLow last (hps s hs) x).mp hx
        exact ⟨⟨s, hs, x, hx1, rfl⟩, by simp [hx2]⟩
    simp only [loop]
    cases hp : pick none ((ps.map (skipLow last)).map List.head?) with
    | none =>
      have hall := pick_none_eq_none _ hp
      have hnil : U.filter (fun k => !tooLow last k) = [] := by
        apply List.eq_nil_iff_forall_not_mem.mpr
        intro k hk
        obtain ⟨s, hs, hks⟩ := (hmem' k).mp hk
        have : s.head? = none := hall _ (List.mem_map.mpr ⟨s, hs, rfl⟩)
        have : s = [] := List.head?_eq_none_iff.mp this
        subst this; simp [keys] at hks
      simp [hnil, keys]
    | some lo =>
      obtain ⟨hin, hmin⟩ := pick_none_min lo _ hp
      obtain ⟨s, hs, hhead⟩ := List.mem_map.mp hin
      have hlos : lo ∈ s := List.mem_of_mem_head? hhead
      have hloU : lo.1 ∈ U.filter (fun k => !tooLow last k) :=
        (hmem' lo.1).mpr ⟨s, hs, List.mem_map.mpr ⟨lo, hlos, rfl⟩⟩
      have hminU : ∀ k ∈ U.filter (fun k => !tooLow last k), ltB k lo.1 = false := by
        intro k hk
        obtain ⟨t, ht, hkt⟩ := (hmem' k).mp hk
        obtain ⟨x, hx, rfl⟩ := List.mem_map.mp hkt
        cases t with
        | nil => cases hx
        | cons h r =>
          have hh : ltB h.1 lo.1 = false := hmin h (List.mem_map.mpr ⟨h :: r, ht, rfl⟩)
          cases hx with
          | head => exact hh
          | tail _ hx' =>
            have hpw := hps' _ ht
            exact not_lt_of_not_lt_of_lt hh ((List.pairwise_cons.mp hpw).1 x hx')
      have hsplit := pw_min_cons _ lo.1 hU' hloU hminU
      have hrec := ih (some lo.1) (ps.map (skipLow last)) _ hps' hU' hmem'
      have hfun : (fun k => !tooLow (some lo.1) k) = (fun k => ltB lo.1 k) := by
        funext k; rw [tooLow_some]; simp
      rw [hfun] at hrec
      simp only [keys, List.map_cons] at hrec ⊢
      rw [hrec]
      conv => rhs; rw [hsplit]
      simp [List.take]

theorem loop_length_le (fuel : Nat) : ∀ (last : Option Bytes) (ps : List (List SR)),
    (loop fuel last ps).length ≤ fuel := by
  induction fuel with
  | zero => intros; simp [loop]
  | succ n ih =>
    intro last ps
    simp only [loop]
    split
    · simp
    · simp only [List.length_cons]; exact Nat.succ_le_succ (ih _ _)

/-! ## cutting every source at `limit` first changes nothing -/

/-- `p.1` is the cut source, `p.2` the full one -/
def Rel (k : Nat) (last : Option Bytes) (p : List SR × List SR) : Prop :=
  PW p.2 ∧ ∃ r, p.2 = p.1 ++ r ∧ (r = [] ∨ k ≤ (skipLow last p.1).length)

theorem rel_head (k : Nat) (last : Option Bytes) (p : List SR × List SR) (h : Rel (k + 1) last p) :
    (skipLow last p.1).head? = (skipLow last p.2).head? := by
  obtain ⟨_, r, h1, h2⟩ := h
  rcases h2 with h2 | h2
  · subst h2; simp at h1; rw [h1]
  · have hne : skipLow last p.1 ≠ [] := by
      intro e; rw [e] at h2; simp at h2
    rw [h1, skipLow_append_of_ne_nil last p.1 r hne]
    cases hsk : skipLow last p.1 with
    | nil => exact absurd hsk hne
    | cons a t => simp

theorem rel_step (k : Nat) (last : Option Bytes) (lo : Bytes) (p : List SR × List SR)
    (h : Rel (k + 1) last p)
    (hmin : ∀ x, (skipLow last p.1).head? = some x → ltB x.1 lo = false) :
    Rel k (some lo) (skipLow last p.1, skipLow last p.2) := by
  obtain ⟨hpw, r, h1, h2⟩ := h
  refine ⟨skipLow_pw last hpw, ?_⟩
  rcases h2 with h2 | h2
  · subst h2; simp at h1; exact ⟨[], by simp [h1], Or.inl rfl⟩
  · have hne : skipLow last p.1 ≠ [] := by
      intro e; rw [e] at h2; simp at h2
    refine ⟨r, ?_, Or.inr ?_⟩
    · show skipLow last p.2 = skipLow last p.1 ++ r
      rw [h1, skipLow_append_of_ne_nil last p.1 r hne]
    · show k ≤ (skipLow (some lo) (skipLow last p.1)).length
      have hpw1 : PW (skipLow last p.1) := by
        have : PW p.1 := by
          have hs : p.1.Sublist p.2 := by rw [h1]; exact List.sublist_append_left _ _
          exact List.Pairwise.sublist hs hpw
        exact skipLow_pw last this
      cases hsk : skipLow last p.1 with
      | nil => exact absurd hsk hne
      | cons a t =>
        rw [hsk] at h2 hpw1
        have hlo : ltB a.1 lo = false := hmin a (by rw [hsk]; rfl)
        have := skipLow_length_ge lo a t hpw1 hlo
        simp only [List.length_cons] at h2
        omega

theorem loop_cut (k : Nat) : ∀ (last : Option Bytes) (ps : List (List SR × List SR)),
    (∀ p ∈ ps, Rel k last p) →
    loop k last (ps.map (·.1)) = loop k last (ps.map (·.2)) := by
  induction k with
  | zero => intros; simp [loop]
  | succ n ih =>
    intro last ps hrel
    have hheads : ((ps.map (·.1)).map (skipLow last)).map List.head? =
        ((ps.map (·.2)).map (skipLow last)).map List.head? := by
      simp only [List.map_map]
      apply List.map_congr_left
      intro p hp
      exact rel_head n last p (hrel p hp)
    simp only [loop]
    rw [← hheads]
    cases hp : pick none (((ps.map (·.1)).map (skipLow last)).map List.head?) with
    | none => rfl
    | some lo =>
      obtain ⟨_, hmin⟩ := pick_none_min lo _ hp
      have e1 : (ps.map (·.1)).map (skipLow last) =
          (ps.map (fun p => (skipLow last p.1, skipLow last p.2))).map (·.1) := by
        simp [List.map_map, Function.comp_def]
      have e2 : (ps.map (·.2)).map (skipLow last) =
          (ps.map (fun p => (skipLow last p.1, skipLow last p.2))).map (·.2) := by
        simp [List.map_map, Function.comp_def]
      simp only []
      rw [e1, e2]
      congr 1
      apply ih
      intro q hq
      obtain ⟨p, hp', rfl⟩ := List.mem_map.mp hq
      apply rel_step n last lo.1 p (hrel p hp')
      intro x hx
      apply hmin x
      simp only [List.map_map, List.mem_map]
      exact ⟨p, hp', by simpa using hx⟩

/-! ## an entry comes from the first source that has its key -/

theorem first_lift (last : Option Bytes) (ps : List (List SR)) (hps : ∀ s ∈ ps, PW s)
    (e : SR) (pre' post' : List (List SR)) (s' : List SR)
    (hdec : ps.map (skipLow last) = pre' ++ s' :: post') (he : e ∈ s')
    (hpre : ∀ t ∈ pre', e.1 ∉ keys t) :
    ∃ pre s post, ps = pre ++ s :: post ∧ e ∈ s ∧ ∀ t ∈ pre, e.1 ∉ keys t := by
  obtain ⟨pa, rest, hps_eq, hpa, hrest⟩ := List.map_eq_append_iff.mp hdec
  obtain ⟨s, pb, hrest_eq, hs, _⟩ := List.map_eq_cons_iff.mp hrest
  subst hps_eq hrest_eq
  have hsP : PW s := hps s (by simp)
  rw [← hs] at he
  obtain ⟨hes, hlow⟩ := (mem_skipLow last hsP e).mp he
  refine ⟨pa, s, pb, rfl, hes, ?_⟩
  intro t ht hk
  obtain ⟨y, hy, hye⟩ := List.mem_map.mp hk
  have htP : PW t := hps t (by simp [ht])
  have hy' : y ∈ skipLow last t := (mem_skipLow last htP y).mpr ⟨hy, by rw [hye]; exact hlow⟩
  have : skipLow last t ∈ pre' := by rw [← hpa]; exact List.mem_map.mpr ⟨t, ht, rfl⟩
  exact hpre _ this (List.mem_map.mpr ⟨y, hy', hye⟩)

theorem loop_first_source (fuel : Nat) : ∀ (last : Option Bytes) (ps : List (List SR)),
    (∀ s ∈ ps, PW s) → ∀ e ∈ loop fuel last ps,
    ∃ pre s post, ps = pre ++ s :: post ∧ e ∈ s ∧ ∀ t ∈ pre, e.1 ∉ keys t := by
  induction fuel with
  | zero => intro _ _ _ e he; simp [loop] at he
  | succ n ih =>
    intro last ps hps e he
    have hps' : ∀ s ∈ ps.map (skipLow last), PW s := by
      intro s hs
      obtain ⟨s0, hs0, rfl⟩ := List.mem_map.mp hs
      exact skipLow_pw last (hps s0 hs0)
    simp only [loop] at he
    cases hp : pick none ((ps.map (skipLow last)).map List.head?) with
    | none => rw [hp] at he; cases he
    | some lo =>
      rw [hp] at he
      simp only [List.mem_cons] at he
      rcases he with he | he
      · subst he
        obtain ⟨hpre, hpost, hdec, hlt, _⟩ := pick_none_spec e _ hp
        obtain ⟨A, rest, hAeq, hA, hrest⟩ := List.map_eq_append_iff.mp hdec
        obtain ⟨s', B, hrest_eq, hs', _⟩ := List.map_eq_cons_iff.mp hrest
        subst hrest_eq
        apply first_lift last ps hps e A B s' hAeq (List.mem_of_mem_head? hs')
        intro t' ht' hk
        obtain ⟨y, hy, hye⟩ := List.mem_map.mp hk
        cases t' with
        | nil => cases hy
        | cons h r =>
          have hh : ltB e.1 h.1 = true := by
            apply hlt h
            rw [← hA]; exact List.mem_map.mpr ⟨h :: r, ht', rfl⟩
          have hpw : PW (h :: r) := hps' _ (by rw [hAeq]; simp [ht'])
          cases hy with
          | head => rw [hye, ltB_irrefl] at hh; cases hh
          | tail _ hy' =>
            have h2 := (List.pairwise_cons.mp hpw).1 y hy'
            rw [hye] at h2
            rw [ltB_asymm _ _ hh] at h2; cases h2
      · obtain ⟨pre', s', post', hdec, hes, hpre⟩ := ih (some lo.1) _ hps' e he
        exact first_lift last ps hps e pre' post' s' hdec hes hpre


/-! ## the packaged statements (hypotheses in terms of `Pk.Asc ltB`) -/

/-- every source strictly ascending by key -/
def AllAsc (srcs : List (List SR)) : Prop := ∀ s ∈ srcs, Asc ltB (keys s)

def decAsc {K : Type} (lt : K → K → Bool) : (l : List K) → Decidable (Asc lt l)
  | [] => isTrue trivial
  | [_] => isTrue trivial
  | a :: b :: t =>
    match decAsc lt (b :: t) with
    | isTrue h => if h1 : lt a b = true then isTrue ⟨h1, h⟩ else isFalse (fun h' => h1 h'.1)
    | isFalse h => isFalse (fun h' => h h'.2)

instance {K : Type} (lt : K → K → Bool) (l : List K) : Decidable (Asc lt l) := decAsc lt l

instance (srcs : List (List SR)) : Decidable (AllAsc srcs) := by unfold AllAsc; infer_instance

theorem filter_true' {α : Type} (l : List α) : l.filter (fun _ => true) = l :=
  List.filter_eq_self.mpr (by intros; rfl)

theorem allAsc_pw {srcs : List (List SR)} (h : AllAsc srcs) : ∀ s ∈ srcs, PW s :=
  fun s hs => (ascK_iff_pw s).mp (h s hs)

/-- for ANY ascending duplicate-free list `U` whose members are the keys of the sources, the keys
sent are the first `limit` of `U`: each of the `limit` smallest keys of the union exactly once, in order -/
theorem merged_keys_eq_of (limit : Nat) (srcs : List (List SR)) (h : AllAsc srcs) (U : List Bytes)
    (hU : Asc ltB U) (hmem : ∀ k, k ∈ U ↔ ∃ s ∈ srcs, k ∈ keys s) :
    keys (mergedEnumerate limit srcs) = U.take limit := by
  have := loop_keys limit none srcs U (allAsc_pw h) ((asc_iff_pairwise ltB stB U).mp hU) hmem
  simpa [mergedEnumerate, tooLow, filter_true'] using this

theorem merged_keys_eq (limit : Nat) (srcs : List (List SR)) (h : AllAsc srcs) :
    keys (mergedEnumerate limit srcs) = (unionKeys srcs).take limit :=
  merged_keys_eq_of limit srcs h _ (unionKeys_asc srcs) (mem_unionKeys srcs)

theorem merged_length_le (limit : Nat) (srcs : List (List SR)) :
    (mergedEnumerate limit srcs).length ≤ limit := loop_length_le limit none srcs

theorem merged_asc (limit : Nat) (srcs : List (List SR)) (h : AllAsc srcs) :
    Asc ltB (keys (mergedEnumerate limit srcs)) := by
  rw [merged_keys_eq limit srcs h, asc_iff_pairwise ltB stB]
  exact List.Pairwise.sublist (List.take_sublist _ _) (unionKeys_pw srcs)

/-- no key is sent twice -/
theorem merged_nodup (limit : Nat) (srcs : List (List SR)) (h : AllAsc srcs) :
    (keys (mergedEnumerate limit srcs)).Nodup := by
  have := (asc_iff_pairwise ltB stB _).mp (merged_asc limit srcs h)
  apply List.Pairwise.imp _ this
  intro a b hab e; subst e; rw [ltB_irrefl] at hab; cases hab

/-- with a limit that does not cut, exactly the keys of the sources are sent -/
theorem merged_mem_keys (limit : Nat) (srcs : List (List SR)) (h : AllAsc srcs)
    (hl : (unionKeys srcs).length ≤ limit) (k : Bytes) :
    k ∈ keys (mergedEnumerate limit srcs) ↔ ∃ s ∈ srcs, k ∈ keys s := by
  rw [merged_keys_eq limit srcs h, List.take_of_length_le hl, mem_unionKeys]

/-- cutting every source at `limit` first (the real code passes `limit` to every source) changes nothing -/
theorem merged_take_limit (limit : Nat) (srcs : List (List SR)) (h : AllAsc srcs) :
    mergedEnumerate limit (srcs.map (·.take limit)) = mergedEnumerate limit srcs := by
  have key := loop_cut limit none (srcs.map (fun s => (s.take limit, s))) (by
    intro p hp
    obtain ⟨s, hs, rfl⟩ := List.mem_map.mp hp
    refine ⟨allAsc_pw h s hs, s.drop limit, (List.take_append_drop limit s).symm, ?_⟩
    by_cases hlen : s.length ≤ limit
    · left; exact List.drop_eq_nil_of_le hlen
    · right
      simp only [skipLow_none, List.length_take]
      omega)
  simpa [mergedEnumerate, List.map_map, Function.comp_def] using key

/-- every entry sent comes from the first source that has its key -/
theorem merged_first_source (limit : Nat) (srcs : List (List SR)) (h : AllAsc srcs) (e : SR)
    (he : e ∈ mergedEnumerate limit srcs) :
    ∃ pre s post, srcs = pre ++ s :: post ∧ e ∈ s ∧ ∀ t ∈ pre, e.1 ∉ keys t :=
  loop_first_source limit none srcs (allAsc_pw h) e he

/-! ## with the cursor: `MergedEnumerate(…, after, limit)` over well-behaved sources -/

def afterOk (after : Option Bytes) (k : Bytes) : Bool :=
  match after with
  | none => true
  | some a => ltB a k

theorem sourceEnum_eq (c : List SR) (after : Option Bytes) (limit : Nat) :
    sourceEnum c after limit = (c.filter (fun e => afterOk after e.1)).take limit := by
  cases after <;> simp [sourceEnum, afterOk, filter_true']

/-- the keys sent by the merged enumeration are: the union of the contents' keys, after the cursor,
first `limit` – each exactly once, in ascending order, however the contents overlap -/
theorem mergedEnumerateStorage_keys (contents : List (List SR)) (h : AllAsc contents)
    (after : Option Bytes) (limit : Nat) :
    keys (mergedEnumerateStorage contents after limit) =
      ((unionKeys contents).filter (afterOk after)).take limit := by
  have hfilt : AllAsc (contents.map (fun c => c.filter (fun e => afterOk after e.1))) := by
    intro s hs
    obtain ⟨c, hc, rfl⟩ := List.mem_map.mp hs
    rw [ascK_iff_pw]
    exact List.Pairwise.filter _ (allAsc_pw h c hc)
  have e1 : contents.map (fun c => sourceEnum c after limit) =
      (contents.map (fun c => c.filter (fun e => afterOk after e.1))).map (·.take limit) := by
    simp [List.map_map, Function.comp_def, sourceEnum_eq]
  rw [mergedEnumerateStorage, e1, merged_take_limit limit _ hfilt]
  apply merged_keys_eq_of limit _ hfilt
  · rw [asc_iff_pairwise ltB stB]; exact List.Pairwise.filter _ (unionKeys_pw contents)
  · intro k
    simp only [List.mem_filter, mem_unionKeys, List.mem_map, keys]
    constructor
    · rintro ⟨⟨c, hc, x, hx, rfl⟩, hk⟩
      exact ⟨_, ⟨c, hc, rfl⟩, x, List.mem_filter.mpr ⟨hx, hk⟩, rfl⟩
    · rintro ⟨_, ⟨c, hc, rfl⟩, x, hx, rfl⟩
      obtain ⟨hx1, hx2⟩ := List.mem_filter.mp hx
      exact ⟨⟨c, hc, x, hx1, rfl⟩, hx2⟩

/-- non-vacuity: three overlapping ascending sources, limit cutting the union -/
example : AllAsc [[([1], 10), ([3], 30)], [([1], 10), ([2], 20)], [([2], 20), ([3], 30), ([4], 40)]] := by
  decide
example : mergedEnumerate 3 [[([1], 10), ([3], 30)], [([1], 10), ([2], 20)], [([2], 20), ([3], 30), ([4], 40)]]
    = [([1], 10), ([2], 20), ([3], 30)] := by decide

end Pk.MergedEnum
