import PkVerif.Lemmas.BlobPackedPack
/-!
# Lemmas for C04, part 7: "nothing inside a zip has been removed" survives every step of a pack, so the
state at any crash point satisfies the hypothesis under which recovery is invisible
-/
namespace Pk.BP
open Pk Pk.SMap

/-- every blob inside a zip of `large` is visible -/
def NR (s : St) : Prop := ∀ zr z, get s.large zr = some z → ∀ p ∈ zipBlobRows zr z, present s p.1 = true

theorem nr_iff_inSomeZip {s : St} (hk : KAsc s.large) :
    NR s ↔ ∀ x, inSomeZip s.large x = true → present s x = true := by
  constructor
  · intro h x hx
    unfold inSomeZip at hx
    rw [List.any_eq_true] at hx
    obtain ⟨a, ha, hx⟩ := hx
    rw [List.any_eq_true] at hx
    obtain ⟨q, hq, e⟩ := hx
    have := h a.1 a.2 (mem_get hk (show (a.1, a.2) ∈ s.large from ha)) q hq
    rw [← (beq_iff_eq.mp e)]; exact this
  · intro h zr z hz p hp
    apply h
    unfold inSomeZip
    rw [List.any_eq_true]
    refine ⟨(zr, z), get_some_mem hz, ?_⟩
    rw [List.any_eq_true]
    exact ⟨p, hp, by simp⟩

theorem nr_of_view {s s' : St} (h : NR s) (hl : s'.large = s.large) (v : SameView s s') : NR s' := by
  intro zr z hz p hp
  rw [v.pres]; rw [hl] at hz; exact h zr z hz p hp

/-- a failed `writeAZip` may leave an un-indexed zip behind; its blobs are all visible -/
theorem writeAZip_fail_nr {C : Ref → Bytes} (env : PackEnv) (nameOK : Bool) (tbl : List Chunk) (whole : Ref) (wsz : Nat)
    (s : St) (bud : Budget) (remain : List Ref) (n wbw : Nat) (trunc : Option Ref) (lay : Option ZipLayout)
    (h : Inv C s) (ht : TblOK C s tbl) (s' : St) (bud' : Budget)
    (hw : (writeAZip env nameOK tbl whole wsz s bud remain n wbw trunc lay).1 = .fail s' bud') (hn : NR s) : NR s' := by
  have base : ∀ b, ZipOut.fail s b = ZipOut.fail s' bud' → NR s' := by
    intro b e; injection e with e1 _; subst e1; exact hn
  unfold writeAZip at hw
  split at hw
  · exact base _ hw
  · split at hw
    · exact base _ hw
    · rename_i f hf
      obtain ⟨hwr, hs⟩ := fill_ok h env.c tbl trunc ht remain _ [] [] [] f (PairsOK_nil C s) (PairsOK_nil C s) hf
      split at hw
      · exact base _ hw
      · split at hw
        · exact base _ hw
        · rename_i l
          simp only at hw
          split at hw
          · exact base _ hw
          · rename_i hlay
            split at hw
            · split at hw
              · simp at hw
              · exact base _ hw
            · split at hw
              · exact base _ hw
              · split at hw
                · exact base _ hw
                · split at hw
                  · simp only [ZipOut.fail.injEq] at hw
                    obtain ⟨e1, _⟩ := hw
                    subst e1
                    have hlay' : layoutOK l (concatData f.written) f.schemaBlobs = true := by simpa using hlay
                    have hlen : l.schemaOffs.length = f.schemaBlobs.length := by
                      simp only [layoutOK, Bool.and_eq_true, decide_eq_true_eq] at hlay'; exact hlay'.1.1
                    intro zr z hz p hp
                    rw [present_putLarge]
                    rcases get_putLarge_cases s l.ref _ zr z hz with hold | hnew
                    · exact hn zr z hold p hp
                    · rw [hnew] at hz hp
                      -- either the ref was there already (then NR s applies) or it is the zip just built
                      cases hg : get s.large l.ref with
                      | some z0 =>
                        have := get_putLarge_other s l.ref (buildZip l f.written f.schemaBlobs whole wsz n) l.ref z0 hg
                        rw [this] at hz; injection hz with hz; subst hz
                        exact hn l.ref z0 hg p hp
                      | none =>
                        have hput : get (putLarge s l.ref (buildZip l f.written f.schemaBlobs whole wsz n)).large l.ref =
                            some (buildZip l f.written f.schemaBlobs whole wsz n) := by
                          unfold putLarge; simp [has, hg, get_ins]
                        rw [hput] at hz; injection hz with hz; subst hz
                        have hany : (zipBlobRows l.ref (buildZip l f.written f.schemaBlobs whole wsz n)).any (fun q => q.1 == p.1) = true := by
                          rw [List.any_eq_true]; exact ⟨p, hp, by simp⟩
                        rcases (rows_refs_build l.ref l f.written f.schemaBlobs whole wsz n hlen p.1).mp hany with hm | hm
                        · obtain ⟨q, hq, e⟩ := List.mem_map.mp hm; rw [← e]; exact (hwr q hq).2
                        · obtain ⟨q, hq, e⟩ := List.mem_map.mp hm; rw [← e]; exact (hs q hq).2
                  · simp at hw

theorem packLoop_nr {C : Ref → Bytes} (env : PackEnv) (nameOK : Bool) (tbl : List Chunk) (whole : Ref) (wsz : Nat) :
    ∀ (fuel : Nat) (s : St) (bud : Budget) (remain : List Ref) (n wbw : Nat) (trunc : Option Ref)
      (lays : List ZipLayout) (t o : Nat) (zs : List ZipRec),
      Inv C s → TblOK C s tbl → NR s →
      NR (packLoop env nameOK tbl whole wsz fuel s bud remain n wbw trunc lays t o zs).s
  | 0, _, _, _, _, _, _, _, _, _, _, _, _, hn => hn
  | fuel + 1, s, bud, remain, n, wbw, trunc, lays, t, o, zs, h, ht, hn => by
    unfold packLoop
    split
    · split
      · exact nr_of_view hn rfl (sameView_setWhole s _ _ _)
      · exact hn
    · have hs := writeAZip_sound (C := C) env nameOK tbl whole wsz s bud remain n wbw trunc lays.head? h ht
      simp only
      split
      · rename_i s' bud' heq
        exact writeAZip_fail_nr (C := C) env nameOK tbl whole wsz s bud remain n wbw trunc lays.head? h ht s' bud' heq hn
      · exact packLoop_nr env nameOK tbl whole wsz fuel s bud remain n wbw _ _ _ _ zs h ht hn
      · rename_i s' bud' zr k len ds zsz heq
        rw [heq] at hs
        have sf := writeAZip_stored (C := C) env nameOK tbl whole wsz s bud remain n wbw trunc lays.head? h ht s' bud' zr k len ds zsz heq
        obtain ⟨⟨l, f, _, _, _, _, _, _, _, _, _, _, hget, _, _, _, _, hlarge⟩, _, hrows⟩ := sf
        refine packLoop_nr env nameOK tbl whole wsz fuel s' bud' _ _ _ _ _ _ _ _ hs.1 (ht.sameView hs.2) ?_
        intro zr0 z0 hz0 p hp
        by_cases e : zr0 = zr
        · subst e
          have := hrows z0 hz0 p hp
          simp [present, this]
        · rw [hlarge] at hz0
          rcases get_putLarge_cases s zr _ zr0 z0 hz0 with hold | hnew
          · rw [hs.2.pres]; exact hn zr0 z0 hold p hp
          · exact absurd hnew e

theorem packFile_nr {C : Ref → Bytes} (env : PackEnv) (s : St) (bud : Budget) (fileRef : Ref)
    (lays : List ZipLayout) (fuel : Nat) (h : Inv C s) (hn : NR s) :
    NR (packFile env s bud fileRef lays fuel).s := by
  unfold packFile
  simp only
  split
  · rename_i v parts hv hk
    split
    · exact hn
    · rename_i tbl htbl
      split
      · exact hn
      · split
        · exact hn
        · obtain ⟨hpv, hvv⟩ := fetch_ok h hv
          have hpath : PairsOK C s [(fileRef, v)] := by
            intro q hq; simp only [List.mem_singleton] at hq; subst hq; exact ⟨hvv, hpv⟩
          exact packLoop_nr (C := C) env _ tbl _ _ fuel s bud _ 0 0 none lays 0 0 [] h
            (scanParts_ok h env.K scanFuel _ parts tbl hpath htbl) hn
  · exact hn

theorem receive_nr {C : Ref → Bytes} (env : PackEnv) (s : St) (bud : Budget) (r : Ref) (v : Bytes)
    (lays : List ZipLayout) (fuel : Nat) (h : Inv C s) (hv : v = C r) (hn : NR s) :
    NR (receive env s bud r v lays fuel).s := by
  unfold receive
  simp only
  have hput : NR (putSmall s r v) := by
    intro zr z hz p hp
    rw [present_putSmall, hn zr z hz p hp]; rfl
  have hputI : Inv C (putSmall s r v) := inv_putSmall h r v hv
  by_cases hp : (get s.b r).isSome = true
  · simp only [hp, if_true, Bool.true_or]
    split <;> exact hn
  · simp only [hp, Bool.false_eq_true, if_false, Bool.false_or]
    cases ht : bud.take with
    | mk ok bud' =>
      cases ok with
      | false => exact hn
      | true =>
        simp only
        split
        · split
          · exact hput
          · exact packFile_nr (C := C) env _ bud' r lays fuel hputI hput
        · exact hput

end Pk.BP
