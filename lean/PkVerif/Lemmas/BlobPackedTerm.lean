import PkVerif.Lemmas.BlobPackedPack
/-!
# Lemmas for C04, part 4: `pack` terminates (the code after the `fix:` commit: a zip without data blobs
is an error, so every stored zip consumes at least one chunk, and consecutive truncate-retries write
strictly fewer chunks)
-/
namespace Pk.BP
open Pk Pk.SMap

/-- how many chunks the next `fill` can write at most: all of them, or those before the first
occurrence of the trunc hint -/
def cut (trunc : Option Ref) (remain : List Ref) : Nat :=
  match trunc with
  | none => remain.length
  | some tr => (remain.takeWhile (fun r => r != tr)).length

theorem length_takeWhile_le' (p : Ref → Bool) : ∀ (l : List Ref), (l.takeWhile p).length ≤ l.length
  | [] => by simp
  | x :: xs => by
    rw [List.takeWhile_cons]
    split
    · simp only [List.length_cons]; have := length_takeWhile_le' p xs; omega
    · simp

theorem cut_le (trunc : Option Ref) (remain : List Ref) : cut trunc remain ≤ remain.length := by
  unfold cut
  cases trunc with
  | none => exact Nat.le_refl _
  | some tr => exact length_takeWhile_le' _ _

theorem cut_cons_ne (trunc : Option Ref) (dr : Ref) (rest : List Ref) (h : trunc ≠ some dr) :
    cut trunc (dr :: rest) = 1 + cut trunc rest := by
  unfold cut
  cases trunc with
  | none => simp; omega
  | some tr =>
    have : dr ≠ tr := fun e => h (by rw [e])
    have hb : (dr != tr) = true := by simp [this]
    simp only [List.takeWhile_cons, hb, if_true, List.length_cons]; omega

theorem fill_len_le_cut (c : Cfg) (tbl : List Chunk) (s : St) (trunc : Option Ref) :
    ∀ (remain : List Ref) (approx : Nat) (seen : List Ref) (sbs written : List (Ref × Bytes)) (f : Filled),
    fill c tbl s trunc remain approx seen sbs written = some f →
    f.written.length ≤ written.length + cut trunc remain
  | [], _, _, _, _, f, hf => by
    simp only [fill] at hf; injection hf with hf; subst hf; simp
  | dr :: rest, approx, seen, sbs, written, f, hf => by
    simp only [fill] at hf
    split at hf
    · injection hf with hf; subst hf; simp
    · rename_i hne
      rw [cut_cons_ne trunc dr rest hne]
      split at hf
      · cases hf
      · split at hf
        · injection hf with hf; subst hf; simp
        · split at hf
          · split at hf
            · cases hf
            · have := fill_len_le_cut c tbl s trunc rest _ _ _ _ f hf
              simp at this; omega
          · cases hf

theorem walkBack_mem : ∀ (l : List (Ref × Bytes)) (over : Nat) (r : Ref), walkBack l over = some r → r ∈ l.map (·.1)
  | [], _, _, h => by simp [walkBack] at h
  | (r0, v0) :: rest, over, r, h => by
    simp only [walkBack] at h
    split at h
    · injection h with h; simp [h]
    · have := walkBack_mem rest _ r h
      simp [this]

/-- a ref among the first `j` remaining chunks cuts the next fill below `j` -/
theorem cut_lt_of_mem_take : ∀ (remain : List Ref) (j : Nat) (r : Ref), r ∈ remain.take j → cut (some r) remain < j
  | [], j, r, h => by simp at h
  | x :: xs, 0, r, h => by simp at h
  | x :: xs, j + 1, r, h => by
    simp only [List.take_succ_cons, List.mem_cons] at h
    unfold cut
    by_cases hx : x = r
    · have hb : (x != r) = false := by simp [hx]
      simp [hb]
    · have hr : r ∈ xs.take j := by
        rcases h with h | h
        · exact absurd h.symm hx
        · exact h
      have := cut_lt_of_mem_take xs j r hr
      unfold cut at this
      simp only at this
      have hb : (x != r) = true := by simp [hx]
      simp only [List.takeWhile_cons, hb, if_true, List.length_cons]; omega

/-- inversion of `writeAZip` without any invariant: what a `retry` outcome tells about the fill that
preceded it -/
theorem writeAZip_retry_light (env : PackEnv) (nameOK : Bool) (tbl : List Chunk) (whole : Ref) (wsz : Nat)
    (s : St) (bud : Budget) (remain : List Ref) (n wbw : Nat) (trunc : Option Ref) (lay : Option ZipLayout) (tr : Ref)
    (hw : (writeAZip env nameOK tbl whole wsz s bud remain n wbw trunc lay).1 = .retry tr) :
    ∃ f over, fill env.c tbl s trunc remain (env.c.fixedOverhead + env.c.perEntryOverhead) [] [] [] = some f ∧
      0 < over ∧ walkBack f.written.reverse over = some tr := by
  unfold writeAZip at hw
  split at hw
  · simp at hw
  · split at hw
    · simp at hw
    · rename_i f hf
      split at hw
      · simp at hw
      · split at hw
        · simp at hw
        · rename_i l
          simp only at hw
          split at hw
          · simp at hw
          · split at hw
            · rename_i hsize
              split at hw
              · rename_i r hwb
                simp only [ZipOut.retry.injEq] at hw
                subst hw
                exact ⟨f, l.size - env.c.zipMax, hf, by omega, hwb⟩
              · simp at hw
            · split at hw
              · simp at hw
              · split at hw
                · simp at hw
                · split at hw <;> simp at hw

/-- … and a `stored` outcome -/
theorem writeAZip_stored_light (env : PackEnv) (nameOK : Bool) (tbl : List Chunk) (whole : Ref) (wsz : Nat)
    (s : St) (bud : Budget) (remain : List Ref) (n wbw : Nat) (trunc : Option Ref) (lay : Option ZipLayout)
    (s' : St) (bud' : Budget) (zr : Ref) (k len ds zsz : Nat)
    (hw : (writeAZip env nameOK tbl whole wsz s bud remain n wbw trunc lay).1 = .stored s' bud' zr k len ds zsz) :
    ∃ f, fill env.c tbl s trunc remain (env.c.fixedOverhead + env.c.perEntryOverhead) [] [] [] = some f ∧
      k = f.written.length ∧ (env.c.legacy = false → 1 ≤ k) := by
  unfold writeAZip at hw
  split at hw
  · simp at hw
  · split at hw
    · simp at hw
    · rename_i f hf
      split at hw
      · simp at hw
      · rename_i hempty
        split at hw
        · simp at hw
        · simp only at hw
          split at hw
          · simp at hw
          · split at hw
            · split at hw <;> simp at hw
            · split at hw
              · simp at hw
              · split at hw
                · simp at hw
                · split at hw
                  · simp at hw
                  · simp only [ZipOut.stored.injEq] at hw
                    obtain ⟨_, _, _, e4, _, _, _⟩ := hw
                    refine ⟨f, hf, e4.symm, fun hleg => ?_⟩
                    rw [← e4]
                    cases hwr : f.written with
                    | nil => simp [hwr, hleg] at hempty
                    | cons a as => simp

/-- **`pack` terminates**: with the repaired `writeAZip`, `(R+1)²` iterations suffice for `R` remaining
chunks (more precisely `R·(R+1) + cut + 1`) -/
theorem packLoop_terminates (env : PackEnv) (hleg : env.c.legacy = false) (nameOK : Bool) (tbl : List Chunk)
    (whole : Ref) (wsz : Nat) :
    ∀ (fuel : Nat) (s : St) (bud : Budget) (remain : List Ref) (n wbw : Nat) (trunc : Option Ref)
      (lays : List ZipLayout) (t o : Nat) (zs : List ZipRec),
      remain.length * (remain.length + 1) + cut trunc remain + 1 ≤ fuel →
      (packLoop env nameOK tbl whole wsz fuel s bud remain n wbw trunc lays t o zs).outOfFuel = false
  | 0, _, _, _, _, _, _, _, _, _, _, h => by omega
  | fuel + 1, s, bud, remain, n, wbw, trunc, lays, t, o, zs, h => by
    unfold packLoop
    split
    · split <;> rfl
    · simp only
      split
      · rfl
      · rename_i tr heq
        obtain ⟨f, over, hf, hover, hwb⟩ := writeAZip_retry_light env nameOK tbl whole wsz s bud remain n wbw trunc lays.head? tr heq
        apply packLoop_terminates env hleg nameOK tbl whole wsz fuel
        -- the retry writes strictly fewer chunks
        have hk := fill_len_le_cut env.c tbl s trunc remain _ [] [] [] f hf
        simp only [List.length_nil, Nat.zero_add] at hk
        have hpre := fill_written_prefix env.c tbl s trunc remain _ f hf
        -- tr is among the written refs except the last one
        cases hrev : f.written.reverse with
        | nil => rw [hrev] at hwb; simp [walkBack] at hwb
        | cons x rest =>
          rw [hrev] at hwb
          simp only [walkBack, show ¬ over = 0 by omega, if_false] at hwb
          have hmem := walkBack_mem rest _ tr hwb
          have hw : f.written = rest.reverse ++ [x] := by
            have := congrArg List.reverse hrev
            simpa using this
          have hlen : f.written.length = rest.length + 1 := by rw [hw]; simp
          have hmap : (rest.reverse.map (·.1)) ++ [x.1] = remain.take f.written.length := by
            rw [← hpre, hw]; simp
          have htake : remain.take rest.length = rest.reverse.map (·.1) := by
            have h1 : (remain.take f.written.length).take rest.length = rest.reverse.map (·.1) := by
              rw [← hmap]; simp
            rw [List.take_take] at h1
            rw [← h1]; congr 1; omega
          have hin : tr ∈ remain.take rest.length := by
            rw [htake]; simpa using hmem
          have := cut_lt_of_mem_take remain rest.length tr hin
          omega
      · rename_i s' bud' zr k len ds zsz heq
        obtain ⟨f, hf, hk, hpos⟩ := writeAZip_stored_light env nameOK tbl whole wsz s bud remain n wbw trunc lays.head? s' bud' zr k len ds zsz heq
        have hpos := hpos hleg
        apply packLoop_terminates env hleg nameOK tbl whole wsz fuel
        have hkc := fill_len_le_cut env.c tbl s trunc remain _ [] [] [] f hf
        simp only [List.length_nil, Nat.zero_add] at hkc
        have hcl := cut_le trunc remain
        have hR : (remain.drop k).length = remain.length - k := by simp
        have hc2 : cut none (remain.drop k) = remain.length - k := by simp [cut]
        rw [hR, hc2]
        have hkR : k ≤ remain.length := by omega
        -- (R-k)(R-k+1) + (R-k) + 1 = (R-k+1)² ≤ R² < R(R+1) + cut + 1
        have h1 : (remain.length - k) * (remain.length - k + 1) + (remain.length - k) + 1 ≤ remain.length * remain.length := by
          have : remain.length - k + 1 ≤ remain.length := by omega
          calc (remain.length - k) * (remain.length - k + 1) + (remain.length - k) + 1
              = (remain.length - k + 1) * (remain.length - k + 1) := by
                simp only [Nat.mul_add, Nat.add_mul, Nat.mul_one, Nat.one_mul]; omega
            _ ≤ remain.length * remain.length := Nat.mul_le_mul this this
        have h2 : remain.length * (remain.length + 1) = remain.length * remain.length + remain.length := by
          rw [Nat.mul_add, Nat.mul_one]
        omega

end Pk.BP
