import PkVerif.Lemmas.RefOverlay
/-! C01: the overlay combinator refines the reference map on histories whose received keys satisfy
`K`, whenever both layers do (`overlayRefinesK`).  The statements and proofs are those of
`RefOverlay.lean` with `RefinesK` for `Refines`: overlay passes the received op itself to the upper
layer and only reads (fetch, stat, enum: `KOK` is trivial) to the lower one; every visible key is a
key of one of the layers. -/
namespace Pk.Stores
open Pk Pk.SMap Pk.RefMap

theorem sub_enumK {content : Bytes → Bytes} {K : Bytes → Prop} {I : Impl} (R : RefinesK content K I) (s : I.σ)
    (h : R.Inv s) (c : Bytes) (r : Nat) :
    ∃ s1, I.step s (.enum c r) = (s1, .refs (enumOf (R.abs s) c r)) ∧ R.abs s1 = R.abs s ∧
      R.Inv s1 := by
  obtain ⟨ho, ha, hi⟩ := R.step_ok s (.enum c r) h trivial trivial
  exact ⟨(I.step s (.enum c r)).1, Prod.ext rfl ho, ha, hi⟩

/-- one round of the loop with `remaining ≠ 0`, over refining layers -/
theorem ovl_roundK {content : Bytes → Bytes} {K : Bytes → Prop} {lower upper : Impl} (Rl : RefinesK content K lower)
    (Ru : RefinesK content K upper) (del : SMap Unit) (fuel : Nat) (ls : lower.σ) (us : upper.σ)
    (after : Bytes) (remaining : Nat) (acc : List (Bytes × Nat))
    (hl : Rl.Inv ls) (hu : Ru.Inv us) (hr : remaining ≠ 0) :
    ∃ ls1 us1, Rl.abs ls1 = Rl.abs ls ∧ Ru.abs us1 = Ru.abs us ∧ Rl.Inv ls1 ∧ Ru.Inv us1 ∧
      overlayEnum lower upper del (fuel + 1) ls us after remaining acc =
        match (enumOf (union (Ru.abs us) (Rl.abs ls)) after remaining).getLast? with
        | none => (ls1, us1, some acc)
        | some last =>
          overlayEnum lower upper del fuel ls1 us1 last.1
            (remaining - ((enumOf (union (Ru.abs us) (Rl.abs ls)) after remaining).filter
              (fun p => !has del p.1)).length)
            (acc ++ (enumOf (union (Ru.abs us) (Rl.abs ls)) after remaining).filter
              (fun p => !has del p.1)) := by
  obtain ⟨ls1, h1, ha1, hi1⟩ := sub_enumK Rl ls hl after remaining
  obtain ⟨us1, h2, ha2, hi2⟩ := sub_enumK Ru us hu after remaining
  refine ⟨ls1, us1, ha1, ha2, hi1, hi2, ?_⟩
  rw [overlayEnum]
  simp only [hr, if_false, h1, h2]
  rw [enum2_spec (Rl.good ls hl) (Ru.good us hu),
    union_comm_good (Rl.good ls hl) (Ru.good us hu)]
  cases (enumOf (union (Ru.abs us) (Rl.abs ls)) after remaining).getLast? <;> rfl

/-- **the refill loop, any fuel.**  With `U` the union of the layers: if the fuel is at least 1 and,
when there is something to do, at least (number of tombstoned entries of `U` after the cursor) + 2,
the loop returns `acc` followed by the first `remaining` live entries of `U` after the cursor, and
leaves the layers' contents unchanged. -/
theorem overlayEnum_spec_tombK {content : Bytes → Bytes} {K : Bytes → Prop} {lower upper : Impl}
    (Rl : RefinesK content K lower) (Ru : RefinesK content K upper) (del : SMap Unit) :
    ∀ (fuel : Nat) (ls : lower.σ) (us : upper.σ) (after : Bytes) (remaining : Nat)
      (acc : List (Bytes × Nat)),
      Rl.Inv ls → Ru.Inv us → 1 ≤ fuel →
      (remaining ≠ 0 → entriesAfter (union (Ru.abs us) (Rl.abs ls)) after ≠ [] →
        tombAfter del (union (Ru.abs us) (Rl.abs ls)) after + 2 ≤ fuel) →
      ∃ ls' us', overlayEnum lower upper del fuel ls us after remaining acc =
          (ls', us', some (acc ++ ((entriesAfter (union (Ru.abs us) (Rl.abs ls)) after).filter
            (fun p => !has del p.1)).take remaining)) ∧
        Rl.abs ls' = Rl.abs ls ∧ Ru.abs us' = Ru.abs us ∧ Rl.Inv ls' ∧ Ru.Inv us' := by
  intro fuel
  induction fuel with
  | zero => intro _ _ _ _ _ _ _ h; cases h
  | succ f ih =>
    intro ls us after remaining acc hl hu _ hfuel
    by_cases hr : remaining = 0
    · subst hr
      refine ⟨ls, us, ?_, rfl, rfl, hl, hu⟩
      rw [overlayEnum]; simp
    · obtain ⟨ls1, us1, ha1, ha2, hi1, hi2, hstep⟩ :=
        ovl_roundK Rl Ru del f ls us after remaining acc hl hu hr
      have hUk : KAsc (union (Ru.abs us) (Rl.abs ls)) := kasc_union _ (Rl.good ls hl).1
      have hU1 : union (Ru.abs us1) (Rl.abs ls1) = union (Ru.abs us) (Rl.abs ls) := by rw [ha2, ha1]
      obtain ⟨U, hU⟩ : ∃ U, U = union (Ru.abs us) (Rl.abs ls) := ⟨_, rfl⟩
      rw [← hU] at hfuel hstep hUk hU1 ⊢
      rw [hstep, enumOf_eq_take]
      cases hg : ((entriesAfter U after).take remaining).getLast? with
      | none =>
        have h0 : (entriesAfter U after).take remaining = [] := List.getLast?_eq_none_iff.mp hg
        have hE : entriesAfter U after = [] := by
          rcases List.take_eq_nil_iff.mp h0 with h | h
          · exact absurd h hr
          · exact h
        exact ⟨ls1, us1, by simp [hE], ha1, ha2, hi1, hi2⟩
      | some last =>
        obtain ⟨ini, hini⟩ := List.getLast?_eq_some_iff.mp hg
        have hdrop := entriesAfter_last hUk after remaining ini last hini
        have hne : entriesAfter U after ≠ [] := by
          intro h; rw [h] at hini; simp at hini
        have hT := hfuel hr hne
        have hcond : remaining - (((entriesAfter U after).take remaining).filter
              (fun p => !has del p.1)).length ≠ 0 →
            entriesAfter (union (Ru.abs us1) (Rl.abs ls1)) last.1 ≠ [] →
            tombAfter del (union (Ru.abs us1) (Rl.abs ls1)) last.1 + 2 ≤ f := by
          rw [hU1, hdrop]
          intro hrem hrest
          have hlen : ((entriesAfter U after).take remaining).length = remaining := by
            rw [List.length_take]
            have : ¬ (entriesAfter U after).length ≤ remaining := fun h =>
              hrest (List.drop_eq_nil_iff.mpr h)
            omega
          have hpart := length_filter_add (fun p : Bytes × Nat => has del p.1)
            ((entriesAfter U after).take remaining)
          have hsp := tomb_split del (entriesAfter U after) remaining
          unfold tombAfter at hT ⊢
          rw [hdrop]
          omega
        obtain ⟨ls', us', hres, hb1, hb2, hj1, hj2⟩ :=
          ih ls1 us1 last.1 _ (acc ++ ((entriesAfter U after).take remaining).filter
            (fun p => !has del p.1)) hi1 hi2 (by omega) hcond
        rw [hU1, hdrop] at hres
        refine ⟨ls', us', ?_, hb1.trans ha1, hb2.trans ha2, hj1, hj2⟩
        simp only
        rw [hres, filter_take_split _ (entriesAfter U after) remaining, List.append_assoc]

/-- **the refill loop, fuel computable from the model state**: `del.length + 2` rounds are enough
(every round that does not finish sees at least one new tombstoned entry). -/
theorem overlayEnum_spec_delK {content : Bytes → Bytes} {K : Bytes → Prop} {lower upper : Impl}
    (Rl : RefinesK content K lower) (Ru : RefinesK content K upper) (del : SMap Unit) (hd : KAsc del)
    (fuel : Nat) (ls : lower.σ) (us : upper.σ) (after : Bytes) (remaining : Nat)
    (acc : List (Bytes × Nat)) (hl : Rl.Inv ls) (hu : Ru.Inv us)
    (hfuel : del.length + 2 ≤ fuel) :
    ∃ ls' us', overlayEnum lower upper del fuel ls us after remaining acc =
        (ls', us', some (acc ++ enumOf ((union (Ru.abs us) (Rl.abs ls)).filter
          (fun p => !has del p.1)) after remaining)) ∧
      Rl.abs ls' = Rl.abs ls ∧ Ru.abs us' = Ru.abs us ∧ Rl.Inv ls' ∧ Ru.Inv us' := by
  rw [enumOf_live]
  apply overlayEnum_spec_tombK Rl Ru del fuel ls us after remaining acc hl hu (by omega)
  intro _ _
  have := tombAfter_le_del hd (kasc_union (Ru.abs us) (Rl.good ls hl).1) after
  omega

section StepK
variable {content : Bytes → Bytes} {K : Bytes → Prop} {lower upper : Impl}

/-- the visible map: upper wins, tombstoned keys hidden -/
def ovlAbsK (Rl : RefinesK content K lower) (Ru : RefinesK content K upper)
    (s : (overlayImpl lower upper).σ) : SMap Bytes :=
  (union (Ru.abs s.2.1) (Rl.abs s.1)).filter (fun p => !has s.2.2 p.1)

def ovlInvK (Rl : RefinesK content K lower) (Ru : RefinesK content K upper)
    (s : (overlayImpl lower upper).σ) : Prop :=
  Rl.Inv s.1 ∧ Ru.Inv s.2.1 ∧ KAsc s.2.2

/-- what a step `s --op--> r` of the overlay must satisfy, component by component: the answer is the
reference map's, the lower layer's contents are untouched, the upper layer took the step, the
tombstones were updated -/
def OvlStepK (Rl : RefinesK content K lower) (Ru : RefinesK content K upper)
    (s : (overlayImpl lower upper).σ) (op : Op) (r : (overlayImpl lower upper).σ × Out) : Prop :=
  r.2 = out (ovlAbsK Rl Ru s) op ∧ Rl.abs r.1.1 = Rl.abs s.1 ∧
    Ru.abs r.1.2.1 = next (Ru.abs s.2.1) op ∧ r.1.2.2 = ovlDel op s.2.2 ∧
    Rl.Inv r.1.1 ∧ Ru.Inv r.1.2.1

theorem ovl_goodK (Rl : RefinesK content K lower) (Ru : RefinesK content K upper)
    (s : (overlayImpl lower upper).σ) (h : ovlInvK Rl Ru s) : Good content (ovlAbsK Rl Ru s) :=
  good_live _ (good_union (Ru.good _ h.2.1) (Rl.good _ h.1))

/-- an `OvlStepK` is a step of the reference map on the visible map and keeps `ovlInvK` -/
theorem OvlStepK.ok {Rl : RefinesK content K lower} {Ru : RefinesK content K upper}
    {s : (overlayImpl lower upper).σ} {op : Op} {r : (overlayImpl lower upper).σ × Out}
    (h : OvlStepK Rl Ru s op r) (hs : ovlInvK Rl Ru s) (hop : op.WK content) :
    r.2 = out (ovlAbsK Rl Ru s) op ∧ ovlAbsK Rl Ru r.1 = next (ovlAbsK Rl Ru s) op ∧
      ovlInvK Rl Ru r.1 := by
  obtain ⟨ho, hal, hau, hd, hil, hiu⟩ := h
  refine ⟨ho, ?_, hil, hiu, by rw [hd]; exact kasc_ovlDel op hs.2.2⟩
  unfold ovlAbsK
  rw [hal, hau, hd]
  exact ovl_abs_next (Ru.good _ hs.2.1) (Rl.good _ hs.1) hs.2.2 op hop


/-- receive, remove, fetch, stat of the model as it stands -/
theorem ovl_step_nonenumK (Rl : RefinesK content K lower) (Ru : RefinesK content K upper)
    (s : (overlayImpl lower upper).σ) (op : Op) (hs : ovlInvK Rl Ru s) (hop : op.WK content)
    (hK : op.KOK K)
    (hne : ∀ a l, op ≠ .enum a l) :
    OvlStepK Rl Ru s op ((overlayImpl lower upper).step s op) := by
  obtain ⟨ls, us, del⟩ := s
  obtain ⟨hl, hu, hD⟩ := hs
  have hB := (Rl.good ls hl).1
  cases op with
  | enum a l => exact absurd rfl (hne a l)
  | recv k v =>
    obtain ⟨ho, ha, hi⟩ := Ru.step_ok us (.recv k v) hu hop hK
    generalize hst : upper.step us (.recv k v) = pr at ho ha hi
    obtain ⟨us1, o⟩ := pr
    simp only [out] at ho
    simp only at ho ha hi
    subst ho
    simp only [overlayImpl, hst]
    exact ⟨rfl, rfl, ha, rfl, hl, hi⟩
  | rm k =>
    obtain ⟨ho, ha, hi⟩ := Ru.step_ok us (.rm k) hu trivial trivial
    generalize hst : upper.step us (.rm k) = pr at ho ha hi
    obtain ⟨us1, o⟩ := pr
    simp only [out] at ho
    simp only at ho ha hi
    subst ho
    simp only [overlayImpl, hst]
    exact ⟨rfl, rfl, ha, rfl, hl, hi⟩
  | fetch k =>
    simp only [overlayImpl]
    by_cases hd : has del k = true
    · simp only [hd, if_true]
      exact ⟨(out_live_dead del (kasc_union _ hB) hd).1.symm, rfl, rfl, rfl, hl, hu⟩
    · have hd' : has del k = false := Bool.eq_false_iff.mpr hd
      simp only [hd', Bool.false_eq_true, if_false]
      obtain ⟨ho, ha, hi⟩ := Ru.step_ok us (.fetch k) hu trivial trivial
      generalize hst : upper.step us (.fetch k) = pr at ho ha hi
      obtain ⟨us1, o⟩ := pr
      simp only at ho ha hi
      cases hg : SMap.get (Ru.abs us) k with
      | some v =>
        simp only [out, hg] at ho
        subst ho
        exact ⟨(out_live_upper del hB hd' hg).1.symm, rfl, ha, rfl, hl, hi⟩
      | none =>
        simp only [out, hg] at ho
        subst ho
        obtain ⟨ho2, ha2, hi2⟩ := Rl.step_ok ls (.fetch k) hl trivial trivial
        exact ⟨ho2.trans (out_live_lower del hB hd' hg).1.symm, ha2, ha, rfl, hi2, hi⟩
  | stat k =>
    simp only [overlayImpl]
    by_cases hd : has del k = true
    · simp only [hd, if_true]
      exact ⟨(out_live_dead del (kasc_union _ hB) hd).2.symm, rfl, rfl, rfl, hl, hu⟩
    · have hd' : has del k = false := Bool.eq_false_iff.mpr hd
      simp only [hd', Bool.false_eq_true, if_false]
      obtain ⟨ho, ha, hi⟩ := Ru.step_ok us (.stat k) hu trivial trivial
      generalize hst : upper.step us (.stat k) = pr at ho ha hi
      obtain ⟨us1, o⟩ := pr
      simp only at ho ha hi
      cases hg : SMap.get (Ru.abs us) k with
      | some v =>
        simp only [out, hg] at ho
        subst ho
        exact ⟨(out_live_upper del hB hd' hg).2.symm, rfl, ha, rfl, hl, hi⟩
      | none =>
        simp only [out, hg] at ho
        subst ho
        obtain ⟨ho2, ha2, hi2⟩ := Rl.step_ok ls (.stat k) hl trivial trivial
        exact ⟨ho2.trans (out_live_lower del hB hd' hg).2.symm, ha2, ha, rfl, hi2, hi⟩

/-- enumerate, for any fuel that covers the all-tombstoned rounds -/
theorem ovl_step_enumK (Rl : RefinesK content K lower) (Ru : RefinesK content K upper)
    (ls : lower.σ) (us : upper.σ) (del : SMap Unit) (after : Bytes) (limit fuel : Nat)
    (hs : ovlInvK Rl Ru (ls, us, del)) (h1 : 1 ≤ fuel)
    (hfuel : limit ≠ 0 → entriesAfter (union (Ru.abs us) (Rl.abs ls)) after ≠ [] →
      tombAfter del (union (Ru.abs us) (Rl.abs ls)) after + 2 ≤ fuel) :
    OvlStepK Rl Ru (ls, us, del) (.enum after limit)
      (match overlayEnum lower upper del fuel ls us after limit [] with
       | (ls1, us1, some l) => ((ls1, us1, del), .refs l)
       | (ls1, us1, none) => ((ls1, us1, del), .err)) := by
  obtain ⟨ls', us', hres, ha1, ha2, hi1, hi2⟩ :=
    overlayEnum_spec_tombK Rl Ru del fuel ls us after limit [] hs.1 hs.2.1 h1 hfuel
  rw [hres]
  refine ⟨?_, ha1, ha2, rfl, hi1, hi2⟩
  simp only [List.nil_append, out, ovlAbsK, enumOf_live]

end StepK

theorem ovl_init_absK {content : Bytes → Bytes} {K : Bytes → Prop} {lower upper : Impl} (Rl : RefinesK content K lower)
    (Ru : RefinesK content K upper) : ovlAbsK Rl Ru (lower.init, upper.init, []) = [] := by
  show (union (Ru.abs upper.init) (Rl.abs lower.init)).filter _ = []
  rw [Ru.init_abs, Rl.init_abs]
  rfl

/-- every visible key is a key of one of the layers -/
theorem ovl_keysK {content : Bytes → Bytes} {K : Bytes → Prop} {lower upper : Impl}
    (Rl : RefinesK content K lower) (Ru : RefinesK content K upper)
    (s : (overlayImpl lower upper).σ) (h : ovlInvK Rl Ru s) (k v : Bytes)
    (hg : SMap.get (ovlAbsK Rl Ru s) k = some v) : K k := by
  unfold ovlAbsK at hg
  rw [get_live _ (kasc_union _ (Rl.good _ h.1).1), get_union] at hg
  cases hd : has s.2.2 k with
  | true => simp [hd] at hg
  | false =>
    simp only [hd, Bool.false_eq_true, if_false] at hg
    cases hu : SMap.get (Ru.abs s.2.1) k with
    | some w => exact Ru.keys _ h.2.1 k w hu
    | none => rw [hu] at hg; exact Rl.keys _ h.1 k v hg

/-- **overlay refines the reference map whenever both layers do**, for ANY contents of the layers
and ANY tombstones: abs (ls, us, del) = (upper ∪ lower, upper wins) minus the tombstoned keys;
invariant = the layers' invariants and `KAsc del`.  The lower layer only ever sees fetch, stat and
enumerate. -/
def overlayRefinesK {content : Bytes → Bytes} {K : Bytes → Prop} {lower upper : Impl}
    (Rl : RefinesK content K lower) (Ru : RefinesK content K upper) :
    RefinesK content K (overlayImpl lower upper) where
  abs := ovlAbsK Rl Ru
  Inv := ovlInvK Rl Ru
  init_inv := ⟨Rl.init_inv, Ru.init_inv, kasc_nil⟩
  init_abs := ovl_init_absK Rl Ru
  good := ovl_goodK Rl Ru
  keys := ovl_keysK Rl Ru
  step_ok := by
    rintro ⟨ls, us, del⟩ op hs hop hK
    cases op with
    | enum after limit =>
      have hD : KAsc del := hs.2.2
      have ht := tombAfter_le_del hD (kasc_union (Ru.abs us) (Rl.good ls hs.1).1) after
      exact (ovl_step_enumK Rl Ru ls us del after limit (del.length + 2) hs (by omega)
        (fun _ _ => by omega)).ok hs hop
    | recv k v => exact (ovl_step_nonenumK Rl Ru _ _ hs hop hK (by intro a l h; cases h)).ok hs hop
    | rm k => exact (ovl_step_nonenumK Rl Ru _ _ hs hop hK (by intro a l h; cases h)).ok hs hop
    | fetch k => exact (ovl_step_nonenumK Rl Ru _ _ hs hop hK (by intro a l h; cases h)).ok hs hop
    | stat k => exact (ovl_step_nonenumK Rl Ru _ _ hs hop hK (by intro a l h; cases h)).ok hs hop

/-- the abstraction and invariant of `overlayRefinesK`, spelled out -/
theorem overlayRefinesK_abs {content : Bytes → Bytes} {K : Bytes → Prop} {lower upper : Impl}
    (Rl : RefinesK content K lower) (Ru : RefinesK content K upper) (ls : lower.σ) (us : upper.σ)
    (del : SMap Unit) :
    (overlayRefinesK Rl Ru).abs (ls, us, del) =
        (union (Ru.abs us) (Rl.abs ls)).filter (fun p => !has del p.1) ∧
    ((overlayRefinesK Rl Ru).Inv (ls, us, del) ↔ (Rl.Inv ls ∧ Ru.Inv us ∧ KAsc del)) :=
  ⟨rfl, Iff.rfl⟩

end Pk.Stores
