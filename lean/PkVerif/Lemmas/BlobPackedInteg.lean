import PkVerif.Lemmas.BlobPackedPack
/-!
# Lemmas for C04, part 6: the start-up integrity check after a crash – a cut pack can leave zips without
`z:` rows (→ "fast recovery"), never `z:` rows without zips (→ "full recovery")
-/
namespace Pk.BP
open Pk Pk.SMap

/-- every `z:` row names a zip that is in `large` -/
structure ZInv (s : St) : Prop where
  kz : KAsc s.z
  klarge : KAsc s.large
  sub : ∀ k, (get s.z k).isSome = true → (get s.large k).isSome = true

theorem zinv_empty : ZInv St.empty := ⟨kasc_nil, kasc_nil, fun k h => by simp [St.empty, SMap.get] at h⟩

/-! ## the walk finds no "extra" rows -/

/-- the `z:` keys still to be compared -/
def pending (iterate : Bool) (cur : Option Ref) (zs : List Ref) : List Ref :=
  if iterate then zs else (match cur with | some k => k :: zs | none => zs)

theorem mem_tail_of_lt {l x : Ref} {ls : List Ref} (hm : x ∈ l :: ls) (hlt : ltB l x = true) : x ∈ ls := by
  rcases List.mem_cons.mp hm with e | e
  · subst e; rw [ltB_irrefl] at hlt; cases hlt
  · exact e

theorem integWalk_no_extra : ∀ (fuel : Nat) (L : List Ref) (iterate : Bool) (cur : Option Ref) (zs : List Ref) (m : Nat),
    L.Pairwise (fun a b => ltB a b = true) → (pending iterate cur zs).Pairwise (fun a b => ltB a b = true) →
    (∀ k ∈ pending iterate cur zs, k ∈ L) → (iterate = false → cur.isSome = true) →
    (integWalk fuel L iterate cur zs m 0).2 = 0
  | 0, _, _, _, _, _, _, _, _, _ => rfl
  | _ + 1, [], _, _, _, _, _, _, _, _ => rfl
  | fuel + 1, l :: ls, iterate, cur, zs, m, hL, hP, hsub, hcur => by
    obtain ⟨hl, hls⟩ := List.pairwise_cons.mp hL
    -- the comparison of the key `k` (followed by `zs'`) with `l`
    have step : ∀ (k : Ref) (zs' : List Ref), (k :: zs').Pairwise (fun a b => ltB a b = true) →
        (∀ x ∈ k :: zs', x ∈ l :: ls) →
        (if k = l then integWalk fuel ls true (some k) zs' m 0
          else if ltB l k then integWalk fuel ls false (some k) zs' (m + 1) 0
          else integWalk fuel (l :: ls) true (some k) zs' m (0 + 1)).2 = 0 := by
      intro k zs' hkp hks
      obtain ⟨hk1, hk2⟩ := List.pairwise_cons.mp hkp
      by_cases e : k = l
      · simp only [e, if_true]
        apply integWalk_no_extra fuel ls true _ zs' m hls (by simpa [pending] using hk2) _ (fun hh => by cases hh)
        intro x hx
        simp only [pending, if_true] at hx
        exact mem_tail_of_lt (hks x (List.mem_cons_of_mem _ hx)) (e ▸ hk1 x hx)
      · by_cases hlt : ltB l k = true
        · simp only [e, hlt, if_false, if_true]
          apply integWalk_no_extra fuel ls false _ zs' (m + 1) hls (by simpa [pending] using hkp) _ (fun _ => rfl)
          intro x hx
          simp only [pending, Bool.false_eq_true, if_false, List.mem_cons] at hx
          rcases hx with rfl | hx
          · exact mem_tail_of_lt (hks _ (by simp)) hlt
          · exact mem_tail_of_lt (hks x (List.mem_cons_of_mem _ hx)) (ltB_trans _ _ _ hlt (hk1 x hx))
        · -- k < l is impossible: k is one of l :: ls, which ascends
          exfalso
          rcases List.mem_cons.mp (hks k (by simp)) with e' | e'
          · exact e e'
          · exact hlt (hl k e')
    unfold integWalk
    cases iterate with
    | true =>
      simp only [if_true]
      cases zs with
      | nil =>
        simp only
        exact integWalk_no_extra fuel ls true cur [] (m + 1) hls (by simp [pending]) (by simp [pending]) (fun hh => by cases hh)
      | cons k zs' =>
        simp only
        exact step k zs' (by simpa [pending] using hP) (by simpa [pending] using hsub)
    | false =>
      simp only [Bool.false_eq_true, if_false]
      have hc := hcur rfl
      cases cur with
      | none => cases hc
      | some k =>
        simp only
        exact step k zs (by simpa [pending] using hP) (by simpa [pending] using hsub)

theorem keys_pairwise {V : Type} {m : SMap V} (h : KAsc m) : (keys m).Pairwise (fun a b => ltB a b = true) := by
  simp only [keys, List.pairwise_map]; exact h

theorem mem_keys_iff {V : Type} {m : SMap V} (h : KAsc m) (k : Ref) : k ∈ keys m ↔ (get m k).isSome = true :=
  mem_keys_iff_get h k

/-- **no `z:` row without its zip ⇒ the integrity check never asks for a full recovery** -/
theorem integrity_not_full (s : St) (h : ZInv s) : checkLargeIntegrity s ≠ .full := by
  unfold checkLargeIntegrity
  have h0 := integWalk_no_extra (s.large.length + s.z.length + 1) (keys s.large) true none (keys s.z) 0
    (keys_pairwise h.klarge) (by simpa [pending] using keys_pairwise h.kz)
    (by
      intro k hk
      simp only [pending, if_true] at hk
      exact (mem_keys_iff h.klarge k).mpr (h.sub k ((mem_keys_iff h.kz k).mp hk)))
    (fun hh => by cases hh)
  cases hw : integWalk (s.large.length + s.z.length + 1) (keys s.large) true none (keys s.z) 0 0 with
  | mk m e =>
    rw [hw] at h0
    simp only at h0
    subst h0
    simp only [Nat.lt_irrefl, if_false]
    split <;> simp

/-! ## the invariant through a pack -/

theorem zinv_of_eq {s s' : St} (h : ZInv s) (ez : s'.z = s.z) (m : LargeMono s s') (hk : KAsc s'.large) : ZInv s' :=
  ⟨ez ▸ h.kz, hk, fun k hk' => by
    rw [ez] at hk'
    have := h.sub k hk'
    cases hg : get s.large k with
    | none => rw [hg] at this; cases this
    | some z => rw [m k z hg]; rfl⟩

theorem packLoop_zinv {C : Ref → Bytes} (env : PackEnv) (nameOK : Bool) (tbl : List Chunk) (whole : Ref) (wsz : Nat) :
    ∀ (fuel : Nat) (s : St) (bud : Budget) (remain : List Ref) (n wbw : Nat) (trunc : Option Ref)
      (lays : List ZipLayout) (t o : Nat) (zs : List ZipRec),
      Inv C s → TblOK C s tbl → ZInv s →
      ZInv (packLoop env nameOK tbl whole wsz fuel s bud remain n wbw trunc lays t o zs).s
  | 0, _, _, _, _, _, _, _, _, _, _, _, _, hz => hz
  | fuel + 1, s, bud, remain, n, wbw, trunc, lays, t, o, zs, h, ht, hz => by
    unfold packLoop
    split
    · split
      · exact ⟨hz.kz, hz.klarge, hz.sub⟩
      · exact hz
    · have hs := writeAZip_sound (C := C) env nameOK tbl whole wsz s bud remain n wbw trunc lays.head? h ht
      simp only
      split
      · rename_i s' bud' heq
        rw [heq] at hs
        obtain ⟨m, _, ez, _⟩ := writeAZip_fail_mono env nameOK tbl whole wsz s bud remain n wbw trunc lays.head? s' bud' heq
        exact zinv_of_eq hz ez m hs.1.klarge
      · exact packLoop_zinv env nameOK tbl whole wsz fuel s bud remain n wbw _ _ _ _ zs h ht hz
      · rename_i s' bud' zr k len ds zsz heq
        rw [heq] at hs
        have sf := writeAZip_stored (C := C) env nameOK tbl whole wsz s bud remain n wbw trunc lays.head? h ht s' bud' zr k len ds zsz heq
        obtain ⟨⟨l, f, _, _, _, _, _, _, _, _, _, _, hget, _, _, hzz, _, _⟩, m⟩ := sf
        refine packLoop_zinv env nameOK tbl whole wsz fuel s' bud' _ _ _ _ _ _ _ _ hs.1 (ht.sameView hs.2) ?_
        refine ⟨by rw [hzz]; exact kasc_ins _ _ hz.kz, hs.1.klarge, fun k0 hk0 => ?_⟩
        rw [hzz] at hk0
        simp only [commitZip, get_ins] at hk0
        by_cases e : k0 = zr
        · rw [e, hget]; rfl
        · simp only [e, if_false] at hk0
          have := hz.sub k0 hk0
          cases hg : get s.large k0 with
          | none => rw [hg] at this; cases this
          | some z => rw [m k0 z hg]; rfl

theorem packFile_zinv {C : Ref → Bytes} (env : PackEnv) (s : St) (bud : Budget) (fileRef : Ref)
    (lays : List ZipLayout) (fuel : Nat) (h : Inv C s) (hz : ZInv s) :
    ZInv (packFile env s bud fileRef lays fuel).s := by
  unfold packFile
  simp only
  split
  · rename_i v parts hv hk
    split
    · exact hz
    · rename_i tbl htbl
      split
      · exact hz
      · split
        · exact hz
        · obtain ⟨hpv, hvv⟩ := fetch_ok h hv
          have hpath : PairsOK C s [(fileRef, v)] := by
            intro q hq; simp only [List.mem_singleton] at hq; subst hq; exact ⟨hvv, hpv⟩
          exact packLoop_zinv (C := C) env _ tbl _ _ fuel s bud _ 0 0 none lays 0 0 [] h
            (scanParts_ok h env.K scanFuel _ parts tbl hpath htbl) hz
  · exact hz

theorem receive_zinv {C : Ref → Bytes} (env : PackEnv) (s : St) (bud : Budget) (r : Ref) (v : Bytes)
    (lays : List ZipLayout) (fuel : Nat) (h : Inv C s) (hv : v = C r) (hz : ZInv s) :
    ZInv (receive env s bud r v lays fuel).s := by
  unfold receive
  simp only
  have hput : ZInv (putSmall s r v) := ⟨hz.kz, hz.klarge, hz.sub⟩
  have hputI : Inv C (putSmall s r v) := inv_putSmall h r v hv
  by_cases hp : (get s.b r).isSome = true
  · simp only [hp, if_true, Bool.true_or]
    split <;> exact hz
  · simp only [hp, Bool.false_eq_true, if_false, Bool.false_or]
    cases ht : bud.take with
    | mk ok bud' =>
      cases ok with
      | false => exact hz
      | true =>
        simp only
        split
        · split
          · exact hput
          · exact packFile_zinv (C := C) env _ bud' r lays fuel hputI hput
        · exact hput

theorem remove_zinv (c : Cfg) (s : St) (r : Ref) (hz : ZInv s) : ZInv (remove c s r) := by
  unfold remove
  split <;> exact ⟨hz.kz, hz.klarge, hz.sub⟩

end Pk.BP
