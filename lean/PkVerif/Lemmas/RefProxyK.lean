import PkVerif.Lemmas.RefProxy
/-!
C01: `proxyRefines` relative to a key predicate `K` (origins such as files / diskpacked refine the
reference map only for keys that are real ref texts).
-/
namespace Pk.Stores
open Pk Pk.SMap Pk.RefMap

/-- proxycache over an origin that refines the map for keys satisfying `K`, and any cache satisfying
the (unrestricted) cache contract, refines the map for keys satisfying `K`.  Every op sent to the
origin is the caller's op; the only derived op is the `.recv` issued to the cache on a fetch miss. -/
def proxyRefinesK {content : Bytes → Bytes} {K : Bytes → Prop} {origin cache : Impl}
    (Ro : RefinesK content K origin) (Cc : Caches content cache) (max : Nat) :
    RefinesK content K (proxyImpl origin cache max) where
  abs := fun s => Ro.abs s.1
  Inv := fun s => Ro.Inv s.1 ∧ Cc.Inv s.2.1 ∧ Sub (Cc.abs s.2.1) (Ro.abs s.1)
  init_inv := ⟨Ro.init_inv, Cc.init_inv, by
    show Sub (Cc.abs cache.init) _
    rw [Cc.init_abs]; intro k v h; simp [SMap.get] at h⟩
  init_abs := Ro.init_abs
  good := fun s h => Ro.good s.1 h.1
  keys := fun s h => Ro.keys s.1 h.1
  step_ok := by
    rintro ⟨os, cs, b⟩ op ⟨hR, hC, hS⟩ hop hK
    have hGo := Ro.good os hR
    cases op with
    | fetch k =>
      obtain ⟨hco, hcs⟩ := Cc.read_ok cs (.fetch k) hC trivial
      have hci := Cc.step_inv cs (.fetch k) hC trivial
      obtain ⟨hoo, hoa, hoi⟩ := Ro.step_ok os (.fetch k) hR trivial trivial
      simp only [proxyImpl]
      generalize cache.step cs (.fetch k) = pc at hco hcs hci
      obtain ⟨cs1, oc⟩ := pc
      simp only at hco hcs hci
      have hS1 : Sub (Cc.abs cs1) (Ro.abs os) := hcs.trans hS
      simp only [out, next] at hco hoo hoa ⊢
      cases hgc : SMap.get (Cc.abs cs) k with
      | some v =>
        -- cache hit: the origin holds the same bytes
        rw [hgc] at hco; simp only at hco; subst hco
        simp only [hS k v hgc]
        obtain ⟨ht1, ht2⟩ := proxyTouch_ok Cc max cs1 b k v.length hci
        generalize proxyTouch cache max cs1 b k v.length = pt at ht1 ht2
        obtain ⟨cs2, b2⟩ := pt
        exact ⟨trivial, trivial, hR, ht1, ht2.trans hS1⟩
      | none =>
        rw [hgc] at hco; simp only at hco; subst hco
        simp only
        generalize origin.step os (.fetch k) = po at hoo hoa hoi
        obtain ⟨os1, oo⟩ := po
        simp only at hoo hoa hoi
        cases hgo : SMap.get (Ro.abs os) k with
        | none =>
          rw [hgo] at hoo; simp only at hoo; subst hoo
          simp only
          exact ⟨trivial, hoa, hoi, hci, hoa ▸ hS1⟩
        | some v =>
          rw [hgo] at hoo; simp only at hoo; subst hoo
          simp only
          have hwk : (Op.recv k v).WK content := hGo.2 k v hgo
          obtain ⟨hro, hrs⟩ := Cc.recv_ok cs1 k v hci hwk
          have hri := Cc.step_inv cs1 (.recv k v) hci hwk
          have hS2 := hrs.trans (sub_ins_of_get hS1 hgo)
          clear hrs
          generalize cache.step cs1 (.recv k v) = pr at hro hS2 hri
          obtain ⟨cs2, or⟩ := pr
          simp only at hro hS2 hri
          subst hro
          simp only
          obtain ⟨ht1, ht2⟩ := proxyTouch_ok Cc max cs2 b k v.length hri
          generalize proxyTouch cache max cs2 b k v.length = pt at ht1 ht2
          obtain ⟨cs3, b3⟩ := pt
          exact ⟨trivial, hoa, hoi, ht1, hoa ▸ ht2.trans hS2⟩
    | stat k =>
      obtain ⟨hco, hcs⟩ := Cc.read_ok cs (.stat k) hC trivial
      have hci := Cc.step_inv cs (.stat k) hC trivial
      obtain ⟨hoo, hoa, hoi⟩ := Ro.step_ok os (.stat k) hR trivial trivial
      simp only [proxyImpl]
      generalize cache.step cs (.stat k) = pc at hco hcs hci
      obtain ⟨cs1, oc⟩ := pc
      simp only at hco hcs hci
      have hS1 : Sub (Cc.abs cs1) (Ro.abs os) := hcs.trans hS
      simp only [out, next] at hco hoo hoa ⊢
      cases hgc : SMap.get (Cc.abs cs) k with
      | some v =>
        rw [hgc] at hco; simp only at hco; subst hco
        simp only [hS k v hgc]
        obtain ⟨ht1, ht2⟩ := proxyTouch_ok Cc max cs1 b k v.length hci
        generalize proxyTouch cache max cs1 b k v.length = pt at ht1 ht2
        obtain ⟨cs2, b2⟩ := pt
        exact ⟨trivial, trivial, hR, ht1, ht2.trans hS1⟩
      | none =>
        rw [hgc] at hco; simp only at hco; subst hco
        simp only
        generalize origin.step os (.stat k) = po at hoo hoa hoi
        obtain ⟨os1, oo⟩ := po
        simp only at hoo hoa hoi
        cases hgo : SMap.get (Ro.abs os) k with
        | none =>
          rw [hgo] at hoo; simp only at hoo; subst hoo
          simp only
          exact ⟨trivial, hoa, hoi, hci, hoa ▸ hS1⟩
        | some v =>
          rw [hgo] at hoo; simp only at hoo; subst hoo
          simp only
          obtain ⟨ht1, ht2⟩ := proxyTouch_ok Cc max cs1 b k v.length hci
          generalize proxyTouch cache max cs1 b k v.length = pt at ht1 ht2
          obtain ⟨cs2, b2⟩ := pt
          exact ⟨trivial, hoa, hoi, ht1, hoa ▸ ht2.trans hS1⟩
    | recv k v =>
      obtain ⟨hoo, hoa, hoi⟩ := Ro.step_ok os (.recv k v) hR hop hK
      obtain ⟨hro, hrs⟩ := Cc.recv_ok cs k v hC hop
      have hri := Cc.step_inv cs (.recv k v) hC hop
      have hS1 : Sub (Cc.abs (cache.step cs (.recv k v)).1) (Ro.abs (origin.step os (.recv k v)).1) := by
        rw [hoa]; exact hrs.trans (sub_ins_next hGo hS k v hop)
      clear hrs
      simp only [proxyImpl]
      generalize origin.step os (.recv k v) = po at hoo hoa hoi hS1
      obtain ⟨os1, oo⟩ := po
      simp only [out] at hoo hoa hoi hS1
      subst hoo
      simp only
      generalize cache.step cs (.recv k v) = pr at hro hri hS1
      obtain ⟨cs1, or⟩ := pr
      simp only at hro hri hS1
      subst hro
      simp only [out]
      obtain ⟨ht1, ht2⟩ := proxyTouch_ok Cc max cs1 b k v.length hri
      generalize proxyTouch cache max cs1 b k v.length = pt at ht1 ht2
      obtain ⟨cs2, b2⟩ := pt
      exact ⟨trivial, hoa, hoi, ht1, ht2.trans hS1⟩
    | rm k =>
      obtain ⟨hoo, hoa, hoi⟩ := Ro.step_ok os (.rm k) hR trivial trivial
      obtain ⟨hro, hrs⟩ := Cc.rm_ok cs k hC
      have hri := Cc.step_inv cs (.rm k) hC trivial
      have hS1 : Sub (Cc.abs (cache.step cs (.rm k)).1) (Ro.abs (origin.step os (.rm k)).1) := by
        rw [hoa]; exact hrs.trans (sub_del_del k (Cc.good cs hC).1 hGo.1 hS)
      clear hrs
      simp only [proxyImpl]
      generalize origin.step os (.rm k) = po at hoo hoa hoi hS1
      obtain ⟨os1, oo⟩ := po
      generalize cache.step cs (.rm k) = pr at hro hri hS1
      obtain ⟨cs1, or⟩ := pr
      simp only [out] at hoo hoa hoi hS1 hro hri
      subst hoo; subst hro
      simp only [out]
      exact ⟨trivial, hoa, hoi, hri, hS1⟩
    | enum after limit =>
      obtain ⟨hoo, hoa, hoi⟩ := Ro.step_ok os (.enum after limit) hR trivial trivial
      refine ⟨hoo, hoa, hoi, hC, ?_⟩
      show Sub (Cc.abs cs) (Ro.abs (origin.step os (.enum after limit)).1)
      rw [hoa]; exact hS

end Pk.Stores
