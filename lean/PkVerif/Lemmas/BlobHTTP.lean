import PkVerif.Model.BlobHTTP
import PkVerif.Props.C02
import PkVerif.Props.C20
/-!
# Lemmas for C18 (HTTP blob protocol): paging by `continueAfter`, the stat scan, visibility
-/
namespace Pk.BlobHTTP
open Pk Pk.SMap Pk.RefMap

/-! ## parameters -/

theorem enumLimit_pos (c : Cfg) (h1 : 1 ≤ c.maxEnumerate) (h2 : 1 ≤ c.defaultEnum) (arg : Bytes) :
    1 ≤ enumLimit c arg := by
  unfold enumLimit
  split
  · exact h2
  · split
    · exact h1
    · rename_i n _
      by_cases hn : (n = 0 || n > c.maxEnumerate) = true
      · rw [if_pos hn]; exact h1
      · rw [if_neg hn]
        simp at hn
        omega

theorem enumLimit_le (c : Cfg) (h : c.defaultEnum ≤ c.maxEnumerate) (arg : Bytes) :
    enumLimit c arg ≤ c.maxEnumerate := by
  unfold enumLimit
  split
  · exact h
  · split
    · exact Nat.le_refl _
    · rename_i n _
      by_cases hn : (n = 0 || n > c.maxEnumerate) = true
      · rw [if_pos hn]; exact Nat.le_refl _
      · rw [if_neg hn]
        simp at hn
        omega

theorem atoi_dec_zero : atoi (natToDec 0) = 0 := by decide

/-! ## entries after a cursor -/

/-- ascending by ref text -/
abbrev PW (E : List (Bytes × Nat)) : Prop := E.Pairwise (fun a b => ltB a.1 b.1 = true)

/-- the entries strictly after a cursor -/
def aft (E : List (Bytes × Nat)) (c : Bytes) : List (Bytes × Nat) := E.filter (fun q => ltB c q.1)

theorem pw_sizes {m : SMap Bytes} (h : KAsc m) : PW (sizes m) := by
  unfold sizes
  exact List.pairwise_map.mpr h

theorem enumOf_eq (m : SMap Bytes) (c : Bytes) (n : Nat) : enumOf m c n = (aft (sizes m) c).take n := by
  unfold enumOf aft sizes
  rw [List.filter_map]
  rfl

theorem aft_length_le (E : List (Bytes × Nat)) (c : Bytes) : (aft E c).length ≤ E.length :=
  List.length_filter_le _ _

theorem ltB_nil_left {k : Bytes} (h : k ≠ []) : ltB [] k = true := by
  cases k with
  | nil => exact absurd rfl h
  | cons _ _ => rfl

theorem aft_nil {E : List (Bytes × Nat)} (h : ∀ p ∈ E, p.1 ≠ []) : aft E [] = E := by
  unfold aft
  exact List.filter_eq_self.mpr (fun p hp => ltB_nil_left (h p hp))

/-- for ANY cursor, what lies after it in an ascending list is a suffix -/
theorem aft_eq_drop (E : List (Bytes × Nat)) (h : PW E) (c : Bytes) : ∃ n, aft E c = E.drop n := by
  induction E with
  | nil => exact ⟨0, rfl⟩
  | cons a t ih =>
    by_cases hca : ltB c a.1 = true
    · refine ⟨0, ?_⟩
      have hall : ∀ x ∈ a :: t, ltB c x.1 = true := by
        intro x hx
        cases hx with
        | head => exact hca
        | tail _ hx' => exact ltB_trans _ _ _ hca ((List.pairwise_cons.mp h).1 x hx')
      simp only [List.drop, aft]
      exact List.filter_eq_self.mpr hall
    · obtain ⟨n, hn⟩ := ih (List.pairwise_cons.mp h).2
      refine ⟨n + 1, ?_⟩
      unfold aft at hn ⊢
      simp [List.filter, hca, hn]

/-- what lies after the last element of a prefix of an ascending list is the rest -/
theorem filter_gt_last (ini post : List (Bytes × Nat)) (last : Bytes × Nat)
    (h : PW (ini ++ last :: post)) :
    aft (ini ++ last :: post) last.1 = post := by
  unfold aft
  induction ini with
  | nil =>
    have hall : ∀ x ∈ post, ltB last.1 x.1 = true := (List.pairwise_cons.mp h).1
    simp [ltB_irrefl, List.filter_eq_self.mpr hall]
  | cons a t ih =>
    have hal : ltB a.1 last.1 = true := (List.pairwise_cons.mp h).1 last (by simp)
    have : ltB last.1 a.1 = false := ltB_asymm _ _ hal
    simp only [List.cons_append, List.filter_cons, this, Bool.false_eq_true, if_false]
    exact ih (List.pairwise_cons.mp h).2

/-- the cursor moves to the last entry of a page: what remains is what followed the page -/
theorem aft_after_last {E : List (Bytes × Nat)} (h : PW E) (c : Bytes) (ini post : List (Bytes × Nat))
    (last : Bytes × Nat) (hs : aft E c = ini ++ last :: post) : aft E last.1 = post := by
  obtain ⟨n, hn⟩ := aft_eq_drop E h c
  have hE : E = (E.take n ++ ini) ++ last :: post := by
    have := List.take_append_drop n E
    rw [← hn, hs] at this
    simpa [List.append_assoc] using this.symm
  rw [hE] at h ⊢
  exact filter_gt_last _ _ _ h

theorem mem_aft {E : List (Bytes × Nat)} {c : Bytes} {p : Bytes × Nat} (h : p ∈ aft E c) : p ∈ E :=
  (List.mem_filter.mp h).1

theorem mem_sizes {m : SMap Bytes} {p : Bytes × Nat} (h : p ∈ sizes m) : ∃ q ∈ m, q.1 = p.1 := by
  unfold sizes at h
  obtain ⟨q, hq, rfl⟩ := List.mem_map.mp h
  exact ⟨q, hq, rfl⟩

/-! ## the enumerate handler over a quiescent store -/

theorem pageAfter_nil (limit : Nat) : pageAfter limit [] = [] := by
  unfold pageAfter
  split <;> rfl

/-- with nothing arriving, the long-poll loop answers what a single iteration answers -/
theorem enumLoop_quiescent (w : Nat) (after : Bytes) (limit : Nat) (m : SMap Bytes) (k : Nat) :
    enumLoop w after limit (m :: List.replicate k m) =
      (enumOf m after limit, pageAfter limit (enumOf m after limit)) := by
  induction k with
  | zero =>
    unfold enumLoop
    by_cases h : (w = 0 || !(enumOf m after limit).isEmpty) = true
    · simp only [h, if_true]
    · simp only [h]
      simp at h
      simp [enumLoop, h.2, pageAfter_nil]
  | succ k ih =>
    unfold enumLoop
    by_cases h : (w = 0 || !(enumOf m after limit).isEmpty) = true
    · simp only [h, if_true]
    · simp only [h]
      rw [List.replicate_succ]
      exact ih

/-- the handler's answer to the client's request over a quiescent store: never a 400 (the client
sends a wait only with an empty cursor), the page is the reference map's, continueAfter iff full -/
theorem handle_client_req (c : Cfg) (m : SMap Bytes) (k : Nat) (cur batch : Bytes) (waitSec : Nat) :
    handleEnumerateBlobs c m (List.replicate k m) ⟨cur, batch, natToDec (if cur = [] then waitSec else 0)⟩ =
      .ok (enumOf m cur (enumLimit c batch)) (pageAfter (enumLimit c batch) (enumOf m cur (enumLimit c batch))) := by
  unfold handleEnumerateBlobs
  have hg : (natToDec (if cur = [] then waitSec else 0) ≠ [] &&
      atoi (natToDec (if cur = [] then waitSec else 0)) != 0 && cur ≠ []) = false := by
    by_cases hc : cur = []
    · simp [hc]
    · simp [hc, atoi_dec_zero]
  simp only [hg, Bool.false_eq_true, if_false]
  rw [enumLoop_quiescent]

/-! ## the client's loop -/

theorem sendItems_ok (okRef : Bytes → Bool) (optLimit : Nat) :
    ∀ (l : List (Bytes × Nat)) (n : Nat), (∀ p ∈ l, okRef p.1 = true) → (optLimit = 0 ∨ n < optLimit) →
      sendItems okRef optLimit n l =
        if optLimit = 0 ∨ n + l.length < optLimit then (l, .cont (n + l.length))
        else (l.take (optLimit - n), .stop) := by
  intro l
  induction l with
  | nil =>
    intro n _ hn
    have : optLimit = 0 ∨ n + ([] : List (Bytes × Nat)).length < optLimit := by simp; omega
    unfold sendItems
    rw [if_pos this]
    rfl
  | cons p ps ih =>
    intro n hok hn
    have hp : okRef p.1 = true := hok p (by simp)
    unfold sendItems
    simp only [hp, Bool.not_true, Bool.false_eq_true, if_false]
    by_cases he : optLimit = n + 1
    · have : ¬ (optLimit = 0 ∨ n + (p :: ps).length < optLimit) := by simp; omega
      rw [if_pos he, if_neg this]
      have : optLimit - n = 1 := by omega
      simp [this]
    · rw [if_neg he]
      have hn' : optLimit = 0 ∨ n + 1 < optLimit := by omega
      rw [ih (n + 1) (fun q hq => hok q (by simp [hq])) hn']
      by_cases hc : optLimit = 0 ∨ n + 1 + ps.length < optLimit
      · have hc' : optLimit = 0 ∨ n + (p :: ps).length < optLimit := by simp; omega
        rw [if_pos hc, if_pos hc']
        simp; omega
      · have hc' : ¬ (optLimit = 0 ∨ n + (p :: ps).length < optLimit) := by simp; simp at hc; omega
        rw [if_neg hc, if_neg hc']
        have : optLimit - n = (optLimit - (n + 1)) + 1 := by omega
        simp [this]

theorem take_lt_length {α : Type} {l : List α} {n : Nat} (h : (l.take n).length < n) : l.take n = l := by
  apply List.take_of_length_le
  rw [List.length_take] at h
  omega

/-- **the paging lemma**: the client's loop against the handler over a quiescent store, from any
cursor, with any server page size ≥ 1, sends what remains after the cursor – exactly once, in order –
(or its first `optLimit - n` entries), and reports no error -/
theorem clientLoop_quiescent (c : Cfg) (m : SMap Bytes) (hk : KAsc m) (hne : ∀ p ∈ m, p.1 ≠ [])
    (okRef : Bytes → Bool) (hok : ∀ p ∈ m, okRef p.1 = true) (batch : Bytes)
    (hb : 1 ≤ enumLimit c batch) (k waitSec optLimit : Nat) :
    ∀ (fuel : Nat) (cur : Bytes) (n : Nat), (aft (sizes m) cur).length < fuel →
      (optLimit = 0 ∨ n < optLimit) →
      clientEnumLoop (handleEnumerateBlobs c m (List.replicate k m)) okRef batch optLimit waitSec fuel cur n =
        ⟨if optLimit = 0 then aft (sizes m) cur else (aft (sizes m) cur).take (optLimit - n), true⟩ := by
  intro fuel
  induction fuel with
  | zero => intro _ _ h; cases h
  | succ fuel ih =>
    intro cur n hf hn
    have hpw : PW (sizes m) := pw_sizes hk
    unfold clientEnumLoop
    rw [handle_client_req, enumOf_eq]
    generalize hrest : aft (sizes m) cur = rest at hf ⊢
    generalize hlim : enumLimit c batch = lim at hb ⊢
    have hokp : ∀ p ∈ rest.take lim, okRef p.1 = true := by
      intro p hp
      have hp' : p ∈ sizes m := mem_aft (hrest ▸ List.mem_of_mem_take hp)
      obtain ⟨q, hq, hqk⟩ := mem_sizes hp'
      rw [← hqk]; exact hok q hq
    dsimp only
    rw [sendItems_ok okRef optLimit _ n hokp hn]
    by_cases hc : optLimit = 0 ∨ n + (rest.take lim).length < optLimit
    · rw [if_pos hc]
      simp only
      by_cases hshort : (rest.take lim).length < lim
      · -- the last page
        have hpa : pageAfter lim (rest.take lim) = [] := by unfold pageAfter; rw [if_pos hshort]
        rw [hpa]
        simp only [if_true]
        have hall : rest.take lim = rest := take_lt_length hshort
        rw [hall] at hc ⊢
        by_cases h0 : optLimit = 0
        · simp [h0]
        · have : rest.length ≤ optLimit - n := by omega
          simp [h0, List.take_of_length_le this]
      · -- a full page: continue after its last entry
        have hlen : (rest.take lim).length = lim := by
          have := List.length_take_le lim rest
          omega
        have hne' : rest.take lim ≠ [] := by
          intro h; rw [h] at hlen; simp at hlen; omega
        obtain ⟨last, hgl⟩ : ∃ last, (rest.take lim).getLast? = some last := by
          cases hg : (rest.take lim).getLast? with
          | none => exact absurd (List.getLast?_eq_none_iff.mp hg) hne'
          | some last => exact ⟨last, rfl⟩
        obtain ⟨ini, hsplit⟩ : ∃ ini, rest.take lim = ini ++ [last] := List.getLast?_eq_some_iff.mp hgl
        have hpa : pageAfter lim (rest.take lim) = last.1 := by
          unfold pageAfter
          rw [if_neg hshort, hgl]
        have hrs : rest = ini ++ last :: rest.drop lim := by
          have := List.take_append_drop lim rest
          rw [hsplit] at this
          simpa [List.append_assoc] using this.symm
        have hlast_mem : last ∈ sizes m := by
          apply mem_aft (c := cur)
          rw [hrest, hrs]; simp
        have hlast_ne : last.1 ≠ [] := by
          obtain ⟨q, hq, hqk⟩ := mem_sizes hlast_mem
          rw [← hqk]; exact hne q hq
        have hnext : aft (sizes m) last.1 = rest.drop lim :=
          aft_after_last hpw cur ini (rest.drop lim) last (hrest.trans hrs)
        rw [hpa]
        simp only [hlast_ne, if_false]
        have hf' : (aft (sizes m) last.1).length < fuel := by
          rw [hnext, List.length_drop]
          have : lim ≤ rest.length := by
            rw [List.length_take] at hlen; omega
          omega
        have hn' : optLimit = 0 ∨ n + (rest.take lim).length < optLimit := hc
        rw [ih last.1 (n + (rest.take lim).length) hf' hn', hnext, hlen]
        by_cases h0 : optLimit = 0
        · simp [h0, List.take_append_drop]
        · simp only [h0, if_false]
          have : optLimit - n = lim + (optLimit - (n + lim)) := by omega
          rw [this, List.take_add]
    · rw [if_neg hc]
      have h0 : optLimit ≠ 0 := fun h => hc (Or.inl h)
      simp only [h0, if_false]
      rw [List.take_take]
      have : min (optLimit - n) lim = optLimit - n := by
        have := List.length_take_le lim rest
        have h2 : ¬ n + (rest.take lim).length < optLimit := fun h => hc (Or.inr h)
        rw [List.length_take] at h2
        omega
      rw [this]

/-! ## stat -/

/-- the map key of a `blobN` value -/
def keyOf (tbl : Ref.Tbl) (v : Bytes) : Option Bytes := (Ref.parse tbl v true).map Ref.toText

theorem mem_addNeed (acc : List Bytes) (k x : Bytes) : x ∈ addNeed acc k ↔ x ∈ acc ∨ x = k := by
  unfold addNeed
  by_cases h : acc.contains k = true
  · rw [if_pos h]
    constructor
    · intro hx; exact Or.inl hx
    · intro hx
      cases hx with
      | inl hx => exact hx
      | inr hx => subst hx; simpa using h
  · rw [if_neg h]; simp

theorem nodup_addNeed {acc : List Bytes} (k : Bytes) (h : acc.Nodup) : (addNeed acc k).Nodup := by
  unfold addNeed
  by_cases hc : acc.contains k = true
  · rw [if_pos hc]; exact h
  · rw [if_neg hc]
    have hk : k ∉ acc := by simpa using hc
    rw [List.nodup_append]
    refine ⟨h, by simp, ?_⟩
    intro a ha b hb
    simp at hb
    subst hb
    intro he; subst he; exact hk ha

/-- within the cap, a list of parsable non-empty values is scanned to the set of their keys -/
theorem statScan_ok (maxStat : Nat) (tbl : Ref.Tbl) :
    ∀ (vals : List Bytes) (n : Nat) (acc : List Bytes),
      (∀ v ∈ vals, v ≠ [] ∧ (keyOf tbl v).isSome = true) → n + vals.length ≤ maxStat + 1 →
      ∃ need, statScan maxStat tbl n vals acc = .ok need ∧
        (∀ k, k ∈ need ↔ k ∈ acc ∨ ∃ v ∈ vals, keyOf tbl v = some k) ∧ (acc.Nodup → need.Nodup) := by
  intro vals
  induction vals with
  | nil => intro n acc _ _; exact ⟨acc, rfl, by simp, id⟩
  | cons v vs ih =>
    intro n acc hv hlen
    obtain ⟨hne, hsome⟩ := hv v (by simp)
    unfold statScan
    rw [if_neg hne]
    have hn : ¬ n > maxStat := by simp at hlen; omega
    rw [if_neg hn]
    unfold keyOf at hsome
    cases hp : Ref.parse tbl v true with
    | none => rw [hp] at hsome; simp at hsome
    | some r =>
      simp only
      obtain ⟨need, hs, hmem, hnd⟩ := ih (n + 1) (addNeed acc (Ref.toText r))
        (fun x hx => hv x (by simp [hx])) (by simp at hlen; omega)
      refine ⟨need, hs, ?_, fun h => hnd (nodup_addNeed _ h)⟩
      intro k
      rw [hmem k, mem_addNeed]
      have hkv : keyOf tbl v = some (Ref.toText r) := by unfold keyOf; rw [hp]; rfl
      constructor
      · intro h
        rcases h with (h | h) | ⟨x, hx, hxk⟩
        · exact Or.inl h
        · exact Or.inr ⟨v, by simp, by rw [hkv, h]⟩
        · exact Or.inr ⟨x, by simp [hx], hxk⟩
      · intro h
        rcases h with h | ⟨x, hx, hxk⟩
        · exact Or.inl (Or.inl h)
        · cases hx with
          | head => rw [hkv] at hxk; exact Or.inl (Or.inr (Option.some.inj hxk).symm)
          | tail _ hx' => exact Or.inr ⟨x, hx', hxk⟩

/-- beyond the cap: more non-empty values than the cap are refused whatever they are -/
theorem statScan_over (maxStat : Nat) (tbl : Ref.Tbl) :
    ∀ (vals : List Bytes) (n : Nat) (acc : List Bytes), (∀ v ∈ vals, v ≠ []) → n ≤ maxStat + 1 →
      maxStat + 1 < n + vals.length → ∃ e, statScan maxStat tbl n vals acc = .err e := by
  intro vals
  induction vals with
  | nil => intro n acc _ h1 h2; simp at h2; omega
  | cons v vs ih =>
    intro n acc hv h1 h2
    unfold statScan
    rw [if_neg (hv v (by simp))]
    by_cases hn : n > maxStat
    · rw [if_pos hn]; exact ⟨_, rfl⟩
    · rw [if_neg hn]
      cases hp : Ref.parse tbl v true with
      | none => exact ⟨_, rfl⟩
      | some r =>
        simp only
        exact ih (n + 1) _ (fun x hx => hv x (by simp [hx])) (by omega) (by simp at h2; omega)

/-- … and with "too many" when every value is a ref -/
theorem statScan_over_parsable (maxStat : Nat) (tbl : Ref.Tbl) :
    ∀ (vals : List Bytes) (n : Nat) (acc : List Bytes),
      (∀ v ∈ vals, v ≠ [] ∧ (keyOf tbl v).isSome = true) → n ≤ maxStat + 1 →
      maxStat + 1 < n + vals.length → statScan maxStat tbl n vals acc = .err .tooMany := by
  intro vals
  induction vals with
  | nil => intro n acc _ h1 h2; simp at h2; omega
  | cons v vs ih =>
    intro n acc hv h1 h2
    obtain ⟨hne, hsome⟩ := hv v (by simp)
    unfold statScan
    rw [if_neg hne]
    by_cases hn : n > maxStat
    · rw [if_pos hn]
    · rw [if_neg hn]
      unfold keyOf at hsome
      cases hp : Ref.parse tbl v true with
      | none => rw [hp] at hsome; simp at hsome
      | some r =>
        simp only
        exact ih (n + 1) _ (fun x hx => hv x (by simp [hx])) (by omega) (by simp at h2; omega)

/-- the scan stops at the first absent/empty value: what follows is never looked at -/
theorem statScan_hole (maxStat : Nat) (tbl : Ref.Tbl) (post : List Bytes) :
    ∀ (pre : List Bytes) (n : Nat) (acc : List Bytes),
      statScan maxStat tbl n (pre ++ [] :: post) acc = statScan maxStat tbl n pre acc := by
  intro pre
  induction pre with
  | nil => intro n acc; simp [statScan]
  | cons v vs ih =>
    intro n acc
    simp only [List.cons_append]
    unfold statScan
    by_cases hv : v = []
    · rw [if_pos hv, if_pos hv]
    · rw [if_neg hv, if_neg hv]
      by_cases hn : n > maxStat
      · rw [if_pos hn, if_pos hn]
      · rw [if_neg hn, if_neg hn]
        cases Ref.parse tbl v true with
        | none => rfl
        | some r => exact ih _ _

theorem mem_statPass (m : SMap Bytes) (need : List Bytes) (k : Bytes) (n : Nat) :
    (k, n) ∈ statPass m need ↔ k ∈ need ∧ ∃ v, get m k = some v ∧ n = v.length := by
  unfold statPass
  rw [List.mem_filterMap]
  constructor
  · rintro ⟨a, ha, h⟩
    cases hg : get m a with
    | none => rw [hg] at h; simp at h
    | some v =>
      rw [hg] at h
      simp at h
      obtain ⟨h1, h2⟩ := h
      subst h1
      exact ⟨ha, v, hg, h2.symm⟩
  · rintro ⟨hk, v, hg, hn⟩
    exact ⟨k, hk, by rw [hg, hn]; rfl⟩

theorem keys_statPass (m : SMap Bytes) (need : List Bytes) :
    (statPass m need).map (·.1) = need.filter (fun k => has m k) := by
  induction need with
  | nil => rfl
  | cons k ks ih =>
    unfold statPass at ih ⊢
    cases hg : get m k with
    | none => simp [List.filterMap_cons, hg, has, ih]
    | some v => simp [List.filterMap_cons, hg, has, ih]

theorem statPass_missing (m : SMap Bytes) (need : List Bytes) :
    statPass m (need.filter (fun k => !has m k)) = [] := by
  induction need with
  | nil => rfl
  | cons k ks ih =>
    cases hg : get m k with
    | none =>
      have : has m k = false := by simp [has, hg]
      simp only [List.filter_cons, this, Bool.not_false, if_true]
      unfold statPass at ih ⊢
      simp [List.filterMap_cons, hg, ih]
    | some v =>
      have : has m k = true := by simp [has, hg]
      simp only [List.filter_cons, this, Bool.not_true, Bool.false_eq_true, if_false]
      exact ih

/-- with nothing arriving, the stat loop answers what a single pass answers -/
theorem statLoop_quiescent (w : Nat) (m : SMap Bytes) :
    ∀ (k : Nat) (need : List Bytes), statLoop w need (m :: List.replicate k m) = statPass m need := by
  intro k
  induction k with
  | zero =>
    intro need
    unfold statLoop
    dsimp only
    split
    · rfl
    · simp [statLoop]
  | succ k ih =>
    intro need
    unfold statLoop
    dsimp only
    split
    · rfl
    · rw [List.replicate_succ, ih, statPass_missing]; simp

/-! ## a stored blob is visible through every read path -/

theorem get_sizes_filter {m : SMap Bytes} (hm : KAsc m) {k v : Bytes} (h : get m k = some v) :
    (sizes m).filter (fun p => p.1 == k) = [(k, v.length)] := by
  induction m with
  | nil => simp [SMap.get] at h
  | cons p rest ih =>
    obtain ⟨k', v'⟩ := p
    have hlt := kasc_head_lt hm
    by_cases hk : k = k'
    · subst hk
      simp [SMap.get] at h
      subst h
      have hnone : ∀ q ∈ sizes rest, (q.1 == k) = false := by
        intro q hq
        obtain ⟨q', hq', hqk⟩ := mem_sizes hq
        have := hlt q' hq'
        rw [hqk] at this
        simp only [beq_eq_false_iff_ne, ne_eq]
        intro he
        rw [he, ltB_irrefl] at this
        cases this
      have : (sizes rest).filter (fun p => p.1 == k) = [] := List.filter_eq_nil_iff.mpr (by
        intro q hq; simp [hnone q hq])
      simp [sizes] at this ⊢
      exact this
    · simp only [SMap.get, hk, if_false] at h
      have := ih (kasc_tail hm) h
      have hne : (k' == k) = false := by simp; exact fun e => hk e.symm
      simp [sizes, hne] at this ⊢
      exact this

/-- the map after a (verified) receive holds the bytes under the key -/
theorem get_next_recv {content : Bytes → Bytes} {m : SMap Bytes} (hm : Good content m) (k v : Bytes)
    (hv : v = content k) : get (next m (.recv k v)) k = some v := by
  simp only [next]
  by_cases hh : has m k = true
  · rw [if_pos hh]
    cases hg : get m k with
    | none => simp [has, hg] at hh
    | some v' => rw [(hm.2 k v' hg).1, hv]
  · rw [if_neg hh, get_ins]; simp

theorem get_next_recv_other {m : SMap Bytes} (k v x : Bytes) (hx : x ≠ k) :
    get (next m (.recv k v)) x = get m x := by
  simp only [next]
  split
  · rfl
  · rw [get_ins]; simp [hx]

/-! ## ref texts (C20: whatever parses is its own canonical text) -/

/-- `blob.Parse` accepts the text -/
abbrev IsRef (tbl : Ref.Tbl) (v : Bytes) : Prop := (Ref.parse tbl v true).isSome = true

theorem keyOf_of_isRef {tbl : Ref.Tbl} {v : Bytes} (h : IsRef tbl v) : keyOf tbl v = some v := by
  unfold keyOf
  cases hp : Ref.parse tbl v true with
  | none => simp [IsRef, hp] at h
  | some r => simp [Ref.C20_parse_toText tbl v true r hp]

theorem keyOf_eq {tbl : Ref.Tbl} {v k : Bytes} (h : keyOf tbl v = some k) : k = v := by
  unfold keyOf at h
  cases hp : Ref.parse tbl v true with
  | none => simp [hp] at h
  | some r =>
    rw [hp] at h
    simp at h
    rw [← h, Ref.C20_parse_toText tbl v true r hp]

theorem isRef_ne_nil {tbl : Ref.Tbl} {v : Bytes} (h : IsRef tbl v) : v ≠ [] := by
  intro hv
  subst hv
  simp [IsRef, Ref.parse, Ref.splitDash] at h

theorem refOf_of_isRef {tbl : Ref.Tbl} {v : Bytes} (h : IsRef tbl v) : ∃ sup, refOf tbl v = some (v, sup) := by
  unfold refOf
  cases hp : Ref.parse tbl v true with
  | none => simp [IsRef, hp] at h
  | some r => exact ⟨Ref.supported tbl r, by simp [Ref.C20_parse_toText tbl v true r hp]⟩

theorem refOf_eq {tbl : Ref.Tbl} {v k : Bytes} {sup : Bool} (h : refOf tbl v = some (k, sup)) :
    k = v ∧ IsRef tbl v := by
  unfold refOf at h
  cases hp : Ref.parse tbl v true with
  | none => simp [hp] at h
  | some r =>
    rw [hp] at h
    simp at h
    exact ⟨by rw [← h.1, Ref.C20_parse_toText tbl v true r hp], by simp [IsRef, hp]⟩

/-! ## uploads -/

/-- "the declared Content-Length is over the cap" -/
def overCap (max : Nat) : Option Nat → Bool
  | some n => decide (n > max)
  | none => false

/-- what the PUT handler does once the method and the declared length are fine -/
def putInner (max : Nat) (parses sup : Bool) (mt : Bytes → Bool) (src : Recv.Src) : Recv.Http × Recv.Res :=
  if parses = false then (.badRequest400, .badHash) else
  if sup = false then (.badRequest400, .badHash) else
  match Recv.receive max true mt src with
  | .accepted d => (.noContent204, .accepted d)
  | .corrupt => (.badRequest400, .corrupt)
  | r => (.serverError500, r)

theorem putDecision_eq (max : Nat) (cl : Option Nat) (parses sup : Bool) (mt : Bytes → Bool) (src : Recv.Src) :
    Recv.putDecision max true cl parses sup mt src =
      if overCap max cl = true then (.badRequest400, .tooBig) else putInner max parses sup mt src := by
  cases cl <;> cases parses <;> cases sup <;> rfl

theorem putDecision_204 {max : Nat} {cl : Option Nat} {parses sup : Bool} {mt : Bytes → Bool} {src : Recv.Src}
    (h : (Recv.putDecision max true cl parses sup mt src).1 = .noContent204) :
    ∃ d, Recv.putDecision max true cl parses sup mt src = (.noContent204, .accepted d) ∧
      Recv.receive max true mt src = .accepted d := by
  rw [putDecision_eq] at h ⊢
  cases hov : overCap max cl
  · simp only [hov, Bool.false_eq_true, if_false] at h ⊢
    unfold putInner at h ⊢
    cases parses
    · cases h
    · cases sup
      · cases h
      · simp only [Bool.true_eq_false, if_false] at h ⊢
        cases hr : Recv.receive max true mt src with
        | accepted d => exact ⟨d, rfl, rfl⟩
        | corrupt => rw [hr] at h; cases h
        | tooBig => rw [hr] at h; cases h
        | srcErr => rw [hr] at h; cases h
        | badHash => rw [hr] at h; cases h
  · simp only [hov, if_true] at h
    cases h

theorem putDecision_not_accepted {max : Nat} {cl : Option Nat} {parses sup : Bool} {mt : Bytes → Bool}
    {src : Recv.Src} {code : Recv.Http} {d : Bytes}
    (h : Recv.putDecision max true cl parses sup mt src = (code, .accepted d)) : code = .noContent204 := by
  rw [putDecision_eq] at h
  cases hov : overCap max cl
  · simp only [hov, Bool.false_eq_true, if_false] at h
    unfold putInner at h
    cases parses
    · cases h
    · cases sup
      · cases h
      · simp only [Bool.true_eq_false, if_false] at h
        cases hr : Recv.receive max true mt src with
        | accepted d' => rw [hr] at h; injection h with h1 _; exact h1.symm
        | corrupt => rw [hr] at h; cases h
        | tooBig => rw [hr] at h; cases h
        | srcErr => rw [hr] at h; cases h
        | badHash => rw [hr] at h; cases h
  · simp only [hov, if_true] at h
    cases h

/-- a whole-body source is accepted exactly with its body -/
theorem receive_body_accepted {max : Nat} {sup : Bool} {mt : Bytes → Bool} {body d : Bytes}
    (h : Recv.receive max sup mt ⟨[body], .eof⟩ = .accepted d) : d = body ∧ mt body = true := by
  have := (Recv.C02_accept_iff max sup mt ⟨[body], .eof⟩ d).mp h
  simp [Recv.Src.total] at this
  exact ⟨this.2.2.2, this.2.2.1⟩

theorem get_next_recv_mono {m : SMap Bytes} (k d x v : Bytes) (h : get m x = some v) :
    get (next m (.recv k d)) x = some v := by
  simp only [next]
  by_cases hh : has m k = true
  · rw [if_pos hh]; exact h
  · rw [if_neg hh, get_ins]
    by_cases hx : x = k
    · subst hx; simp [has, h] at hh
    · simp [hx, h]

/-- the multipart loop over parts whose hash test is sound: the map stays good, nothing is lost, every
listed blob is there with the listed size -/
theorem multipartStore_spec (content : Bytes → Bytes) (max : Nat) :
    ∀ (ps : List Recv.Part) (m : SMap Bytes), Good content m →
      (∀ p ∈ ps, p.parses = true → p.key ≠ [] ∧ ∀ b, p.matches_ b = true → b = content p.key) →
      Good content (multipartStore max m ps) ∧
      (∀ x v, get m x = some v → get (multipartStore max m ps) x = some v) ∧
      (∀ e ∈ Recv.multipart max ps, ∃ v, get (multipartStore max m ps) e.1 = some v ∧ v.length = e.2) := by
  intro ps
  induction ps with
  | nil => intro m hm _; exact ⟨hm, fun _ _ h => h, by simp [Recv.multipart]⟩
  | cons p ps ih =>
    intro m hm hp
    unfold multipartStore Recv.multipart
    by_cases hpar : p.parses = true
    · simp only [hpar, Bool.not_true, Bool.false_eq_true, if_false]
      obtain ⟨hkne, hsound⟩ := hp p (by simp) hpar
      cases hr : Recv.receive max p.supported p.matches_ p.src with
      | accepted d =>
        simp only
        have hacc := (Recv.C02_accept_iff max p.supported p.matches_ p.src d).mp hr
        have hd : d = content p.key := by
          have := hsound p.src.total hacc.2.2.2.1
          rw [hacc.2.2.2.2]; exact this
        have hm1 : Good content (next m (.recv p.key d)) := good_next hm (.recv p.key d) ⟨hd, hkne⟩
        obtain ⟨g, mono, lst⟩ := ih (next m (.recv p.key d)) hm1 (fun q hq => hp q (by simp [hq]))
        refine ⟨g, fun x v h => mono x v (get_next_recv_mono _ _ _ _ h), ?_⟩
        intro e he
        cases he with
        | head => exact ⟨d, mono _ _ (get_next_recv hm p.key d hd), rfl⟩
        | tail _ he' => exact lst e he'
      | corrupt => exact ⟨hm, fun _ _ h => h, by simp⟩
      | tooBig => exact ⟨hm, fun _ _ h => h, by simp⟩
      | srcErr => exact ⟨hm, fun _ _ h => h, by simp⟩
      | badHash => exact ⟨hm, fun _ _ h => h, by simp⟩
    · have hpf : p.parses = false := by cases h : p.parses <;> simp_all
      simp only [hpf, Bool.not_false, if_true]
      exact ih m hm (fun q hq => hp q (by simp [hq]))

/-! ## the client's have-cache -/

/-- the cache only ever says what the server has -/
def HaveOK (m : SMap Bytes) (h : Have) : Prop :=
  ∀ k n, h.stat k = some n → ∃ v, get m k = some v ∧ n = v.length

theorem haveOK_none (m : SMap Bytes) : HaveOK m none := by
  intro k n h; simp [Have.stat] at h

theorem haveOK_note {m : SMap Bytes} {h : Have} (hh : HaveOK m h) (k : Bytes) (n : Nat) (v : Bytes)
    (hg : get m k = some v) (hn : n = v.length) : HaveOK m (h.note k n) := by
  cases h with
  | none => exact haveOK_none m
  | some c =>
    intro x nx hx
    simp only [Have.note, Have.stat, get_ins] at hx
    by_cases hxk : x = k
    · subst hxk
      simp at hx
      subst hx
      exact ⟨v, hg, hn⟩
    · simp only [hxk, if_false] at hx
      exact hh x nx hx

theorem haveOK_foldl {m : SMap Bytes} (l : List (Bytes × Nat)) :
    ∀ (h : Have), HaveOK m h → (∀ e ∈ l, ∃ v, get m e.1 = some v ∧ e.2 = v.length) →
      HaveOK m (l.foldl (fun h e => h.note e.1 e.2) h) := by
  induction l with
  | nil => intro h hh _; exact hh
  | cons e es ih =>
    intro h hh hl
    obtain ⟨v, hg, hn⟩ := hl e (by simp)
    exact ih _ (haveOK_note hh e.1 e.2 v hg hn) (fun x hx => hl x (by simp [hx]))

theorem haveOK_mono {m m' : SMap Bytes} {h : Have} (hh : HaveOK m h)
    (hmono : ∀ x v, get m x = some v → get m' x = some v) : HaveOK m' h := by
  intro k n hk
  obtain ⟨v, hg, hn⟩ := hh k n hk
  exact ⟨v, hmono k v hg, hn⟩

/-- one stat request for one ref -/
theorem doStat1_eq (c : Cfg) (hc : 1 ≤ c.maxStat) (tbl : Ref.Tbl) (m : SMap Bytes) (j : Nat) (k : Bytes)
    (hk : IsRef tbl k) :
    doStat1 (handleStat c tbl m (List.replicate j m)) k = some (statPass m [k]) := by
  unfold doStat1 handleStat
  obtain ⟨need, hs, hmem, hnd⟩ := statScan_ok c.maxStat tbl [k] 1 []
    (by intro v hv; simp at hv; subst hv; exact ⟨isRef_ne_nil hk, by rw [keyOf_of_isRef hk]; rfl⟩)
    (by simp; omega)
  have hneed : need = [k] := by
    have h1 : statScan c.maxStat tbl 1 [k] [] = .ok [k] := by
      unfold statScan
      rw [if_neg (isRef_ne_nil hk), if_neg (by omega)]
      cases hp : Ref.parse tbl k true with
      | none => simp [IsRef, hp] at hk
      | some r =>
        simp only [statScan, addNeed]
        simp [Ref.C20_parse_toText tbl k true r hp]
    rw [h1] at hs
    injection hs with hs
    exact hs.symm
  subst hneed
  simp only [Bool.not_true, Bool.false_eq_true, if_false]
  have hv : ¬ ([49] : Bytes) = [] := by simp
  rw [if_neg hv, hs]
  simp only
  rw [statLoop_quiescent]

/-- a stat request of one ref (any version text, any wait, quiescent store) -/
theorem handleStat_single (c : Cfg) (hc : 1 ≤ c.maxStat) (tbl : Ref.Tbl) (m : SMap Bytes) (j : Nat)
    (k ver mw : Bytes) (hver : ver ≠ []) (hk : IsRef tbl k) :
    handleStat c tbl m (List.replicate j m) ⟨true, ver, [k], mw⟩ = .ok (statPass m [k]) := by
  have h1 : statScan c.maxStat tbl 1 [k] [] = .ok [k] := by
    unfold statScan
    rw [if_neg (isRef_ne_nil hk), if_neg (by omega)]
    cases hp : Ref.parse tbl k true with
    | none => simp [IsRef, hp] at hk
    | some r =>
      simp only [statScan, addNeed]
      simp [Ref.C20_parse_toText tbl k true r hp]
  unfold handleStat
  simp only [Bool.not_true, Bool.false_eq_true, if_false, hver, h1]
  rw [statLoop_quiescent]

theorem statPass_cons (m : SMap Bytes) (k : Bytes) (ks : List Bytes) :
    statPass m (k :: ks) = statPass m [k] ++ statPass m ks := by
  unfold statPass
  cases hg : get m k <;> simp [List.filterMap_cons, hg]

end Pk.BlobHTTP
