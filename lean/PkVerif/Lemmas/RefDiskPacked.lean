import PkVerif.Model.DiskPacked
import PkVerif.Lemmas.Pack
import PkVerif.Lemmas.Stores
import PkVerif.Lemmas.RefFiles
/-!
# C01 leaf: diskpacked refines the reference map

`abs` reads the map back from the bytes: every index row `(pack, offset, size)` is replaced by the
extent it names.  The invariant `Inv` says each row's extent lies in its pack and holds `content k`,
is preceded by the header `[k size]`, and that the header+body regions of different rows of one pack
do not overlap.  `append` adds a region beyond every existing one (packs only grow), `remove`
rewrites bytes only inside the removed row's own region.
-/
namespace Pk.DiskPacked
open Pk Pk.SMap Pk.RefMap Pk.Pack Pk.Stores

/-! ## the index is a sorted association list -/

theorem iget_eq (idx : Index) (k : Bytes) : idx.get k = SMap.get idx k := by
  induction idx with
  | nil => rfl
  | cons p t ih => obtain ⟨k', v⟩ := p; simp only [Index.get, SMap.get, ih]

theorem iset_eq (idx : Index) (k : Bytes) (v : Meta) : idx.set k v = SMap.ins k v idx := by
  induction idx with
  | nil => rfl
  | cons p t ih =>
    obtain ⟨k', v'⟩ := p
    simp only [Index.set, SMap.ins]
    by_cases h : k = k'
    · subst h; simp [ltB_irrefl]
    · by_cases hl : ltB k k' = true
      · simp [h, hl]
      · simp [h, hl, ih]

theorem idel_eq {idx : Index} (hasc : KAsc idx) (k : Bytes) : idx.del k = SMap.del k idx := by
  induction idx with
  | nil => rfl
  | cons p t ih =>
    obtain ⟨k', v'⟩ := p
    simp only [Index.del, SMap.del, List.filter_cons]
    by_cases h : k = k'
    · subst h
      simp only [ne_eq, not_true_eq_false, decide_false, Bool.false_eq_true, if_false, if_true]
      apply List.filter_eq_self.mpr
      intro q hq
      have hlt := kasc_head_lt hasc q hq
      have : q.1 ≠ k := by intro e; rw [e] at hlt; simp [ltB_irrefl] at hlt
      simp [this]
    · have h' : k' ≠ k := fun e => h e.symm
      simp only [ne_eq, h', not_false_eq_true, decide_true, if_true, h, if_false]
      congr 1
      exact ih (kasc_tail hasc)

/-! ## extents under local rewrites -/

theorem extent_suffix (a b : Bytes) : extent (a ++ b) a.length b.length = b := by
  have := extent_exact a b []
  simpa using this

theorem replaceAt_length (l new : Bytes) (off : Nat) (h : off + new.length ≤ l.length) :
    (replaceAt l off new).length = l.length := by
  unfold replaceAt
  simp only [List.length_append, List.length_take, List.length_drop]
  omega

/-- a rewrite of `[off, off + new.length)` does not change an extent outside that range -/
theorem extent_replaceAt (l new : Bytes) (off o s : Nat) (h : off + new.length ≤ l.length)
    (hd : o + s ≤ off ∨ off + new.length ≤ o) :
    extent (replaceAt l off new) o s = extent l o s := by
  have hl : l = l.take off ++ (l.drop off).take new.length ++ l.drop (off + new.length) := by
    rw [List.append_assoc, ← List.drop_drop, List.take_append_drop, List.take_append_drop]
  have hmid : ((l.drop off).take new.length).length = new.length := by
    simp only [List.length_take, List.length_drop]; omega
  have hpre : (l.take off).length = off := by simp only [List.length_take]; omega
  conv => rhs; rw [hl]
  unfold replaceAt
  exact extent_frame (l.take off) new ((l.drop off).take new.length) (l.drop (off + new.length)) o s
    hmid.symm (by rw [hpre]; exact hd)

theorem zeroExtent_length (p : Bytes) (off size : Nat) : (zeroExtent p off size).length = p.length := by
  unfold zeroExtent
  simp only
  split
  · rfl
  · rename_i hn
    apply replaceAt_length
    simp only [List.length_replicate]
    unfold extent at hn ⊢
    simp only [List.length_take, List.length_drop] at hn ⊢
    omega

theorem extent_zeroExtent (p : Bytes) (off size o s : Nat) (hd : o + s ≤ off ∨ off + size ≤ o) :
    extent (zeroExtent p off size) o s = extent p o s := by
  unfold zeroExtent
  simp only
  split
  · rfl
  · rename_i hn
    have hle := extent_length_le p off size
    apply extent_replaceAt
    · simp only [List.length_replicate]
      unfold extent at hn ⊢
      simp only [List.length_take, List.length_drop] at hn ⊢
      omega
    · simp only [List.length_replicate]
      omega

theorem deletedHeader_length (b b' : Bytes) (h : deletedHeader b = some b') : b'.length = b.length := by
  unfold deletedHeader at h
  split at h
  · cases h
  · rename_i hb
    simp only at h
    split at h
    · cases h
    · rename_i dash hdash
      split at h
      · cases h
      · rename_i space hspace
        injection h with h
        subst h
        have h1 := indexOf_some_lt _ _ _ hdash
        have h2 := indexOf_some_lt _ _ _ hspace
        have hne : b ≠ [] := by intro e; subst e; simp at hb
        simp only [List.length_drop, List.length_dropLast] at h1 h2
        have : 0 < b.length := List.length_pos_iff.mpr hne
        simp only [List.length_cons, List.length_append, List.length_replicate, List.length_drop,
          List.length_dropLast, List.length_nil]
        omega

/-- length of the header `[k size]` -/
def hdrLen (k : Bytes) (size : Nat) : Nat := (encodeHeader k size).length

theorem hdrLen_eq (k : Bytes) (size : Nat) :
    1 + k.length + 1 + (decEnc size).length + 1 = hdrLen k size := by
  simp [hdrLen, encodeHeader]; omega

/-- the header rewrite of `delete` touches only `[offset - hdrLen, offset)` -/
theorem deleteHeaderAt_frame (p p1 ref : Bytes) (m : Meta) (h : deleteHeaderAt p ref m = some p1) :
    p1.length = p.length ∧
    ∀ o s, (o + s ≤ m.offset - hdrLen ref m.size ∨ m.offset ≤ o) → extent p1 o s = extent p o s := by
  unfold deleteHeaderAt at h
  simp only [hdrLen_eq] at h
  split at h
  · cases h
  · rename_i hoff
    split at h
    · cases h
    · rename_i hb
      split at h
      · cases h
      · rename_i b' hb'
        injection h with h
        subst h
        have hlen := deletedHeader_length _ _ hb'
        simp only [List.length_take, List.length_drop] at hb hlen
        have hpos : 0 < hdrLen ref m.size := by simp [hdrLen, encodeHeader]
        have hfit : m.offset - hdrLen ref m.size + b'.length ≤ p.length := by omega
        refine ⟨replaceAt_length _ _ _ hfit, ?_⟩
        intro o s hd
        apply extent_replaceAt _ _ _ _ _ hfit
        omega

/-- both writes of `delete` together touch only `[offset - hdrLen, offset + size)` -/
theorem delete_frame (p p1 ref : Bytes) (m : Meta) (h : deleteHeaderAt p ref m = some p1) :
    (zeroExtent p1 m.offset m.size).length = p.length ∧
    ∀ o s, (o + s ≤ m.offset - hdrLen ref m.size ∨ m.offset + m.size ≤ o) →
      extent (zeroExtent p1 m.offset m.size) o s = extent p o s := by
  obtain ⟨h1, h2⟩ := deleteHeaderAt_frame p p1 ref m h
  refine ⟨by rw [zeroExtent_length, h1], ?_⟩
  intro o s hd
  rw [extent_zeroExtent _ _ _ _ _ (by omega), h2 o s (by omega)]

/-- `delete` on the pack files: every pack keeps its length; bytes change only in the pack the row
names, inside the row's header+body region -/
theorem deletePack_frame (st : Store) (ref : Bytes) (m : Meta) (hm : st.index.get ref = some m)
    (i : Nat) (p : Bytes) (hp : st.packs[i]? = some p) :
    ∃ q, (st.deletePack ref true true)[i]? = some q ∧ q.length = p.length ∧
      ∀ o s, (i = m.file → o + s ≤ m.offset - hdrLen ref m.size ∨ m.offset + m.size ≤ o) →
        extent q o s = extent p o s := by
  unfold Store.deletePack
  simp only [hm]
  cases hp0 : st.packs[m.file]? with
  | none => exact ⟨p, hp, rfl, fun _ _ _ => rfl⟩
  | some p0 =>
    simp only
    cases hd : deleteHeaderAt p0 ref m with
    | none => exact ⟨p, hp, rfl, fun _ _ _ => rfl⟩
    | some p1 =>
      simp only [if_true]
      rw [getElem?_modifyNth]
      by_cases hi : i = m.file
      · subst hi
        rw [hp] at hp0
        injection hp0 with hp0
        subst hp0
        obtain ⟨h1, h2⟩ := delete_frame p p1 ref m hd
        simp only [if_true, hp, Option.map_some]
        exact ⟨_, rfl, h1, fun o s hd' => h2 o s (hd' trivial)⟩
      · simp only [hi, if_false]
        exact ⟨p, hp, rfl, fun _ _ _ => rfl⟩

theorem deletePack_absent (st : Store) (ref : Bytes) (hm : st.index.get ref = none) (hdr body : Bool) :
    st.deletePack ref hdr body = st.packs := by
  unfold Store.deletePack
  simp only [hm]

/-! ## abstraction and invariant -/

/-- the bytes a row names -/
def rowBytes (packs : List Bytes) (m : Meta) : Bytes :=
  extent (packs[m.file]?.getD []) m.offset m.size

/-- the map read back from the pack files through the index -/
def absOf (st : Store) : SMap Bytes := st.index.map (fun p => (p.1, rowBytes st.packs p.2))

/-- the row `k ↦ m` is right: `m.size` is the blob's size, the extent lies in pack `m.file`, holds
exactly `content k`, and is preceded by the header `[k size]` -/
def RowOK (content : Bytes → Bytes) (packs : List Bytes) (k : Bytes) (m : Meta) : Prop :=
  k ≠ [] ∧ m.size = (content k).length ∧ hdrLen k m.size ≤ m.offset ∧
  ∃ p, packs[m.file]? = some p ∧ m.offset + m.size ≤ p.length ∧
    extent p m.offset m.size = content k ∧
    extent p (m.offset - hdrLen k m.size) (hdrLen k m.size) = encodeHeader k m.size

/-- the header+body regions of two rows do not overlap -/
def Apart (k1 : Bytes) (m1 : Meta) (k2 : Bytes) (m2 : Meta) : Prop :=
  m1.file = m2.file →
    m1.offset + m1.size ≤ m2.offset - hdrLen k2 m2.size ∨
    m2.offset + m2.size ≤ m1.offset - hdrLen k1 m1.size

theorem Apart.symm {k1 k2 : Bytes} {m1 m2 : Meta} (h : Apart k1 m1 k2 m2) : Apart k2 m2 k1 m1 :=
  fun e => (h e.symm).symm

structure Inv (content : Bytes → Bytes) (st : Store) : Prop where
  asc : KAsc st.index
  ne : st.packs ≠ []
  row : ∀ k m, st.index.get k = some m → RowOK content st.packs k m
  apart : ∀ k1 m1 k2 m2, st.index.get k1 = some m1 → st.index.get k2 = some m2 → k1 ≠ k2 →
    Apart k1 m1 k2 m2

theorem inv_init (content : Bytes → Bytes) (max : Nat) : Inv content (Store.init max) :=
  ⟨kasc_nil, by simp [Store.init], by intro k m h; simp [Store.init, Index.get] at h,
   by intro k1 m1 k2 m2 h; simp [Store.init, Index.get] at h⟩

theorem abs_eq_mapK {content : Bytes → Bytes} {st : Store} (h : Inv content st) :
    absOf st = mapK content st.index := by
  unfold absOf mapK
  apply List.map_congr_left
  intro p hp
  obtain ⟨k, m⟩ := p
  have hg : st.index.get k = some m := by rw [iget_eq]; exact mem_get h.asc hp
  obtain ⟨_, _, _, q, hq, _, he, _⟩ := h.row k m hg
  simp only [rowBytes, hq, Option.getD_some, he]

theorem get_abs {content : Bytes → Bytes} {st : Store} (h : Inv content st) (k : Bytes) :
    SMap.get (absOf st) k = (st.index.get k).map (fun _ => content k) := by
  rw [abs_eq_mapK h, get_mapK, has, ← iget_eq]
  cases st.index.get k <;> simp

theorem has_abs {content : Bytes → Bytes} {st : Store} (h : Inv content st) (k : Bytes) :
    has (absOf st) k = (st.index.get k).isSome := by
  unfold has; rw [get_abs h]
  cases st.index.get k <;> simp

/-! ## append: the new row locates the appended body, earlier rows stay valid -/

theorem rowOK_of_grows {content : Bytes → Bytes} {packs packs' : List Bytes} {k : Bytes} {m : Meta}
    (hg : Grows packs packs') (h : RowOK content packs k m) : RowOK content packs' k m := by
  obtain ⟨h1, h2, h3, p, hp, hb, he, hh⟩ := h
  obtain ⟨x, hx⟩ := hg _ _ hp
  refine ⟨h1, h2, h3, p ++ x, hx, by simp only [List.length_append]; omega, ?_, ?_⟩
  · rw [extent_append_left _ _ _ _ hb]; exact he
  · rw [extent_append_left _ _ _ _ (by omega)]; exact hh

/-- `append` spelled out on a store whose last pack is `last`: header and body go to the end of
`last`, an empty pack is started iff the pack now exceeds `maxSize`, and the row points just after
the header -/
theorem append_shape (st : Store) (init : List Bytes) (last : Bytes) (hp : st.packs = init ++ [last])
    (k v : Bytes) :
    (st.append k v).packs = init ++ [last ++ encodeHeader k v.length ++ v] ++
        (if (last ++ encodeHeader k v.length ++ v).length > st.maxSize then [[]] else []) ∧
    (st.append k v).index =
      st.index.set k ⟨init.length, last.length + hdrLen k v.length, v.length⟩ := by
  unfold Store.append
  simp only [hp, getLast_concat, setLast_concat, hdrLen]
  constructor
  · split <;> simp
  · simp

theorem inv_append {content : Bytes → Bytes} {st : Store} (h : Inv content st) (k v : Bytes)
    (hv : v = content k) (hk : k ≠ []) : Inv content (st.append k v) := by
  obtain ⟨init, last, hp⟩ := exists_concat st.packs h.ne
  obtain ⟨e1, e2⟩ := append_shape st init last hp k v
  have hg : Grows st.packs (st.append k v).packs := by
    rw [hp, e1, List.append_assoc last]; exact grows_concat _ _ _ _
  have hnew : (st.append k v).packs[init.length]? = some (last ++ encodeHeader k v.length ++ v) := by
    rw [e1, List.append_assoc, List.getElem?_append_right (Nat.le_refl _)]; simp
  -- every old row of the last pack ends at or before the old end of that pack
  have hbelow : ∀ k2 m2, st.index.get k2 = some m2 → m2.file = init.length →
      m2.offset + m2.size ≤ last.length := by
    intro k2 m2 hg2 hf
    obtain ⟨_, _, _, p, hpp, hb, _, _⟩ := h.row k2 m2 hg2
    rw [hf, hp, List.getElem?_append_right (Nat.le_refl _)] at hpp
    simp at hpp; subst hpp; exact hb
  have hap : ∀ k2 m2, st.index.get k2 = some m2 →
      Apart k2 m2 k ⟨init.length, last.length + hdrLen k v.length, v.length⟩ := by
    intro k2 m2 hg2 hf
    have := hbelow k2 m2 hg2 hf
    simp only
    omega
  refine ⟨?_, ?_, ?_, ?_⟩
  · rw [e2, iset_eq]; exact kasc_ins _ _ h.asc
  · rw [e1]; simp
  · intro k2 m2 hg2
    rw [e2] at hg2
    by_cases hk2 : k2 = k
    · subst hk2
      rw [Index.get_set_same] at hg2
      injection hg2 with hg2; subst hg2
      refine ⟨hk, by simp [hv], Nat.le_add_left _ _, _, hnew, ?_, ?_, ?_⟩
      · simp only [List.length_append, hdrLen]; omega
      · have := extent_suffix (last ++ encodeHeader k2 v.length) v
        simp only [List.length_append] at this
        rw [← hv]; exact this
      · have := extent_exact last (encodeHeader k2 v.length) v
        simp only [Nat.add_sub_cancel]
        exact this
    · rw [Index.get_set_other _ _ _ _ hk2] at hg2
      exact rowOK_of_grows hg (h.row k2 m2 hg2)
  · intro k1 m1 k2 m2 h1 h2 hne
    rw [e2] at h1 h2
    by_cases hk1 : k1 = k
    · subst hk1
      rw [Index.get_set_same] at h1
      injection h1 with h1; subst h1
      rw [Index.get_set_other _ _ _ _ (fun e => hne e.symm)] at h2
      exact (hap k2 m2 h2).symm
    · rw [Index.get_set_other _ _ _ _ hk1] at h1
      by_cases hk2 : k2 = k
      · subst hk2
        rw [Index.get_set_same] at h2
        injection h2 with h2; subst h2
        exact hap k1 m1 h1
      · rw [Index.get_set_other _ _ _ _ hk2] at h2
        exact h.apart k1 m1 k2 m2 h1 h2 hne

/-! ## receive -/

/-- a ref already indexed is not written again (its extent lies within its pack) -/
theorem receive_dup {content : Bytes → Bytes} {st : Store} (h : Inv content st) {k : Bytes} {m : Meta}
    (hm : st.index.get k = some m) (v : Bytes) : st.receive k v = st := by
  obtain ⟨_, _, _, p, hp, hb, _, _⟩ := h.row k m hm
  unfold Store.receive
  simp only [hm, hp]
  rw [if_pos hb]

theorem receive_new {st : Store} {k : Bytes} (hm : st.index.get k = none) (v : Bytes) :
    st.receive k v = st.append k v := by
  unfold Store.receive
  simp only [hm]

/-! ## remove: the key becomes absent, every other row stays fetchable -/

theorem remove_one (st : Store) (k : Bytes) :
    st.remove [k] = ⟨st.deletePack k true true, st.index.del k, st.maxSize⟩ := rfl

theorem inv_remove {content : Bytes → Bytes} {st : Store} (h : Inv content st) (k : Bytes) :
    Inv content (st.remove [k]) := by
  rw [remove_one]
  have hsub : ∀ k2 m2, (st.index.del k).get k2 = some m2 → k2 ≠ k ∧ st.index.get k2 = some m2 := by
    intro k2 m2 hg
    by_cases hk : k2 = k
    · subst hk; rw [Index.get_del_same] at hg; cases hg
    · rw [Index.get_del_other _ _ _ hk] at hg; exact ⟨hk, hg⟩
  refine ⟨?_, ?_, ?_, ?_⟩
  · show KAsc (st.index.del k)
    unfold Index.del; exact kasc_filter _ h.asc
  · show st.deletePack k true true ≠ []
    cases hm : st.index.get k with
    | none => rw [deletePack_absent st k hm]; exact h.ne
    | some m0 =>
      cases hps : st.packs with
      | nil => exact absurd hps h.ne
      | cons p0 rest =>
        obtain ⟨q, hq, _⟩ := deletePack_frame st k m0 hm 0 p0 (by rw [hps]; rfl)
        intro e; rw [e] at hq; simp at hq
  · intro k2 m2 hg2
    obtain ⟨hne, hg⟩ := hsub k2 m2 hg2
    show RowOK content (st.deletePack k true true) k2 m2
    cases hm : st.index.get k with
    | none => rw [deletePack_absent st k hm]; exact h.row k2 m2 hg
    | some m0 =>
      obtain ⟨h1, h2, h3, p, hp, hb, he, hh⟩ := h.row k2 m2 hg
      obtain ⟨q, hq, hlen, hfr⟩ := deletePack_frame st k m0 hm m2.file p hp
      have hap := h.apart k2 m2 k m0 hg hm hne
      refine ⟨h1, h2, h3, q, hq, by omega, ?_, ?_⟩
      · rw [hfr _ _ (fun e => by have := hap e; omega)]; exact he
      · rw [hfr _ _ (fun e => by have := hap e; omega)]; exact hh
  · intro k1 m1 k2 m2 h1 h2 hne
    exact h.apart k1 m1 k2 m2 (hsub k1 m1 h1).2 (hsub k2 m2 h2).2 hne

/-! ## enumerate -/

theorem enumLoop_eq (after : Bytes) (rows : Index) (n : Nat) :
    enumLoop after n rows =
      ((rows.filter (fun p => ltB after p.1)).map (fun p => (p.1, p.2.size))).take n := by
  induction rows generalizing n with
  | nil => cases n <;> simp [enumLoop]
  | cons r rest ih =>
    obtain ⟨k, m⟩ := r
    cases n with
    | zero => simp [enumLoop]
    | succ n =>
      simp only [enumLoop, leB, List.filter_cons]
      by_cases hlt : ltB after k = true
      · simp [hlt, ih]
      · simp [hlt, ih]

/-- `Find(after, "")` followed by the skip of keys ≤ after: the rows strictly after the cursor -/
theorem find_skip (idx : Index) (after : Bytes) :
    (find idx after).filter (fun p => ltB after p.1) = idx.filter (fun p => ltB after p.1) := by
  unfold find
  rw [List.filter_filter]
  apply List.filter_congr
  intro p _
  by_cases hlt : ltB after p.1 = true
  · simp [hlt, ltB_asymm _ _ hlt]
  · simp [hlt]

theorem sizes_mapK_rows (content : Bytes → Bytes) (l : Index)
    (h : ∀ p ∈ l, p.2.size = (content p.1).length) :
    sizes (mapK content l) = l.map (fun p => (p.1, p.2.size)) := by
  unfold sizes mapK
  rw [List.map_map]
  apply List.map_congr_left
  intro p hp
  simp [h p hp]

theorem enumerate_eq {content : Bytes → Bytes} {st : Store} (h : Inv content st) (after : Bytes)
    (limit : Nat) : enumerate st after limit = enumOf (absOf st) after limit := by
  unfold enumerate enumOf
  rw [enumLoop_eq, find_skip, abs_eq_mapK h, mapK_filter content (fun k => ltB after k),
    sizes_mapK_rows]
  intro p hp
  obtain ⟨k, m⟩ := p
  have hp' := (List.mem_filter.mp hp).1
  have hg : st.index.get k = some m := by rw [iget_eq]; exact mem_get h.asc hp'
  exact (h.row k m hg).2.1

/-! ## roll-over, also with a tiny `maxFileSize` -/

theorem hdrLen_ge (k : Bytes) (size : Nat) : 4 ≤ hdrLen k size := by
  have : 0 < (decEnc size).length := List.length_pos_iff.mpr (decEnc_ne_nil size)
  simp only [hdrLen, encodeHeader, List.length_cons, List.length_append, List.length_nil]
  omega

/-- a pack that exceeds `maxSize` after the append is closed and an empty pack is started -/
theorem append_rollover (st : Store) (init : List Bytes) (last : Bytes) (hp : st.packs = init ++ [last])
    (k v : Bytes) (hbig : st.maxSize < (last ++ encodeHeader k v.length ++ v).length) :
    (st.append k v).packs = init ++ [last ++ encodeHeader k v.length ++ v] ++ [[]] := by
  rw [(append_shape st init last hp k v).1, if_pos hbig]

/-- with `maxFileSize` below the shortest header every append rolls over (one record per pack) -/
theorem append_tiny_max (st : Store) (hne : st.packs ≠ []) (hmax : st.maxSize < 4) (k v : Bytes) :
    ∃ l, (st.append k v).packs = l ++ [[]] := by
  obtain ⟨init, last, hp⟩ := exists_concat st.packs hne
  refine ⟨_, append_rollover st init last hp k v ?_⟩
  have := hdrLen_ge k v.length
  simp only [hdrLen] at this
  simp only [List.length_append]
  omega

/-- after a roll-over the next record starts at offset 0 of the new pack: its body is at `hdrLen` -/
theorem append_after_rollover (st : Store) (init : List Bytes) (hp : st.packs = init ++ [[]]) (k v : Bytes) :
    (st.append k v).index.get k = some ⟨init.length, hdrLen k v.length, v.length⟩ := by
  rw [(append_shape st init [] hp k v).2, Index.get_set_same]
  simp

/-! ## remove really scrubs: header rewritten to the deleted form, body zeroed

This needs the shape of the key text that `delete` relies on (dele.go:60-67): `name-digest` with no
`-` in the name and no space in the digest, as every `blob.Ref.String()` is. -/

/-- the ref-text shape `delete` needs -/
def KeyForm (k : Bytes) : Prop := ∃ name dg, k = name ++ 45 :: dg ∧ 45 ∉ name ∧ 32 ∉ dg

theorem split_row (p H B : Bytes) (off hl size : Nat) (h1 : hl ≤ off)
    (hH : extent p (off - hl) hl = H) (hB : extent p off size = B) :
    p = p.take (off - hl) ++ H ++ (B ++ p.drop (off + size)) := by
  unfold extent at hH hB
  subst hH; subst hB
  have e1 : p.drop off = (p.drop (off - hl)).drop hl := by
    rw [List.drop_drop]; congr 1; omega
  have e2 : p.drop (off + size) = (p.drop off).drop size := by
    rw [List.drop_drop]
  rw [e2, List.take_append_drop, e1, List.append_assoc, List.take_append_drop, List.take_append_drop]

theorem encodeHeader_delRef_length (name dg : Bytes) (n : Nat) :
    (encodeHeader (delRef name dg) n).length = (encodeHeader (name ++ 45 :: dg) n).length := by
  simp [encodeHeader, delRef]

/-- on a right row whose key has the form `name-digest`, the header rewrite of `delete` succeeds and
yields the deleted header in place -/
theorem deleteHeaderAt_row {content : Bytes → Bytes} {st : Store} (h : Inv content st) {name dg : Bytes}
    {f off sz : Nat} (h1 : 45 ∉ name) (h2 : 32 ∉ dg)
    (hm : st.index.get (name ++ 45 :: dg) = some ⟨f, off, sz⟩) :
    ∃ p pre post, st.packs[f]? = some p ∧ sz = (content (name ++ 45 :: dg)).length ∧
      hdrLen (name ++ 45 :: dg) sz ≤ off ∧ pre.length = off - hdrLen (name ++ 45 :: dg) sz ∧
      deleteHeaderAt p (name ++ 45 :: dg) ⟨f, off, sz⟩ =
        some (pre ++ encodeHeader (delRef name dg) sz ++ (content (name ++ 45 :: dg) ++ post)) := by
  obtain ⟨_, hs, hle, p, hp, hb, he, hh⟩ := h.row _ _ hm
  simp only at hs hle hp hb he hh
  subst hs
  generalize hk : name ++ 45 :: dg = k at *
  have hsplit := split_row p _ _ off (hdrLen k (content k).length) _ hle hh he
  generalize hpre : p.take (off - hdrLen k (content k).length) = pre at hsplit
  generalize hpost : p.drop (off + (content k).length) = post at hsplit
  have hprelen : pre.length = off - hdrLen k (content k).length := by
    rw [← hpre, List.length_take]; omega
  have hoff : off = pre.length + (encodeHeader k (content k).length).length := by
    simp only [hdrLen] at hprelen hle; omega
  refine ⟨p, pre, post, hp, rfl, hle, hprelen, ?_⟩
  rw [hsplit, hoff, ← hk]
  exact deleteHeaderAt_record pre post name dg (content (name ++ 45 :: dg)) f h1 h2

/-- `RemoveBlobs [k]` on an indexed key of the usual form: in the pack the row named, the header now
reads `[xxx-000 size]` and the body is zeros; (that nothing else changed is `deletePack_frame`) -/
theorem remove_scrubs {content : Bytes → Bytes} {st : Store} (h : Inv content st) {name dg : Bytes}
    {m : Meta} (h1 : 45 ∉ name) (h2 : 32 ∉ dg) (hm : st.index.get (name ++ 45 :: dg) = some m) :
    ∃ q, (st.remove [name ++ 45 :: dg]).packs[m.file]? = some q ∧
      extent q (m.offset - hdrLen (name ++ 45 :: dg) m.size) (hdrLen (name ++ 45 :: dg) m.size) =
        encodeHeader (delRef name dg) m.size ∧
      extent q m.offset m.size = List.replicate m.size 0 := by
  obtain ⟨f, off, sz⟩ := m
  obtain ⟨p, pre, post, hp, hs, hle, hprelen, hdel⟩ := deleteHeaderAt_row h h1 h2 hm
  have hlen' : (encodeHeader (delRef name dg) sz).length = hdrLen (name ++ 45 :: dg) sz := by
    rw [encodeHeader_delRef_length, hdrLen]
  generalize hk : name ++ 45 :: dg = k at *
  have hbl : (content k).length = sz := hs.symm
  have hz : zeroExtent (pre ++ encodeHeader (delRef name dg) sz ++ (content k ++ post)) off sz =
      pre ++ encodeHeader (delRef name dg) sz ++ (List.replicate sz 0 ++ post) := by
    have := zeroExtent_record (pre ++ encodeHeader (delRef name dg) sz) (content k) post
    rw [List.length_append, hlen', hprelen, Nat.sub_add_cancel hle, hbl] at this
    exact this
  rw [remove_one]
  show ∃ q, (st.deletePack k true true)[f]? = some q ∧ _
  unfold Store.deletePack
  simp only [hm, hp, hdel, if_true, getElem?_modifyNth, Option.map_some, hz]
  refine ⟨_, rfl, ?_, ?_⟩
  · have := extent_exact pre (encodeHeader (delRef name dg) sz) (List.replicate sz 0 ++ post)
    rw [hlen', hprelen] at this
    exact this
  · have := extent_exact (pre ++ encodeHeader (delRef name dg) sz) (List.replicate sz 0) post
    rw [List.length_append, hlen', hprelen, Nat.sub_add_cancel hle, List.length_replicate,
      List.append_assoc] at this
    exact this

/-! ## the key condition: received refs have the text form `delete` can rewrite -/

theorem indexOf_split (d : Nat) (a : Bytes) (i : Nat) (h : indexOf d a = some i) :
    a = a.take i ++ d :: a.drop (i + 1) ∧ d ∉ a.take i := by
  induction a generalizing i with
  | nil => simp [indexOf] at h
  | cons x xs ih =>
    simp only [indexOf] at h
    split at h
    · rename_i hx
      injection h with h
      subst h; subst hx; simp
    · rename_i hx
      cases hj : indexOf d xs with
      | none => simp [hj] at h
      | some j =>
        simp only [hj, Option.map_some, Option.some.injEq] at h
        subst h
        obtain ⟨e1, e2⟩ := ih j hj
        refine ⟨?_, ?_⟩
        · simp only [List.take_succ_cons, List.drop_succ_cons, List.cons_append]
          rw [← e1]
        · simp only [List.take_succ_cons, List.mem_cons, not_or]
          exact ⟨fun e => hx e.symm, e2⟩

theorem keyForm_spec {k : Bytes} (h : keyForm k = true) : KeyForm k := by
  unfold keyForm at h
  cases hi : indexOf 45 k with
  | none => simp [hi] at h
  | some i =>
    simp only [hi] at h
    obtain ⟨e1, e2⟩ := indexOf_split 45 k i hi
    exact ⟨k.take i, k.drop (i + 1), e1, e2, by simpa using h⟩

/-- which histories diskpacked is specified on: received refs are of the form `name-digest` -/
def KeyOK : Op → Prop
  | .recv k _ => keyForm k = true
  | _ => True

instance (op : Op) : Decidable (KeyOK op) := by
  unfold KeyOK
  split <;> infer_instance

/-- every indexed key has the form `delete` can rewrite -/
def Formed (st : Store) : Prop := ∀ k m, st.index.get k = some m → keyForm k = true

theorem formed_init (max : Nat) : Formed (Store.init max) := by
  intro k m h; simp [Store.init, Index.get] at h

theorem formed_append {st : Store} (hf : Formed st) (hne : st.packs ≠ []) (k v : Bytes)
    (hk : keyForm k = true) : Formed (st.append k v) := by
  obtain ⟨init, last, hp⟩ := exists_concat st.packs hne
  intro k2 m2 hg
  rw [(append_shape st init last hp k v).2] at hg
  by_cases hk2 : k2 = k
  · subst hk2; exact hk
  · rw [Index.get_set_other _ _ _ _ hk2] at hg; exact hf k2 m2 hg

theorem formed_remove {st : Store} (hf : Formed st) (k : Bytes) : Formed (st.remove [k]) := by
  intro k2 m2 hg
  rw [remove_one] at hg
  by_cases hk : k2 = k
  · subst hk
    have : (st.index.del k2).get k2 = some m2 := hg
    rw [Index.get_del_same] at this; cases this
  · have : (st.index.del k).get k2 = some m2 := hg
    rw [Index.get_del_other _ _ _ hk] at this; exact hf k2 m2 this

/-- `RemoveBlobs [k]` does not fail: the header of an indexed blob is where `delete` looks for it -/
theorem rmOut_ok {content : Bytes → Bytes} {st : Store} (h : Inv content st) (hf : Formed st) (k : Bytes) :
    rmOut st k = .ok := by
  unfold rmOut
  cases hm : st.index.get k with
  | none => rfl
  | some m =>
    obtain ⟨name, dg, rfl, h1, h2⟩ := keyForm_spec (hf k m hm)
    obtain ⟨f, off, sz⟩ := m
    obtain ⟨p, pre, post, hp, _, _, _, hdel⟩ := deleteHeaderAt_row h h1 h2 hm
    simp only [hp, hdel, Option.isSome_some, if_true]

/-! ## the refinement -/

theorem good_abs {content : Bytes → Bytes} {st : Store} (h : Inv content st) :
    Good content (absOf st) := by
  refine ⟨by rw [abs_eq_mapK h]; exact kasc_mapK _ h.asc, ?_⟩
  intro k v hg
  rw [get_abs h] at hg
  cases hm : st.index.get k with
  | none => simp [hm] at hg
  | some m =>
    simp only [hm, Option.map_some] at hg
    injection hg with hg
    exact ⟨hg.symm, (h.row k m hm).1⟩

/-- for arbitrary non-empty key texts (no `KeyOK`): the abstraction commutes with every step, the
invariant is kept, and every answer other than remove's is the reference map's -/
theorem diskpacked_step_anykey (content : Bytes → Bytes) (st : Store) (h : Inv content st)
    (op : Op) (hop : op.WK content) :
    absOf (step st op).1 = next (absOf st) op ∧ Inv content (step st op).1 ∧
    ((∀ k, op ≠ .rm k) → (step st op).2 = out (absOf st) op) := by
  cases op with
  | recv k v =>
    obtain ⟨hv, hk⟩ := hop
    simp only [step, out, next, has_abs h]
    cases hm : st.index.get k with
    | some m =>
      rw [receive_dup h hm]
      exact ⟨by simp, h, fun _ => trivial⟩
    | none =>
      rw [receive_new hm]
      have hi := inv_append h k v hv hk
      refine ⟨?_, hi, fun _ => trivial⟩
      obtain ⟨init, last, hp⟩ := exists_concat st.packs h.ne
      simp only [Option.isSome_none, Bool.false_eq_true, if_false]
      rw [abs_eq_mapK hi, (append_shape st init last hp k v).2, iset_eq, mapK_ins, abs_eq_mapK h, hv]
  | fetch k =>
    simp only [step, out, next, get_abs h]
    refine ⟨trivial, h, fun _ => ?_⟩
    unfold fetchOut Store.fetch
    cases hm : st.index.get k with
    | none => rfl
    | some m =>
      obtain ⟨_, h2, _, p, hp, _, he, _⟩ := h.row k m hm
      simp only [hp, he, Option.map_some]
      rw [if_pos h2.symm]
  | stat k =>
    simp only [step, out, next, get_abs h]
    refine ⟨trivial, h, fun _ => ?_⟩
    unfold statOut Store.stat
    cases hm : st.index.get k with
    | none => rfl
    | some m => simp only [Option.map_some, (h.row k m hm).2.1]
  | rm k =>
    simp only [step, next]
    have hi := inv_remove h k
    refine ⟨?_, hi, fun hne => absurd rfl (hne k)⟩
    rw [abs_eq_mapK hi, abs_eq_mapK h, remove_one, idel_eq h.asc, mapK_del]
  | enum after limit =>
    simp only [step, out, next, enumerate_eq h]
    exact ⟨trivial, h, fun _ => trivial⟩

theorem formed_step {st : Store} (hf : Formed st) (hne : st.packs ≠ []) (op : Op) (hk : KeyOK op) :
    Formed (step st op).1 := by
  cases op with
  | recv k v =>
    have ha := formed_append hf hne k v hk
    simp only [step, Store.receive]
    split
    · split
      · split
        · exact hf
        · exact ha
      · exact ha
    · exact ha
  | rm k => exact formed_remove hf k
  | fetch k => exact hf
  | stat k => exact hf
  | enum a l => exact hf

/-- **diskpacked refines the reference map**, for every `maxFileSize`, on well-keyed histories whose
received refs have the form `name-digest` (fetch/stat/remove/enumerate arguments are arbitrary) -/
def diskpackedRefines (max : Nat) (content : Bytes → Bytes) :
    RefinesOn content (diskpackedImpl max) KeyOK where
  abs := absOf
  Inv := fun st => Inv content st ∧ Formed st
  init_inv := ⟨inv_init content max, formed_init max⟩
  init_abs := rfl
  good := fun _ h => good_abs h.1
  step_ok := by
    intro (st : Store) op ⟨(h : Inv content st), (hf : Formed st)⟩ hop hkey
    obtain ⟨ha, hi, ho⟩ := diskpacked_step_anykey content st h op hop
    refine ⟨?_, ha, hi, formed_step hf h.ne op hkey⟩
    cases op with
    | rm k => exact rmOut_ok h hf k
    | recv k v => exact ho (fun _ e => by cases e)
    | fetch k => exact ho (fun _ e => by cases e)
    | stat k => exact ho (fun _ e => by cases e)
    | enum a l => exact ho (fun _ e => by cases e)

/-- for every `maxFileSize` (also one smaller than any header: then every append rolls over), on
every well-keyed history with refs of the form `name-digest`, diskpacked answers exactly as the
reference map -/
theorem diskpacked_run_eq (max : Nat) (content : Bytes → Bytes) (ops : List Op)
    (hwk : ∀ op ∈ ops, op.WK content) (hk : ∀ op ∈ ops, KeyOK op) :
    (diskpackedImpl max).run (diskpackedImpl max).init ops = RefMap.run [] ops :=
  (diskpackedRefines max content).run_init ops hwk hk

/-! ## the same refinement, carrying any key predicate `K` that implies `keyForm` -/

/-- every indexed key satisfies `K` -/
def Keyed (K : Bytes → Prop) (st : Store) : Prop := ∀ k m, st.index.get k = some m → K k

theorem keyed_init (K : Bytes → Prop) (max : Nat) : Keyed K (Store.init max) := by
  intro k m h; simp [Store.init, Index.get] at h

theorem keyed_append {K : Bytes → Prop} {st : Store} (hf : Keyed K st) (hne : st.packs ≠ []) (k v : Bytes)
    (hk : K k) : Keyed K (st.append k v) := by
  obtain ⟨init, last, hp⟩ := exists_concat st.packs hne
  intro k2 m2 hg
  rw [(append_shape st init last hp k v).2] at hg
  by_cases hk2 : k2 = k
  · subst hk2; exact hk
  · rw [Index.get_set_other _ _ _ _ hk2] at hg; exact hf k2 m2 hg

theorem keyed_remove {K : Bytes → Prop} {st : Store} (hf : Keyed K st) (k : Bytes) :
    Keyed K (st.remove [k]) := by
  intro k2 m2 hg
  rw [remove_one] at hg
  by_cases hk : k2 = k
  · subst hk
    have : (st.index.del k2).get k2 = some m2 := hg
    rw [Index.get_del_same] at this; cases this
  · have : (st.index.del k).get k2 = some m2 := hg
    rw [Index.get_del_other _ _ _ hk] at this; exact hf k2 m2 this

theorem keyed_step {K : Bytes → Prop} {st : Store} (hf : Keyed K st) (hne : st.packs ≠ []) (op : Op)
    (hk : op.KOK K) : Keyed K (step st op).1 := by
  cases op with
  | recv k v =>
    have ha := keyed_append hf hne k v hk
    simp only [step, Store.receive]
    split
    · split
      · split
        · exact hf
        · exact ha
      · exact ha
    · exact ha
  | rm k => exact keyed_remove hf k
  | fetch k => exact hf
  | stat k => exact hf
  | enum a l => exact hf

/-- **diskpacked refines the reference map under any key predicate `K` that implies `keyForm`**: same
abstraction as `diskpackedRefines`; the invariant is `Inv` plus "every indexed key satisfies `K`" -/
def diskpackedRefinesK (max : Nat) (content : Bytes → Bytes) (K : Bytes → Prop)
    (hK : ∀ k, K k → keyForm k = true) : RefinesK content K (diskpackedImpl max) where
  abs := absOf
  Inv := fun st => Inv content st ∧ Keyed K st
  init_inv := ⟨inv_init content max, keyed_init K max⟩
  init_abs := rfl
  good := fun _ h => good_abs h.1
  keys := by
    intro (st : Store) ⟨(h : Inv content st), (hf : Keyed K st)⟩ k v hg
    rw [get_abs h] at hg
    cases hm : st.index.get k with
    | none => simp [hm] at hg
    | some m => exact hf k m hm
  step_ok := by
    intro (st : Store) op ⟨(h : Inv content st), (hf : Keyed K st)⟩ hop hkey
    have hform : Formed st := fun k m hm => hK k (hf k m hm)
    obtain ⟨ha, hi, ho⟩ := diskpacked_step_anykey content st h op hop
    refine ⟨?_, ha, hi, keyed_step hf h.ne op hkey⟩
    cases op with
    | rm k => exact rmOut_ok h hform k
    | recv k v => exact ho (fun _ e => by cases e)
    | fetch k => exact ho (fun _ e => by cases e)
    | stat k => exact ho (fun _ e => by cases e)
    | enum a l => exact ho (fun _ e => by cases e)

/-- outside `KeyOK`: a key text without `-` (no `blob.Ref` prints like that).  The blob is stored and
served, but `delete` cannot rewrite its header ("cannot find dash in ref") and `RemoveBlobs` answers
with that error – after having removed the row all the same. -/
theorem diskpacked_nodash_counterexample :
    (diskpackedImpl 0).run (diskpackedImpl 0).init [.recv [97, 98] [1], .rm [97, 98], .fetch [97, 98]] =
      [.sized 1, .err, .notExist] ∧
    RefMap.run [] [.recv [97, 98] [1], .rm [97, 98], .fetch [97, 98]] = [.sized 1, .ok, .notExist] ∧
    ¬ KeyOK (.recv [97, 98] [1]) := by
  decide

end Pk.DiskPacked
