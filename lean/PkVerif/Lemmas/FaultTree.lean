import PkVerif.Lemmas.FaultMerge
import PkVerif.Lemmas.FaultProxy
import PkVerif.Lemmas.FaultOverlay
/-!
# C13: configuration trees whose every leaf sits behind a schedule of transient failures

`FCfg` is the set of trees for which the fault contract (`FRefines`) is proved by recursion over the
tree: leaves are memory stores behind ANY failure schedule, the cache of a proxycache is an evicting
memory cache or a memory store behind ANY failure schedule, inner nodes are namespace, proxycache,
overlay, shard (two-way, with the tree's routing function or with the node's own routing predicate –
the levels of an n-way shard), and the STRICT variants of replica and cond (`replica2StrictImpl`, `cond2StrictImpl`:
remove answers `.ok` only if every replica did; the real "best effort" remove is finding F-C13-3).
`FCfg.toCfg` maps a tree to the `Cfg` the driver runs; for trees without replica/cond the two
denotations are the same model (`interp_toCfg`).
-/
namespace Pk.Stores
open Pk Pk.SMap Pk.RefMap

/-- the cache of a proxycache, behind a failure schedule -/
inductive FCache where
  | memCache (sched : List Fault) (max : Nat)
  | mem (sched : List Fault)
deriving Repr, DecidableEq

inductive FCfg where
  | leaf (sched : List Fault)
  | ns (master : FCfg)
  | proxy (origin : FCfg) (cache : FCache) (max : Nat)
  | overlay (lower upper : FCfg)
  | shard2 (a b : FCfg)
  | shardBy (r : Bytes → Bool) (a b : FCfg)  -- two-way shard with its own routing predicate (levels of an n-way shard)
  | replicaStrict (a b : FCfg)
  | condStrict (t e : FCfg)

def FCache.interp : FCache → Impl
  | .memCache sched max => faultLeaf (memCacheImpl max) sched
  | .mem sched => faultLeaf memImpl sched

def FCfg.interp (route isSchema : Bytes → Bool) : FCfg → Impl
  | .leaf sched => faultLeaf memImpl sched
  | .ns m => nsImpl (m.interp route isSchema)
  | .proxy o c max => proxyImpl (o.interp route isSchema) c.interp max
  | .overlay l u => overlayImpl (l.interp route isSchema) (u.interp route isSchema)
  | .shard2 a b => shard2Impl route (a.interp route isSchema) (b.interp route isSchema)
  | .shardBy r a b => shard2Impl r (a.interp route isSchema) (b.interp route isSchema)
  | .replicaStrict a b => replica2StrictImpl (a.interp route isSchema) (b.interp route isSchema)
  | .condStrict t e => cond2StrictImpl isSchema (t.interp route isSchema) (e.interp route isSchema)

def FCache.toCfg : FCache → Cfg
  | .memCache sched max => .faulty sched (.memCache max)
  | .mem sched => .faulty sched .mem

/-- the tree as the driver (and the harness) runs it: replica and cond are the REAL ones there -/
def FCfg.toCfg : FCfg → Cfg
  | .leaf sched => .faulty sched .mem
  | .ns m => .ns m.toCfg
  | .proxy o c max => .proxy o.toCfg c.toCfg max
  | .overlay l u => .overlay l.toCfg u.toCfg
  | .shard2 a b => .shard2 a.toCfg b.toCfg
  | .shardBy r a b => .shardBy r a.toCfg b.toCfg
  | .replicaStrict a b => .replica2 a.toCfg b.toCfg
  | .condStrict t e => .cond2 t.toCfg e.toCfg

/-- no replica, no cond -/
def FCfg.strictFree : FCfg → Bool
  | .leaf _ => true
  | .ns m => m.strictFree
  | .proxy o _ _ => o.strictFree
  | .overlay l u => l.strictFree && u.strictFree
  | .shard2 a b => a.strictFree && b.strictFree
  | .shardBy _ a b => a.strictFree && b.strictFree
  | .replicaStrict _ _ => false
  | .condStrict _ _ => false

theorem FCache.interp_toCfg (route isSchema : Bytes → Bool) (c : FCache) :
    Stores.interp route isSchema c.toCfg = c.interp := by
  cases c <;> rfl

/-- for trees without replica/cond the proved model IS the model the driver runs -/
theorem FCfg.interp_toCfg (route isSchema : Bytes → Bool) :
    ∀ c : FCfg, c.strictFree = true → Stores.interp route isSchema c.toCfg = c.interp route isSchema
  | .leaf _, _ => rfl
  | .ns m, h => by
    simp only [FCfg.toCfg, Stores.interp, FCfg.interp]
    rw [FCfg.interp_toCfg route isSchema m (by simpa [FCfg.strictFree] using h)]
  | .proxy o c max, h => by
    simp only [FCfg.toCfg, Stores.interp, FCfg.interp]
    rw [FCfg.interp_toCfg route isSchema o (by simpa [FCfg.strictFree] using h), FCache.interp_toCfg]
  | .overlay l u, h => by
    simp only [FCfg.strictFree, Bool.and_eq_true] at h
    simp only [FCfg.toCfg, Stores.interp, FCfg.interp]
    rw [FCfg.interp_toCfg route isSchema l h.1, FCfg.interp_toCfg route isSchema u h.2]
  | .shard2 a b, h => by
    simp only [FCfg.strictFree, Bool.and_eq_true] at h
    simp only [FCfg.toCfg, Stores.interp, FCfg.interp]
    rw [FCfg.interp_toCfg route isSchema a h.1, FCfg.interp_toCfg route isSchema b h.2]
  | .shardBy r a b, h => by
    simp only [FCfg.strictFree, Bool.and_eq_true] at h
    simp only [FCfg.toCfg, Stores.interp, FCfg.interp]
    rw [FCfg.interp_toCfg route isSchema a h.1, FCfg.interp_toCfg route isSchema b h.2]
  | .replicaStrict _ _, h => by simp [FCfg.strictFree] at h
  | .condStrict _ _, h => by simp [FCfg.strictFree] at h

theorem sub_next_grow {content : Bytes → Bytes} {m : SMap Bytes} (hm : Good content m) (op : Op)
    (hop : op.WK content) : Sub (next m op) (grow m op) := by
  cases op with
  | recv k v =>
    simp only [next, grow]
    split
    · exact sub_ins_self hm k v hop
    · exact Sub.refl _
  | rm k =>
    intro x w hx
    simp only [next] at hx
    rw [get_del k hm.1] at hx
    by_cases e : x = k
    · simp [e] at hx
    · simp only [e, if_false] at hx; exact hx
  | fetch _ => exact Sub.refl _
  | stat _ => exact Sub.refl _
  | enum _ _ => exact Sub.refl _

/-- a faithful or fault-tolerant store used as a cache: `FRefines` gives `FCaches` -/
def _root_.Pk.RefMap.FRefines.toFCaches {content : Bytes → Bytes} {I : Impl} (F : FRefines content I) :
    FCaches content I where
  abs := F.abs
  Inv := F.Inv
  Quiet := F.Quiet
  init_inv := F.init_inv
  init_abs := F.init_abs
  good := F.good
  step_inv := fun s op h hop => (F.step_ok s op h hop).1
  step_sub := by
    intro s op h hop
    have hg := F.good s h
    rcases (F.step_ok s op h hop).2 with ⟨_, ha⟩ | ⟨_, ha | ha⟩
    · rw [ha]; exact sub_next_grow hg op hop
    · rw [ha]; exact sub_grow hg op hop
    · rw [ha]; exact sub_next_grow hg op hop
  fetch_ok := by
    intro s k v h ho
    rcases (F.step_ok s (.fetch k) h trivial).2 with ⟨he, _⟩ | ⟨he, _⟩
    · rw [he] at ho; exact out_fetch_bytes ho
    · rw [he] at ho; cases ho
  stat_ok := by
    intro s k n h ho
    rcases (F.step_ok s (.stat k) h trivial).2 with ⟨he, _⟩ | ⟨he, _⟩
    · rw [he] at ho; exact out_stat_sized ho
    · rw [he] at ho; cases ho
  rm_ok := by
    intro s k h ho
    rcases (F.step_ok s (.rm k) h trivial).2 with ⟨_, ha⟩ | ⟨he, _⟩
    · rw [ha]; exact Sub.refl _
    · rw [he] at ho; cases ho
  quiet_step := fun s op h hq hop =>
    let ⟨ho, _, hq'⟩ := F.quiet_step s op h hq hop
    ⟨ho, hq'⟩

end Pk.Stores
