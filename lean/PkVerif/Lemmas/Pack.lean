import PkVerif.Model.Pack
/-! Helper lemmas for the diskpacked pack model (C03). -/
namespace Pk.Pack

/-! ## decimal -/

theorem parseDigits_append (a : Nat) (xs ys : Bytes) :
    parseDigits a (xs ++ ys) = (parseDigits a xs).bind (fun v => parseDigits v ys) := by
  induction xs generalizing a with
  | nil => simp [parseDigits]
  | cons x xs ih =>
    simp only [List.cons_append, parseDigits]
    split
    · exact ih _
    · simp

theorem decEncAux_spec (fuel n : Nat) (h : n < fuel) (acc : Bytes) :
    ∃ ds, decEncAux fuel n acc = ds ++ acc ∧ ds ≠ [] ∧ (∀ d ∈ ds, isDigit d = true) ∧
      ∀ a, parseDigits a ds = some (a * 10 ^ ds.length + n) := by
  induction fuel generalizing n acc with
  | zero => omega
  | succ f ih =>
    unfold decEncAux
    by_cases hn : n < 10
    · refine ⟨[48 + n], by simp [hn], by simp, ?_, ?_⟩
      · intro d hd
        simp at hd; subst hd
        simp [isDigit]; omega
      · intro a
        have : isDigit (48 + n) = true := by simp [isDigit]; omega
        simp [parseDigits, this]
    · obtain ⟨ds', h1, _, h3, h4⟩ := ih (n / 10) (by omega) ((48 + n % 10) :: acc)
      refine ⟨ds' ++ [48 + n % 10], by simp [hn, h1], by simp, ?_, ?_⟩
      · intro d hd
        rcases List.mem_append.mp hd with hd | hd
        · exact h3 d hd
        · simp at hd; subst hd
          simp [isDigit]; omega
      · intro a
        have hd : isDigit (48 + n % 10) = true := by simp [isDigit]; omega
        rw [parseDigits_append, h4 a]
        simp only [Option.bind_some, parseDigits, hd, if_true, List.length_append, List.length_cons,
          List.length_nil, Nat.pow_succ]
        congr 1
        have e : a * (10 ^ ds'.length * 10) = (a * 10 ^ ds'.length) * 10 := by
          rw [Nat.mul_assoc]
        rw [e]
        generalize a * 10 ^ ds'.length = X
        omega

theorem decEnc_digits (n : Nat) : ∀ d ∈ decEnc n, isDigit d = true := by
  obtain ⟨ds, h1, _, h3, _⟩ := decEncAux_spec (n + 1) n (by omega) []
  unfold decEnc; rw [h1]; simpa using h3

theorem decEnc_ne_nil (n : Nat) : decEnc n ≠ [] := by
  obtain ⟨ds, h1, h2, _, _⟩ := decEncAux_spec (n + 1) n (by omega) []
  unfold decEnc; rw [h1]; simpa using h2

theorem parseDigits_decEnc (n : Nat) : parseDigits 0 (decEnc n) = some n := by
  obtain ⟨ds, h1, _, _, h4⟩ := decEncAux_spec (n + 1) n (by omega) []
  unfold decEnc; rw [h1]; simpa using h4 0

theorem parseUint32_decEnc (n : Nat) (h : n < 4294967296) : parseUint32 (decEnc n) = some n := by
  unfold parseUint32
  have := decEnc_ne_nil n
  cases hd : decEnc n with
  | nil => exact absurd hd this
  | cons x xs => rw [← hd, parseDigits_decEnc]; simp [h, this]

/-- a decimal numeral has at most 10 digits when the number fits 32 bits -/
theorem decEncAux_length (fuel n : Nat) (acc : Bytes) (k : Nat) (h : n < 10 ^ k) (hk : 0 < k) (hf : n < fuel) :
    (decEncAux fuel n acc).length ≤ k + acc.length := by
  induction fuel generalizing n acc k with
  | zero => omega
  | succ f ih =>
    unfold decEncAux
    by_cases hn : n < 10
    · simp [hn]; omega
    · simp only [hn, if_false]
      cases k with
      | zero => omega
      | succ k =>
        cases k with
        | zero => simp at h; omega
        | succ k =>
          have h' : n / 10 < 10 ^ (k + 1) := by
            rw [Nat.pow_succ] at h
            exact Nat.div_lt_of_lt_mul (by rw [Nat.mul_comm]; exact h)
          have := ih (n / 10) ((48 + n % 10) :: acc) (k + 1) h' (by omega) (by omega)
          simp at this; omega

theorem decEnc_length_le (n : Nat) (h : n < 4294967296) : (decEnc n).length ≤ 10 := by
  have := decEncAux_length (n + 1) n [] 10 (by omega) (by omega) (by omega)
  simpa [decEnc] using this

theorem isDigit_ne {d c : Nat} (h : isDigit d = true) (hc : c < 48 ∨ 57 < c) : d ≠ c := by
  simp [isDigit] at h; omega

/-! ## indexOf -/

theorem indexOf_append_hit (d : Nat) (a b : Bytes) (h : d ∉ a) : indexOf d (a ++ d :: b) = some a.length := by
  induction a with
  | nil => simp [indexOf]
  | cons x xs ih =>
    have hx : x ≠ d := fun e => h (by simp [e])
    have := ih (fun hm => h (by simp [hm]))
    simp [indexOf, hx, this]

theorem indexOf_none (d : Nat) (a : Bytes) (h : d ∉ a) : indexOf d a = none := by
  induction a with
  | nil => rfl
  | cons x xs ih =>
    have hx : x ≠ d := fun e => h (by simp [e])
    simp [indexOf, hx, ih (fun hm => h (by simp [hm]))]

theorem indexOf_some_lt (d : Nat) (a : Bytes) (i : Nat) (h : indexOf d a = some i) : i < a.length := by
  induction a generalizing i with
  | nil => simp [indexOf] at h
  | cons x xs ih =>
    simp only [indexOf] at h
    split at h
    · injection h with h; subst h; simp
    · cases hx : indexOf d xs with
      | none => simp [hx] at h
      | some j => simp [hx] at h; subst h; have := ih j hx; simp; omega

/-! ## the walker on well-formed records -/

/-- a record the store itself can have written: non-empty ref without space or `]`, accepted by
`blob.Parse` or of the deleted form, header within the walker's 512-byte buffer, body < 4 GiB -/
def recOK (okRef : Bytes → Bool) (r : Rec) : Bool :=
  !r.ref.isEmpty && !r.ref.contains 32 && !r.ref.contains 93 && (isDeletedRef r.ref || okRef r.ref)
    && decide (r.ref.length ≤ 480) && decide (r.body.length < 4294967296)

theorem recOK_spec {okRef : Bytes → Bool} {r : Rec} (h : recOK okRef r = true) :
    r.ref ≠ [] ∧ 32 ∉ r.ref ∧ 93 ∉ r.ref ∧ (isDeletedRef r.ref = true ∨ okRef r.ref = true) ∧
      r.ref.length ≤ 480 ∧ r.body.length < 4294967296 := by
  simp [recOK] at h
  obtain ⟨⟨⟨⟨⟨h1, h2⟩, h3⟩, h4⟩, h5⟩, h6⟩ := h
  exact ⟨h1, h2, h3, h4, h5, h6⟩

/-- the header line without the closing `]` -/
def hdrLine (ref : Bytes) (size : Nat) : Bytes := ref ++ 32 :: decEnc size

theorem encodeHeader_eq (ref : Bytes) (size : Nat) :
    encodeHeader ref size = 91 :: (hdrLine ref size ++ [93]) := by
  simp [encodeHeader, hdrLine]

theorem encodeHeader_length (ref : Bytes) (size : Nat) :
    (encodeHeader ref size).length = (hdrLine ref size).length + 2 := by
  simp [encodeHeader_eq]

theorem hdrLine_no_close (ref : Bytes) (size : Nat) (h : 93 ∉ ref) : 93 ∉ hdrLine ref size := by
  intro hm
  simp only [hdrLine, List.mem_append, List.mem_cons] at hm
  rcases hm with hm | hm | hm
  · exact h hm
  · omega
  · exact isDigit_ne (decEnc_digits size 93 hm) (Or.inr (by omega)) rfl

theorem hdrLine_length_le (ref : Bytes) (size : Nat) (h : size < 4294967296) :
    (hdrLine ref size).length ≤ ref.length + 11 := by
  have := decEnc_length_le size h
  simp [hdrLine]; omega

theorem readSlice_hit (cap d : Nat) (a b : Bytes) (h : d ∉ a) (hc : a.length < cap) :
    readSlice cap d (a ++ d :: b) = .line (a ++ [d]) := by
  unfold readSlice
  rw [indexOf_append_hit d a b h]
  simp only [hc, if_true]
  congr 1
  rw [show a ++ d :: b = (a ++ [d]) ++ b by simp, List.take_left' (by simp)]

theorem readSlice_eof (cap d : Nat) (a : Bytes) (h : d ∉ a) (hc : a.length < cap) :
    readSlice cap d a = .eof := by
  unfold readSlice
  rw [indexOf_none d a h]
  simp [hc]

theorem walkHeader_record (okRef : Bytes → Bool) (r : Rec) (rest : Bytes) (h : recOK okRef r = true) :
    walkHeader okRef (hdrLine r.ref r.body.length ++ 93 :: rest) =
      .hdr ((hdrLine r.ref r.body.length).length + 1) r.ref r.body.length := by
  obtain ⟨h1, h2, h3, h4, h5, h6⟩ := recOK_spec h
  have hl := hdrLine_length_le r.ref r.body.length h6
  unfold walkHeader
  rw [readSlice_hit 512 93 _ rest (hdrLine_no_close _ _ h3) (by omega)]
  have e1 : (hdrLine r.ref r.body.length ++ [93]).dropLast = hdrLine r.ref r.body.length := by simp
  simp only [e1]
  have e2 : indexOf 32 (hdrLine r.ref r.body.length) = some r.ref.length := by
    unfold hdrLine; exact indexOf_append_hit 32 r.ref _ h2
  have hne : r.ref.length ≠ 0 := by
    intro e; exact h1 (List.eq_nil_of_length_eq_zero e)
  have e3 : (hdrLine r.ref r.body.length).drop (r.ref.length + 1) = decEnc r.body.length := by
    simp [hdrLine, List.drop_append]
  have e4 : (hdrLine r.ref r.body.length).take r.ref.length = r.ref := by
    simp [hdrLine]
  simp only [e2, hne, if_false, e3, parseUint32_decEnc _ h6, e4]
  have : (!isDeletedRef r.ref && !okRef r.ref) = false := by
    rcases h4 with h4 | h4 <;> simp [h4]
  simp [this]

def entryOf (r : Rec) (pos : Nat) : Entry :=
  ⟨if isDeletedRef r.ref then none else some r.ref, pos + (encodeHeader r.ref r.body.length).length, r.body.length⟩

/-- one complete record followed by anything: the walker reports it and continues after its body -/
theorem walk_record (okRef : Bytes → Bool) (cf : Bool) (f pos : Nat) (r : Rec) (tail : Bytes)
    (h : recOK okRef r = true) :
    walk okRef cf (f + 1) pos (encodeRecord r ++ tail) =
      (entryOf r pos :: (walk okRef cf f (pos + (encodeRecord r).length) tail).1,
       (walk okRef cf f (pos + (encodeRecord r).length) tail).2) := by
  have e0 : encodeRecord r ++ tail =
      91 :: (hdrLine r.ref r.body.length ++ 93 :: (r.body ++ tail)) := by
    simp [encodeRecord, encodeHeader_eq]
  rw [e0]
  simp only [walk]
  rw [walkHeader_record okRef r _ h]
  have hlen : (91 :: (hdrLine r.ref r.body.length ++ 93 :: (r.body ++ tail))).length =
      1 + ((hdrLine r.ref r.body.length).length + 1) + r.body.length + tail.length := by
    simp; omega
  have hfit : ¬ ((91 :: (hdrLine r.ref r.body.length ++ 93 :: (r.body ++ tail))).length <
      1 + ((hdrLine r.ref r.body.length).length + 1) + r.body.length) := by
    rw [hlen]; omega
  have hdrop : (91 :: (hdrLine r.ref r.body.length ++ 93 :: (r.body ++ tail))).drop
      (1 + ((hdrLine r.ref r.body.length).length + 1) + r.body.length) = tail := by
    have : 1 + ((hdrLine r.ref r.body.length).length + 1) + r.body.length =
        (91 :: (hdrLine r.ref r.body.length ++ 93 :: r.body)).length := by simp; omega
    rw [this]
    have e : (91 :: (hdrLine r.ref r.body.length ++ 93 :: (r.body ++ tail))) =
        (91 :: (hdrLine r.ref r.body.length ++ 93 :: r.body)) ++ tail := by simp
    rw [e, List.drop_left]
  have hpos : pos + 1 + ((hdrLine r.ref r.body.length).length + 1) + r.body.length =
      pos + (encodeRecord r).length := by
    simp [encodeRecord, encodeHeader_length]; omega
  have hoff : pos + 1 + ((hdrLine r.ref r.body.length).length + 1) =
      pos + (encodeHeader r.ref r.body.length).length := by
    simp [encodeHeader_length]; omega
  simp only [ne_eq, not_true_eq_false, if_false]
  split
  · rename_i hc
    exfalso
    simp only [Bool.and_eq_true, decide_eq_true_eq] at hc
    exact hfit hc.2
  · rw [hdrop, hpos, hoff]
    rfl

/-- enough fuel is enough: the walk consumes at least one byte per iteration -/
theorem walk_fuel (okRef : Bytes → Bool) (cf : Bool) (f1 f2 pos : Nat) (rest : Bytes)
    (h1 : rest.length < f1) (h2 : rest.length < f2) :
    walk okRef cf f1 pos rest = walk okRef cf f2 pos rest := by
  induction f1 generalizing f2 pos rest with
  | zero => omega
  | succ f1 ih =>
    cases f2 with
    | zero => omega
    | succ f2 =>
      cases rest with
      | nil => simp [walk]
      | cons b tl =>
        simp only [walk]
        split
        · rfl
        · split
          · rfl
          · rfl
          · rename_i m r size _
            split
            · rfl
            · have hl : (List.drop (1 + m + size) (b :: tl)).length < f1 := by
                simp only [List.length_drop, List.length_cons] at *; omega
              have hl2 : (List.drop (1 + m + size) (b :: tl)).length < f2 := by
                simp only [List.length_drop, List.length_cons] at *; omega
              rw [ih f2 _ _ hl hl2]

def entriesOf : List Rec → Nat → List Entry
  | [], _ => []
  | r :: rs, pos => entryOf r pos :: entriesOf rs (pos + (encodeRecord r).length)

theorem encodeRecord_length_pos (r : Rec) : 0 < (encodeRecord r).length := by
  simp [encodeRecord, encodeHeader]

theorem walk_encodePack (okRef : Bytes → Bool) (cf : Bool) (rs : List Rec) (F pos : Nat) (tail : Bytes)
    (h : ∀ r ∈ rs, recOK okRef r = true) (hF : rs.length ≤ F) :
    walk okRef cf F pos (encodePack rs ++ tail) =
      (entriesOf rs pos ++ (walk okRef cf (F - rs.length) (pos + (encodePack rs).length) tail).1,
       (walk okRef cf (F - rs.length) (pos + (encodePack rs).length) tail).2) := by
  induction rs generalizing pos F with
  | nil => simp [encodePack, entriesOf]
  | cons r rs ih =>
    have hr := h r (by simp)
    obtain ⟨F', rfl⟩ : ∃ F', F = F' + 1 := ⟨F - 1, by simp at hF; omega⟩
    have ih' := ih F' (pos + (encodeRecord r).length) (fun x hx => h x (by simp [hx])) (by simp at hF; omega)
    simp only [encodePack, List.append_assoc]
    rw [walk_record okRef cf _ pos r _ hr, ih']
    have e : F' + 1 - (r :: rs).length = F' - rs.length := by simp
    simp [entriesOf, Nat.add_assoc, e]

theorem walk_nil (okRef : Bytes → Bool) (cf : Bool) (f pos : Nat) : walk okRef cf f pos [] = ([], none) := by
  cases f <;> simp [walk]

theorem encodePack_append (a b : List Rec) : encodePack (a ++ b) = encodePack a ++ encodePack b := by
  induction a with
  | nil => rfl
  | cons r rs ih => simp [encodePack, ih]

theorem entriesOf_append (a b : List Rec) (pos : Nat) :
    entriesOf (a ++ b) pos = entriesOf a pos ++ entriesOf b (pos + (encodePack a).length) := by
  induction a generalizing pos with
  | nil => simp [entriesOf, encodePack]
  | cons r rs ih => simp [entriesOf, encodePack, ih, Nat.add_assoc]

theorem encodePack_length_ge (rs : List Rec) : rs.length ≤ (encodePack rs).length := by
  induction rs with
  | nil => simp [encodePack]
  | cons r rs ih =>
    have := encodeRecord_length_pos r
    simp [encodePack]; omega

/-- a strict prefix of a record (torn header or torn body) at the end of the file is not reported
(with the fit check: `cf = true`) -/
theorem walk_torn (okRef : Bytes → Bool) (cf : Bool) (f pos : Nat) (r : Rec) (k : Nat)
    (h : recOK okRef r = true) (hk : k < (encodeRecord r).length)
    (hcf : cf = true ∨ k < (encodeHeader r.ref r.body.length).length) :
    walk okRef cf f pos ((encodeRecord r).take k) = ([], none) := by
  cases f with
  | zero => rfl
  | succ f =>
  obtain ⟨h1, h2, h3, h4, h5, h6⟩ := recOK_spec h
  have hl := hdrLine_length_le r.ref r.body.length h6
  cases k with
  | zero => simp [walk]
  | succ k =>
    have e0 : encodeRecord r = 91 :: (hdrLine r.ref r.body.length ++ 93 :: r.body) := by
      simp [encodeRecord, encodeHeader_eq]
    rw [e0] at hk ⊢
    rw [List.take_succ_cons]
    by_cases hkl : k ≤ (hdrLine r.ref r.body.length).length
    · -- torn header: no `]` before the end of the file
      have e1 : (hdrLine r.ref r.body.length ++ 93 :: r.body).take k = (hdrLine r.ref r.body.length).take k := by
        rw [List.take_append_of_le_length hkl]
      rw [e1]
      have hno : 93 ∉ (hdrLine r.ref r.body.length).take k :=
        fun hm => hdrLine_no_close _ _ h3 (List.mem_of_mem_take hm)
      have hlen : ((hdrLine r.ref r.body.length).take k).length < 512 := by
        rw [List.length_take]; omega
      have hw : walkHeader okRef ((hdrLine r.ref r.body.length).take k) = .stop := by
        unfold walkHeader
        rw [readSlice_eof 512 93 _ hno hlen]
      simp only [walk, ne_eq, not_true_eq_false, if_false, hw]
    · -- torn body: the header is complete, the body is not
      have hcf' : cf = true := by
        rcases hcf with hcf | hcf
        · exact hcf
        · rw [encodeHeader_length] at hcf; omega
      subst hcf'
      obtain ⟨j, hj⟩ : ∃ j, k = (hdrLine r.ref r.body.length).length + 1 + j :=
        ⟨k - ((hdrLine r.ref r.body.length).length + 1), by omega⟩
      have hjb : j < r.body.length := by
        simp only [List.length_cons, List.length_append] at hk; omega
      have e1 : (hdrLine r.ref r.body.length ++ 93 :: r.body).take k =
          hdrLine r.ref r.body.length ++ 93 :: r.body.take j := by
        rw [List.take_append, hj]
        have : (hdrLine r.ref r.body.length).length + 1 + j - (hdrLine r.ref r.body.length).length = j + 1 := by omega
        rw [this, List.take_of_length_le (by omega)]
        simp
      rw [e1]
      simp only [walk, ne_eq, not_true_eq_false, if_false, walkHeader_record okRef r _ h]
      have : (91 :: (hdrLine r.ref r.body.length ++ 93 :: r.body.take j)).length <
          1 + ((hdrLine r.ref r.body.length).length + 1) + r.body.length := by
        simp only [List.length_cons, List.length_append, List.length_take]; omega
      simp only [List.length_cons, List.length_append, List.length_take] at this
      simp; omega

/-! ## index rows -/

theorem Index.get_set_same (idx : Index) (k : Bytes) (v : Meta) : (idx.set k v).get k = some v := by
  induction idx with
  | nil => simp [Index.set, Index.get]
  | cons p t ih =>
    obtain ⟨k', v'⟩ := p
    simp only [Index.set]
    by_cases h : k = k'
    · simp [h, Index.get]
    · simp only [h, if_false]
      by_cases hl : ltB k k' = true
      · simp [hl, Index.get]
      · simp [hl, Index.get, h, ih]

theorem Index.get_set_other (idx : Index) (k k2 : Bytes) (v : Meta) (hne : k2 ≠ k) :
    (idx.set k v).get k2 = idx.get k2 := by
  induction idx with
  | nil => simp [Index.set, Index.get, hne]
  | cons p t ih =>
    obtain ⟨k', v'⟩ := p
    simp only [Index.set]
    by_cases h : k = k'
    · subst h; simp [Index.get, hne]
    · simp only [h, if_false]
      by_cases hl : ltB k k' = true
      · simp [hl, Index.get, hne]
      · simp only [hl]
        by_cases h2 : k2 = k'
        · simp [h2, Index.get]
        · simp [h2, Index.get, ih]

theorem Index.get_del_same (idx : Index) (k : Bytes) : (idx.del k).get k = none := by
  induction idx with
  | nil => rfl
  | cons p t ih =>
    obtain ⟨k', v'⟩ := p
    simp only [Index.del, List.filter]
    by_cases h : k' = k
    · simp only [h, ne_eq, not_true_eq_false, decide_false]
      exact ih
    · have : k ≠ k' := fun e => h e.symm
      simp only [ne_eq, h, not_false_eq_true, decide_true, Index.get, this, if_false]
      exact ih

theorem Index.get_del_other (idx : Index) (k k2 : Bytes) (hne : k2 ≠ k) : (idx.del k).get k2 = idx.get k2 := by
  induction idx with
  | nil => rfl
  | cons p t ih =>
    obtain ⟨k', v'⟩ := p
    simp only [Index.del, List.filter]
    by_cases h : k' = k
    · subst h
      simp only [ne_eq, not_true_eq_false, decide_false, Index.get, hne, if_false]
      exact ih
    · simp only [ne_eq, h, not_false_eq_true, decide_true, Index.get]
      by_cases h2 : k2 = k'
      · simp [h2]
      · simp only [h2, if_false]; exact ih

/-! ## extents -/

theorem extent_append_left (p x : Bytes) (off size : Nat) (h : off + size ≤ p.length) :
    extent (p ++ x) off size = extent p off size := by
  unfold extent
  rw [List.drop_append_of_le_length (by omega), List.take_append_of_le_length (by simp; omega)]

theorem extent_exact (a b c : Bytes) : extent (a ++ b ++ c) a.length b.length = b := by
  unfold extent
  rw [List.append_assoc, List.drop_left, List.take_left]

theorem extent_length_le (p : Bytes) (off size : Nat) : (extent p off size).length ≤ size := by
  unfold extent; simp [List.length_take]; omega

theorem extent_length_eq (p : Bytes) (off size : Nat) (h : off + size ≤ p.length) :
    (extent p off size).length = size := by
  unfold extent; simp [List.length_take, List.length_drop]; omega

/-- same-length middle parts do not matter for an extent that lies before or after them -/
theorem extent_frame (pre x y post : Bytes) (off size : Nat) (hxy : x.length = y.length)
    (h : off + size ≤ pre.length ∨ pre.length + x.length ≤ off) :
    extent (pre ++ x ++ post) off size = extent (pre ++ y ++ post) off size := by
  rcases h with h | h
  · rw [List.append_assoc, List.append_assoc, extent_append_left _ _ _ _ h, extent_append_left _ _ _ _ h]
  · unfold extent
    have e1 : (pre ++ x ++ post).drop off = post.drop (off - (pre ++ x).length) := by
      rw [List.drop_append, List.drop_of_length_le (by simp; omega)]; simp
    have e2 : (pre ++ y ++ post).drop off = post.drop (off - (pre ++ y).length) := by
      rw [List.drop_append, List.drop_of_length_le (by simp; omega)]; simp
    rw [e1, e2]; simp [hxy]

/-! ## stores: rows within their packs, packs that only grow -/

/-- every index row lies within its pack file -/
def InBounds (st : Store) : Prop :=
  ∀ ref m, st.index.get ref = some m → ∃ p, st.packs[m.file]? = some p ∧ m.offset + m.size ≤ p.length

/-- every pack file of `ps` is still there in `qs`, possibly with bytes added at its end -/
def Grows (ps qs : List Bytes) : Prop := ∀ (i : Nat) (p : Bytes), ps[i]? = some p → ∃ x, qs[i]? = some (p ++ x)

theorem fetch_of_grows (st st' : Store) (r : Bytes) (hidx : st'.index.get r = st.index.get r)
    (hg : Grows st.packs st'.packs)
    (hb : ∀ m, st.index.get r = some m → ∃ p, st.packs[m.file]? = some p ∧ m.offset + m.size ≤ p.length) :
    st'.fetch r = st.fetch r := by
  unfold Store.fetch
  rw [hidx]
  cases hm : st.index.get r with
  | none => rfl
  | some m =>
    obtain ⟨p, hp, hle⟩ := hb m hm
    obtain ⟨x, hx⟩ := hg _ _ hp
    simp only [hp, hx]
    rw [extent_append_left _ _ _ _ hle]

theorem exists_concat (l : List Bytes) (h : l ≠ []) : ∃ init last, l = init ++ [last] := by
  induction l with
  | nil => exact absurd rfl h
  | cons x xs ih =>
    cases xs with
    | nil => exact ⟨[], x, rfl⟩
    | cons y ys =>
      obtain ⟨i, l, e⟩ := ih (by simp)
      exact ⟨x :: i, l, by rw [e]; rfl⟩

theorem getLast_concat (init : List Bytes) (last : Bytes) : (init ++ [last]).getLast?.getD [] = last := by
  simp

theorem setLast_concat (init : List Bytes) (last q : Bytes) : setLast (init ++ [last]) q = init ++ [q] := by
  simp [setLast]

theorem grows_concat (init : List Bytes) (last x : Bytes) (tail : List Bytes) :
    Grows (init ++ [last]) (init ++ [last ++ x] ++ tail) := by
  intro i p hp
  by_cases hi : i < init.length
  · rw [List.getElem?_append_left (by simpa using hi)] at hp
    refine ⟨[], ?_⟩
    rw [List.append_assoc, List.getElem?_append_left (by simpa using hi)]
    simpa using hp
  · have hi' : init.length ≤ i := by omega
    rw [List.getElem?_append_right hi'] at hp
    cases hk : i - init.length with
    | zero =>
      rw [hk] at hp
      simp at hp; subst hp
      refine ⟨x, ?_⟩
      rw [List.append_assoc, List.getElem?_append_right hi', hk]
      simp
    | succ k => rw [hk] at hp; simp at hp

theorem crashAppend_packs (st : Store) (init : List Bytes) (last : Bytes) (hp : st.packs = init ++ [last])
    (ref body : Bytes) (keep : Nat) (np row : Bool) :
    (st.crashAppend ref body keep np row).packs =
      init ++ [last ++ (appendBytes ref body).take keep] ++ (if np then [[]] else []) := by
  unfold Store.crashAppend
  simp only [hp, getLast_concat, setLast_concat]
  cases np <;> simp

theorem crashAppend_grows (st : Store) (hne : st.packs ≠ []) (ref body : Bytes) (keep : Nat) (np row : Bool) :
    Grows st.packs (st.crashAppend ref body keep np row).packs := by
  obtain ⟨init, last, hp⟩ := exists_concat st.packs hne
  rw [crashAppend_packs st init last hp, hp]
  exact grows_concat _ _ _ _

theorem inBounds_of_grows (st st' : Store) (hidx : st'.index = st.index) (hg : Grows st.packs st'.packs)
    (hb : InBounds st) : InBounds st' := by
  intro ref m hm
  rw [hidx] at hm
  obtain ⟨p, hp, hle⟩ := hb ref m hm
  obtain ⟨x, hx⟩ := hg _ _ hp
  exact ⟨p ++ x, hx, by simp; omega⟩

/-- the completed `append` is the crash state "all bytes, roll-over done if due, row written" -/
theorem append_eq_crashAppend (st : Store) (ref body : Bytes) :
    st.append ref body = st.crashAppend ref body (appendBytes ref body).length
      (decide ((st.packs.getLast?.getD [] ++ appendBytes ref body).length > st.maxSize)) true := by
  unfold Store.append Store.crashAppend appendBytes
  simp only [List.take_length, List.append_assoc, if_true]
  by_cases h : (st.packs.getLast?.getD [] ++ (encodeHeader ref body.length ++ body)).length > st.maxSize
  · simp [h]
  · simp [h]

/-! ## StreamBlobs on well-formed records -/

theorem readHeader_record (r : Rec) (rest : Bytes) (okRef : Bytes → Bool) (h : recOK okRef r = true)
    (h3 : 3 ≤ r.ref.length) :
    readHeader (encodeHeader r.ref r.body.length ++ rest) =
      some ((encodeHeader r.ref r.body.length).length, r.ref, r.body.length) := by
  obtain ⟨_, h2, hc, _, h5, h6⟩ := recOK_spec h
  have hl := hdrLine_length_le r.ref r.body.length h6
  have e0 : encodeHeader r.ref r.body.length ++ rest = (91 :: hdrLine r.ref r.body.length) ++ 93 :: rest := by
    simp [encodeHeader_eq]
  have hno : 93 ∉ (91 :: hdrLine r.ref r.body.length) := by
    intro hm
    rcases List.mem_cons.mp hm with hm | hm
    · omega
    · exact hdrLine_no_close _ _ hc hm
  unfold readHeader
  rw [e0, readSlice_hit 262144 93 _ rest hno (by simp; omega)]
  have e1 : indexOf 32 ((91 :: hdrLine r.ref r.body.length) ++ [93]) = some (r.ref.length + 1) := by
    have : (91 :: hdrLine r.ref r.body.length) ++ [93] = (91 :: r.ref) ++ 32 :: (decEnc r.body.length ++ [93]) := by
      simp [hdrLine]
    rw [this, indexOf_append_hit 32 (91 :: r.ref) _ (by
      intro hm
      rcases List.mem_cons.mp hm with hm | hm
      · omega
      · exact h2 hm)]
    simp
  simp only [e1]
  have e2 : (((91 :: hdrLine r.ref r.body.length) ++ [93]).drop (r.ref.length + 1 + 1)).dropLast = decEnc r.body.length := by
    have : (91 :: hdrLine r.ref r.body.length) ++ [93] = (91 :: (r.ref ++ [32])) ++ (decEnc r.body.length ++ [93]) := by
      simp [hdrLine]
    rw [this, List.drop_left' (by simp)]
    simp
  have e3 : (((91 :: hdrLine r.ref r.body.length) ++ [93]).take (r.ref.length + 1)).drop 1 = r.ref := by
    have : (91 :: hdrLine r.ref r.body.length) ++ [93] = (91 :: r.ref) ++ (32 :: (decEnc r.body.length ++ [93])) := by
      simp [hdrLine]
    rw [this, List.take_left' (by simp)]
    simp
  simp only [e2, parseUint32_decEnc _ h6, e3]
  have h5' : 5 ≤ (hdrLine r.ref r.body.length).length := by
    have := decEnc_ne_nil r.body.length
    have : 0 < (decEnc r.body.length).length := List.length_pos_iff.mpr this
    simp [hdrLine]; omega
  simp [encodeHeader_eq]
  omega

def liveOf : List Rec → List (Bytes × Bytes)
  | [] => []
  | r :: rs => if isDeletedRef r.ref then liveOf rs else (r.ref, r.body) :: liveOf rs

/-- record conditions for the streamer: as for the walker, `blob.ParseBytes` instead of `blob.Parse`, and a
ref of at least 3 bytes (`[b-c 0]` is the shortest header `readHeader` accepts) -/
def recOKS (okRefB : Bytes → Bool) (r : Rec) : Bool := recOK okRefB r && decide (3 ≤ r.ref.length)

theorem streamPack_record (okRefB : Bytes → Bool) (f : Nat) (r : Rec) (tail : Bytes)
    (h : recOKS okRefB r = true) :
    streamPack okRefB (f + 1) (encodeRecord r ++ tail) =
      (liveOf [r] ++ (streamPack okRefB f tail).1, (streamPack okRefB f tail).2) := by
  simp only [recOKS, Bool.and_eq_true, decide_eq_true_eq] at h
  obtain ⟨hok, h3⟩ := h
  obtain ⟨_, _, _, h4, _, _⟩ := recOK_spec hok
  have e0 : encodeRecord r ++ tail = encodeHeader r.ref r.body.length ++ (r.body ++ tail) := by
    simp [encodeRecord]
  rw [e0]
  have hne : (encodeHeader r.ref r.body.length ++ (r.body ++ tail)).isEmpty = false := by
    simp [encodeHeader]
  simp only [streamPack, hne, readHeader_record r _ okRefB hok h3]
  have hdrop : (encodeHeader r.ref r.body.length ++ (r.body ++ tail)).drop (encodeHeader r.ref r.body.length).length =
      r.body ++ tail := List.drop_left
  simp only [hdrop]
  have hlen : ¬ (r.body ++ tail).length < r.body.length := by simp
  have hd2 : (r.body ++ tail).drop r.body.length = tail := List.drop_left
  have ht2 : (r.body ++ tail).take r.body.length = r.body := List.take_left
  simp only [hlen, hd2, ht2, Bool.false_eq_true, if_false]
  by_cases hd : isDeletedRef r.ref = true
  · simp [hd, liveOf]
  · have hokb : okRefB r.ref = true := by
      rcases h4 with h4 | h4
      · exact absurd h4 hd
      · exact h4
    simp [hd, hokb, liveOf]

theorem liveOf_append (a b : List Rec) : liveOf (a ++ b) = liveOf a ++ liveOf b := by
  induction a with
  | nil => rfl
  | cons r rs ih =>
    simp only [List.cons_append, liveOf]
    split <;> simp [ih]

theorem streamPack_encodePack (okRefB : Bytes → Bool) (rs : List Rec) (F : Nat) (tail : Bytes)
    (h : ∀ r ∈ rs, recOKS okRefB r = true) (hF : rs.length ≤ F) :
    streamPack okRefB F (encodePack rs ++ tail) =
      (liveOf rs ++ (streamPack okRefB (F - rs.length) tail).1, (streamPack okRefB (F - rs.length) tail).2) := by
  induction rs generalizing F with
  | nil => simp [encodePack, liveOf]
  | cons r rs ih =>
    obtain ⟨F', rfl⟩ : ∃ F', F = F' + 1 := ⟨F - 1, by simp at hF; omega⟩
    have ih' := ih F' (fun x hx => h x (by simp [hx])) (by simp at hF; omega)
    simp only [encodePack, List.append_assoc]
    rw [streamPack_record okRefB F' r _ (h r (by simp)), ih']
    have e : F' + 1 - (r :: rs).length = F' - rs.length := by simp
    have el : liveOf (r :: rs) = liveOf [r] ++ liveOf rs := liveOf_append [r] rs
    simp [e, el]

/-- a strict prefix of a record at the end of the pack: the streamer presents nothing for it -/
theorem streamPack_torn (okRefB : Bytes → Bool) (f : Nat) (r : Rec) (k : Nat)
    (h : recOKS okRefB r = true) (hk : k < (encodeRecord r).length) :
    (streamPack okRefB f ((encodeRecord r).take k)).1 = [] := by
  cases f with
  | zero => rfl
  | succ f =>
  simp only [recOKS, Bool.and_eq_true, decide_eq_true_eq] at h
  obtain ⟨hok, h3⟩ := h
  obtain ⟨_, _, hc, _, h5, h6⟩ := recOK_spec hok
  have hl := hdrLine_length_le r.ref r.body.length h6
  cases k with
  | zero => simp [streamPack]
  | succ k =>
    have e0 : encodeRecord r = 91 :: (hdrLine r.ref r.body.length ++ 93 :: r.body) := by
      simp [encodeRecord, encodeHeader_eq]
    by_cases hkl : k ≤ (hdrLine r.ref r.body.length).length
    · -- torn header: ReadSlice hits EOF
      have e1 : (encodeRecord r).take (k + 1) = 91 :: (hdrLine r.ref r.body.length).take k := by
        rw [e0, List.take_succ_cons, List.take_append_of_le_length hkl]
      rw [e1]
      have hno : 93 ∉ (91 :: (hdrLine r.ref r.body.length).take k) := by
        intro hm
        rcases List.mem_cons.mp hm with hm | hm
        · omega
        · exact hdrLine_no_close _ _ hc (List.mem_of_mem_take hm)
      have hrh : readHeader (91 :: (hdrLine r.ref r.body.length).take k) = none := by
        unfold readHeader
        rw [readSlice_eof 262144 93 _ hno (by simp [List.length_take]; omega)]
      simp [streamPack, hrh]
    · -- torn body: ReadFull / CopyN hits EOF
      obtain ⟨j, hj⟩ : ∃ j, k = (hdrLine r.ref r.body.length).length + 1 + j :=
        ⟨k - ((hdrLine r.ref r.body.length).length + 1), by omega⟩
      have hjb : j < r.body.length := by
        rw [e0] at hk
        simp only [List.length_cons, List.length_append] at hk; omega
      have e1 : (encodeRecord r).take (k + 1) = encodeHeader r.ref r.body.length ++ r.body.take j := by
        rw [e0, List.take_succ_cons, List.take_append, hj]
        have : (hdrLine r.ref r.body.length).length + 1 + j - (hdrLine r.ref r.body.length).length = j + 1 := by omega
        rw [this, List.take_of_length_le (by omega)]
        simp [encodeHeader_eq]
      rw [e1]
      have hne : (encodeHeader r.ref r.body.length ++ r.body.take j).isEmpty = false := by simp [encodeHeader]
      simp only [streamPack, hne, readHeader_record r _ okRefB hok h3, List.drop_left]
      have : min j r.body.length < r.body.length := by omega
      simp [this]

/-! ## the rebuilt index -/

theorem setEntries_get (idx : Index) (i : Nat) (es : List Entry) (ref : Bytes) (m : Meta)
    (h : (setEntries idx i es).get ref = some m) :
    (∃ e ∈ es, e.ref = some ref ∧ m = ⟨i, e.offset, e.size⟩) ∨ idx.get ref = some m := by
  induction es generalizing idx with
  | nil => exact Or.inr h
  | cons e es ih =>
    simp only [setEntries] at h
    cases hr : e.ref with
    | none =>
      simp only [hr] at h
      rcases ih idx h with ⟨e', he', h'⟩ | h'
      · exact Or.inl ⟨e', by simp [he'], h'⟩
      · exact Or.inr h'
    | some r =>
      simp only [hr] at h
      rcases ih _ h with ⟨e', he', h'⟩ | h'
      · exact Or.inl ⟨e', by simp [he'], h'⟩
      · by_cases hrr : ref = r
        · subst hrr
          rw [Index.get_set_same] at h'
          injection h' with h'
          exact Or.inl ⟨e, by simp, hr, h'.symm⟩
        · rw [Index.get_set_other _ _ _ _ hrr] at h'
          exact Or.inr h'

theorem setEntries_get_isSome_mono (idx : Index) (i : Nat) (es : List Entry) (ref : Bytes)
    (h : (idx.get ref).isSome) : ((setEntries idx i es).get ref).isSome := by
  induction es generalizing idx with
  | nil => exact h
  | cons e es ih =>
    simp only [setEntries]
    cases hr : e.ref with
    | none => exact ih idx h
    | some r =>
      apply ih
      by_cases hrr : ref = r
      · subst hrr; rw [Index.get_set_same]; rfl
      · rw [Index.get_set_other _ _ _ _ hrr]; exact h

theorem setEntries_get_live (idx : Index) (i : Nat) (es : List Entry) (e : Entry) (ref : Bytes)
    (he : e ∈ es) (hr : e.ref = some ref) : ((setEntries idx i es).get ref).isSome := by
  induction es generalizing idx with
  | nil => cases he
  | cons e' es ih =>
    simp only [setEntries]
    rcases List.mem_cons.mp he with he | he
    · subst he
      simp only [hr]
      apply setEntries_get_isSome_mono
      rw [Index.get_set_same]; rfl
    · cases hr' : e'.ref with
      | none => exact ih idx he
      | some r => exact ih _ he

theorem mem_entriesOf (rs : List Rec) (pos : Nat) (e : Entry) (h : e ∈ entriesOf rs pos) :
    ∃ pre x post, rs = pre ++ x :: post ∧ e = entryOf x (pos + (encodePack pre).length) := by
  induction rs generalizing pos with
  | nil => simp [entriesOf] at h
  | cons r rs ih =>
    simp only [entriesOf, List.mem_cons] at h
    rcases h with h | h
    · exact ⟨[], r, rs, rfl, by simp [h, encodePack]⟩
    · obtain ⟨pre, x, post, e1, e2⟩ := ih _ h
      exact ⟨r :: pre, x, post, by simp [e1], by simp [e2, encodePack, Nat.add_assoc]⟩

theorem entryOf_mem_entriesOf (pre : List Rec) (x : Rec) (post : List Rec) (pos : Nat) :
    entryOf x (pos + (encodePack pre).length) ∈ entriesOf (pre ++ x :: post) pos := by
  rw [entriesOf_append]
  simp [entriesOf]

/-- the extent a walker entry points at holds the record's body -/
theorem extent_entryOf (pre : List Rec) (x : Rec) (post : List Rec) (tail : Bytes) :
    extent (encodePack (pre ++ x :: post) ++ tail)
      (entryOf x (0 + (encodePack pre).length)).offset (entryOf x (0 + (encodePack pre).length)).size = x.body := by
  have e : encodePack (pre ++ x :: post) ++ tail =
      (encodePack pre ++ encodeHeader x.ref x.body.length) ++ x.body ++ (encodePack post ++ tail) := by
    simp [encodePack_append, encodePack, encodeRecord]
  rw [e]
  have := extent_exact (encodePack pre ++ encodeHeader x.ref x.body.length) x.body (encodePack post ++ tail)
  simpa [entryOf] using this

/-! ## delete -/

/-- the ref text `delete` leaves in a rewritten header: `x…x-0…0` of the same length -/
def delRef (name dg : Bytes) : Bytes := List.replicate name.length 120 ++ 45 :: List.replicate dg.length 48

theorem delRef_length (name dg : Bytes) : (delRef name dg).length = (name ++ 45 :: dg).length := by
  simp [delRef]

theorem allEq_replicate (c n : Nat) : allEq c (List.replicate n c) = true := by
  induction n with
  | zero => rfl
  | succ n ih => simp [List.replicate_succ, allEq, ih]

/-- what `delete` writes into a header is of the deleted form, which walker and streamer skip -/
theorem isDeletedRef_delRef (name dg : Bytes) (h1 : name ≠ []) (h2 : dg ≠ []) :
    isDeletedRef (delRef name dg) = true := by
  have hn : 45 ∉ List.replicate name.length 120 := by
    intro hm; have := List.eq_of_mem_replicate hm; omega
  unfold isDeletedRef delRef
  rw [indexOf_append_hit 45 _ _ hn]
  have hl1 : name.length ≠ 0 := fun e => h1 (List.eq_nil_of_length_eq_zero e)
  have hl2 : dg.length ≠ 0 := fun e => h2 (List.eq_nil_of_length_eq_zero e)
  have e1 : (List.replicate name.length 120 ++ 45 :: List.replicate dg.length 48).take (List.replicate name.length 120).length =
      List.replicate name.length 120 := List.take_left
  have e2 : (List.replicate name.length 120 ++ 45 :: List.replicate dg.length 48).drop ((List.replicate name.length 120).length + 1) =
      List.replicate dg.length 48 := by
    rw [show List.replicate name.length 120 ++ 45 :: List.replicate dg.length 48 =
      (List.replicate name.length 120 ++ [45]) ++ List.replicate dg.length 48 by simp, List.drop_left' (by simp)]
  simp only [e1, e2, allEq_replicate]
  simp [hl1, hl2]

theorem recOK_delRef (okRef : Bytes → Bool) (name dg B : Bytes) (h1 : name ≠ []) (h2 : dg ≠ [])
    (hl : name.length + dg.length + 1 ≤ 480) (hB : B.length < 4294967296) :
    recOK okRef ⟨delRef name dg, B⟩ = true := by
  have hd := isDeletedRef_delRef name dg h1 h2
  have hne : delRef name dg ≠ [] := by simp [delRef]
  have hs : 32 ∉ delRef name dg := by
    intro hm
    simp only [delRef, List.mem_append, List.mem_cons] at hm
    rcases hm with hm | hm | hm
    · have := List.eq_of_mem_replicate hm; omega
    · omega
    · have := List.eq_of_mem_replicate hm; omega
  have hc : 93 ∉ delRef name dg := by
    intro hm
    simp only [delRef, List.mem_append, List.mem_cons] at hm
    rcases hm with hm | hm | hm
    · have := List.eq_of_mem_replicate hm; omega
    · omega
    · have := List.eq_of_mem_replicate hm; omega
  have hlen : (delRef name dg).length ≤ 480 := by simp [delRef]; omega
  simp [recOK, hd, hne, hs, hc, hlen, hB]

theorem deletedHeader_encodeHeader (name dg : Bytes) (size : Nat) (h1 : 45 ∉ name) (h2 : 32 ∉ dg) :
    deletedHeader (encodeHeader (name ++ 45 :: dg) size) = some (encodeHeader (delRef name dg) size) := by
  have e0 : encodeHeader (name ++ 45 :: dg) size = 91 :: (hdrLine (name ++ 45 :: dg) size ++ [93]) :=
    encodeHeader_eq _ _
  unfold deletedHeader
  rw [e0]
  have hlast : (91 :: (hdrLine (name ++ 45 :: dg) size ++ [93])).getLast? = some 93 := by
    have : (91 :: (hdrLine (name ++ 45 :: dg) size ++ [93])) = (91 :: hdrLine (name ++ 45 :: dg) size) ++ [93] := rfl
    rw [this, List.getLast?_append]; simp
  have hinner : (List.drop 1 (91 :: (hdrLine (name ++ 45 :: dg) size ++ [93]))).dropLast =
      name ++ 45 :: (dg ++ 32 :: decEnc size) := by
    have : (hdrLine (name ++ 45 :: dg) size ++ [93]).dropLast = hdrLine (name ++ 45 :: dg) size := by simp
    simp only [List.drop_succ_cons, List.drop_zero, this]
    simp [hdrLine]
  simp only [List.head?_cons, hlast, ne_eq, not_true_eq_false, or_self, if_false, hinner]
  rw [indexOf_append_hit 45 name _ h1]
  have hd : (name ++ 45 :: (dg ++ 32 :: decEnc size)).drop (name.length + 1) = dg ++ 32 :: decEnc size := by
    rw [show name ++ 45 :: (dg ++ 32 :: decEnc size) = (name ++ [45]) ++ (dg ++ 32 :: decEnc size) by simp,
      List.drop_left' (by simp)]
  simp only [hd]
  rw [indexOf_append_hit 32 dg _ h2]
  have hd2 : (name ++ 45 :: (dg ++ 32 :: decEnc size)).drop (name.length + 1 + dg.length) = 32 :: decEnc size := by
    rw [show name ++ 45 :: (dg ++ 32 :: decEnc size) = (name ++ 45 :: dg) ++ (32 :: decEnc size) by simp,
      List.drop_left' (by simp; omega)]
  simp only [hd2]
  simp [encodeHeader, delRef]

theorem replaceAt_mid (pre x y post : Bytes) (h : x.length = y.length) :
    replaceAt (pre ++ x ++ post) pre.length y = pre ++ y ++ post := by
  have e1 : (pre ++ x ++ post).take pre.length = pre := by
    rw [List.append_assoc, List.take_left]
  have e2 : (pre ++ x ++ post).drop (pre.length + y.length) = post := by
    rw [show pre.length + y.length = (pre ++ x).length by simp [h], List.drop_left]
  unfold replaceAt
  rw [e1, e2]

theorem deleteHeaderAt_record (pre post name dg body : Bytes) (f : Nat) (h1 : 45 ∉ name) (h2 : 32 ∉ dg) :
    deleteHeaderAt (pre ++ encodeHeader (name ++ 45 :: dg) body.length ++ (body ++ post)) (name ++ 45 :: dg)
        ⟨f, pre.length + (encodeHeader (name ++ 45 :: dg) body.length).length, body.length⟩ =
      some (pre ++ encodeHeader (delRef name dg) body.length ++ (body ++ post)) := by
  have hk : 1 + (name ++ 45 :: dg).length + 1 + (decEnc body.length).length + 1 =
      (encodeHeader (name ++ 45 :: dg) body.length).length := by
    simp [encodeHeader]; omega
  unfold deleteHeaderAt
  simp only [hk]
  rw [if_neg (by omega)]
  have hoff : pre.length + (encodeHeader (name ++ 45 :: dg) body.length).length -
      (encodeHeader (name ++ 45 :: dg) body.length).length = pre.length := by omega
  simp only [hoff]
  have hb : ((pre ++ encodeHeader (name ++ 45 :: dg) body.length ++ (body ++ post)).drop pre.length).take
      (encodeHeader (name ++ 45 :: dg) body.length).length = encodeHeader (name ++ 45 :: dg) body.length := by
    rw [List.append_assoc, List.drop_left, List.take_left]
  simp only [hb, Nat.lt_irrefl, if_false, deletedHeader_encodeHeader name dg body.length h1 h2]
  rw [replaceAt_mid]
  simp [encodeHeader, delRef]

theorem zeroExtent_record (a body post : Bytes) :
    zeroExtent (a ++ (body ++ post)) a.length body.length = a ++ (List.replicate body.length 0 ++ post) := by
  unfold zeroExtent
  have he : extent (a ++ (body ++ post)) a.length body.length = body := by
    have := extent_exact a body post
    rwa [List.append_assoc] at this
  rw [he]
  by_cases hn : body.length = 0
  · have : body = [] := List.eq_nil_of_length_eq_zero hn
    subst this; simp
  · simp only [hn, if_false]
    have := replaceAt_mid a body (List.replicate body.length 0) post (by simp)
    rw [List.append_assoc, List.append_assoc] at this
    exact this

theorem getElem?_modifyNth (l : List Bytes) (i j : Nat) (g : Bytes → Bytes) :
    (modifyNth l i g)[j]? = if j = i then l[j]?.map g else l[j]? := by
  induction l generalizing i j with
  | nil => simp [modifyNth]
  | cons x xs ih =>
    cases i with
    | zero => cases j <;> simp [modifyNth]
    | succ i =>
      cases j with
      | zero => simp [modifyNth]
      | succ j => simp [modifyNth, ih]

/-! ## the effect order of `append` -/

/-- what the scan state `(p, d)` of `appSafe` knows about the durability bookkeeping -/
def AppRel (hl bl p : Nat) (d : Bool) (s : AppSt) : Prop :=
  p ≤ 3 ∧ (p = 0 → s.written = 0) ∧ (p = 1 → s.written = hl) ∧ (2 ≤ p → s.written = hl + bl) ∧
  (p < 3 → s.row = false) ∧ (d = false → s.synced = s.written) ∧ (p = 3 → d = false)

theorem appRel_row (hl bl p : Nat) (d : Bool) (s : AppSt) (hr : AppRel hl bl p d s) (hrow : s.row = true) :
    s.synced = hl + bl ∧ s.written = hl + bl := by
  obtain ⟨h1, _, _, h4, h5, h6, h7⟩ := hr
  have hp : p = 3 := by
    by_cases hp : p < 3
    · rw [h5 hp] at hrow; cases hrow
    · omega
  have := h6 (h7 hp)
  have := h4 (by omega)
  omega

theorem appSafe_step (hl bl : Nat) (e : Eff) (t : List Eff) (p : Nat) (d : Bool) (s : AppSt)
    (h : appSafe p d (e :: t) = true) (hr : AppRel hl bl p d s) :
    ∃ p' d', appSafe p' d' t = true ∧ AppRel hl bl p' d' (appStep hl bl s e) := by
  obtain ⟨h1, h2, h3, h4, h5, h6, h7⟩ := hr
  cases e
  case writeHeader =>
    simp only [appSafe, Bool.and_eq_true, beq_iff_eq] at h
    refine ⟨1, true, h.2, ?_⟩
    have := h2 h.1
    simp [AppRel, appStep, this, h5 (by omega)]
  case copy =>
    simp only [appSafe, Bool.and_eq_true, beq_iff_eq] at h
    refine ⟨2, true, h.2, ?_⟩
    have := h3 h.1
    simp [AppRel, appStep, this, h5 (by omega)]
  case sync =>
    simp only [appSafe] at h
    refine ⟨p, false, h, ?_⟩
    simp only [AppRel, appStep]
    exact ⟨h1, h2, h3, h4, h5, fun _ => trivial, fun _ => trivial⟩
  case indexSet =>
    simp only [appSafe, Bool.and_eq_true, beq_iff_eq, Bool.not_eq_true'] at h
    obtain ⟨⟨hp, hd⟩, ht⟩ := h
    subst hd
    refine ⟨3, false, ht, ?_⟩
    simp only [AppRel, appStep]
    exact ⟨by omega, by omega, by omega, fun _ => h4 (by omega), by omega, fun _ => h6 rfl, fun _ => trivial⟩
  all_goals
    simp only [appSafe] at h
    exact ⟨p, d, h, by simp only [AppRel, appStep]; exact ⟨h1, h2, h3, h4, h5, h6, h7⟩⟩

theorem appSafe_prefix (hl bl : Nat) (effs : List Eff) (p : Nat) (d : Bool) (s : AppSt)
    (h : appSafe p d effs = true) (hr : AppRel hl bl p d s) (k : Nat) :
    ((effs.take k).foldl (appStep hl bl) s).row = true →
      ((effs.take k).foldl (appStep hl bl) s).synced = hl + bl ∧
      ((effs.take k).foldl (appStep hl bl) s).written = hl + bl := by
  induction effs generalizing p d s k with
  | nil => simpa using appRel_row hl bl p d s hr
  | cons e t ih =>
    cases k with
    | zero => simpa using appRel_row hl bl p d s hr
    | succ k =>
      obtain ⟨p', d', ht, hr'⟩ := appSafe_step hl bl e t p d s h hr
      simpa using ih p' d' _ ht hr' k

/-- bytes written never exceed header + body on a safe order -/
theorem appSafe_written_le (hl bl : Nat) (effs : List Eff) (p : Nat) (d : Bool) (s : AppSt)
    (h : appSafe p d effs = true) (hr : AppRel hl bl p d s) (k : Nat) :
    ((effs.take k).foldl (appStep hl bl) s).written ≤ hl + bl := by
  induction effs generalizing p d s k with
  | nil =>
    obtain ⟨h1, h2, h3, h4, _⟩ := hr
    simp only [List.take_nil, List.foldl_nil]
    rcases Nat.lt_or_ge p 2 with hp | hp
    · rcases Nat.lt_or_ge p 1 with hp0 | hp1
      · have := h2 (by omega); omega
      · have := h3 (by omega); omega
    · have := h4 hp; omega
  | cons e t ih =>
    cases k with
    | zero =>
      obtain ⟨h1, h2, h3, h4, _⟩ := hr
      simp only [List.take_zero, List.foldl_nil]
      rcases Nat.lt_or_ge p 2 with hp | hp
      · rcases Nat.lt_or_ge p 1 with hp0 | hp1
        · have := h2 (by omega); omega
        · have := h3 (by omega); omega
      · have := h4 hp; omega
    | succ k =>
      obtain ⟨p', d', ht, hr'⟩ := appSafe_step hl bl e t p d s h hr
      simpa using ih p' d' _ ht hr' k

end Pk.Pack
