import PkVerif.Lemmas.BlobPackedPack
/-!
# Lemmas for C04, part 3: the `w:` rows a pack writes, and reading a whole file back from the zips
-/
namespace Pk.BP
open Pk Pk.SMap

def toPart (p : ZipRec) : WPart := ⟨p.idx, p.zr, p.ds, p.off, p.len⟩

theorem chain_idx : ∀ (zs : List ZipRec) (i o : Nat), Chain zs i o → ∀ p ∈ zs, i ≤ p.idx ∧ p.idx < i + zs.length
  | [], _, _, _, p, hp => by cases hp
  | q :: qs, i, o, hc, p, hp => by
    obtain ⟨c1, _, c3⟩ := hc
    cases hp with
    | head => simp; omega
    | tail _ hp' =>
      have := chain_idx qs (i + 1) _ c3 p hp'
      simp; omega

/-- the `w:` rows of `whole` while a pack that started without any is running: no final row, one part
row per stored zip (newest first) -/
def WInv (whole : Ref) (s : St) (zs : List ZipRec) : Prop :=
  get s.w whole = (match zs with
    | [] => none
    | _ :: _ => some ⟨none, (zs.map toPart).reverse⟩)

theorem setPart_fresh (p : WPart) (e : WEntry) (h : ∀ q ∈ e.parts, q.idx < p.idx) :
    setPart p (some e) = ⟨e.final, p :: e.parts⟩ := by
  simp only [setPart, WEntry.mk.injEq, List.cons.injEq, true_and]
  apply List.filter_eq_self.mpr
  intro q hq
  have := h q hq
  simp; omega

theorem packLoop_w {C : Ref → Bytes} (env : PackEnv) (nameOK : Bool) (tbl : List Chunk) (whole : Ref) (wsz : Nat) :
    ∀ (fuel : Nat) (s : St) (bud : Budget) (remain : List Ref) (n wbw : Nat) (trunc : Option Ref)
      (lays : List ZipLayout) (t o : Nat) (zs : List ZipRec),
      Inv C s → TblOK C s tbl → WInv whole s zs → Chain zs 0 0 → zs.length = n → sumLen zs = wbw →
      ((packLoop env nameOK tbl whole wsz fuel s bud remain n wbw trunc lays t o zs).ok = false →
        WInv whole (packLoop env nameOK tbl whole wsz fuel s bud remain n wbw trunc lays t o zs).s
          (packLoop env nameOK tbl whole wsz fuel s bud remain n wbw trunc lays t o zs).zips) ∧
      ((packLoop env nameOK tbl whole wsz fuel s bud remain n wbw trunc lays t o zs).ok = true →
        get (packLoop env nameOK tbl whole wsz fuel s bud remain n wbw trunc lays t o zs).s.w whole =
          some ⟨some (wsz, (packLoop env nameOK tbl whole wsz fuel s bud remain n wbw trunc lays t o zs).zips.length),
            ((packLoop env nameOK tbl whole wsz fuel s bud remain n wbw trunc lays t o zs).zips.map toPart).reverse⟩)
  | 0, s, bud, remain, n, wbw, trunc, lays, t, o, zs, _, _, hw, _, _, _ => by
    simp only [packLoop]
    exact ⟨fun _ => hw, fun hh => by cases hh⟩
  | fuel + 1, s, bud, remain, n, wbw, trunc, lays, t, o, zs, h, ht, hw, hc, hn, hsum => by
    unfold packLoop
    split
    · split
      · refine ⟨(fun hh => nomatch hh), fun _ => ?_⟩
        simp only [setWhole, get_ins_self]
        unfold WInv at hw
        rw [hw, hn]
        cases zs with
        | nil => simp
        | cons q qs => simp
      · exact ⟨fun _ => hw, fun hh => by cases hh⟩
    · have hs := writeAZip_sound (C := C) env nameOK tbl whole wsz s bud remain n wbw trunc lays.head? h ht
      simp only
      split
      · rename_i s' bud' heq
        obtain ⟨_, ew, _, _⟩ := writeAZip_fail_mono env nameOK tbl whole wsz s bud remain n wbw trunc lays.head? s' bud' heq
        refine ⟨fun _ => ?_, fun hh => by cases hh⟩
        unfold WInv; rw [ew]; exact hw
      · exact packLoop_w env nameOK tbl whole wsz fuel s bud remain n wbw _ _ _ _ zs h ht hw hc hn hsum
      · rename_i s' bud' zr k len ds zsz heq
        rw [heq] at hs
        have sf := writeAZip_stored (C := C) env nameOK tbl whole wsz s bud remain n wbw trunc lays.head? h ht s' bud' zr k len ds zsz heq
        obtain ⟨⟨l, f, e1, e0, _, e2, e3, _, _, _, _, _, _, _, hww, _, _, _⟩, _⟩ := sf
        refine packLoop_w env nameOK tbl whole wsz fuel s' bud' (remain.drop k) (n + 1) (wbw + len) none
          lays.tail t _ (zs ++ [(⟨zr, wbw, n, len, ds, zsz⟩ : ZipRec)]) hs.1 (ht.sameView hs.2) ?_
          (chain_snoc zs 0 0 _ hc (by simp [hn]) (by simp [hsum])) (by simp [hn])
          (by rw [sumLen_append, hsum]; simp [sumLen])
        -- the w rows after the meta batch of this zip
        unfold WInv
        rw [hww]
        simp only [commitZip, buildZip, get_ins_self]
        unfold WInv at hw
        rw [hw]
        have hlen : (concatData f.written).length = len := e3.symm
        cases zs with
        | nil =>
          simp only [List.length_nil] at hn
          simp [setPart, toPart, ← hn, e0, hlen]
        | cons q qs =>
          simp only
          rw [setPart_fresh]
          · simp [toPart, e0, hlen]
          · intro p hp
            simp only [List.mem_reverse, List.mem_map] at hp
            obtain ⟨r, hr, rfl⟩ := hp
            have := (chain_idx _ 0 0 hc r hr).2
            simp only [toPart]
            omega

/-! ## sorting the part rows -/

theorem insertPart_last (x : WPart) : ∀ (l : List WPart), (∀ y ∈ l, y.idx < x.idx) → insertPart x l = l ++ [x]
  | [], _ => rfl
  | y :: ys, h => by
    have hy := h y (by simp)
    simp only [insertPart, show ¬ x.idx ≤ y.idx by omega, if_false, List.cons_append]
    rw [insertPart_last x ys (fun z hz => h z (List.mem_cons_of_mem _ hz))]

theorem mem_sortParts (x : WPart) : ∀ (l : List WPart), x ∈ sortParts l ↔ x ∈ l := by
  have hins : ∀ (a : WPart) (l : List WPart), x ∈ insertPart a l ↔ x = a ∨ x ∈ l := by
    intro a l
    induction l with
    | nil => simp [insertPart]
    | cons y ys ih =>
      simp only [insertPart]
      split
      · simp
      · simp only [List.mem_cons, ih]
        constructor
        · rintro (h | h | h)
          · exact Or.inr (Or.inl h)
          · exact Or.inl h
          · exact Or.inr (Or.inr h)
        · rintro (h | h | h)
          · exact Or.inr (Or.inl h)
          · exact Or.inl h
          · exact Or.inr (Or.inr h)
  intro l
  induction l with
  | nil => simp [sortParts]
  | cons a as ih => simp [sortParts, hins, ih]

theorem sortParts_snoc_min (x : WPart) : ∀ (a : List WPart), (∀ y ∈ a, x.idx < y.idx) →
    sortParts (a ++ [x]) = x :: sortParts a
  | [], _ => rfl
  | y :: ys, h => by
    have hy := h y (by simp)
    simp only [List.cons_append, sortParts]
    rw [sortParts_snoc_min x ys (fun z hz => h z (List.mem_cons_of_mem _ hz))]
    simp only [insertPart, show ¬ y.idx ≤ x.idx by omega, if_false]

/-- the part rows of a running/complete pack (stored newest first) sort back into zip order -/
theorem sortParts_reverse_chain : ∀ (zs : List ZipRec) (i o : Nat), Chain zs i o →
    sortParts (zs.map toPart).reverse = zs.map toPart
  | [], _, _, _ => rfl
  | q :: qs, i, o, hc => by
    obtain ⟨c1, _, c3⟩ := hc
    simp only [List.map_cons, List.reverse_cons]
    rw [sortParts_snoc_min, sortParts_reverse_chain qs (i + 1) _ c3]
    intro y hy
    simp only [List.mem_reverse, List.mem_map] at hy
    obtain ⟨r, hr, rfl⟩ := hy
    have := (chain_idx qs (i + 1) _ c3 r hr).1
    simp only [toPart]
    omega

theorem contiguous_chain : ∀ (zs : List ZipRec) (i o : Nat), Chain zs i o → contiguous (zs.map toPart) i = true
  | [], _, _, _ => rfl
  | q :: qs, i, o, hc => by
    obtain ⟨c1, _, c3⟩ := hc
    simp only [List.map_cons, contiguous, toPart, c1, beq_self_eq_true, Bool.true_and]
    exact contiguous_chain qs (i + 1) _ c3

/-! ## reading the parts -/

/-- the part row is backed by bytes `B` in `large`: every sub-range of it reads as the sub-slice -/
def Backed (s : St) (p : WPart) (B : Bytes) : Prop :=
  B.length = p.len ∧ ∃ z, get s.large p.zip = some z ∧
    ∀ o n, o + n ≤ p.len → z.read (p.zipOff + o) n = some (slice B o n)

def BackedL (s : St) : List WPart → List Bytes → Prop
  | [], [] => True
  | p :: ps, B :: Bs => Backed s p B ∧ BackedL s ps Bs
  | _, _ => False

theorem readParts_backed (s : St) : ∀ (ps : List WPart) (Bs : List Bytes), BackedL s ps Bs →
    ∀ (acc : Bytes) (extra : Nat), extra = 0 ∨ ps ≠ [] →
      (readParts s ps (Bs.flatten.length) acc) = (.ok 0 [], acc ++ Bs.flatten)
  | [], [], _, acc, _, _ => by simp [readParts]
  | [], _ :: _, h, _, _, _ => by cases h
  | _ :: _, [], h, _, _, _ => by cases h
  | p :: ps, B :: Bs, h, acc, _, _ => by
    obtain ⟨⟨hl, z, hz, hr⟩, hrest⟩ := h
    cases hn : (B :: Bs).flatten.length with
    | zero =>
      -- nothing remains to be read: every remaining part is empty
      have hB : B = [] := by
        simp only [List.flatten_cons, List.length_append] at hn
        exact List.eq_nil_of_length_eq_zero (by omega)
      have hBs : Bs.flatten = [] := by
        simp only [List.flatten_cons, List.length_append] at hn
        exact List.eq_nil_of_length_eq_zero (by omega)
      simp [readParts, hB, hBs]
    | succ m =>
      have hread := hr 0 p.len (by omega)
      simp only [Nat.add_zero] at hread
      have hsl : slice B 0 p.len = B := by rw [← hl]; simp [slice]
      simp only [readParts, hz, hread, hsl]
      have : m + 1 - B.length = Bs.flatten.length := by
        simp only [List.flatten_cons, List.length_append] at hn; omega
      rw [this, readParts_backed s ps Bs hrest (acc ++ B) 0 (Or.inl rfl)]
      simp

theorem skipParts_backed (s : St) : ∀ (ps : List WPart) (Bs : List Bytes) (off : Nat), BackedL s ps Bs →
    ∃ Bs', BackedL s (skipParts ps off) Bs' ∧ Bs'.flatten = Bs.flatten.drop off
  | [], [], _, _ => ⟨[], trivial, by simp⟩
  | [], _ :: _, _, h => by cases h
  | _ :: _, [], _, h => by cases h
  | p :: ps, B :: Bs, off, h => by
    obtain ⟨⟨hl, z, hz, hr⟩, hrest⟩ := h
    simp only [skipParts]
    split
    · rename_i hge
      obtain ⟨Bs', hb, he⟩ := skipParts_backed s ps Bs (off - p.len) hrest
      refine ⟨Bs', hb, ?_⟩
      rw [he, List.flatten_cons, List.drop_append, hl]
      have : B.drop off = [] := List.drop_eq_nil_of_le (by omega)
      simp [this]
    · split
      · rename_i hlt hpos
        refine ⟨B.drop off :: Bs, ⟨⟨by simp [hl], z, hz, ?_⟩, hrest⟩, ?_⟩
        · intro o n hon
          simp only at hon ⊢
          have := hr (off + o) n (by omega)
          rw [← Nat.add_assoc] at this
          rw [this]
          simp [slice, List.drop_drop]
        · rw [List.flatten_cons, List.flatten_cons, List.drop_append]
          have : off - B.length = 0 := by omega
          simp [this]
      · rename_i hlt hpos
        have : off = 0 := by omega
        subst this
        exact ⟨B :: Bs, ⟨⟨hl, z, hz, hr⟩, hrest⟩, by simp⟩

/-- a good zip backs its part row with its data -/
theorem goodZip_backed {C : Ref → Bytes} {zipMax : Nat} {allBytes : Bytes} {whole : Ref} {wsz : Nat} {s : St}
    {p : ZipRec} (h : GoodZip C zipMax allBytes whole wsz s p) :
    Backed s (toPart p) (slice allBytes p.off p.len) := by
  obtain ⟨z, hz, _, _, _, _, _, hds, _, hlen, hb, hdata, _⟩ := h
  refine ⟨by rw [← hdata]; exact hlen, z, hz, ?_⟩
  intro o n hon
  simp only [toPart] at hon ⊢
  rw [← hds, Zip.read_data z _ _ (by omega) (by omega), ← hdata]
  congr 2; omega

theorem backedL_chain {C : Ref → Bytes} {zipMax : Nat} {allBytes : Bytes} {whole : Ref} {wsz : Nat} {s : St} :
    ∀ (zs : List ZipRec), (∀ p ∈ zs, GoodZip C zipMax allBytes whole wsz s p) →
      BackedL s (zs.map toPart) (zs.map (fun p => slice allBytes p.off p.len))
  | [], _ => trivial
  | q :: qs, h => ⟨goodZip_backed (h q (by simp)), backedL_chain qs (fun p hp => h p (List.mem_cons_of_mem _ hp))⟩

/-- the slices of a chain, concatenated, are the bytes from the chain's start to its end -/
theorem chain_flatten (allBytes : Bytes) : ∀ (zs : List ZipRec) (i o : Nat), Chain zs i o →
    o + sumLen zs ≤ allBytes.length →
    (zs.map (fun p => slice allBytes p.off p.len)).flatten = slice allBytes o (sumLen zs)
  | [], _, o, _, _ => by simp [sumLen, slice]
  | q :: qs, i, o, hc, hle => by
    obtain ⟨_, c2, c3⟩ := hc
    simp only [sumLen] at hle ⊢
    simp only [List.map_cons, List.flatten_cons]
    rw [chain_flatten allBytes qs (i + 1) (o + q.len) c3 (by omega), c2]
    simp only [slice]
    rw [← List.drop_drop, ← List.take_append_drop q.len (List.drop o allBytes)]
    simp only [List.take_append_drop]
    rw [List.take_add]

/-- **reading a completely packed file back**: with the `w:` rows a complete pack wrote and its zips
in `large`, `OpenWholeRef(whole, off)` delivers the file's bytes from `off` on, for every offset -/
theorem openWholeRef_of_pack {C : Ref → Bytes} {zipMax : Nat} (s' : St) (whole : Ref) (wsz : Nat)
    (zs : List ZipRec) (allBytes : Bytes)
    (hw : get s'.w whole = some ⟨some (wsz, zs.length), (zs.map toPart).reverse⟩)
    (hg : ∀ p ∈ zs, GoodZip C zipMax allBytes whole wsz s' p) (hc : Chain zs 0 0)
    (hsum : sumLen zs = allBytes.length) (hwsz : wsz = allBytes.length) (off : Nat) :
    openWholeRef s' whole off = .ok wsz (allBytes.drop off) := by
  unfold openWholeRef
  rw [hw]
  simp only [List.length_reverse, List.length_map, ne_eq, not_true_eq_false, if_false]
  rw [sortParts_reverse_chain zs 0 0 hc, contiguous_chain zs 0 0 hc]
  simp only [Bool.not_true, Bool.false_eq_true, if_false]
  have hb := backedL_chain (C := C) (zipMax := zipMax) (allBytes := allBytes) (whole := whole) (wsz := wsz) (s := s') zs hg
  obtain ⟨Bs', hb', he⟩ := skipParts_backed s' _ _ off hb
  have hfl := chain_flatten allBytes zs 0 0 hc (by omega)
  rw [hfl, hsum] at he
  have hall : slice allBytes 0 allBytes.length = allBytes := by simp [slice]
  rw [hall] at he
  have hlen : wsz - off = Bs'.flatten.length := by rw [he, List.length_drop, hwsz]
  rw [hlen, readParts_backed s' _ Bs' hb' [] 0 (Or.inl rfl)]
  simp [he]

theorem packFile_w {C : Ref → Bytes} (env : PackEnv) (s : St) (bud : Budget) (fileRef : Ref)
    (lays : List ZipLayout) (fuel : Nat) (h : Inv C s) (W : Bytes) (hW : fileBytes env.K s fileRef = some W)
    (hfresh : get s.w (env.H W) = none) (hok : (packFile env s bud fileRef lays fuel).ok = true) :
    get (packFile env s bud fileRef lays fuel).s.w (env.H W) =
      some ⟨some (W.length, (packFile env s bud fileRef lays fuel).zips.length),
        ((packFile env s bud fileRef lays fuel).zips.map toPart).reverse⟩ := by
  have hfp : ∃ v parts, fetch s fileRef = .ok v ∧ (env.K fileRef).parts? = some parts := by
    unfold packFile at hok
    simp only at hok
    split at hok
    · rename_i v parts hv hk; exact ⟨v, parts, hv, hk⟩
    · cases hok
  obtain ⟨v, parts, hv, hk⟩ := hfp
  have hW' : denoteParts env.K s scanFuel parts = some W := by
    unfold fileBytes at hW; rw [hk] at hW; exact hW
  cases htbl : scanParts env.K s scanFuel [(fileRef, v)] parts with
  | none =>
    unfold packFile at hok
    simp only [hv, hk, htbl] at hok
    cases hok
  | some tbl =>
    obtain ⟨hpv, hvv⟩ := fetch_ok h hv
    have hpath : PairsOK C s [(fileRef, v)] := by
      intro q hq; simp only [List.mem_singleton] at hq; subst hq; exact ⟨hvv, hpv⟩
    have hpf : packFile env s bud fileRef lays fuel =
        packLoop env (match env.K fileRef with | .file n _ => n | _ => true) tbl (env.H W) W.length fuel s bud
          (tbl.map (·.ref)) 0 0 none lays 0 0 [] := by
      unfold packFile
      simp only [hv, hk, htbl, hW', hfresh, Option.bind_none]
      rfl
    rw [hpf] at hok ⊢
    exact (packLoop_w (C := C) env _ tbl (env.H W) W.length fuel s bud _ 0 0 none lays 0 0 [] h
      (scanParts_ok h env.K scanFuel _ parts tbl hpath htbl) hfresh trivial rfl rfl).2 hok

end Pk.BP
