import PkVerif.Model.Ref
/-! Helper lemmas for C20 (pkg/blob/ref.go). -/
namespace Pk.Ref

theorem splitDash_spec : ∀ (s n h : Bytes), splitDash s = some (n, h) → s = n ++ 45 :: h ∧ 45 ∉ n
  | [], n, h, hs => by simp [splitDash] at hs
  | c :: cs, n, h, hs => by
    unfold splitDash at hs
    by_cases hc : c = 45
    · simp [hc] at hs; obtain ⟨h1, h2⟩ := hs; subst h1 h2 hc; simp
    · simp only [hc, if_false] at hs
      cases hr : splitDash cs with
      | none => simp [hr] at hs
      | some p =>
        obtain ⟨n', h'⟩ := p
        simp [hr] at hs
        obtain ⟨h1, h2⟩ := hs
        subst h1 h2
        obtain ⟨e, hn⟩ := splitDash_spec cs n' h' hr
        refine ⟨by simp [e], ?_⟩
        intro hm
        cases hm with
        | head => exact hc rfl
        | tail _ hm' => exact hn hm'

theorem splitDash_append (n h : Bytes) (hn : 45 ∉ n) : splitDash (n ++ 45 :: h) = some (n, h) := by
  induction n with
  | nil => simp [splitDash]
  | cons c cs ih =>
    have hc : c ≠ 45 := by intro e; apply hn; simp [e]
    have : 45 ∉ cs := by intro e; apply hn; simp [e]
    simp [splitDash, hc, ih this]

theorem isNameChar_gt (c : Nat) (h : isNameChar c = true) : 45 < c := by
  unfold isNameChar at h
  simp at h
  omega

theorem validName_no_dash (n : Bytes) (h : validDigestName n = true) : 45 ∉ n := by
  unfold validDigestName at h
  simp only [Bool.and_eq_true, List.all_eq_true] at h
  intro hm
  have := isNameChar_gt 45 (h.2 45 hm)
  omega

theorem validName_all_gt (n : Bytes) (h : validDigestName n = true) : ∀ c ∈ n, 45 < c := by
  unfold validDigestName at h
  simp only [Bool.and_eq_true, List.all_eq_true] at h
  intro c hc
  exact isNameChar_gt c (h.2 c hc)

theorem size?_mem (t : Tbl) (name : Bytes) (sz : Nat) (h : t.size? name = some sz) :
    (name, sz) ∈ t.sizes := by
  unfold Tbl.size? at h
  cases hf : t.sizes.find? (fun p => p.1 == name) with
  | none => simp [hf] at h
  | some p =>
    simp [hf] at h
    have hm := List.mem_of_find?_eq_some hf
    have hp := List.find?_some hf
    simp at hp
    obtain ⟨a, b⟩ := p
    simp at hp h
    subst hp h
    exact hm

theorem known_name_valid (t : Tbl) (ht : t.WF) (name : Bytes) (sz : Nat) (h : t.size? name = some sz) :
    validDigestName name = true ∧ 1 ≤ sz := ht _ (size?_mem t name sz h)

/-- names made only of characters above `-`: comparing `n1-…` with `n2-…` is comparing the names -/
theorem ltB_names : ∀ (n1 n2 x y : Bytes), (∀ c ∈ n1, 45 < c) → (∀ c ∈ n2, 45 < c) → n1 ≠ n2 →
    ltB (n1 ++ 45 :: x) (n2 ++ 45 :: y) = ltB n1 n2
  | [], [], _, _, _, _, hne => by simp at hne
  | [], c :: cs, x, y, _, h2, _ => by
    have : 45 < c := h2 c (by simp)
    simp [ltB, this]
  | c :: cs, [], x, y, h1, _, _ => by
    have : 45 < c := h1 c (by simp)
    have h' : ¬ c < 45 := by omega
    simp [ltB, this, h']
  | c :: cs, d :: ds, x, y, h1, h2, hne => by
    simp only [List.cons_append, ltB]
    by_cases hcd : c < d
    · simp [hcd]
    · by_cases hdc : d < c
      · simp [hcd, hdc]
      · have : c = d := by omega
        subst this
        simp only [Nat.lt_irrefl, if_false]
        exact ltB_names cs ds x y (fun z hz => h1 z (by simp [hz])) (fun z hz => h2 z (by simp [hz]))
          (by intro e; apply hne; simp [e])

theorem dropLast_append_singleton (l : Bytes) (x : Nat) : (l ++ [x]).dropLast = l := by
  simp

/-- the digit loop of the fixed-size `equalString`: on a string of exactly the right length it decides
equality with the hex text and never indexes out of range -/
theorem eqLoop_spec : ∀ (sum rest : Bytes), rest.length = 2 * sum.length →
    eqLoop sum rest = some (decide (rest = hexEnc sum))
  | [], rest, h => by
    have : rest = [] := by cases rest <;> simp_all
    subst this; simp [eqLoop, hexEnc]
  | b :: bs, [], h => by simp at h
  | b :: bs, [_], h => by simp at h <;> omega
  | b :: bs, c1 :: c2 :: rest, h => by
    have hl : rest.length = 2 * bs.length := by simp at h; omega
    simp only [eqLoop, hexEnc]
    by_cases h1 : c1 = hexDigit (b / 16)
    · by_cases h2 : c2 = hexDigit (b % 16)
      · subst h1 h2
        simp [eqLoop_spec bs rest hl]
      · simp [h1, h2]
    · simp [h1]

theorem prefixLoop_spec : ∀ (sum rest : Bytes), rest.length ≤ 2 * sum.length →
    prefixLoop sum rest = rest.isPrefixOf (hexEnc sum)
  | [], rest, h => by
    have : rest = [] := by cases rest <;> simp_all
    subst this; simp [prefixLoop, hexEnc]
  | b :: bs, [], _ => by simp [prefixLoop]
  | b :: bs, [c1], _ => by simp [prefixLoop, hexEnc, List.isPrefixOf]
  | b :: bs, c1 :: c2 :: rest, h => by
    have hl : rest.length ≤ 2 * bs.length := by simp at h; omega
    simp only [prefixLoop, hexEnc, List.isPrefixOf]
    by_cases h1 : c1 = hexDigit (b / 16)
    · by_cases h2 : c2 = hexDigit (b % 16)
      · subst h1 h2
        simp [prefixLoop_spec bs rest hl]
      · simp [h1, h2]
    · simp [h1]

theorem cutPrefix_some (p s r : Bytes) (h : cutPrefix p s = some r) : s = p ++ r := by
  unfold cutPrefix at h
  split at h
  · rename_i hp
    injection h with h
    subst h
    have := List.isPrefixOf_iff_prefix.mp hp
    obtain ⟨t, ht⟩ := this
    subst ht
    simp
  · cases h

theorem cutPrefix_none (p s : Bytes) (h : cutPrefix p s = none) : ¬ p <+: s := by
  unfold cutPrefix at h
  split at h
  · cases h
  · rename_i hp
    intro hpre
    exact hp (List.isPrefixOf_iff_prefix.mpr hpre)

/-- what `parseUnknown` returns, spelled out -/
theorem parseUnknown_spec (t : Tbl) (name hex : Bytes) (r : Ref) (h : parseUnknown t name hex = some r) :
    validDigestName name = true ∧ r.name = name ∧
    ((hex.length % 2 = 0 ∧ r.odd = false ∧ hexDec hex = some r.sum ∧ 2 ≤ hex.length ∧ hex.length ≤ t.maxOther * 2) ∨
     (hex.length % 2 = 1 ∧ r.odd = true ∧ hexDec (hex ++ [48]) = some r.sum ∧ hex.length + 1 ≤ t.maxOther * 2)) := by
  unfold parseUnknown at h
  by_cases hv : validDigestName name = true
  · simp only [hv, Bool.not_true, Bool.false_eq_true, if_false] at h
    refine ⟨hv, ?_⟩
    by_cases hodd : hex.length % 2 = 0
    · have hb : (hex.length % 2 != 0) = false := by simp [hodd]
      simp only [hb, Bool.false_eq_true, if_false] at h
      split at h
      · cases h
      · rename_i hlen
        cases hd : hexDec hex with
        | none => simp [hd] at h
        | some sum =>
          simp only [hd] at h
          injection h with h; subst h
          simp at hlen
          exact ⟨rfl, Or.inl ⟨hodd, rfl, rfl, by omega, by omega⟩⟩
    · have hb : (hex.length % 2 != 0) = true := by simp; omega
      simp only [hb, if_true] at h
      split at h
      · cases h
      · rename_i hlen
        cases hd : hexDec (hex ++ [48]) with
        | none => simp [hd] at h
        | some sum =>
          simp only [hd] at h
          injection h with h; subst h
          simp at hlen
          exact ⟨rfl, Or.inr ⟨by omega, rfl, rfl, by omega⟩⟩
  · simp [hv] at h

theorem isPrefixOf_append_left (p a b : Bytes) : (p ++ a).isPrefixOf (p ++ b) = a.isPrefixOf b := by
  induction p with
  | nil => rfl
  | cons x xs ih => simp [List.isPrefixOf, ih]

theorem indexDash_append (n h : Bytes) (hn : 45 ∉ n) : indexDash (n ++ 45 :: h) = some n.length := by
  induction n with
  | nil => simp [indexDash]
  | cons c cs ih =>
    have hc : c ≠ 45 := by intro e; apply hn; simp [e]
    have : 45 ∉ cs := by intro e; apply hn; simp [e]
    simp [indexDash, hc, ih this]

theorem toText_known (r : Ref) (h : r.odd = false) : toText r = r.name ++ 45 :: hexEnc r.sum := by
  simp [toText, h]

end Pk.Ref
