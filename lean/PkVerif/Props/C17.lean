import PkVerif.Lemmas.Share
import PkVerif.Gen.C17
/-!
# C17 – without credentials, blobs are reachable only through a valid share chain

Property theorems only.  `Pk.Share.handleGetViaSharing` / `bytesHaveSchemaLink` model
pkg/server/share.go (after the repair of F-C17-1), `Pk.Share.ValidChain` / `Link`
(PkVerif/Spec/Share.lean) are the specification.  All theorems of the first part hold for **every**
store (any graph, cyclic or dangling ones included), every deletion lookup, every clock, and every
request chain of any length.  The second part is about the regenerated guard tables of
pkg/serverinit/serverinit.go (`Pk.Gen`, group C17).
-/
namespace Pk.Share

/-! ## a concrete world for the non-vacuity examples -/

/-- `1` transitive share of directory `2`; `2` directory with entries `3`; `3` a large static set
whose members live in the sub-set `4` (`mergeSets`); `4` static set with member `5`; `5` file with
parts `6` (a raw blob that mentions `9`); `7` non-transitive share of `5`; `8` expired share;
`9` a secret raw blob; `10` a claim that merely mentions `9`; `11` transitive share of `10` -/
def exStore : Store := fun r =>
  match r with
  | 1 => some ⟨.share (some 2) true none, []⟩
  | 2 => some ⟨.directory 3, [9]⟩
  | 3 => some ⟨.staticSet [] [4], []⟩
  | 4 => some ⟨.staticSet [5] [], []⟩
  | 5 => some ⟨.file [6], []⟩
  | 6 => some ⟨.raw [9], []⟩
  | 7 => some ⟨.share (some 5) false (some 2000), []⟩
  | 8 => some ⟨.share (some 5) true (some 500), []⟩
  | 9 => some ⟨.raw [], []⟩
  | 10 => some ⟨.other [9], []⟩
  | 11 => some ⟨.share (some 10) true none, []⟩
  | _ => none

/-- nothing deleted except share `12` (which does not even exist) -/
def exEnv : Env := ⟨exStore, fun r => r == 12, 1000⟩

/-! ## soundness: whatever is served was asked for through a valid chain -/

/-- **Soundness.** If a request to the share handler obtains the contents of a blob `r` (plain or
assembled), then the method was GET/HEAD, every `via` element was a well-formed ref, `r` is the
requested blob, and the request's chain `via ++ [blobRef]` is a `ValidChain`: it starts at an
existing, undeleted, unexpired share claim and asks for the claim itself, or hops to exactly its
target and (transitive shares only) continues through genuine schema links. -/
theorem C17_sound (e : Env) (isGet : Bool) (via : List (Option Ref)) (blobRef : Ref)
    (assemble : Bool) (r : Ref)
    (h : (handleGetViaSharing e isGet via blobRef assemble).served = some r) :
    isGet = true ∧ r = blobRef ∧
      ∃ vb, via = vb.map some ∧ ValidChain e (vb ++ [blobRef]) := by
  unfold handleGetViaSharing handleWith at h
  cases hg : isGet with
  | false => simp [hg, Outcome.served] at h
  | true =>
    simp only [hg] at h
    cases hp : parseVia via with
    | none => simp [hp, Outcome.served] at h
    | some vb =>
      simp only [hp] at h
      cases hv : validateWith bytesHaveSchemaLink e (chainHead vb blobRef) (chainTail vb blobRef) with
      | error c => simp [hv, Outcome.served] at h
      | ok tr =>
        simp only [hv] at h
        have hvalid := validateWith_ok_sound bytesHaveSchemaLink
          (fun s t => (bytesHaveSchemaLink_iff s t).1) e _ _ tr hv
        have hr : r = blobRef := by
          unfold finish at h
          cases assemble <;> cases tr <;> simp_all [Outcome.served]
        refine ⟨rfl, hr, vb, parseVia_some via vb hp, ?_⟩
        rw [chain_split]
        exact (validChain_iff_validFrom e _ _).2 ⟨tr, hvalid⟩

example : (handleGetViaSharing exEnv true [some 1, some 2, some 3, some 4, some 5] 6 false).served = some 6 := by
  decide

/-- an assembled file (`assemble=1`, served by the download handler, which reads the blobs the file
links to) is only served for a chain that starts at a *transitive* share … -/
theorem C17_assemble_sound (e : Env) (isGet : Bool) (via : List (Option Ref)) (blobRef r : Ref)
    (h : handleGetViaSharing e isGet via blobRef true = .serveFile r) :
    ∃ vb, via = vb.map some ∧ ValidChain e (vb ++ [blobRef]) ∧ StartsTransitive e (vb ++ [blobRef]) := by
  have hs := C17_sound e isGet via blobRef true r (by rw [h]; rfl)
  obtain ⟨_, _, vb, hvia, hvalid⟩ := hs
  refine ⟨vb, hvia, hvalid, ?_⟩
  unfold handleGetViaSharing handleWith at h
  cases hg : isGet with
  | false => simp [hg] at h
  | true =>
    have hp : parseVia via = some vb := by rw [hvia]; exact parseVia_map_some vb
    simp only [hg, hp] at h
    cases hv : validateWith bytesHaveSchemaLink e (chainHead vb blobRef) (chainTail vb blobRef) with
    | error c => simp [hv] at h
    | ok tr =>
      simp only [hv] at h
      cases tr with
      | false => simp [finish] at h
      | true =>
        obtain ⟨s0, tgt, exp, hs0, hb, _⟩ := validateWith_ok_sound bytesHaveSchemaLink
          (fun s t => (bytesHaveSchemaLink_iff s t).1) e _ _ true hv
        rw [chain_split]
        exact ⟨s0, tgt, exp, hs0, hb⟩

example : handleGetViaSharing exEnv true [some 1, some 2, some 3, some 4] 5 true = .serveFile 5 := by decide

/-- … and everything such a file links to is itself reachable by a valid chain: a valid chain of
length ≥ 2 from a transitive share extends along every genuine link of its last blob -/
theorem C17_transitive_extends (e : Env) (c0 c1 : Ref) (more : List Ref) (b : Ref)
    (hv : ValidChain e (c0 :: c1 :: more)) (ht : StartsTransitive e (c0 :: c1 :: more))
    (hl : Link e.store ((c1 :: more).getLast (by simp)) b) :
    ValidChain e (c0 :: c1 :: (more ++ [b])) := by
  obtain ⟨s0, tgt, tr, exp, hs, hb, hd, hu, hrest⟩ := hv
  obtain ⟨s0', tgt', exp', hs', hb'⟩ := ht
  rw [hs] at hs'; cases hs'
  rw [hb] at hb'; cases hb'
  refine ⟨s0, tgt, true, exp, hs, hb, hd, hu, Or.inr ⟨c1, more ++ [b], rfl, ?_, Or.inr ⟨rfl, ?_⟩⟩⟩
  · rcases hrest with h | ⟨c1', more', h, ht', _⟩
    · cases h
    · cases h; exact ht'
  · rw [linkPath_append]
    refine ⟨?_, hl⟩
    rcases hrest with h | ⟨c1', more', h, _, hm⟩
    · cases h
    · cases h
      rcases hm with rfl | ⟨_, hp⟩
      · simp [LinkPath]
      · exact hp

/-! ## completeness: every blob reachable through a valid chain is served -/

/-- **Completeness.** Every GET/HEAD request whose chain is a `ValidChain` is handed to
`ServeBlobRef` for the requested blob – for chains of any length and any kind of genuine link,
`mergeSets` sub-sets of large static sets included (that hop was refused before the repair:
`C17_old_mergeSets_counterexample`). -/
theorem C17_complete (e : Env) (vb : List Ref) (blobRef : Ref)
    (h : ValidChain e (vb ++ [blobRef])) :
    handleGetViaSharing e true (vb.map some) blobRef false = .serveBlob blobRef := by
  rw [chain_split] at h
  obtain ⟨tr, hvf⟩ := (validChain_iff_validFrom e _ _).1 h
  have hv := validateWith_ok_complete bytesHaveSchemaLink bytesHaveSchemaLink_iff e _ _ tr hvf
  unfold handleGetViaSharing handleWith
  simp [parseVia_map_some, hv, finish]

/-- the hypothesis of `C17_complete` is satisfiable by a five-hop chain through a directory, a
merge set, a static set and a file -/
example : ValidChain exEnv ([1, 2, 3, 4, 5] ++ [6]) := by
  refine ⟨⟨.share (some 2) true none, []⟩, some 2, true, none, rfl, rfl, rfl, by simp [Unexpired], ?_⟩
  refine Or.inr ⟨2, [3, 4, 5, 6], rfl, rfl, Or.inr ⟨rfl, ?_⟩⟩
  exact ⟨⟨⟨.directory 3, [9]⟩, rfl, by simp [links]⟩, ⟨⟨.staticSet [] [4], []⟩, rfl, by simp [links]⟩,
    ⟨⟨.staticSet [5] [], []⟩, rfl, by simp [links]⟩, ⟨⟨.file [6], []⟩, rfl, by simp [links]⟩, trivial⟩

/-- completeness for assembled downloads: a valid chain from a transitive share -/
theorem C17_complete_assemble (e : Env) (vb : List Ref) (blobRef : Ref)
    (h : ValidChain e (vb ++ [blobRef])) (ht : StartsTransitive e (vb ++ [blobRef])) :
    handleGetViaSharing e true (vb.map some) blobRef true = .serveFile blobRef := by
  rw [chain_split] at h ht
  obtain ⟨tr, hvf⟩ := (validChain_iff_validFrom e _ _).1 h
  obtain ⟨s0, tgt, exp, hs, hb⟩ := ht
  obtain ⟨s0', tgt', exp', hs', hb', _⟩ := hvf
  have htr : tr = true := by
    rw [hs] at hs'; cases hs'
    rw [hb] at hb'; cases hb'; rfl
  subst htr
  have hv := validateWith_ok_complete bytesHaveSchemaLink bytesHaveSchemaLink_iff e _ _ true
    ((validChain_iff_validFrom e _ _).1 h |>.elim (fun tr' hvf' => by
      obtain ⟨s1, t1, e1, hs1, hb1, rest⟩ := hvf'
      rw [hs] at hs1; cases hs1
      rw [hb] at hb1; cases hb1
      exact ⟨s0, tgt, exp, hs, hb, rest⟩))
  unfold handleGetViaSharing handleWith
  simp [parseVia_map_some, hv, finish]

/-- **The HTTP view of both directions.** A request that is not an `assemble` request is answered
`200` (by `ServeBlobRef`, with the bytes of the requested blob) if and only if it is a GET/HEAD
whose path and via elements are well-formed refs, whose chain is valid and whose requested blob
exists in the store. -/
theorem C17_status_200_iff (e : Env) (isGet : Bool) (path : Option Ref) (via : List (Option Ref)) :
    httpStatus e.store (serveHTTP e isGet path via false) = some 200 ↔
      isGet = true ∧ ∃ r vb, path = some r ∧ via = vb.map some ∧
        ValidChain e (vb ++ [r]) ∧ (e.store r).isSome = true := by
  constructor
  · intro h
    cases path with
    | none => simp [serveHTTP, httpStatus, ErrorCode.status] at h
    | some r =>
      simp only [serveHTTP] at h
      cases ho : handleGetViaSharing e isGet via r false with
      | refused c => rw [ho] at h; cases c <;> simp [httpStatus, ErrorCode.status] at h
      | serveFile r' => rw [ho] at h; simp [httpStatus] at h
      | serveBlob r' =>
        have hs := C17_sound e isGet via r false r' (by rw [ho]; rfl)
        obtain ⟨hg, hr, vb, hvia, hvalid⟩ := hs
        subst hr
        rw [ho] at h
        refine ⟨hg, r', vb, rfl, hvia, hvalid, ?_⟩
        simp only [httpStatus] at h
        by_cases hx : (e.store r').isSome = true
        · exact hx
        · simp [hx] at h
  · rintro ⟨rfl, r, vb, rfl, rfl, hvalid, hex⟩
    simp [serveHTTP, C17_complete e vb r hvalid, httpStatus, hex]

example : httpStatus exEnv.store (serveHTTP exEnv true (some 5) [some 7] false) = some 200 := by decide

/-- a refusal is a 400 or a 401 and never serves anything -/
theorem C17_refused_status (st : Store) (c : ErrorCode) :
    httpStatus st (.refused c) = some 400 ∨ httpStatus st (.refused c) = some 401 := by
  cases c <;> simp [httpStatus, ErrorCode.status]

/-! ## named consequences (each is an instance of soundness, stated on the request) -/

/-- the chain's first blob, for a well-formed request -/
theorem C17_deleted_share_refused (e : Env) (vb : List Ref) (blobRef : Ref) (assemble : Bool)
    (hd : e.deleted (chainHead vb blobRef) = true) :
    handleGetViaSharing e true (vb.map some) blobRef assemble = .refused .shareDeleted := by
  unfold handleGetViaSharing handleWith
  simp [parseVia_map_some, validateWith, hd]

example : handleGetViaSharing exEnv true ([12].map some) 5 false = .refused .shareDeleted := by decide

/-- an expired share serves nothing, not even itself -/
theorem C17_expired_share_refused (e : Env) (vb : List Ref) (blobRef : Ref) (assemble : Bool)
    (s0 : Stored) (tgt : Option Ref) (tr : Bool) (t : Nat)
    (hs : e.store (chainHead vb blobRef) = some s0) (hb : s0.blob = .share tgt tr (some t))
    (hexp : t < e.now) :
    (handleGetViaSharing e true (vb.map some) blobRef assemble).served = none := by
  cases hsv : (handleGetViaSharing e true (vb.map some) blobRef assemble).served with
  | none => rfl
  | some r =>
    obtain ⟨_, _, vb', hvia, hvalid⟩ := C17_sound e true _ blobRef assemble r hsv
    have : vb' = vb := by
      have := congrArg parseVia hvia
      rw [parseVia_map_some, parseVia_map_some] at this
      exact (Option.some.inj this).symm
    subst this
    rw [chain_split] at hvalid
    obtain ⟨s0', tgt', tr', exp', hs', hb', _, hun, _⟩ := hvalid
    rw [hs] at hs'; cases hs'
    rw [hb] at hb'; cases hb'
    have := hun t rfl
    omega

example : (handleGetViaSharing exEnv true [some 8] 5 false) = .refused .shareExpired := by decide

/-- a non-transitive share gives its target and nothing behind it -/
theorem C17_nontransitive_no_second_hop (e : Env) (c0 c1 c2 : Ref) (more : List Ref)
    (s0 : Stored) (tgt : Option Ref) (exp : Option Nat)
    (hs : e.store c0 = some s0) (hb : s0.blob = .share tgt false exp) :
    ¬ ValidChain e (c0 :: c1 :: c2 :: more) := by
  rintro ⟨s0', tgt', tr', exp', hs', hb', _, _, hrest⟩
  rw [hs] at hs'; cases hs'
  rw [hb] at hb'; cases hb'
  rcases hrest with h | ⟨_, _, h, _, hm⟩
  · cases h
  · cases h
    rcases hm with h | ⟨h, _⟩
    · cases h
    · cases h

example : handleGetViaSharing exEnv true [some 7, some 5] 6 false = .refused .shareNotTransitive := by decide

/-- a blob that merely mentions a ref (a claim's value, a raw blob's text, a share's target, a
non-link field) does not link to it: no valid chain hops out of such a blob -/
theorem C17_mention_is_not_link (st : Store) (a b : Ref) (s : Stored) (hs : st a = some s)
    (hk : (∃ ms, s.blob = .other ms) ∨ (∃ ms, s.blob = .raw ms) ∨ (∃ t tr ex, s.blob = .share t tr ex)) :
    ¬ Link st a b := by
  rintro ⟨s', hs', hm⟩
  rw [hs] at hs'; cases hs'
  rcases hk with ⟨ms, h⟩ | ⟨ms, h⟩ | ⟨t, tr, ex, h⟩ <;> simp [h, links] at hm

/-- … e.g. the transitive share `11` of claim `10`, which mentions the secret `9`; and directory `2`
that names `9` outside its `entries` -/
example : handleGetViaSharing exEnv true [some 11, some 10] 9 false = .refused .viaChainInvalidLink := by decide
example : handleGetViaSharing exEnv true [some 1, some 2] 9 false = .refused .viaChainInvalidLink := by decide

/-! ## the defect that was repaired (F-C17-1) -/

/-- before the repair `bytesHaveSchemaLink` looked at `members` of a static set only: the valid chain
share → directory → large static set → its sub-set was refused (401), i.e. a shared directory with
more than `maxStaticSetMembers` entries could not be fetched -/
theorem C17_old_mergeSets_counterexample :
    ValidChain exEnv ([1, 2, 3] ++ [4]) ∧
    handleGetViaSharingOld exEnv true ([1, 2, 3].map some) 4 false = .refused .viaChainInvalidLink ∧
    handleGetViaSharing exEnv true ([1, 2, 3].map some) 4 false = .serveBlob 4 := by
  refine ⟨?_, by decide, by decide⟩
  refine ⟨⟨.share (some 2) true none, []⟩, some 2, true, none, rfl, rfl, rfl, by simp [Unexpired], ?_⟩
  refine Or.inr ⟨2, [3, 4], rfl, rfl, Or.inr ⟨rfl, ?_⟩⟩
  refine ⟨⟨⟨.directory 3, [9]⟩, rfl, by simp [links]⟩, ⟨⟨.staticSet [] [4], []⟩, rfl, by simp [links]⟩, trivial⟩

/-- the old check was still sound: whatever it served was asked for through a valid chain -/
theorem C17_old_sound (e : Env) (isGet : Bool) (via : List (Option Ref)) (blobRef : Ref)
    (assemble : Bool) (r : Ref)
    (h : (handleGetViaSharingOld e isGet via blobRef assemble).served = some r) :
    ∃ vb, via = vb.map some ∧ ValidChain e (vb ++ [blobRef]) := by
  unfold handleGetViaSharingOld handleWith at h
  cases hg : isGet with
  | false => simp [hg, Outcome.served] at h
  | true =>
    simp only [hg] at h
    cases hp : parseVia via with
    | none => simp [hp, Outcome.served] at h
    | some vb =>
      simp only [hp] at h
      cases hv : validateWith bytesHaveSchemaLinkOld e (chainHead vb blobRef) (chainTail vb blobRef) with
      | error c => simp [hv, Outcome.served] at h
      | ok tr =>
        have hvalid := validateWith_ok_sound bytesHaveSchemaLinkOld bytesHaveSchemaLinkOld_sound e _ _ tr hv
        refine ⟨vb, parseVia_some via vb hp, ?_⟩
        rw [chain_split]
        exact (validChain_iff_validFrom e _ _).2 ⟨tr, hvalid⟩

/-! ## every other endpoint refuses unauthenticated requests -/

/-- handler types that `handlerTypeWantsAuth` deliberately leaves to guard themselves:
* `share` – the subject of the first part: serves only valid share chains;
* `root`  – pkg/server/root.go: discovery is served only if `auth.Allowed(r, OpDiscovery)`, everything
  else is a static landing page / redirect / 404 that reads no blob and no status;
* `app`   – pkg/server/app: a reverse proxy to an app process that enforces its own auth mode
  (`auth.AddMode(ap.AuthMode())`); its config / master-query / search endpoints check `a.auth`. -/
def selfGuarded : List String := ["share", "root", "app"]

/-- the hypothesis on the tables: every configurable handler type wants auth or is self-guarded -/
def TableCovers (authTypes handlerTypes : List String) : Prop :=
  ∀ t ∈ handlerTypes, t ∈ authTypes ∨ t ∈ selfGuarded

/-- whatever the configuration: for every storage and for every handler type of the table other than
the self-guarded ones, internal or not, a request without credentials does not get past what
`setupHandler` installs in front of it (401) -/
theorem C17_endpoints_guarded (authTypes handlerTypes : List String)
    (hc : TableCovers authTypes handlerTypes) (t : HType) (internal : Bool)
    (ht : match t with
          | .storage _ => True
          | .handler h => h ∈ handlerTypes ∧ h ∉ selfGuarded) :
    guardPasses (installedGuard authTypes t internal) false = some false := by
  cases t with
  | storage s => cases internal <;> simp [installedGuard, guardPasses]
  | handler h =>
    obtain ⟨hm, hn⟩ := ht
    have : h ∈ authTypes := (hc h hm).resolve_right hn
    cases internal <;> simp [installedGuard, guardPasses, this]

example : guardPasses (installedGuard Gen.authHandlerTypes (.handler "search") false) false = some false := by decide

/-- obligation on the regenerated tables: `handlerTypeWantsAuth` covers every registered handler type
except `share`, `root`, `app` -/
theorem C17_gen_table_covers : TableCovers Gen.authHandlerTypes Gen.handlerTypes := by
  unfold TableCovers; decide

/-- the guard that the running code installs, on the tables as they are in /repo -/
theorem C17_gen_endpoints_guarded (t : HType) (internal : Bool)
    (ht : match t with
          | .storage _ => True
          | .handler h => h ∈ Gen.handlerTypes ∧ h ∉ selfGuarded) :
    guardPasses (installedGuard Gen.authHandlerTypes t internal) false = some false :=
  C17_endpoints_guarded _ _ C17_gen_table_covers t internal ht

/-- the shape of `setupHandler` that `installedGuard` models: storages get `unauthorizedHandler{}`
(internal) or only `prefix+"camli/"` = `makeCamliHandler`; other handlers get
`unauthorizedHandler{}` (internal), else the `PrefixHandler`, wrapped in `auth.Handler` exactly
when `handlerTypeWantsAuth(h.htype)` -/
theorem C17_gen_setup_shape :
    Gen.storageTypePrefix = "storage-" ∧
    Gen.setupInstalls = [
      (["after, ok0 := strings.CutPrefix(h.htype, \"storage-\"); ok0", "h.internal"], "prefix", "unauthorizedHandler{}"),
      (["after, ok0 := strings.CutPrefix(h.htype, \"storage-\"); ok0", "!(h.internal)"], "prefix + \"camli/\"",
        "makeCamliHandler(prefix, hl.baseURL, pstorage, hl)"),
      ([], "prefix", "wrappedHandler")] ∧
    Gen.setupWrapAssigns = [
      (["h.internal"], "unauthorizedHandler{}"),
      (["!(h.internal)"], "&httputil.PrefixHandler{Prefix: prefix, Handler: hh}"),
      (["!(h.internal)", "handlerTypeWantsAuth(h.htype)"], "auth.Handler{Handler: wrappedHandler}")] := by
  decide

/-- every request that `makeCamliHandler` answers goes through `auth.RequireAuth`, except the
`unsupportedHandler` answer (400, touches no storage) for a path without `/camli/` -/
theorem C17_gen_camli_guarded :
    ∀ c ∈ Gen.camliServeCalls, c.2 = true ∨ c.1 = "unsupportedHandler" := by decide

/-- every fixed endpoint that `InstallHandlers` adds (`/debug/…`: expvar status, profiles, goroutine
dumps, the configuration, logs) is wrapped in `auth.RequireAuth` (F-C17-2 repaired: `/debug/vars`
and `/debug/pprof/` were not) -/
theorem C17_gen_fixed_endpoints_guarded : ∀ p ∈ Gen.fixedEndpoints, p.2 = true := by decide

example : Gen.fixedEndpoints ≠ [] := by decide

end Pk.Share
