import PkVerif.Lemmas.Ref
import PkVerif.Base.Order
import PkVerif.Gen.Facts
/-!
# C20 – blobref text, encodings and ordering are mutually consistent

Property theorems only.  `Pk.Ref.*` models pkg/blob/ref.go; the hash table, test ref types and
`maxOtherDigestLen` come from the regenerated `Pk.Gen` facts (`gtbl`), and every theorem that needs
a property of the table carries it as the decidable hypothesis `t.WF`, discharged for the generated
table by `decide` (`C20_gen_table_wf`).
-/
namespace Pk.Ref

/-- the tables as they are in /repo right now -/
def gtbl : Tbl := ⟨Gen.refSizes, Gen.testRefTypes, Gen.maxOtherDigestLen⟩

/-- obligation on the regenerated facts: every supported hash name is a valid digest name (so it
contains no `-`) and has a non-empty digest -/
theorem C20_gen_table_wf : gtbl.WF := by decide

/-- the text of whatever `parse` accepts is the input: text → ref → text is the identity
(all strings, both `Parse` and `ParseKnown`, supported and unknown hash names, odd digests included) -/
theorem C20_parse_toText (t : Tbl) (s : Bytes) (allowAll : Bool) (r : Ref)
    (h : parse t s allowAll = some r) : toText r = s := by
  unfold parse at h
  cases hs : splitDash s with
  | none => simp [hs] at h
  | some p =>
    obtain ⟨name, hex⟩ := p
    obtain ⟨hsplit, _⟩ := splitDash_spec s name hex hs
    simp only [hs] at h
    cases hz : t.size? name with
    | some size =>
      simp only [hz] at h
      split at h
      · cases h
      · cases hd : hexDec hex with
        | none => simp [hd] at h
        | some sum =>
          simp only [hd] at h
          injection h with h; subst h
          obtain ⟨he, _⟩ := hexEnc_hexDec hex sum hd
          simp [toText, he, hsplit]
    | none =>
      simp only [hz] at h
      split at h
      · obtain ⟨_, hn, hcase⟩ := parseUnknown_spec t name hex r h
        rcases hcase with ⟨_, hodd, hd, _, _⟩ | ⟨_, hodd, hd, _⟩
        · obtain ⟨he, _⟩ := hexEnc_hexDec _ _ hd
          simp [toText, hodd, he, hn, hsplit]
        · obtain ⟨he, _⟩ := hexEnc_hexDec _ _ hd
          simp only [toText, hodd, if_true, he, hn, hsplit]
          rw [show name ++ 45 :: (hex ++ [48]) = (name ++ 45 :: hex) ++ [48] by simp]
          exact dropLast_append_singleton _ _
      · cases h

/-- a ref that came out of parsing parses back from its own text to an equal ref -/
theorem C20_reparse (t : Tbl) (s : Bytes) (r : Ref) (h : parse t s true = some r) :
    parse t (toText r) true = some r := by
  rw [C20_parse_toText t s true r h]; exact h

/-- the ref computed for bytes by a supported hash (name in the table, digest of the table's size)
prints to a text that both `Parse` and `ParseKnown` map back to it -/
theorem C20_toText_parse_known (t : Tbl) (ht : t.WF) (r : Ref) (hr : WFKnown t r) (allowAll : Bool) :
    parse t (toText r) allowAll = some r := by
  obtain ⟨hsz, hb, hodd⟩ := hr
  obtain ⟨hv, _⟩ := known_name_valid t ht _ _ hsz
  have hnd := validName_no_dash _ hv
  rw [toText_known r hodd]
  unfold parse
  rw [splitDash_append _ _ hnd]
  simp only [hsz, hexEnc_length]
  rw [if_neg (by simp; omega), hexDec_hexEnc _ hb]
  cases r; simp_all

/-- **ordering**: for refs of supported hash functions `Less` is byte-wise order of the text forms -/
theorem C20_less_iff_text_lt (t : Tbl) (ht : t.WF) (r o : Ref) (hr : WFKnown t r) (ho : WFKnown t o) :
    less r o = ltB (toText r) (toText o) := by
  obtain ⟨hrs, hrb, hrodd⟩ := hr
  obtain ⟨hos, hob, hoodd⟩ := ho
  rw [toText_known r hrodd, toText_known o hoodd]
  unfold less
  by_cases hn : r.name = o.name
  · have hlen : r.sum.length = o.sum.length := by
      rw [hn] at hrs; rw [hrs] at hos; injection hos
    simp only [hn, bne_self_eq_false, Bool.false_eq_true, if_false]
    rw [ltB_append_left]
    simp only [ltB, Nat.lt_irrefl, if_false]
    exact (ltB_hexEnc _ _ hrb hob hlen).symm
  · have h1 := validName_all_gt _ (known_name_valid t ht _ _ hrs).1
    have h2 := validName_all_gt _ (known_name_valid t ht _ _ hos).1
    have hne : (r.name != o.name) = true := by simp [hn]
    simp only [hne, if_true]
    exact (ltB_names _ _ _ _ h1 h2 hn).symm

/-- the text form is injective on refs of supported hash functions: two such refs with the same
text are the same ref (so a store keyed by text and one keyed by ref hold the same set) -/
theorem C20_toText_injective (t : Tbl) (ht : t.WF) (r o : Ref) (hr : WFKnown t r) (ho : WFKnown t o)
    (h : toText r = toText o) : r = o := by
  have h1 := C20_toText_parse_known t ht r hr true
  have h2 := C20_toText_parse_known t ht o ho true
  rw [h, h2] at h1
  exact (Option.some.inj h1).symm

/-- **`Less` is a strict total order on refs of supported hash functions** – irreflexive, transitive
and trichotomous – which is what lets every enumeration (sorted by `Less` or by text, C01) have one
well-defined order and every `after` cursor one well-defined position -/
theorem C20_less_strict_total (t : Tbl) (ht : t.WF) (a b c : Ref) (ha : WFKnown t a) (hb : WFKnown t b)
    (hc : WFKnown t c) :
    less a a = false ∧
    (less a b = true → less b c = true → less a c = true) ∧
    (less a b = true → less b a = false) ∧
    (less a b = true ∨ a = b ∨ less b a = true) := by
  rw [C20_less_iff_text_lt t ht a a ha ha, C20_less_iff_text_lt t ht a b ha hb,
    C20_less_iff_text_lt t ht b c hb hc, C20_less_iff_text_lt t ht a c ha hc,
    C20_less_iff_text_lt t ht b a hb ha]
  refine ⟨ltB_irrefl _, ltB_trans _ _ _, ltB_asymm _ _, ?_⟩
  rcases ltB_total (toText a) (toText b) with h | h | h
  · exact Or.inl h
  · exact Or.inr (Or.inl (C20_toText_injective t ht a b ha hb h))
  · exact Or.inr (Or.inr h)

/-- **the order every enumeration promises**: a list of supported refs is ascending by `Less` exactly
when the list of their text forms is ascending byte-wise – a store may sort by either and a client may
check either, for lists of any length -/
theorem C20_sorted_by_less_iff_texts_sorted (t : Tbl) (ht : t.WF) (l : List Ref)
    (hl : ∀ r ∈ l, WFKnown t r) :
    Pk.Asc less l ↔ Pk.Asc ltB (l.map toText) := by
  induction l with
  | nil => simp [Pk.Asc]
  | cons a tl ih =>
    cases tl with
    | nil => simp [Pk.Asc]
    | cons b tl' =>
      have ha := hl a (by simp)
      have hb := hl b (by simp)
      have ih' := ih (fun r hr => hl r (by simp [hr]))
      simp only [List.map_cons] at ih' ⊢
      simp only [Pk.Asc]
      rw [C20_less_iff_text_lt t ht a b ha hb, ih']

/-- `EqualString` on a supported ref decides equality with the text form and cannot panic -/
theorem C20_equalString_iff (t : Tbl) (r : Ref) (hr : WFKnown t r) (s : Bytes) :
    equalString t r s = some (decide (s = toText r)) := by
  obtain ⟨hsz, _, hodd⟩ := hr
  have hsup : supported t r = true := by simp [supported, hsz]
  rw [toText_known r hodd]
  simp only [equalString, hsup, if_true, equalStringKnown]
  by_cases hl : s.length = r.name.length + 1 + 2 * r.sum.length
  · simp only [hl, bne_self_eq_false, Bool.false_eq_true, if_false]
    cases hc : cutPrefix (r.name ++ [45]) s with
    | none =>
      have := cutPrefix_none _ _ hc
      simp only
      congr 1
      symm
      simp only [decide_eq_false_iff_not]
      intro e; apply this; rw [e]
      exact ⟨hexEnc r.sum, by simp⟩
    | some rest =>
      have e := cutPrefix_some _ _ _ hc
      subst e
      have hrl : rest.length = 2 * r.sum.length := by simp at hl; omega
      simp only [eqLoop_spec _ _ hrl]
      congr 1
      simp
  · have : (s.length != r.name.length + 1 + 2 * r.sum.length) = true := by simp [hl]
    simp only [this, if_true]
    congr 1
    symm
    simp only [decide_eq_false_iff_not]
    intro e; apply hl; rw [e]; simp [hexEnc_length]; omega

/-- `HasPrefix` on a supported ref: true exactly when `s` is a prefix of the text form that reaches
past `name-` (at least one digest character, as documented); it cannot panic -/
theorem C20_hasPrefix_iff (t : Tbl) (ht : t.WF) (r : Ref) (hr : WFKnown t r) (s : Bytes) (g : Bool) :
    hasPrefix t g r s = some (s.isPrefixOf (toText r) && decide (r.name.length + 1 < s.length)) := by
  have heq := C20_equalString_iff t r hr s
  obtain ⟨hsz, _, hodd⟩ := hr
  have hpos : 1 ≤ r.sum.length := (known_name_valid t ht _ _ hsz).2
  have hsup : supported t r = true := by simp [supported, hsz]
  simp only [equalString, hsup, if_true] at heq
  rw [toText_known r hodd] at heq ⊢
  simp only [hasPrefix, hsup, if_true, hasPrefixKnown]
  have hT : (r.name ++ 45 :: hexEnc r.sum).length = r.name.length + 1 + 2 * r.sum.length := by
    simp [hexEnc_length]; omega
  by_cases hgt : s.length > r.name.length + 1 + 2 * r.sum.length
  · simp only [hgt, if_true]
    congr 1; symm
    have : s.isPrefixOf (r.name ++ 45 :: hexEnc r.sum) = false := by
      cases hp : s.isPrefixOf (r.name ++ 45 :: hexEnc r.sum) with
      | false => rfl
      | true =>
        have := (List.isPrefixOf_iff_prefix.mp hp).length_le
        omega
    simp [this]
  · simp only [hgt, if_false]
    by_cases hel : s.length = r.name.length + 1 + 2 * r.sum.length
    · simp only [hel, beq_self_eq_true, if_true, heq]
      congr 1
      by_cases hse : s = r.name ++ 45 :: hexEnc r.sum
      · subst hse
        simp [hexEnc_length]; omega
      · simp only [hse, decide_false]
        symm
        cases hp : s.isPrefixOf (r.name ++ 45 :: hexEnc r.sum) with
        | false => simp
        | true =>
          exfalso; apply hse
          exact (List.isPrefixOf_iff_prefix.mp hp).eq_of_length (by omega)
    · have hne : (s.length == r.name.length + 1 + 2 * r.sum.length) = false := by simp [hel]
      simp only [hne, Bool.false_eq_true, if_false]
      cases hc : cutPrefix (r.name ++ [45]) s with
      | none =>
        have hnp := cutPrefix_none _ _ hc
        simp only
        congr 1; symm
        cases hp : s.isPrefixOf (r.name ++ 45 :: hexEnc r.sum) with
        | false => simp
        | true =>
          simp only [Bool.true_and, decide_eq_false_iff_not]
          intro hlen
          apply hnp
          obtain ⟨u, hu⟩ := List.isPrefixOf_iff_prefix.mp hp
          have h1 : r.name ++ [45] <+: s ++ u := by
            rw [hu]; exact ⟨hexEnc r.sum, by simp⟩
          exact List.prefix_of_prefix_length_le h1 ⟨u, rfl⟩ (by simp; omega)
      | some rest =>
        have e := cutPrefix_some _ _ _ hc
        subst e
        have hrl : rest.length ≤ 2 * r.sum.length := by simp at hgt hel ⊢; omega
        simp only
        by_cases hre : rest = []
        · subst hre; simp
        · have : rest.isEmpty = false := by cases rest <;> simp_all
          simp only [this, Bool.false_eq_true, if_false, prefixLoop_spec _ _ hrl]
          congr 1
          rw [show r.name ++ 45 :: hexEnc r.sum = (r.name ++ [45]) ++ hexEnc r.sum by simp,
            isPrefixOf_append_left]
          have : 0 < rest.length := by cases rest <;> simp_all
          simp; intro _; omega

/-- `ParseKnown` hands out only refs of supported hashes or of the three test ref types -/
theorem C20_parseKnown_only_supported (t : Tbl) (s : Bytes) (r : Ref) (h : parse t s false = some r) :
    supported t r = true ∨ t.testTypes.contains r.name = true := by
  unfold parse at h
  cases hs : splitDash s with
  | none => simp [hs] at h
  | some p =>
    obtain ⟨name, hex⟩ := p
    simp only [hs] at h
    cases hz : t.size? name with
    | some size =>
      simp only [hz] at h
      split at h
      · cases h
      · cases hd : hexDec hex with
        | none => simp [hd] at h
        | some sum =>
          simp only [hd] at h
          injection h with h; subst h
          left; simp [supported, hz]
    | none =>
      simp only [hz, Bool.false_or] at h
      split at h
      · rename_i htt
        obtain ⟨_, hn, _⟩ := parseUnknown_spec t name hex r h
        right; rw [hn]; exact htt
      · cases h

/-- binary encoding round-trips for every supported ref -/
theorem C20_binary_roundtrip_known (t : Tbl) (ht : t.WF) (r : Ref) (hr : WFKnown t r) :
    unmarshalBinary t (marshalBinary r) = some r := by
  obtain ⟨hsz, _, hodd⟩ := hr
  obtain ⟨hv, _⟩ := known_name_valid t ht _ _ hsz
  have hnd := validName_no_dash _ hv
  have hne : 1 ≤ r.name.length := by
    unfold validDigestName at hv
    cases hnm : r.name with
    | nil => simp [hnm] at hv
    | cons _ _ => simp
  unfold unmarshalBinary marshalBinary
  rw [indexDash_append _ _ hnd]
  have h1 : ¬ r.name.length < 1 := by omega
  simp only [h1, if_false, List.take_left', List.drop_left']
  have : (r.name ++ 45 :: r.sum).drop (r.name.length + 1) = r.sum := by
    rw [show r.name ++ 45 :: r.sum = (r.name ++ [45]) ++ r.sum by simp]
    exact List.drop_left' (by simp)
  simp only [this, hsz, bne_self_eq_false, Bool.false_eq_true, if_false]
  cases r; simp_all

/-- the binary encoding does NOT round-trip for unknown-hash refs with an odd number of hex digits:
`foo-abc` marshals to `foo-` ++ [0xab, 0xc0] and unmarshals as `foo-abc0`.  (Known finding F-C20-2;
the property's scope is supported hashes, where `C20_binary_roundtrip_known` holds.) -/
theorem C20_binary_roundtrip_odd_counterexample :
    ∃ r, parse gtbl [102, 111, 111, 45, 97, 98, 99] true = some r ∧
      unmarshalBinary gtbl (marshalBinary r) ≠ some r := by
  refine ⟨⟨[102, 111, 111], [171, 192], true⟩, by decide, by decide⟩

/-- JSON encoding round-trips for whatever `Parse` produced (every hash name, odd digests included) -/
theorem C20_json_roundtrip (t : Tbl) (s : Bytes) (r : Ref) (h : parse t s true = some r) :
    unmarshalJSON t (marshalJSON r) = some (some r) := by
  have htx := C20_parse_toText t s true r h
  unfold unmarshalJSON marshalJSON parseBytes
  have hl : (34 :: (toText r ++ [34])).getLast? = some 34 := by
    rw [show 34 :: (toText r ++ [34]) = (34 :: toText r) ++ [34] by simp]
    exact List.getLast?_concat ..
  have h1 : ((34 :: (toText r ++ [34])).isEmpty || 34 :: (toText r ++ [34]) == [110, 117, 108, 108]) = false := by
    simp
  have h2 : ((34 :: (toText r ++ [34])).length < 2 || (34 :: (toText r ++ [34])).head? != some 34
      || (34 :: (toText r ++ [34])).getLast? != some 34) = false := by
    simp [hl]
  rw [if_neg (by rw [h1]; simp), if_neg (by rw [h2]; simp)]
  have h3 : ((34 :: (toText r ++ [34])).drop 1).dropLast = toText r := by simp
  rw [h3, htx, h]

end Pk.Ref

namespace Pk.Ref
/-! ### the repaired defect (F-C20-1) and non-vacuity -/

/-- The code as pinned (`guarded = false`): `HasPrefix` of an unknown-hash ref with the bare hash name
panics (index out of range).  Repaired in /repo by a `fix:` commit; the model of the current tree is
`guarded = true`, where the same call answers `false`. -/
theorem C20_hasPrefix_unguarded_counterexample :
    hasPrefix gtbl false ⟨[102, 111, 111], [171], false⟩ [102, 111, 111] = none ∧
    hasPrefix gtbl true ⟨[102, 111, 111], [171], false⟩ [102, 111, 111] = some false := by
  constructor <;> decide

/-- hypotheses of the theorems above are satisfiable: a concrete sha1 ref is `WFKnown` -/
example : WFKnown gtbl ⟨[115, 104, 97, 49], List.replicate 20 171, false⟩ :=
  ⟨by decide, by decide, rfl⟩

example : parse gtbl (toText ⟨[115, 104, 97, 49], List.replicate 20 171, false⟩) false
    = some ⟨[115, 104, 97, 49], List.replicate 20 171, false⟩ := by decide

end Pk.Ref
