import PkVerif.Lemmas.SortedBuffer
import PkVerif.Gen.Facts
/-!
# C10 – every sorted key/value store is a byte-ordered map with atomic batches

Property theorems only.

* `Pk.SortedKV` (Spec/SortedKV.lean) is the contract: a strictly ascending association list over
  byte strings with `get / set / erase / batch / find[start,end)`; the size limits are the regenerated
  `Pk.Gen.maxKeySize / maxValueSize` (`glim`), every law is proved for arbitrary limits.
* `Pk.SortedBuffer` (Model/SortedBuffer.lean) models pkg/sorted/buffer/buffer.go over two such
  stores, the two-way merge iterator step by step.  `C10_buffer_refines` is the refinement theorem at
  full strength (all histories, all keys including the empty one, every `maxBuffer`); it holds for
  the code after `fix:` a9fb580 (and 35f9fac, which is invisible to the map semantics) – the iterator as it was before is kept as `Iter.nextOld` and refuted
  by the two `…_counterexample` theorems.
* memory / leveldb / kvfile / sqlite have no internal model: the harness compares them with
  `specStep` through the line protocol (translation validation, not proof), including close/reopen.
-/
namespace Pk.SortedKV
open Pk Pk.SortedBuffer

/-- the limits as they are in /repo right now -/
def glim : Limits := ⟨Gen.maxKeySize, Gen.maxValueSize⟩

/-! ## the contract -/

/-- every operation keeps the keys strictly ascending (so a store never holds a key twice) -/
theorem C10_wf_preserved (L : Limits) (m : KV) (hw : WF m) (o : Op) : WF (specStep L m o).1 :=
  wf_specStep L hw o

example : WF [([], [1]), ([0], []), ([97], [2]), ([97, 0], [3]), ([255], [])] := by decide

/-- strictly ascending in the sense of Base/Order.lean -/
theorem C10_wf_is_asc (m : KV) : WF m ↔ Asc ltB (keys m) := wf_iff_asc m

/-- a well-formed store is determined by what `get` answers: equality of stores below is
observational equality -/
theorem C10_store_determined_by_get (a b : KV) (ha : WF a) (hb : WF b)
    (h : ∀ k, get a k = get b k) : a = b := ext_get ha hb h

/-- get-after-set: the value just set, unless the pair is over the limits, in which case nothing
changed; other keys are untouched -/
theorem C10_get_after_set (L : Limits) (m : KV) (k v x : Bytes) :
    get (set L m k v) x = if okSizes L k v = true ∧ k = x then some v else get m x :=
  get_set L m k v x

example : get (set glim [([97], [1])] [97] [2]) [97] = some [2] := by decide

/-- get-after-delete: not found; other keys are untouched -/
theorem C10_get_after_delete (m : KV) (k x : Bytes) :
    get (erase k m) x = if k = x then none else get m x := get_erase k m x

/-- a key or value over the limits is silently skipped by `Set` -/
theorem C10_oversize_set_skipped (L : Limits) (m : KV) (k v : Bytes)
    (h : L.maxKey < k.length ∨ L.maxVal < v.length) : set L m k v = m := by
  have : okSizes L k v = false := by
    simp only [okSizes, Bool.and_eq_false_iff, decide_eq_false_iff_not]
    rcases h with h | h
    · exact Or.inl (by omega)
    · exact Or.inr (by omega)
  simp [set, this]

example : (2 : Nat) < ([1, 2, 3] : Bytes).length ∨ (0 : Nat) < ([] : Bytes).length := by decide

/-- the size guard is sharp: exactly `maxKey` / `maxVal` bytes are stored -/
theorem C10_size_boundary (L : Limits) (m : KV) (k v : Bytes)
    (hk : k.length = L.maxKey) (hv : v.length = L.maxVal) : get (set L m k v) k = some v := by
  rw [get_set]; simp [okSizes, hk, hv]

/-- on the regenerated limits: a key of `MaxKeySize` bytes with a value of `MaxValueSize` bytes is
stored, one byte more of either is skipped -/
theorem C10_gen_limits_boundary (m : KV) (a b : Nat) :
    get (set glim m (List.replicate Gen.maxKeySize a) (List.replicate Gen.maxValueSize b))
        (List.replicate Gen.maxKeySize a) = some (List.replicate Gen.maxValueSize b) ∧
    set glim m (List.replicate (Gen.maxKeySize + 1) a) [] = m ∧
    set glim m [a] (List.replicate (Gen.maxValueSize + 1) b) = m := by
  refine ⟨C10_size_boundary glim m _ _ (by simp [glim]) (by simp [glim]), ?_, ?_⟩
  · exact C10_oversize_set_skipped glim m _ _ (Or.inl (by simp [glim]))
  · exact C10_oversize_set_skipped glim m _ _ (Or.inr (by simp [glim]))

/-- the generated limits are usable (a zero limit would make every non-empty key oversize) -/
theorem C10_gen_limits_positive : 0 < glim.maxKey ∧ 0 < glim.maxVal := by decide

/-- a committed batch is the in-order fold of its mutations -/
theorem C10_batch_is_fold (L : Limits) (m : KV) (ms : List Mut) :
    batch L m ms = ms.foldl (applyMut L) m := batch_eq_foldl L m ms

/-- … so for every key the last mutation of the batch that touches it decides (a set over the limits
touches nothing), and untouched keys keep their value -/
theorem C10_batch_last_write_wins (L : Limits) (m : KV) (ms : List Mut) (x : Bytes) :
    get (batch L m ms) x = match lastWrite L ms x with
      | some r => r
      | none => get m x := get_batch L ms m x

example : get (batch glim [([98], [9])] [.set [97] [1], .del [97], .set [97] [2], .del [98]]) [97] = some [2] ∧
    get (batch glim [([98], [9])] [.set [97] [1], .del [97], .set [97] [2], .del [98]]) [98] = none := by decide

/-- an oversize set inside a batch is skipped, the rest of the batch is applied -/
theorem C10_oversize_in_batch_skipped (L : Limits) (m : KV) (pre post : List Mut) (k v : Bytes)
    (h : L.maxKey < k.length ∨ L.maxVal < v.length) :
    batch L m (pre ++ Mut.set k v :: post) = batch L m (pre ++ post) := by
  rw [batch_append, batch_append]
  simp only [batch, applyMut]
  rw [C10_oversize_set_skipped L _ k v h]

/-- a range scan returns exactly the rows whose key is in `[start, end)` (`end = ""`: unbounded),
with their current values … -/
theorem C10_find_exact (m : KV) (hw : WF m) (s e k v : Bytes) :
    (k, v) ∈ find m s e ↔
      get m k = some v ∧ ltB k s = false ∧ (e = [] ∨ ltB k e = true) := by
  rw [mem_iff_get (wf_find hw s e), get_find]
  cases hr : inRange s e k with
  | true =>
    simp only [if_true]
    simp only [inRange, Bool.and_eq_true, Bool.not_eq_true', Bool.or_eq_true, List.isEmpty_iff] at hr
    exact ⟨fun h => ⟨h, hr.1, hr.2⟩, fun h => h.1⟩
  | false =>
    simp only [Bool.false_eq_true, if_false]
    constructor
    · intro h; cases h
    · intro ⟨_, h1, h2⟩
      have : inRange s e k = true := by
        simp only [inRange, Bool.and_eq_true, Bool.not_eq_true', Bool.or_eq_true, List.isEmpty_iff]
        exact ⟨h1, h2⟩
      rw [hr] at this; cases this

/-- … in strictly ascending byte order (hence each key once) -/
theorem C10_find_ascending (m : KV) (hw : WF m) (s e : Bytes) : Asc ltB (keys (find m s e)) :=
  (wf_iff_asc _).mp (wf_find hw s e)

example : find [([], [1]), ([97], [2]), ([97, 0], [3]), ([97, 255], [4]), ([98], [5])] [97] [97, 255]
    = [([97], [2]), ([97, 0], [3])] := by decide

/-- flush and close/reopen are no-ops of the contract (that the engines really keep their contents
across Close/reopen is checked on the real code by the correspondence, not proved) -/
theorem C10_reopen_flush_keep_contents (L : Limits) (m : KV) :
    (specStep L m .reopen).1 = m ∧ (specStep L m .flush).1 = m := ⟨rfl, rfl⟩

/-! ## the write buffer (pkg/sorted/buffer) -/

/-- the merge iterator, run as `for it.Next() {…}`, yields exactly the two-way merge of what the two
underlying iterators yield (buffer side first on equal keys) – for any rows, any fuel that is at
least the number of rows plus one -/
theorem C10_buffer_iter_is_merge (A B : KV) (n : Nat) (hn : A.length + B.length + 1 ≤ n) :
    (Iter.start A B).collect n = merge A B := collect_start A B n hn

/-- the fuel of `Buf.find` is a modelling device only: more fuel never yields more rows -/
theorem C10_buffer_find_fuel (A B : KV) (n : Nat) (hn : A.length + B.length + 1 ≤ n) :
    (Iter.start A B).collect n = (Iter.start A B).collect (A.length + B.length + 1) := by
  rw [collect_start A B n hn, collect_start A B _ (Nat.le_refl _)]

/-- the merge of two well-formed row lists is well-formed and looks a key up in the buffer side first -/
theorem C10_buffer_merge_shadows (A B : KV) (hA : WF A) (hB : WF B) :
    WF (merge A B) ∧ ∀ x, get (merge A B) x = (get A x).or (get B x) :=
  ⟨wf_merge hA hB, get_merge hA hB⟩

example : (Iter.start [([], [1]), ([98], [2])] [([97], [3]), ([98], [4])]).collect 5
    = [([], [1]), ([97], [3]), ([98], [2])] := by decide

/-- the iterator never calls `Next` again on an underlying iterator that has returned false
(kvfile's iterator panics on that) -/
theorem C10_buffer_iter_no_overrun (A B : KV) (n : Nat) :
    (Iter.finalWith Iter.next n (Iter.start A B)).buf.overrun = false ∧
    (Iter.finalWith Iter.next n (Iter.start A B)).back.overrun = false := by
  cases n with
  | zero => exact ⟨rfl, rfl⟩
  | succ n =>
    obtain ⟨hp, _⟩ := start_pos A B
    have key : ∃ A' B', Pos (Iter.finalWith Iter.next (n + 1) (Iter.start A B)) A' B' := by
      unfold Iter.finalWith
      split
      · exact final_pos n hp
      · exact ⟨A, B, hp⟩
    obtain ⟨A', B', h⟩ := key
    exact ⟨h.buf.1, h.back.1⟩

/-- **refinement**: a buffer whose two stores are related to a map `m` (`m` = backing store overlaid
with the buffer) answers every history of get/set/delete/batch/find/flush/reopen exactly as the map
does – for every key including the empty one, every `maxBuffer`, every flush pattern -/
theorem C10_buffer_refines (L : Limits) (b : Buf) (m : KV) (h : Rel L b.buf b.back m)
    (ops : List Op) : runBuf L b ops = runSpec L m ops := rel_run ops h

/-- … in particular from `buffer.New` over two empty stores -/
theorem C10_buffer_refines_from_new (L : Limits) (maxBuffer : Int) (ops : List Op) :
    runBuf L (Buf.new maxBuffer) ops = runSpec L [] ops := rel_run ops (rel_empty L)

/-- every state reached from `buffer.New` satisfies the simulation relation -/
theorem C10_buffer_reachable_related (L : Limits) (maxBuffer : Int) (ops : List Op) :
    Rel L (bufAfter L (Buf.new maxBuffer) ops).buf (bufAfter L (Buf.new maxBuffer) ops).back
      (specAfter L [] ops) := rel_after ops (rel_empty L)

/-- the hypothesis of `C10_buffer_refines` is met by a state with rows on both sides, a shadowed key
and the empty key: reached by the history below -/
example : ∃ b : Buf, ∃ m : KV, Rel glim b.buf b.back m ∧
    b.buf = [([], [7]), ([97], [2])] ∧ b.back = [([97], [1]), ([98], [3])] := by
  refine ⟨bufAfter glim (Buf.new 100) [.set [97] [1], .set [98] [3], .flush, .set [97] [2], .set [] [7]],
    specAfter glim [] [.set [97] [1], .set [98] [3], .flush, .set [97] [2], .set [] [7]],
    C10_buffer_reachable_related glim 100 _, ?_, ?_⟩ <;> decide

/-- flush is invisible: flushing at any moment changes no later answer -/
theorem C10_buffer_flush_invisible (L : Limits) (b : Buf) (m : KV) (h : Rel L b.buf b.back m)
    (ops : List Op) : runBuf L (b.flush L) ops = runBuf L b ops := by
  rw [rel_run ops (rel_flush h), rel_run ops h]

/-- `Flush` commits every batch it begins on the backing store (a begun, never committed batch keeps
a sqlkv transaction and its gate slot: every later operation blocks) -/
theorem C10_buffer_flush_commits_what_it_begins (b : Buf) :
    b.flushBatchCalls.1 = b.flushBatchCalls.2 := by
  unfold Buf.flushBatchCalls; split <;> rfl

/-- before fix 35f9fac a `Flush` of an empty buffer began a batch it never committed -/
theorem C10_buffer_old_flush_leaks_batch_counterexample :
    (Buf.new 100).flushBatchCallsOld = (1, 0) := by decide

/-- before fix a9fb580 the iterator lost a row: buffer `{"" ↦ 2}` over backing `{"a" ↦ 1}` scanned
as `{"" ↦ 2}` only (the empty cached key was taken for "not started yet") -/
theorem C10_buffer_old_iter_loses_row_counterexample :
    (Iter.start [([], [2])] [([97], [1])]).collectOld 3 = [([], [2])] ∧
    merge [([], [2])] [([97], [1])] = [([], [2]), ([97], [1])] := by
  refine ⟨by decide, ?_⟩
  rw [merge_cons_cons]; simp [ltB, merge_nil_left]

/-- before fix a9fb580 the iterator called `Next` again on the exhausted backing iterator: two
buffered rows over an empty backing store (kvfile panics there) -/
theorem C10_buffer_old_iter_overrun_counterexample :
    (Iter.finalWith Iter.nextOld 3 (Iter.start [([97], [1]), ([98], [2])] [])).back.overrun = true := by
  decide

end Pk.SortedKV
