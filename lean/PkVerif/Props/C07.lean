import PkVerif.Model.Attr
namespace Pk.Attr
theorem C07_placeholder : True := trivial
end Pk.Attr
