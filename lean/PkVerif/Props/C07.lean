import PkVerif.Lemmas.Attr
import PkVerif.Gen.C07
/-!
# C07 – permanode attributes and deletions follow the documented claim semantics

Property theorems only.  `Pk.Attr.*` (Model/Attr.lean) models pkg/index corpus.go, util.go, index.go
and the claim-folding composition of location.go; the spec is `Pk.Attr.Spec` (Spec/Attr.lean):

* the value of an attribute at time `T` for a signer is the fold, in claim-date order, of that
  signer's non-deleted set/add/del claims dated ≤ `T` (`Spec.AttrValues`; equal dates are unordered,
  so the spec is a relation; `Spec.attrValues` picks the arrangement with equal dates in blobref order,
  which is what the code does since 83d40e9, and is THE value when dates are pairwise distinct);
* a blob is deleted iff some delete claim targets it whose own ref is not deleted
  (`Spec.IsDeleted`: the defining equation; the theorem shows the recursion is its unique solution).

`search.Handler.Describe` is covered as a fourth observer of the three index modes
(`C07_describe_path_spec`): it respects deletions and presents the spec values as a set.

Status: the folds, the incremental cache, the cache-validity rule (as repaired by 2f922c1) and both
deletion recursions satisfy the spec for all inputs.  `C07_all_paths_agree` is FALSE on the code:
the corpus attribute queries never consult deletions (finding F-C07-1) – stated as
`C07_all_paths_agree_partial` (no deleted claim on the permanode) + `C07_all_paths_agree_counterexample`.
-/
namespace Pk.Attr

/-! a small history used by the non-vacuity examples: two claims on permanode 0, delivered newest first -/
def exA : Claim := ⟨1, 7, 0, 0, .set, [116], [111], 2000⟩
def exB : Claim := ⟨2, 3, 0, 1, .add, [116], [110], 1000⟩
def exC : Claim := ⟨3, 5, 0, 0, .del, [116], [], 3000⟩

/-! ## the spec is well defined -/

/-- the function is one of the allowed results, whatever the dates -/
theorem C07_spec_attrValues_allowed (cs : List Claim) (deleted : Nat → Bool) (attr : Bytes) (t : Nat)
    (f : Option Nat) : Spec.AttrValues cs deleted attr t f (Spec.attrValues cs deleted attr t f) :=
  ⟨sortByDate cs, ⟨sortByDate_perm cs, (sortByDate_sorted cs).sorted⟩, rfl⟩

/-- the arrangement the code uses (equal dates by blobref, 83d40e9) is one of the arrangements the
spec allows -/
theorem C07_linK_is_lin (l cs : List Claim) (h : Spec.IsLinK l cs) : Spec.IsLin l cs := ⟨h.1, h.2.sorted⟩

/-- with pairwise distinct dates the spec allows exactly one result -/
theorem C07_spec_linearisation_unique (cs : List Claim) (hd : DistinctDates cs) (deleted : Nat → Bool)
    (attr : Bytes) (t : Nat) (f : Option Nat) (vs : List Bytes) :
    Spec.AttrValues cs deleted attr t f vs ↔ vs = Spec.attrValues cs deleted attr t f := by
  constructor
  · rintro ⟨l, ⟨hp, hs⟩, rfl⟩
    have : l = sortByDate cs :=
      sorted_perm_unique l (sortByDate cs) (hp.trans (sortByDate_perm cs).symm) hs (sortByDate_sorted cs).sorted
        (hd.perm hp.symm)
    rw [this]; rfl
  · rintro rfl; exact C07_spec_attrValues_allowed cs deleted attr t f

example : DistinctDates [exA, exB, exC] := by simp [DistinctDates, exA, exB, exC]

/-! ## the fold implementations -/

/-- **the three folds compute the spec's fold**: on any date-sorted claim list (equal dates in any
order), `claimsIntfAttrValue`'s loop (util.go:76), the loop of `AppendPermanodeAttrValues`
(corpus.go:1345) and the boolean loop of `PermanodeHasAttrValue` (corpus.go:1530, with its `break`)
fold exactly the claims that count, in the order of the list – a result the spec allows for that claim
set (deletions aside: none of them looks at deletions), for every attribute, time (zero = now) and signer. -/
theorem C07_fold_implementations_agree (l : List Claim) (hs : Sorted l) (attr val : Bytes)
    (at_ : Option Nat) (now : Nat) (f : Option Nat) :
    let spec := fun g => foldVals (l.filter (Spec.counts noDel attr (at_.getD now) g))
    Spec.AttrValues l noDel attr (at_.getD now) f (spec f) ∧
    claimsIntfAttrValues l attr at_ now (filtOf f) = spec f ∧
    appendValuesLoop l attr (at_.getD now) (filtOf f) = spec f ∧
    hasLoop attr val (at_.getD now) l false = decide (val ∈ spec none) := by
  intro spec
  simp only [spec, counts_noDel]
  refine ⟨⟨l, ⟨List.Perm.refl _, hs⟩, by rw [counts_noDel]⟩, claimsIntfAttrValues_eq _ _ _ _ _,
    appendValuesLoop_eq _ _ _ _, ?_⟩
  rw [hasLoop_eq attr val _ l hs false]
  have := foldl_hasStep val (l.filter (rel attr (at_.getD now) none)) []
  simp only [List.not_mem_nil, decide_false] at this
  rw [this]; rfl

/-- on a list in the code's own order (date, then blobref: what `pm.Claims` is) that result is the
spec function -/
theorem C07_fold_implementations_agree_fn (l : List Claim) (hs : SortedK l) (attr val : Bytes)
    (at_ : Option Nat) (now : Nat) (f : Option Nat) :
    claimsIntfAttrValues l attr at_ now (filtOf f) = Spec.attrValues l noDel attr (at_.getD now) f ∧
    appendValuesLoop l attr (at_.getD now) (filtOf f) = Spec.attrValues l noDel attr (at_.getD now) f ∧
    hasLoop attr val (at_.getD now) l false = decide (val ∈ Spec.attrValues l noDel attr (at_.getD now) none) := by
  obtain ⟨_, a, b, c⟩ := C07_fold_implementations_agree l hs.sorted attr val at_ now f
  unfold Spec.attrValues
  rw [sortByDate_of_sorted l hs]
  exact ⟨a, b, c⟩

/-- the two value folds do not even need the list sorted: they fold what counts in the order given -/
theorem C07_fold_in_given_order (l : List Claim) (attr : Bytes) (at_ : Option Nat) (now : Nat) (f : Option Nat) :
    claimsIntfAttrValues l attr at_ now (filtOf f) = foldVals (l.filter (Spec.counts noDel attr (at_.getD now) f)) ∧
    appendValuesLoop l attr (at_.getD now) (filtOf f) = foldVals (l.filter (Spec.counts noDel attr (at_.getD now) f)) := by
  rw [counts_noDel]
  exact ⟨claimsIntfAttrValues_eq _ _ _ _ _, appendValuesLoop_eq _ _ _ _⟩

example : Sorted [exB, exA, exC] := by simp [Sorted, exA, exB, exC]
example : SortedK [exB, exA, exC] := by simp [SortedK, KeyLe, exA, exB, exC]
example : claimsIntfAttrValues [exB, exA, exC] [116] (some 2500) 0 (filtOf none) = [[111]] := by decide

/-! ## the incremental cache -/

/-- **any arrival order**: after the claims `arr` of a permanode arrived one by one at a live corpus
(mergeClaimRow → fixupLastClaim: append path or re-sort path → appendAttrClaim → cacheAttrClaim),
`pm.Claims` is `arr` in date order (equal dates by blobref), `pm.attr` maps every attribute to the
fold of that order, and `pm.signer` has, for exactly the signers that have a claim, the fold of
their claims. -/
theorem C07_incremental_cache_correct (arr : List Claim) :
    Spec.IsLinK (incPM arr).claims arr ∧
    (∀ attr, get ((incPM arr).attr.getD []) attr = attrFold (incPM arr).claims attr) ∧
    (∀ s, lookupS (incPM arr).signer s = none → ∀ c ∈ arr, c.signer ≠ s) ∧
    (∀ s ms, lookupS (incPM arr).signer s = some ms → ∀ attr, get ms attr = attrFoldS (incPM arr).claims attr s) := by
  obtain ⟨hi, hp⟩ := incPM_inv arr
  refine ⟨⟨hp, hi.sorted⟩, hi.cache.attr, ?_, hi.cache.signerSome⟩
  intro s hs c hc
  exact hi.cache.signerNone s hs c (hp.mem_iff.mpr hc)

/-- the cache after ANY arrival order is the fold of the sorted list – equal dates included, as long as
no two claims share date and blobref (since 83d40e9; before, tied claims stayed in arrival order) -/
theorem C07_incremental_cache_eq_sorted_fold (arr : List Claim) (hd : DistinctKeys arr) :
    (incPM arr).claims = sortByDate arr ∧
    (∀ attr, get ((incPM arr).attr.getD []) attr = attrFold (sortByDate arr) attr) ∧
    (∀ s ms, lookupS (incPM arr).signer s = some ms → ∀ attr, get ms attr = attrFoldS (sortByDate arr) attr s) := by
  obtain ⟨⟨hp, hs⟩, ha, _, hsig⟩ := C07_incremental_cache_correct arr
  have hc : (incPM arr).claims = sortByDate arr :=
    sortedK_perm_unique _ _ (hp.trans (sortByDate_perm arr).symm) hs (sortByDate_sorted arr) (hd.perm hp.symm)
  rw [hc] at ha hsig
  exact ⟨hc, ha, hsig⟩

/-- two arrival orders of the same claims (equal dates or not) give the same claim list and the same
answers to every attribute query – in particular the live corpus and the corpus loaded at start
(`loadPM`: rows in key order, then restoreInvariants) cannot be told apart -/
theorem C07_incremental_eq_loaded (arr rows : List Claim) (hp : rows.Perm arr) (hd : DistinctKeys arr)
    (attr val : Bytes) (at_ : Option Nat) (now : Nat) (f : Option Nat) :
    (incPM arr).claims = (loadPM rows).claims ∧
    pmAttrValues (incPM arr) attr at_ now f = pmAttrValues (loadPM rows) attr at_ now f ∧
    pmAttrValue (incPM arr) attr at_ now f = pmAttrValue (loadPM rows) attr at_ now f ∧
    pmHasAttrValue (incPM arr) attr val at_ now = pmHasAttrValue (loadPM rows) attr val at_ now := by
  obtain ⟨hi, hpi⟩ := incPM_inv arr
  obtain ⟨hl, hpl⟩ := loadPM_inv rows
  have hc : (incPM arr).claims = (loadPM rows).claims :=
    sortedK_perm_unique _ _ (hpi.trans (hpl.trans hp).symm) hi.sorted hl.sorted (hd.perm hpi.symm)
  refine ⟨hc, ?_, ?_, ?_⟩
  · rw [pmAttrValues_eq _ hi, pmAttrValues_eq _ hl, hc]
  · rw [pmAttrValue_eq _ hi, pmAttrValue_eq _ hl, hc]
  · rw [pmHasAttrValue_eq _ hi, pmHasAttrValue_eq _ hl, hc]

example : (incPM [exC, exA, exB]).claims = [exB, exA, exC] := by decide
/-- two claims with the same date: whichever arrives first, the one with the smaller blobref comes first -/
def exT1 : Claim := ⟨4, 9, 0, 0, .set, [116], [120], 2000⟩
def exT2 : Claim := ⟨5, 2, 0, 1, .set, [116], [121], 2000⟩
example : DistinctKeys [exT1, exT2] := by simp [DistinctKeys, exT1, exT2]
example : (incPM [exT1, exT2]).claims = [exT2, exT1] ∧ (incPM [exT2, exT1]).claims = [exT2, exT1] := by decide
example : get ((incPM [exA, exB]).attr.getD []) [116] = [[111]] := by decide

/-! ## the cache-validity rule -/

/-- **valuesAtSigner hands out a cached map only when it is right for the time asked** (corpus.go:282,
as repaired by 2f922c1): then no claim of the permanode is dated after `T` (zero = now), and the map
holds, for every attribute, the spec values at `T` for that signer filter; `(nil, true)` is answered
only when nothing counts.  (`Inv pm` is what `C07_incremental_cache_correct` / `restoreInvariants`
establish.) -/
theorem C07_cache_valid_at_T (pm : PM) (hi : Inv pm) (at_ : Option Nat) (now : Nat) (f : Option Nat) :
    (∀ m, valuesAtSigner pm at_ now f = some (some m) →
      (∀ c ∈ pm.claims, c.date ≤ at_.getD now) ∧
      ∀ attr, get m attr = Spec.attrValues pm.claims noDel attr (at_.getD now) f) ∧
    (valuesAtSigner pm at_ now f = some none →
      ∀ attr, Spec.attrValues pm.claims noDel attr (at_.getD now) f = []) := by
  constructor
  · intro m h
    constructor
    · intro c hc
      obtain ⟨_, hlast⟩ := valuesAtSigner_cache h
      cases hl : pm.claims.getLast? with
      | none => rw [List.getLast?_eq_none_iff] at hl; rw [hl] at hc; cases hc
      | some last =>
        have := sorted_le_last hi.sorted.sorted hl c hc
        have := hlast last hl
        omega
    · intro attr
      unfold Spec.attrValues
      rw [sortByDate_of_sorted _ hi.sorted, counts_noDel]
      exact cache_valid pm hi at_ now f m h attr
  · intro h attr
    unfold Spec.attrValues
    rw [sortByDate_of_sorted _ hi.sorted, counts_noDel, nilok_valid pm hi at_ now f h]
    rfl

/-- before 2f922c1 the rule was wrong at the zero time: with a claim dated after now, the cache was
handed out although it is not the value at now (finding F-C07-2, fixed) -/
theorem C07_cache_valid_at_T_old_counterexample :
    ∃ (pm : PM) (m : AttrMap), Inv pm ∧ valuesAtSignerOld pm none none = some (some m) ∧
      get m [116] ≠ Spec.attrValues pm.claims noDel [116] 1500 none :=
  ⟨incPM [exB, exA], _, (incPM_inv _).1, rfl, by decide⟩

example : Inv (incPM [exC, exA, exB]) := (incPM_inv _).1
example : ∃ m, valuesAtSigner (incPM [exA, exB]) (some 2500) 0 (some 1) = some (some m) := ⟨_, rfl⟩
example : valuesAtSigner (incPM [exA, exB]) (some 1500) 0 none = none := by decide
example : valuesAtSigner (incPM [exA, exB]) none 1500 none = none := by decide

/-! ## deletion -/

/-- the hypothesis `World.WF` of the deletion theorems is not an extra assumption about histories: it
holds after any sequence of deliveries (`addClaim`, `addDelete` are what the driver executes) -/
theorem C07_deliveries_wf (w w' : World) (hg : w.Good) :
    (∀ c, w.addClaim c = some w' → w'.Good) ∧ (∀ d, w.addDelete d = some w' → w'.Good) := by
  constructor
  · intro c h
    unfold World.addClaim at h
    split at h
    · cases h
    · rename_i hlt
      cases h
      refine ⟨?_, ?_⟩
      · intro x hx
        simp only [List.mem_append, List.mem_singleton] at hx
        cases hx with
        | inl hx => have := hg.claimIds x hx; simp only; omega
        | inr hx => subst hx; exact Nat.le_refl _
      · intro d hd
        have := hg.wf d hd
        simp only; omega
  · intro d h
    unfold World.addDelete at h
    split at h
    · cases h
    · rename_i hlt
      have hold : ∀ x ∈ w.dels, refOrd x.target < x.deleter + 1 ∧ x.deleter ≤ d.deleter := by
        intro x hx
        have := hg.wf x hx
        omega
      split at h
      · rename_i id htgt
        split at h
        · rename_i hk
          cases h
          refine ⟨?_, ?_⟩
          · intro x hx
            have := hg.claimIds x hx
            simp only; omega
          · intro x hx
            simp only [List.mem_append, List.mem_singleton] at hx
            cases hx with
            | inl hx => exact hold x hx
            | inr hx =>
              subst hx
              refine ⟨?_, Nat.le_refl _⟩
              rw [htgt]
              simp only [refOrd]
              -- the target is known: its id is at most maxId
              have hid : id ≤ w.maxId := by
                unfold World.knownId at hk
                rw [Bool.or_eq_true, List.any_eq_true, List.any_eq_true] at hk
                cases hk with
                | inl hk =>
                  obtain ⟨c, hc, he⟩ := hk
                  have := hg.claimIds c hc
                  have : c.id = id := by simpa using he
                  omega
                | inr hk =>
                  obtain ⟨x, hx', he⟩ := hk
                  have := (hg.wf x hx').2
                  have : x.deleter = id := by simpa using he
                  omega
              omega
        · cases h
      · rename_i p htgt
        cases h
        refine ⟨?_, ?_⟩
        · intro x hx
          simp only [List.mem_append, List.mem_singleton] at hx
          cases hx with
          | inl hx => have := hg.claimIds x hx; simp only; omega
          | inr hx => subst hx; exact Nat.le_refl _
        · intro x hx
          simp only [List.mem_append, List.mem_singleton] at hx
          cases hx with
          | inl hx => exact hold x hx
          | inr hx =>
            subst hx
            refine ⟨?_, Nat.le_refl _⟩
            rw [htgt]
            simp [refOrd]

example : (World.empty.addClaim exA).bind (fun w => w.addDelete ⟨.cl 1, 2, 0, 10, 0⟩) ≠ none := by decide

/-- **both recursions are the spec, at any delete/undelete depth**: on each of the three paths
(Index.isDeleted over the deletes cache, Corpus.IsDeleted over the live corpus's map and over the map
read back from the `deleted|` rows) the answer satisfies "deleted iff targeted by a delete claim that
is not itself deleted", and it is the only predicate that does – so all three paths agree. -/
theorem C07_isDeleted_spec (w : World) (hw : w.WF) (m : Mode) :
    Spec.IsDeleted w.dels (w.isDeleted m) ∧
    ∀ P, Spec.IsDeleted w.dels P → ∀ x, P x = w.isDeleted m x := by
  have hcongr : ∀ x, w.isDeleted m x = isDeletedIn w.fuel w.dels x := fun x =>
    isDeletedIn_congr (w.mem_deletes m) w.fuel x
  have wf0 : DelWF w.dels refOrd w.fuel := by
    have := w.delWF hw .idx
    exact ⟨fun d hd => this.lt d ((w.mem_deletes .idx d).mpr hd),
      fun d hd => this.bounded d ((w.mem_deletes .idx d).mpr hd)⟩
  constructor
  · rw [isDeleted_bool_iff]
    intro x
    rw [hcongr x, isDeletedIn_fixpoint w.dels refOrd w.fuel wf0 w.fuel (Nat.le_refl _) x]
    apply any_congr_mem
    intro d _
    rw [hcongr]
  · intro P hP x
    rw [hcongr x]
    exact isDeletedIn_unique w.dels refOrd w.fuel wf0 w.fuel (Nat.le_refl _) P ((isDeleted_bool_iff _ _).mp hP) x

/-- the three paths give the same answer -/
theorem C07_isDeleted_paths_agree (w : World) (m m' : Mode) (x : Ref) : w.isDeleted m x = w.isDeleted m' x := by
  unfold World.isDeleted
  exact isDeletedIn_congr (fun d => (w.mem_deletes m d).trans (w.mem_deletes m' d).symm) _ _

/-- a chain of depth 4: claim 1, deleted by 2, deleted by 3, deleted by 4, deleted by 5 -/
def exChain : World :=
  { pns := [0], claims := [exA], maxId := 5,
    dels := [⟨.cl 1, 2, 0, 10, 0⟩, ⟨.cl 2, 3, 0, 11, 0⟩, ⟨.cl 3, 4, 1, 12, 0⟩, ⟨.cl 4, 5, 0, 9, 0⟩] }

example : exChain.WF := by
  intro d hd
  simp only [exChain, List.mem_cons, List.not_mem_nil, or_false] at hd
  rcases hd with rfl | rfl | rfl | rfl <;> simp [refOrd, exChain]
example : [1, 2, 3, 4, 5].map (fun i => exChain.isDeleted .load (.cl i)) = [false, true, false, true, false] := by
  decide

/-! ## the query paths -/

/-- **the index path is the spec** (location.go as repaired by f282908: Index.AppendClaims without
corpus, sort by date and blobref, claimsIntfAttrValue): for every history, permanode, attribute, time
and signer filter the answer is the first of the values the spec allows, deletions included; the
arrangement used is the code's own (`IsLinK`: equal dates by blobref). -/
theorem C07_index_path_spec (w : World) (p : Nat) (attr : Bytes) (at_ : Option Nat) (now : Nat) (f : Option Nat) :
    ∃ l, Spec.IsLinK l (w.claimsOf p) ∧
      let vs := foldVals (l.filter (Spec.counts (fun id => w.idxIsDeleted (.cl id)) attr (at_.getD now) f))
      Spec.AttrValues (w.claimsOf p) (fun id => w.idxIsDeleted (.cl id)) attr (at_.getD now) f vs ∧
      w.idxAttrValue p attr at_ now f = headVal vs := by
  have hl : Spec.IsLinK (sortByDate (w.rowsOf p)) (w.claimsOf p) :=
    ⟨(sortByDate_perm _).trans (w.rowsOf_perm p), sortByDate_sorted _⟩
  refine ⟨_, hl, ⟨_, C07_linK_is_lin _ _ hl, rfl⟩, ?_⟩
  rw [w.idxAttrValue_eq]
  rfl

/-- **the corpus paths are the spec with deletions ignored**: live or loaded at start, cache or fold,
`AppendPermanodeAttrValues` / `PermanodeAttrValue` / `PermanodeHasAttrValue` return the spec values of
the permanode's claims as if nothing were deleted (in the code's arrangement `l`, which is one the
spec allows: `C07_linK_is_lin`). -/
theorem C07_corpus_paths_spec_without_deletion (w : World) (m : Mode) (hm : m ≠ .idx) (p : Nat) (attr val : Bytes)
    (at_ : Option Nat) (now : Nat) (f : Option Nat) :
    ∃ l, Spec.IsLinK l (w.claimsOf p) ∧
      w.corpusAttrValues m p attr at_ now f = foldVals (l.filter (Spec.counts noDel attr (at_.getD now) f)) ∧
      w.corpusAttrValue m p attr at_ now f
        = headVal (foldVals (l.filter (Spec.counts noDel attr (at_.getD now) f))) ∧
      w.corpusHasAttrValue m p attr val at_ now
        = decide (val ∈ foldVals (l.filter (Spec.counts noDel attr (at_.getD now) none))) := by
  unfold World.corpusAttrValues World.corpusAttrValue World.corpusHasAttrValue
  cases h : w.pm m p with
  | none =>
    have he := w.pm_none m p hm h
    refine ⟨[], ⟨by rw [he], by simp [SortedK]⟩, ?_, ?_, ?_⟩ <;> simp [foldVals, headVal]
  | some pm =>
    obtain ⟨hi, hp⟩ := w.pm_inv m p pm h
    refine ⟨pm.claims, ⟨hp, hi.sorted⟩, ?_, ?_, ?_⟩
    · simp only; rw [counts_noDel]; exact pmAttrValues_eq pm hi attr at_ now f
    · simp only; rw [counts_noDel]; exact pmAttrValue_eq pm hi attr at_ now f
    · simp only; rw [counts_noDel]; exact pmHasAttrValue_eq pm hi attr val at_ now

/-- **the two corpus paths agree on every attribute query, equal dates included** (since 83d40e9 the
claim order breaks date ties by blobref, so it no longer depends on arrival order and survives a
restart); the only condition is that no two claim rows share date AND blobref -/
theorem C07_corpus_paths_agree (w : World) (p : Nat) (hd : DistinctKeys (w.claimsOf p)) (attr val : Bytes)
    (at_ : Option Nat) (now : Nat) (f : Option Nat) :
    w.corpusAttrValues .inc p attr at_ now f = w.corpusAttrValues .load p attr at_ now f ∧
    w.corpusAttrValue .inc p attr at_ now f = w.corpusAttrValue .load p attr at_ now f ∧
    w.corpusHasAttrValue .inc p attr val at_ now = w.corpusHasAttrValue .load p attr val at_ now := by
  obtain ⟨l₁, ⟨hp₁, hs₁⟩, a₁, b₁, c₁⟩ :=
    C07_corpus_paths_spec_without_deletion w .inc (by decide) p attr val at_ now f
  obtain ⟨l₂, ⟨hp₂, hs₂⟩, a₂, b₂, c₂⟩ :=
    C07_corpus_paths_spec_without_deletion w .load (by decide) p attr val at_ now f
  have : l₁ = l₂ := sortedK_perm_unique l₁ l₂ (hp₁.trans hp₂.symm) hs₁ hs₂ (hd.perm hp₁.symm)
  subst this
  exact ⟨a₁.trans a₂.symm, b₁.trans b₂.symm, c₁.trans c₂.symm⟩

/-- **all query paths agree with the spec – as far as the code goes**: when no claim row of the
permanode is deleted, the index path, the live corpus and the corpus loaded at start all return the
same spec value (`Spec.attrValues`: equal dates in blobref order – THE spec value when dates are
pairwise distinct, by `C07_spec_linearisation_unique`), for every attribute, time (before / between /
after / zero) and signer filter.  Without the guard this is false: `C07_all_paths_agree_counterexample`. -/
theorem C07_all_paths_agree_partial (w : World) (p : Nat) (hd : DistinctKeys (w.claimsOf p))
    (hnd : ∀ c ∈ w.claimsOf p, w.idxIsDeleted (.cl c.id) = false)
    (attr val : Bytes) (at_ : Option Nat) (now : Nat) (f : Option Nat) :
    let del : Nat → Bool := fun id => w.idxIsDeleted (.cl id)
    let spec := Spec.attrValues (w.claimsOf p) del attr (at_.getD now) f
    w.idxAttrValue p attr at_ now f = headVal spec ∧
    (∀ m, m ≠ .idx → w.corpusAttrValue m p attr at_ now f = headVal spec ∧
      w.corpusAttrValues m p attr at_ now f = spec ∧
      w.corpusHasAttrValue m p attr val at_ now
        = decide (val ∈ Spec.attrValues (w.claimsOf p) del attr (at_.getD now) none)) := by
  intro del spec
  have hfilt : ∀ (l : List Claim) (g : Option Nat), l.Perm (w.claimsOf p) →
      l.filter (Spec.counts noDel attr (at_.getD now) g) = l.filter (Spec.counts del attr (at_.getD now) g) := by
    intro l g hp
    apply List.filter_congr
    intro c hc
    have := hnd c (hp.mem_iff.mp hc)
    simp [Spec.counts, noDel, del, this]
  have huniq : ∀ l, Spec.IsLinK l (w.claimsOf p) → l = sortByDate (w.claimsOf p) := by
    rintro l ⟨hp, hs⟩
    exact sortedK_perm_unique l _ (hp.trans (sortByDate_perm _).symm) hs (sortByDate_sorted _) (hd.perm hp.symm)
  constructor
  · obtain ⟨l, hl, _, hv⟩ := C07_index_path_spec w p attr at_ now f
    rw [hv, huniq l hl]
    rfl
  · intro m hm
    obtain ⟨l, hl, a, b, c⟩ := C07_corpus_paths_spec_without_deletion w m hm p attr val at_ now f
    rw [a, b, c, hfilt l f hl.1, hfilt l none hl.1, huniq l hl]
    exact ⟨rfl, rfl, rfl⟩

/-- set t=n at 1000, set t=o at 2000 (claim 2), claim 2 deleted by claim 3 -/
def exDeleted : World :=
  { pns := [0], maxId := 3, dels := [⟨.cl 2, 3, 0, 3000, 9⟩],
    claims := [⟨1, 7, 0, 0, .set, [116], [110], 1000⟩, ⟨2, 3, 0, 0, .set, [116], [111], 2000⟩] }

/-- **the corpus attribute queries ignore the deletion of attribute claims** (finding F-C07-1): after
the newest set-attribute claim is deleted, the index path answers with the older value (the spec),
both corpus paths still answer with the deleted claim's value. -/
theorem C07_all_paths_agree_counterexample :
    exDeleted.WF ∧ DistinctKeys (exDeleted.claimsOf 0) ∧
    exDeleted.idxAttrValue 0 [116] none 5000 none = [110] ∧
    Spec.attrValues (exDeleted.claimsOf 0) (fun id => exDeleted.idxIsDeleted (.cl id)) [116] 5000 none = [[110]] ∧
    exDeleted.corpusAttrValue .inc 0 [116] none 5000 none = [111] ∧
    exDeleted.corpusAttrValue .load 0 [116] none 5000 none = [111] ∧
    exDeleted.corpusAttrValues .inc 0 [116] (some 2500) 5000 none = [[111]] ∧
    exDeleted.corpusHasAttrValue .load 0 [116] [111] none 5000 = true := by
  refine ⟨?_, ?_, by decide, by decide, by decide, by decide, by decide, by decide⟩
  · intro d hd
    simp only [exDeleted, List.mem_cons, List.not_mem_nil, or_false] at hd
    subst hd; simp [refOrd, exDeleted]
  · simp [DistinctKeys, exDeleted, World.claimsOf]

/-- a history that satisfies the guards of `C07_all_paths_agree_partial`: claims delivered out of date
order by two signers, one claim deleted and undeleted again -/
def exUndeleted : World :=
  { pns := [0], maxId := 5, claims := [exA, exB, exC],
    dels := [⟨.cl 1, 4, 0, 10, 0⟩, ⟨.cl 4, 5, 1, 11, 0⟩] }

example : DistinctKeys (exUndeleted.claimsOf 0) := by simp [DistinctKeys, exUndeleted, World.claimsOf, exA, exB, exC]
example : ∀ c ∈ exUndeleted.claimsOf 0, exUndeleted.idxIsDeleted (.cl c.id) = false := by decide
example : exUndeleted.idxAttrValue 0 [116] (some 2500) 0 none = [111] := by decide

/-! ## Describe -/

/-- **Describe is the spec on all three index modes, deletions respected**: `search.Handler.Describe`
(describe.go:820 populatePermanodeFields over index.AppendClaims for the handler's owner, with or
without corpus) returns the spec values of the owner's non-deleted claims, presented as a set (`norm`:
empty values dropped, first occurrence of a value kept).  Its zero time means "all claims"
(DescribeRequest.At), i.e. any `t` no claim is dated after. -/
theorem C07_describe_path_spec (w : World) (m : Mode) (p : Nat) (attr : Bytes) (at_ : Option Nat) (s t : Nat)
    (ht : at_ = some t ∨ (at_ = none ∧ ∀ c ∈ w.claimsOf p, c.date ≤ t)) :
    ∃ vs, Spec.AttrValues (w.claimsOf p) (fun id => w.idxIsDeleted (.cl id)) attr t (some s) vs ∧
      w.describe m p attr at_ s = norm vs := by
  obtain ⟨l, hp, hs, he⟩ := w.describe_eq m p attr at_ s
  refine ⟨_, ⟨l, ⟨hp, hs.sorted⟩, rfl⟩, ?_⟩
  rw [he]
  congr 2
  apply List.filter_congr
  intro c hc
  cases ht with
  | inl h => subst h; simp [Spec.counts, notAfter]
  | inr h =>
    obtain ⟨h1, h2⟩ := h
    subst h1
    have := h2 c (hp.mem_iff.mp hc)
    simp [Spec.counts, notAfter, this]

/-- the three modes give the same Describe answer, equal dates included (Describe sorts the owner's
claims with the same total order, describe.go:833) -/
theorem C07_describe_modes_agree (w : World) (p : Nat) (hd : DistinctKeys (w.claimsOf p)) (m m' : Mode)
    (attr : Bytes) (at_ : Option Nat) (s : Nat) : w.describe m p attr at_ s = w.describe m' p attr at_ s := by
  obtain ⟨l, hp, hs, he⟩ := w.describe_eq m p attr at_ s
  obtain ⟨l', hp', hs', he'⟩ := w.describe_eq m' p attr at_ s
  have : l = l' := sortedK_perm_unique l l' (hp.trans hp'.symm) hs hs' (hd.perm hp.symm)
  rw [he, he', this]

example : exDeleted.describe .inc 0 [116] none 0 = [[110]] := by decide
example : exDeleted.describe .idx 0 [116] (some 2500) 0 = [[110]] := by decide

/-! ## AppendClaims -/

/-- **deleted claims are skipped, on every path**: Index.AppendClaims (rows, no corpus) and
Corpus.AppendClaims (live or loaded) return exactly the permanode's claim rows that are not deleted and
pass the signer and attribute filters; the corpus returns them in date order, equal dates by blobref
(the index promises no order: interface.go). -/
theorem C07_appendClaims_spec (w : World) (p : Nat) (f : Option Nat) (a : Option Bytes) :
    let want := (w.claimsOf p).filter (fun c =>
      signerOk f c && !w.idxIsDeleted (.cl c.id) && attrFilterOk a c)
    (w.idxAppendClaims p f a).Perm want ∧
    ∀ m, m ≠ .idx → (w.corpusAppendClaims m p f a).Perm want ∧ SortedK (w.corpusAppendClaims m p f a) := by
  intro want
  constructor
  · exact List.Perm.filter _ (w.rowsOf_perm p)
  · intro m hm
    unfold World.corpusAppendClaims
    cases h : w.pm m p with
    | none =>
      have he := w.pm_none m p hm h
      simp only [want, he]
      exact ⟨by simp, by simp [SortedK]⟩
    | some pm =>
      obtain ⟨hi, hp⟩ := w.pm_inv m p pm h
      simp only
      constructor
      · have : pm.claims.filter (fun c => !w.isDeleted m (.cl c.id) && signerOk f c && attrFilterOk a c)
            = pm.claims.filter (fun c => signerOk f c && !w.idxIsDeleted (.cl c.id) && attrFilterOk a c) := by
          apply List.filter_congr
          intro c _
          have : w.isDeleted m (.cl c.id) = w.idxIsDeleted (.cl c.id) := C07_isDeleted_paths_agree w m .idx _
          rw [this]
          cases signerOk f c <;> cases w.idxIsDeleted (.cl c.id) <;> simp
        rw [this]
        exact List.Perm.filter _ hp
      · exact hi.sorted.filter _

example : (exDeleted.idxAppendClaims 0 none none).map (·.id) = [1] := by decide
example : (exDeleted.corpusAppendClaims .inc 0 none none).map (·.id) = [1] := by decide

/-! ## facts regenerated from the source (Pk.Gen, group C07) -/

/-- the four claim-type strings the folds switch on are the ones the model's `Kind` names, pairwise
distinct (so a claim's `Type` determines its `Kind`) -/
theorem C07_gen_claim_types :
    Gen.c07ClaimTypes = ["set-attribute", "add-attribute", "del-attribute", "delete"] ∧ Gen.c07ClaimTypes.Nodup := by
  decide

/-- location.go, index without corpus: the claims of AppendClaims are sorted by date before they are
folded (f282908) – the composition the harness's `attr idx` executes and `World.idxAttrValue` models -/
theorem C07_gen_location_sorts_before_fold : Gen.c07LocationCalls = ["AppendClaims", "sort.Sort", "claimSlice"] := by
  decide

/-- camtypes: `ClaimPtrsByDate.Less` and `ClaimsByDate.Less` both go through `claimBefore`, which orders
equal dates by blobref (83d40e9) – the order `claimLt` / `dateLe` model -/
theorem C07_gen_claim_order_tie_break : Gen.c07ClaimOrderTieBreak = true := by decide

/-- describe.go populatePermanodeFields sorts the owner's claims (ClaimsByDate) after AppendClaims and
before folding them – `World.describe` models exactly that; the index rows alone are in the order of
the date TEXT, which is not the order in time inside one second -/
theorem C07_gen_describe_sorts_before_fold :
    Gen.c07DescribeCalls = ["AppendClaims", "sort.Sort", "ClaimsByDate"] := by decide

/-- scanFromStorage: every scanPrefix precedes restoreInvariants, which precedes initDeletes (`loadPM`) -/
theorem C07_gen_scan_order :
    Gen.c07ScanCalls.dropWhile (· == "scanPrefix") = ["restoreInvariants", "initDeletes"] := by decide

/-- valuesAtSigner turns the zero time into time.Now() instead of returning the cache (2f922c1) -/
theorem C07_gen_zero_time_is_now : Gen.c07ZeroTimeIsNow = true := by decide

/-- mergeClaimRow appends the claim and calls fixupLastClaim exactly when the corpus is not building -/
theorem C07_gen_fixup_when_not_building : Gen.c07FixupWhenNotBuilding = true := by decide

end Pk.Attr
