import PkVerif.Model.Receive
import PkVerif.Props.C01
import PkVerif.Gen.Facts
/-!
# C02 – only bytes matching their blobref, within the size cap, are ever accepted

`Pk.Recv.receive` models `blobserver.receive` (size-capping reader + hash-checking reader in front of
a destination that commits on EOF only).  The hash is a parameter; `max` is a parameter, instantiated
by the regenerated `Pk.Gen.maxBlobSize`.
-/
namespace Pk.Recv
open Pk Pk.RefMap

/-- what the consumer sees depends only on the concatenation of the fragments and on how the source
ends – never on the fragmentation -/
theorem pump_spec (remain : Nat) (acc : Bytes) (frags : List Bytes) (fin : End) :
    pump remain acc frags fin =
      if frags.flatten.length ≤ remain then
        (match fin with | .eof => .eof (acc ++ frags.flatten) | .err => .err (acc ++ frags.flatten))
      else .tooBig (acc ++ frags.flatten.take remain) := by
  induction frags generalizing remain acc with
  | nil => cases fin <;> simp [pump]
  | cons f fs ih =>
    simp only [pump, List.flatten_cons, List.length_append]
    by_cases hf : f.length ≤ remain
    · simp only [hf, if_true, ih]
      by_cases hr : fs.flatten.length ≤ remain - f.length
      · have : f.length + fs.flatten.length ≤ remain := by omega
        simp only [hr, this, if_true, List.append_assoc]
      · have : ¬ f.length + fs.flatten.length ≤ remain := by omega
        simp only [hr, this, if_false, List.append_assoc]
        congr 2
        rw [List.take_append]
        have : List.take remain f = f := List.take_of_length_le hf
        rw [this]
    · have : ¬ f.length + fs.flatten.length ≤ remain := by omega
      simp only [hf, this, if_false]
      congr 2
      rw [List.take_append]
      have h0 : remain - f.length = 0 := by omega
      simp [h0]

/-- `receive` in closed form -/
theorem receive_eq (max : Nat) (supported : Bool) (m : Bytes → Bool) (src : Src) :
    receive max supported m src =
      if supported = false then .badHash
      else if src.total.length ≤ max then
        (match src.fin with
         | .eof => if m src.total = true then .accepted src.total else .corrupt
         | .err => .srcErr)
      else .tooBig := by
  unfold receive
  rw [pump_spec]
  cases supported
  · rfl
  · simp only [Bool.not_true, Bool.false_eq_true, if_false, List.nil_append]
    by_cases hl : src.total.length ≤ max
    · have hl' : src.frags.flatten.length ≤ max := hl
      rw [if_pos hl', if_pos hl]
      cases src.fin <;> rfl
    · have hl' : ¬ src.frags.flatten.length ≤ max := hl
      rw [if_neg hl', if_neg hl]
      rfl

/-- **acceptance**: a blob is accepted exactly when the ref's hash is supported, the source ended
with EOF (no mid-stream error), it delivered no more than `max` bytes in total and those bytes hash to
the ref – for every fragmentation. What is stored is exactly those bytes. -/
theorem C02_accept_iff (max : Nat) (supported : Bool) (m : Bytes → Bool) (src : Src) (stored : Bytes) :
    receive max supported m src = .accepted stored ↔
      supported = true ∧ src.fin = .eof ∧ src.total.length ≤ max ∧ m src.total = true ∧ stored = src.total := by
  rw [receive_eq]
  cases supported
  · simp
  · simp only [Bool.true_eq_false, if_false, true_and]
    by_cases hl : src.total.length ≤ max
    · rw [if_pos hl]
      cases hfin : src.fin with
      | eof =>
        by_cases hm : m src.total = true
        · simp [hm, hl, eq_comm]
        · simp [hm]
      | err => simp
    · rw [if_neg hl]; simp [hl]

/-- everything else is a rejection with the documented class -/
theorem C02_reject_classes (max : Nat) (supported : Bool) (m : Bytes → Bool) (src : Src) :
    (supported = false → receive max supported m src = .badHash) ∧
    (supported = true → src.total.length > max → receive max supported m src = .tooBig) ∧
    (supported = true → src.total.length ≤ max → src.fin = .eof → m src.total = false →
      receive max supported m src = .corrupt) ∧
    (supported = true → src.total.length ≤ max → src.fin = .err → receive max supported m src = .srcErr) := by
  rw [receive_eq]
  refine ⟨?_, ?_, ?_, ?_⟩
  · intro h; simp [h]
  · intro h hl
    have : ¬ src.total.length ≤ max := by omega
    rw [if_neg (by simp [h]), if_neg this]
  · intro h hl hf hm
    rw [if_neg (by simp [h]), if_pos hl, hf]; simp [hm]
  · intro h hl hf
    rw [if_neg (by simp [h]), if_pos hl, hf]

/-- the answer does not depend on how the source fragments its data -/
theorem C02_fragmentation_independent (max : Nat) (supported : Bool) (m : Bytes → Bool) (a b : Src)
    (ht : a.total = b.total) (hf : a.fin = b.fin) :
    receive max supported m a = receive max supported m b := by
  rw [receive_eq, receive_eq, ht, hf]

/-- **a rejected upload leaves no trace**: the store is not touched and the hub is not notified -/
theorem C02_reject_no_trace (I : Impl) (max : Nat) (supported : Bool) (m : Bytes → Bool)
    (s : I.σ) (k : Bytes) (src : Src) (h : (receive max supported m src).isAccepted = false) :
    (receiveInto I max supported m s k src).state = s ∧ (receiveInto I max supported m s k src).hub = [] := by
  unfold receiveInto
  cases hr : receive max supported m src with
  | accepted d => simp [hr, Res.isAccepted] at h
  | corrupt => exact ⟨rfl, rfl⟩
  | tooBig => exact ⟨rfl, rfl⟩
  | srcErr => exact ⟨rfl, rfl⟩
  | badHash => exact ⟨rfl, rfl⟩

/-- an accepted upload on a store that refines the reference map stores exactly the offered bytes
under the ref and notifies the hub once -/
theorem C02_accept_stores_exactly {content : Bytes → Bytes} {I : Impl} (R : Refines content I)
    (max : Nat) (supported : Bool) (m : Bytes → Bool) (s : I.σ) (hs : R.Inv s) (k : Bytes) (src : Src)
    (stored : Bytes) (h : receive max supported m src = .accepted stored)
    (hwk : stored = content k ∧ k ≠ []) :
    stored = src.total ∧ stored.length ≤ max ∧
    R.abs (receiveInto I max supported m s k src).state = next (R.abs s) (.recv k stored) ∧
    (receiveInto I max supported m s k src).hub = [k] := by
  obtain ⟨_, _, hl, _, hst⟩ := (C02_accept_iff max supported m src stored).mp h
  obtain ⟨ho, ha, _⟩ := R.step_ok s (.recv k stored) hs hwk
  refine ⟨hst, by rw [hst]; exact hl, ?_, ?_⟩
  · unfold receiveInto
    simp only [h]
    generalize hstep : I.step s (.recv k stored) = pr at ho ha
    obtain ⟨s', o⟩ := pr
    simp only [out] at ho
    simp only at ho ha
    subst ho
    exact ha
  · unfold receiveInto
    simp only [h]
    generalize hstep : I.step s (.recv k stored) = pr at ho ha
    obtain ⟨s', o⟩ := pr
    simp only [out] at ho
    subst ho
    rfl

/-- PUT answers 204 only for an accepted blob; a declared length over the cap, an unparsable or
unsupported ref and a digest mismatch are 400s -/
theorem C02_put_204_iff (max : Nat) (isPut : Bool) (cl : Option Nat) (parses supported : Bool)
    (m : Bytes → Bool) (src : Src) :
    (putDecision max isPut cl parses supported m src).1 = .noContent204 ↔
      isPut = true ∧ (∀ n, cl = some n → n ≤ max) ∧ parses = true ∧ supported = true ∧
      (receive max true m src).isAccepted = true := by
  unfold putDecision
  cases isPut
  · simp
  · cases cl with
    | none =>
      cases parses <;> cases supported <;> simp
      cases hr : receive max true m src <;> simp [Res.isAccepted]
    | some n =>
      by_cases hn : n > max
      · have : ¬ n ≤ max := by omega
        simp [hn, this]
      · have : n ≤ max := by omega
        cases parses <;> cases supported <;> simp [hn, this]
        cases hr : receive max true m src <;> simp [Res.isAccepted]

/-- the multipart response lists only parts that were accepted, with their true sizes -/
theorem C02_multipart_lists_only_accepted (max : Nat) (parts : List Part) :
    ∀ e ∈ multipart max parts, ∃ p ∈ parts, p.parses = true ∧ p.key = e.1 ∧
      ∃ d, receive max p.supported p.matches_ p.src = .accepted d ∧ d.length = e.2 := by
  induction parts with
  | nil => intro e he; simp [multipart] at he
  | cons p ps ih =>
    intro e he
    unfold multipart at he
    by_cases hp : p.parses = true
    · simp only [hp, Bool.not_true, Bool.false_eq_true, if_false] at he
      cases hr : receive max p.supported p.matches_ p.src with
      | accepted d =>
        simp only [hr] at he
        cases he with
        | head => exact ⟨p, by simp, hp, rfl, d, hr, rfl⟩
        | tail _ he' =>
          obtain ⟨q, hq, h⟩ := ih e he'
          exact ⟨q, by simp [hq], h⟩
      | corrupt => simp [hr] at he
      | tooBig => simp [hr] at he
      | srcErr => simp [hr] at he
      | badHash => simp [hr] at he
    · have : p.parses = false := by cases h : p.parses <;> simp_all
      simp only [this, Bool.not_false, if_true] at he
      obtain ⟨q, hq, h⟩ := ih e he
      exact ⟨q, by simp [hq], h⟩

/-- completeness of the multipart response: when every part has a parsable name and is accepted,
every part is listed, in request order, with the size of what was stored -/
theorem C02_multipart_all_accepted (max : Nat) (parts : List Part)
    (h : ∀ p ∈ parts, p.parses = true ∧ (receive max p.supported p.matches_ p.src).isAccepted = true) :
    multipart max parts = parts.map (fun p => (p.key, p.src.total.length)) := by
  induction parts with
  | nil => rfl
  | cons p ps ih =>
    obtain ⟨hp, ha⟩ := h p (by simp)
    have ih' := ih (fun q hq => h q (by simp [hq]))
    unfold multipart
    simp only [hp, Bool.not_true, Bool.false_eq_true, if_false, List.map_cons]
    cases hr : receive max p.supported p.matches_ p.src with
    | accepted d =>
      obtain ⟨_, _, _, _, hst⟩ := (C02_accept_iff max p.supported p.matches_ p.src d).mp hr
      simp only [ih', hst]
    | corrupt => simp [hr, Res.isAccepted] at ha
    | tooBig => simp [hr, Res.isAccepted] at ha
    | srcErr => simp [hr, Res.isAccepted] at ha
    | badHash => simp [hr, Res.isAccepted] at ha

/-- the handler stops at the first failing part: nothing after it is received or listed -/
theorem C02_multipart_stops_at_first_failure (max : Nat) (pre : List Part) (bad : Part) (post : List Part)
    (hpre : ∀ p ∈ pre, p.parses = true ∧ (receive max p.supported p.matches_ p.src).isAccepted = true)
    (hbad : bad.parses = true ∧ (receive max bad.supported bad.matches_ bad.src).isAccepted = false) :
    multipart max (pre ++ bad :: post) = pre.map (fun p => (p.key, p.src.total.length)) := by
  induction pre with
  | nil =>
    obtain ⟨hp, ha⟩ := hbad
    simp only [List.nil_append, List.map_nil]
    unfold multipart
    simp only [hp, Bool.not_true, Bool.false_eq_true, if_false]
    cases hr : receive max bad.supported bad.matches_ bad.src with
    | accepted d => simp [hr, Res.isAccepted] at ha
    | corrupt => rfl
    | tooBig => rfl
    | srcErr => rfl
    | badHash => rfl
  | cons p ps ih =>
    obtain ⟨hp, ha⟩ := hpre p (by simp)
    have ih' := ih (fun q hq => hpre q (by simp [hq]))
    simp only [List.cons_append, List.map_cons]
    unfold multipart
    simp only [hp, Bool.not_true, Bool.false_eq_true, if_false]
    cases hr : receive max p.supported p.matches_ p.src with
    | accepted d =>
      obtain ⟨_, _, _, _, hst⟩ := (C02_accept_iff max p.supported p.matches_ p.src d).mp hr
      simp only [ih', hst]
    | corrupt => simp [hr, Res.isAccepted] at ha
    | tooBig => simp [hr, Res.isAccepted] at ha
    | srcErr => simp [hr, Res.isAccepted] at ha
    | badHash => simp [hr, Res.isAccepted] at ha

/-- the cap in the source is the documented 16 MiB -/
theorem C02_gen_max_is_16MiB : Gen.maxBlobSize = 16 * 1024 * 1024 := by decide

/-! ## every history: the invariant over any sequence of uploads and removals -/

/-- an event at a store's ingest side: a verified upload offered under ref `k` (hash supported or
not, any source), or a removal -/
inductive Ev where
  | upload (k : Bytes) (supported : Bool) (src : Src)
  | remove (k : Bytes)

/-- the effect of one event on the reference map (what `receiveInto` does to the abstraction of any
refining store, `C02_accept_stores_exactly` / `C02_reject_no_trace`); `m k` = "hashes to ref `k`" -/
def applyEv (max : Nat) (m : Bytes → Bytes → Bool) (st : SMap Bytes) : Ev → SMap Bytes
  | .upload k sup src =>
    match receive max sup (m k) src with
    | .accepted d => next st (.recv k d)
    | _ => st
  | .remove k => next st (.rm k)

/-- every stored blob hashes to its ref and is within the cap -/
def Clean (max : Nat) (m : Bytes → Bytes → Bool) (st : SMap Bytes) : Prop :=
  ∀ k v, SMap.get st k = some v → m k v = true ∧ v.length ≤ max

theorem applyEv_clean (max : Nat) (m : Bytes → Bytes → Bool) (st : SMap Bytes) (hk : SMap.KAsc st)
    (hc : Clean max m st) (e : Ev) :
    SMap.KAsc (applyEv max m st e) ∧ Clean max m (applyEv max m st e) := by
  cases e with
  | upload k sup src =>
    cases hr : receive max sup (m k) src with
    | accepted d =>
      obtain ⟨_, _, hl, hm, hst⟩ := (C02_accept_iff max sup (m k) src d).mp hr
      simp only [applyEv, hr, next]
      split
      · exact ⟨hk, hc⟩
      · refine ⟨SMap.kasc_ins k d hk, ?_⟩
        intro k' v' h
        rw [SMap.get_ins] at h
        by_cases hkk : k' = k
        · subst hkk
          simp only [if_true, Option.some.injEq] at h
          subst h; subst hst
          exact ⟨hm, hl⟩
        · simp only [hkk, if_false] at h; exact hc _ _ h
    | corrupt => simp only [applyEv, hr]; exact ⟨hk, hc⟩
    | tooBig => simp only [applyEv, hr]; exact ⟨hk, hc⟩
    | srcErr => simp only [applyEv, hr]; exact ⟨hk, hc⟩
    | badHash => simp only [applyEv, hr]; exact ⟨hk, hc⟩
  | remove k =>
    refine ⟨SMap.kasc_del k hk, ?_⟩
    intro k' v' h
    simp only [applyEv, next] at h
    rw [SMap.get_del k hk] at h
    by_cases hkk : k' = k
    · simp [hkk] at h
    · simp only [hkk, if_false] at h; exact hc _ _ h

/-- **every history**: whatever sequence of uploads (any ref, any hash, any source, any
fragmentation, any ending) and removals a store has seen, every blob it holds hashes to its ref
under the ref's own function and is no larger than the cap – by induction over the history, no
bound on its length -/
theorem C02_history_only_matching_within_cap (max : Nat) (m : Bytes → Bytes → Bool) (evs : List Ev)
    (st : SMap Bytes) (hk : SMap.KAsc st) (hc : Clean max m st) :
    Clean max m (evs.foldl (applyEv max m) st) := by
  induction evs generalizing st with
  | nil => exact hc
  | cons e es ih =>
    obtain ⟨hk', hc'⟩ := applyEv_clean max m st hk hc e
    exact ih _ hk' hc'

/-- from the empty store -/
theorem C02_history_from_empty (max : Nat) (m : Bytes → Bytes → Bool) (evs : List Ev) :
    Clean max m (evs.foldl (applyEv max m) []) :=
  C02_history_only_matching_within_cap max m evs [] SMap.kasc_nil
    (by intro k v h; simp [SMap.get] at h)

/-- with the regenerated cap: no stored blob ever exceeds 16 MiB -/
theorem C02_history_gen_cap (m : Bytes → Bytes → Bool) (evs : List Ev) (k v : Bytes)
    (h : SMap.get (evs.foldl (applyEv Gen.maxBlobSize m) []) k = some v) :
    m k v = true ∧ v.length ≤ 16 * 1024 * 1024 := by
  have := C02_history_from_empty Gen.maxBlobSize m evs k v h
  rw [C02_gen_max_is_16MiB] at this
  exact this

/-- the same events on an implementation model: uploads go through `receiveInto`, removals through
the store's own step -/
def applyEvImpl (I : Impl) (max : Nat) (m : Bytes → Bytes → Bool) (s : I.σ) : Ev → I.σ
  | .upload k sup src => (receiveInto I max sup (m k) s k src).state
  | .remove k => (I.step s (.rm k)).1

theorem receiveInto_state_accepted (I : Impl) (max : Nat) (sup : Bool) (mk : Bytes → Bool) (s : I.σ)
    (k : Bytes) (src : Src) (d : Bytes) (hr : receive max sup mk src = .accepted d) :
    (receiveInto I max sup mk s k src).state = (I.step s (.recv k d)).1 := by
  unfold receiveInto
  simp only [hr]
  generalize I.step s (.recv k d) = pr
  obtain ⟨s', o⟩ := pr
  cases o <;> rfl

/-- **every history, every store**: on any storage model that refines the reference map (every
backend and every nesting of combinators of C01), the store's abstraction after any history of
uploads and removals is the reference map after the same history – so, with
`C02_history_only_matching_within_cap`, it only ever holds blobs that hash to their refs within the
cap. `hcf` is collision freedom: only the content a ref denotes hashes to it. -/
theorem C02_history_on_any_store {content : Bytes → Bytes} {I : Impl} (R : Refines content I)
    (max : Nat) (m : Bytes → Bytes → Bool) (hcf : ∀ k d, m k d = true → d = content k ∧ k ≠ [])
    (evs : List Ev) (s : I.σ) (hs : R.Inv s) :
    R.Inv (evs.foldl (applyEvImpl I max m) s) ∧
    R.abs (evs.foldl (applyEvImpl I max m) s) = evs.foldl (applyEv max m) (R.abs s) := by
  induction evs generalizing s with
  | nil => exact ⟨hs, rfl⟩
  | cons e es ih =>
    simp only [List.foldl_cons]
    cases e with
    | upload k sup src =>
      cases hr : receive max sup (m k) src with
      | accepted d =>
        obtain ⟨_, _, _, hm, hst⟩ := (C02_accept_iff max sup (m k) src d).mp hr
        obtain ⟨_, ha, hi⟩ := R.step_ok s (.recv k d) hs (hcf k d (by rw [hst]; exact hm))
        have hst' := receiveInto_state_accepted I max sup (m k) s k src d hr
        have h1 : applyEvImpl I max m s (.upload k sup src) = (I.step s (.recv k d)).1 := hst'
        have h2 : applyEv max m (R.abs s) (.upload k sup src) = next (R.abs s) (.recv k d) := by
          simp only [applyEv, hr]
        rw [h1, h2, ← ha]
        exact ih _ hi
      | corrupt | tooBig | srcErr | badHash =>
        have hrej : (receive max sup (m k) src).isAccepted = false := by rw [hr]; rfl
        have h1 : applyEvImpl I max m s (.upload k sup src) = s :=
          (C02_reject_no_trace I max sup (m k) s k src hrej).1
        have h2 : applyEv max m (R.abs s) (.upload k sup src) = R.abs s := by
          simp only [applyEv, hr]
        rw [h1, h2]
        exact ih _ hs
    | remove k =>
      obtain ⟨_, ha, hi⟩ := R.step_ok s (.rm k) hs trivial
      have h1 : applyEvImpl I max m s (.remove k) = (I.step s (.rm k)).1 := rfl
      have h2 : applyEv max m (R.abs s) (.remove k) = next (R.abs s) (.rm k) := rfl
      rw [h1, h2, ← ha]
      exact ih _ hi

/-- corollary from the initial state of any refining store -/
theorem C02_any_store_holds_only_matching {content : Bytes → Bytes} {I : Impl} (R : Refines content I)
    (max : Nat) (m : Bytes → Bytes → Bool) (hcf : ∀ k d, m k d = true → d = content k ∧ k ≠ [])
    (evs : List Ev) (k v : Bytes)
    (h : SMap.get (R.abs (evs.foldl (applyEvImpl I max m) I.init)) k = some v) :
    m k v = true ∧ v.length ≤ max := by
  rw [(C02_history_on_any_store R max m hcf evs I.init R.init_inv).2, R.init_abs] at h
  exact C02_history_from_empty max m evs k v h

/-- **every history, every nesting of backends**: for every configuration tree the C01 refinement
covers (any depth; namespace, proxycache, overlay, shard, replica, cond over memory leaves), every shard
routing function and schema predicate, after any history of verified uploads and removals the store
holds only blobs that hash to their refs and are within the cap -/
theorem C02_all_nestings_hold_only_matching (content : Bytes → Bytes) (route isSchema : Bytes → Bool)
    (c : Stores.Cfg) (hc : c.WF = true) (max : Nat) (m : Bytes → Bytes → Bool)
    (hcf : ∀ k d, m k d = true → d = content k ∧ k ≠ []) (evs : List Ev) (k v : Bytes)
    (h : SMap.get ((Stores.interpRefines content route isSchema c hc).abs
      (evs.foldl (applyEvImpl (Stores.interp route isSchema c) max m) (Stores.interp route isSchema c).init)) k
        = some v) :
    m k v = true ∧ v.length ≤ max :=
  C02_any_store_holds_only_matching (Stores.interpRefines content route isSchema c hc) max m hcf evs k v h

/-- non-vacuity: a history with a corrupt, an oversized and a good upload and a removal ends with
exactly the good blob -/
example :
    ([Ev.upload [7] true ⟨[[1], [2]], .eof⟩, .upload [8] true ⟨[[9, 9, 9, 9, 9]], .eof⟩,
      .upload [9] true ⟨[[3], [], [4]], .eof⟩, .upload [5] true ⟨[[5]], .eof⟩, .remove [5]].foldl
      (applyEv 4 (fun k v => (k, v) == ([9], [3, 4]) || (k, v) == ([5], [5]))) []) = [([9], [3, 4])] := by
  decide

/-- the defect repaired in /repo (F-C02-1): with a *truncating* reader (`io.LimitReader`, the code as
pinned) a source longer than the cap whose first `max` bytes match is accepted. Modelled by replacing
`tooBig` with EOF after `max` bytes. -/
def receiveTruncating (max : Nat) (m : Bytes → Bool) (src : Src) : Res :=
  if m (src.total.take max) then .accepted (src.total.take max) else .corrupt

theorem C02_truncating_receive_counterexample :
    ∃ (max : Nat) (m : Bytes → Bool) (src : Src),
      (receiveTruncating max m src).isAccepted = true ∧ src.total.length > max ∧
      (receive max true m src) = .tooBig :=
  ⟨2, fun b => b == [1, 2], ⟨[[1], [2, 3]], .eof⟩, by decide, by decide, by decide⟩

/-- non-vacuity: a fragmented, matching, in-limit source is accepted -/
example : receive 4 true (fun b => b == [1, 2, 3]) ⟨[[1], [], [2, 3]], .eof⟩ = .accepted [1, 2, 3] := by decide

end Pk.Recv
