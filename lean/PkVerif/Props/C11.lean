import PkVerif.Lemmas.EncryptToy
import PkVerif.Lemmas.EncryptRefine
import PkVerif.Gen.C11
/-!
# C11 – the encrypting store leaks no plaintext, detects tampering, and is recoverable

Model: `PkVerif/Model/Encrypt.lean` (pkg/blobserver/encrypt/encrypt.go, meta.go).  The cipher is a
parameter: an `AEAD` structure whose laws (`dec_enc`, `integrity`) are hypothesis fields; the digest is a
parameter too.  The theorems are stated for ALL parameters, under the explicit idealisations `Ideal P`
(collision-free digest whose text is a ref; ciphertexts show their randomness).  `toyP`/`toy_ideal` show
these hypotheses are jointly satisfiable.

**The claim is partial by construction.**  `C11_only_ciphertext_below` is a data-flow statement: every
byte string handed to the wrapped stores is `version ‖ A.enc key r t` and every name is the digest of
such a string.  That this reveals nothing about `t` is the secrecy of the cipher (age: X25519 +
ChaCha20-Poly1305), which Lean does not see – the toy cipher satisfies every law here and hides nothing.

Reachable states (`Reach`) are all interleavings of the micro-steps of the ReceiveBlob in flight and of
every running packer (`makePackedMetaBlob` goroutine), with a crash + restart possible between any two
micro-steps.  The ORDER of the micro-steps is read from the regenerated effect lists (`C11_gen_*`).
-/
namespace Pk.Encrypt
open Pk Pk.SMap

/-! ## facts regenerated from the source -/

/-- ReceiveBlob: encrypted blob to `s.blobs`, single meta blob to `s.meta`, recordMeta, index.Set – in
that order (encrypt.go:176-194) -/
theorem C11_gen_recv_order : recvSteps Gen.encryptReceiveEffects Gen.encryptRecvTargets = goodR := by decide

/-- makePackedMetaBlob uploads the packed meta blob BEFORE it removes the small ones (meta.go:146-156) -/
theorem C11_gen_pack_order : packSteps Gen.encryptPackEffects = goodP := by decide

/-- both the upload and the removal of makePackedMetaBlob go to the meta store -/
theorem C11_gen_pack_targets : Gen.encryptPackTargets = ["s.meta", "rm:s.meta"] := by decide

/-- processEncryptedMetaBlob sets index rows (in its loop) and then records the blob in the heap; it
uploads and removes nothing -/
theorem C11_gen_scan_order :
    Gen.encryptScanEffects.map (·.e) = [.indexSet, .recordMeta] := by decide

/-- the string literals that fix the meta format are the ones the model uses -/
theorem C11_gen_formats :
    Gen.encryptPackedHeader = headerLine ++ [10] ∧ Gen.encryptScanHeader = headerLine ++ [10] ∧
    Gen.encryptSingleFormat = headerLine ++ [10] ++ [37, 115, 47, 37, 100, 47, 37, 115, 10] ∧
    Gen.encryptIndexFormat = [37, 100, 47, 37, 115] ∧ Gen.encryptPackedSeps = [47, 10] := by decide

/-- the version byte and the compaction thresholds the driver runs with -/
theorem C11_gen_consts :
    Gen.encryptVersion = 2 ∧ 0 < Gen.encryptSmallMetaCountLimit ∧
    Gen.encryptSmallMetaCountLimit < Gen.encryptFullMetaBlobSize := by decide

/-! ## the format round-trips -/

/-- packIndexEntry / unpackIndexEntry -/
theorem C11_index_entry_roundtrip (P : Params) (I : Ideal P) (size : Nat) (hs : size < 4294967296) (c : Bytes) :
    unpackIndexEntry P (packIndexEntry size (P.digest c)) = some (size, P.digest c) :=
  unpack_pack I size hs c

example : unpackIndexEntry (toyP 100 10000) (packIndexEntry 17 (toyDigest [1, 2])) = some (17, toyDigest [1, 2]) :=
  C11_index_entry_roundtrip _ (toy_ideal _ _) 17 (by decide) _

/-- what makeSingleMetaBlob and makePackedMetaBlob write, processEncryptedMetaBlob reads back: every
line, in order -/
theorem C11_meta_format_roundtrip (P : Params) (r : Nat) (ls : List (Bytes × Bytes))
    (h : ∀ pv ∈ ls, GoodLine P pv) (idx : SMap Bytes) :
    processEncryptedMetaBlob P idx (encryptBlob P r (fmtMeta ls)) = (setAll ls idx, some (ls.map (·.1))) :=
  process_of_linesOf P idx _ ls (linesOf_encrypt P r ls h)

/-! ## data flow: only ciphertext below -/

/-- **Data flow.**  In every reachable state, every call ever made to the wrapped stores wrote
`version ‖ enc key r t` under the digest of exactly those bytes, or removed blobs named by such digests.
No plaintext byte string and no plaintext ref is handed down other than inside `enc`. -/
theorem C11_only_ciphertext_below (P : Params) (I : Ideal P) (recvEffs packEffs : List EffAt) (targets : List String)
    (hr : recvSteps recvEffs targets = goodR) (hp : packSteps packEffs = goodP)
    (s : St) (h : Reach P (recvSteps recvEffs targets) (packSteps packEffs) s) :
    ∀ c ∈ s.trace, match c with
      | .putBlobs n b => ∃ r t, b = P.version :: P.A.enc P.key r t ∧ n = P.digest b
      | .putMeta n b => ∃ r t, b = P.version :: P.A.enc P.key r t ∧ n = P.digest b
      | .rmMeta ns => ∀ n ∈ ns, ∃ r t, n = P.digest (P.version :: P.A.enc P.key r t) := by
  rw [hr, hp] at h
  intro c hc
  have := trace_reach I h c hc
  cases c <;> exact this

/-- … with the order of effects found in the source -/
theorem C11_only_ciphertext_below_gen (P : Params) (I : Ideal P) (s : St)
    (h : Reach P (recvSteps Gen.encryptReceiveEffects Gen.encryptRecvTargets) (packSteps Gen.encryptPackEffects) s) :
    TraceOK P s := by
  rw [C11_gen_recv_order, C11_gen_pack_order] at h
  exact trace_reach I h

/-- the blobs and meta blobs lying in the wrapped stores of a reachable state are ciphertext named by
their digest -/
theorem C11_stored_meta_is_ciphertext (P : Params) (I : Ideal P) (s : St) (h : Reach P goodR goodP s)
    (n c : Bytes) (hg : get s.metas n = some c) :
    n = P.digest c ∧ ∃ r t, c = P.version :: P.A.enc P.key r t := by
  obtain ⟨d1, ⟨r, t, _, hc⟩, _⟩ := (inv_reach I h).dec n c hg
  exact ⟨d1, r, t, hc⟩

/-! ### non-vacuity: a reachable state with two receives, a compaction under way -/

example : demo2.index.length = 2 ∧ demo2.metas.length = 2 ∧ demo2.jobs.length = 1 ∧ demo2.trace.length = 4 := by
  decide

example : TraceOK (toyP 1 10) demo2 := trace_reach (toy_ideal 1 10) demo2_reach

/-! ## integrity: exactly the original plaintext, or failure -/

/-- **Integrity.**  In ANY state whatsoever – any index, any content of the wrapped stores, hence after
every tampering function – a Fetch that succeeds returns bytes whose digest is the ref asked for, and
their true size.  (This is the behaviour after /repo commit 9855f85; see `C11_fetchOld_counterexample`.) -/
theorem C11_fetch_exact_or_fail (P : Params) (s : St) (ref plain : Bytes) (size : Nat)
    (h : fetch P s ref = .bytes plain size) : P.digest plain = ref ∧ plain.length = size := by
  unfold fetch at h
  split at h
  · cases h
  · cases h
  · split at h
    · cases h
    · split at h
      · cases h
      · split at h
        · cases h
        · split at h
          · cases h
          · rename_i hc
            simp only [ne_eq, not_or, Decidable.not_not] at hc
            injection h with h1 h2
            subst h1; subst h2
            exact hc

/-- the same, spelled out for tampering: take any reachable state, replace the contents of BOTH wrapped
stores by arbitrary functions of them, optionally crash and restart (index wiped or not, any arrival
order, successful or not): a Fetch of `digest orig` returns exactly `orig`, or an error -/
theorem C11_fetch_after_tampering (P : Params) (I : Ideal P) (s : St) (tb tm : SMap Bytes → SMap Bytes)
    (restarted wipe : Bool) (order : List Bytes) (psteps : List PStep) (orig : Bytes) :
    let s1 := { s with blobs := tb s.blobs, metas := tm s.metas }
    let s2 := if restarted then (restart P psteps wipe order s1).1 else s1
    match fetch P s2 (P.digest orig) with
    | .bytes plain size => plain = orig ∧ size = orig.length
    | .refs _ => False
    | .sized _ => False
    | _ => True := by
  intro s1 s2
  cases hf : fetch P s2 (P.digest orig) with
  | bytes plain size =>
    obtain ⟨h1, h2⟩ := C11_fetch_exact_or_fail P s2 _ plain size hf
    have := I.digest_inj _ _ h1
    subst this
    exact ⟨rfl, h2.symm⟩
  | refs l => exact fetch_not_refs P s2 _ l hf
  | sized n => exact fetch_not_sized P s2 _ n hf
  | notExist => trivial
  | corrupt => trivial
  | err => trivial

/-- in an untampered reachable state a Fetch of a ref the index knows succeeds (so the theorem above is
not about a Fetch that always fails) -/
theorem C11_fetch_succeeds (P : Params) (I : Ideal P) (s : St) (h : Reach P goodR goodP s) (p v : Bytes)
    (hg : get s.index p = some v) : ∃ plain, p = P.digest plain ∧ fetch P s p = .bytes plain plain.length := by
  obtain ⟨plain, r, h1, h2, h3, h4⟩ := fetchMeta_row I (inv_reach I h) hg
  subst h1
  refine ⟨plain, rfl, ?_⟩
  simp only [fetch, h4, h3, decrypt_encrypt, ne_eq, not_true_eq_false, if_false, or_self]

example : fetch (toyP 1 10) demo2 (toyDigest [4, 5]) = .bytes [4, 5] 2 := by decide

/-! ### the behaviour before the fix: a meta blob look-alike redirects a ref -/

set_option maxRecDepth 100000 in
/-- **Counterexample for the code before commit 9855f85.**  After a restart with an empty index, the old
Fetch (which trusted the index and did not look at the plaintext) answers the victim's ref with the other
blob's bytes; no cipher law is violated: every stored string is an honest encryption. -/
theorem C11_fetchOld_counterexample :
    let P := toyP 100 10000
    let s := (restart P goodP true (attackState.metas.map (·.1)) attackState).1
    fetchOld P s (toyDigest [86, 86, 86]) = .bytes [87, 87, 87, 87] 3 ∧
    fetch P s (toyDigest [86, 86, 86]) = .corrupt := by decide

/-! ## recoverability -/

/-- **Recoverability.**  For every reachable state – any interleaving of the receive in flight and the
packers, crashed between any two effects, mid-compaction included – and for every arrival order of the
meta blobs, the start-up scan over the meta store ALONE (index wiped) succeeds and rebuilds exactly the
mapping the store stood for: every row of the lost index with the same `size/encref`, plus at most the row
of a receive that had already written its meta blob.  Uses the effect ORDER of the source through the
hypotheses `hr`, `hp` (discharged on the generated lists in `C11_index_recoverable_gen`). -/
theorem C11_index_recoverable (P : Params) (I : Ideal P) (recvEffs packEffs : List EffAt) (targets : List String)
    (hr : recvSteps recvEffs targets = goodR) (hp : packSteps packEffs = goodP)
    (s : St) (h : Reach P (recvSteps recvEffs targets) (packSteps packEffs) s)
    (wipe : Bool) (order : List Bytes) (hord : ∀ n, n ∈ order ↔ has s.metas n = true) :
    let r := restart P (packSteps packEffs) wipe order s
    r.2 = true ∧
    (∀ p v, get s.index p = some v → get r.1.index p = some v) ∧
    (∀ p, get r.1.index p = truth s p) ∧
    (s.recv = none → r.1.index = s.index) := by
  rw [hr, hp] at h
  rw [hp]
  have hinv := inv_reach I h
  obtain ⟨r1, r2, r3⟩ := restart_spec hinv wipe order hord
  refine ⟨r1, fun p v hg => by rw [r2 p]; exact truth_of_index hg, r2, ?_⟩
  intro h0
  apply SMap.ext r3.kI hinv.kI
  intro k
  rw [r2 k]
  unfold truth
  cases get s.index k with
  | some v => rfl
  | none => simp [h0]

theorem C11_index_recoverable_gen (P : Params) (I : Ideal P) (s : St)
    (h : Reach P (recvSteps Gen.encryptReceiveEffects Gen.encryptRecvTargets) (packSteps Gen.encryptPackEffects) s)
    (order : List Bytes) (hord : ∀ n, n ∈ order ↔ has s.metas n = true) :
    let r := restart P (packSteps Gen.encryptPackEffects) true order s
    r.2 = true ∧ (∀ p v, get s.index p = some v → get r.1.index p = some v) ∧
    (s.recv = none → r.1.index = s.index) := by
  obtain ⟨a, b, _, d⟩ := C11_index_recoverable P I Gen.encryptReceiveEffects Gen.encryptPackEffects
    Gen.encryptRecvTargets C11_gen_recv_order C11_gen_pack_order s h true order hord
  exact ⟨a, b, d⟩

/-- after the restart the store is again in a state all of the above applies to -/
theorem C11_restart_reachable (P : Params) (s : St) (h : Reach P goodR goodP s) (wipe : Bool) (order : List Bytes)
    (hord : ∀ n, n ∈ order ↔ has s.metas n = true) : Reach P goodR goodP (restart P goodP wipe order s).1 :=
  .step _ _ h (.restart s wipe order hord)

/-- every blob the index knows is still served after the index was lost and rebuilt -/
theorem C11_fetch_after_recovery (P : Params) (I : Ideal P) (s : St) (h : Reach P goodR goodP s) (p v : Bytes)
    (hg : get s.index p = some v) (order : List Bytes) (hord : ∀ n, n ∈ order ↔ has s.metas n = true) :
    ∃ plain, p = P.digest plain ∧
      fetch P (restart P goodP true order s).1 p = .bytes plain plain.length := by
  obtain ⟨_, r2, _⟩ := restart_spec (inv_reach I h) true order hord
  exact C11_fetch_succeeds P I _ (C11_restart_reachable P s h true order hord) p v
    (by rw [r2 p]; exact truth_of_index hg)

/-- **Acknowledged ⇒ recoverable, also when wrapped stores fail.**  `Reach` includes the environment step
`arm` (the k-th next ReceiveBlob of `blobs` / `meta` fails once; the failing ReceiveBlob returns the error,
a failing packer gives up).  Whenever the ReceiveBlob in flight has run to its end without such an error –
it is about to acknowledge – the index has its row, and a restart with a wiped index finds the same row in
the meta store.  (The duplicate fast path acknowledges only what the index already has, which
`C11_index_recoverable` covers.)  With `index.Set` before the meta write this is false: the harness
finds it with `fault M 1; recv b; recv b; restart wipe`. -/
theorem C11_ack_recoverable (P : Params) (I : Ideal P) (s : St) (h : Reach P goodR goodP s)
    (x : Recv) (hx : s.recv = some x) (hdone : x.rest = []) (hok : s.lastFailed = false)
    (order : List Bytes) (hord : ∀ n, n ∈ order ↔ has s.metas n = true) :
    ∃ v, get s.index x.plainBR = some v ∧
      (restart P goodP true order s).2 = true ∧
      get (restart P goodP true order s).1.index x.plainBR = some v := by
  obtain ⟨v, hv⟩ := ack_reach I h x hx hdone hok
  obtain ⟨r1, r2, _⟩ := restart_spec (inv_reach I h) true order hord
  exact ⟨v, hv, r1, by rw [r2]; exact truth_of_index hv⟩

/-- a faulted history: the meta write of the second receive fails (nothing acknowledged, the ciphertext is
an orphan), the retry is acknowledged, and the wiped index is rebuilt in full -/
example :
    let P := toyP 100 10000
    let s1 := (receiveBlob P goodR goodP false {} (toyDigest [1]) [1]).1
    let f := receiveBlob P goodR goodP false { s1 with failMeta := 1 } (toyDigest [2, 2]) [2, 2]
    let r := receiveBlob P goodR goodP false f.1 (toyDigest [2, 2]) [2, 2]
    f.2 = .err ∧ f.1.index.length = 1 ∧ f.1.blobs.length = 2 ∧ f.1.metas.length = 1 ∧
    r.2 = .sized 2 ∧ r.1.blobs.length = 3 ∧
    (restart P goodP true (r.1.metas.map (·.1)) r.1).1.index = r.1.index := by decide

example : demo2mid.metas.length = 3 ∧ (demo2mid.jobs.map (·.rest)) = [[.record, .remove]] := by decide

example : Reach (toyP 1 10) goodR goodP demo2mid := .step _ _ demo2_reach (.jobStep demo2 0)

example : (restart (toyP 1 10) goodP true (demo2mid.metas.map (·.1)) demo2mid).1.index = demo2mid.index := by
  decide

/-- **The order matters.**  With the removal before the upload (a packer program `remove, upload, record`),
a crash between the two loses every row: the rebuilt index is empty although the index knew two blobs. -/
theorem C11_remove_before_upload_counterexample :
    let P := toyP 1 10
    let bad : List PStep := [.remove, .upload, .record]
    let s := recvStep P bad (recvStep P bad (recvStep P bad (recvStep P bad (recvStep P bad
      (recvBegin P goodR (recvAll P {} [1, 2, 3]) (toyDigest [4, 5]) [4, 5]).1))))
    let crashed := stepJob P bad s 0
    s.index.length = 2 ∧ crashed.metas = [] ∧
    (restart P bad true [] crashed) = ({ crashed with index := [], jobs := [], heap := [], recv := none }, true) := by
  decide

/-! ## refinement of the reference map -/

/-- **Refinement.**  Under the driver's schedule (the packers a receive starts run to their end before the
next call), the encrypt store answers every history of well-keyed ReceiveBlob / Fetch / StatBlobs /
EnumerateBlobs calls – whatever compactions happen on the way – exactly as the reference
content-addressed map of C01 does.  (`RemoveBlobs` is not implemented by the store; histories with `rm`
are excluded by `OpOK`.) -/
theorem C11_refines_refmap (P : Params) (I : Ideal P) (content : Bytes → Bytes) (ops : List RefMap.Op)
    (hops : ∀ op ∈ ops, OpOK P content op) :
    (encImpl P).run {} ops = RefMap.run [] ops :=
  refines_refmap I content ops hops {} (sim_init content)

/-- three receives with `small = 1` (two compactions on the way), a duplicate, then reads -/
example :
    (encImpl (toyP 1 10)).run {}
      [.recv (toyDigest [1]) [1], .recv (toyDigest [2, 2]) [2, 2], .recv (toyDigest [3]) [3],
       .recv (toyDigest [1]) [1], .fetch (toyDigest [2, 2]), .stat (toyDigest [3]), .fetch (toyDigest [9]),
       .enum [] 2] =
    [.sized 1, .sized 2, .sized 1, .sized 1, .bytes [2, 2], .sized 1, .notExist,
     .refs [(toyDigest [1], 1), (toyDigest [2, 2], 2)]] := by decide

end Pk.Encrypt
