import PkVerif.Lemmas.BlobHTTP
/-!
# C18 – the HTTP blob protocol gives clients the same map semantics end to end

The server handlers (`Pk.BlobHTTP.handle…`) are functions over the reference map `SMap Bytes` (what
every storage the configuration can select refines: C01); the client loops (`client…`) are functions
over a server.  The theorems compose the two: for ANY contents of the map, ANY text of the `limit`
parameter, ANY cursor, ANY client options.

A store is *quiescent* during a request when every iteration of a long-polling handler finds the same
map: `later = List.replicate k m`, any `k`.
-/
namespace Pk.BlobHTTP
open Pk Pk.SMap Pk.RefMap

/-! ## the facts read from the source -/

/-- the limits of the handlers and of the client as the source has them -/
theorem C18_gen_constants :
    genCfg.maxEnumerate = 10000 ∧ genCfg.defaultEnum = 100 ∧ genCfg.maxStat = 1000 ∧
    genCfg.clientBatch = 1000 ∧ Gen.getSmallBytes = 32768 := by decide

/-- the shape of the enumerate handler's long-poll loop that `enumLoop` repeats: the loop runs while
the deadline has NOT passed (`Before`; it was `After`, F-C18-1), no wait ⇒ one iteration, a page that
is not full clears `after` (so continueAfter ⇔ full page), wait only when nothing was sent, the clamp
of the wait to [0, 30] -/
theorem C18_gen_enum_loop_shape :
    Gen.enumLoopShape =
      ["for loop && (waitSeconds == 0 || time.Now().Before(deadline))",
       "if waitSeconds == 0 { loop = false }",
       "if gotBlobs < limit { after = \"\" }",
       "if loop { blobserver.WaitForBlob(storage, deadline, nil) }",
       "case waitSeconds < 0", "case waitSeconds > 30"] := by decide

/-- the shape of the stat handler that `statScan`/`statLoop` repeat: the scan stops at an empty value,
the cap is tested before the value is parsed, the wait loop ends when nothing is missing, there is no
wait or the deadline has passed -/
theorem C18_gen_stat_loop_shape :
    Gen.statLoopShape =
      ["if value == \"\"", "if n > maxStatBlobs",
       "if len(needStat) == 0 || waitSeconds == 0 || time.Now().After(deadline)",
       "case waitSeconds < 0", "case waitSeconds > 30"] := by decide

/-- whatever the client sends as `limit`, the page size the server uses lies in 1..10000 -/
theorem C18_gen_server_limit (arg : Bytes) : 1 ≤ enumLimit genCfg arg ∧ enumLimit genCfg arg ≤ 10000 :=
  ⟨enumLimit_pos genCfg (by decide) (by decide) arg, enumLimit_le genCfg (by decide) arg⟩

/-- pkg/client's own batch size is honoured by the server as it is -/
theorem C18_gen_client_batch : enumLimit genCfg (natToDec genCfg.clientBatch) = 1000 := by decide

/-! ## enumerate: the handler's page -/

/-- the handler refuses exactly the documented combination: a non-zero `maxwaitsec` with `after` -/
theorem C18_enum_refused_iff (c : Cfg) (m0 : SMap Bytes) (later : List (SMap Bytes)) (r : EnumReq) :
    handleEnumerateBlobs c m0 later r = .badRequest ↔
      (r.maxwait ≠ [] ∧ atoi r.maxwait ≠ 0 ∧ r.after ≠ []) := by
  unfold handleEnumerateBlobs
  by_cases h : (r.maxwait ≠ [] && atoi r.maxwait != 0 && r.after ≠ []) = true
  · simp only [h, if_true, true_iff]
    simpa [and_assoc] using h
  · simp only [h]
    simp only [Bool.false_eq_true, if_false, false_iff, reduceCtorEq]
    intro hh
    apply h
    simpa [and_assoc] using hh

/-- over a quiescent store a request that is not refused is answered with exactly the reference
map's page (`RefMap.enumOf`: ascending, strictly after the cursor, true sizes, at most the page size –
C01_enumerate_contract) – with or without `maxwaitsec` – and `continueAfter` as `pageAfter` says -/
theorem C18_enum_page (c : Cfg) (m : SMap Bytes) (k : Nat) (r : EnumReq)
    (hr : ¬ (r.maxwait ≠ [] ∧ atoi r.maxwait ≠ 0 ∧ r.after ≠ [])) :
    handleEnumerateBlobs c m (List.replicate k m) r =
      .ok (enumOf m r.after (enumLimit c r.limit))
          (pageAfter (enumLimit c r.limit) (enumOf m r.after (enumLimit c r.limit))) := by
  unfold handleEnumerateBlobs
  have h : (r.maxwait ≠ [] && atoi r.maxwait != 0 && r.after ≠ []) = false := by
    cases hb : (r.maxwait ≠ [] && atoi r.maxwait != 0 && r.after ≠ [])
    · rfl
    · exfalso; apply hr; simpa [and_assoc] using hb
  simp only [h, Bool.false_eq_true, if_false]
  rw [enumLoop_quiescent]

/-- "page is full ⇒ continueAfter": the key is present iff the page has `limit` entries, and then it is
the last ref of the page -/
theorem C18_continue_iff_full (limit : Nat) (hl : 1 ≤ limit) (page : List (Bytes × Nat))
    (hne : ∀ p ∈ page, p.1 ≠ []) :
    (pageAfter limit page ≠ [] ↔ limit ≤ page.length) ∧
    (limit ≤ page.length → ∃ last, page.getLast? = some last ∧ pageAfter limit page = last.1) := by
  unfold pageAfter
  by_cases hs : page.length < limit
  · simp only [hs, if_true]
    constructor
    · constructor
      · intro h; exact absurd rfl h
      · intro h; omega
    · intro h; omega
  · simp only [hs, if_false]
    cases hg : page.getLast? with
    | none =>
      have : page = [] := List.getLast?_eq_none_iff.mp hg
      subst this
      simp at hs
      omega
    | some last =>
      have hmem : last ∈ page := List.mem_of_getLast? hg
      refine ⟨⟨fun _ => by omega, fun _ => hne last hmem⟩, fun _ => ⟨last, rfl, rfl⟩⟩

/-- a blob that arrives while the handler waits is what the answer lists: iterations that find
nothing are skipped (this is the branch that never ran before the repair) -/
theorem C18_long_poll_skips_empty (w : Nat) (hw : w ≠ 0) (after : Bytes) (limit : Nat)
    (m0 : SMap Bytes) (later : List (SMap Bytes)) (h0 : enumOf m0 after limit = []) :
    enumLoop w after limit (m0 :: later) = enumLoop w after limit later := by
  conv => lhs; unfold enumLoop
  simp [h0, hw]

/-! ## the client's enumeration loop composed with the handler -/

/-- **C18, enumeration**: for ANY contents of the map, ANY text of the page-size parameter (the server
turns every text into a page size ≥ 1), ANY cursor and ANY `Limit` option, with or without `MaxWait`,
`Client.EnumerateBlobsOpts` against the handler over a quiescent store delivers the blobs after the
cursor exactly once each, in ascending order, with their sizes (all of them, or the first `Limit`),
and reports success; `m.length + 1` requests suffice. -/
theorem C18_client_enumerates_all (content : Bytes → Bytes) (c : Cfg) (m : SMap Bytes)
    (hm : Good content m) (okRef : Bytes → Bool) (hok : ∀ p ∈ m, okRef p.1 = true) (batch : Bytes)
    (hb : 1 ≤ enumLimit c batch) (k : Nat) (o : EnumOpts) (ho : o.after = [] ∨ o.waitSec = 0)
    (fuel : Nat) (hf : m.length < fuel) :
    clientEnumerate (handleEnumerateBlobs c m (List.replicate k m)) okRef batch o fuel =
      ⟨if o.limit = 0 then sizes (m.filter (fun p => ltB o.after p.1))
       else (sizes (m.filter (fun p => ltB o.after p.1))).take o.limit, true⟩ := by
  unfold clientEnumerate
  have hg : (o.after ≠ [] && o.waitSec != 0) = false := by
    rcases ho with h | h <;> simp [h]
  simp only [hg, Bool.false_eq_true, if_false]
  have hne : ∀ p ∈ m, p.1 ≠ [] := fun p hp => (hm.2 p.1 p.2 (mem_get hm.1 hp)).2
  have hlen : (aft (sizes m) o.after).length < fuel := by
    have h1 := aft_length_le (sizes m) o.after
    have h2 : (sizes m).length = m.length := by simp [sizes]
    omega
  rw [clientLoop_quiescent c m hm.1 hne okRef hok batch hb k o.waitSec o.limit fuel o.after 0 hlen (by omega)]
  have : aft (sizes m) o.after = sizes (m.filter (fun p => ltB o.after p.1)) := by
    unfold aft sizes
    rw [List.filter_map]
    rfl
  rw [this]
  simp

/-- the whole store: no cursor, no `Limit` ⇒ every blob exactly once in ascending order -/
theorem C18_client_enumerates_everything (content : Bytes → Bytes) (c : Cfg) (m : SMap Bytes)
    (hm : Good content m) (okRef : Bytes → Bool) (hok : ∀ p ∈ m, okRef p.1 = true) (batch : Bytes)
    (hb : 1 ≤ enumLimit c batch) (k waitSec : Nat) (fuel : Nat) (hf : m.length < fuel) :
    clientEnumerate (handleEnumerateBlobs c m (List.replicate k m)) okRef batch ⟨[], waitSec, 0⟩ fuel =
      ⟨sizes m, true⟩ := by
  rw [C18_client_enumerates_all content c m hm okRef hok batch hb k ⟨[], waitSec, 0⟩ (Or.inl rfl) fuel hf]
  have hne : ∀ p ∈ m, ltB [] p.1 = true :=
    fun p hp => ltB_nil_left (hm.2 p.1 p.2 (mem_get hm.1 hp)).2
  simp [List.filter_eq_self.mpr hne]

/-- … in particular against the server as it is configured in the source, whatever page size the
client asks for -/
theorem C18_gen_client_enumerates_everything (content : Bytes → Bytes) (m : SMap Bytes)
    (hm : Good content m) (okRef : Bytes → Bool) (hok : ∀ p ∈ m, okRef p.1 = true) (batch : Bytes)
    (k waitSec : Nat) :
    clientEnumerate (handleEnumerateBlobs genCfg m (List.replicate k m)) okRef batch ⟨[], waitSec, 0⟩
      (m.length + 1) = ⟨sizes m, true⟩ :=
  C18_client_enumerates_everything content genCfg m hm okRef hok batch (C18_gen_server_limit batch).1
    k waitSec (m.length + 1) (by omega)

/-! ### non-vacuity and the defects that were repaired -/

/-- a ref text in canonical form: `sha224-` followed by 56 hex digits -/
def exKey (d : Nat) : Bytes := [115, 104, 97, 50, 50, 52, 45] ++ List.replicate 55 97 ++ [d]

def exMap : SMap Bytes := [(exKey 49, [1, 2, 3]), (exKey 50, []), (exKey 51, [7])]

def exContent (k : Bytes) : Bytes := if k = exKey 49 then [1, 2, 3] else if k = exKey 51 then [7] else []

theorem exMap_good : Good exContent exMap := by
  refine ⟨by unfold KAsc; decide, ?_⟩
  intro k v h
  have hmem := get_some_mem h
  simp only [exMap, List.mem_cons, Prod.mk.injEq, List.not_mem_nil, or_false] at hmem
  rcases hmem with ⟨rfl, rfl⟩ | ⟨rfl, rfl⟩ | ⟨rfl, rfl⟩ <;> decide

/-- three blobs, page size 2, a wait: two requests, everything once -/
example : clientEnumerate (handleEnumerateBlobs genCfg exMap [exMap]) (fun _ => true) [50] ⟨[], 1, 0⟩ 4 =
    ⟨[(exKey 49, 3), (exKey 50, 0), (exKey 51, 1)], true⟩ := by decide

/-- **F-C18-1 (fixed)**: with the loop condition as it was (`After`), a client that passes `MaxWait`
gets an empty enumeration of a non-empty store: the handler's loop body never runs -/
theorem C18_long_poll_old_counterexample :
    ¬ (∀ (m : SMap Bytes) (waitSec : Nat),
        clientEnumerate (handleEnumerateBlobsOld genCfg m) (fun _ => true) [50] ⟨[], waitSec, 0⟩ (m.length + 1) =
          ⟨sizes m, true⟩) := by
  intro h
  have := h exMap 1
  revert this
  decide

/-- **F-C18-2 (fixed)**: `limit=0` used to reach the storage as 0; `memory.Storage` reads 0 as "no
limit" and sent every blob (more than the limit, and more than the server's maximum page), the other
storages sent nothing.  Now 0 is replaced by the maximum like every other out-of-range value. -/
theorem C18_limit_zero_old_counterexample :
    enumLimitOld genCfg [48] = 0 ∧ storeEnumMem exMap [] (enumLimitOld genCfg [48]) = sizes exMap ∧
    enumOf exMap [] (enumLimitOld genCfg [48]) = [] ∧ enumLimit genCfg [48] = 10000 := by decide

/-! ## stat -/

/-- **C18, batch stat**: for ANY map and ANY request of up to `maxStatBlobs` refs (duplicates allowed,
GET or POST, with or without `maxwaitsec`, over a quiescent store) the answer is 200 and lists exactly
the requested refs that are present, each once, with its true size -/
theorem C18_stat_exact (c : Cfg) (tbl : Ref.Tbl) (m : SMap Bytes) (j : Nat) (ver : Bytes) (hver : ver ≠ [])
    (vals : List Bytes) (mw : Bytes) (hv : ∀ v ∈ vals, IsRef tbl v) (hlen : vals.length ≤ c.maxStat) :
    ∃ l, handleStat c tbl m (List.replicate j m) ⟨true, ver, vals, mw⟩ = .ok l ∧
      (∀ k n, (k, n) ∈ l ↔ k ∈ vals ∧ ∃ b, get m k = some b ∧ n = b.length) ∧
      (l.map (·.1)).Nodup := by
  obtain ⟨need, hs, hmem, hnd⟩ := statScan_ok c.maxStat tbl vals 1 []
    (fun v h => ⟨isRef_ne_nil (hv v h), by rw [keyOf_of_isRef (hv v h)]; rfl⟩) (by omega)
  refine ⟨statPass m need, ?_, ?_, ?_⟩
  · unfold handleStat
    simp only [Bool.not_true, Bool.false_eq_true, if_false, hver, hs]
    rw [statLoop_quiescent]
  · intro k n
    rw [mem_statPass, hmem k]
    constructor
    · rintro ⟨h | ⟨v, hvm, hk⟩, hb⟩
      · cases h
      · have := keyOf_eq hk
        subst this
        exact ⟨hvm, hb⟩
    · rintro ⟨hk, hb⟩
      exact ⟨Or.inr ⟨k, hk, keyOf_of_isRef (hv k hk)⟩, hb⟩
  · rw [keys_statPass]
    exact (hnd List.nodup_nil).filter _

/-- **beyond the cap**: a request with more than `maxStatBlobs` consecutive non-empty `blobN` values is
refused (400), whatever the values are – nothing is answered for the first `maxStatBlobs` either -/
theorem C18_stat_over_cap (c : Cfg) (tbl : Ref.Tbl) (m0 : SMap Bytes) (later : List (SMap Bytes))
    (r : StatReq) (hv : ∀ v ∈ r.blobs, v ≠ []) (hlen : c.maxStat < r.blobs.length) :
    ∃ e, handleStat c tbl m0 later r = .bad e := by
  unfold handleStat
  by_cases h1 : (!r.methodOK) = true
  · exact ⟨_, by rw [if_pos h1]⟩
  · rw [if_neg h1]
    by_cases h2 : r.version = []
    · exact ⟨_, by rw [if_pos h2]⟩
    · rw [if_neg h2]
      obtain ⟨e, he⟩ := statScan_over c.maxStat tbl r.blobs 1 [] hv (by omega) (by omega)
      exact ⟨e, by rw [he]⟩

/-- … with the constant of the source: 1000 refs are answered (`C18_stat_exact`), 1001 are not -/
theorem C18_gen_stat_cap (m0 : SMap Bytes) (later : List (SMap Bytes)) (r : StatReq)
    (hv : ∀ v ∈ r.blobs, v ≠ []) (hlen : Gen.maxStatBlobs < r.blobs.length) :
    ∃ e, handleStat genCfg genTbl m0 later r = .bad e :=
  C18_stat_over_cap genCfg genTbl m0 later r hv hlen

/-- hypotheses satisfiable (a cap of 2 keeps the evaluation small): 3 refs are refused, 2 are answered -/
example :
    handleStat { genCfg with maxStat := 2 } genTbl exMap [] ⟨true, [49], [exKey 49, exKey 50, exKey 51], []⟩ = .bad .tooMany ∧
    handleStat { genCfg with maxStat := 2 } genTbl exMap [] ⟨true, [49], [exKey 49, exKey 50], []⟩ =
      .ok [(exKey 49, 3), (exKey 50, 0)] := by decide

/-- the scan stops at the first absent or empty `blobN`: whatever follows a hole is not looked at -/
theorem C18_stat_hole_truncates (c : Cfg) (tbl : Ref.Tbl) (m0 : SMap Bytes) (later : List (SMap Bytes))
    (ok : Bool) (ver mw : Bytes) (pre post : List Bytes) :
    handleStat c tbl m0 later ⟨ok, ver, pre ++ [] :: post, mw⟩ = handleStat c tbl m0 later ⟨ok, ver, pre, mw⟩ := by
  unfold handleStat
  simp only [statScan_hole]

/-- **C18, the client's stat**: `Client.StatBlobs` (one request per ref the have-cache does not answer)
against the handler reports, for ANY map, ANY list of refs and ANY have-cache that only holds what the
server has, exactly the present refs with their true sizes – one report per requested occurrence – and
leaves the cache truthful -/
theorem C18_client_stat_exact (c : Cfg) (hc : 1 ≤ c.maxStat) (tbl : Ref.Tbl) (m : SMap Bytes) (j : Nat) :
    ∀ (ks : List Bytes) (h : Have), (∀ k ∈ ks, IsRef tbl k) → HaveOK m h →
      (clientStatBlobs (handleStat c tbl m (List.replicate j m)) h ks).2 = (statPass m ks, true) ∧
      HaveOK m (clientStatBlobs (handleStat c tbl m (List.replicate j m)) h ks).1 := by
  intro ks
  induction ks with
  | nil => intro h _ hh; exact ⟨rfl, hh⟩
  | cons k ks ih =>
    intro h hk hh
    unfold clientStatBlobs
    cases hs : h.stat k with
    | some n =>
      simp only
      obtain ⟨v, hg, hn⟩ := hh k n hs
      obtain ⟨h1, h2⟩ := ih h (fun x hx => hk x (by simp [hx])) hh
      refine ⟨?_, h2⟩
      rw [statPass_cons m k ks]
      have : statPass m [k] = [(k, n)] := by simp [statPass, hg, hn]
      rw [this]
      simp [Prod.ext_iff, h1]
    | none =>
      simp only
      rw [doStat1_eq c hc tbl m j k (hk k (by simp))]
      simp only
      have hh' : HaveOK m ((statPass m [k]).foldl (fun h e => h.note e.1 e.2) h) :=
        haveOK_foldl _ h hh (by
          intro e he
          obtain ⟨_, v, hg, hn⟩ := (mem_statPass m [k] e.1 e.2).mp he
          exact ⟨v, hg, hn⟩)
      obtain ⟨h1, h2⟩ := ih _ (fun x hx => hk x (by simp [hx])) hh'
      refine ⟨?_, h2⟩
      rw [statPass_cons m k ks]
      simp [Prod.ext_iff, h1]

/-- **F-C18-3 / F-C18-4 (fixed)**: before the repairs `Client.StatBlobs` reported a present blob twice
(the worker and the helper both called `fn`), and a cached blob again whenever another blob of the
call needed a request -/
theorem C18_client_stat_old_counterexample :
    clientStatBlobsOld (handleStat genCfg genTbl exMap []) none [exKey 49] = [(exKey 49, 3), (exKey 49, 3)] ∧
    clientStatBlobsOld (handleStat genCfg genTbl exMap []) (some [(exKey 49, 3)]) [exKey 49, exKey 51] =
      [(exKey 49, 3), (exKey 49, 3), (exKey 49, 3), (exKey 51, 1), (exKey 51, 1)] ∧
    (clientStatBlobs (handleStat genCfg genTbl exMap []) (some [(exKey 49, 3)]) [exKey 49, exKey 51]).2 =
      ([(exKey 49, 3), (exKey 51, 1)], true) := by decide

example : IsRef genTbl (exKey 49) ∧ getPathOK (exKey 49) = true := by decide

/-! ## upload, then visible -/

/-- a blob is *visible* through the protocol: GET/HEAD answer its bytes and length, the client's Fetch
too, a stat answers it with its size, and the client's full enumeration lists it exactly once -/
structure Visible (c : Cfg) (tbl : Ref.Tbl) (m : SMap Bytes) (k v : Bytes) : Prop where
  get : handleGet tbl m k = .ok v
  fetch : clientFetch (handleGet tbl m) k = .ok v v.length
  stat : ∀ j mw, handleStat c tbl m (List.replicate j m) ⟨true, [49], [k], mw⟩ = .ok [(k, v.length)]
  clientStat : ∀ j, (clientStatBlobs (handleStat c tbl m (List.replicate j m)) none [k]).2 = ([(k, v.length)], true)
  enum : ∀ (okRef : Bytes → Bool) (batch : Bytes) (j waitSec : Nat), (∀ p ∈ m, okRef p.1 = true) →
    1 ≤ enumLimit c batch →
    ∃ l, clientEnumerate (handleEnumerateBlobs c m (List.replicate j m)) okRef batch ⟨[], waitSec, 0⟩ (m.length + 1)
        = ⟨l, true⟩ ∧ l.filter (fun p => p.1 == k) = [(k, v.length)]

/-- whatever the map holds under a ref is visible (reads are the reference map's reads) -/
theorem C18_present_is_visible (content : Bytes → Bytes) (c : Cfg) (hc : 1 ≤ c.maxStat) (tbl : Ref.Tbl)
    (m : SMap Bytes) (hm : Good content m) (k v : Bytes) (hk : IsRef tbl k) (hp : getPathOK k = true)
    (hg : get m k = some v) : Visible c tbl m k v := by
  have hget : handleGet tbl m k = .ok v := by
    unfold handleGet
    simp only [hp, Bool.not_true, Bool.false_eq_true, if_false]
    cases hpr : Ref.parse tbl k true with
    | none => simp [IsRef, hpr] at hk
    | some r => simp [Ref.C20_parse_toText tbl k true r hpr, hg]
  have hpass : statPass m [k] = [(k, v.length)] := by simp [statPass, hg]
  refine ⟨hget, by simp [clientFetch, hget], ?_, ?_, ?_⟩
  · intro j mw
    rw [handleStat_single c hc tbl m j k [49] mw (by simp) hk, hpass]
  · intro j
    have := (C18_client_stat_exact c hc tbl m j [k] none (by intro x hx; simp at hx; subst hx; exact hk)
      (haveOK_none m)).1
    rw [this, hpass]
  · intro okRef batch j waitSec hok hb
    refine ⟨sizes m, ?_, get_sizes_filter hm.1 hg⟩
    exact C18_client_enumerates_everything content c m hm okRef hok batch hb j waitSec (m.length + 1) (by omega)

/-- **C18, PUT then visible**: when `PUT <root>/camli/<ref>` answers 204 (hash = "the bytes are the
ones the ref denotes"), the bytes sent are the ref's content and, in the map after the request, the
blob is visible through every read path -/
theorem C18_put_then_visible (content : Bytes → Bytes) (c : Cfg) (hc : 1 ≤ c.maxStat) (tbl : Ref.Tbl)
    (m : SMap Bytes) (hm : Good content m) (k : Bytes) (hp : getPathOK k = true) (cl : Option Nat) (body : Bytes)
    (h204 : (handlePut c tbl m k cl (fun b => b == content k) body).2 = .noContent204) :
    Good content (handlePut c tbl m k cl (fun b => b == content k) body).1 ∧
    Visible c tbl (handlePut c tbl m k cl (fun b => b == content k) body).1 k body := by
  unfold handlePut at h204 ⊢
  cases hr : refOf tbl k with
  | none =>
    rw [hr] at h204
    simp only at h204
    obtain ⟨d, hd, _⟩ := putDecision_204 h204
    rw [putDecision_eq] at hd
    cases hov : overCap c.maxBlob cl <;> simp [hov, putInner] at hd
  | some ks =>
    obtain ⟨k', sup⟩ := ks
    obtain ⟨hkk, hisref⟩ := refOf_eq hr
    subst hkk
    rw [hr] at h204
    simp only at h204 ⊢
    have hacc : ∀ code res, Recv.putDecision c.maxBlob true cl true sup (fun b => b == content k') ⟨[body], .eof⟩
        = (code, res) → code = .noContent204 → ∃ d, res = .accepted d := by
      intro code res hd hcode
      have h1 : (Recv.putDecision c.maxBlob true cl true sup (fun b => b == content k') ⟨[body], .eof⟩).1
          = .noContent204 := by rw [hd]; exact hcode
      obtain ⟨d', hd', _⟩ := putDecision_204 h1
      rw [hd] at hd'
      injection hd' with _ h2
      exact ⟨d', h2⟩
    cases hd : Recv.putDecision c.maxBlob true cl true sup (fun b => b == content k') ⟨[body], .eof⟩ with
    | mk code res =>
      cases res with
      | accepted d =>
        simp only
        have hcode := putDecision_not_accepted hd
        have h1 : (Recv.putDecision c.maxBlob true cl true sup (fun b => b == content k') ⟨[body], .eof⟩).1
            = .noContent204 := by rw [hd]; exact hcode
        obtain ⟨d', hd', hrecv⟩ := putDecision_204 h1
        rw [hd] at hd'
        have hdd : d = d' := by injection hd' with _ h2; injection h2
        subst hdd
        obtain ⟨hdb, hmt⟩ := receive_body_accepted hrecv
        subst hdb
        have hbody : d = content k' := by simpa using hmt
        have hgood : Good content (next m (.recv k' d)) := good_next hm (.recv k' d) ⟨hbody, isRef_ne_nil hisref⟩
        exact ⟨hgood, C18_present_is_visible content c hc tbl _ hgood k' d hisref hp (get_next_recv hm k' d hbody)⟩
      | corrupt => rw [hd] at h204; exact absurd (hacc _ _ hd h204) (by simp)
      | tooBig => rw [hd] at h204; exact absurd (hacc _ _ hd h204) (by simp)
      | srcErr => rw [hd] at h204; exact absurd (hacc _ _ hd h204) (by simp)
      | badHash => rw [hd] at h204; exact absurd (hacc _ _ hd h204) (by simp)

/-- the hash test of every part is sound: only the content a ref denotes hashes to it -/
def SoundParts (content : Bytes → Bytes) (parts : List MPart) : Prop :=
  ∀ p ∈ parts, ∀ b, p.matches_ b = true → b = content p.name

theorem toPart_sound (content : Bytes → Bytes) (tbl : Ref.Tbl) (parts : List MPart) (hs : SoundParts content parts) :
    ∀ p ∈ parts.map (toPart tbl), p.parses = true →
      (p.key ≠ [] ∧ ∀ b, p.matches_ b = true → b = content p.key) ∧ IsRef tbl p.key := by
  intro p hp hpar
  obtain ⟨q, hq, rfl⟩ := List.mem_map.mp hp
  unfold toPart at hpar ⊢
  cases hr : refOf tbl q.name with
  | none => rw [hr] at hpar; simp at hpar
  | some ks =>
    obtain ⟨k, sup⟩ := ks
    obtain ⟨hk, hisref⟩ := refOf_eq hr
    subst hk
    simp only
    exact ⟨⟨isRef_ne_nil hisref, hs q hq⟩, hisref⟩

/-- **C18, multipart upload then visible**: for ANY map and ANY multipart request (any number of
parts, unparsable names, parts that fail) the map stays a good content-addressed map, nothing that was
there is lost, and every blob the response lists as received is in the map after the request with the
listed size – visible through every read path -/
theorem C18_multipart_then_visible (content : Bytes → Bytes) (c : Cfg) (hc : 1 ≤ c.maxStat) (tbl : Ref.Tbl)
    (m : SMap Bytes) (hm : Good content m) (parts : List MPart) (hs : SoundParts content parts) :
    Good content (handleMultipart c tbl m parts).1 ∧
    (∀ x v, get m x = some v → get (handleMultipart c tbl m parts).1 x = some v) ∧
    (∀ e ∈ (handleMultipart c tbl m parts).2.received,
      ∃ v, get (handleMultipart c tbl m parts).1 e.1 = some v ∧ v.length = e.2 ∧ v = content e.1 ∧
        (getPathOK e.1 = true → Visible c tbl (handleMultipart c tbl m parts).1 e.1 v)) := by
  unfold handleMultipart
  simp only
  have hsound := toPart_sound content tbl parts hs
  obtain ⟨hg, hmono, hl⟩ := multipartStore_spec content c.maxBlob (parts.map (toPart tbl)) m hm
    (fun p hp hpar => (hsound p hp hpar).1)
  refine ⟨hg, hmono, ?_⟩
  intro e he
  obtain ⟨v, hv, hlen⟩ := hl e he
  obtain ⟨p, hp, hpar, hkey, _⟩ := Recv.C02_multipart_lists_only_accepted c.maxBlob _ e he
  have hisref : IsRef tbl e.1 := hkey ▸ (hsound p hp hpar).2
  refine ⟨v, hv, hlen, (hg.2 e.1 v hv).1, fun hpath => ?_⟩
  exact C18_present_is_visible content c hc tbl _ hg e.1 v hisref hpath hv

/-- **C18, Client.Upload then visible**: for ANY map, ANY truthful have-cache, with or without the
pre-upload stat: whenever `Client.Upload` of a blob (the bytes are the ref's content) reports success –
uploaded, or skipped because the cache or the server's stat said the blob is there – the blob is in
the map after the call, visible through every read path; the map stays good and the cache truthful -/
theorem C18_client_upload_then_visible (content : Bytes → Bytes) (c : Cfg) (hc : 1 ≤ c.maxStat) (tbl : Ref.Tbl)
    (m : SMap Bytes) (hm : Good content m) (h : Have) (hh : HaveOK m h) (k : Bytes) (hk : IsRef tbl k)
    (hp : getPathOK k = true) (body : Bytes) (hb : body = content k) (skipStat : Bool) :
    Good content (clientUpload c (handleStat c tbl m []) (handleMultipart c tbl m) m h k
      (fun b => b == content k) body skipStat).1 ∧
    HaveOK (clientUpload c (handleStat c tbl m []) (handleMultipart c tbl m) m h k
      (fun b => b == content k) body skipStat).1
      (clientUpload c (handleStat c tbl m []) (handleMultipart c tbl m) m h k
        (fun b => b == content k) body skipStat).2.1 ∧
    (∀ n sk, (clientUpload c (handleStat c tbl m []) (handleMultipart c tbl m) m h k
        (fun b => b == content k) body skipStat).2.2 = .ok n sk →
      n = body.length ∧ Visible c tbl (clientUpload c (handleStat c tbl m []) (handleMultipart c tbl m) m h k
        (fun b => b == content k) body skipStat).1 k body) := by
  -- the POST step, from any truthful cache
  have hpost : ∀ h0, HaveOK m h0 →
      Good content (clientUploadPost (handleMultipart c tbl m) h0 k (fun b => b == content k) body).1 ∧
      HaveOK (clientUploadPost (handleMultipart c tbl m) h0 k (fun b => b == content k) body).1
        (clientUploadPost (handleMultipart c tbl m) h0 k (fun b => b == content k) body).2.1 ∧
      (∀ n sk, (clientUploadPost (handleMultipart c tbl m) h0 k (fun b => b == content k) body).2.2 = .ok n sk →
        n = body.length ∧
        Visible c tbl (clientUploadPost (handleMultipart c tbl m) h0 k (fun b => b == content k) body).1 k body) := by
    intro h0 hh0
    have hs : SoundParts content [⟨k, fun b => b == content k, body⟩] := by
      intro p hp b hmt
      simp at hp
      subst hp
      simpa using hmt
    obtain ⟨hg, hmono, hl⟩ := C18_multipart_then_visible content c hc tbl m hm _ hs
    unfold clientUploadPost
    simp only
    cases hf : (handleMultipart c tbl m [⟨k, fun b => b == content k, body⟩]).2.received.find?
        (fun e => e.1 == k) with
    | none => exact ⟨hg, haveOK_mono hh0 hmono, by intro n sk hx; cases hx⟩
    | some e =>
      simp only
      by_cases hsz : e.2 ≠ body.length
      · rw [if_pos hsz]
        exact ⟨hg, haveOK_mono hh0 hmono, by intro n sk hx; cases hx⟩
      · rw [if_neg hsz]
        have hek : e.1 = k := by simpa using List.find?_some hf
        obtain ⟨v, hv, _, hvc, hvis⟩ := hl e (List.mem_of_find?_eq_some hf)
        rw [hek] at hv hvc hvis
        have hvb : v = body := by rw [hvc, hb]
        subst hvb
        refine ⟨hg, haveOK_note (haveOK_mono hh0 hmono) k _ v hv rfl, ?_⟩
        intro n sk hx
        injection hx with h1 _
        exact ⟨h1.symm, hvis hp⟩
  -- the blob is already there
  have hthere : ∀ v, get m k = some v → v = body ∧ Visible c tbl m k body := by
    intro v hv
    have : v = body := by rw [(hm.2 k v hv).1, hb]
    subst this
    exact ⟨rfl, C18_present_is_visible content c hc tbl m hm k v hk hp hv⟩
  unfold clientUpload
  by_cases hbig : body.length > c.maxBlob
  · rw [if_pos hbig]
    exact ⟨hm, hh, by intro n sk hx; cases hx⟩
  · rw [if_neg hbig]
    cases hst : h.stat k with
    | some n0 =>
      simp only
      obtain ⟨v, hv, _⟩ := hh k n0 hst
      refine ⟨hm, hh, ?_⟩
      intro n sk hx
      injection hx with h1 _
      exact ⟨h1.symm, (hthere v hv).2⟩
    | none =>
      simp only
      cases skipStat
      · simp only [Bool.false_eq_true, if_false]
        have h0 : ([] : List (SMap Bytes)) = List.replicate 0 m := rfl
        rw [h0, doStat1_eq c hc tbl m 0 k hk]
        simp only
        have hh' : HaveOK m ((statPass m [k]).foldl (fun h e => h.note e.1 e.2) h) :=
          haveOK_foldl _ h hh (by
            intro e he
            obtain ⟨_, v, hg, hn⟩ := (mem_statPass m [k] e.1 e.2).mp he
            exact ⟨v, hg, hn⟩)
        by_cases hany : (statPass m [k]).any (fun e => e.1 == k) = true
        · rw [if_pos hany]
          obtain ⟨e, he, hek⟩ := List.any_eq_true.mp hany
          have hek' : e.1 = k := by simpa using hek
          obtain ⟨_, v, hv, _⟩ := (mem_statPass m [k] e.1 e.2).mp he
          rw [hek'] at hv
          obtain ⟨hvb, hvis⟩ := hthere v hv
          subst hvb
          refine ⟨hm, haveOK_note hh' k _ v hv rfl, ?_⟩
          intro n sk hx
          injection hx with h1 _
          exact ⟨h1.symm, hvis⟩
        · rw [if_neg hany]
          exact hpost _ hh'
      · simp only [if_true]
        exact hpost h hh

/-- the other direction: a PUT of the bytes a supported ref denotes, within the size cap, with a truthful
(or no) Content-Length, is accepted – so "what it uploads" is never empty -/
theorem C18_put_valid_accepted (content : Bytes → Bytes) (c : Cfg) (tbl : Ref.Tbl) (m : SMap Bytes) (k : Bytes)
    (hr : refOf tbl k = some (k, true)) (body : Bytes) (hb : body = content k) (hlen : body.length ≤ c.maxBlob)
    (cl : Option Nat) (hcl : cl = none ∨ cl = some body.length) :
    handlePut c tbl m k cl (fun b => b == content k) body = (next m (.recv k body), .noContent204) := by
  unfold handlePut
  rw [hr]
  simp only
  rw [putDecision_eq]
  have hov : overCap c.maxBlob cl = false := by
    rcases hcl with h | h <;> subst h <;> simp [overCap]
    omega
  have hrecv : Recv.receive c.maxBlob true (fun b => b == content k) ⟨[body], .eof⟩ = .accepted body := by
    rw [Recv.receive_eq]
    subst hb
    simp [Recv.Src.total, hlen]
  simp [hov, putInner, hrecv]

/-- non-vacuity: a PUT that is accepted, a multipart request that lists a blob, a client upload that
succeeds, on a map that already holds blobs -/
example :
    (handlePut genCfg genTbl exMap (exKey 52) (some 2) (fun b => b == [9, 9]) [9, 9]).2 = .noContent204 ∧
    (handleMultipart genCfg genTbl exMap [⟨exKey 52, fun b => b == [9, 9], [9, 9]⟩, ⟨[120], fun _ => false, []⟩,
      ⟨exKey 53, fun b => b == [5], [6]⟩, ⟨exKey 54, fun b => b == [4], [4]⟩]).2 = ⟨[(exKey 52, 2)], true⟩ ∧
    (clientUpload genCfg (handleStat genCfg genTbl exMap []) (handleMultipart genCfg genTbl exMap) exMap (some [])
      (exKey 52) (fun b => b == [9, 9]) [9, 9] false).2 = (some [(exKey 52, 2)], .ok 2 false) ∧
    (clientUpload genCfg (handleStat genCfg genTbl exMap []) (handleMultipart genCfg genTbl exMap) exMap (some [])
      (exKey 51) (fun b => b == [7]) [7] false).2 = (some [(exKey 51, 1)], .ok 1 true) := by decide

/-- non-vacuity of the stat theorems: present and absent refs, a duplicate, and a hole -/
example :
    handleStat genCfg genTbl exMap [] ⟨true, [49], [exKey 51, exKey 52, exKey 49, exKey 51], []⟩ =
      .ok [(exKey 51, 1), (exKey 49, 3)] ∧
    handleStat genCfg genTbl exMap [] ⟨true, [49], [exKey 51, [], exKey 49], []⟩ = .ok [(exKey 51, 1)] ∧
    handleStat genCfg genTbl exMap [] ⟨true, [49], [exKey 51, [120]], []⟩ = .bad .bogus ∧
    handleStat genCfg genTbl exMap [] ⟨true, [], [exKey 51], []⟩ = .bad .noVersion := by decide

end Pk.BlobHTTP
