import PkVerif.Lemmas.RefNs
import PkVerif.Lemmas.RefMerge
import PkVerif.Lemmas.RefProxy
import PkVerif.Lemmas.RefOverlay
import PkVerif.Lemmas.RefFiles
import PkVerif.Lemmas.RefDiskPacked
import PkVerif.Lemmas.RefNsK
import PkVerif.Lemmas.RefMergeK
import PkVerif.Lemmas.RefOverlayK
import PkVerif.Lemmas.RefProxyK
import PkVerif.Lemmas.RefLeavesK
import PkVerif.Lemmas.RefNary
import PkVerif.Base.Order
/-!
# C01 – every storage backend behaves as a content-addressed map

`Pk.RefMap` is the reference map (`next`/`out`); `Pk.RefMap.Refines content I` packages the proof that
an implementation model `I` answers every well-keyed history exactly as the reference map does
(`Refines.run_eq`).  Storage combinators are functions on `Impl`s with matching functions on
`Refines`, so a configuration tree denotes a model (`Pk.Stores.interp`) and "for all nestings" is
structural induction over the tree.
-/
namespace Pk.Stores
open Pk Pk.SMap Pk.RefMap

/-- **the refinement theorem**: from any state satisfying its invariant, a refining store answers
every finite well-keyed history of receive/fetch/stat/enumerate/remove exactly like the reference map -/
theorem C01_refines_run {content : Bytes → Bytes} {I : Impl} (R : Refines content I) (s : I.σ)
    (h : R.Inv s) (ops : List Op) (hops : ∀ op ∈ ops, op.WK content) :
    I.run s ops = RefMap.run (R.abs s) ops := R.run_eq s h ops hops

/-- memory is the reference map -/
theorem C01_memory (content : Bytes → Bytes) (ops : List Op) (hops : ∀ op ∈ ops, op.WK content) :
    memImpl.run memImpl.init ops = RefMap.run [] ops := (memRefines content).run_init ops hops

/-- namespace over any refining master refines the map (inventory KV + shared master; the inclusive
`Find` with the skip-equal rule is an exclusive cursor for ANY cursor string) -/
theorem C01_namespace {content : Bytes → Bytes} {master : Impl} (R : Refines content master)
    (ops : List Op) (hops : ∀ op ∈ ops, op.WK content) :
    (nsImpl master).run (nsImpl master).init ops = RefMap.run [] ops := (nsRefines R).run_init ops hops

/-- the refinement proof of a configuration tree, by structural recursion over the tree: every
combinator maps refinement proofs of its sub-stores to a refinement proof of itself.  `route` (shard
routing) and `isSchema` (cond's sniffing) are arbitrary functions. -/
def interpRefines (content : Bytes → Bytes) (route isSchema : Bytes → Bool) :
    (c : Cfg) → c.WF = true → Refines content (interp route isSchema c)
  | .mem, _ => memRefines content
  | .memCache _, h => by simp [Cfg.WF] at h
  | .ns m, h => nsRefines (interpRefines content route isSchema m (by simpa [Cfg.WF] using h))
  | .proxy o (.memCache cm) max, h =>
    proxyRefines (interpRefines content route isSchema o (by simpa [Cfg.WF] using h))
      (memCacheCaches content cm) max
  | .proxy o .mem max, h =>
    proxyRefines (interpRefines content route isSchema o (by simp [Cfg.WF] at h; exact h))
      (memRefines content).toCaches max
  | .proxy o (.ns x) max, h =>
    proxyRefines (interpRefines content route isSchema o (by simp [Cfg.WF] at h; exact h.1))
      (interpRefines content route isSchema (.ns x) (by simp [Cfg.WF] at h; simpa [Cfg.WF] using h.2)).toCaches max
  | .proxy o (.proxy a b m) max, h =>
    proxyRefines (interpRefines content route isSchema o (by simp only [Cfg.WF, Bool.and_eq_true] at h; exact h.1))
      (interpRefines content route isSchema (.proxy a b m) (by simp only [Cfg.WF, Bool.and_eq_true] at h; exact h.2)).toCaches max
  | .proxy o (.overlay a b) max, h =>
    proxyRefines (interpRefines content route isSchema o (by simp only [Cfg.WF, Bool.and_eq_true] at h; exact h.1))
      (interpRefines content route isSchema (.overlay a b) (by simp only [Cfg.WF, Bool.and_eq_true] at h ⊢; exact h.2)).toCaches max
  | .proxy o (.shard2 a b) max, h =>
    proxyRefines (interpRefines content route isSchema o (by simp only [Cfg.WF, Bool.and_eq_true] at h; exact h.1))
      (interpRefines content route isSchema (.shard2 a b) (by simp only [Cfg.WF, Bool.and_eq_true] at h ⊢; exact h.2)).toCaches max
  | .proxy o (.shardBy r a b) max, h =>
    proxyRefines (interpRefines content route isSchema o (by simp only [Cfg.WF, Bool.and_eq_true] at h; exact h.1))
      (interpRefines content route isSchema (.shardBy r a b) (by simp only [Cfg.WF, Bool.and_eq_true] at h ⊢; exact h.2)).toCaches max
  | .proxy o (.replica2 a b) max, h =>
    proxyRefines (interpRefines content route isSchema o (by simp only [Cfg.WF, Bool.and_eq_true] at h; exact h.1))
      (interpRefines content route isSchema (.replica2 a b) (by simp only [Cfg.WF, Bool.and_eq_true] at h ⊢; exact h.2)).toCaches max
  | .proxy o (.cond2 a b) max, h =>
    proxyRefines (interpRefines content route isSchema o (by simp only [Cfg.WF, Bool.and_eq_true] at h; exact h.1))
      (interpRefines content route isSchema (.cond2 a b) (by simp only [Cfg.WF, Bool.and_eq_true] at h ⊢; exact h.2)).toCaches max
  | .proxy _ (.faulty _ _) _, h => by simp [Cfg.WF] at h
  | .faulty _ _, h => by simp [Cfg.WF] at h
  | .proxy _ (.leaf _) _, h => by simp [Cfg.WF] at h
  | .leaf _, h => by simp [Cfg.WF] at h
  | .overlay l u, h =>
    overlayRefines (interpRefines content route isSchema l (by simp [Cfg.WF] at h; exact h.1))
      (interpRefines content route isSchema u (by simp [Cfg.WF] at h; exact h.2))
  | .shard2 a b, h =>
    shard2Refines route (interpRefines content route isSchema a (by simp [Cfg.WF] at h; exact h.1))
      (interpRefines content route isSchema b (by simp [Cfg.WF] at h; exact h.2))
  | .shardBy r a b, h =>
    shard2Refines r (interpRefines content route isSchema a (by simp [Cfg.WF] at h; exact h.1))
      (interpRefines content route isSchema b (by simp [Cfg.WF] at h; exact h.2))
  | .replica2 a b, h =>
    replica2Refines (interpRefines content route isSchema a (by simp [Cfg.WF] at h; exact h.1))
      (interpRefines content route isSchema b (by simp [Cfg.WF] at h; exact h.2))
  | .cond2 a b, h =>
    cond2Refines isSchema (interpRefines content route isSchema a (by simp [Cfg.WF] at h; exact h.1))
      (interpRefines content route isSchema b (by simp [Cfg.WF] at h; exact h.2))

/-- **every supported nesting of backends is observationally the reference map**: for every
configuration tree (any depth; namespace, proxycache over any store or over an evicting cache of any
size, overlay, shard, replica, cond), every shard routing function and every schema predicate, every
finite well-keyed history of receive / fetch / stat / enumerate (any cursor string, any limit) /
remove from the initial state is answered exactly as the reference map answers it. -/
theorem C01_all_nestings (content : Bytes → Bytes) (route isSchema : Bytes → Bool) (c : Cfg)
    (hc : c.WF = true) (ops : List Op) (hops : ∀ op ∈ ops, op.WK content) :
    (interp route isSchema c).run (interp route isSchema c).init ops = RefMap.run [] ops :=
  (interpRefines content route isSchema c hc).run_init ops hops

/-- the same from any state the invariant admits – in particular an overlay whose lower layer is
already populated and has tombstones -/
theorem C01_all_nestings_from (content : Bytes → Bytes) (route isSchema : Bytes → Bool) (c : Cfg)
    (hc : c.WF = true) (s : (interp route isSchema c).σ)
    (hs : (interpRefines content route isSchema c hc).Inv s) (ops : List Op)
    (hops : ∀ op ∈ ops, op.WK content) :
    (interp route isSchema c).run s ops =
      RefMap.run ((interpRefines content route isSchema c hc).abs s) ops :=
  (interpRefines content route isSchema c hc).run_eq s hs ops hops

/-- overlay: upper-then-lower reads, tombstones, and the refill loop of its enumeration refine the map
for ARBITRARY lower contents and tombstones -/
theorem C01_overlay {content : Bytes → Bytes} {lower upper : Impl} (Rl : Refines content lower)
    (Ru : Refines content upper) (s : (overlayImpl lower upper).σ)
    (hs : Rl.Inv s.1 ∧ Ru.Inv s.2.1 ∧ KAsc s.2.2) (ops : List Op) (hops : ∀ op ∈ ops, op.WK content) :
    (overlayImpl lower upper).run s ops =
      RefMap.run ((union (Ru.abs s.2.1) (Rl.abs s.1)).filter (fun p => !has s.2.2 p.1)) ops :=
  (overlayRefines Rl Ru).run_eq s hs ops hops

/-- an overlay put on top of a store that already holds blobs (any history `seeds` of the lower
store alone) behaves as the reference map that starts with exactly those blobs -/
theorem C01_overlay_over_populated_lower {content : Bytes → Bytes} {lower upper : Impl}
    (Rl : Refines content lower) (Ru : Refines content upper) (seeds ops : List Op)
    (hseeds : ∀ op ∈ seeds, op.WK content) (hops : ∀ op ∈ ops, op.WK content) :
    (overlayImpl lower upper).run (lower.runState lower.init seeds, upper.init, []) ops =
      RefMap.run (RefMap.runState [] seeds) ops := by
  obtain ⟨hi, ha⟩ := Rl.reach lower.init Rl.init_inv seeds hseeds
  have h := C01_overlay Rl Ru (lower.runState lower.init seeds, upper.init, [])
    ⟨hi, Ru.init_inv, kasc_nil⟩ ops hops
  rw [h]
  congr 1
  simp only [ha, Rl.init_abs, Ru.init_abs]
  have hg := (Rl.reach lower.init Rl.init_inv seeds hseeds).1
  have hgood := Rl.good _ hg
  rw [ha, Rl.init_abs] at hgood
  apply SMap.ext (kasc_filter _ (kasc_union _ hgood.1)) hgood.1
  intro k
  rw [get_filter_key (fun x => !has ([] : SMap Unit) x) (kasc_union _ hgood.1)]
  simp [has, SMap.get, get_union]

/-- **the file-per-blob store (localdisk)**: with the directory layout `hash/xx/yy/hash-digest.dat`
and the recursive, cursor-pruned directory walk of files/enumerate.go as its enumeration, it answers
every history whose received refs are of supported hashes exactly like the reference map – for ANY
enumerate cursor string and any limit (`Pk.Files.walk_eq`: pruning never drops an entry after the
cursor, directory order is ref-text order, the shared countdown is `take`) -/
theorem C01_files (content : Bytes → Bytes) (ops : List Op) (hwk : ∀ op ∈ ops, op.WK content)
    (hk : ∀ op ∈ ops, Pk.Files.KeyOK Pk.Ref.gtbl op) :
    (Pk.Files.filesImpl Pk.Ref.gtbl).run (Pk.Files.filesImpl Pk.Ref.gtbl).init ops = RefMap.run [] ops :=
  Pk.Files.files_run_eq content ops hwk hk

/-- **the append-only packed disk store (diskpacked)**: pack files as byte strings with `[ref size]`
headers, an index of (pack, offset, size) rows, roll-over to a new pack for ANY maxFileSize (also one so
small that every append rolls over), duplicate receive as a no-op, removal by overwriting the blob's
own header and body, and enumeration as the index range scan with the skip-equal rule: it answers every
history exactly like the reference map (byte arithmetic of offsets and extents proved, not assumed).
`KeyOK`: received refs contain a `-` with no space after it (every real ref text does). -/
theorem C01_diskpacked (max : Nat) (content : Bytes → Bytes) (ops : List Op)
    (hwk : ∀ op ∈ ops, op.WK content) (hk : ∀ op ∈ ops, Pk.DiskPacked.KeyOK op) :
    (Pk.DiskPacked.diskpackedImpl max).run (Pk.DiskPacked.diskpackedImpl max).init ops = RefMap.run [] ops :=
  Pk.DiskPacked.diskpacked_run_eq max content ops hwk hk

/-! ### nestings over ALL modelled leaves: memory, localdisk/files, diskpacked -/

/-- the cache of a proxycache: an evicting memory cache or a plain memory store -/
inductive CacheCfg where
  | memCache (max : Nat)
  | mem

/-- configuration trees whose leaves are memory, the file-per-blob store or the packed disk store -/
inductive LCfg where
  | mem
  | files
  | diskpacked (maxFileSize : Nat)
  | ns (master : LCfg)
  | proxy (origin : LCfg) (cache : CacheCfg) (max : Nat)
  | overlay (lower upper : LCfg)
  | shard2 (a b : LCfg)
  | shardBy (r : Bytes → Bool) (a b : LCfg)
  | replica2 (a b : LCfg)
  | cond2 (t e : LCfg)

def CacheCfg.toCfg : CacheCfg → Cfg
  | .memCache m => .memCache m
  | .mem => .mem

/-- the same tree as a `Cfg` (disk leaves are given by their layout models) -/
def LCfg.toCfg (t : Pk.Ref.Tbl) : LCfg → Cfg
  | .mem => .mem
  | .files => .leaf (Pk.Files.filesImpl t)
  | .diskpacked m => .leaf (Pk.DiskPacked.diskpackedImpl m)
  | .ns m => .ns (m.toCfg t)
  | .proxy o c max => .proxy (o.toCfg t) c.toCfg max
  | .overlay l u => .overlay (l.toCfg t) (u.toCfg t)
  | .shard2 a b => .shard2 (a.toCfg t) (b.toCfg t)
  | .shardBy r a b => .shardBy r (a.toCfg t) (b.toCfg t)
  | .replica2 a b => .replica2 (a.toCfg t) (b.toCfg t)
  | .cond2 a b => .cond2 (a.toCfg t) (b.toCfg t)

def cacheCaches (content : Bytes → Bytes) (route isSchema : Bytes → Bool) :
    (c : CacheCfg) → Caches content (interp route isSchema c.toCfg)
  | .memCache m => memCacheCaches content m
  | .mem => (memRefines content).toCaches

/-- the refinement proof of a tree with disk leaves, for histories whose received keys are texts of
supported-hash refs (`SupK t`): every combinator maps `RefinesK` proofs of its sub-stores to a
`RefinesK` proof of itself -/
def interpRefinesK (t : Pk.Ref.Tbl) (ht : Pk.Files.TblOK t) (content : Bytes → Bytes)
    (route isSchema : Bytes → Bool) :
    (c : LCfg) → RefinesK content (Pk.Files.SupK t) (interp route isSchema (c.toCfg t))
  | .mem => (memRefines content).toK _
  | .files => Pk.Files.filesRefinesK t ht content
  | .diskpacked m =>
    Pk.DiskPacked.diskpackedRefinesK m content (Pk.Files.SupK t) (fun _ h => Pk.Files.supK_keyForm ht h)
  | .ns m => nsRefinesK (interpRefinesK t ht content route isSchema m)
  | .proxy o c max =>
    proxyRefinesK (interpRefinesK t ht content route isSchema o) (cacheCaches content route isSchema c) max
  | .overlay l u =>
    overlayRefinesK (interpRefinesK t ht content route isSchema l) (interpRefinesK t ht content route isSchema u)
  | .shard2 a b =>
    shard2RefinesK route (interpRefinesK t ht content route isSchema a) (interpRefinesK t ht content route isSchema b)
  | .shardBy r a b =>
    shard2RefinesK r (interpRefinesK t ht content route isSchema a) (interpRefinesK t ht content route isSchema b)
  | .replica2 a b =>
    replica2RefinesK (interpRefinesK t ht content route isSchema a) (interpRefinesK t ht content route isSchema b)
  | .cond2 a b =>
    cond2RefinesK isSchema (interpRefinesK t ht content route isSchema a) (interpRefinesK t ht content route isSchema b)

/-- **every nesting of combinators over memory, localdisk and diskpacked leaves is observationally
the reference map**: for every such tree (any depth, any maxFileSize, any cache size), every routing
function and schema predicate, every finite well-keyed history whose received refs are texts of
supported-hash refs (as regenerated from the source: sha1/sha224/sha256) is answered – receive, fetch,
stat, enumerate with ANY cursor string and limit, remove – exactly as the reference map answers it.
The leaves are the layout models (directory tree + pruned walk; pack bytes + index rows). -/
theorem C01_all_nestings_with_disk_leaves (content : Bytes → Bytes) (route isSchema : Bytes → Bool)
    (c : LCfg) (ops : List Op) (hops : ∀ op ∈ ops, op.WK content)
    (hk : ∀ op ∈ ops, op.KOK (Pk.Files.SupK Pk.Ref.gtbl)) :
    (interp route isSchema (c.toCfg Pk.Ref.gtbl)).run (interp route isSchema (c.toCfg Pk.Ref.gtbl)).init ops
      = RefMap.run [] ops :=
  (interpRefinesK Pk.Ref.gtbl Pk.Files.gtbl_ok content route isSchema c).run_init ops hops hk

/-- a three-level nesting satisfies the hypotheses (non-vacuity) -/
example : (Cfg.overlay (.shard2 .mem (.ns .mem)) (.proxy (.cond2 .mem .mem) (.memCache 100) 50)).WF = true := by decide

/-! ### shard and replica over ANY number of sub-stores

shard.go and replica.go keep a slice of sub-stores: point operations index it (`Sum32(ref) % n`) or
loop over it, and enumerate hands the whole slice to ONE call of `MergedEnumerateStorage`.
`shardNImpl` / `replicaNImpl` (Model/Stores.lean) are those loops.  A configuration tree has two-way
nodes only; the drivers build an n-way node as the right-nested tree `Cfg.shardNest` /
`Cfg.replicaNest`.  The theorems below tie the two: the n-way merge IS the nested two-way merge, both
n-way models refine the reference map whenever every sub-store does, and on every well-keyed history
they answer exactly like the nested trees. -/

/-- **the n-way merged enumeration of mergedenum.go is the nested two-way one**: for strictly
ascending sources, merging `x` with all the others in one call sends exactly what merging `x` with
the (merged, cut at `limit`) enumeration of the others sends -/
theorem C01_merged_nway_is_nested (limit : Nat) (x : List MergedEnum.SR) (rest : List (List MergedEnum.SR))
    (h : MergedEnum.AllAsc (x :: rest)) :
    MergedEnum.mergedEnumerate limit (x :: rest) =
      MergedEnum.mergedEnumerate limit [x, MergedEnum.mergedEnumerate limit rest] :=
  MergedEnum.merged_cons_nest limit x rest h

/-- **shard over any number of sub-stores** (the slice indexed by `route k % n`, ONE n-way merged
enumeration) refines the reference map whenever every sub-store does, for every routing function -/
theorem C01_shardN {content : Bytes → Bytes} (route : Bytes → Nat) (k : Impl) (r : List Impl)
    (Rk : Refines content k) (Rr : RKids content r) (ops : List Op) (hops : ∀ op ∈ ops, op.WK content) :
    (shardNImpl route (k :: r)).run (shardNImpl route (k :: r)).init ops = RefMap.run [] ops :=
  shardN_run_eq route k r Rk Rr ops hops

/-- **replica over any number of sub-stores** (receive / stat / remove on all of them, fetch from the
first that has the blob, ONE n-way merged enumeration; `minWritesForSuccess` = their number) refines
the reference map whenever every sub-store does -/
theorem C01_replicaN {content : Bytes → Bytes} (k : Impl) (r : List Impl) (R : RKids content (k :: r))
    (ops : List Op) (hops : ∀ op ∈ ops, op.WK content) :
    (replicaNImpl (k :: r)).run (replicaNImpl (k :: r)).init ops = RefMap.run [] ops :=
  (replicaNRefines k r R).run_init ops hops

/-- the refinement proofs of a list of supported configurations -/
def rkidsOf (content : Bytes → Bytes) (route isSchema : Bytes → Bool) :
    (r : List Cfg) → (∀ c ∈ r, c.WF = true) → RKids content (r.map (interp route isSchema))
  | [], _ => ()
  | c :: r, h => (interpRefines content route isSchema c (h c (by simp)),
      rkidsOf content route isSchema r (fun c' hc => h c' (by simp [hc])))

/-- **the tree the drivers build for an n-way shard is the n-way shard**: over any supported
sub-configurations, the slice model and the right-nested tree of two-way shards (sub-store `i`
against the rest, routing `sum k % n`) answer every well-keyed history alike – both like the
reference map -/
theorem C01_shardN_tree (content : Bytes → Bytes) (route isSchema : Bytes → Bool) (sum : Bytes → Nat)
    (k : Cfg) (r : List Cfg) (hk : k.WF = true) (hr : ∀ c ∈ r, c.WF = true) (ops : List Op)
    (hops : ∀ op ∈ ops, op.WK content) :
    let tree := interp route isSchema (Cfg.shardNest sum (r.length + 1) 0 k r)
    let slice := shardNImpl sum (interp route isSchema k :: r.map (interp route isSchema))
    slice.run slice.init ops = tree.run tree.init ops ∧ tree.run tree.init ops = RefMap.run [] ops := by
  intro tree slice
  have h1 : slice.run slice.init ops = RefMap.run [] ops :=
    shardN_run_eq sum _ _ (interpRefines content route isSchema k hk)
      (rkidsOf content route isSchema r hr) ops hops
  have h2 : tree.run tree.init ops = RefMap.run [] ops :=
    C01_all_nestings content route isSchema _ (wf_shardNest sum _ r k 0 hk hr) ops hops
  exact ⟨h1.trans h2.symm, h2⟩

/-- the same for replica -/
theorem C01_replicaN_tree (content : Bytes → Bytes) (route isSchema : Bytes → Bool)
    (k : Cfg) (r : List Cfg) (hk : k.WF = true) (hr : ∀ c ∈ r, c.WF = true) (ops : List Op)
    (hops : ∀ op ∈ ops, op.WK content) :
    let tree := interp route isSchema (Cfg.replicaNest k r)
    let slice := replicaNImpl (interp route isSchema k :: r.map (interp route isSchema))
    slice.run slice.init ops = tree.run tree.init ops ∧ tree.run tree.init ops = RefMap.run [] ops := by
  intro tree slice
  have h1 : slice.run slice.init ops = RefMap.run [] ops :=
    (replicaNRefines _ _ (interpRefines content route isSchema k hk,
      rkidsOf content route isSchema r hr)).run_init ops hops
  have h2 : tree.run tree.init ops = RefMap.run [] ops :=
    C01_all_nestings content route isSchema _ (wf_replicaNest r k hk hr) ops hops
  exact ⟨h1.trans h2.symm, h2⟩

/-- the tree of an n-way shard denotes the nested model level by level (`shard2Impl` with the
routing predicate "not sub-store `i`") -/
theorem C01_shardN_tree_model (route isSchema : Bytes → Bool) (sum : Bytes → Nat) (n : Nat) (k : Cfg)
    (r : List Cfg) :
    interp route isSchema (Cfg.shardNest sum n 0 k r) =
      shardNestImpl sum n 0 (interp route isSchema k) (r.map (interp route isSchema)) :=
  interp_shardNest route isSchema sum n r k 0

/-- non-vacuity: a four-way shard of supported sub-trees, one of them a three-way replica -/
example : (Cfg.shardNest (fun k => k.length) 4 0 .mem
    [.ns .mem, Cfg.replicaNest .mem [.overlay .mem .mem, .mem], .proxy .mem (.memCache 10) 5]).WF = true := by
  decide
example : ((shardNImpl (fun k => k.length) [memImpl, memImpl, memImpl]).run
    (shardNImpl (fun k => k.length) [memImpl, memImpl, memImpl]).init
    [.recv [1] [7], .recv [1, 2] [8], .recv [1, 2, 3] [9, 9], .enum [] 2, .fetch [1, 2], .rm [1], .enum [] 5]) =
    [.sized 1, .sized 1, .sized 2, .refs [([1], 1), ([1, 2], 1)], .bytes [8], .ok,
     .refs [([1, 2], 1), ([1, 2, 3], 2)]] := by decide
example : ((replicaNImpl [memImpl, memImpl, memImpl]).run (replicaNImpl [memImpl, memImpl, memImpl]).init
    [.recv [1] [7], .recv [2] [8], .stat [1], .enum [] 1, .rm [1], .fetch [1], .enum [] 5]) =
    [.sized 1, .sized 1, .sized 1, .refs [([1], 1)], .ok, .notExist, .refs [([2], 1)]] := by decide

/-! ### the enumeration contract of the reference map (hence of everything that refines it) -/

theorem keys_enumOf_sublist (m : SMap Bytes) (after : Bytes) (limit : Nat) :
    ((enumOf m after limit).map (·.1)).Sublist (m.map (·.1)) := by
  unfold enumOf sizes
  rw [List.map_take, List.map_map]
  have h1 : (List.map ((fun x => x.1) ∘ fun p : Bytes × Bytes => (p.1, p.2.length))
      (m.filter (fun p => ltB after p.1))) = (m.filter (fun p => ltB after p.1)).map (·.1) := by
    apply List.map_congr_left; intro a _; rfl
  rw [h1]
  exact (List.take_sublist _ _).trans (List.Sublist.map _ List.filter_sublist)

/-- enumerate answers: at most `limit` entries, ascending by ref text (so each ref at most once),
every entry strictly after the cursor – for ANY cursor string – and with the blob's true size -/
theorem C01_enumerate_contract (content : Bytes → Bytes) (m : SMap Bytes) (hm : Good content m)
    (after : Bytes) (limit : Nat) :
    (enumOf m after limit).length ≤ limit ∧
    (enumOf m after limit).Pairwise (fun a b => ltB a.1 b.1 = true) ∧
    (∀ e ∈ enumOf m after limit, ltB after e.1 = true ∧ SMap.get m e.1 = some (content e.1) ∧
      e.2 = (content e.1).length) := by
  refine ⟨by simp [enumOf, List.length_take]; omega, ?_, ?_⟩
  · unfold enumOf sizes
    apply List.Pairwise.sublist (List.take_sublist _ _)
    rw [List.pairwise_map]
    exact kasc_filter _ hm.1
  · intro e he
    unfold enumOf sizes at he
    have he' := List.mem_of_mem_take he
    rw [List.mem_map] at he'
    obtain ⟨p, hp, rfl⟩ := he'
    obtain ⟨hpm, hlt⟩ := List.mem_filter.mp hp
    obtain ⟨k, v⟩ := p
    have hg := mem_get hm.1 hpm
    have := (hm.2 k v hg).1
    subst this
    exact ⟨hlt, hg, rfl⟩

/-- nothing present and after the cursor is skipped: enumerate is exactly the first `limit` entries of
the (ascending) contents that lie after the cursor -/
theorem C01_enumerate_complete (m : SMap Bytes) (after : Bytes) (limit : Nat) :
    enumOf m after limit = (sizes (m.filter (fun p => ltB after p.1))).take limit := rfl

/-- **paging**: following "cursor = last ref of the previous page" with any page size ≥ 1 visits every
blob exactly once, in order (instance of `Pk.pages_suffix` for the byte order on ref texts) -/
theorem C01_paging (keys : List Bytes) (hk : Asc ltB keys) (limit : Nat) (hl : 0 < limit)
    (pre r : List Bytes) (c : Bytes) (hsplit : keys = pre ++ c :: r) (fuel : Nat) (hf : r.length < fuel) :
    pages ltB keys limit fuel (some c) = r := by
  subst hsplit
  exact pages_suffix ltB ⟨ltB_irrefl, ltB_trans, ltB_total⟩ limit hl fuel pre r c hk hf

/-- hypotheses are satisfiable: a two-level nesting from its initial state -/
example (content : Bytes → Bytes) : (nsRefines (nsRefines (memRefines content))).Inv
    (nsImpl (nsImpl memImpl)).init := (nsRefines (nsRefines (memRefines content))).init_inv

end Pk.Stores
