import PkVerif.Lemmas.RefNs
import PkVerif.Base.Order
/-!
# C01 – every storage backend behaves as a content-addressed map

`Pk.RefMap` is the reference map (`next`/`out`); `Pk.RefMap.Refines content I` packages the proof that
an implementation model `I` answers every well-keyed history exactly as the reference map does
(`Refines.run_eq`).  Storage combinators are functions on `Impl`s with matching functions on
`Refines`, so a configuration tree denotes a model (`Pk.Stores.interp`) and "for all nestings" is
structural induction over the tree.
-/
namespace Pk.Stores
open Pk Pk.SMap Pk.RefMap

/-- **the refinement theorem**: from any state satisfying its invariant, a refining store answers
every finite well-keyed history of receive/fetch/stat/enumerate/remove exactly like the reference map -/
theorem C01_refines_run {content : Bytes → Bytes} {I : Impl} (R : Refines content I) (s : I.σ)
    (h : R.Inv s) (ops : List Op) (hops : ∀ op ∈ ops, op.WK content) :
    I.run s ops = RefMap.run (R.abs s) ops := R.run_eq s h ops hops

/-- memory is the reference map -/
theorem C01_memory (content : Bytes → Bytes) (ops : List Op) (hops : ∀ op ∈ ops, op.WK content) :
    memImpl.run memImpl.init ops = RefMap.run [] ops := (memRefines content).run_init ops hops

/-- namespace over any refining master refines the map (inventory KV + shared master; the inclusive
`Find` with the skip-equal rule is an exclusive cursor for ANY cursor string) -/
theorem C01_namespace {content : Bytes → Bytes} {master : Impl} (R : Refines content master)
    (ops : List Op) (hops : ∀ op ∈ ops, op.WK content) :
    (nsImpl master).run (nsImpl master).init ops = RefMap.run [] ops := (nsRefines R).run_init ops hops

/-! ### the enumeration contract of the reference map (hence of everything that refines it) -/

theorem keys_enumOf_sublist (m : SMap Bytes) (after : Bytes) (limit : Nat) :
    ((enumOf m after limit).map (·.1)).Sublist (m.map (·.1)) := by
  unfold enumOf sizes
  rw [List.map_take, List.map_map]
  have h1 : (List.map ((fun x => x.1) ∘ fun p : Bytes × Bytes => (p.1, p.2.length))
      (m.filter (fun p => ltB after p.1))) = (m.filter (fun p => ltB after p.1)).map (·.1) := by
    apply List.map_congr_left; intro a _; rfl
  rw [h1]
  exact (List.take_sublist _ _).trans (List.Sublist.map _ List.filter_sublist)

/-- enumerate answers: at most `limit` entries, ascending by ref text (so each ref at most once),
every entry strictly after the cursor – for ANY cursor string – and with the blob's true size -/
theorem C01_enumerate_contract (content : Bytes → Bytes) (m : SMap Bytes) (hm : Good content m)
    (after : Bytes) (limit : Nat) :
    (enumOf m after limit).length ≤ limit ∧
    (enumOf m after limit).Pairwise (fun a b => ltB a.1 b.1 = true) ∧
    (∀ e ∈ enumOf m after limit, ltB after e.1 = true ∧ SMap.get m e.1 = some (content e.1) ∧
      e.2 = (content e.1).length) := by
  refine ⟨by simp [enumOf, List.length_take]; omega, ?_, ?_⟩
  · unfold enumOf sizes
    apply List.Pairwise.sublist (List.take_sublist _ _)
    rw [List.pairwise_map]
    exact kasc_filter _ hm.1
  · intro e he
    unfold enumOf sizes at he
    have he' := List.mem_of_mem_take he
    rw [List.mem_map] at he'
    obtain ⟨p, hp, rfl⟩ := he'
    obtain ⟨hpm, hlt⟩ := List.mem_filter.mp hp
    obtain ⟨k, v⟩ := p
    have hg := mem_get hm.1 hpm
    have := (hm.2 k v hg).1
    subst this
    exact ⟨hlt, hg, rfl⟩

/-- nothing present and after the cursor is skipped: enumerate is exactly the first `limit` entries of
the (ascending) contents that lie after the cursor -/
theorem C01_enumerate_complete (m : SMap Bytes) (after : Bytes) (limit : Nat) :
    enumOf m after limit = (sizes (m.filter (fun p => ltB after p.1))).take limit := rfl

/-- **paging**: following "cursor = last ref of the previous page" with any page size ≥ 1 visits every
blob exactly once, in order (instance of `Pk.pages_suffix` for the byte order on ref texts) -/
theorem C01_paging (keys : List Bytes) (hk : Asc ltB keys) (limit : Nat) (hl : 0 < limit)
    (pre r : List Bytes) (c : Bytes) (hsplit : keys = pre ++ c :: r) (fuel : Nat) (hf : r.length < fuel) :
    pages ltB keys limit fuel (some c) = r := by
  subst hsplit
  exact pages_suffix ltB ⟨ltB_irrefl, ltB_trans, ltB_total⟩ limit hl fuel pre r c hk hf

/-- hypotheses are satisfiable: a two-level nesting from its initial state -/
example (content : Bytes → Bytes) : (nsRefines (nsRefines (memRefines content))).Inv
    (nsImpl (nsImpl memImpl)).init := (nsRefines (nsRefines (memRefines content))).init_inv

end Pk.Stores
