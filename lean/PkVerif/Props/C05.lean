import PkVerif.Lemmas.IndexObs
import PkVerif.Gen.C05
/-!
# C05 – the index is a function of the set of blobs, not of their arrival order

Property theorems only. `Pk.Index` models pkg/index receive.go / index.go / keys.go at level 1 (one
`ReceiveBlob` is atomic; the asynchronous re-index goroutines are the separate `reidx` steps of a
schedule). A *schedule* (`List Act`) is any sequence of source-adds, arrivals (duplicates allowed),
re-index steps and restarts; it is `Valid` when every blob reaches the source before the index and
restarts happen at quiescence (`readyReindex` empty). `WF W` says fetch dependencies (keys, chunks,
bytes blobs, static sets) need nothing themselves and no delete claim targets itself.

The theorems are about the code after the fixes c9dd462 (row 13 of DESIGN §12) and e826ac0; the
`Old.*` counterexamples show what the code before did.
-/
namespace Pk.Index
open Pk Pk.SMap

/-! ## a concrete world for the examples and counterexamples -/

/-- key 1; permanode 2; claim 3 on 2; delete claim 4 of 2; chunks 5, 6; file 7 = 5 ++ 6; delete claim 8 of 7 -/
def W0 : World := fun r =>
  match r with
  | 1 => ⟨.key 0, 449, [116]⟩
  | 2 => ⟨.pn 1, 557, []⟩
  | 3 => ⟨.claim 1 2 .set (.indexed 0) (.str 1) 1000 0, 726, []⟩
  | 4 => ⟨.del 1 2 2000, 675, []⟩
  | 5 => ⟨.opaque, 40, []⟩
  | 6 => ⟨.opaque, 50, []⟩
  | 7 => ⟨.file 1 0 90 [116] 1 none [.chunk 5 40, .chunk 6 50], 243, []⟩
  | 8 => ⟨.del 1 7 3000, 675, []⟩
  | _ => ⟨.opaque, 0, []⟩

theorem W0_wf : WF W0 := by
  constructor
  · intro b m hm
    rcases b with _ | _ | _ | _ | _ | _ | _ | _ | _ | b <;>
      simp [fdeps, W0, partDeps, treeFuel] at hm <;>
      (try (rcases hm with rfl | rfl <;> simp [fdeps, idep, W0])) <;>
      (try (subst hm; simp [fdeps, idep, W0]))
  · intro b
    rcases b with _ | _ | _ | _ | _ | _ | _ | _ | _ | b <;> simp [idep, W0]

/-- the delete claim arrives before its target, the index restarts, then the target arrives -/
def actsDel : List Act := [.src 1, .recv 1, .src 4, .recv 4, .restart, .src 2, .recv 2, .reidx 4]

/-- the file arrives before its chunks; the index restarts between the two chunks -/
def actsFile : List Act :=
  [.src 7, .recv 7, .src 5, .recv 5, .reidx 7, .restart, .src 6, .recv 6, .reidx 7]

/-! ## the property -/

/-- **Quiescent state is canonical.** Whatever the schedule (order, interleaving of the asynchronous
re-indexing, duplicates, restarts at quiescence), once every blob of the source has been delivered at
least once and nothing is left in `readyReindex`, the rows are the canonical rows of the source. -/
theorem C05_quiescent_state_canonical (W : World) (ver : Nat) (hW : WF W) (c : Bool) (acts : List Act)
    (hv : Valid W ver (State.init ver c) acts)
    (hq : (run W ver (State.init ver c) acts).ready = [])
    (hall : ∀ b ∈ (run W ver (State.init ver c) acts).src, Act.recv b ∈ acts) :
    (run W ver (State.init ver c) acts).rows = canonicalRows W ver (run W ver (State.init ver c) acts).src := by
  have h := allInv_run hW acts _ [] (allInv_init W ver c) hv
  exact final_rows hW h.1 hq (fun b hb => by simp [mem_delivered, hall b hb])

example : Valid W0 5 (State.init 5 false) actsDel ∧ (run W0 5 (State.init 5 false) actsDel).ready = [] ∧
    (∀ b ∈ (run W0 5 (State.init 5 false) actsDel).src, Act.recv b ∈ actsDel) :=
  ⟨valid_of_validB _ _ _ _ (by decide), by decide, by decide⟩

/-- **The index is a function of the set of blobs.** Two schedules that deliver the same set end in the
same rows – whatever their orders, duplicates, interleavings and restarts. -/
theorem C05_rows_function_of_set (W : World) (ver : Nat) (hW : WF W) (c c' : Bool) (acts acts' : List Act)
    (hv : Valid W ver (State.init ver c) acts) (hv' : Valid W ver (State.init ver c') acts')
    (hq : (run W ver (State.init ver c) acts).ready = []) (hq' : (run W ver (State.init ver c') acts').ready = [])
    (hall : ∀ b ∈ (run W ver (State.init ver c) acts).src, Act.recv b ∈ acts)
    (hall' : ∀ b ∈ (run W ver (State.init ver c') acts').src, Act.recv b ∈ acts')
    (hset : ∀ x, x ∈ (run W ver (State.init ver c) acts).src ↔ x ∈ (run W ver (State.init ver c') acts').src) :
    (run W ver (State.init ver c) acts).rows = (run W ver (State.init ver c') acts').rows := by
  rw [C05_quiescent_state_canonical W ver hW c acts hv hq hall,
    C05_quiescent_state_canonical W ver hW c' acts' hv' hq' hall']
  exact canonicalRows_congr W ver _ _ hset

/-- the canonical rows themselves depend on the set only, not on the list that presents it -/
theorem C05_canonical_rows_of_set (W : World) (ver : Nat) (S S' : List Ref) (h : ∀ x, x ∈ S ↔ x ∈ S') :
    canonicalRows W ver S = canonicalRows W ver S' := canonicalRows_congr W ver S S' h

example : canonicalRows W0 5 [1, 2, 4] = canonicalRows W0 5 [4, 2, 1, 2] :=
  C05_canonical_rows_of_set W0 5 _ _ (by
    intro x; simp only [List.mem_cons, List.mem_nil_iff, or_false]
    constructor
    · rintro (rfl | rfl | rfl) <;> simp
    · rintro (rfl | rfl | rfl | rfl) <;> simp)

/-- what the canonical index says about each blob of the set: fully indexed, or indexed as far as
possible (delete claim without its target's meta row), or only remembered – and nothing about others -/
theorem C05_quiescent_status (W : World) (ver : Nat) (hW : WF W) (c : Bool) (acts : List Act)
    (hv : Valid W ver (State.init ver c) acts)
    (hq : (run W ver (State.init ver c) acts).ready = [])
    (hall : ∀ b ∈ (run W ver (State.init ver c) acts).src, Act.recv b ∈ acts) (b : Ref) :
    stOf W (run W ver (State.init ver c) acts).rows b = canonStatus W (run W ver (State.init ver c) acts).src b := by
  have h := allInv_run hW acts _ [] (allInv_init W ver c) hv
  exact final_status hW h.1 hq (fun b hb => by simp [mem_delivered, hall b hb]) b

/-- **Pending blobs are remembered**, at every moment of every schedule (quiescent or not): a delivered
blob that is not fully indexed and is not queued for re-indexing is in `needs`, and the dependency is
persisted as a `missing|have|needed` row. -/
theorem C05_pending_remembered (W : World) (ver : Nat) (hW : WF W) (c : Bool) (acts : List Act)
    (hv : Valid W ver (State.init ver c) acts) (b : Ref) (hb : Act.recv b ∈ acts)
    (hnf : stOf W (run W ver (State.init ver c) acts).rows b ≠ .full)
    (hnr : b ∉ (run W ver (State.init ver c) acts).ready) :
    ∃ m, (b, m) ∈ (run W ver (State.init ver c) acts).needs ∧
      SMap.get (run W ver (State.init ver c) acts).rows (kMissing b m) = some [1] := by
  have h := allInv_run hW acts _ [] (allInv_init W ver c) hv
  rcases h.1.j1 b (by simp [mem_delivered, hb]) (by simp) hnf with ⟨m, hm⟩ | h1
  · exact ⟨m, hm, by rw [h.1.r3 b m, if_pos ⟨hm, hnf⟩]⟩
  · exact absurd h1 hnr

example : Act.recv 4 ∈ [Act.src 1, .recv 1, .src 4, .recv 4] ∧
    stOf W0 (run W0 5 (State.init 5 false) [.src 1, .recv 1, .src 4, .recv 4]).rows 4 = .half ∧
    (4, 2) ∈ (run W0 5 (State.init 5 false) [.src 1, .recv 1, .src 4, .recv 4]).needs := by decide

/-- before c9dd462 the `missing|` row of a delete claim that waits for its target was deleted by
`removeAllMissingEdges` in the very ReceiveBlob that wrote it: in `needs`, but not persisted -/
theorem C05_pending_remembered_old_counterexample :
    (4, 2) ∈ (Old.run W0 5 (State.init 5 false) [.src 1, .recv 1, .src 4, .recv 4]).needs ∧
    SMap.get (Old.run W0 5 (State.init 5 false) [.src 1, .recv 1, .src 4, .recv 4]).rows (kMissing 4 2) = none := by
  decide

/-- **A restart forgets nothing**: at quiescence the dependencies reloaded from the `missing|` rows are
exactly those of the blobs that are not fully indexed. -/
theorem C05_restart_keeps_pending (W : World) (ver : Nat) (hW : WF W) (c : Bool) (acts : List Act)
    (hv : Valid W ver (State.init ver c) acts) (b m : Ref) :
    (b, m) ∈ ((run W ver (State.init ver c) acts).restart ver).needs ↔
      ((b, m) ∈ (run W ver (State.init ver c) acts).needs ∧ stOf W (run W ver (State.init ver c) acts).rows b ≠ .full) := by
  have h := allInv_run hW acts _ [] (allInv_init W ver c) hv
  have hne : (run W ver (State.init ver c) acts).rows ≠ [] := by
    intro e
    have := h.1.schema
    rw [e] at this; simp [SMap.get] at this
  unfold State.restart
  rw [reopen_nonempty ver _ _ _ hne]
  show (b, m) ∈ missingPairs _ ↔ _
  rw [mem_missingPairs, h.1.r3 b m]
  by_cases e : (b, m) ∈ (run W ver (State.init ver c) acts).needs ∧ stOf W (run W ver (State.init ver c) acts).rows b ≠ .full
  · simp [e]
  · simp [e]

/-- **Restart midway.** A schedule that restarts the index at any quiescent prefix and then delivers the
remaining blobs ends in the canonical rows of the source, like every other schedule. -/
theorem C05_restart_midway (W : World) (ver : Nat) (hW : WF W) (c : Bool) (acts1 acts2 : List Act)
    (hv : Valid W ver (State.init ver c) (acts1 ++ Act.restart :: acts2))
    (hq : (run W ver (State.init ver c) (acts1 ++ Act.restart :: acts2)).ready = [])
    (hall : ∀ b ∈ (run W ver (State.init ver c) (acts1 ++ Act.restart :: acts2)).src,
      Act.recv b ∈ acts1 ++ Act.restart :: acts2) :
    (run W ver (State.init ver c) (acts1 ++ Act.restart :: acts2)).rows =
      canonicalRows W ver (run W ver (State.init ver c) (acts1 ++ Act.restart :: acts2)).src :=
  C05_quiescent_state_canonical W ver hW c _ hv hq hall

example : Valid W0 5 (State.init 5 false) actsFile ∧ (run W0 5 (State.init 5 false) actsFile).ready = [] ∧
    stOf W0 (run W0 5 (State.init 5 false) actsFile).rows 7 = .full :=
  ⟨valid_of_validB _ _ _ _ (by decide), by decide, by decide⟩

/-- before e826ac0 the `missing|file|chunk1` row survived the indexing of chunk 1; a restart loaded it
back into `needs`, and the file stayed unindexed for ever although both chunks had arrived; before
c9dd462 a delete claim that arrived before its target was forgotten by a restart -/
theorem C05_restart_midway_old_counterexample :
    (Old.run W0 5 (State.init 5 false) actsFile).ready = [] ∧
    stOf W0 (Old.run W0 5 (State.init 5 false) actsFile).rows 7 = .absent ∧
    (Old.run W0 5 (State.init 5 false) actsDel).ready = [] ∧
    stOf W0 (Old.run W0 5 (State.init 5 false) actsDel).rows 4 = .half ∧
    (Old.run W0 5 (State.init 5 false) actsDel).needs = [] := by decide

/-- the quiescence condition on restarts is necessary: `readyReindex` lives in memory only, so an index
that is stopped between the indexing of a dependency and the re-indexing of the blob that waited for it
(here: file 7 is ready once chunk 5 is in) forgets that blob – nothing re-indexes it when the last chunk
arrives (DESIGN §8 C05 "to be examined"; `index.integrityCheck` / a full reindex are the remedies) -/
theorem C05_restart_not_quiescent_counterexample :
    (run W0 5 (State.init 5 false) [.src 7, .recv 7, .src 5, .recv 5]).ready = [7] ∧
    stOf W0 (run W0 5 (State.init 5 false) [.src 7, .recv 7, .src 5, .recv 5, .restart, .src 6, .recv 6]).rows 7 = .absent ∧
    (run W0 5 (State.init 5 false) [.src 7, .recv 7, .src 5, .recv 5, .restart, .src 6, .recv 6]).ready = [] ∧
    (run W0 5 (State.init 5 false) [.src 7, .recv 7, .src 5, .recv 5, .restart, .src 6, .recv 6]).needs = [] := by decide

/-- **Reindex = incremental.** `Reindex` (wipe, index every blob of the source in any order with the
asynchronous re-indexing in between, wait) produces the canonical rows of the source – the rows every
incremental schedule over the same set ends in (`C05_quiescent_state_canonical`). -/
theorem C05_reindex_equals_incremental (W : World) (ver : Nat) (hW : WF W) (s : State) (fuel : Nat)
    (order : List Ref) (hcov : ∀ b ∈ s.src, b ∈ order)
    (hq : (State.reindexAll W ver fuel s order).ready = []) :
    (State.reindexAll W ver fuel s order).rows = canonicalRows W ver s.src := by
  obtain ⟨seen', i1, i2, _, i4⟩ := allInv_reindexLoop hW fuel order _ [] (allInv_fresh W ver s.src)
  have hsrc : (reindexLoop W fuel (reopen ver [] s.src false) order).src = s.src := i2
  have := final_rows hW i1.1 hq (fun b hb => i4 b (hcov b (by rw [← hsrc]; exact hb)) (by rw [← hsrc]; exact hb))
  rw [hsrc] at this
  exact this

example : (State.reindexAll W0 5 20 (run W0 5 (State.init 5 false) [.src 1, .src 2, .src 4]) [4, 2, 1]).ready = [] ∧
    ∀ b ∈ (run W0 5 (State.init 5 false) [.src 1, .src 2, .src 4]).src, b ∈ [4, 2, 1] := by decide

/-- the invariant behind all of the above holds in every state of every valid schedule -/
theorem C05_invariant_reachable (W : World) (ver : Nat) (hW : WF W) (c : Bool) (acts : List Act)
    (hv : Valid W ver (State.init ver c) acts) :
    AllInv W ver (run W ver (State.init ver c) acts) (delivered acts ++ []) :=
  allInv_run hW acts _ [] (allInv_init W ver c) hv

/-! ## facts read from the source -/

/-- ReceiveBlob: commit, then corpus.addBlob, then noteBlobIndexedLocked, then removeAllMissingEdges –
and the last one only under a condition (`!mm.partial`, c9dd462) -/
theorem C05_gen_receive_order :
    Gen.c05ReceiveEffects.map (·.e) = [.commit, .corpusAdd, .noteIndexed, .removeMissingEdges] ∧
    (Gen.c05ReceiveEffects.filter (fun x => x.e == .removeMissingEdges)).all (·.cond) = true ∧
    (Gen.c05ReceiveEffects.filter (fun x => x.e == .commit || x.e == .noteIndexed)).all (fun x => !x.cond) = true := by
  decide

/-- noteBlobIndexedLocked deletes the `missing|` row of the satisfied dependency (e826ac0) -/
theorem C05_gen_note_indexed_deletes_row : Gen.c05NoteIndexedEffects.map (·.e) = [.indexDelete] := by decide

/-- Reindex indexes the blobs and rebuilds the deletes cache afterwards -/
theorem C05_gen_reindex_order : Gen.c05ReindexEffects.map (·.e) = [.storeReceive, .initDeletes] := by decide

end Pk.Index
