import PkVerif.Lemmas.JsonSign
import PkVerif.Gen.Facts
import PkVerif.Gen.C16
/-!
# C16 – signed schema blobs verify, and only untampered ones do

Property theorems only.  `Pk.JsonSign.*` models pkg/jsonsign (sign.go, verify.go) and the part of
encoding/json it relies on; OpenPGP is the abstract `Scheme` below: its correctness and
unforgeability are hypothesis FIELDS of the structure (never axioms), so every theorem reads
"for every signature scheme with these properties, for every environment, for every document …".

* `C16_gen_*`                        the literals of the source are those of the model, and VerifySignature
                                     rejects on ANY library error (regenerated facts)
* `C16_last_separator_is_the_appended_one`, `C16_split_signed`, `C16_sign_then_split`
                                     BP/BPJ/BS of a signed document are exactly what was signed, for ALL payloads
* `C16_signed_doc_is_json_with_original_fields`, `C16_signed_doc_lookup`
                                     the signed document is JSON: the original members, then camliSig
* `C16_sign_succeeds`, `C16_sign_brace_check_redundant`
                                     Sign succeeds on every valid object; its `}` test never fires
* `C16_sign_then_verify` (+ `C16_unversioned_signed_doc_rejected`: why its guard is needed)
* `C16_verify_sound`                 acceptance ⇒ the named key signed exactly BP
* `C16_payload_or_signer_change_rejected`, `C16_accepted_payload_is_the_signed_one`
* `C16_witness_*` and the `example`s the hypotheses are satisfiable: a concrete scheme, environment and
                                     documents (with a separator look-alike inside the payload)

No defect of perkeep was found for this property: nothing here is `_partial`.
-/
namespace Pk.JsonSign
open Pk

/-- The OpenPGP library as jsonsign uses it.
* `signArmored sk t` – `openpgp.ArmoredDetachSign` of the bytes `t` (sign.go:199);
* `check pk bp armored` – `armor.Decode`, `packet.Read`, the hash/type tests and
  `PublicKey.VerifySignature` of `VerifySignature` (verify.go:156-186): `none` = good signature;
* `Signed pk t` – ghost: the holder of `pk` has signed exactly the bytes `t`. -/
structure Scheme where
  PubKey : Type
  SecKey : Type
  pub : SecKey → PubKey
  signArmored : SecKey → Bytes → Bytes
  check : PubKey → Bytes → Bytes → Option Nat
  Signed : PubKey → Bytes → Prop
  /-- the armor body is base64 with `=` (RFC 4880 §6) -/
  armor_b64 : ∀ sk t sig, stripArmor (signArmored sk t) = .ok sig → ∀ c ∈ sig, isB64 c = true
  /-- correctness: what the key signs, re-armored by `reArmor`, is accepted for the same bytes -/
  correct : ∀ sk t sig, stripArmor (signArmored sk t) = .ok sig → check (pub sk) t (reArmor sig) = none
  /-- unforgeability (idealised EUF-CMA): a signature is only accepted for bytes the key signed -/
  unforgeable : ∀ pk t a, check pk t a = none → Signed pk t

/-- the environment of a `SignRequest` / `VerifyRequest`: the blobref table of pkg/blob, the
public-key fetcher (by the text of `camliSigner`) and the `EntityFetcher` -/
structure Env (S : Scheme) where
  tbl : Ref.Tbl
  fetch : Bytes → KeyRes S.PubKey
  secret : S.PubKey → Option S.SecKey
  /-- the EntityFetcher returns the secret key OF the fingerprint it is asked for -/
  secret_pub : ∀ pk sk, secret pk = some sk → S.pub sk = pk

variable {S : Scheme}

/-- `(*SignRequest).Sign` in the environment -/
def Env.sign (E : Env S) (unsigned : Bytes) : Except SignErr Bytes :=
  Pk.JsonSign.sign E.tbl E.fetch E.secret S.signArmored unsigned

/-- `NewVerificationRequest(doc).Verify()` in the environment -/
def Env.verify (E : Env S) (doc : Bytes) : VResult :=
  Pk.JsonSign.verify E.tbl E.fetch S.check doc

/-! ## obligations on the regenerated facts (the literals of the source are those of the model) -/

theorem C16_gen_separator :
    Gen.sigSeparator = sigSeparator ∧
    Gen.signFormatParts = [[], sigSeparator, sigSuffix] ∧
    Gen.signArmorMarks = [[10, 10], [10, 45, 45, 45, 45, 45]] := by decide

theorem C16_gen_reArmor :
    Gen.reArmorStrings = [[61], [], armorBegin, [37, 115, 10], 37 :: 115 :: armorEnd] ∧
    Gen.reArmorInts = [1, 0, 0, 60, 0] := by decide

/-- the model treats EVERY error of the OpenPGP library in `VerifySignature` as a rejection
(`check … = some cls`, whatever `cls`): in the source, each error-returning library call of
`VerifySignature` (`packet.Read`, `PublicKey.VerifySignature`) assigns `err` and is directly followed
by `if err != nil { return vr.fail(…) }` – no error kind (e.g. the `InvalidArgumentError` for a
signature of another public-key algorithm than the named key's) can fall through to `return true`. -/
theorem C16_gen_verify_rejects_any_library_error :
    Gen.verifySigErrGuards =
      [([82, 101, 97, 100], true),
       ([86, 101, 114, 105, 102, 121, 83, 105, 103, 110, 97, 116, 117, 114, 101], true)] := by decide

/-- the side condition of the split theorem, on the separator as it is in the source: its first byte
occurs neither in its remainder, nor in the `"}\n` that Sign appends, nor in the armor alphabet -/
theorem C16_gen_separator_shape :
    ∃ c p, Gen.sigSeparator = c :: p ∧ c ∉ p ∧ c ∉ sigSuffix ∧ isB64 c = false :=
  ⟨44, [34, 99, 97, 109, 108, 105, 83, 105, 103, 34, 58, 34], by decide, by decide, by decide, by decide⟩

/-! ## the payload the verifier extracts is the payload that was signed -/

/-- **last separator**: for EVERY payload `t` – also one that itself contains `,"camliSig":"`
any number of times – and every signature text without a comma, `bytes.LastIndex` of the
separator in the signed document is `len(t)`. -/
theorem C16_last_separator_is_the_appended_one (t sig : Bytes) (hs : 44 ∉ sig) :
    lastIndex sigSeparator (assemble t sig) = some t.length := by
  have h := lastIndex_payload_sep 44 (34 :: sepRest) t (sig ++ sigSuffix) (by decide)
    (by simp [hs, sigSuffix])
  simpa [assemble, sigSeparator_eq, List.append_assoc] using h

example : lastIndex sigSeparator (assemble (sigSeparator ++ [120] ++ sigSeparator) [65, 61, 61]) = some 27 := by
  decide

/-- **split exactness** (BP / BPJ / BS of verify.go:188-212 on a document assembled by Sign):
BP is exactly `t`, BPJ is `t}` and BS is `{"camliSig":"<sig>"}\n`. -/
theorem C16_split_signed (t sig : Bytes) (hs : 44 ∉ sig) :
    newVerificationRequest (assemble t sig) =
      some ⟨t.length, t, t ++ [125], signedBS sig⟩ := by
  unfold newVerificationRequest
  rw [C16_last_separator_is_the_appended_one t sig hs]
  have e : assemble t sig = t ++ (44 :: 34 :: (sepRest ++ sig ++ sigSuffix)) := by
    simp [assemble, sigSeparator_eq]
  simp only [e, signedBS]
  congr 2
  · simp
  · simp
  · rw [show t.length + 1 = 1 + t.length by omega, ← List.drop_drop]
    simp

/-- a look-alike in the payload: the payload is `{"a":1,"camliSig":"x"`, the verifier still takes
all of it -/
example :
    (newVerificationRequest (assemble [123, 34, 97, 34, 58, 49, 44, 34, 99, 97, 109, 108, 105, 83, 105, 103, 34, 58, 34, 120, 34] [65, 66])).map (·.sigIndex) = some 21 := by
  rw [C16_split_signed _ _ (by decide)]; rfl

/-- **sign, then split** (`C16_sign_then_split` of the design): whenever `Sign` returns a document,
it is `t ++ ,"camliSig":"<sig>"}\n` where `t}` is the input with trailing white space removed and
`sig` is the armor body of the library's signature of exactly `t`; and the verifier's BP, BPJ, BS of
that document are `t`, the trimmed input, and the one-member signature object. -/
theorem C16_sign_then_split (E : Env S) (unsigned doc : Bytes) (h : E.sign unsigned = .ok doc) :
    ∃ (t sig : Bytes) (sk : S.SecKey),
      doc = assemble t sig ∧
      t ++ [125] = trimRightSpace unsigned ∧
      stripArmor (S.signArmored sk t) = .ok sig ∧
      newVerificationRequest doc = some ⟨t.length, t, trimRightSpace unsigned, signedBS sig⟩ := by
  obtain ⟨m, s, ref, pk, sk, t, sig, _, _, _, _, _, ht, hsig, hdoc⟩ := sign_inv _ _ _ _ _ _ h
  refine ⟨t, sig, sk, hdoc, ht, hsig, ?_⟩
  have hc : 44 ∉ sig := fun hm => ne_comma_of_isB64 44 (S.armor_b64 sk t sig hsig 44 hm) rfl
  rw [hdoc, C16_split_signed t sig hc, ht]

/-! ## the signed document is still JSON and exposes the original fields -/

/-- **valid JSON, original fields**: the document returned by `Sign` unmarshals (as
`json.Unmarshal` into `map[string]any` does) to the members of the unsigned object, in order,
followed by the member `camliSig` holding the signature text. -/
theorem C16_signed_doc_is_json_with_original_fields (E : Env S) (unsigned doc : Bytes)
    (h : E.sign unsigned = .ok doc) :
    ∃ (m : List (Bytes × JV)) (sig : Bytes),
      unmarshalMap (trimRightSpace unsigned) = some m ∧
      unmarshalMap doc = some (m ++ [(kCamliSig, .str sig)]) := by
  obtain ⟨m, s, ref, pk, sk, t, sig, hm, hs, _, _, _, ht, hsig, hdoc⟩ := sign_inv _ _ _ _ _ _ h
  refine ⟨m, sig, hm, ?_⟩
  have hne := lookup_ne_nil _ _ _ hs
  have hp : ∀ c ∈ sig, isPlain c = true := fun c hc => isPlain_of_isB64 c (S.armor_b64 sk t sig hsig c hc)
  have hj := unmarshalMap_obj _ _ hm hne
  rw [← ht] at hj
  rw [hdoc]
  unfold unmarshalMap
  rw [parse_signed t sig m hp hne hj]

/-- … so every field of the unsigned object reads the same from the signed one, and `camliSig`
reads the signature (Go map semantics: the last member with a key wins) -/
theorem C16_signed_doc_lookup (m : List (Bytes × JV)) (sig k : Bytes) :
    lookup k (m ++ [(kCamliSig, .str sig)]) = if kCamliSig = k then some (.str sig) else lookup k m :=
  lookup_append_single k kCamliSig (.str sig) m

/-! ## the explicit `}` test of Sign is redundant, as its comment says -/

/-- sign.go:171 ("This check should be redundant if the above JSON parse succeeded, but for
explicitness..."): it IS redundant – for every input and environment `Sign` never fails with
"json parameter lacks trailing '}'". A trimmed text that unmarshals to an object with a
`camliSigner` member always ends in `}`. -/
theorem C16_sign_brace_check_redundant (E : Env S) (unsigned : Bytes) :
    E.sign unsigned ≠ .error .nobrace := by
  unfold Env.sign Pk.JsonSign.sign
  simp only
  split
  · simp
  · rename_i m hm
    split
    · simp
    · rename_i signer hs
      split
      · simp
      · split
        · simp
        · simp
        · split
          · rename_i hb
            have hne := lookup_ne_nil _ _ _ hs
            exact absurd (trimmed_obj_last unsigned m (unmarshalMap_obj _ _ hm hne)) (by simpa using hb)
          · split
            · simp
            · split
              · rename_i e he
                intro h
                injection h with h
                subst h
                unfold stripArmor at he
                split at he
                · split at he <;> simp at he
                · simp at he
              · simp

/-- **Sign succeeds on every valid object**: if the trimmed input is a JSON object whose
`camliSigner` is a blobref string, the fetcher has that public key, the EntityFetcher its secret key
and the library's armored signature has the usual shape, `Sign` returns the assembled document –
no other condition on the object (any further keys, nesting, unicode, white space, look-alikes). -/
theorem C16_sign_succeeds (E : Env S) (unsigned : Bytes) (m : List (Bytes × JV)) (s sig : Bytes)
    (ref : Ref.Ref) (pk : S.PubKey) (sk : S.SecKey)
    (hm : unmarshalMap (trimRightSpace unsigned) = some m)
    (hs : lookup kCamliSigner m = some (.str s))
    (hr : Ref.parse E.tbl s true = some ref)
    (hf : E.fetch (Ref.toText ref) = .key pk)
    (hsk : E.secret pk = some sk)
    (hsig : stripArmor (S.signArmored sk (trimRightSpace unsigned).dropLast) = .ok sig) :
    E.sign unsigned = .ok (assemble (trimRightSpace unsigned).dropLast sig) := by
  have hlast := trimmed_obj_last unsigned m (unmarshalMap_obj _ _ hm (lookup_ne_nil _ _ _ hs))
  simp only [kCamliSigner] at hs
  unfold Env.sign Pk.JsonSign.sign
  simp [hm, hs, strOf, hr, hf, hlast, hsk, hsig]

/-! ## sign, then verify -/

/-- **sign-then-verify succeeds**: a document returned by `Sign` for an object that has a
`camliVersion` member is accepted by `Verify` in the same environment; the accepted payload is the
signed one, the signer is the one the object names, `vr.CamliSig` is the signature text. -/
theorem C16_sign_then_verify (E : Env S) (unsigned doc : Bytes) (h : E.sign unsigned = .ok doc)
    (hv : ∃ m, unmarshalMap (trimRightSpace unsigned) = some m ∧ (lookup kCamliVersion m).isSome) :
    ∃ (t sig signer : Bytes),
      t ++ [125] = trimRightSpace unsigned ∧
      parsePayloadMap E.tbl (trimRightSpace unsigned) = .ok signer ∧
      E.verify doc = ⟨none, some t.length, sig, some signer⟩ := by
  obtain ⟨m, s, ref, pk, sk, t, sig, hm, hs, hr, hf, hsk, ht, hsig, hdoc⟩ := sign_inv _ _ _ _ _ _ h
  obtain ⟨m', hm', hver⟩ := hv
  rw [hm] at hm'; injection hm' with hm'; subst hm'
  have hb64 := S.armor_b64 sk t sig hsig
  have hc : 44 ∉ sig := fun hmem => ne_comma_of_isB64 44 (hb64 44 hmem) rfl
  have hp : ∀ c ∈ sig, isPlain c = true := fun c hc => isPlain_of_isB64 c (hb64 c hc)
  have hpm : parsePayloadMap E.tbl (trimRightSpace unsigned) = .ok (Ref.toText ref) := by
    unfold parsePayloadMap
    rw [hm]
    cases hvv : lookup kCamliVersion m with
    | none => simp [hvv] at hver
    | some v => simp [hs, hr, hvv]
  have hpub : S.pub sk = pk := E.secret_pub pk sk hsk
  have hchk : S.check pk t (reArmor sig) = none := by
    rw [← hpub]; exact S.correct sk t sig hsig
  refine ⟨t, sig, Ref.toText ref, ht, hpm, ?_⟩
  unfold Env.verify Pk.JsonSign.verify
  rw [hdoc, C16_split_signed t sig hc]
  simp only [parseSigMap_signedBS sig hp, ht, hpm, hf, hchk]

/-- the guard `camliVersion` of `C16_sign_then_verify` is needed: `Sign` does not look at
`camliVersion` (sign.go:132-222), `Verify` insists on it (verify.go:117) – an object without it is
signed into a document that is always rejected.  (The property quantifies over objects WITH
camliVersion, so this is not a violation; it is what the guard excludes.) -/
theorem C16_unversioned_signed_doc_rejected (E : Env S) (unsigned doc : Bytes) (h : E.sign unsigned = .ok doc)
    (hv : ∃ m, unmarshalMap (trimRightSpace unsigned) = some m ∧ lookup kCamliVersion m = none) :
    (E.verify doc).err = some .noversion := by
  obtain ⟨m, s, ref, pk, sk, t, sig, hm, hs, hr, hf, hsk, ht, hsig, hdoc⟩ := sign_inv _ _ _ _ _ _ h
  obtain ⟨m', hm', hver⟩ := hv
  rw [hm] at hm'; injection hm' with hm'; subst hm'
  have hb64 := S.armor_b64 sk t sig hsig
  have hc : 44 ∉ sig := fun hmem => ne_comma_of_isB64 44 (hb64 44 hmem) rfl
  have hp : ∀ c ∈ sig, isPlain c = true := fun c hc => isPlain_of_isB64 c (hb64 c hc)
  have hpm : parsePayloadMap E.tbl (trimRightSpace unsigned) = .error .noversion := by
    unfold parsePayloadMap
    rw [hm]; simp [hver]
  unfold Env.verify Pk.JsonSign.verify
  rw [hdoc, C16_split_signed t sig hc]
  simp only [parseSigMap_signedBS sig hp, ht, hpm]

/-! ## soundness -/

/-- **acceptance implies a signature by the named key over the accepted bytes**: if `Verify`
accepts `doc`, then `doc` has a last separator at some `i`; BP = `doc[:i]`; `BP}` is a JSON object
with `camliVersion` whose `camliSigner` is a blobref, with text `signer`; the fetcher has a public
key `pk` under that ref; and the holder of `pk` signed exactly BP. -/
theorem C16_verify_sound (E : Env S) (doc : Bytes) (h : (E.verify doc).err = none) :
    ∃ (i : Nat) (signer : Bytes) (pk : S.PubKey),
      lastIndex sigSeparator doc = some i ∧
      parsePayloadMap E.tbl (doc.take i ++ [125]) = .ok signer ∧
      E.fetch signer = .key pk ∧
      S.Signed pk (doc.take i) ∧
      (E.verify doc).signer = some signer ∧ (E.verify doc).sigIndex = some i := by
  unfold Env.verify Pk.JsonSign.verify newVerificationRequest at h ⊢
  cases hl : lastIndex sigSeparator doc with
  | none => simp [hl] at h
  | some i =>
    simp only [hl] at h ⊢
    cases hsm : parseSigMap (123 :: List.drop (i + 1) doc) with
    | error e => simp [hsm] at h
    | ok sig =>
      simp only [hsm] at h ⊢
      cases hpm : parsePayloadMap E.tbl (List.take i doc ++ [125]) with
      | error e => simp [hpm] at h
      | ok signer =>
        simp only [hpm] at h ⊢
        cases hf : E.fetch signer with
        | missing => simp [hf] at h
        | notkey => simp [hf] at h
        | key pk =>
          simp only [hf] at h ⊢
          cases hc : S.check pk (List.take i doc) (reArmor sig) with
          | some cls => simp [hc] at h
          | none =>
            exact ⟨i, signer, pk, rfl, hpm, hf, S.unforgeable pk _ _ hc, by simp [hc], by simp [hc]⟩

/-- what the verifier treats as (signer key, payload) of a document, if it gets that far -/
def claimOf (E : Env S) (doc : Bytes) : Option (S.PubKey × Bytes) :=
  match lastIndex sigSeparator doc with
  | none => none
  | some i =>
    match parsePayloadMap E.tbl (doc.take i ++ [125]) with
    | .error _ => none
    | .ok signer =>
      match E.fetch signer with
      | .key pk => some (pk, doc.take i)
      | _ => none

/-- **any change to the payload or to the signer is rejected**: let `Log` contain every (key,
payload) pair that was ever signed.  A document whose (named key, BP) is not in `Log` – BP differs
from every payload that key signed, or the named key is another one – is rejected, and so is a
document that names no usable key or has no separator. -/
theorem C16_payload_or_signer_change_rejected (E : Env S) (Log : S.PubKey → Bytes → Prop)
    (hlog : ∀ pk t, S.Signed pk t → Log pk t) (doc : Bytes)
    (hnot : ∀ pk bp, claimOf E doc = some (pk, bp) → ¬ Log pk bp) :
    (E.verify doc).err ≠ none := by
  intro h
  obtain ⟨i, signer, pk, hl, hpm, hf, hs, _, _⟩ := C16_verify_sound E doc h
  exact hnot pk (doc.take i) (by simp [claimOf, hl, hpm, hf]) (hlog pk _ hs)

/-- the same, for a single honest signature: if the key `pk` signed only `t`, every accepted
document that names `pk` has BP = `t` – byte for byte -/
theorem C16_accepted_payload_is_the_signed_one (E : Env S) (doc t : Bytes) (pk : S.PubKey)
    (honly : ∀ t', S.Signed pk t' → t' = t) (h : (E.verify doc).err = none)
    (hk : ∀ pk' bp, claimOf E doc = some (pk', bp) → pk' = pk) :
    ∃ i, lastIndex sigSeparator doc = some i ∧ doc.take i = t := by
  obtain ⟨i, signer, pk', hl, hpm, hf, hs, _, _⟩ := C16_verify_sound E doc h
  have : pk' = pk := hk pk' (doc.take i) (by simp [claimOf, hl, hpm, hf])
  subst this
  exact ⟨i, hl, honly _ hs⟩

/-! ## non-vacuity: a concrete scheme, environment and documents

`toy` is a scheme whose single key holder (key 1) signs exactly the payloads in `toyLog`, always with
the same armor; `check` accepts that signature for exactly those payloads.  It satisfies the three
hypothesis fields, so the theorems above are not vacuous; the examples run `Sign` and `Verify` of
the model on a payload that contains a separator look-alike. -/

/-- `-----BEGIN PGP SIGNATURE-----\n\nQUJDRA==\n=AbCd\n-----END PGP SIGNATURE-----` -/
def toyArmor : Bytes := [45, 45, 45, 45, 45, 66, 69, 71, 73, 78, 32, 80, 71, 80, 32, 83, 73, 71, 78, 65, 84, 85, 82, 69, 45, 45, 45, 45, 45, 10, 10, 81, 85, 74, 68, 82, 65, 61, 61, 10, 61, 65, 98, 67, 100, 10, 45, 45, 45, 45, 45, 69, 78, 68, 32, 80, 71, 80, 32, 83, 73, 71, 78, 65, 84, 85, 82, 69, 45, 45, 45, 45, 45]
/-- `QUJDRA===AbCd` -/
def toySig : Bytes := [81, 85, 74, 68, 82, 65, 61, 61, 61, 65, 98, 67, 100]
/-- `sha224-a794…42dd` -/
def toyRef : Bytes := [115, 104, 97, 50, 50, 52, 45, 97, 55, 57, 52, 56, 52, 54, 50, 49, 50, 102, 102, 54, 55, 97, 99, 100, 100, 48, 48, 99, 54, 98, 57, 48, 101, 101, 101, 52, 57, 50, 98, 97, 102, 54, 55, 52, 100, 52, 49, 100, 97, 56, 97, 54, 50, 49, 100, 50, 101, 56, 48, 52, 50, 100, 100]
/-- the payload `{"camliVersion":1,"camliSig":"ZmFrZQ==","camliSigner":"sha224-a794…42dd"`: it
contains the separator `,"camliSig":"` itself (at offset 17) -/
def toyPayload : Bytes :=
  [123, 34, 99, 97, 109, 108, 105, 86, 101, 114, 115, 105, 111, 110, 34, 58, 49, 44, 34, 99, 97, 109, 108, 105, 83, 105, 103, 34, 58, 34, 90, 109, 70, 114, 90, 81, 61, 61, 34, 44, 34, 99, 97, 109, 108, 105, 83, 105, 103, 110, 101, 114, 34, 58, 34] ++ toyRef ++ [34]
/-- the unsigned object: the payload, `}` and trailing white space -/
def toyUnsigned : Bytes := toyPayload ++ [125, 32, 10]
/-- `{"camliSigner":"sha224-a794…42dd"`: no camliVersion -/
def toyPayloadNoVersion : Bytes :=
  [123, 34, 99, 97, 109, 108, 105, 83, 105, 103, 110, 101, 114, 34, 58, 34] ++ toyRef ++ [34]
def toyLog : List (Nat × Bytes) := [(1, toyPayload), (1, toyPayloadNoVersion)]
/-- `toyPayload ++ ,"camliSig":"QUJDRA===AbCd"}\n` -/
def toySigned : Bytes := assemble toyPayload toySig
/-- `toySigned` with `"camliVersion":2` -/
def toyTampered : Bytes := toySigned.set 16 50
/-- `toySigned` with white space inside and after the signature object: `…AbCd" }\n\n` -/
def toySpaced : Bytes := toyPayload ++ sigSeparator ++ toySig ++ [34, 32, 125, 10, 10]
/-- `toySigned` with a second member in the signature object: `…AbCd","x":1}\n` -/
def toyTwoKeys : Bytes := toyPayload ++ sigSeparator ++ toySig ++ [34, 44, 34, 120, 34, 58, 49, 125, 10]

deriving instance DecidableEq for Except

theorem C16_witness_strip : stripArmor toyArmor = .ok toySig := by rfl

@[reducible] def toy : Scheme where
  PubKey := Nat
  SecKey := Nat
  pub := id
  signArmored := fun sk t => if (sk, t) ∈ toyLog then toyArmor else []
  check := fun pk t a => if a = reArmor toySig ∧ (pk, t) ∈ toyLog then none else some 6
  Signed := fun pk t => (pk, t) ∈ toyLog
  armor_b64 := by
    intro sk t sig h
    by_cases hm : (sk, t) ∈ toyLog
    · rw [if_pos hm, C16_witness_strip] at h
      injection h with h; subst h; decide
    · rw [if_neg hm] at h; cases h
  correct := by
    intro sk t sig h
    by_cases hm : (sk, t) ∈ toyLog
    · rw [if_pos hm, C16_witness_strip] at h
      injection h with h; subst h
      simp [hm]
    · rw [if_neg hm] at h; cases h
  unforgeable := by
    intro pk t a h
    by_cases hc : a = reArmor toySig ∧ (pk, t) ∈ toyLog
    · exact hc.2
    · rw [if_neg hc] at h; cases h

def toyEnv : Env toy where
  tbl := ⟨Gen.refSizes, Gen.testRefTypes, Gen.maxOtherDigestLen⟩
  fetch := fun s => if s = toyRef then .key (1 : Nat) else .missing
  secret := fun (pk : Nat) => if pk = 1 then some (1 : Nat) else none
  secret_pub := by
    intro (pk : Nat) (sk : Nat) (h : (if pk = 1 then some (1 : Nat) else none) = some sk)
    show sk = pk
    by_cases hp : pk = 1
    · simp [hp] at h; omega
    · simp [hp] at h

/-- `Sign` of the model on the look-alike payload (hypothesis of C16_sign_then_split / _verify /
_signed_doc_is_json…) -/
theorem C16_witness_sign : toyEnv.sign toyUnsigned = .ok toySigned := by decide +kernel
theorem C16_witness_has_version :
    ∃ m, unmarshalMap (trimRightSpace toyUnsigned) = some m ∧ (lookup kCamliVersion m).isSome := by
  cases h : unmarshalMap (trimRightSpace toyUnsigned) with
  | none => exact absurd h (by decide +kernel)
  | some m =>
    refine ⟨m, rfl, ?_⟩
    have : ((unmarshalMap (trimRightSpace toyUnsigned)).map (fun m => (lookup kCamliVersion m).isSome)) = some true := by
      decide +kernel
    rw [h] at this
    simpa using this
/-- the payload really contains the separator, and the verifier still cuts after all of it -/
example : index sigSeparator toyPayload = some 17 ∧
    (newVerificationRequest toySigned).map (·.bp) = some toyPayload := by decide +kernel
/-- … and `Verify` accepts it (hypothesis of C16_verify_sound) -/
theorem C16_witness_verify : toyEnv.verify toySigned = ⟨none, some toyPayload.length, toySig, some toyRef⟩ := by
  decide +kernel
example : (toyEnv.verify toySigned).err = none := by rw [C16_witness_verify]
/-- the general theorems instantiated on the toy documents -/
example : ∃ t sig signer, t ++ [125] = trimRightSpace toyUnsigned ∧
    parsePayloadMap toyEnv.tbl (trimRightSpace toyUnsigned) = .ok signer ∧
    toyEnv.verify toySigned = ⟨none, some t.length, sig, some signer⟩ :=
  C16_sign_then_verify toyEnv _ _ C16_witness_sign C16_witness_has_version
/-- a payload byte changed: not in the log (hypothesis of C16_payload_or_signer_change_rejected), rejected -/
theorem C16_witness_tampered_claim :
    @Eq (Option (Nat × Bytes)) (claimOf toyEnv toyTampered) (some (1, toyTampered.take 119)) := by
  decide +kernel
example : (toyEnv.verify toyTampered).err ≠ none :=
  C16_payload_or_signer_change_rejected toyEnv toy.Signed (fun _ _ h => h) toyTampered (by
    intro pk bp h
    rw [C16_witness_tampered_claim] at h
    injection h with h; injection h with h1 h2; subst h1; subst h2
    show ¬ ((1 : Nat), toyTampered.take 119) ∈ toyLog
    decide +kernel)
example : (toyEnv.verify toyTampered).err = some (.sig 6) := by decide +kernel
/-- the statement does not pin the bytes of the signature object: white space there changes neither
BP nor the signer, and the document still verifies -/
example : toyEnv.verify toySpaced = ⟨none, some toyPayload.length, toySig, some toyRef⟩ := by decide +kernel
/-- a second member in the signature object is refused (verify.go:91) -/
example : (toyEnv.verify toyTwoKeys).err = some .sigkeys := by decide +kernel
/-- hypotheses of C16_sign_succeeds on the toy object: it has a string `camliSigner` that is a blobref
whose key the environment knows -/
example : (unmarshalMap (trimRightSpace toyUnsigned)).map (fun m => strOf (lookup kCamliSigner m)) = some toyRef ∧
    ((Ref.parse toyEnv.tbl toyRef true).map Ref.toText) = some toyRef := by decide +kernel
/-- errors of `Sign` other than the (unreachable) brace error do occur -/
example : toyEnv.sign [123, 125] = .error .nosigner := by decide +kernel
/-- hypotheses of C16_unversioned_signed_doc_rejected: an object without camliVersion is signed … -/
theorem C16_witness_sign_unversioned :
    toyEnv.sign (toyPayloadNoVersion ++ [125]) = .ok (assemble toyPayloadNoVersion toySig) := by
  decide +kernel
/-- … and the result is rejected -/
example : (toyEnv.verify (assemble toyPayloadNoVersion toySig)).err = some .noversion := by decide +kernel

end Pk.JsonSign
