import PkVerif.Lemmas.SearchPage
import PkVerif.Gen.Facts
import PkVerif.Gen.C09
/-!
# C09 – paging through search results neither skips nor repeats anything

Property theorems only.  `Pk.SearchPage.*` models the continue-token codec, `addContinueConstraint`,
the `Continue` branch of `PermanodeConstraint.blobMatches`, the sorted permanode enumeration of the
corpus, the callback of `Handler.Query` (limit and Around bookkeeping) and `setResultContinue`.
A time is an `Int`: true nanoseconds since the Unix epoch (ties, sub-second values, pre-1970 and
out-of-int64 values are all just integers).

* `C09_pages_cover_exactly_once_partial` – for EVERY world (any ties), sort, constraint and limit ≥ 1,
  following the tokens returns the full ordered list exactly once – provided every matching time
  fits `Time.UnixNano` (int64 nanoseconds: years 1678..2262).  The guard is what the proof forces:
  `C09_pages_cover_exactly_once_counterexample` (finding F-C09-2, known).
* before the `fix:` commit the codec also failed for every pre-1970 time
  (`C09_old_codec_negative_counterexample`, `C09_old_paging_repeats_counterexample`; F-C09-1, fixed).
* `C09_around_window` – an Around query returns a contiguous window of the full ordered list that
  contains the pivot (at most `limit` long), or nothing when the pivot does not match: no guard.
* `C09_around_unsorted_window` – the same for the sorts whose candidate source is unsorted (CreatedAsc,
  BlobRefAsc: collect, sort, cut by position); before the second `fix:` commit that path panicked
  whenever the sort was not the ref order (`C09_around_unsorted_old_panics_counterexample`; F-C09-3, fixed).
-/
namespace Pk.SearchPage
open Pk Pk.Ref

/-- the hash tables as they are in /repo right now -/
def gtbl : Tbl := ⟨Gen.refSizes, Gen.testRefTypes, Gen.maxOtherDigestLen⟩

/-- obligation on the regenerated facts (needed by the ref part of the token round trip) -/
theorem C09_gen_table_wf : gtbl.WF := by decide

/-- obligation on the regenerated facts: the token is printed with `pn:%d:%v` of `t.UnixNano()` and
the ref, and read back by `strings.HasPrefix "pn:"`, `strings.Index ":"`, `strconv.ParseInt(·, 10, 64)`,
`time.Unix(0, ·)`, `blob.Parse` – what `encodeToken` / `parsePermanodeContinueToken … true` model -/
theorem C09_gen_token_codec :
    Gen.contTokenFormat = pnPrefix ++ [37, 100, 58, 37, 118] ∧
    Gen.contTokenArgs = [[116, 46, 85, 110, 105, 120, 78, 97, 110, 111, 40, 41], [108, 97, 115, 116, 112, 110]] ∧
    Gen.contParseCalls =
      [[115, 116, 114, 105, 110, 103, 115, 46, 72, 97, 115, 80, 114, 101, 102, 105, 120],   -- strings.HasPrefix
       [108, 101, 110],                                                                       -- len
       [115, 116, 114, 105, 110, 103, 115, 46, 73, 110, 100, 101, 120],                       -- strings.Index
       [115, 116, 114, 99, 111, 110, 118, 46, 80, 97, 114, 115, 101, 73, 110, 116],           -- strconv.ParseInt
       [116, 105, 109, 101, 46, 85, 110, 105, 120],                                           -- time.Unix
       [98, 108, 111, 98, 46, 80, 97, 114, 115, 101]] ∧                                       -- blob.Parse
    Gen.contParseStrings = [pnPrefix, pnPrefix, [58]] ∧
    Gen.contParseInts = [0, 10, 64, 0, 1] := by decide

/-! ## the token codec -/

/-- **codec round trip** (repaired parser): for ANY time and any ref of a supported hash, the token
decodes to `UnixNano` of the time and to the ref -/
theorem C09_token_roundtrip (t : Int) (r : Ref) (hr : WFKnown gtbl r) :
    parsePermanodeContinueToken gtbl true (encodeToken t r) = some (unixNano t, r) :=
  token_roundtrip gtbl C09_gen_table_wf t r hr

/-- … which is the time itself whenever it fits int64 nanoseconds – negative (pre-1970) included -/
theorem C09_token_roundtrip_exact (t : Int) (ht : InInt64 t) (r : Ref) (hr : WFKnown gtbl r) :
    parsePermanodeContinueToken gtbl true (encodeToken t r) = some (t, r) := by
  rw [C09_token_roundtrip t r hr]; unfold unixNano; rw [wrap64_id t ht]

/-- a sha224 ref with all digest bytes `b` -/
def rk (b : Nat) : RefKey := ⟨[115, 104, 97, 50, 50, 52], List.replicate 28 b⟩

example : WFKnown gtbl (rk 7).toRef := by decide
example : InInt64 (-1) ∧ InInt64 (-9223372036854775808) ∧ ¬ InInt64 9223372036854775808 := by decide

/-- the parser as it was before the fix (`strconv.ParseUint`) rejects the token the server itself
printed for one nanosecond before 1970 -/
theorem C09_old_codec_negative_counterexample :
    parsePermanodeContinueToken gtbl false (encodeToken (-1) (rk 7).toRef) = none ∧
    parsePermanodeContinueToken gtbl true (encodeToken (-1) (rk 7).toRef) = some (-1, (rk 7).toRef) := by
  decide

/-! ## the order and the full list -/

/-- (time desc, ref desc) – the order of `sort.Reverse(byPermanodeTime)` – is a strict total order -/
theorem C09_order_strict_total : StrictTotal before := before_strictTotal

/-- the full ordered list is strictly ascending in that order (so it has no duplicates, whatever
the ties between times) and consists exactly of the matching permanodes that have a time -/
theorem C09_full_sorted (w : List PN) (srt : SortBy) (c : Cons) (hnd : (w.map PN.ref).Nodup) :
    Asc before (fullOrdered w srt c) ∧ (fullOrdered w srt c).Nodup ∧
    ∀ k, k ∈ fullOrdered w srt c ↔
      (∃ p ∈ w, pnTime srt p = some k.1 ∧ p.ref = k.2) ∧ baseMatches w c k.2 = true := by
  refine ⟨fullOrdered_asc srt c w hnd, ?_, mem_fullOrdered srt c w⟩
  have hp := fullOrdered_pairwise srt c w hnd
  refine hp.imp ?_
  intro a b hab e
  rw [e, before_strictTotal.irrefl] at hab; cases hab

/-- it is what a limit-free query (negative limit, no token) returns, without a token -/
theorem C09_full_is_limit_free_query (signed : Bool) (w : List PN) (srt : SortBy) (c : Cons) (lim : Int)
    (hl : lim < 0) :
    query gtbl signed w ⟨srt, c, lim, [], none⟩ = some ⟨fullOrdered w srt c, []⟩ := by
  unfold query
  have h0 : ¬ lim = 0 := by omega
  have h1 : lim ≤ 0 := by omega
  have hc := collect_nolimit lim h1 none (fullOrdered w srt c) [] false
  simp only [List.nil_append] at hc
  simp only [List.isEmpty_nil, Bool.not_true, Bool.false_and, Bool.false_eq_true, if_false, h0,
    Option.isSome_none, Bool.false_and, Option.isNone_none, if_true, matcher_first, hc]
  simp [setResultContinue, h1]

/-! ## one page -/

/-- a page requested with the token of `c` (an element of the full list) is `Pk.enumerate` of the
full list after the cursor `c`; the first page is `Pk.enumerate` without cursor -/
theorem C09_page_is_enumerate (w : List PN) (srt : SortBy) (c : Cons) (L : Nat) (hL : 0 < L)
    (hw : WorldOK gtbl w) (hr : ∀ k ∈ fullOrdered w srt c, InInt64 k.1) :
    (∃ tok, query gtbl true w ⟨srt, c, (L : Int), [], none⟩ =
        some ⟨enumerate before (fullOrdered w srt c) none L, tok⟩) ∧
    ∀ x ∈ fullOrdered w srt c, ∃ tok,
      query gtbl true w ⟨srt, c, (L : Int), encodeToken x.1 x.2.toRef, none⟩ =
        some ⟨enumerate before (fullOrdered w srt c) (some x) L, tok⟩ := by
  constructor
  · exact ⟨_, by rw [query_page gtbl true w srt c L hL, matcher_first]; rfl⟩
  · intro x hx
    have hz : ∀ k ∈ fullOrdered w srt c, k.1 ≠ zeroTime := by
      intro k hk e; exact zeroTime_not_inInt64 (e ▸ hr k hk)
    have hwf : WFKnown gtbl x.2.toRef := by
      obtain ⟨⟨p, hp, _, h2⟩, _⟩ := (mem_fullOrdered srt c w x).mp hx
      rw [← h2]; exact hw.wf p hp
    exact ⟨_, by rw [query_page gtbl true w srt c L hL,
      matcher_after gtbl C09_gen_table_wf w srt c _ x (hr x hx) hwf hz]; rfl⟩

/-- for ANY well-formed token – also a stale one, whose permanode is no longer in the list, or one
made up by the client – the page is a contiguous piece `(full.drop n).take L` of the full list and
nothing before it is "after the cursor": no result is repeated or taken out of order -/
theorem C09_any_token_page_is_suffix (w : List PN) (srt : SortBy) (c : Cons) (L : Nat) (hL : 0 < L)
    (hnd : (w.map PN.ref).Nodup) (hz : ∀ k ∈ fullOrdered w srt c, k.1 ≠ zeroTime)
    (tok : Bytes) (T : Int) (last : Ref) (htok : tok.isEmpty = false)
    (hp : parsePermanodeContinueToken gtbl true tok = some (T, last)) :
    ∃ n cont, query gtbl true w ⟨srt, c, (L : Int), tok, none⟩ = some ⟨((fullOrdered w srt c).drop n).take L, cont⟩ ∧
      ∀ x ∈ (fullOrdered w srt c).take n, before (T, ⟨last.name, last.sum⟩) x = false := by
  obtain ⟨n, hn, hpre⟩ := filter_gt_eq_drop before before_strictTotal (fullOrdered w srt c)
    (fullOrdered_asc srt c w hnd) (T, ⟨last.name, last.sum⟩)
  refine ⟨n, setResultContinue (L : Int) (((fullOrdered w srt c).drop n).take L), ?_, hpre⟩
  rw [query_page gtbl true w srt c L hL, ← hn]
  have : (candidates srt w).filter (plannedMatcher gtbl true w ⟨srt, c, (L : Int), tok, none⟩)
      = (fullOrdered w srt c).filter (fun k => before (T, ⟨last.name, last.sum⟩) k) := by
    unfold plannedMatcher
    simp only [htok, Bool.false_eq_true, if_false, hp, Option.map_some]
    unfold fullOrdered
    rw [List.filter_filter]
    apply List.filter_congr
    intro k hk
    by_cases hb : baseMatches w c k.2 = true
    · have hk' : k ∈ fullOrdered w srt c := by
        unfold fullOrdered; exact List.mem_filter.mpr ⟨hk, hb⟩
      have e := continueMatches_eq_before (T, ⟨last.name, last.sum⟩) k (hz k hk')
      have e2 : continueMatches ⟨T, last⟩ k = continueMatches ⟨T, (⟨last.name, last.sum⟩ : RefKey).toRef⟩ k := by
        unfold continueMatches; simp [less, RefKey.toRef]
      rw [e2, e]
    · have : baseMatches w c k.2 = false := by simpa using hb
      simp [this]
  rw [this]

/-! ## paging -/

/-- **C09, paging** (partial: guard `InInt64` on the matching times): for every world – arbitrary
ties between times, sub-second and pre-1970 times –, both continuable sorts, every base constraint
and every limit ≥ 1, a client that follows the continuation tokens receives the full ordered list
exactly once: nothing skipped, nothing repeated, in order -/
theorem C09_pages_cover_exactly_once_partial (w : List PN) (srt : SortBy) (c : Cons) (limit : Nat)
    (hl : 0 < limit) (hw : WorldOK gtbl w) (hr : ∀ k ∈ fullOrdered w srt c, InInt64 k.1)
    (fuel : Nat) (hf : (fullOrdered w srt c).length < fuel) :
    followContinue gtbl true w srt c (limit : Int) fuel [] = fullOrdered w srt c :=
  follow_all gtbl C09_gen_table_wf w srt c limit hl hw hr fuel hf

/-- the same from the middle: after a page that ended at `x`, the remaining pages are exactly what
follows `x` in the full list -/
theorem C09_pages_resume_partial (w : List PN) (srt : SortBy) (c : Cons) (limit : Nat)
    (hl : 0 < limit) (hw : WorldOK gtbl w) (hr : ∀ k ∈ fullOrdered w srt c, InInt64 k.1)
    (pre r : List Cand) (x : Cand) (hM : fullOrdered w srt c = pre ++ x :: r) (fuel : Nat) (hf : r.length < fuel) :
    followContinue gtbl true w srt c (limit : Int) fuel (encodeToken x.1 x.2.toRef) = r :=
  follow_from gtbl C09_gen_table_wf w srt c limit hl hw hr fuel pre r x hM hf

/-- a world with massively tied, pre-1970 and sub-second times: three permanodes share the
modification time −5 ns, two share the creation time 0.000000001 s -/
def wTies : List PN :=
  [⟨rk 1, none, true, false, [-5], false, none⟩, ⟨rk 2, some 1, true, false, [-5], false, none⟩, ⟨rk 3, some 1, true, true, [-5, -7], false, none⟩,
   ⟨rk 4, some (-1000000000), false, true, [1322443956000123456], false, none⟩, ⟨rk 5, none, false, false, [], false, none⟩]

example : WorldOK gtbl wTies := ⟨by decide, by decide⟩
example : ∀ k ∈ fullOrdered wTies .lastMod .all, InInt64 k.1 := by decide
example : (fullOrdered wTies .lastMod .all).map (·.2) = [rk 4, rk 3, rk 2, rk 1] := by decide
example : followContinue gtbl true wTies .lastMod .all 1 6 [] = fullOrdered wTies .lastMod .all := by decide
example : followContinue gtbl true wTies .created .tagA 2 6 [] = fullOrdered wTies .created .tagA := by decide

/-- a world where sort times come from content files (FileInfo.Time of the indexed camliContent file;
a file that has not reached the index yet does not count) and where the constraint is restricted by
node type – all tied at −5 ns -/
def wContent : List PN :=
  [⟨rk 1, none, false, false, [-9], true, some ⟨-9, some (-5), true⟩⟩, ⟨rk 2, none, true, false, [-5, -6], true, none⟩,
   ⟨rk 3, none, false, false, [-5], true, some ⟨-5, some 77, false⟩⟩, ⟨rk 4, none, true, false, [-5], false, none⟩]

example : WorldOK gtbl wContent := ⟨by decide, by decide⟩
example : (fullOrdered wContent .created .nodeType).map (·.2) = [rk 3, rk 2, rk 1] := by decide
example : followContinue gtbl true wContent .created .nodeType 1 5 [] = fullOrdered wContent .created .nodeType := by decide
example : followContinue gtbl true wContent .created (.refPrefix [115, 104, 97, 50, 50, 52, 45, 48]) 2 5 []
    = fullOrdered wContent .created (.refPrefix [115, 104, 97, 50, 50, 52, 45, 48]) := by decide

/-- before the fix (ParseUint) the first page of a pre-1970 list came back forever: three requests,
three times the same permanode; the repaired parser returns each permanode once -/
theorem C09_old_paging_repeats_counterexample :
    (followContinue gtbl false wTies .lastMod .tagA 1 3 []).map (·.2) = [rk 3, rk 3, rk 3] ∧
    (followContinue gtbl true wTies .lastMod .tagA 1 4 []).map (·.2) = [rk 3, rk 2, rk 1] := by
  decide

/-- two permanodes created in the year 2262, just after `Time.UnixNano` overflows (2^63 ns) -/
def wFar : List PN :=
  [⟨rk 1, some 9223372036854775808, false, false, [-5], false, none⟩, ⟨rk 2, some 9223372036854775813, false, false, [-5], false, none⟩]

example : WorldOK gtbl wFar := ⟨by decide, by decide⟩

/-- **the guard is needed** (finding F-C09-2): outside int64 nanoseconds `UnixNano` wraps, the token
names a time 584 years earlier, the second page is empty and `rk 1` is never returned -/
theorem C09_pages_cover_exactly_once_counterexample :
    (fullOrdered wFar .created .all).map (·.2) = [rk 2, rk 1] ∧
    (followContinue gtbl true wFar .created .all 1 5 []).map (·.2) = [rk 2] ∧
    ¬ (∀ k ∈ fullOrdered wFar .created .all, InInt64 k.1) := by
  decide

/-! ## Around -/

/-- **C09, Around**: for every world, sort, constraint, limit (also ≤ 0) and pivot, the result of an
Around query is a contiguous window (`<:+:`) of the full ordered list that contains the pivot – at
most `limit` long when the limit is positive – or is empty when the pivot is not in the full list
(it does not match, has no time, or does not exist); it never carries a continue token -/
theorem C09_around_window (signed : Bool) (w : List PN) (srt : SortBy) (c : Cons) (lim : Int) (piv : Ref) :
    ∃ res, query gtbl signed w ⟨srt, c, lim, [], some piv⟩ = some ⟨res, []⟩ ∧
      (piv ∈ refsOf (fullOrdered w srt c) → res <:+: fullOrdered w srt c ∧ piv ∈ refsOf res) ∧
      (piv ∉ refsOf (fullOrdered w srt c) → res = []) ∧
      (0 < lim → (res.length : Int) ≤ lim) :=
  query_around gtbl signed w srt c lim piv

/-- Continue and Around together are rejected -/
theorem C09_around_excludes_continue (signed : Bool) (w : List PN) (srt : SortBy) (c : Cons) (lim : Int)
    (piv : Ref) (tok : Bytes) (h : tok.isEmpty = false) :
    query gtbl signed w ⟨srt, c, lim, tok, some piv⟩ = none := by
  simp [query, h]

example : ((query gtbl true wTies ⟨.lastMod, .all, 2, [], some (rk 1).toRef⟩).map (·.blobs.map (·.2)))
    = some [rk 2, rk 1] := by decide
example : ((query gtbl true wTies ⟨.lastMod, .all, 3, [], some (rk 5).toRef⟩).map (·.blobs)) = some [] := by decide

/-! ## Around on the other sorts (unsorted candidate source, query.go:1116-1180) -/

theorem sortU_mem (w : List PN) (us : USort) (l full : List RefKey) (h : sortU w us l = some full) (k : RefKey) :
    k ∈ full ↔ k ∈ l := by
  cases us with
  | blobRefAsc => simp only [sortU] at h; injection h with h; rw [← h, mem_sortBy]
  | createdAsc =>
    simp only [sortU] at h
    split at h
    · cases h
    · injection h with h; rw [← h, mem_sortBy]

/-- **C09, Around, any other sort** (CreatedAsc, BlobRefAsc – the results are collected, sorted, then
cut around the pivot's position): the query never panics; the result is a contiguous window of the
sorted full list that contains the pivot, at most `limit` long; it is empty when the pivot does not
match; when the sort itself fails (CreatedAsc over permanodes without any time) the query fails -/
theorem C09_around_unsorted_window (w : List PN) (us : USort) (c : Cons) (lim : Int) (piv : Ref) :
    (piv ∉ (matchedU w c).map RefKey.toRef → queryUnsorted true w us c lim [] (some piv) = .ok []) ∧
    (piv ∈ (matchedU w c).map RefKey.toRef →
      match sortU w us (matchedU w c) with
      | none => queryUnsorted true w us c lim [] (some piv) = .err
      | some full => ∃ res, queryUnsorted true w us c lim [] (some piv) = .ok res ∧
          res <:+: full ∧ piv ∈ res.map RefKey.toRef ∧ (0 < lim → (res.length : Int) ≤ lim)) := by
  have hany : (matchedU w c).any (fun k => k.toRef == piv) = true ↔ piv ∈ (matchedU w c).map RefKey.toRef := by
    rw [List.any_eq_true, List.mem_map]
    constructor
    · rintro ⟨k, hk, he⟩; exact ⟨k, hk, by simpa using he⟩
    · rintro ⟨k, hk, he⟩; exact ⟨k, hk, by simpa using he⟩
  constructor
  · intro hnot
    have hf : (matchedU w c).any (fun k => k.toRef == piv) = false := by
      cases h : (matchedU w c).any (fun k => k.toRef == piv) with
      | false => rfl
      | true => exact absurd (hany.mp h) hnot
    have hs : sortU w us [] = some [] := by cases us <;> simp [sortU, sortBy]
    unfold queryUnsorted
    simp only [List.isEmpty_nil, Bool.not_true, Bool.false_and, Bool.false_eq_true, if_false, hf, hs]
    have : ¬ (0 < (if lim = 0 then 200 else lim) ∧ (if lim = 0 then 200 else lim) < (([] : List RefKey).length : Int)) := by
      simp only [List.length_nil]; omega
    rw [if_neg this]
  · intro hin
    have hf := hany.mpr hin
    cases hs : sortU w us (matchedU w c) with
    | none =>
      simp only
      unfold queryUnsorted
      simp [hf, hs]
    | some full =>
      simp only
      have hpf : piv ∈ full.map RefKey.toRef := by
        obtain ⟨k, hk, he⟩ := List.mem_map.mp hin
        exact List.mem_map.mpr ⟨k, (sortU_mem w us _ full hs k).mpr hk, he⟩
      unfold queryUnsorted
      simp only [List.isEmpty_nil, Bool.not_true, Bool.false_and, Bool.false_eq_true, if_false, hf, if_true, hs]
      by_cases hcut : 0 < (if lim = 0 then 200 else lim) ∧ (if lim = 0 then 200 else lim) < (full.length : Int)
      · rw [if_pos hcut]
        simp only [aroundPos, if_true]
        cases hp : indexOf? (fun k => k.toRef == piv) full with
        | none =>
          exfalso
          obtain ⟨k, hk, he⟩ := List.mem_map.mp hpf
          have := indexOf?_none _ full hp k hk
          simp [he] at this
        | some pos =>
          obtain ⟨x, hx, hpx⟩ := indexOf?_some _ full pos hp
          have hxp : x.toRef = piv := by simpa using hpx
          obtain ⟨h1, h2, h3⟩ := windowAround_spec full pos (if lim = 0 then 200 else lim).toNat x hx (by omega)
          refine ⟨_, rfl, h1, List.mem_map.mpr ⟨x, h2, hxp⟩, ?_⟩
          intro hl
          have h0 : ¬ lim = 0 := by omega
          simp only [h0, if_false] at h3 ⊢
          omega
      · rw [if_neg hcut]
        refine ⟨full, rfl, List.infix_refl _, hpf, ?_⟩
        intro hl
        have h0 : ¬ lim = 0 := by omega
        simp only [h0, if_false] at hcut
        omega

/-- four permanodes whose creation order (4, 3, 2, 1 ns) is the reverse of their ref order -/
def wAsc : List PN :=
  [⟨rk 1, some 4, false, false, [-5], false, none⟩, ⟨rk 2, some 3, false, false, [-5], false, none⟩,
   ⟨rk 3, some 2, false, false, [-5], false, none⟩, ⟨rk 4, some 1, false, false, [-5], false, none⟩]

example : sortU wAsc .createdAsc (matchedU wAsc .all) = some [rk 4, rk 3, rk 2, rk 1] := by decide
example : queryUnsorted true wAsc .createdAsc .all 2 [] (some (rk 3).toRef) = .ok [rk 4, rk 3] := by decide

/-- before the fix (finding F-C09-3) the pivot was looked up with a binary search on the ref strings
in a list sorted by time: the lookup missed it and `Query` panicked; the linear lookup finds it -/
theorem C09_around_unsorted_old_panics_counterexample :
    queryUnsorted false wAsc .createdAsc .all 1 [] (some (rk 1).toRef) = .panic ∧
    queryUnsorted true wAsc .createdAsc .all 1 [] (some (rk 1).toRef) = .ok [rk 1] := by
  decide

end Pk.SearchPage
