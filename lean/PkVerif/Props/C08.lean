import PkVerif.Lemmas.Search
import PkVerif.Lemmas.SearchMatcher
import PkVerif.Gen.Facts
import PkVerif.Gen.C08
/-!
# C08 – a search returns exactly the matching blobs, however it is planned

Property theorems only.  `Pk.Search` (Model/Search.lean) holds both readings of a constraint – the
documented meaning `matchesC` (the spec) and the matcher the code compiles, `matchC`, with the
planner, the candidate enumerations, the callback, the post-sort and the truncation of
`Handler.Query` around it (`query`) – and the specification of a query, `specResult`.

Where the code does not satisfy the property the theorem is `_partial` (with the decidable guard
that excludes the defect) and a `_counterexample` shows the defect on a concrete small world.
Two planner defects were repaired in /repo (`or` with an untyped branch; one enumeration pass per
listed node type): for those the theorem holds at full strength and an `_oldcode_counterexample`
records what the old code did.

Modelled constraints: logical and/or/xor/not; anything, camliType, anyCamliType, blobRefPrefix,
blobSize; permanode at / attr / value / valueMatches (equals, contains, hasPrefix, hasSuffix, empty,
byteLength, caseInsensitive on ASCII) / valueMatchesInt / numValue / valueAll / valueInSet / skipHidden / modTime / time /
relation (parent, child; any, all; edgeType); file fileName / fileSize / mimeType / time / modTime /
wholeRef / parentDir; dir fileName / blobRefPrefix / parentDir / topFileCount / contains /
recursiveContains.
-/
namespace Pk.Search
open Pk

/-- the hash table of pkg/blob/ref.go as it is in /repo right now -/
def gtbl : Pk.Ref.Tbl := ⟨Gen.refSizes, Gen.testRefTypes, Gen.maxOtherDigestLen⟩

/-- obligation on the regenerated facts: sha224 is a supported hash with a 28 byte digest -/
theorem C08_gen_sha224 : gtbl.size? sha224Name = some 28 := by decide

/-! ## obligations on the regenerated facts (lean/PkVerif/Gen/C08.lean, from /repo's working tree) -/

/-- the conditions of Constraint.genMatcher in the order they are added – the order in which `matchC`
evaluates them (each only while everything before it matched) -/
theorem C08_gen_matcher_order :
    Gen.genMatcherConds =
      [[99, 46, 76, 111, 103, 105, 99, 97, 108, 32, 33, 61, 32, 110, 105, 108],  -- c.Logical != nil
       [99, 46, 65, 110, 121, 116, 104, 105, 110, 103],  -- c.Anything
       [99, 46, 67, 97, 109, 108, 105, 84, 121, 112, 101, 32, 33, 61, 32, 34, 34],  -- c.CamliType != ""
       [99, 46, 65, 110, 121, 67, 97, 109, 108, 105, 84, 121, 112, 101],  -- c.AnyCamliType
       [99, 46, 80, 101, 114, 109, 97, 110, 111, 100, 101, 32, 33, 61, 32, 110, 105, 108],  -- c.Permanode != nil
       [99, 46, 70, 105, 108, 101, 32, 33, 61, 32, 110, 105, 108],  -- c.File != nil
       [99, 46, 68, 105, 114, 32, 33, 61, 32, 110, 105, 108],  -- c.Dir != nil
       [98, 115, 32, 58, 61, 32, 99, 46, 66, 108, 111, 98, 83, 105, 122, 101, 59, 32, 98, 115, 32, 33, 61, 32, 110, 105, 108],  -- bs := c.BlobSize; bs != nil
       [112, 102, 120, 32, 58, 61, 32, 99, 46, 66, 108, 111, 98, 82, 101, 102, 80, 114, 101, 102, 105, 120, 59, 32, 112, 102, 120, 32, 33, 61, 32, 34, 34]  -- pfx := c.BlobRefPrefix; pfx != ""
      ] := by decide

/-- the candidate sources of pickCandidateSource, in source order: the names `Src.name` prints -/
theorem C08_gen_source_names :
    Gen.candSourceNames =
      [[99, 111, 114, 112, 117, 115, 95, 112, 101, 114, 109, 97, 110, 111, 100, 101, 95, 108, 97, 115, 116, 109, 111, 100],  -- corpus_permanode_lastmod
       [99, 111, 114, 112, 117, 115, 95, 112, 101, 114, 109, 97, 110, 111, 100, 101, 95, 99, 114, 101, 97, 116, 101, 100],  -- corpus_permanode_created
       [99, 111, 114, 112, 117, 115, 95, 112, 101, 114, 109, 97, 110, 111, 100, 101, 95, 116, 121, 112, 101, 115],  -- corpus_permanode_types
       [111, 110, 101, 95, 98, 108, 111, 98],  -- one_blob
       [99, 111, 114, 112, 117, 115, 95, 102, 105, 108, 101, 95, 109, 101, 116, 97],  -- corpus_file_meta
       [99, 111, 114, 112, 117, 115, 95, 98, 108, 111, 98, 95, 109, 101, 116, 97],  -- corpus_blob_meta
       [105, 110, 100, 101, 120, 95, 98, 108, 111, 98, 95, 109, 101, 116, 97]  -- index_blob_meta
      ] := by decide

example : [Src.lastmod, .created, .types [], .oneBlob [], .fileMeta, .blobMeta [], .all].map Src.name =
    ["corpus_permanode_lastmod", "corpus_permanode_created", "corpus_permanode_types", "one_blob", "corpus_file_meta",
     "corpus_blob_meta", "index_blob_meta"] := by decide

/-- the string literals of matchesPermanodeTypes, matchesAtMostOneBlob, onlyMatchesPermanode and
matchesFileByWholeRef: the attribute `camliNodeType`, and the only operators the planner looks through
(`and` everywhere, `or` in matchesPermanodeTypes only) -/
theorem C08_gen_planner_strings :
    Gen.plannerStrings =
      [[sCamliNodeType, [], [97, 110, 100], [111, 114]], [[], [97, 110, 100]], [[97, 110, 100]], [[97, 110, 100]]] := by decide

/-- plannedQuery replaces a zero limit by this default -/
theorem C08_gen_default_limit (c : Cons) (s : SortT) : (⟨c, s, 0⟩ : Query).plannedLimit = (Gen.defaultLimit : Int) := by
  simp [Query.plannedLimit, Gen.defaultLimit]

/-- the SortType constants in iota order (the constructors of `SortT` in the same order) -/
theorem C08_gen_sort_types :
    Gen.sortTypeNames =
      [[85, 110, 115, 112, 101, 99, 105, 102, 105, 101, 100, 83, 111, 114, 116],  -- UnspecifiedSort
       [85, 110, 115, 111, 114, 116, 101, 100],  -- Unsorted
       [76, 97, 115, 116, 77, 111, 100, 105, 102, 105, 101, 100, 68, 101, 115, 99],  -- LastModifiedDesc
       [76, 97, 115, 116, 77, 111, 100, 105, 102, 105, 101, 100, 65, 115, 99],  -- LastModifiedAsc
       [67, 114, 101, 97, 116, 101, 100, 68, 101, 115, 99],  -- CreatedDesc
       [67, 114, 101, 97, 116, 101, 100, 65, 115, 99],  -- CreatedAsc
       [66, 108, 111, 98, 82, 101, 102, 65, 115, 99],  -- BlobRefAsc
       [77, 97, 112, 83, 111, 114, 116],  -- MapSort
       [109, 97, 120, 83, 111, 114, 116, 84, 121, 112, 101]  -- maxSortType
      ] := by decide

/-- the error of a failed query -/
def errOf {α : Type} : Except Err α → Option Err
  | .error e => some e
  | .ok _ => none

/-! ## small worlds for the examples and counterexamples -/

def mkRef (n : Nat) : Ref := sha224Name ++ [45] ++ List.replicate 55 48 ++ [48 + n]
def sTag : Str := [116, 97, 103]
def sX : Str := [120]
def sTa : Str := [116, 97]
def sTb : Str := [116, 98]
def sATxt : Str := [97, 46, 116, 120, 116]
def sTop : Str := [116, 111, 112]
def sSub : Str := [115, 117, 98]
def pnBlob (n : Nat) : BlobMeta := ⟨mkRef n, sPermanode, 100⟩
def noFlat : Flat := ⟨false, [], false, [], none⟩
def noP : PFlat := ⟨0, [], false, none, false, [], none, none, none, none⟩
def noF : FFlat := ⟨none, none, none, none, none, []⟩
def noD : DFlat := ⟨none, [], none⟩
def strEq (s : Str) : StrC := ⟨false, s, [], [], [], none, false⟩
/-- `{permanode: {attr, value}}` -/
def attrIs (a v : Str) : Cons := .mk .none .nil .nil noFlat (.mk { noP with attr := a, value := v } .nil none .nil .nil) .nil .nil
/-- `{camliType: "permanode"}` -/
def isPermanode : Cons := .mk .none .nil .nil { noFlat with camliType := sPermanode } .nil .nil .nil
def logicalC (op : Op) (a b : Cons) : Cons := .mk op a b noFlat .nil .nil .nil

/-- p1 has the members p2 and p3; p2 has the tags y, z; p3 has the tag x -/
def wMembers : World :=
  { blobs := [pnBlob 1, pnBlob 2, pnBlob 3],
    claims := [⟨mkRef 1, .add, sCamliMember, mkRef 2, 10, false⟩, ⟨mkRef 1, .add, sCamliMember, mkRef 3, 11, false⟩,
               ⟨mkRef 2, .add, sTag, [121], 12, false⟩, ⟨mkRef 2, .add, sTag, [122], 13, false⟩, ⟨mkRef 3, .add, sTag, sX, 14, false⟩],
    deleted := [], ctime := [], files := [], dirs := [] }

/-- `{permanode: {attr: camliMember, valueInSet: {permanode: {attr: tag, value: x}}}}` -/
def cMemberTaggedX : Cons :=
  .mk .none .nil .nil noFlat (.mk { noP with attr := sCamliMember } (attrIs sTag sX) none .nil .nil) .nil .nil

/-- `{permanode: {attr: camliMember, valueInSet: {camliType: permanode}}}`: no nested attribute -/
def cMemberIsPermanode : Cons :=
  .mk .none .nil .nil noFlat (.mk { noP with attr := sCamliMember } isPermanode none .nil .nil) .nil .nil

/-- p1 has a member that is no blob of the world; p2 has the member p1 -/
def wDangling : World :=
  { blobs := [pnBlob 1, pnBlob 2],
    claims := [⟨mkRef 1, .add, sCamliMember, mkRef 9, 10, false⟩, ⟨mkRef 2, .add, sCamliMember, mkRef 1, 11, false⟩],
    deleted := [], ctime := [], files := [], dirs := [] }

/-- `{permanode: {relation: {relation: child, any: {camliType: permanode}}}}` -/
def cHasPermanodeChild : Cons :=
  .mk .none .nil .nil noFlat (.mk noP .nil (some ⟨sChild, []⟩) isPermanode .nil) .nil .nil

/-- directory `top` contains directory `sub` contains file `a.txt` -/
def wDirs : World :=
  { blobs := [⟨mkRef 1, sFile, 50⟩, ⟨mkRef 2, sDirectory, 60⟩, ⟨mkRef 3, sDirectory, 60⟩],
    claims := [], deleted := [], ctime := [],
    files := [⟨mkRef 1, sATxt, 11, [], 0, 0, []⟩, ⟨mkRef 2, sSub, 0, [], 0, 0, []⟩, ⟨mkRef 3, sTop, 0, [], 0, 0, []⟩],
    dirs := [(mkRef 2, [mkRef 1]), (mkRef 3, [mkRef 2])] }

def fileNamed (s : Str) : Cons := .mk .none .nil .nil noFlat .nil (.mk { noF with name := some (strEq s) } .nil) .nil
/-- `{dir: {fileName: top, recursiveContains: {file: {fileName: a.txt}}}}` -/
def cTopWithATxtBelow : Cons :=
  .mk .none .nil .nil noFlat .nil .nil (.mk { noD with name := some (strEq sTop) } .nil (fileNamed sATxt) .nil)
/-- `{dir: {recursiveContains: {file: {fileName: a.txt}}}}` -/
def cATxtBelow : Cons := .mk .none .nil .nil noFlat .nil .nil (.mk noD .nil (fileNamed sATxt) .nil)

/-- p1 has a claim; p2 has no claim at all; p3 has a claim and is deleted -/
def wDeleted : World :=
  { blobs := [pnBlob 1, pnBlob 2, pnBlob 3],
    claims := [⟨mkRef 1, .add, sTag, sX, 10, false⟩, ⟨mkRef 3, .add, sTag, sX, 11, false⟩, ⟨mkRef 3, .delete, [], [], 12, false⟩],
    deleted := [mkRef 3], ctime := [], files := [], dirs := [] }

/-- p1 has tag x and no node type; p2 has node type tb; p3 had node type ta and now has tb -/
def wTypes : World :=
  { blobs := [pnBlob 1, pnBlob 2, pnBlob 3],
    claims := [⟨mkRef 1, .add, sTag, sX, 10, false⟩, ⟨mkRef 2, .set, sCamliNodeType, sTb, 11, false⟩,
               ⟨mkRef 3, .set, sCamliNodeType, sTa, 12, false⟩, ⟨mkRef 3, .set, sCamliNodeType, sTb, 13, false⟩],
    deleted := [], ctime := [], files := [], dirs := [] }

/-- p1 was of type ta from :20 to :40; p2 is of type ta for its owner – the del-attribute is somebody
else's; p3's only type claim is somebody else's -/
def wChurn : World :=
  { blobs := [pnBlob 1, pnBlob 2, pnBlob 3],
    claims := [⟨mkRef 1, .set, sCamliNodeType, sTa, 20, false⟩, ⟨mkRef 1, .del, sCamliNodeType, sTa, 40, false⟩,
               ⟨mkRef 2, .set, sCamliNodeType, sTa, 50, false⟩, ⟨mkRef 2, .del, sCamliNodeType, sTa, 60, true⟩,
               ⟨mkRef 3, .set, sCamliNodeType, sTa, 70, true⟩],
    deleted := [], ctime := [], files := [], dirs := [] }

/-- `{permanode: {attr: camliNodeType, value: ta, at: <t>}}` -/
def typeTaAt (t : Time) : Cons :=
  .mk .none .nil .nil noFlat (.mk { noP with attr := sCamliNodeType, value := sTa, atT := t } .nil none .nil .nil) .nil .nil

/-- `and(camliType=permanode, or(tag=x, camliNodeType=tb))` -/
def cTaggedOrTyped : Cons := logicalC .and isPermanode (logicalC .or (attrIs sTag sX) (attrIs sCamliNodeType sTb))

/-! ## the planner -/

/-- **planner soundness** for the candidate sources that are not pre-sorted (node types, one
blob, files, by camliType, everything): every blob of the world that matches under the documented
meaning is enumerated.  Full strength: all worlds of sha224 refs, all constraints, all sorts. -/
theorem C08_planner_sound_unsorted (w : World) (hw : w.refsSha224 = true) (c : Cons) (sort : SortT) (b : BlobMeta)
    (hb : b ∈ w.blobs) (hm : matchesC gtbl w c b = true) (hs : (pickSource gtbl c sort).sorted = false) :
    b ∈ candidates w (pickSource gtbl c sort) :=
  planner_sound_unsorted gtbl w (prefixExact_of_sha224 gtbl C08_gen_sha224 w hw) c sort b hb hm hs

example : wTypes.refsSha224 = true ∧ pnBlob 1 ∈ wTypes.blobs ∧ matchesC gtbl wTypes cTaggedOrTyped (pnBlob 1) = true ∧
    (pickSource gtbl cTaggedOrTyped .unsorted).sorted = false := by decide

/-- the node-type source must offer a permanode that HAD the type at the time asked about, and one
whose type only somebody else removed: asked at :30, p1 (type deleted at :40) matches; asked now, p2
matches and p1, p3 do not; the source picked for an unsorted search is the per-type set, and it has
all of them -/
example : matchesC gtbl wChurn (typeTaAt 30) (pnBlob 1) = true ∧ matchesC gtbl wChurn (typeTaAt 0) (pnBlob 1) = false ∧
    matchesC gtbl wChurn (typeTaAt 0) (pnBlob 2) = true ∧ matchesC gtbl wChurn (typeTaAt 0) (pnBlob 3) = false ∧
    pickSource gtbl (typeTaAt 30) .unsorted = .types [sTa] ∧
    candidates wChurn (.types [sTa]) = [pnBlob 1, pnBlob 2, pnBlob 3] ∧
    (query gtbl wChurn ⟨typeTaAt 30, .unsorted, -1⟩).toOption = some (.types [sTa], [pnBlob 1]) ∧
    (query gtbl wChurn ⟨typeTaAt 0, .blobRefAsc, -1⟩).toOption = some (.types [sTa], [pnBlob 2]) ∧
    (query gtbl wChurn ⟨typeTaAt 45, .createdAsc, -1⟩).toOption = some (.types [sTa], []) := by decide

/-- what the sorted permanode enumerations know of a blob: it has claims, is not deleted and has
the time they sort by (corpus.go:1053-1059) -/
def knownToSorted (w : World) (src : Src) (b : BlobMeta) : Bool :=
  match src with
  | .lastmod => w.hasClaims b.ref && !w.isDeleted b.ref && w.modTime b.ref != 0
  | .created => w.hasClaims b.ref && !w.isDeleted b.ref && w.anyTime b.ref != 0
  | _ => true

/-- **planner soundness, all sources**: a matching blob is enumerated provided, when the source is
a pre-sorted permanode enumeration, that enumeration knows the blob -/
theorem C08_planner_sound_partial (w : World) (hw : w.refsSha224 = true) (c : Cons) (sort : SortT) (b : BlobMeta)
    (hb : b ∈ w.blobs) (hm : matchesC gtbl w c b = true)
    (hg : knownToSorted w (pickSource gtbl c sort) b = true) :
    b ∈ candidates w (pickSource gtbl c sort) := by
  cases hs : (pickSource gtbl c sort).sorted with
  | false => exact C08_planner_sound_unsorted w hw c sort b hb hm hs
  | true =>
    obtain ⟨_, hcase⟩ := pickSource_sorted gtbl c sort hs
    rcases hcase with ⟨_, h⟩ | ⟨_, h⟩ <;> rw [h] at hg ⊢ <;>
      exact planner_sound_sorted w c b hb _ hg

example : knownToSorted wDeleted (pickSource gtbl isPermanode .createdDesc) (pnBlob 1) = true ∧
    (pickSource gtbl isPermanode .createdDesc).sorted = true := by decide

/-- the guard is needed: sorted by creation time, `camliType = permanode` is planned on the
pre-sorted enumeration, which has neither the permanode without claims nor the deleted one – both
match -/
theorem C08_planner_sound_counterexample :
    pickSource gtbl isPermanode .createdDesc = .created ∧
    matchesC gtbl wDeleted isPermanode (pnBlob 2) = true ∧ pnBlob 2 ∉ candidates wDeleted .created ∧
    matchesC gtbl wDeleted isPermanode (pnBlob 3) = true ∧ pnBlob 3 ∉ candidates wDeleted .created := by decide

/-- before the repair (query.go:368 `append(sa, sb...)`), `or(tag=x, camliNodeType=tb)` was planned
on the permanodes that ever had type tb: p1 (tag x, no type) matches and was not enumerated; the
repaired predicate does not restrict an `or` with an untyped branch -/
theorem C08_planner_or_untyped_oldcode_counterexample :
    matchesPermanodeTypesOld cTaggedOrTyped = [sTb] ∧
    matchesC gtbl wTypes cTaggedOrTyped (pnBlob 1) = true ∧ pnBlob 1 ∉ candidates wTypes (.types [sTb]) ∧
    matchesPermanodeTypes cTaggedOrTyped = [] := by decide

/-! ## no duplicates -/

/-- **no blob is returned twice**, whatever the constraint, the sort, the limit and the matcher's
outcome (all worlds whose blobs have distinct refs) -/
theorem C08_no_duplicates (w : World) (hw : (w.blobs.map (·.ref)).Nodup) (q : Query) (src : Src) (res : List BlobMeta)
    (h : query gtbl w q = .ok (src, res)) : (res.map (·.ref)).Nodup :=
  query_nodup gtbl w q hw src res h

example : (wTypes.blobs.map (·.ref)).Nodup ∧
    (query gtbl wTypes ⟨cTaggedOrTyped, .blobRefAsc, -1⟩).toOption.map (fun p => p.2.length) = some 3 := by decide

/-- before the repair EnumeratePermanodesByNodeTypes made one pass per listed type (corpus.go:1110):
p3, which had type ta and has type tb, was sent twice for `or(type=ta, type=tb)`, and every
permanode of a type listed twice was sent twice -/
theorem C08_no_duplicates_oldcode_counterexample :
    candidatesTypesOld wTypes [sTa, sTb] = [pnBlob 3, pnBlob 2, pnBlob 3] ∧
    candidatesTypesOld wTypes [sTb, sTb] = [pnBlob 2, pnBlob 3, pnBlob 2, pnBlob 3] ∧
    candidates wTypes (.types [sTa, sTb]) = [pnBlob 2, pnBlob 3] := by decide

/-! ## the matcher -/

/-- **the compiled matcher computes the documented meaning** on every blob and from every scratch
state, for every constraint tree that
* dereferences no nil pointer (`deepValid`: checkValid only inspects the top struct),
* never iterates attribute values with a ValueInSet sub-constraint that asks for attribute values
  itself (`scratchSafe`: the scratch-slice defect),
* uses Contains / RecursiveContains in a documented shape, RecursiveContains alone in its
  DirConstraint (`dirSafe`: the recursiveContains defect),
in every world without dangling claim targets (`noDangling`: the relation defect) whose directories
have a FileInfo. -/
theorem C08_matcher_eq_matches_partial (w : World) (hd : w.noDangling gtbl = true) (hi : w.dirsHaveInfo = true)
    (c : Cons) (hn : c.isNil = false) (hv : deepValid c = true) (hs : scratchSafe c = true) (hds : dirSafe c = true)
    (b : BlobMeta) (st : St) : ∃ st', matchC gtbl w c b st = .ok (matchesC gtbl w c b, st') :=
  matcher_ok gtbl w hd hi c hn hv hs hds b st

example : wMembers.noDangling gtbl = true ∧ wMembers.dirsHaveInfo = true ∧ cMemberIsPermanode.isNil = false ∧
    deepValid cMemberIsPermanode = true ∧ scratchSafe cMemberIsPermanode = true ∧ dirSafe cMemberIsPermanode = true ∧
    matchesC gtbl wMembers cMemberIsPermanode (pnBlob 1) = true := by decide

example : wDirs.noDangling gtbl = true ∧ wDirs.dirsHaveInfo = true ∧ deepValid cATxtBelow = true ∧
    scratchSafe cATxtBelow = true ∧ dirSafe cATxtBelow = true ∧
    matchesC gtbl wDirs cATxtBelow ⟨mkRef 3, sDirectory, 60⟩ = true := by decide

/-- the scratch slice: p1's second member p3 has tag x, so p1 matches `camliMember valueInSet
tag=x`; but matching the first member p2 (two tags) overwrote the slice that holds p1's members,
the second value read is "z", and the matcher answers no (query.go:1733, :1853, :1901) -/
theorem C08_matcher_scratch_counterexample :
    scratchSafe cMemberTaggedX = false ∧
    matchesC gtbl wMembers cMemberTaggedX (pnBlob 1) = true ∧
    (matchC gtbl wMembers cMemberTaggedX (pnBlob 1) St.init).toOption.map (·.1) = some false := by decide

/-- a dangling relation target: p2 has the permanode p1 as a child and matches; evaluating p1, whose
only member is not a blob of the world, makes the whole query fail (query.go:912-915) -/
theorem C08_matcher_relation_dangling_counterexample :
    wDangling.noDangling gtbl = false ∧
    matchesC gtbl wDangling cHasPermanodeChild (pnBlob 2) = true ∧
    matchesC gtbl wDangling cHasPermanodeChild (pnBlob 1) = false ∧
    errOf (matchC gtbl wDangling cHasPermanodeChild (pnBlob 1) St.init) = some .relNotExist ∧
    errOf (query gtbl wDangling ⟨cHasPermanodeChild, .unsorted, -1⟩) = some .relNotExist ∧
    specResult gtbl wDangling ⟨cHasPermanodeChild, .unsorted, -1⟩ = [pnBlob 2] := by decide

/-- recursiveContains: `top` has a.txt two levels down and is named top, so it matches; the
recursion re-applies the whole DirConstraint – fileName = top – to the intermediate directory
`sub`, and the matcher answers no (query.go:2194) -/
theorem C08_matcher_recursiveContains_counterexample :
    dirSafe cTopWithATxtBelow = false ∧
    matchesC gtbl wDirs cTopWithATxtBelow ⟨mkRef 3, sDirectory, 60⟩ = true ∧
    (matchC gtbl wDirs cTopWithATxtBelow ⟨mkRef 3, sDirectory, 60⟩ St.init).toOption.map (·.1) = some false := by decide

/-! ## the query -/

/-- the guards of the matcher theorem, together -/
structure MatcherGuards (w : World) (c : Cons) : Prop where
  noDangling : w.noDangling gtbl = true
  dirsHaveInfo : w.dirsHaveInfo = true
  deepValid : deepValid c = true
  scratchSafe : scratchSafe c = true
  dirSafe : dirSafe c = true

/-- **a query returns the first `limit` of all matching blobs, in the order of the sort**:
`query w q = take limit (sortBy q.sort (filter (matches w q.c) allBlobs))`, for all worlds of
sha224 refs, all valid constraints, all supported sort/constraint combinations and all limits –
under the guards of the matcher theorem and, when the sort is by time, when every matching blob is
a permanode the sorted enumerations know (`timedOK`: the sorted-source defect and the CreatedAsc
error) -/
theorem C08_query_eq_spec_partial (w : World) (hw : w.refsSha224 = true) (q : Query)
    (hvalid : validC q.c = true) (hnil : q.c.isNil = false) (hg : MatcherGuards w q.c)
    (hsup : q.supported = true) (htimed : q.timeSorted = true → timedOK gtbl w q.c = true) :
    query gtbl w q = .ok (pickSource gtbl q.c q.plannedSort, specResult gtbl w q) :=
  query_eq_spec gtbl w q (prefixExact_of_sha224 gtbl C08_gen_sha224 w hw) hvalid hnil
    (matcher_ok gtbl w hg.noDangling hg.dirsHaveInfo q.c hnil hg.deepValid hg.scratchSafe hg.dirSafe) hsup htimed

example : wTypes.refsSha224 = true ∧ validC cTaggedOrTyped = true ∧
    (⟨cTaggedOrTyped, .createdDesc, 2⟩ : Query).supported = true ∧ timedOK gtbl wTypes cTaggedOrTyped = true ∧
    wTypes.noDangling gtbl = true ∧ wTypes.dirsHaveInfo = true ∧ deepValid cTaggedOrTyped = true ∧
    scratchSafe cTaggedOrTyped = true ∧ dirSafe cTaggedOrTyped = true ∧
    specResult gtbl wTypes ⟨cTaggedOrTyped, .createdDesc, 2⟩ = [pnBlob 3, pnBlob 2] := by decide

/-- the time guard is needed: of the three permanodes that match `camliType = permanode` the query
sorted by creation time returns one (the pre-sorted enumeration has neither the permanode without
claims nor the deleted one), and sorted oldest-first it fails: "no ctime or modtime found" -/
theorem C08_query_eq_spec_counterexample :
    timedOK gtbl wDeleted isPermanode = false ∧
    specResult gtbl wDeleted ⟨isPermanode, .createdDesc, -1⟩ = [pnBlob 3, pnBlob 1, pnBlob 2] ∧
    (query gtbl wDeleted ⟨isPermanode, .createdDesc, -1⟩).toOption = some (.created, [pnBlob 1]) ∧
    (query gtbl wDeleted ⟨isPermanode, .lastModDesc, -1⟩).toOption = some (.lastmod, [pnBlob 1]) ∧
    errOf (query gtbl wDeleted ⟨isPermanode, .createdAsc, -1⟩) = some .noTime := by decide

/-- **the result set does not depend on the sort**: without a limit, two supported sorts give
permutations of the same result (same guards) -/
theorem C08_sort_independent_partial (w : World) (hw : w.refsSha224 = true) (c : Cons) (s1 s2 : SortT)
    (hvalid : validC c = true) (hnil : c.isNil = false) (hg : MatcherGuards w c)
    (h1 : (⟨c, s1, -1⟩ : Query).supported = true) (h2 : (⟨c, s2, -1⟩ : Query).supported = true)
    (htimed : timedOK gtbl w c = true) :
    ∃ src1 src2 r1 r2, query gtbl w ⟨c, s1, -1⟩ = .ok (src1, r1) ∧ query gtbl w ⟨c, s2, -1⟩ = .ok (src2, r2) ∧
      r1.Perm r2 := by
  have e1 := C08_query_eq_spec_partial w hw ⟨c, s1, -1⟩ hvalid hnil hg h1 (fun _ => htimed)
  have e2 := C08_query_eq_spec_partial w hw ⟨c, s2, -1⟩ hvalid hnil hg h2 (fun _ => htimed)
  refine ⟨_, _, _, _, e1, e2, ?_⟩
  have hl : ∀ s : SortT, ¬ ((⟨c, s, -1⟩ : Query).plannedLimit > 0) := by intro s; simp [Query.plannedLimit]
  simp only [specResult, hl, decide_false, Bool.and_false, Bool.false_eq_true, if_false]
  exact (isort_perm _ _).trans (isort_perm _ _).symm

/-- the sort decides what is found: unsorted, `camliType = permanode` returns three permanodes;
sorted by creation or modification time, one -/
theorem C08_sort_independent_counterexample :
    (query gtbl wDeleted ⟨isPermanode, .unsorted, -1⟩).toOption.map (fun p => p.2.length) = some 3 ∧
    (query gtbl wDeleted ⟨isPermanode, .unspec, -1⟩).toOption.map (fun p => p.2.length) = some 1 ∧
    (query gtbl wDeleted ⟨isPermanode, .lastModDesc, -1⟩).toOption.map (fun p => p.2.length) = some 1 := by decide

/-- **the result is the first N of the full ordered result**, said without reference to how ties
are broken: together with some `rest` the result is a permutation of all matching blobs, nothing
in `result ++ rest` comes strictly before something earlier, and `rest` is empty unless the limit
was reached -/
theorem C08_result_first_n (w : World) (q : Query) :
    ∃ rest, (specResult gtbl w q ++ rest).Perm (w.blobs.filter (matchesC gtbl w q.c)) ∧
      SortedBy (specLt w q.plannedSort) (specResult gtbl w q ++ rest) ∧
      (rest ≠ [] → q.plannedSort ≠ .map ∧ q.plannedLimit > 0 ∧ (specResult gtbl w q).length = q.plannedLimit.toNat) := by
  unfold specResult
  simp only
  split
  · rename_i hc
    simp only [Bool.and_eq_true, bne_iff_ne, ne_eq, decide_eq_true_eq] at hc
    refine ⟨(isort (specLt w q.plannedSort) (w.blobs.filter (matchesC gtbl w q.c))).drop q.plannedLimit.toNat, ?_, ?_, ?_⟩
    · rw [List.take_append_drop]; exact isort_perm _ _
    · rw [List.take_append_drop]; exact isort_sorted (sw_specLt w _) _
    · intro hne
      refine ⟨hc.1, hc.2, ?_⟩
      rw [List.length_take]
      have : q.plannedLimit.toNat < (isort (specLt w q.plannedSort) (w.blobs.filter (matchesC gtbl w q.c))).length := by
        apply Nat.lt_of_not_le
        intro hle
        exact hne (List.drop_eq_nil_of_le hle)
      omega
  · exact ⟨[], by simpa using isort_perm _ _, by simpa using isort_sorted (sw_specLt w _) _, by simp⟩

end Pk.Search
