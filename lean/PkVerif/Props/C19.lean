import PkVerif.Lemmas.Sync
import PkVerif.Gen.C19
/-!
# C19 – asynchronous sync delivers every blob eventually and its queue is durable

Property theorems only. `Pk.Sync.*` models pkg/server/sync.go as a state machine over micro-steps
(source receive, queue row write, in-memory enqueue, copy start, transfer with an arbitrary fault,
queue row deletion, copy completion, crash + `readQueueToMemory`), see `PkVerif/Model/Sync.lean`.
All theorems quantify over **every** step sequence (all upload histories, interleavings, fault
patterns and crash points).

The order of the durable and in-memory effects is not assumed: the model variant is *read off* the
regenerated effect list of `enqueue` (`variantOf`), and the shape of `copyBlob` / `setError` /
`readQueueToMemory` / `blobserver.receive` the model relies on is checked on the regenerated lists by
the `C19_gen_*` theorems.

Deviations of the code from the statement at full strength:
* F-C19-1 (fixed in /repo): the original `enqueue` (memory first, duplicate short-cut, then row)
  acknowledged a re-upload without a row – `C19_orig_enqueue_counterexample`.
* F-C19-2 (known): a blob *received by the source store* whose upload was not acknowledged (queue
  write failed, or crash between the store's receive and the row) has no row; after a restart it is
  never delivered – `C19_eventual_source_counterexample`, with `C19_eventual_source_partial` for the
  guarded statement. Acknowledged uploads are covered at full strength.
-/
namespace Pk.Sync

/-- reachable from the empty handler by any step sequence, for the `enqueue` described by `effs` -/
def Reachable (effs : List EffAt) (s : St) : Prop :=
  ∃ v, variantOf effs = some v ∧ ∃ l : List Step, s = run v init l

/-! ## obligations on the regenerated facts -/

/-- `enqueue` as it is in /repo writes the queue row first, then the in-memory entry -/
theorem C19_gen_enqueue_variant : variantOf Gen.syncEnqueueEffects = some .fixed := by decide

/-- shape of `copyBlob`: fetch, digest check, destination receive – in this order, unconditionally –
and the completion (`setError`) deferred, i.e. after all of them -/
def copyOrderOK (l : List EffAt) : Bool :=
  spine l == [.srcFetch, .digestCheck, .storeReceive] &&
  (l.filter (·.deferred)).map (·.e) == [.copyDone]

theorem C19_gen_copy_order : copyOrderOK Gen.syncCopyBlobEffects = true := by decide

/-- shape of `setError`: the queue row deletion is conditional (`err == nil`), is the first effect,
and everything after it is an in-memory removal -/
def setErrorOK (l : List EffAt) : Bool :=
  l.head? == some ⟨.queueDelete, false, true⟩ &&
  l.tail.all (fun x => x.e == .memDequeue) && l.tail.any (fun x => x.cond)

theorem C19_gen_setError_order : setErrorOK Gen.syncSetErrorEffects = true := by decide

/-- `readQueueToMemory` only reads the queue and fills memory -/
def reloadOK (l : List EffAt) : Bool :=
  l.all (fun x => x.e != .queueSet && x.e != .queueDelete) && l.any (fun x => x.e == .memEnqueue)

theorem C19_gen_reload_memory_only : reloadOK Gen.syncReadQueueEffects = true := by decide

/-- `memHub.NotifyBlobReceived` starts EVERY receive hook (in a loop, through the group) and only then
collects the error: a failing hook cannot keep a later one from running -/
def hubRunsAllHooks (l : List EffAt) : Bool :=
  l == [⟨.gateStart, false, true⟩, ⟨.gateDone, false, false⟩]

theorem C19_gen_hub_runs_all_hooks : hubRunsAllHooks Gen.hubNotifyEffects = true := by decide

/-- `blobserver.receive`: the store has the blob before the hub (and the sync hook) is told -/
theorem C19_gen_receive_order : spine Gen.blobReceiveEffects = [.storeReceive, .hubNotify] := by decide

/-! ## the invariant holds in every reachable state -/

theorem C19_invariant (effs : List EffAt) (hv : variantOf effs = some .fixed) (s : St)
    (h : Reachable effs s) : Inv s := by
  obtain ⟨v, hv', l, rfl⟩ := h
  rw [hv] at hv'
  cases hv'
  exact inv_run l init inv_init

example : Reachable Gen.syncEnqueueEffects
    (run .fixed init [.srcRecv 1, .qSet 1 true, .memAdd 1 true, .srcRecv 2, .cpStart 1, .cpXfer 1 .corrupt]) :=
  ⟨.fixed, C19_gen_enqueue_variant, _, rfl⟩

/-! ## queue durability -/

/-- **queue durable**: in every reachable state – whatever the interleaving, the faults and the crash
points so far – every blob whose upload was acknowledged and that is not yet at the destination has
its row in the persistent queue. -/
theorem C19_queue_durable (effs : List EffAt) (hv : variantOf effs = some .fixed) (s : St)
    (h : Reachable effs s) (i : Nat) (ha : i ∈ s.acked) (hd : i ∉ dstIds s) : i ∈ s.rows := by
  rcases (C19_invariant effs hv s h).acked_safe i ha with e | e
  · exact absurd e hd
  · exact e

/-- non-vacuous: acknowledged, a failed copy attempt, a crash – the row is there -/
example : let s := run .fixed init [.srcRecv 1, .qSet 1 true, .memAdd 1 true, .cpStart 1, .cpXfer 1 (.destErr .canceled), .cpEnd 1, .restart]
    1 ∈ s.acked ∧ 1 ∉ dstIds s ∧ 1 ∈ s.rows := by decide

/-- **a row leaves the queue only after the destination acknowledged the blob**: whatever the next
step is, a row that disappears belongs to a blob that the destination already holds. -/
theorem C19_row_leaves_only_after_ack (effs : List EffAt) (hv : variantOf effs = some .fixed) (s : St)
    (h : Reachable effs s) (t : Step) (i : Nat) (hr : i ∈ s.rows) (hn : i ∉ (step .fixed s t).rows) :
    i ∈ dstIds s := by
  have hI := C19_invariant effs hv s h
  cases t with
  | srcRecv j => exact absurd hr hn
  | qSet j ok =>
    simp only [step] at hn
    split at hn
    · exact absurd (mem_rows_set hr) hn
    · exact absurd hr hn
  | memAdd j ok =>
    simp only [step] at hn
    split at hn <;> exact absurd hr hn
  | cpStart j =>
    simp only [step] at hn
    split at hn <;> exact absurd hr hn
  | cpXfer j f =>
    simp only [step] at hn
    split at hn <;> exact absurd hr hn
  | qDel j ok =>
    simp only [step] at hn
    split at hn
    next hm =>
      cases ok
      · exact absurd hr hn
      · by_cases e : i = j
        · exact e ▸ hI.xferred_at_dst j (Or.inl hm)
        · exact absurd (mem_del.2 ⟨hr, e⟩) hn
    · exact absurd hr hn
  | cpEnd j =>
    simp only [step] at hn
    split at hn
    · split at hn <;> exact absurd hr hn
    · split at hn
      · split at hn <;> exact absurd hr hn
      · exact absurd hr hn
  | restart => exact absurd hr hn

/-- non-vacuous: the successful row deletion does remove a row, and the blob is at the destination -/
example : let s := run .fixed init [.srcRecv 1, .qSet 1 true, .memAdd 1 true, .cpStart 1, .cpXfer 1 .ok]
    1 ∈ s.rows ∧ 1 ∉ (step .fixed s (.qDel 1 true)).rows ∧ 1 ∈ dstIds s := by decide

/-- the persistent state (source, destination, rows) survives a crash unchanged, and the reloaded
pending list is exactly the set of rows: deliveries pending at a crash are pending after restart -/
theorem C19_restart_reloads_rows (v : Variant) (s : St) :
    (step v s .restart).src = s.src ∧ (step v s .restart).dst = s.dst ∧ (step v s .restart).rows = s.rows ∧
    ∀ i, i ∈ (step v s .restart).need ↔ i ∈ s.rows := by
  refine ⟨rfl, rfl, rfl, ?_⟩
  intro i
  show i ∈ readQueueToMemory [] s.rows ↔ _
  simp [mem_rq]

/-! ## bit identity -/

/-- **bit-identical**: in every reachable state the destination holds, under the ref of blob `i`,
exactly the bytes of blob `i` (payload = id), and only blobs of the source – for every fault pattern,
including corrupt reads of the right size (the digest check of `copyBlob` rejects them). -/
theorem C19_bit_identical (effs : List EffAt) (hv : variantOf effs = some .fixed) (s : St)
    (h : Reachable effs s) (p : Nat × Nat) (hp : p ∈ s.dst) : p.2 = p.1 ∧ p.1 ∈ s.src :=
  (C19_invariant effs hv s h).dst_true p hp

/-- non-vacuous, and the corrupt read is what is being rejected: after a corrupt attempt and a clean
one the destination holds `(1, 1)`, never the corrupted payload `(1, 2)` -/
example : let s := run .fixed init [.srcRecv 1, .qSet 1 true, .memAdd 1 true, .cpStart 1, .cpXfer 1 .corrupt,
      .cpEnd 1, .cpStart 1, .cpXfer 1 .ok]
    s.dst = [(1, 1)] := by decide

/-- **no error kind is "nothing to copy"**: whatever the kind of the error (not-exist, a wrapped
ENOENT, cancellation, EOF, …) a failed source fetch, a failed read or a failed destination write
never lets `copyBlob` return nil and never changes the destination – so (by `step`) the copy ends in
phase `failed`, `qDel` is not enabled and the row and the pending entry stay. -/
theorem C19_failed_transfer_keeps_row (src : List Nat) (dst : List (Nat × Nat)) (i : Nat) (k : ErrKind)
    (hne : i ≠ emptyBlob) :
    xfer src dst i (.fetchErr k) = (dst, false) ∧ xfer src dst i (.shortRead k) = (dst, false) ∧
    xfer src dst i .readEmpty = (dst, false) ∧ xfer src dst i .fetchSize = (dst, false) ∧
    xfer src dst i (.destErr k) = (dst, false) ∧ xfer src dst i .corrupt = (dst, false) := by
  by_cases h : i ∈ src <;> simp [xfer, h, fetched, hashMatches, hne]

/-- the zero-length blob: a failed fetch, a size mismatch, a failed destination write still keep the
row; a *read* failure cannot happen (zero bytes are read without touching the reader), so those
outcomes are the clean copy – and the empty blob is delivered like any other -/
theorem C19_empty_blob_transfer (src : List Nat) (dst : List (Nat × Nat)) (k : ErrKind) :
    xfer src dst emptyBlob (.fetchErr k) = (dst, false) ∧ xfer src dst emptyBlob .fetchSize = (dst, false) ∧
    xfer src dst emptyBlob (.destErr k) = (dst, false) ∧ xfer src dst emptyBlob .corrupt = (dst, false) ∧
    xfer src dst emptyBlob (.shortRead k) = xfer src dst emptyBlob .ok ∧
    xfer src dst emptyBlob .readEmpty = xfer src dst emptyBlob .ok := by
  by_cases h : emptyBlob ∈ src <;> simp [xfer, h, fetched, hashMatches]

/-- a pending empty blob that is the ONLY pending item is delivered by the failure-free continuation
like any other (first upload; alone after the others were delivered; only row at a restart) -/
example : dstIds (recover .fixed (run .fixed init [.srcRecv emptyBlob, .qSet emptyBlob true, .memAdd emptyBlob true])) = [emptyBlob] ∧
    dstIds (recover .fixed (run .fixed init ([.srcRecv 2, .qSet 2 true, .memAdd 2 true] ++ copyOkSteps 2 ++
      [.srcRecv emptyBlob, .qSet emptyBlob true, .memAdd emptyBlob true, .restart]))) = [2, emptyBlob] := by decide

/-- the same on a whole copy attempt: for every error kind, after `cpStart; cpXfer (fetchErr k); cpEnd`
(the deferred `setError(err)`) the row, the pending entry and the destination are as before -/
theorem C19_fetch_error_copy_is_noop (k : ErrKind) :
    let s := run .fixed init [.srcRecv 1, .qSet 1 true, .memAdd 1 true]
    let s' := run .fixed s [.cpStart 1, .cpXfer 1 (.fetchErr k), .qDel 1 true, .cpEnd 1]
    s'.rows = [1] ∧ s'.need = [1] ∧ s'.dst = [] ∧ s'.copying = [] ∧ s'.cps = [] := by
  cases k <;> decide

/-! ## several sync destinations on one source -/

/-- **a failing hook of handler A does not change what handler B does**: in the product of sync
machines over one upload stream, the state of every machine other than number `h` after an upload
during which `h`'s queue write failed equals its state after the same upload without any failure. -/
theorem C19_multi_hook_failure_is_local (v : Variant) (ms : List St) (i h j : Nat) (hj : j + 1 ≠ h) :
    (uploadAll v ms i h)[j]? = (uploadAll v ms i 0)[j]? := by
  have h1 : (j + 1 != h) = true := by simpa using hj
  simp [uploadAll, List.getElem?_mapIdx, h1]

/-- non-vacuous: three handlers, the first one's queue write fails – the second and third are as in
the clean run (row written, blob pending), the first one has no row -/
example : (uploadAll .fixed [init, init, init] 7 1).map (·.rows) = [[], [7], [7]] ∧
    (uploadAll .fixed [init, init, init] 7 0).map (·.rows) = [[7], [7], [7]] := by decide

/-! ## eventual delivery -/

/-- one failure-free copy strictly decreases the pending measure `need.length` -/
theorem C19_copy_decreases (v : Variant) (s : St) (i : Nat) (hq : Quiet s) (hi : i ∈ s.need) :
    (run v s (copyOkSteps i)).need.length < s.need.length ∧ i ∈ dstIds (run v s (copyOkSteps i)) ∧
    i ∉ (run v s (copyOkSteps i)).rows := by
  rw [run_copyOk v s i hq.cps hq.copying (hq.need_src i)]
  refine ⟨?_, copied_delivers hi, ?_⟩
  · unfold copied
    rw [if_pos hi]
    exact length_del_lt hi
  · unfold copied
    rw [if_pos hi]
    intro hm
    exact (mem_del.1 hm).2 rfl

example : Quiet (run .fixed init [.srcRecv 1, .qSet 1 true, .memAdd 1 true]) ∧
    1 ∈ (run .fixed init [.srcRecv 1, .qSet 1 true, .memAdd 1 true]).need :=
  ⟨⟨rfl, rfl, by decide, by decide⟩, by decide⟩

/-- **eventual delivery**: from ANY reachable state (any in-flight uploads and copies, any earlier
faults) the failure-free continuation `recoverSteps s` – restart, then one clean copy of every
reloaded blob – has bounded length, consists of failure-free steps only, and ends in a state where
every acknowledged blob is at the destination, nothing is pending and the queue is empty. -/
theorem C19_eventual (effs : List EffAt) (hv : variantOf effs = some .fixed) (s : St) (h : Reachable effs s) :
    (recoverSteps s).length ≤ 1 + 4 * s.rows.length ∧
    (∀ t ∈ recoverSteps s, t.clean = true) ∧
    (∀ i ∈ s.acked, i ∈ dstIds (run .fixed s (recoverSteps s))) ∧
    (run .fixed s (recoverSteps s)).rows = [] ∧ (run .fixed s (recoverSteps s)).need = [] := by
  have hI := C19_invariant effs hv s h
  obtain ⟨hneed, hrows, _, _, _, _, hdst⟩ := recover_spec hI
  refine ⟨length_recoverSteps s, recoverSteps_clean s, ?_, hrows, hneed⟩
  intro i hi
  exact hdst i (hI.acked_safe i hi)

/-- non-vacuous: two acknowledged uploads, one copy parked between transfer and row deletion, one
failed copy, one upload in flight – recovery delivers both acknowledged blobs -/
example : let s := run .fixed init [.srcRecv 1, .qSet 1 true, .memAdd 1 true, .srcRecv 2, .qSet 2 true, .memAdd 2 true,
      .cpStart 1, .cpXfer 1 .ok, .cpStart 2, .cpXfer 2 (.shortRead .eof), .srcRecv 3]
    s.acked = [1, 2] ∧ dstIds s = [1] ∧ dstIds (recover .fixed s) = [1, 2] := by decide

/-- eventual delivery at the strength of "every blob received by the source store", under the guard
that every source blob is acknowledged, queued or already delivered -/
def SourceCovered (s : St) : Prop := ∀ i ∈ s.src, i ∈ s.acked ∨ i ∈ s.rows ∨ i ∈ dstIds s

instance (s : St) : Decidable (SourceCovered s) := by unfold SourceCovered; infer_instance

theorem C19_eventual_source_partial (effs : List EffAt) (hv : variantOf effs = some .fixed) (s : St)
    (h : Reachable effs s) (hc : SourceCovered s) :
    ∀ i ∈ (run .fixed s (recoverSteps s)).src, i ∈ dstIds (run .fixed s (recoverSteps s)) := by
  have hI := C19_invariant effs hv s h
  obtain ⟨_, _, _, _, _, hsrc, hdst⟩ := recover_spec hI
  intro i hi
  have hi' : i ∈ s.src := by
    have : (run .fixed s (recoverSteps s)).src = s.src := hsrc
    rw [this] at hi; exact hi
  rcases hc i hi' with e | e | e
  · exact hdst i (hI.acked_safe i e)
  · exact hdst i (Or.inr e)
  · exact hdst i (Or.inl e)

example : SourceCovered (run .fixed init [.srcRecv 1, .qSet 1 true, .memAdd 1 true, .srcRecv 2, .qSet 2 true]) := by
  decide

/-- F-C19-2: at full strength ("every blob received by the source store") the statement is false.
A blob the source store accepted but whose queue write failed (equivalently: a crash between the
store's receive and the row write) is in the source, unacknowledged and without a row; after a
restart no failure-free continuation of the sync handler ever copies it. -/
theorem C19_eventual_source_counterexample :
    ∃ s, Reachable Gen.syncEnqueueEffects s ∧ ¬ SourceCovered s ∧
      1 ∈ (recover .fixed s).src ∧ 1 ∉ dstIds (recover .fixed s) ∧ (recover .fixed s).need = [] :=
  ⟨run .fixed init [.srcRecv 1, .qSet 1 false, .memAdd 1 false],
   ⟨.fixed, C19_gen_enqueue_variant, _, rfl⟩, by decide, by decide, by decide, by decide⟩

/-- … while without the restart the same blob is still delivered by the running process (the
in-memory entry is made even when the row write failed) -/
theorem C19_unacked_delivered_without_restart :
    let s := run .fixed init [.srcRecv 1, .qSet 1 false, .memAdd 1 false]
    1 ∈ dstIds (run .fixed s (copyOkSteps 1)) := by decide

/-- F-C19-1 (the code before the fix): with the original `enqueue` – in-memory entry first, duplicate
short-cut, then the row – a re-upload after a failed queue write is acknowledged without a row;
queue durability fails and after a restart the acknowledged blob is never delivered. -/
theorem C19_orig_enqueue_counterexample :
    variantOf [⟨.memEnqueue, false, false⟩, ⟨.queueSet, false, false⟩] = some .orig ∧
    (let s := run .orig init [.srcRecv 1, .memAdd 1 true, .qSet 1 false, .srcRecv 1, .memAdd 1 true]
     1 ∈ s.acked ∧ 1 ∉ dstIds s ∧ 1 ∉ s.rows ∧ 1 ∉ dstIds (recover .orig s)) := by decide

/-- the same defect through an interleaving instead of a fault: a second upload is acknowledged by the
duplicate short-cut while the first upload's row write is still in flight; a crash then loses it -/
theorem C19_orig_enqueue_race_counterexample :
    let s := run .orig init [.srcRecv 1, .memAdd 1 true, .srcRecv 1, .memAdd 1 true, .restart]
    1 ∈ s.acked ∧ 1 ∉ dstIds s ∧ 1 ∉ s.rows := by decide

end Pk.Sync
