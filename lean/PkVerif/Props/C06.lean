import PkVerif.Props.C05
/-!
# C06 – live index and corpus always equal what a restart would load

Property theorems only. The model is C05's (`Pk.Index`) with the two in-memory mirrors: the index's
deletes cache (`State.deletes`) and the corpus (`State.corpus`: the rows merged so far, its deletes and
the flag `bad` = some row was merged twice). `observe` is the exported query surface: blob meta,
deletion status through the index and through the corpus, and per permanode its claims in date order,
modtime, content time, attribute values, and the two permanode orderings. `observeReload rows` is what
a fresh `index.New` + `KeepInMemory` over the same rows answers.

The theorems are about the code after the fixes 598c029 (row 14 of DESIGN §12), 12ff980 (row 15) and
260ba65 (row 16); the `Old.*` counterexamples show what the code before did.
-/
namespace Pk.Index
open Pk Pk.SMap

/-- a delete claim (4) of a permanode (2) arrives before it; then the claim on it -/
def actsLate : List Act := [.src 1, .recv 1, .src 4, .recv 4, .src 2, .recv 2, .reidx 4, .src 3, .recv 3]

/-- **Live = reload**, in every state of every schedule (also while blobs are still waiting for
dependencies or queued for re-indexing): the answers of the running index and corpus are those of a
fresh index and corpus opened over the same rows. -/
theorem C06_live_equals_reload (W : World) (ver : Nat) (hW : WF W) (acts : List Act)
    (hv : Valid W ver (State.init ver true) acts) (univ pns : List Ref) (fuel : Nat) :
    (run W ver (State.init ver true) acts).observe univ pns fuel =
      some (observeReload (run W ver (State.init ver true) acts).rows univ pns fuel) := by
  have h := allInv_run hW acts _ [] (allInv_init W ver true) hv
  have hsome : (run W ver (State.init ver true) acts).corpus.isSome = true := by
    rw [run_corpus_isSome]; rfl
  cases hc : (run W ver (State.init ver true) acts).corpus with
  | none => rw [hc] at hsome; cases hsome
  | some c => exact observe_live_eq_reload h c hc univ pns fuel

example : Valid W0 5 (State.init 5 true) actsLate := valid_of_validB _ _ _ _ (by decide)

/-- the answers are not trivial in the example: permanode 2 is deleted for both the index and the
corpus, and its claims are listed although the delete claim came first -/
example : (run W0 5 (State.init 5 true) actsLate).observe [1, 2, 3, 4] [2] 10 =
    some { metas := [(1, some [449, 0, 116]), (2, some [557, 1]), (3, some [726, 2]), (4, some [675, 2])],
           backs := [(1, []), (2, []), (3, []), (4, [])],
           deleted := [(1, false, false), (2, true, true), (3, false, false), (4, false, false)],
           pns := [⟨2, [3, 4], 2000, 2000, some (0, 1), none, none⟩],
           byMod := [], byCreated := [], bad := false } := by decide

/-- **A restart changes no answer**: at quiescence the restarted index and corpus answer like the
running ones. -/
theorem C06_restart_preserves_queries (W : World) (ver : Nat) (hW : WF W) (acts : List Act)
    (hv : Valid W ver (State.init ver true) acts) (hq : (run W ver (State.init ver true) acts).ready = [])
    (univ pns : List Ref) (fuel : Nat) :
    ((run W ver (State.init ver true) acts).restart ver).observe univ pns fuel =
      (run W ver (State.init ver true) acts).observe univ pns fuel := by
  have hv' : Valid W ver (State.init ver true) (acts ++ [Act.restart]) := by
    have : ∀ (s : State) (l : List Act), Valid W ver s l → (run W ver s l).ready = [] → Valid W ver s (l ++ [Act.restart]) := by
      intro s l
      induction l generalizing s with
      | nil => intro _ h; exact ⟨by simp [Act.ok, run] at h ⊢; simp [h], trivial⟩
      | cons a rest ih => intro h1 h2; exact ⟨h1.1, ih _ h1.2 h2⟩
    exact this _ _ hv hq
  have h1 := C06_live_equals_reload W ver hW (acts ++ [Act.restart]) hv' univ pns fuel
  have h2 := C06_live_equals_reload W ver hW acts hv univ pns fuel
  have hrun : run W ver (State.init ver true) (acts ++ [Act.restart]) =
      (run W ver (State.init ver true) acts).restart ver := by
    simp [run, List.foldl_append, step]
  rw [hrun] at h1
  rw [h1, h2]
  have h := allInv_run hW acts _ [] (allInv_init W ver true) hv
  have hne : (run W ver (State.init ver true) acts).rows ≠ [] := by
    intro e
    have := h.1.schema
    rw [e] at this; simp [SMap.get] at this
  have : ((run W ver (State.init ver true) acts).restart ver).rows = (run W ver (State.init ver true) acts).rows := by
    unfold State.restart; rw [reopen_nonempty ver _ _ _ hne]
  rw [this]

/-- the index's own deletes cache answers `IsDeleted` like the cache a restart rebuilds from the
`deleted|` rows (with or without a corpus) -/
theorem C06_index_isDeleted_survives_restart (W : World) (ver : Nat) (hW : WF W) (c : Bool) (acts : List Act)
    (hv : Valid W ver (State.init ver c) acts) (fuel : Nat) (br : Ref) :
    isDeletedIn fuel (run W ver (State.init ver c) acts).deletes br =
      isDeletedIn fuel (delsOfRows (run W ver (State.init ver c) acts).rows) br := by
  have h := allInv_run hW acts _ [] (allInv_init W ver c) hv
  exact isDeletedIn_congr _ _ h.2.2 fuel br

/-- before 598c029 `initNeededMapsLocked` emptied the deletes cache that `initDeletesCacheLocked` had just
filled: after a restart `Index.IsDeleted` was false for everything -/
theorem C06_restart_loses_deletes_old_counterexample :
    isDeletedIn 10 (run W0 5 (State.init 5 true) actsLate).deletes 2 = true ∧
    isDeletedIn 10 (Old.restart 5 (run W0 5 (State.init 5 true) actsLate)).deletes 2 = false ∧
    isDeletedIn 10 ((run W0 5 (State.init 5 true) actsLate).restart 5).deletes 2 = true := by decide

/-- every row reaches the live corpus exactly once: no `dup blob seen` panic, no duplicated claim, and
the corpus rows and deletes are those a load of the index rows gives -/
theorem C06_corpus_mirrors_rows (W : World) (ver : Nat) (hW : WF W) (acts : List Act)
    (hv : Valid W ver (State.init ver true) acts) (c : Corpus)
    (hc : (run W ver (State.init ver true) acts).corpus = some c) :
    c.bad = false ∧ c.m = (Corpus.load (run W ver (State.init ver true) acts).rows).m ∧
    ∀ d, d ∈ c.deletes ↔ d ∈ (Corpus.load (run W ver (State.init ver true) acts).rows).deletes := by
  have h := allInv_run hW acts _ [] (allInv_init W ver true) hv
  have hck := h.2.1 c hc
  exact ⟨hck.1, COk_m_eq _ h.1.kasc c hck, hck.2.2.2⟩

/-- before 12ff980 `corpus.addBlob` skipped every blob already in `c.blobs`: the second, complete pass
of a delete claim that had arrived before its target never reached the live corpus – neither the
deletion nor the claim row -/
theorem C06_dup_guard_old_counterexample :
    (Old.run W0 5 (State.init 5 true) actsLate).rows = (run W0 5 (State.init 5 true) actsLate).rows ∧
    (Old.run W0 5 (State.init 5 true) actsLate).observe [2] [2] 10 ≠
      some (observeReload (Old.run W0 5 (State.init 5 true) actsLate).rows [2] [2] 10) ∧
    ((Old.run W0 5 (State.init 5 true) actsLate).observe [2] [2] 10).map (·.deleted) = some [(2, true, false)] := by
  decide

/-- before 260ba65 a delete claim whose target is neither a permanode nor a claim (here: file 7) got no
`deleted|` row but was noted in both deletes caches: deleted while running, not deleted after a restart -/
theorem C06_noted_without_row_old_counterexample :
    ((Old.run W0 5 (State.init 5 true) [.src 1, .recv 1, .src 5, .src 6, .src 7, .recv 7, .src 8, .recv 8]).observe [7] [] 10).map (·.deleted)
      = some [(7, true, true)] ∧
    (observeReload (Old.run W0 5 (State.init 5 true) [.src 1, .recv 1, .src 5, .src 6, .src 7, .recv 7, .src 8, .recv 8]).rows [7] [] 10).deleted
      = [(7, false, false)] ∧
    ((run W0 5 (State.init 5 true) [.src 1, .recv 1, .src 5, .src 6, .src 7, .recv 7, .src 8, .recv 8]).observe [7] [] 10).map (·.deleted)
      = some [(7, false, false)] := by decide

/-- **A failed ReceiveBlob changes no answer and keeps live = reload.** When the index's store fails the
`Set` of a `missing|` row or the `CommitBatch` of the blob's rows, ReceiveBlob returns the error before the
corpus, the deletes cache and the rows are touched (at most the `missing|` row noted before a partial
commit survives); the live index and corpus still answer like a fresh index and corpus opened over the
rows that did get persisted – and the blob can be received again (the result state is again one the
other theorems apply to: it is `s` or `s` with one more noted dependency). -/
theorem C06_failed_receive_keeps_live_equals_reload (W : World) (ver : Nat) (hW : WF W) (acts : List Act)
    (hv : Valid W ver (State.init ver true) acts) (b : Ref) (f : Fault)
    (hfail : ((run W ver (State.init ver true) acts).receiveFault W b f).2 = false)
    (univ pns : List Ref) (fuel : Nat) :
    (((run W ver (State.init ver true) acts).receiveFault W b f).1).observe univ pns fuel =
      some (observeReload (((run W ver (State.init ver true) acts).receiveFault W b f).1).rows univ pns fuel) := by
  have h := allInv_run hW acts _ [] (allInv_init W ver true) hv
  have hsome : (run W ver (State.init ver true) acts).corpus.isSome = true := by
    rw [run_corpus_isSome]; rfl
  cases hc : (run W ver (State.init ver true) acts).corpus with
  | none => rw [hc] at hsome; cases hsome
  | some c =>
    rcases receiveFault_failed W _ b f hfail with e | ⟨t, e⟩
    · rw [e]; exact observe_live_eq_reload h c hc univ pns fuel
    · rw [e]
      obtain ⟨m1, m2, m3⟩ := mirrors_noteNeeded _ h.1.kasc h.2.1 h.2.2 b t
      exact observe_of_mirrors _ m1 m2 m3 c hc univ pns fuel

/-- the hypothesis is satisfiable, and the failure is visible nowhere: the commit of permanode 2 fails -/
example : ((run W0 5 (State.init 5 true) [.src 1, .recv 1, .src 2]).receiveFault W0 2 .commit).2 = false ∧
    ((run W0 5 (State.init 5 true) [.src 1, .recv 1, .src 2]).receiveFault W0 2 .commit).1.rows =
      (run W0 5 (State.init 5 true) [.src 1, .recv 1, .src 2]).rows := by decide

/-- handing the mutation map to the corpus *before* the commit (a variant the effect-order obligation
`C06_gen_commit_then_mirrors` rules out) breaks live = reload as soon as one commit fails -/
theorem C06_corpus_before_commit_counterexample :
    let s := run W0 5 (State.init 5 true) [.src 1, .recv 1, .src 2]
    let s' := s.corpusAdd 2 (fullRows W0 2) false          -- addBlob done, CommitBatch failed
    s'.observe [2] [] 10 ≠ some (observeReload s'.rows [2] [] 10) := by decide

/-! ## facts read from the source -/

/-- `New` builds the deletes cache and then the needs maps; `initNeededMapsLocked` calls
`newDeletionCache` nowhere (598c029) -/
theorem C06_gen_new_order :
    Gen.c05NewEffects.map (·.e) = [.initDeletes, .initNeeded] ∧ Gen.c05InitNeededEffects = [] := by decide

/-- `commit` updates the deletes cache after the batch is committed; ReceiveBlob hands the corpus the
mutation map it just committed, before anything else happens -/
theorem C06_gen_commit_then_mirrors :
    Gen.c05CommitEffects.map (·.e) = [.commit, .initDeletes] ∧
    (Gen.c05ReceiveEffects.map (·.e)).take 2 = [.commit, .corpusAdd] := by decide

end Pk.Index
