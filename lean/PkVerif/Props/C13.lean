import PkVerif.Lemmas.FaultTree
import PkVerif.Lemmas.StatGate
import PkVerif.Gen.C13
/-!
# C13 – a transient lower-layer failure fails one call and nothing else

Every leaf of a storage tree sits behind a schedule of transient failures (`faultLeaf`: call i of
that leaf goes through, fails before any effect, or takes effect and answers an error).  The
contract is `Pk.RefMap.FRefines` (Spec/Faults.lean): every step keeps the invariant and is exact, or
answers `.err` with the logical contents at the before- or the after-state of THAT operation; when no
failure is pending anywhere every step is exact.  `interpFRefines` proves the contract for every
tree by recursion; the theorems below are its consequences for all trees, schedules and histories.

What does NOT satisfy the contract is stated as `_counterexample` + `_partial`:
replica's "best effort" remove (finding F-C13-3, open) and the former parallel remove of proxycache
(F-C13-4, repaired in /repo 938eb3a); and the gate leak of `StatBlobsParallelHelper` (F-C13-1,
repaired in /repo f90901e), whose repaired shape is read off the regenerated effect list.
-/
namespace Pk.Stores
open Pk Pk.SMap Pk.RefMap

/-- the cache of a proxycache behind ANY failure schedule keeps the cache contract -/
def cacheFCaches (content : Bytes → Bytes) : (c : FCache) → FCaches content c.interp
  | .memCache sched max => faultLeafFCachesAny (memCacheCaches content max) sched
  | .mem sched => faultLeafFCachesAny (memRefines content).toCaches sched

/-- the fault contract of a configuration tree, by structural recursion: every combinator maps the
contracts of its sub-stores to its own.  Leaf schedules, shard routing and the schema predicate are
arbitrary. -/
def interpFRefines (content : Bytes → Bytes) (route isSchema : Bytes → Bool) :
    (c : FCfg) → FRefines content (c.interp route isSchema)
  | .leaf sched => faultLeafF (memRefines content) sched
  | .ns m => nsFRefines (interpFRefines content route isSchema m)
  | .proxy o c max => proxyFRefines (interpFRefines content route isSchema o) (cacheFCaches content c) max
  | .overlay l u => overlayFRefines (interpFRefines content route isSchema l) (interpFRefines content route isSchema u)
  | .shard2 a b => shard2FRefines route (interpFRefines content route isSchema a) (interpFRefines content route isSchema b)
  | .shardBy r a b => shard2FRefines r (interpFRefines content route isSchema a) (interpFRefines content route isSchema b)
  | .replicaStrict a b => replica2FRefines (interpFRefines content route isSchema a) (interpFRefines content route isSchema b)
  | .condStrict t e => cond2FRefines isSchema (interpFRefines content route isSchema t) (interpFRefines content route isSchema e)

/-- the failures still scheduled anywhere in the tree, in a given state -/
def FCache.pending : (c : FCache) → c.interp.σ → List Fault
  | .memCache _ _, s => s.2
  | .mem _, s => s.2

def FCfg.pending (route isSchema : Bytes → Bool) : (c : FCfg) → (c.interp route isSchema).σ → List Fault
  | .leaf _, s => s.2
  | .ns m, s => m.pending route isSchema s.2
  | .proxy o c _, s => o.pending route isSchema s.1 ++ c.pending s.2.1
  | .overlay l u, s => l.pending route isSchema s.1 ++ u.pending route isSchema s.2.1
  | .shard2 a b, s => a.pending route isSchema s.1 ++ b.pending route isSchema s.2
  | .shardBy _ a b, s => a.pending route isSchema s.1 ++ b.pending route isSchema s.2
  | .replicaStrict a b, s => a.pending route isSchema s.1 ++ b.pending route isSchema s.2
  | .condStrict t e, s => t.pending route isSchema s.1 ++ e.pending route isSchema s.2

theorem cache_quiet_of_pending (content : Bytes → Bytes) : ∀ (c : FCache) (s : c.interp.σ),
    (∀ f ∈ c.pending s, f = Fault.none) → (cacheFCaches content c).Quiet s
  | .memCache _ _, _, h => h
  | .mem _, _, h => h

/-- "no failure pending" made concrete: when every remaining schedule entry of every leaf is `none`,
the tree is in a `Quiet` state of its contract -/
theorem quiet_of_pending (content : Bytes → Bytes) (route isSchema : Bytes → Bool) :
    ∀ (c : FCfg) (s : (c.interp route isSchema).σ),
      (∀ f ∈ c.pending route isSchema s, f = Fault.none) → (interpFRefines content route isSchema c).Quiet s
  | .leaf _, _, h => h
  | .ns m, s, h => quiet_of_pending content route isSchema m s.2 h
  | .proxy o c _, s, h =>
    ⟨quiet_of_pending content route isSchema o s.1 (fun f hf => h f (List.mem_append_left _ hf)),
     cache_quiet_of_pending content c s.2.1 (fun f hf => h f (List.mem_append_right _ hf))⟩
  | .overlay l u, s, h =>
    ⟨quiet_of_pending content route isSchema l s.1 (fun f hf => h f (List.mem_append_left _ hf)),
     quiet_of_pending content route isSchema u s.2.1 (fun f hf => h f (List.mem_append_right _ hf))⟩
  | .shard2 a b, s, h =>
    ⟨quiet_of_pending content route isSchema a s.1 (fun f hf => h f (List.mem_append_left _ hf)),
     quiet_of_pending content route isSchema b s.2 (fun f hf => h f (List.mem_append_right _ hf))⟩
  | .shardBy _ a b, s, h =>
    ⟨quiet_of_pending content route isSchema a s.1 (fun f hf => h f (List.mem_append_left _ hf)),
     quiet_of_pending content route isSchema b s.2 (fun f hf => h f (List.mem_append_right _ hf))⟩
  | .replicaStrict a b, s, h =>
    ⟨quiet_of_pending content route isSchema a s.1 (fun f hf => h f (List.mem_append_left _ hf)),
     quiet_of_pending content route isSchema b s.2 (fun f hf => h f (List.mem_append_right _ hf))⟩
  | .condStrict t e, s, h =>
    ⟨quiet_of_pending content route isSchema t s.1 (fun f hf => h f (List.mem_append_left _ hf)),
     quiet_of_pending content route isSchema e s.2 (fun f hf => h f (List.mem_append_right _ hf))⟩

/-! ## the property -/

/-- **fault atomicity.**  For every tree (any depth, any failure schedule at every leaf and cache),
after ANY well-keyed history – whatever failed during it – the invariant holds, and the next
operation keeps it and is either exact (the reference map's answer and next contents) or answers
`.err` with the logical contents equal to the before- or the after-state of that one operation. -/
theorem C13_fault_atomic (content : Bytes → Bytes) (route isSchema : Bytes → Bool) (c : FCfg)
    (hist : List Op) (hhist : ∀ op ∈ hist, op.WK content) (op : Op) (hop : op.WK content) :
    let I := c.interp route isSchema
    let F := interpFRefines content route isSchema c
    let s := I.runState I.init hist
    F.Inv s ∧ F.Inv (I.step s op).1 ∧ Good content (F.abs (I.step s op).1) ∧
      StepOK (F.abs s) (F.abs (I.step s op).1) (I.step s op).2 op := by
  intro I F s
  have hs : F.Inv s := F.reach_inv I.init F.init_inv hist hhist
  obtain ⟨hi, hst⟩ := F.step_ok s op hs hop
  exact ⟨hs, hi, F.good _ hi, hst⟩

/-- what a faulted-or-exact step means for the individual blobs: **no other blob is touched** (every
key the operation does not name reads the same before and after), and the named key holds its old
or its new value – never anything else (nothing partial) -/
theorem C13_step_touches_one_key {content : Bytes → Bytes} {A A' : SMap Bytes} {o : Out} {op : Op}
    (hA : Good content A) (h : StepOK A A' o op) :
    (∀ k', (∀ v, op ≠ .recv k' v) → op ≠ .rm k' → get A' k' = get A k') ∧
    (∀ k v, op = .recv k v → get A' k = get A k ∨ get A' k = some (match get A k with | some w => w | none => v)) ∧
    (∀ k, op = .rm k → get A' k = get A k ∨ get A' k = none) := by
  have hmove : A' = A ∨ A' = next A op := by
    rcases h with ⟨_, h⟩ | ⟨_, h⟩
    · exact Or.inr h
    · exact h
  refine ⟨?_, ?_, ?_⟩
  · intro k' hr hm
    rcases hmove with rfl | rfl
    · rfl
    · cases op with
      | recv k v =>
        simp only [next]
        split
        · rfl
        · rw [get_ins]
          have : k' ≠ k := fun e => hr v (by rw [e])
          simp [this]
      | rm k =>
        simp only [next]
        rw [get_del k hA.1]
        have : k' ≠ k := fun e => hm (by rw [e])
        simp [this]
      | fetch _ => rfl
      | stat _ => rfl
      | enum _ _ => rfl
  · intro k v he
    subst he
    rcases hmove with rfl | rfl
    · exact Or.inl rfl
    · right
      simp only [next]
      split
      · rename_i hh
        simp only [has] at hh
        cases hg : get A k with
        | none => simp [hg] at hh
        | some w => rfl
      · rename_i hh
        rw [get_ins]
        simp only [if_true]
        cases hg : get A k with
        | none => rfl
        | some w => simp [has, hg] at hh
  · intro k he
    subst he
    rcases hmove with rfl | rfl
    · exact Or.inl rfl
    · right
      simp only [next]
      rw [get_del k hA.1]
      simp

/-- **recovery.**  After ANY history with ANY failures, once no failure is pending in any leaf, every
further history is answered exactly as the reference map started from the current logical contents –
no error persists, nothing hangs (the model is total), nothing is lost or resurrected. -/
theorem C13_recovers (content : Bytes → Bytes) (route isSchema : Bytes → Bool) (c : FCfg)
    (hist : List Op) (hhist : ∀ op ∈ hist, op.WK content)
    (hquiet : ∀ f ∈ c.pending route isSchema ((c.interp route isSchema).runState (c.interp route isSchema).init hist),
      f = Fault.none)
    (ops : List Op) (hops : ∀ op ∈ ops, op.WK content) :
    let I := c.interp route isSchema
    let s := I.runState I.init hist
    I.run s ops = RefMap.run ((interpFRefines content route isSchema c).abs s) ops ∧
      Good content ((interpFRefines content route isSchema c).abs s) := by
  intro I s
  have F := interpFRefines content route isSchema c
  have hs := (interpFRefines content route isSchema c).reach_inv I.init
    (interpFRefines content route isSchema c).init_inv hist hhist
  exact ⟨(interpFRefines content route isSchema c).recovers s hs
    (quiet_of_pending content route isSchema c s hquiet) ops hops,
    (interpFRefines content route isSchema c).good s hs⟩

/-- the trees of the theorems are the trees the driver and the harness run: without replica/cond the
proved model and `Pk.Stores.interp` of the driver's configuration are the same term -/
theorem C13_model_is_driver_model (route isSchema : Bytes → Bool) (c : FCfg) (h : c.strictFree = true) :
    Stores.interp route isSchema c.toCfg = c.interp route isSchema := FCfg.interp_toCfg route isSchema c h

/-- an n-way shard over `k :: r` (routing `sum key % n`) as a fault tree: sub-store `i` against the
rest (the n-way merged enumeration is the nested two-way one: `C01_merged_nway_is_nested`); an n-way
strict replica is the right-nested `replicaStrict` -/
def FCfg.shardNest (sum : Bytes → Nat) (n : Nat) : Nat → FCfg → List FCfg → FCfg
  | _, k, [] => k
  | i, k, k' :: r => .shardBy (fun key => sum key % n != i) k (FCfg.shardNest sum n (i + 1) k' r)

/-- the fault tree of an n-way shard is the tree the driver builds for `shardN` -/
theorem C13_shardN_is_driver_tree (sum : Bytes → Nat) (n : Nat) : ∀ (r : List FCfg) (k : FCfg) (i : Nat),
    (FCfg.shardNest sum n i k r).toCfg = Cfg.shardNest sum n i k.toCfg (r.map FCfg.toCfg)
  | [], _, _ => rfl
  | k' :: r, k, i => by
    simp only [FCfg.shardNest, FCfg.toCfg, List.map_cons, Cfg.shardNest]
    rw [C13_shardN_is_driver_tree sum n r k' (i + 1)]

/-- proxycache over ANY fault-tolerant origin and ANY fault-tolerant store used as its cache -/
def C13_proxy_over_any_cache {content : Bytes → Bytes} {origin cache : Impl} (Fo : FRefines content origin)
    (Fc : FRefines content cache) (max : Nat) : FRefines content (proxyImpl origin cache max) :=
  proxyFRefines Fo Fc.toFCaches max

/-! ### non-vacuity: a three-level tree, failures of both kinds, a failed receive and its recovery -/

def exTree : FCfg :=
  .overlay (.leaf []) (.shard2 (.ns (.leaf [.none, .before, .after])) (.proxy (.leaf [.after]) (.memCache [.before] 10) 5))

def exRoute : Bytes → Bool := fun k => k == [2]

def exHist : List Op :=
  [.recv [1] [7], .rm [1], .recv [1] [7], .fetch [1], .recv [1] [7], .fetch [1], .recv [2] [8], .fetch [2],
   .recv [2] [8], .enum [] 5]

/-- blob `[1]` lives behind the namespace: its re-receive fails twice (the master's 2nd call fails
outright, the 3rd takes effect but loses its answer: `.err` both times, and the blob stays invisible –
the before-state).  Blob `[2]` goes to the proxycache: the origin stores it but loses the answer
(`.err`), the next fetch serves it (the after-state) although the cache's fetch fails too; from then
on everything is exact. -/
example : (exTree.interp exRoute (fun _ => false)).run (exTree.interp exRoute (fun _ => false)).init exHist =
    [.sized 1, .ok, .err, .notExist, .err, .notExist, .err, .bytes [8], .sized 1, .refs [([2], 1)]] := by decide

example : exTree.strictFree = true := by decide

/-- `C13_recovers`' hypothesis is satisfiable after a history with failures -/
example : ∀ f ∈ exTree.pending exRoute (fun _ => false)
    ((exTree.interp exRoute (fun _ => false)).runState (exTree.interp exRoute (fun _ => false)).init exHist),
    f = Fault.none := by decide

/-- a three-way shard (routing by key length) whose second and third sub-stores fail: the receive
routed to the second fails without effect, the one routed to the third takes effect but loses its
answer; a failing sub-store fails the whole merged enumeration once, then everything is exact -/
def exTree3 : FCfg := FCfg.shardNest (fun k => k.length) 3 0 (.leaf []) [.leaf [.before], .leaf [.after, .before]]

example : (exTree3.interp exRoute (fun _ => false)).run (exTree3.interp exRoute (fun _ => false)).init
    [.recv [1, 1, 1] [7], .recv [1] [8], .recv [1, 1] [9], .enum [] 5, .recv [1] [8], .enum [] 5] =
    [.sized 1, .err, .err, .err, .sized 1, .refs [([1], 1), ([1, 1], 1), ([1, 1, 1], 1)]] := by decide

example : exTree3.strictFree = true := by decide

/-! ## where the code is NOT fault-atomic -/

/-- **F-C13-3 (open).**  replica.RemoveBlobs is "best effort": it reports success as soon as ONE
replica removed the blob.  Two memory replicas, the first one's removal fails: the remove is
acknowledged, no call answers an error, and the blob is still served. -/
theorem C13_replica_remove_counterexample :
    (replica2Impl (faultLeaf memImpl [.none, .before]) (faultLeaf memImpl [])).run
        (replica2Impl (faultLeaf memImpl [.none, .before]) (faultLeaf memImpl [])).init
        [.recv [1] [7], .rm [1], .fetch [1]] = [.sized 1, .ok, .bytes [7]] ∧
    RefMap.run [] [.recv [1] [7], .rm [1], .fetch [1]] = [.sized 1, .ok, .notExist] :=
  replica2_rm_best_effort_counterexample

/-- the same through cond (its read and remove side is a replica) -/
theorem C13_cond_remove_counterexample :
    (cond2Impl (fun _ => true) (faultLeaf memImpl [.none, .before]) (faultLeaf memImpl [])).run
        (cond2Impl (fun _ => true) (faultLeaf memImpl [.none, .before]) (faultLeaf memImpl [])).init
        [.recv [1] [7], .rm [1], .fetch [1]] = [.sized 1, .ok, .bytes [7]] ∧
    RefMap.run [] [.recv [1] [7], .rm [1], .fetch [1]] = [.sized 1, .ok, .notExist] :=
  cond2_rm_best_effort_counterexample

/-- what holds for the REAL replica over any two fault-tolerant stores: every operation other than
remove is fault-atomic on the union of the replicas' contents (guard: `op` is not a remove) … -/
theorem C13_replica_fault_atomic_partial {content : Bytes → Bytes} {a b : Impl} (Fa : FRefines content a)
    (Fb : FRefines content b) (sa : a.σ) (sb : b.σ) (op : Op)
    (ha : Fa.Inv sa) (hb : Fb.Inv sb) (hop : op.WK content) (hnrm : ∀ k, op ≠ .rm k) :
    (Fa.Inv ((replica2Impl a b).step (sa, sb) op).1.1 ∧ Fb.Inv ((replica2Impl a b).step (sa, sb) op).1.2) ∧
    StepOK (union (Fa.abs sa) (Fb.abs sb))
      (union (Fa.abs ((replica2Impl a b).step (sa, sb) op).1.1)
        (Fb.abs ((replica2Impl a b).step (sa, sb) op).1.2))
      ((replica2Impl a b).step (sa, sb) op).2 op :=
  replica2_step_ok_except_rm Fa Fb sa sb op ha hb hop hnrm

/-- … a remove keeps both replicas' invariants whatever failed … -/
theorem C13_replica_remove_keeps_invariant_partial {content : Bytes → Bytes} {a b : Impl}
    (Fa : FRefines content a) (Fb : FRefines content b) (sa : a.σ) (sb : b.σ) (k : Bytes)
    (ha : Fa.Inv sa) (hb : Fb.Inv sb) :
    Fa.Inv ((replica2Impl a b).step (sa, sb) (.rm k)).1.1 ∧ Fb.Inv ((replica2Impl a b).step (sa, sb) (.rm k)).1.2 :=
  replica2_step_inv Fa Fb sa sb (.rm k) ha hb trivial

/-- … and once no failure is pending the real replica, remove included, is exact again -/
theorem C13_replica_recovers_partial {content : Bytes → Bytes} {a b : Impl} (Fa : FRefines content a)
    (Fb : FRefines content b) (s : a.σ × b.σ) (ha : Fa.Inv s.1) (hb : Fb.Inv s.2)
    (hq : Fa.Quiet s.1 ∧ Fb.Quiet s.2) (ops : List Op) (hops : ∀ op ∈ ops, op.WK content) :
    (replica2Impl a b).run s ops = RefMap.run (union (Fa.abs s.1) (Fb.abs s.2)) ops :=
  replica2_recovers Fa Fb s ha hb hq ops hops

/-- the guard of the partial theorems is satisfiable: a fetch on two failing memory replicas -/
example : ∀ k, (Op.fetch [1]) ≠ .rm k := by intro k h; cases h

/-- **F-C13-5 (repaired in /repo b37d745).**  replica.Fetch used to return the LAST replica's error:
after a failure of the replica holding the blob it passed on a later replica's "not there". -/
theorem C13_replica_fetch_fallback_counterexample :
    (replica2OldFetchImpl (faultLeaf memImpl [.none, .before]) (faultLeaf memImpl [.before])).run
        (replica2OldFetchImpl (faultLeaf memImpl [.none, .before]) (faultLeaf memImpl [.before])).init
        [.recv [1] [7], .fetch [1], .fetch [1]] = [.err, .notExist, .bytes [7]] :=
  replica2_fetch_fallback_counterexample.1

/-- **F-C13-4 (repaired in /repo 938eb3a).**  proxycache.RemoveBlobs used to remove from cache and
origin in parallel.  When the cache's removal failed without effect while the origin's went through,
the caller saw `.err` and from then on the proxy served the blob on Fetch/Stat (cache hits) but did
not enumerate it – answers no map gives, with no failure pending. -/
theorem C13_proxy_parallel_remove_counterexample :
    badProxy.run badProxy.init
        [.recv [1] [7], .rm [1], .fetch [1], .stat [1], .enum [] 10, .fetch [1]] =
      [.sized 1, .err, .bytes [7], .sized 1, .refs [], .bytes [7]] ∧
    (∀ m : SMap Bytes, ¬ (out m (.fetch [1]) = .bytes [7] ∧ out m (.enum [] 10) = .refs [])) :=
  ⟨proxy_failed_cache_remove_counterexample.1, proxy_failed_cache_remove_counterexample.2.2.2⟩

/-- the repaired order (cache first, origin only if the cache's removal succeeded) on the same
history and schedule: the failed remove leaves the before-state on every read path -/
theorem C13_proxy_remove_repaired :
    (proxyImpl memImpl (faultLeaf memImpl [Fault.none, Fault.before]) 100).run
        (proxyImpl memImpl (faultLeaf memImpl [Fault.none, Fault.before]) 100).init
        [.recv [1] [7], .rm [1], .fetch [1], .stat [1], .enum [] 10, .rm [1], .fetch [1], .enum [] 10] =
      [.sized 1, .err, .bytes [7], .sized 1, .refs [([1], 1)], .ok, .notExist, .refs []] :=
  proxy_failed_cache_remove_fixed

/-! ## the stat gate: every started slot is released -/

open Pk.StatGate in
/-- **every gate slot taken by a call of `StatBlobsParallelHelper` is released when it returns** –
for every blob list, every way each worker ends, and every point at which the cancellation becomes
visible to the loop – provided the source has a `gate.Done()` on the early exit and a deferred one
in the worker (`GateDoneOnEveryExit`, discharged on the regenerated effect list below). -/
theorem C13_gate_balanced (l : List EffAt) (h : GateDoneOnEveryExit l) (visible : Nat → Bool)
    (ends : List WorkerEnd) :
    (call (shapeOf l) visible ends).starts = (call (shapeOf l) visible ends).dones ∧
      leaked (shapeOf l) visible ends = 0 := by
  have hb := loop_balanced (shapeOf l) h.2.1 h.2.2 visible ends 0 ⟨0, 0⟩ rfl
  exact ⟨hb, by simp [leaked, call] at hb ⊢; omega⟩

open Pk.StatGate in
/-- the obligation on the source, on the list regenerated from pkg/blobserver/stat.go -/
theorem C13_gen_gate_done_on_break : GateDoneOnEveryExit Pk.Gen.statHelperEffects := by decide

open Pk.StatGate in
/-- hence the shared gate keeps its full capacity over ANY sequence of calls, failed or not -/
theorem C13_gate_never_exhausted (cap : Nat) (hc : 0 < cap)
    (calls : List ((Nat → Bool) × List WorkerEnd)) :
    gateRun (shapeOf Pk.Gen.statHelperEffects) (some cap) calls = some cap := by
  have : shapeOf Pk.Gen.statHelperEffects = ⟨true, true⟩ := by decide
  rw [this]; exact gateRun_fixed cap hc calls

open Pk.StatGate in
/-- the shape before the repair (`gate.Start()`, then `break` without `Done`; DESIGN §12 row 1) -/
def pinnedStatHelperEffects : List EffAt := [⟨.gateStart, false, true⟩, ⟨.gateDone, true, true⟩]

open Pk.StatGate in
/-- **F-C13-1 (repaired in /repo f90901e).**  One blob, context already cancelled: one Start, no Done. -/
theorem C13_gate_balanced_counterexample :
    ¬ GateDoneOnEveryExit pinnedStatHelperEffects ∧
    call (shapeOf pinnedStatHelperEffects) (fun _ => true) [.ok] = ⟨1, 0⟩ := by decide

open Pk.StatGate in
/-- … and what it costs: for EVERY gate capacity, that many cancelled stats later every further stat
on that backend type – healthy or not – blocks forever -/
theorem C13_gate_exhaustion_counterexample (cap : Nat) (w : WorkerEnd)
    (next : (Nat → Bool) × List WorkerEnd) (hne : next.2 ≠ []) :
    gateRun (shapeOf pinnedStatHelperEffects) (some cap)
      (List.replicate cap ((fun _ => true), [w]) ++ [next]) = none := by
  have : shapeOf pinnedStatHelperEffects = ⟨false, true⟩ := by decide
  rw [this]; exact gateRun_pinned_exhausted (fun _ => true) rfl w cap next hne

open Pk.StatGate in
/-- the pinned shape loses exactly one slot per call in which the loop saw the cancellation, none
otherwise (guard: the counters start balanced) -/
theorem C13_gate_balanced_partial (visible : Nat → Bool) (ends : List WorkerEnd) :
    leaked (shapeOf pinnedStatHelperEffects) visible ends =
      if (List.range' 0 ends.length).any visible then 1 else 0 := by
  have : shapeOf pinnedStatHelperEffects = ⟨false, true⟩ := by decide
  rw [this]
  rcases loop_pinned visible ends 0 ⟨0, 0⟩ with h | h
  · simpa [leaked, call] using h
  · simp at h

open Pk.StatGate in
example : (List.range' 0 [WorkerEnd.ok, .workerErr, .ok].length).any (fun i => i == 2) = true := by decide

end Pk.Stores
