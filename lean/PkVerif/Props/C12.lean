import PkVerif.Lemmas.Replica
import PkVerif.Gen.C12
/-!
# C12 – replicated writes are acknowledged only at quorum; reads survive replica loss

Property theorems only.  `Pk.Replica.*` models pkg/blobserver/replica/replica.go, `Pk.MergedEnum.*`
models pkg/blobserver/mergedenum.go (lemmas in `PkVerif/Lemmas/{Replica,MergedEnum}.lean`).

Every statement is for ALL replica counts, all thresholds, all assignments of results to replicas
(right size / wrong size / error, storing or not) and ALL arrival orders: the arrival order `arr` is any
permutation (`List.Perm`) of the per-replica results `rs`.
-/
namespace Pk.Replica
open Pk.MergedEnum

/-! ## facts regenerated from the source -/

/-- the tally of `ReceiveBlob` has the three cases the model has, in this order, and acknowledges
when the success counter *equals* `minWritesForSuccess` right after incrementing it -/
theorem C12_gen_tally_shape :
    Gen.replicaRecvCases = ["res.err == nil && int64(res.sb.Size) == size", "res.err == nil", "default"] ∧
    Gen.replicaRecvGoodCase = ["nSuccess++", "if nSuccess == sto.minWritesForSuccess", "return res.sb, nil"] :=
  ⟨rfl, rfl⟩

/-- `newFromConfig` refuses zero backends and a quorum outside `0..len(backends)` before it maps `0` to
"all" and defaults the read set to the write set (the second guard is the `fix:` of F-C12-1) -/
theorem C12_gen_ctor_guards :
    Gen.replicaCtorGuards = ["err != nil", "nReplicas == 0",
      "sto.minWritesForSuccess < 0 || sto.minWritesForSuccess > nReplicas",
      "sto.minWritesForSuccess == 0", "len(sto.readPrefixes) == 0"] := rfl

/-- reads go to `readReplicas`, writes and removes to `replicas` -/
theorem C12_gen_replica_sets :
    Gen.replicaRanges = ["Fetch:sto.readReplicas", "StatBlobs:sto.readReplicas", "ReceiveBlob:sto.replicas",
      "RemoveBlobs:sto.replicas", "EnumerateBlobs:sto.readReplicas"] := rfl

/-- `Fetch` returns on the first success, remembers the first error that is not "not exist", and
returns it after the loop (fix b37d745) -/
theorem C12_gen_fetch_shape :
    Gen.replicaFetchShape = ["if err == nil", "return", "if failErr == nil && !errors.Is(err, os.ErrNotExist)",
      "failErr = err", "if failErr != nil", "return nil, 0, failErr", "return"] := rfl

/-- the comparisons of the merge: `tooLow` is "≤ lastSent", the scan replaces `lowest` only by a
strictly smaller ref, the loop runs while `nSent < limit` -/
theorem C12_gen_merge_shape :
    Gen.mergedEnumShape = ["tooLow: lastSent.Valid() && (br == lastSent || br.Less(lastSent))",
      "for nSent < limit", "for !peeker.Closed() && tooLow(peeker.MustPeek().Ref)",
      "if lowestIdx == -1 || sb.Ref.Less(lowest.Ref)"] := rfl

/-! ## the configuration -/

/-- whatever `newFromConfig` accepts has a quorum in `1..n`, the configured write list, and a
non-empty read list -/
theorem C12_cfg_quorum_in_range (nStores : Nat) (backends readBackends : List Nat) (minCfg : Option Int)
    (c : Cfg) (h : newFromConfig nStores backends readBackends minCfg = some c) :
    1 ≤ c.min ∧ c.min ≤ c.writes.length ∧ c.writes = backends ∧ c.reads ≠ [] := by
  unfold newFromConfig at h
  split at h
  · cases h
  · rename_i hb
    split at h
    · cases h
    · rename_i hm
      split at h
      · cases h
      · simp only [Option.some.injEq] at h
        subst h
        have hne : backends ≠ [] := by intro e; rw [e] at hb; exact hb rfl
        have hlen : 0 < backends.length := List.length_pos_iff.mpr hne
        have hm' : 0 ≤ minCfg.getD ↑backends.length ∧ minCfg.getD ↑backends.length ≤ ↑backends.length := by
          simpa [minOk] using hm
        refine ⟨?_, ?_, rfl, ?_⟩
        · show 1 ≤ effMin _ _
          unfold effMin; split <;> omega
        · show effMin _ _ ≤ backends.length
          unfold effMin; split <;> omega
        · show effReads backends readBackends ≠ []
          unfold effReads
          split
          · exact hne
          · rename_i he; intro e; rw [e] at he; exact he rfl

example : newFromConfig 4 [2, 0, 1] [3, 1] (some 2) = some ⟨[2, 0, 1], [3, 1], 2⟩ := by decide
example : newFromConfig 4 [2, 0, 1] [] none = some ⟨[2, 0, 1], [2, 0, 1], 3⟩ := by decide
example : newFromConfig 4 [2, 0, 1] [] (some 4) = none := by decide

/-! ## ReceiveBlob -/

/-- **ack ⇔ quorum.**  For every threshold `min ≥ 1`, every list of per-replica results and every
order in which they arrive, `ReceiveBlob` acknowledges iff at least `min` replicas answered without
error and with the right size -/
theorem C12_ack_iff_quorum (rs arr : List Res) (min size : Nat) (h1 : 1 ≤ min) (hperm : arr.Perm rs) :
    (receiveBlob min size arr).isAck = true ↔ min ≤ (rs.filter (Res.good size)).length := by
  have := tally_ack_iff min size arr 0 none 0 (by omega)
  rw [receiveBlob, this, Nat.zero_add, (hperm.filter _).length_eq]

example : (receiveBlob 2 5 [⟨2, true, .ok 5⟩, ⟨0, false, .err⟩, ⟨1, true, .ok 6⟩, ⟨3, true, .ok 5⟩]).isAck = true := by
  decide
example : [(⟨2, true, .ok 5⟩ : Res), ⟨0, false, .err⟩, ⟨1, true, .ok 6⟩].Perm
    [⟨0, false, .err⟩, ⟨1, true, .ok 6⟩, ⟨2, true, .ok 5⟩] := by decide

/-- the acknowledgement does not depend on the arrival order -/
theorem C12_ack_order_independent (arr₁ arr₂ : List Res) (min size : Nat) (h1 : 1 ≤ min)
    (hperm : arr₁.Perm arr₂) :
    (receiveBlob min size arr₁).isAck = (receiveBlob min size arr₂).isAck := by
  have a := C12_ack_iff_quorum arr₂ arr₁ min size h1 hperm
  have b := C12_ack_iff_quorum arr₂ arr₂ min size h1 (List.Perm.refl _)
  rw [Bool.eq_iff_iff, a, b]

/-- **not ack ⇒ error**, for thresholds in `1..n`: when fewer than `min` replicas succeed the caller
gets a non-nil error (that of the failure that arrived last) -/
theorem C12_no_ack_is_error (arr : List Res) (min size : Nat) (h1 : 1 ≤ min) (h2 : min ≤ arr.length)
    (hno : (receiveBlob min size arr).isAck = false) : ∃ e, receiveBlob min size arr = .fail e := by
  cases hout : receiveBlob min size arr with
  | ack i c => rw [hout] at hno; cases hno
  | fail e => exact ⟨e, rfl⟩
  | zero =>
    exfalso
    obtain ⟨_, hall⟩ := tally_zero min size arr 0 none 0 hout
    have hack := (tally_ack_iff min size arr 0 none 0 (by omega)).mpr (by omega)
    rw [receiveBlob] at hno
    rw [hno] at hack; cases hack

example : receiveBlob 2 5 [⟨1, true, .ok 5⟩, ⟨0, true, .ok 6⟩, ⟨2, false, .err⟩] = .fail (.replica 2) := by decide
example : receiveBlob 2 5 [⟨2, false, .err⟩, ⟨1, true, .ok 5⟩, ⟨0, true, .ok 6⟩] = .fail (.wrongSize 6 5) := by decide

/-- outside `1..n` the implication is false: with `min > n` and every replica succeeding, `ReceiveBlob`
falls out of its loop and returns the zero SizedRef with a NIL error (F-C12-1; unreachable since the
constructor rejects such a configuration – `C12_cfg_quorum_in_range`) -/
theorem C12_no_ack_is_error_counterexample :
    (receiveBlob 4 5 [⟨0, true, .ok 5⟩, ⟨1, true, .ok 5⟩, ⟨2, true, .ok 5⟩]).isAck = false ∧
    receiveBlob 4 5 [⟨0, true, .ok 5⟩, ⟨1, true, .ok 5⟩, ⟨2, true, .ok 5⟩] = .zero ∧
    (receiveBlob 4 5 [⟨0, true, .ok 5⟩, ⟨1, true, .ok 5⟩, ⟨2, true, .ok 5⟩]).noError = true := by decide

/-- and the constructor as it was accepted that configuration -/
theorem C12_cfg_old_accepts_unreachable_quorum_counterexample :
    newFromConfigOld 3 [0, 1, 2] [] (some 4) = some ([0, 1, 2], [0, 1, 2], 4) ∧
    newFromConfig 3 [0, 1, 2] [] (some 4) = none := by decide

/-- a replica answers honestly: "stored, right size" only if it did store -/
def Honest (size : Nat) (arr : List Res) : Prop := ∀ r ∈ arr, Res.good size r = true → r.stores = true

/-- **ack ⇒ at least `min` replicas hold the blob at that moment**: among the results `ReceiveBlob`
had consumed when it returned there are `min` good ones, and (replicas being honest about a good
answer – misreporting ones are counted as failures by the size test) the positions
`holdersAtReturn` are `min` or more DISTINCT replicas that have stored the blob – no matter how many
other replicas are still running, failed, or misreported -/
theorem C12_ack_replicas_hold (arr : List Res) (min size : Nat) (h1 : 1 ≤ min)
    (hon : Honest size arr) (hdistinct : (arr.map (·.idx)).Nodup)
    (hack : (receiveBlob min size arr).isAck = true) :
    min ≤ (holdersAtReturn min size arr).length ∧ (holdersAtReturn min size arr).Nodup := by
  cases hout : receiveBlob min size arr with
  | fail e => rw [hout] at hack; cases hack
  | zero => rw [hout] at hack; cases hack
  | ack idx c =>
    obtain ⟨_, _, hcount⟩ := tally_ack_consumed min size arr 0 none 0 idx c (by omega) hout
    simp only [Nat.sub_zero, Nat.zero_add] at hcount
    unfold holdersAtReturn
    rw [hout]
    simp only [consumedAtReturn, List.length_map]
    constructor
    · refine Nat.le_trans hcount (filter_length_mono _ _ _ ?_)
      intro r hr hg
      exact hon r (List.mem_of_mem_take hr) hg
    · have hsub : (((arr.take c).filter (·.stores)).map (·.idx)).Sublist (arr.map (·.idx)) :=
        List.Sublist.map _ (List.Sublist.trans List.filter_sublist (List.take_sublist _ _))
      exact List.Nodup.sublist hsub hdistinct

example : Honest 5 [⟨2, true, .ok 5⟩, ⟨0, false, .err⟩, ⟨1, false, .ok 6⟩] := by
  intro r hr hg
  simp only [List.mem_cons, List.not_mem_nil, or_false] at hr
  rcases hr with rfl | rfl | rfl <;> simp_all [Res.good]

/-- … and in the world: every sub-store named by `holdersAtReturn` holds the blob WITH THE RIGHT SIZE once
the uploads that had arrived are applied (whatever it held before, e.g. a truncated copy) -/
theorem C12_holders_have_blob (subs : List Sub) (writes : List Nat) (min size : Nat) (arr : List Res)
    (k : Bytes) (i : Nat) (hi : i ∈ idsOf writes (holdersAtReturn min size arr)) (hlt : i < subs.length) :
    ((storeAt subs (idsOf writes (holdersAtReturn min size arr)) (k, size)).getD i ⟨[], false⟩).store.get? k = some size :=
  storeAt_get subs _ (k, size) i hi hlt

/-- distinct positions of a duplicate-free write list are distinct sub-stores -/
theorem C12_holder_ids_distinct (writes ps : List Nat) (hw : writes.Nodup) (hp : ps.Nodup) :
    (idsOf writes ps).Nodup ∧ ∀ i ∈ idsOf writes ps, i ∈ writes := by
  constructor
  · unfold idsOf
    apply List.Pairwise.filterMap _ _ hp
    intro a a' hne b hb b' hb' e
    subst e
    have ha : a < writes.length := by
      cases h : writes[a]? with
      | none => rw [h] at hb; cases hb
      | some _ => exact (List.getElem?_eq_some_iff.mp h).1
    have hb1 : writes[a]? = some b := hb
    have hb2 : writes[a']? = some b := hb'
    exact hne ((List.getElem?_inj ha hw).mp (by rw [hb1, hb2]))
  · intro i hi
    obtain ⟨p, _, hp'⟩ := List.mem_filterMap.mp hi
    exact List.mem_of_getElem? hp'

/-- **ack ⇒ `min` distinct write sub-stores hold the blob when `ReceiveBlob` returns**, in the world:
for a duplicate-free write list over existing sub-stores and one result per write replica, there are
`min` or more distinct sub-stores of the write list that have the blob at that moment -/
theorem C12_ack_substores_hold (subs : List Sub) (writes : List Nat) (min size : Nat) (arr : List Res) (k : Bytes)
    (h1 : 1 ≤ min) (hw : writes.Nodup) (hws : ∀ i ∈ writes, i < subs.length)
    (hidx : ∀ r ∈ arr, r.idx < writes.length) (hdistinct : (arr.map (·.idx)).Nodup)
    (hon : Honest size arr) (hack : (receiveBlob min size arr).isAck = true) :
    ∃ ids : List Nat, ids.Nodup ∧ min ≤ ids.length ∧ ∀ i ∈ ids, i ∈ writes ∧
      ((storeAt subs (idsOf writes (holdersAtReturn min size arr)) (k, size)).getD i ⟨[], false⟩).store.get? k = some size := by
  obtain ⟨hlen, hnd⟩ := C12_ack_replicas_hold arr min size h1 hon hdistinct hack
  obtain ⟨hnd', hmem⟩ := C12_holder_ids_distinct writes (holdersAtReturn min size arr) hw hnd
  refine ⟨idsOf writes (holdersAtReturn min size arr), hnd', ?_, ?_⟩
  · rw [idsOf_length]
    · exact hlen
    · intro p hp
      unfold holdersAtReturn at hp
      obtain ⟨r, hr, rfl⟩ := List.mem_map.mp hp
      exact hidx r (List.mem_of_mem_take (List.mem_filter.mp hr).1)
  · intro i hi
    exact ⟨hmem i hi, C12_holders_have_blob subs writes min size arr k i hi (hws i (hmem i hi))⟩

/-- non-vacuity: 3 write replicas over sub-stores 2,0,1 (of 4), min = 2, arrival order 1,2,0 with a
failure in between: acknowledged after the third result, sub-stores 0 and 2 hold the blob -/
example : (receiveBlob 2 5 [⟨1, true, .ok 5⟩, ⟨2, false, .err⟩, ⟨0, true, .ok 5⟩]).isAck = true ∧
    idsOf [2, 0, 1] (holdersAtReturn 2 5 [⟨1, true, .ok 5⟩, ⟨2, false, .err⟩, ⟨0, true, .ok 5⟩]) = [0, 2] ∧
    ((storeAt (List.replicate 4 ⟨[([7], 4)], false⟩) [0, 2] ([7], 5)).getD 2 ⟨[], false⟩).store.get? [7] = some 5 := by
  decide

/-- `ReceiveBlob` returns at quorum: it does NOT wait for the remaining replicas (here replica 1 is
good but has not stored yet when the caller is told "ok"); their uploads continue on the caller's context -/
theorem C12_ack_before_all_replicas_finished :
    (receiveBlob 1 5 [⟨0, true, .ok 5⟩, ⟨1, true, .ok 5⟩]).isAck = true ∧
    holdersAtReturn 1 5 [⟨0, true, .ok 5⟩, ⟨1, true, .ok 5⟩] = [0] ∧
    completed 1 5 [⟨0, true, .ok 5⟩, ⟨1, true, .ok 5⟩] true = [0, 1] ∧
    completed 1 5 [⟨0, true, .ok 5⟩, ⟨1, true, .ok 5⟩] false = [0] := by decide

/-- a replica that stores the blob but reports a wrong size is counted as a failure, never as a success -/
theorem C12_wrong_size_is_failure (r : Res) (size sz : Nat) (h : r.reply = .ok sz) (hne : sz ≠ size) :
    Res.good size r = false := by simp [Res.good, h, hne]

/-- the whole statement for every storage the constructor can return -/
theorem C12_receive_sound (nStores : Nat) (backends readBackends : List Nat) (minCfg : Option Int) (c : Cfg)
    (hc : newFromConfig nStores backends readBackends minCfg = some c)
    (rs arr : List Res) (size : Nat) (hperm : arr.Perm rs) (hn : rs.length = c.writes.length) :
    ((receiveBlob c.min size arr).isAck = true ↔ c.min ≤ (rs.filter (Res.good size)).length) ∧
    ((receiveBlob c.min size arr).isAck = false → ∃ e, receiveBlob c.min size arr = .fail e) := by
  obtain ⟨h1, h2, _, _⟩ := C12_cfg_quorum_in_range nStores backends readBackends minCfg c hc
  refine ⟨C12_ack_iff_quorum rs arr c.min size h1 hperm, ?_⟩
  intro hno
  exact C12_no_ack_is_error arr c.min size h1 (by rw [hperm.length_eq, hn]; exact h2) hno

/-! ## Fetch -/

/-- **a blob remains fetchable as long as at least one (reachable) read replica holds it** – whatever
the other read replicas do (down, or not holding it), and wherever in the list the holder is -/
theorem C12_fetch_any_holder (reads : List Sub) (k : Bytes) :
    (∃ sz tried, fetch reads k = .ok sz tried) ↔ ∃ s ∈ reads, s.down = false ∧ s.store.has k = true :=
  fetchLoop_ok_iff k reads none none 0

/-- what is handed out is what a reachable read replica holds; with a non-empty read list (guaranteed by
the constructor) a miss is an error, never `(nil, 0, nil)` -/
theorem C12_fetch_result_sound (reads : List Sub) (k : Bytes) :
    (∀ sz tried, fetch reads k = .ok sz tried → ∃ s ∈ reads, s.down = false ∧ s.store.get? k = some sz) ∧
    (reads ≠ [] → fetch reads k ≠ .nilNil) :=
  ⟨fun sz tried h => fetchLoop_ok_size k reads none none 0 sz tried h,
   fun h => fetchLoop_ne_nilNil k reads none none 0 (Or.inl h)⟩

example : fetch [⟨[([9], 3)], true⟩, ⟨[], false⟩, ⟨[([9], 3)], false⟩] [9] = .ok 3 3 := by decide

/-- **a miss is "not exist" only if every read replica answered "not exist"; if some read replica
failed and none served the blob, the answer is that failure** (the guarantee of fix b37d745, F-C12-2):
a replica that is down might hold the blob, so the caller is not told that the blob is missing -/
theorem C12_fetch_miss_classified (reads : List Sub) (k : Bytes) :
    (∀ tried, fetch reads k = .err .notExist tried → ∀ s ∈ reads, s.fetch k = .error .notExist) ∧
    ((∃ s ∈ reads, s.down = true) → (¬ ∃ s ∈ reads, s.down = false ∧ s.store.has k = true) →
      ∃ tried, fetch reads k = .err .down tried) := by
  constructor
  · intro tried h
    exact (fetchLoop_notExist k reads none none 0 tried (by simp) h).2
  · intro hd hno
    exact fetchLoop_down k reads none none 0 (fun s hs h => hno ⟨s, hs, h⟩) (Or.inr ⟨rfl, hd⟩)

example : fetch [⟨[([9], 3)], true⟩, ⟨[], false⟩] [9] = .err .down 2 := by decide
example : fetch [⟨[], false⟩, ⟨[([8], 1)], false⟩] [9] = .err .notExist 2 := by decide

/-- the old `Fetch` returned the LAST error: a down replica holding the blob followed by a healthy one
without it made the blob look missing -/
theorem C12_fetch_old_miss_counterexample :
    fetchOld [⟨[([9], 3)], true⟩, ⟨[], false⟩] [9] = .err .notExist 2 ∧
    fetch [⟨[([9], 3)], true⟩, ⟨[], false⟩] [9] = .err .down 2 := by decide

/-! ## StatBlobs -/

/-- **stat reports each present blob exactly once**, for ANY overlap of the read replicas' contents
and ANY order in which the replicas' reports are delivered (`reports` is any permutation of what the
reachable replicas report – every interleaving of the concurrent callbacks is one): no key twice,
and a key is reported iff it was asked for and some reachable read replica holds it -/
theorem C12_stat_exactly_once (reads : List Sub) (blobs : List Bytes) (reports : List SR)
    (hperm : reports.Perm (seqReports reads blobs)) :
    (keys (statBlobs reads blobs reports).1).Nodup ∧
    ∀ k, k ∈ keys (statBlobs reads blobs reports).1 ↔
      k ∈ blobs ∧ ∃ s ∈ reads, s.down = false ∧ s.store.has k = true := by
  obtain ⟨h1, h2⟩ := statFold_spec reports blobs
  refine ⟨h1, ?_⟩
  intro k
  simp only [statBlobs]
  rw [h2 k, ← mem_keys_seqReports reads blobs k]
  have : k ∈ keys reports ↔ k ∈ keys (seqReports reads blobs) := (hperm.map _).mem_iff
  rw [this]
  constructor
  · rintro ⟨_, h⟩; exact h
  · intro h; exact ⟨((mem_keys_seqReports reads blobs k).mp h).1, h⟩

example : (statBlobs [⟨[([1], 4), ([2], 5)], false⟩, ⟨[([2], 5), ([3], 6)], false⟩] [[2], [3], [2], [7]]
    [([2], 5), ([3], 6), ([2], 5), ([2], 5), ([2], 5)]).1 = [([2], 5), ([3], 6)] := by decide

/-- when the replicas disagree about a blob's size (one of them holds a truncated copy) the size
reported is the one of SOME reachable read replica – which one depends on the delivery order (first
reporter wins); the key is still reported exactly once (`C12_stat_exactly_once`) -/
theorem C12_stat_entry_held (reads : List Sub) (blobs : List Bytes) (reports : List SR)
    (hperm : reports.Perm (seqReports reads blobs)) (e : SR) (he : e ∈ (statBlobs reads blobs reports).1) :
    ∃ s ∈ reads, s.down = false ∧ s.store.get? e.1 = some e.2 := by
  have h1 : e ∈ seqReports reads blobs := hperm.mem_iff.mp (statFold_subset reports blobs e he)
  simp only [seqReports, List.mem_flatMap, List.mem_filter] at h1
  obtain ⟨s, ⟨hs, hup⟩, hmem⟩ := h1
  exact ⟨s, hs, by simpa using hup, mem_statReports s blobs e hmem⟩

example : (statBlobs [⟨[([2], 4)], false⟩, ⟨[([2], 5)], false⟩] [[2]] [([2], 5), ([2], 4)]).1 = [([2], 5)] ∧
    (statBlobs [⟨[([2], 4)], false⟩, ⟨[([2], 5)], false⟩] [[2]] [([2], 4), ([2], 5)]).1 = [([2], 4)] := by decide

/-- non-vacuity: an interleaving of two replicas' reports is a permutation of their concatenation -/
example : [(([2] : Bytes), 5), ([2], 5), ([1], 4), ([3], 6)].Perm
    (seqReports [⟨[([1], 4), ([2], 5)], false⟩, ⟨[([2], 5), ([3], 6)], false⟩, ⟨[([9], 1)], true⟩] [[1], [2], [3], [9]]) := by
  decide

/-! ## EnumerateBlobs -/

/-- all sub-stores ascending (an invariant: `C12_store_ops_keep_ascending`) -/
def StoresAsc (reads : List Sub) : Prop := AllAsc (reads.map Sub.store)

instance (reads : List Sub) : Decidable (StoresAsc reads) := by unfold StoresAsc; infer_instance

/-- **enumerate reports each present blob exactly once**: for ANY number of read replicas with ANY
overlap of contents, what is sent is the ascending duplicate-free union of their keys after the cursor,
cut at `limit` -/
theorem C12_enumerate_exactly_once (reads : List Sub) (h : StoresAsc reads) (after : Option Bytes) (limit : Nat) :
    keys (enumerateBlobs reads after limit) =
      ((unionKeys (reads.map Sub.store)).filter (afterOk after)).take limit ∧
    (keys (enumerateBlobs reads after limit)).Nodup ∧
    Asc ltB (keys (enumerateBlobs reads after limit)) := by
  have e := mergedEnumerateStorage_keys (reads.map Sub.store) h after limit
  have hpw : (((unionKeys (reads.map Sub.store)).filter (afterOk after)).take limit).Pairwise
      (fun a b => ltB a b = true) :=
    List.Pairwise.sublist (List.take_sublist _ _) (List.Pairwise.filter _ (unionKeys_pw _))
  refine ⟨e, ?_, ?_⟩
  · rw [enumerateBlobs, e]
    apply List.Pairwise.imp _ hpw
    intro a b hab he; subst he; rw [ltB_irrefl] at hab; cases hab
  · rw [enumerateBlobs, e, asc_iff_pairwise ltB stB]; exact hpw

/-- membership form (limit not cutting): a key is enumerated iff some read replica holds it (after the cursor) -/
theorem C12_enumerate_mem (reads : List Sub) (h : StoresAsc reads) (after : Option Bytes) (limit : Nat)
    (hl : (unionKeys (reads.map Sub.store)).length ≤ limit) (k : Bytes) :
    k ∈ keys (enumerateBlobs reads after limit) ↔
      afterOk after k = true ∧ ∃ s ∈ reads, s.store.has k = true := by
  rw [(C12_enumerate_exactly_once reads h after limit).1]
  have hlen : ((unionKeys (reads.map Sub.store)).filter (afterOk after)).length ≤ limit :=
    Nat.le_trans (List.length_filter_le _ _) hl
  rw [List.take_of_length_le hlen, List.mem_filter, mem_unionKeys]
  constructor
  · rintro ⟨⟨st, hst, hk⟩, ha⟩
    obtain ⟨s, hs, rfl⟩ := List.mem_map.mp hst
    exact ⟨ha, s, hs, (get?_isSome_iff _ _).mpr hk⟩
  · rintro ⟨ha, s, hs, hk⟩
    exact ⟨⟨s.store, List.mem_map.mpr ⟨s, hs, rfl⟩, (get?_isSome_iff _ _).mp hk⟩, ha⟩

example : StoresAsc [⟨[([1], 4), ([2], 5)], false⟩, ⟨[([2], 5), ([3], 6)], false⟩, ⟨[([1], 4), ([3], 6), ([4], 1)], false⟩] := by
  decide
example : enumerateBlobs [⟨[([1], 4), ([2], 5)], false⟩, ⟨[([2], 5), ([3], 6)], false⟩,
    ⟨[([1], 4), ([3], 6), ([4], 1)], false⟩] (some [1]) 2 = [([2], 5), ([3], 6)] := by decide

/-- two read replicas holding the same ref with different sizes (a truncated copy): the ref is still
enumerated once, with the entry of the first source that has it (`merged_first_source`) -/
example : enumerateBlobs [⟨[([1], 4), ([2], 3)], false⟩, ⟨[([2], 5), ([3], 6)], false⟩] none 10
    = [([1], 4), ([2], 3), ([3], 6)] := by decide

/-- every entry enumerated is the entry of the first read replica (in read order) that holds its ref -/
theorem C12_enumerate_first_source (reads : List Sub) (h : StoresAsc reads) (limit : Nat) (e : SR)
    (he : e ∈ enumerateBlobs reads none limit) :
    ∃ pre s post, reads.map Sub.store = pre ++ s :: post ∧ e ∈ s ∧ ∀ t ∈ pre, e.1 ∉ keys t := by
  have e1 : enumerateBlobs reads none limit = mergedEnumerate limit (reads.map Sub.store) := by
    unfold enumerateBlobs mergedEnumerateStorage
    have : (reads.map Sub.store).map (fun c => sourceEnum c none limit) =
        (reads.map Sub.store).map (·.take limit) := by simp [sourceEnum]
    rw [this, merged_take_limit limit _ h]
  rw [e1] at he
  exact merged_first_source limit _ h e he

/-- receiving and removing keep every sub-store strictly ascending (so the hypothesis of
`C12_enumerate_exactly_once` holds in every reachable world) -/
theorem C12_store_ops_keep_ascending (s : Store) (h : Asc ltB (keys s)) (e : SR) (ks : List Bytes) :
    Asc ltB (keys (Store.insert e s)) ∧ Asc ltB (keys (Store.remove ks s)) :=
  ⟨(ascK_iff_pw _).mpr (insert_pw e s ((ascK_iff_pw _).mp h)),
   (ascK_iff_pw _).mpr (remove_pw ks s ((ascK_iff_pw _).mp h))⟩

/-! ## RemoveBlobs -/

/-- `RemoveBlobs` is best effort: it reports success iff at least one write replica succeeded -/
theorem C12_remove_ok_iff (subs : List Sub) (writes : List Nat) (ks : List Bytes) :
    (removeBlobs subs writes ks).2 = true ↔ ∃ i ∈ writes, (subs.getD i ⟨[], false⟩).down = false := by
  simp [removeBlobs, List.any_eq_true]

end Pk.Replica
