import PkVerif.Lemmas.Pack
import PkVerif.Lemmas.FilesStore
import PkVerif.Gen.C03
/-!
# C03 – disk stores survive a crash at any instant without losing or tearing blobs

Property theorems only.  `Pk.Pack.*` models pkg/blobserver/diskpacked, `Pk.FilesStore.*` models
pkg/blobserver/files over a VFS with a durable and a volatile layer.  The orders of the lower-layer
calls (`Pk.Gen.dpAppendEffects`, `dpDeleteEffects`, `dpRemoveEffects`, `filesReceiveEffects`) are
regenerated from /repo on every run; the theorems are stated for every effect order satisfying a
decidable predicate, which the `C03_gen_*` theorems discharge on the generated lists by `decide`.

`walk … true` is the walker of the repaired reindex.go (a record whose body extends beyond the end of
the file is not reported); `walk … false` is the code before the repair (finding F-C03-1).
-/
namespace Pk.Pack

/-! ## pack format: the walker inverts the encoder -/

/-- decimal round trip of the size field (`%v` then `strconv.ParseUint(…, 10, 32)`) -/
theorem C03_decimal_roundtrip (n : Nat) (h : n < 4294967296) : parseUint32 (decEnc n) = some n :=
  parseUint32_decEnc n h

/-- **walkPack ∘ encode = identity**: on the concatenation of any list of well-formed records (live
or of the deleted form) the walker reports exactly these records, with their body offsets and
sizes, and no error – for the repaired and for the original walker. -/
theorem C03_walk_encode (okRef : Bytes → Bool) (cf : Bool) (rs : List Rec)
    (h : ∀ r ∈ rs, recOK okRef r = true) :
    walkPack okRef cf (encodePack rs) = (entriesOf rs 0, none) := by
  unfold walkPack
  have := walk_encodePack okRef cf rs ((encodePack rs).length + 1) 0 [] h
    (by have := encodePack_length_ge rs; omega)
  simp only [List.append_nil] at this
  rw [this, walk_nil]
  simp

end Pk.Pack
