import PkVerif.Lemmas.Pack
import PkVerif.Lemmas.FilesStore
import PkVerif.Gen.C03
/-!
# C03 – disk stores survive a crash at any instant without losing or tearing blobs

Property theorems only.  `Pk.Pack.*` models pkg/blobserver/diskpacked, `Pk.FilesStore.*` models
pkg/blobserver/files over a VFS with a durable and a volatile layer.  The orders of the lower-layer
calls (`Pk.Gen.dpAppendEffects`, `dpDeleteEffects`, `dpRemoveEffects`, `filesReceiveEffects`) are
regenerated from /repo on every run; the theorems are stated for every effect order satisfying a
decidable predicate, which the `C03_gen_*` theorems discharge on the generated lists by `decide`.

`walk … true` is the walker of the repaired reindex.go (a record whose body extends beyond the end of
the file is not reported); `walk … false` is the code before the repair (finding F-C03-1).
-/
namespace Pk.Pack

/-! ## pack format: the walker inverts the encoder -/

/-- decimal round trip of the size field (`%v` then `strconv.ParseUint(…, 10, 32)`) -/
theorem C03_decimal_roundtrip (n : Nat) (h : n < 4294967296) : parseUint32 (decEnc n) = some n :=
  parseUint32_decEnc n h

/-- **walkPack ∘ encode = identity**: on the concatenation of any list of well-formed records (live
or of the deleted form) the walker reports exactly these records, with their body offsets and
sizes, and no error – for the repaired and for the original walker. -/
theorem C03_walk_encode (okRef : Bytes → Bool) (cf : Bool) (rs : List Rec)
    (h : ∀ r ∈ rs, recOK okRef r = true) :
    walkPack okRef cf (encodePack rs) = (entriesOf rs 0, none) := by
  unfold walkPack
  have := walk_encodePack okRef cf rs ((encodePack rs).length + 1) 0 [] h
    (by have := encodePack_length_ge rs; omega)
  simp only [List.append_nil] at this
  rw [this, walk_nil]
  simp

example : recOK (fun _ => true) ⟨[98, 45, 99], [1, 2, 3]⟩ = true ∧
    recOK (fun _ => false) ⟨[120, 120, 45, 48], [0]⟩ = true := by decide

/-! ## reindex after a crash inside an append -/

/-- **a torn header is ignored**: a pack of complete records followed by a strict prefix of the next
record's header walks like the pack without it (old and repaired walker alike) -/
theorem C03_reindex_torn_header (okRef : Bytes → Bool) (cf : Bool) (rs : List Rec) (r : Rec) (k : Nat)
    (h : ∀ x ∈ rs, recOK okRef x = true) (hr : recOK okRef r = true)
    (hk : k < (encodeHeader r.ref r.body.length).length) :
    walkPack okRef cf (encodePack rs ++ (encodeRecord r).take k) = (entriesOf rs 0, none) := by
  unfold walkPack
  have hk' : k < (encodeRecord r).length := by simp [encodeRecord]; omega
  rw [walk_encodePack okRef cf rs _ 0 _ h (by have := encodePack_length_ge rs; simp; omega),
    walk_torn okRef cf _ _ r k hr hk' (Or.inr hk)]
  simp

/-- **a torn record is ignored** (repaired walker, finding F-C03-1 fixed): for EVERY strict prefix of the
bytes an append adds – torn header or torn body – the rebuilt index is that of the pack before the
append: no partial blob is listed -/
theorem C03_reindex_torn_body (okRef : Bytes → Bool) (rs : List Rec) (r : Rec) (k : Nat)
    (h : ∀ x ∈ rs, recOK okRef x = true) (hr : recOK okRef r = true) (hk : k < (encodeRecord r).length) :
    walkPack okRef true (encodePack rs ++ (encodeRecord r).take k) = (entriesOf rs 0, none) := by
  unfold walkPack
  rw [walk_encodePack okRef true rs _ 0 _ h (by have := encodePack_length_ge rs; simp; omega),
    walk_torn okRef true _ _ r k hr hk (Or.inl rfl)]
  simp

example : (3 : Nat) < (encodeRecord ⟨[98, 45, 99], [1, 2, 3]⟩).length := by decide

/-- the walker before the repair reported a record with a torn body, with its full size (this is what
made Reindex list a partial blob and Fetch serve a short body): header complete, 1 of 3 body bytes -/
theorem C03_reindex_torn_body_counterexample :
    walkPack (fun _ => true) false ((encodeRecord ⟨[98, 45, 99], [1, 2, 3]⟩).take 8) =
      ([⟨some [98, 45, 99], 7, 3⟩], none) ∧
    extent ((encodeRecord ⟨[98, 45, 99], [1, 2, 3]⟩).take 8) 7 3 = [1] := by decide

/-- the completed append: the walker reports the new record after the old ones -/
theorem C03_reindex_complete_append (okRef : Bytes → Bool) (cf : Bool) (rs : List Rec) (r : Rec)
    (h : ∀ x ∈ rs, recOK okRef x = true) (hr : recOK okRef r = true) :
    walkPack okRef cf (encodePack rs ++ encodeRecord r) =
      (entriesOf rs 0 ++ [entryOf r (encodePack rs).length], none) := by
  have e : encodePack rs ++ encodeRecord r = encodePack (rs ++ [r]) := by
    rw [encodePack_append]; simp [encodePack]
  rw [e, C03_walk_encode okRef cf (rs ++ [r]) (by
    intro x hx
    rcases List.mem_append.mp hx with hx | hx
    · exact h x hx
    · simp at hx; subst hx; exact hr)]
  rw [entriesOf_append]
  simp [entriesOf]

/-- **append after a clean tail** keeps the pack parseable (this is the part of "reopen and go on" that
holds: `openForWrite` seeks to the end, so the next record starts where the last complete one ended) -/
theorem C03_append_after_torn_tail_partial (okRef : Bytes → Bool) (cf : Bool) (rs : List Rec) (r : Rec)
    (h : ∀ x ∈ rs, recOK okRef x = true) (hr : recOK okRef r = true) :
    (walkPack okRef cf (encodePack rs ++ encodeRecord r)).2 = none := by
  rw [C03_reindex_complete_append okRef cf rs r h hr]

/-- finding F-C03-2: a torn tail (`[b-c`, 4 bytes of a header) is not truncated at reopen; the next
append lands behind it and the walker – hence Reindex – fails on the pack: the acknowledged blob
`d-e` cannot be rebuilt from the pack files (`blob.Parse` is represented by "contains no `[`") -/
theorem C03_append_after_torn_tail_counterexample :
    walkPack (fun r => !r.contains 91) true ((encodeRecord ⟨[98, 45, 99], [1, 2, 3]⟩).take 4 ++ encodeRecord ⟨[100, 45, 101], [7]⟩) =
      ([], some .badRef) ∧
    reindexFrom (fun r => !r.contains 91) true 0
      [(encodeRecord ⟨[98, 45, 99], [1, 2, 3]⟩).take 4 ++ encodeRecord ⟨[100, 45, 101], [7]⟩] [] = ([], false) := by
  decide

/-- **Reindex rebuilds exactly the complete live records**, whatever strict prefix of a further record
a crash left at the end of the pack: the run succeeds; every row of the rebuilt index names a live
complete record of the pack and its extent holds that record's complete body (nothing partial is
presented); every live complete record has a row -/
theorem C03_reindex_exact (okRef : Bytes → Bool) (rs : List Rec) (r : Rec) (k i : Nat)
    (h : ∀ x ∈ rs, recOK okRef x = true) (hr : recOK okRef r = true) (hk : k < (encodeRecord r).length) :
    (reindexFrom okRef true i [encodePack rs ++ (encodeRecord r).take k] []).2 = true ∧
    (∀ ref m, (reindexFrom okRef true i [encodePack rs ++ (encodeRecord r).take k] []).1.get ref = some m →
      m.file = i ∧ ∃ x ∈ rs, x.ref = ref ∧ isDeletedRef x.ref = false ∧ m.size = x.body.length ∧
        extent (encodePack rs ++ (encodeRecord r).take k) m.offset m.size = x.body) ∧
    (∀ x ∈ rs, isDeletedRef x.ref = false →
      ((reindexFrom okRef true i [encodePack rs ++ (encodeRecord r).take k] []).1.get x.ref).isSome) := by
  have hw := C03_reindex_torn_body okRef rs r k h hr hk
  simp only [reindexFrom, hw]
  refine ⟨trivial, ?_, ?_⟩
  · intro ref m hm
    rcases setEntries_get [] i _ ref m hm with ⟨e, he, href, hmeq⟩ | hnil
    · obtain ⟨pre, x, post, hrs, hee⟩ := mem_entriesOf rs 0 e he
      subst hmeq
      refine ⟨rfl, x, by simp [hrs], ?_⟩
      have hx : e.ref = if isDeletedRef x.ref then none else some x.ref := by rw [hee]; rfl
      by_cases hd : isDeletedRef x.ref = true
      · rw [hx, if_pos hd] at href; cases href
      · rw [hx, if_neg hd] at href
        injection href with href
        refine ⟨href, by simpa using hd, by rw [hee]; rfl, ?_⟩
        have := extent_entryOf pre x post ((encodeRecord r).take k)
        rw [← hrs] at this
        rw [hee]; exact this
    · simp [Index.get] at hnil
  · intro x hx hd
    obtain ⟨pre, post, hrs⟩ := List.append_of_mem hx
    have hmem := entryOf_mem_entriesOf pre x post 0
    rw [← hrs] at hmem
    exact setEntries_get_live [] i _ _ x.ref hmem (by simp [entryOf, hd])

/-- **StreamBlobs never presents a partial blob**: over complete records followed by any strict prefix of
a further record (torn header or torn body) the streamer sends exactly the complete live records,
each with its complete body, and nothing for the torn one -/
theorem C03_stream_no_partial (okRefB : Bytes → Bool) (rs : List Rec) (r : Rec) (k : Nat)
    (h : ∀ x ∈ rs, recOKS okRefB x = true) (hr : recOKS okRefB r = true) (hk : k < (encodeRecord r).length) :
    (streamPacks okRefB [encodePack rs ++ (encodeRecord r).take k]).1 = liveOf rs := by
  have hF : rs.length ≤ (encodePack rs ++ (encodeRecord r).take k).length + 1 := by
    have := encodePack_length_ge rs; simp; omega
  have h1 := streamPack_encodePack okRefB rs _ ((encodeRecord r).take k) h hF
  have h2 := streamPack_torn okRefB ((encodePack rs ++ (encodeRecord r).take k).length + 1 - rs.length) r k hr hk
  simp only [streamPacks]
  rw [h1, h2]
  split <;> simp_all

example : recOKS (fun _ => true) ⟨[98, 45, 99], [1, 2, 3]⟩ = true ∧
    liveOf [⟨[98, 45, 99], [1, 2, 3]⟩, ⟨[120, 45, 48], [0]⟩] = [([98, 45, 99], [1, 2, 3])] := by decide

/-! ## with the index intact: crash states of an append -/

/-- obligation on the regenerated order of `(*storage).append`: header, then body, then `Sync`, and only
then (after the roll-over, if any) `index.Set`; nothing is written afterwards (the rollback
`Seek`/`Truncate` on an index error only removes bytes) -/
theorem C03_gen_append_effects : appSafe 0 false (Gen.dpAppendEffects.map (·.e)) = true := by decide

/-- for EVERY effect order satisfying `appSafe`: at every crash prefix, if the index row has been written
then header and body have been written AND synced in full; and never more than header + body is
written -/
theorem C03_append_row_only_after_sync (effs : List Eff) (h : appSafe 0 false effs = true)
    (hl bl k : Nat) :
    ((appRun hl bl (effs.take k)).row = true →
      (appRun hl bl (effs.take k)).synced = hl + bl ∧ (appRun hl bl (effs.take k)).written = hl + bl) ∧
    (appRun hl bl (effs.take k)).written ≤ hl + bl := by
  have hr : AppRel hl bl 0 false ⟨0, 0, false, false⟩ := by simp [AppRel]
  exact ⟨appSafe_prefix hl bl effs 0 false _ h hr k, appSafe_written_le hl bl effs 0 false _ h hr k⟩

example : (appRun 7 3 ((Gen.dpAppendEffects.map (·.e)).take 3)) = ⟨10, 0, false, false⟩ ∧
    (appRun 7 3 (Gen.dpAppendEffects.map (·.e))) = ⟨10, 10, true, true⟩ := by decide

/-- in a store whose rows lie within their packs every fetch returns exactly `size` bytes: no reader of
the index sees a short blob -/
theorem C03_fetch_full_size (st : Store) (hb : InBounds st) (r : Bytes) (n : Nat) (b : Bytes)
    (h : st.fetch r = .ok n b) : b.length = n := by
  unfold Store.fetch at h
  cases hm : st.index.get r with
  | none => simp [hm] at h
  | some m =>
    obtain ⟨p, hp, hle⟩ := hb r m hm
    simp only [hm, hp] at h
    injection h with h1 h2
    subst h1 h2
    exact extent_length_eq p _ _ hle

/-- **crash before the row is written**: whatever prefix of the added bytes reached the pack (torn header,
torn body, everything) and whether or not the next pack file was created, every reader of the index
sees exactly what it saw before the append; the store stays in bounds -/
theorem C03_index_intact_crash_safe (st : Store) (hne : st.packs ≠ []) (hb : InBounds st)
    (ref body : Bytes) (keep : Nat) (np : Bool) :
    (st.crashAppend ref body keep np false).index = st.index ∧
    (∀ r, (st.crashAppend ref body keep np false).fetch r = st.fetch r) ∧
    (∀ r, (st.crashAppend ref body keep np false).stat r = st.stat r) ∧
    InBounds (st.crashAppend ref body keep np false) := by
  have hidx : (st.crashAppend ref body keep np false).index = st.index := by simp [Store.crashAppend]
  have hg := crashAppend_grows st hne ref body keep np false
  refine ⟨hidx, fun r => fetch_of_grows st _ r (by rw [hidx]) hg (hb r), fun r => by simp [Store.stat, hidx],
    inBounds_of_grows st _ hidx hg hb⟩

/-- the row-written state, needing only the OTHER rows to lie within their packs -/
theorem C03_index_row_written_gen (st : Store) (hne : st.packs ≠ [])
    (hb : ∀ r m, r ≠ ref → st.index.get r = some m → ∃ p, st.packs[m.file]? = some p ∧ m.offset + m.size ≤ p.length)
    (body : Bytes) (keep : Nat) (np : Bool) (hk : (appendBytes ref body).length ≤ keep) :
    (st.crashAppend ref body keep np true).fetch ref = .ok body.length body ∧
    (∀ r, r ≠ ref → (st.crashAppend ref body keep np true).fetch r = st.fetch r) ∧
    InBounds (st.crashAppend ref body keep np true) := by
  obtain ⟨init, last, hp⟩ := exists_concat st.packs hne
  have hpk := crashAppend_packs st init last hp ref body keep np true
  have hidx : (st.crashAppend ref body keep np true).index =
      st.index.set ref ⟨init.length, last.length + (encodeHeader ref body.length).length, body.length⟩ := by
    simp [Store.crashAppend, hp]
  have htake : (appendBytes ref body).take keep = encodeHeader ref body.length ++ body := by
    rw [List.take_of_length_le hk]; rfl
  have hnew : (st.crashAppend ref body keep np true).packs[init.length]? =
      some (last ++ (encodeHeader ref body.length ++ body)) := by
    rw [hpk, htake, List.append_assoc, List.getElem?_append_right (Nat.le_refl _)]
    simp
  have hg := crashAppend_grows st hne ref body keep np true
  refine ⟨?_, ?_, ?_⟩
  · unfold Store.fetch
    rw [hidx, Index.get_set_same]
    simp only [hnew]
    have := extent_exact (last ++ encodeHeader ref body.length) body []
    simp only [List.append_nil, List.length_append, List.append_assoc] at this
    rw [this]
  · intro r hr
    exact fetch_of_grows st _ r (by rw [hidx, Index.get_set_other _ _ _ _ hr]) hg (fun m hm => hb r m hr hm)
  · intro k m hm
    rw [hidx] at hm
    by_cases hkr : k = ref
    · subst hkr
      rw [Index.get_set_same] at hm
      injection hm with hm; subst hm
      exact ⟨_, hnew, by simp; omega⟩
    · rw [Index.get_set_other _ _ _ _ hkr] at hm
      obtain ⟨p, hp', hle⟩ := hb k m hkr hm
      obtain ⟨x, hx⟩ := hg _ _ hp'
      exact ⟨p ++ x, hx, by simp; omega⟩

/-- **crash after the row is written** (so, by the effect order, all added bytes are on disk): the new blob
is served complete, every other blob as before; the store stays in bounds -/
theorem C03_index_row_written (st : Store) (hne : st.packs ≠ []) (hb : InBounds st)
    (ref body : Bytes) (keep : Nat) (np : Bool) (hk : (appendBytes ref body).length ≤ keep) :
    (st.crashAppend ref body keep np true).fetch ref = .ok body.length body ∧
    (∀ r, r ≠ ref → (st.crashAppend ref body keep np true).fetch r = st.fetch r) ∧
    InBounds (st.crashAppend ref body keep np true) :=
  C03_index_row_written_gen st hne (fun r m _ hm => hb r m hm) body keep np hk

/-- **the client's retry after "index row written, data not (all) there"** (the mechanism of
diskpacked.go:655-661: a duplicate is skipped only if its indexed extent lies within the pack file):
whatever strict prefix of the added bytes is in the pack – cut inside the header, at its end, anywhere
inside the body – if the blob is received again FIRST after the restart, it is appended again and
from then on served complete; every other blob is served as before the crashed receive; all rows lie
within their packs again -/
theorem C03_retry_after_row_without_data (st : Store) (hne : st.packs ≠ []) (hb : InBounds st)
    (ref body : Bytes) (keep : Nat) (np : Bool) (hk : keep < (appendBytes ref body).length) :
    ((st.crashAppend ref body keep np true).receive ref body).fetch ref = .ok body.length body ∧
    (∀ r, r ≠ ref → ((st.crashAppend ref body keep np true).receive ref body).fetch r = st.fetch r) ∧
    InBounds ((st.crashAppend ref body keep np true).receive ref body) := by
  obtain ⟨init, last, hp⟩ := exists_concat st.packs hne
  have hpk := crashAppend_packs st init last hp ref body keep np true
  have hidx : (st.crashAppend ref body keep np true).index =
      st.index.set ref ⟨init.length, last.length + (encodeHeader ref body.length).length, body.length⟩ := by
    simp [Store.crashAppend, hp]
  have hg := crashAppend_grows st hne ref body keep np true
  have hpack : (st.crashAppend ref body keep np true).packs[init.length]? =
      some (last ++ (appendBytes ref body).take keep) := by
    rw [hpk, List.append_assoc, List.getElem?_append_right (Nat.le_refl _)]
    simp
  -- the duplicate check sees an extent beyond the end of the file: append again
  have hrecv : (st.crashAppend ref body keep np true).receive ref body =
      (st.crashAppend ref body keep np true).append ref body := by
    unfold Store.receive
    rw [hidx, Index.get_set_same]
    simp only [← hidx, hpack]
    have hlen : ¬ (last.length + (encodeHeader ref body.length).length + body.length ≤
        last.length + min keep (appendBytes ref body).length) := by
      simp only [appendBytes, List.length_append] at hk ⊢
      omega
    simp [hlen]
  have hne' : (st.crashAppend ref body keep np true).packs ≠ [] := by rw [hpk]; simp
  have hb' : ∀ r m, r ≠ ref → (st.crashAppend ref body keep np true).index.get r = some m →
      ∃ p, (st.crashAppend ref body keep np true).packs[m.file]? = some p ∧ m.offset + m.size ≤ p.length := by
    intro r m hr hm
    rw [hidx, Index.get_set_other _ _ _ _ hr] at hm
    obtain ⟨p, hp', hle⟩ := hb r m hm
    obtain ⟨x, hx⟩ := hg _ _ hp'
    exact ⟨p ++ x, hx, by simp; omega⟩
  rw [hrecv, append_eq_crashAppend]
  obtain ⟨h1, h2, h3⟩ := C03_index_row_written_gen (ref := ref) _ hne' hb' body _ _ (Nat.le_refl _)
  refine ⟨h1, ?_, h3⟩
  intro r hr
  rw [h2 r hr]
  exact fetch_of_grows st _ r (by rw [hidx, Index.get_set_other _ _ _ _ hr]) hg (hb r)

/-- finding F-C03-6: the same state, but another blob (`d-e`) is appended before the retry: the stale
extent of `b-c` lies inside the file again, the size-only duplicate check skips the retry – it is
acknowledged without being stored – and Fetch serves the torn byte glued to the other record -/
theorem C03_retry_after_refill_counterexample :
    let st := ((Store.init 0).crashAppend [98, 45, 99] [1, 2, 3] 8 false true).receive [100, 45, 101] [7, 7, 7]
    (st.receive [98, 45, 99] [1, 2, 3]) = st ∧
    st.fetch [98, 45, 99] = .ok 3 [1, 91, 100] := by decide

/-- **every crash instant of an append**, for every effect order satisfying `appSafe` (in particular the
regenerated one): take any prefix of the effects, any number `j` of added bytes between what is
synced and what is written; in the resulting on-disk state every other blob is served as before, the
new blob is either served exactly as before the append (absent, for a new blob) or complete – and it
is complete whenever the row is there; nothing is ever served short -/
theorem C03_append_crash_states (effs : List Eff) (h : appSafe 0 false effs = true)
    (st : Store) (hne : st.packs ≠ []) (hb : InBounds st) (ref body : Bytes) (k j : Nat) (np : Bool)
    (hj1 : (appRun (encodeHeader ref body.length).length body.length (effs.take k)).synced ≤ j)
    (_hj2 : j ≤ (appRun (encodeHeader ref body.length).length body.length (effs.take k)).written) :
    let row := (appRun (encodeHeader ref body.length).length body.length (effs.take k)).row
    let st' := st.crashAppend ref body j np row
    (∀ r, r ≠ ref → st'.fetch r = st.fetch r) ∧
    (st'.fetch ref = st.fetch ref ∨ st'.fetch ref = .ok body.length body) ∧
    (row = true → st'.fetch ref = .ok body.length body) ∧
    InBounds st' ∧ (∀ r n b, st'.fetch r = .ok n b → b.length = n) := by
  intro row st'
  obtain ⟨hrow, _⟩ := C03_append_row_only_after_sync effs h (encodeHeader ref body.length).length body.length k
  cases hr : row with
  | false =>
    have e : st' = st.crashAppend ref body j np false := by simp [st', hr]
    obtain ⟨_, h2, _, h4⟩ := C03_index_intact_crash_safe st hne hb ref body j np
    rw [e]
    exact ⟨fun r _ => h2 r, Or.inl (h2 ref), fun hc => (by cases hc), h4, fun r n b hf => C03_fetch_full_size _ h4 r n b hf⟩
  | true =>
    have e : st' = st.crashAppend ref body j np true := by simp [st', hr]
    have hs := (hrow hr).1
    have hk : (appendBytes ref body).length ≤ j := by
      simp only [appendBytes, List.length_append]; omega
    obtain ⟨h1, h2, h3⟩ := C03_index_row_written st hne hb ref body j np hk
    rw [e]
    exact ⟨h2, Or.inr h1, fun _ => h1, h3, fun r n b hf => C03_fetch_full_size _ h3 r n b hf⟩

/-- the hypotheses of the crash-state theorems hold of the empty store (and, by
`C03_append_preserves_inBounds`, of everything reached from it by appends) -/
example : InBounds (Store.init 0) ∧ (Store.init 0).packs ≠ [] := by
  refine ⟨?_, by decide⟩
  intro r m h; simp [Store.init, Index.get] at h

/-- the completed append is one of these states, so `InBounds` is an invariant of receive histories -/
theorem C03_append_preserves_inBounds (st : Store) (hne : st.packs ≠ []) (hb : InBounds st) (ref body : Bytes) :
    InBounds (st.append ref body) ∧ (st.append ref body).fetch ref = .ok body.length body ∧
    (st.append ref body).packs ≠ [] := by
  rw [append_eq_crashAppend]
  obtain ⟨h1, _, h3⟩ := C03_index_row_written st hne hb ref body _ _ (Nat.le_refl _)
  refine ⟨h3, h1, ?_⟩
  obtain ⟨init, last, hp⟩ := exists_concat st.packs hne
  rw [crashAppend_packs st init last hp]
  simp

/-! ## crash inside a removal -/

/-- obligations on the regenerated orders of `(*storage).delete` and `RemoveBlobs`: nothing in them is
synced (so, in the crash model of the property, every subset of {header rewritten, body zeroed, row
deleted} can be what is on disk), and even in program order the pack rewrite (`s.delete`) comes
before the commit of the row deletions – the state "bytes zeroed, row still there" is a plain
prefix of the removal -/
theorem C03_gen_delete_effects :
    (Gen.dpDeleteEffects.map (·.e)).contains .sync = false ∧
    (Gen.dpRemoveEffects.map (·.e)).contains .sync = false ∧
    Gen.dpDeleteEffects.map (·.e) = [.writeAt, .punchHole, .seek, .copy] ∧
    Gen.dpRemoveEffects.map (·.e) = [.indexDelete, .writeAt, .commit] := by decide

/-- the pack file after the part of `delete` given by (`hdr`, `bodyZ`), for a record in the middle of it -/
theorem C03_delete_pack_states (st : Store) (pre post name dg body : Bytes) (f : Nat)
    (h1 : 45 ∉ name) (h2 : 32 ∉ dg)
    (hpack : st.packs[f]? = some (pre ++ encodeHeader (name ++ 45 :: dg) body.length ++ (body ++ post)))
    (hrow : st.index.get (name ++ 45 :: dg) =
      some ⟨f, pre.length + (encodeHeader (name ++ 45 :: dg) body.length).length, body.length⟩)
    (hdr bodyZ : Bool) :
    (st.deletePack (name ++ 45 :: dg) hdr bodyZ)[f]? =
      some (pre ++ (if hdr then encodeHeader (delRef name dg) body.length else encodeHeader (name ++ 45 :: dg) body.length)
        ++ ((if bodyZ then List.replicate body.length 0 else body) ++ post)) ∧
    ∀ j, j ≠ f → (st.deletePack (name ++ 45 :: dg) hdr bodyZ)[j]? = st.packs[j]? := by
  unfold Store.deletePack
  simp only [hrow, hpack, deleteHeaderAt_record pre post name dg body f h1 h2]
  constructor
  · rw [getElem?_modifyNth]
    simp only [if_true, hpack, Option.map_some]
    have hlen : (encodeHeader (delRef name dg) body.length).length =
        (encodeHeader (name ++ 45 :: dg) body.length).length := by
      simp [encodeHeader, delRef]
    cases hdr <;> cases bodyZ
    · simp
    · have := zeroExtent_record (pre ++ encodeHeader (name ++ 45 :: dg) body.length) body post
      simp only [List.length_append, List.append_assoc] at this
      simp [this]
    · simp
    · have := zeroExtent_record (pre ++ encodeHeader (delRef name dg) body.length) body post
      simp only [List.length_append, hlen, List.append_assoc] at this
      simp [this]
  · intro j hj
    rw [getElem?_modifyNth]
    simp [hj]

/-- **the program-order states of a removal are safe for the pack-only readers**: `delete` rewrites the
header FIRST (the order `C03_gen_delete_effects` pins on the source: `WriteAt` before the hole punch /
zero fill); from then on, whatever the body bytes `B` are (untouched, half zeroed, zeroed), the record
has the deleted form: the walker – hence Reindex – reports it as deleted and the streamer skips it,
so neither can present a reclaimed body as the blob -/
theorem C03_delete_program_order_pack_safe (okRef : Bytes → Bool) (cf : Bool) (rs1 rs2 : List Rec)
    (name dg B : Bytes) (h1 : name ≠ []) (h2 : dg ≠ []) (hl : name.length + dg.length + 1 ≤ 480)
    (hB : B.length < 4294967296)
    (hrs1 : ∀ x ∈ rs1, recOK okRef x = true) (hrs2 : ∀ x ∈ rs2, recOK okRef x = true) :
    walkPack okRef cf (encodePack (rs1 ++ ⟨delRef name dg, B⟩ :: rs2)) =
      (entriesOf (rs1 ++ ⟨delRef name dg, B⟩ :: rs2) 0, none) ∧
    (∀ pos, (entryOf ⟨delRef name dg, B⟩ pos).ref = none) ∧
    liveOf (rs1 ++ ⟨delRef name dg, B⟩ :: rs2) = liveOf rs1 ++ liveOf rs2 := by
  have hd := isDeletedRef_delRef name dg h1 h2
  refine ⟨C03_walk_encode okRef cf _ ?_, fun pos => by simp [entryOf, hd], ?_⟩
  · intro x hx
    rcases List.mem_append.mp hx with hx | hx
    · exact hrs1 x hx
    · rcases List.mem_cons.mp hx with hx | hx
      · subst hx; exact recOK_delRef okRef name dg B h1 h2 hl hB
      · exact hrs2 x hx
  · rw [liveOf_append]; simp [liveOf, hd]

example : delRef [98] [99] = [120, 45, 48] ∧ isDeletedRef (delRef [98] [99]) = true := by decide

/-- **crash states of a removal, the part that holds**: in every subset state of {header rewritten, body
zeroed, row deleted} in which the body is zeroed only if the row is gone, the blob being removed is
either served complete or not at all; and in ALL eight states every other blob whose bytes do not
overlap the record is served as before -/
theorem C03_delete_crash_states_partial (st : Store) (pre post name dg body : Bytes) (f : Nat)
    (h1 : 45 ∉ name) (h2 : 32 ∉ dg)
    (hpack : st.packs[f]? = some (pre ++ encodeHeader (name ++ 45 :: dg) body.length ++ (body ++ post)))
    (hrow : st.index.get (name ++ 45 :: dg) =
      some ⟨f, pre.length + (encodeHeader (name ++ 45 :: dg) body.length).length, body.length⟩)
    (hdr bodyZ rowDel : Bool) :
    ((bodyZ = true → rowDel = true) →
      (st.crashDelete (name ++ 45 :: dg) hdr bodyZ rowDel).fetch (name ++ 45 :: dg) = .notExist ∨
      (st.crashDelete (name ++ 45 :: dg) hdr bodyZ rowDel).fetch (name ++ 45 :: dg) = .ok body.length body) ∧
    (∀ r m, r ≠ name ++ 45 :: dg → st.index.get r = some m →
      (m.file ≠ f ∨ m.offset + m.size ≤ pre.length ∨
        pre.length + (encodeHeader (name ++ 45 :: dg) body.length ++ body).length ≤ m.offset) →
      (st.crashDelete (name ++ 45 :: dg) hdr bodyZ rowDel).fetch r = st.fetch r) := by
  obtain ⟨hp1, hp2⟩ := C03_delete_pack_states st pre post name dg body f h1 h2 hpack hrow hdr bodyZ
  have hlen : (encodeHeader (delRef name dg) body.length).length =
      (encodeHeader (name ++ 45 :: dg) body.length).length := by
    simp [encodeHeader, delRef]
  constructor
  · intro hg
    cases rowDel with
    | true =>
      left
      simp [Store.fetch, Store.crashDelete, Index.get_del_same]
    | false =>
      right
      have hb : bodyZ = false := by cases bodyZ <;> simp_all
      subst hb
      simp only [Store.fetch, Store.crashDelete, hrow, Bool.false_eq_true, if_false, hp1]
      congr 1
      cases hdr
      · have := extent_exact (pre ++ encodeHeader (name ++ 45 :: dg) body.length) body post
        simp only [List.length_append, List.append_assoc] at this ⊢
        exact this
      · have := extent_exact (pre ++ encodeHeader (delRef name dg) body.length) body post
        simp only [List.length_append, List.append_assoc, hlen] at this ⊢
        exact this
  · intro r m hr hm hdis
    have hidx : (st.crashDelete (name ++ 45 :: dg) hdr bodyZ rowDel).index.get r = some m := by
      cases rowDel
      · simpa [Store.crashDelete] using hm
      · simp only [Store.crashDelete, if_true]
        rw [Index.get_del_other _ _ _ hr]; exact hm
    simp only [Store.fetch, hidx, hm]
    by_cases hf : m.file = f
    · have hdis' : m.offset + m.size ≤ pre.length ∨
          pre.length + (encodeHeader (name ++ 45 :: dg) body.length ++ body).length ≤ m.offset := by
        rcases hdis with h | h
        · exact absurd hf h
        · exact h
      simp only [Store.crashDelete, hf, hp1, hpack]
      congr 1
      have e1 : ∀ (H B : Bytes), pre ++ H ++ (B ++ post) = pre ++ (H ++ B) ++ post := by
        intro H B; simp
      rw [e1, e1]
      apply extent_frame
      · cases hdr <;> cases bodyZ <;> simp [hlen]
      · cases hdr <;> cases bodyZ <;> simp [hlen] <;> simpa using hdis'
    · simp only [Store.crashDelete, hp2 m.file hf]

/-- finding F-C03-3: header rewritten, body zeroed, row still there (the removal crashed before
`CommitBatch`): Fetch serves three zero bytes as the blob `b-c`, without error -/
theorem C03_delete_crash_states_counterexample :
    let st : Store := ⟨[encodeRecord ⟨[98, 45, 99], [1, 2, 3]⟩], [([98, 45, 99], ⟨0, 7, 3⟩)], 1000⟩
    st.fetch [98, 45, 99] = .ok 3 [1, 2, 3] ∧
    (st.crashDelete [98, 45, 99] true true false).fetch [98, 45, 99] = .ok 3 [0, 0, 0] ∧
    (st.crashDelete [98, 45, 99] true true false).packs = [encodeRecord ⟨[120, 45, 48], [0, 0, 0]⟩] := by
  decide

/-- finding F-C03-3, second face: header rewritten, body and row still there.  Fetch serves the blob
intact (as the `_partial` theorem says) and a duplicate receive is skipped – acknowledged – because
the row is there; but the pack says "deleted": the rebuilt index and the stream do not have the
acknowledged blob -/
theorem C03_delete_crash_row_outlives_record_counterexample :
    let st : Store := ⟨[encodeRecord ⟨[98, 45, 99], [1, 2, 3]⟩], [([98, 45, 99], ⟨0, 7, 3⟩)], 1000⟩
    let st' := (st.crashDelete [98, 45, 99] true false false).receive [98, 45, 99] [1, 2, 3]
    st'.fetch [98, 45, 99] = .ok 3 [1, 2, 3] ∧
    (st'.reindex (fun _ => true) true true).1.fetch [98, 45, 99] = .notExist ∧
    (streamPacks (fun _ => true) st'.packs).1 = [] := by
  decide

/-- the hypotheses of `C03_delete_crash_states_partial` hold of that store (`pre = post = []`, name `b`,
digest `c`) -/
example :
    let st : Store := ⟨[encodeRecord ⟨[98, 45, 99], [1, 2, 3]⟩], [([98, 45, 99], ⟨0, 7, 3⟩)], 1000⟩
    st.packs[0]? = some ([] ++ encodeHeader ([98] ++ 45 :: [99]) [1, 2, 3].length ++ ([1, 2, 3] ++ [])) ∧
    st.index.get ([98] ++ 45 :: [99]) =
      some ⟨0, ([] : Bytes).length + (encodeHeader ([98] ++ 45 :: [99]) [1, 2, 3].length).length, [1, 2, 3].length⟩ := by
  decide

/-- finding F-C03-4: the record of `b-c` is in the pack twice (a receive that crashed after the record was
complete but before its row, then the client's retry); `RemoveBlobs` rewrites only the indexed
(second) record, so Reindex from the packs alone lists the removed blob again, and StreamBlobs
presents it -/
theorem C03_removed_duplicate_counterexample :
    let st0 : Store := Store.init 0
    let st1 := (st0.crashAppend [98, 45, 99] [1, 2, 3] 10 false false).receive [98, 45, 99] [1, 2, 3]
    let st2 := st1.remove [[98, 45, 99]]
    st1.fetch [98, 45, 99] = .ok 3 [1, 2, 3] ∧ st2.fetch [98, 45, 99] = .notExist ∧
    ((st2.reindex (fun _ => true) true true).1.fetch [98, 45, 99] = .ok 3 [1, 2, 3]) ∧
    (streamPacks (fun _ => true) st2.packs).1 = [([98, 45, 99], [1, 2, 3])] := by
  decide

/-- the completed removal (`RemoveBlobs`) of that store: the row is gone and the record has the deleted
form, which the walker skips -/
example :
    let st : Store := ⟨[encodeRecord ⟨[98, 45, 99], [1, 2, 3]⟩], [([98, 45, 99], ⟨0, 7, 3⟩)], 1000⟩
    (st.remove [[98, 45, 99]]).fetch [98, 45, 99] = .notExist ∧
    walkPack (fun _ => true) true ((st.remove [[98, 45, 99]]).packs.headD []) = ([⟨none, 7, 3⟩], none) := by
  decide

end Pk.Pack

namespace Pk.FilesStore

/-! ## files store: write temp, fsync, close, rename -/

/-- obligation on the regenerated order of `files.ReceiveBlob`: on the success path and on every error
path (the calls before the failing one, then the deferred `Remove`) the temp file is created once,
written once, synced before the rename, nothing touches it after the rename, only VFS calls occur;
the success path ends with the rename done -/
theorem C03_gen_files_effects : CrashSafePred Pk.Gen.filesReceiveEffects = true := by decide

/-- the temp name (`<ref>.dat.tmp<digits>`: whatever `TempFile` appends to the prefix ends in a digit) is
never a `.dat` name, and so never the blob's own file name -/
theorem C03_files_tmp_not_dat (root ref data : Bytes) (n : Nat) :
    hasSuffix (tmpName (ctxOf root ref data).dir (ctxOf root ref data).pfx n) dotDat = false ∧
    tmpName (ctxOf root ref data).dir (ctxOf root ref data).pfx n ≠ (ctxOf root ref data).final := by
  refine ⟨tmpName_not_dat _ _ _, tmpName_ne_dat _ _ _ _ ?_⟩
  simp only [ctxOf, blobPath, blobFileBaseName, join]
  rw [show blobDirectory root ref ++ 47 :: (ref ++ dotDat) = (blobDirectory root ref ++ 47 :: ref) ++ dotDat by simp]
  exact hasSuffix_append _ _

/-- **files store, every crash instant**: for EVERY effect order satisfying `CrashSafePred`, every path
through it (success or any failing call), every prefix `k` of that path and every amount `j` of
un-synced data that survives: after the crash every file at the blob's path is either a file that
was there before the receive, unchanged, or holds exactly the new data – never a partial blob –
and every other file that is not one of this receive's temp files is exactly as before -/
theorem C03_files_crash_safe (l : List EffAt) (hl : CrashSafePred l = true) (c : Ctx) (v0 : VFS)
    (hT : ∀ n, tmpName c.dir c.pfx n ≠ c.final) (h0 : Restarted c v0)
    (path : List Eff) (hp : IsPath l path) (k j : Nat) :
    (∀ f ∈ ((run c ⟨v0, none⟩ (path.take k)).vfs.crash j).files, f.path = c.final →
      f.dur = f.cur ∧ (f.cur = c.data ∨ f ∈ v0.files)) ∧
    (∀ f ∈ ((run c ⟨v0, none⟩ (path.take k)).vfs.crash j).files, f.path ≠ c.final →
      (∀ n, f.path ≠ tmpName c.dir c.pfx n) → f ∈ v0.files) ∧
    (∀ f ∈ v0.files, f.path ≠ c.final → (∀ n, f.path ≠ tmpName c.dir c.pfx n) →
      f ∈ ((run c ⟨v0, none⟩ (path.take k)).vfs.crash j).files) := by
  obtain ⟨aEnd, hs⟩ := scan_of_pred l hl path hp
  have hb0 : Base c v0 ⟨v0, none⟩ :=
    ⟨fun t ht => (by cases ht), fun f hf _ => ⟨h0.1 f hf, Or.inr hf⟩, fun f hf _ _ => hf, fun f hf _ _ => hf, h0.2⟩
  obtain ⟨ak, hb, _⟩ := run_safe c v0 hT path 0 aEnd ⟨v0, none⟩ hs hb0 trivial k
  refine ⟨?_, ?_, ?_⟩
  · intro f' hf' hp'
    simp only [VFS.crash, List.mem_map] at hf'
    obtain ⟨f, hf, e⟩ := hf'
    have hpf : f.path = c.final := by rw [← e] at hp'; exact hp'
    obtain ⟨h1, h2⟩ := hb.final f hf hpf
    rw [crashFile_clean j f h1] at e
    subst e; exact ⟨h1, h2⟩
  · intro f' hf' hp' hn
    simp only [VFS.crash, List.mem_map] at hf'
    obtain ⟨f, hf, e⟩ := hf'
    have hpf : f.path = f'.path := by rw [← e]; rfl
    have hin := hb.frame1 f hf (by rw [hpf]; exact hp') (by rw [hpf]; exact hn)
    rw [crashFile_clean j f (h0.1 f hin)] at e
    subst e; exact hin
  · intro f hf hp' hn
    have hin := hb.frame2 f hf hp' hn
    simp only [VFS.crash, List.mem_map]
    exact ⟨f, hin, crashFile_clean j f (h0.1 f hf)⟩

/-- **acknowledged ⇒ durable**: once the success path has run to its end, the blob's file exists and,
whatever un-synced data a crash drops, holds exactly the data -/
theorem C03_files_ack_durable (l : List EffAt) (hl : CrashSafePred l = true) (c : Ctx) (v0 : VFS)
    (hT : ∀ n, tmpName c.dir c.pfx n ≠ c.final) (h0 : Restarted c v0) (j : Nat) :
    ∃ f, ((run c ⟨v0, none⟩ (successPath l)).vfs.crash j).lookup c.final = some f ∧
      (f.cur = c.data ∨ f ∈ v0.files) ∧ f.dur = f.cur := by
  have hs : scan 0 (successPath l) = some 4 := by
    simp only [CrashSafePred, Bool.and_eq_true, beq_iff_eq] at hl; exact hl.1
  have hb0 : Base c v0 ⟨v0, none⟩ :=
    ⟨fun t ht => (by cases ht), fun f hf _ => ⟨h0.1 f hf, Or.inr hf⟩, fun f hf _ _ => hf, fun f hf _ _ => hf, h0.2⟩
  -- follow the scan to its end: the abstract state there is 4
  have key : ∀ (effs : List Eff) (a : Nat) (s : RunSt), scan a effs = some 4 → Base c v0 s → Rel c a s →
      Base c v0 (run c s effs) ∧ Rel c 4 (run c s effs) := by
    intro effs
    induction effs with
    | nil => intro a s h hb hr; simp only [scan, Option.some.injEq] at h; subst h; exact ⟨hb, hr⟩
    | cons e t ih =>
      intro a s h hb hr
      simp only [scan] at h
      cases hse : scanStep a e with
      | none => simp [hse] at h
      | some a1 =>
        simp only [hse] at h
        obtain ⟨hb1, hr1⟩ := step_safe c v0 hT a a1 e s hse hb hr
        simpa [run] using ih a1 (step c s e) h hb1 hr1
  obtain ⟨hb, f0, hf0, hp0⟩ := key (successPath l) 0 ⟨v0, none⟩ hs hb0 trivial
  have hex : ∃ f ∈ ((run c ⟨v0, none⟩ (successPath l)).vfs.crash j).files, f.path = c.final :=
    ⟨crashFile j f0, by simp only [VFS.crash, List.mem_map]; exact ⟨f0, hf0, rfl⟩, hp0⟩
  cases hl' : ((run c ⟨v0, none⟩ (successPath l)).vfs.crash j).lookup c.final with
  | none =>
    have := lookup_isSome _ _ hex
    rw [hl'] at this; cases this
  | some f =>
    obtain ⟨hmem, hpath⟩ := lookup_some _ _ _ hl'
    have hall := (C03_files_crash_safe l hl c v0 hT h0 (successPath l) (Or.inl rfl) (successPath l).length j).1
    rw [List.take_length] at hall
    obtain ⟨h1, h2⟩ := hall f hmem hpath
    exact ⟨f, rfl, h2, h1⟩

example : Restarted (ctxOf [47, 114] [98, 45, 99] [1, 2]) ⟨[[47, 114]], [], 1⟩ := by
  constructor <;> intro f hf <;> cases hf

/-- the generated order, run on an empty store with its success path cut after `copy` (3 effects) and all
un-synced data kept: the data sits in the temp file only -/
example :
    ((run (ctxOf [47, 114] [98, 45, 99] [1, 2]) ⟨⟨[[47, 114]], [], 1⟩, none⟩
      ((successPath Gen.filesReceiveEffects).take 3)).vfs.crash 9).files.map (fun f => (hasSuffix f.path dotDat, f.cur)) =
      [(false, [1, 2])] := by decide

/-- **enumerate ignores temp files**: every entry `EnumerateBlobs` lists is a file named `<ref>.dat` (so
never a `TempFile` name, which ends in a digit) and carries that file's size -/
theorem C03_files_enumerate_ignores_tmp (okRef : Bytes → Bool) (v : VFS) (root : Bytes) :
    ∀ e ∈ (enumerate okRef v root).1, ∃ f ∈ v.files, hasSuffix f.path dotDat = true ∧
      (∃ d, f.path = join d (e.1 ++ dotDat)) ∧ e.2 = f.cur.length ∧
      ∀ dir pfx n, f.path ≠ tmpName dir pfx n := by
  intro e he
  have hs : EnumSound v (enumerate okRef v root).1 := by
    unfold enumerate
    split
    · exact readBlobs_sound okRef v 8 root
    · intro e he; cases he
  obtain ⟨f, hf, d, hp, hsz⟩ := hs e he
  have hdat : hasSuffix f.path dotDat = true := by
    rw [hp, join, show d ++ 47 :: (e.1 ++ dotDat) = (d ++ 47 :: e.1) ++ dotDat by simp]
    exact hasSuffix_append _ _
  exact ⟨f, hf, hdat, ⟨d, hp⟩, hsz, fun dir pfx n e' => tmpName_ne_dat dir pfx n _ hdat e'.symm⟩

end Pk.FilesStore
