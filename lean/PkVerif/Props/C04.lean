import PkVerif.Lemmas.BlobPackedWhole
import PkVerif.Lemmas.BlobPackedTerm
import PkVerif.Lemmas.BlobPackedReindex
import PkVerif.Lemmas.BlobPackedInteg
import PkVerif.Lemmas.BlobPackedNR
import PkVerif.Gen.C04
import PkVerif.Gen.Facts
/-!
# C04 – packing files into zips is invisible to clients and recoverable from the zips

Property theorems only.  `Pk.BP.*` models pkg/blobserver/blobpacked (see `Model/BlobPacked.lean` for
what is and is not modelled: the zip byte codec, the manifest JSON, the row text encodings and SHA-224
are uninterpreted; their values enter as the `ZipLayout` list, `H` and `K`, and every theorem holds
**for all** values of them).  `C : Ref → Bytes` is the content function (a ref denotes its bytes);
`Inv C s` is the invariant every reachable state has (`C04_reachable_inv`).

All pack theorems are for **every write budget** `bud` ("the first k lower-layer writes succeed, all
later ones fail, a loose-blob deletion hit at the boundary removes only a prefix of its refs"): the
state `pack` leaves for budget k is the state at the crash point after the k-th write, so a statement
for all budgets is a statement about every crash point between the writes of a pack.
-/
namespace Pk.BP
open Pk Pk.SMap

/-! ## facts regenerated from the source -/

/-- the order of the lower-layer writes of `writeAZip`: the zip is stored in `large`, then ONE meta
batch is committed, and only then (conditionally) the loose copies are removed from `small` -/
theorem C04_gen_writeAZip_order :
    Gen.bpWriteAZipEffects.map (·.e) = [.recvLarge, .metaCommit, .removeSmall] ∧
    spine Gen.bpWriteAZipEffects = [.recvLarge, .metaCommit] := by decide

/-- `pack`: the zips (in a loop), then the final whole-file row, unconditionally last -/
theorem C04_gen_pack_order :
    Gen.bpPackEffects.map (·.e) = [.nextPack, .recordMeta] ∧ spine Gen.bpPackEffects = [.recordMeta] := by decide

/-- `ReceiveBlob`: the loose store (conditional: only without a meta row) precedes the pack -/
theorem C04_gen_receive_order : Gen.bpReceiveEffects.map (·.e) = [.recvSmall, .nextPack] := by decide

/-- `RemoveBlobs` touches `small` and one meta batch, never `large`; `reindex` writes meta only -/
theorem C04_gen_remove_reindex_effects :
    Gen.bpRemoveEffects.map (·.e) = [.removeSmall, .recordMeta, .removeMeta, .metaCommit] ∧
    (Gen.bpReindexEffects.map (·.e)).all (fun e => e == .recordMeta || e == .metaCommit) = true := by decide

/-- the configuration as it is in /repo right now (default zip size limit) -/
def gcfg : Cfg :=
  { zipMax := Gen.maxBlobSize, packThreshold := Gen.bpPackThreshold, fixedOverhead := Gen.bpZipFixedOverhead,
    perEntryOverhead := Gen.bpZipPerEntryOverhead, manifestApprox := (204 + 0 * 119) / 2, legacy := false }

theorem C04_gen_constants : 0 < gcfg.packThreshold ∧ gcfg.fixedOverhead + gcfg.perEntryOverhead + gcfg.manifestApprox < gcfg.zipMax := by
  decide

/-! ## the client-visible answers, under the invariant -/

/-- **Fetch / Stat / SubFetch** are the reference map's answers on the set of visible blobs, and
**EnumerateBlobs** lists exactly the visible blobs after the cursor, ascending, each exactly once,
with the size of its content – wherever the bytes physically are (loose, packed, or both) -/
theorem C04_reads_are_reference_map (C : Ref → Bytes) (s : St) (h : Inv C s) :
    (∀ r, fetch s r = if present s r then .ok (C r) else .notExist) ∧
    (∀ r, stat s r = if present s r then some (C r).length else none) ∧
    (∀ r off len, subFetch s r off len =
      if present s r then (if off > (C r).length then .err else .ok (slice (C r) off len)) else .notExist) ∧
    (∀ after limit, ((enumerate s after limit).map (·.1)).Nodup ∧
      (∀ e ∈ enumerate s after limit, present s e.1 = true ∧ ltB after e.1 = true ∧ e.2 = (C e.1).length) ∧
      (∀ k, present s k = true → ltB after k = true → (enumerate s after limit).length < limit →
        k ∈ (enumerate s after limit).map (·.1))) := by
  refine ⟨fetch_eq h, stat_eq h, subFetch_eq h, fun after limit => ⟨enumerate_nodup h after limit, ?_, ?_⟩⟩
  · intro e he
    rw [enumerate_eq h] at he
    obtain ⟨k, hk, rfl⟩ := List.mem_map.mp he
    have hk' := List.mem_filter.mp (List.mem_of_mem_take hk)
    exact ⟨(mem_union_iff_present h k).mp hk'.1, hk'.2, rfl⟩
  · intro k hp hk hlen
    rw [enumerate_eq h] at hlen ⊢
    simp only [List.map_map, List.length_map, List.length_take] at hlen ⊢
    have : ((fun x : Bytes × Nat => x.1) ∘ fun k => (k, (C k).length)) = id := rfl
    rw [this, List.map_id, List.take_of_length_le (by omega)]
    exact List.mem_filter.mpr ⟨(mem_union_iff_present h k).mpr hp, hk⟩

/-- **StatBlobs reports every visible blob exactly once**: a batch stat calls `fn` once for each requested
ref that is visible, in request order, with the size of its content, and never for another ref – in
every state with the invariant, in particular while a blob is both packed and still loose (between
the meta batch of its zip and the deletion of the loose copies, after a failed deletion, after a crash
there and a restart).  For a request without repetitions no ref is reported twice. -/
theorem C04_statBlobs_exactly_once (C : Ref → Bytes) (s : St) (h : Inv C s) (refs : List Ref) :
    statBlobs s refs = (refs.filter (fun r => present s r)).map (fun r => (r, (C r).length)) ∧
    (refs.Nodup → ((statBlobs s refs).map (·.1)).Nodup) := by
  refine ⟨statBlobs_eq h refs, fun hn => ?_⟩
  rw [statBlobs_eq h refs, List.map_map]
  have : ((fun x : Ref × Nat => x.1) ∘ fun r => (r, (C r).length)) = id := rfl
  rw [this, List.map_id]
  exact hn.sublist List.filter_sublist

/-- a batch stat is the same at every point a pack can stop in as before the pack -/
theorem C04_statBlobs_pack_invisible (C : Ref → Bytes) (env : PackEnv) (s : St) (bud : Budget) (fileRef : Ref)
    (lays : List ZipLayout) (fuel : Nat) (h : Inv C s) (refs : List Ref) :
    statBlobs (packFile env s bud fileRef lays fuel).s refs = statBlobs s refs := by
  obtain ⟨h', v⟩ := packFile_sound (C := C) env s bud fileRef lays fuel h
  rw [statBlobs_eq h', statBlobs_eq h]
  congr 1
  apply List.filter_congr
  intro r _
  rw [v.pres]

/-! ## the pack -/

/-- **every state a pack can stop in is invisible.**  For every file schema blob, every parse `K`,
every zip layout values, every fuel and every write budget (= every crash point between the writes
of the pack: after the zip is stored, after the meta batch, during or after the loose-blob deletion,
before the final whole-file row), the state left behind satisfies the invariant and answers every
Fetch, Stat, SubFetch and EnumerateBlobs exactly as the state before the pack. -/
theorem C04_pack_steps_invisible (C : Ref → Bytes) (env : PackEnv) (s : St) (bud : Budget) (fileRef : Ref)
    (lays : List ZipLayout) (fuel : Nat) (h : Inv C s) :
    let s' := (packFile env s bud fileRef lays fuel).s
    Inv C s' ∧ (∀ r, fetch s' r = fetch s r) ∧ (∀ r, stat s' r = stat s r) ∧
    (∀ r off len, subFetch s' r off len = subFetch s r off len) ∧
    (∀ after limit, enumerate s' after limit = enumerate s after limit) := by
  obtain ⟨h', v⟩ := packFile_sound (C := C) env s bud fileRef lays fuel h
  exact ⟨h', reads_eq_of_sameView h h' v⟩

/-- each of the four write kinds of a pack on its own: the zip stored in `large`; the meta batch of a
zip that is in `large` and whose blobs are all visible; the deletion from `small` of ANY set of blobs
that have `b:` rows (so also every partially executed deletion); the final whole-file row -/
theorem C04_each_write_invisible (C : Ref → Bytes) (s : St) (h : Inv C s) :
    (∀ zr z, ZipWF C z → Inv C (putLarge s zr z) ∧ SameView s (putLarge s zr z)) ∧
    (∀ zr z w, get s.large zr = some z →
      (∀ x, (zipBlobRows zr z).any (fun p => p.1 == x) = true → present s x = true) →
      Inv C (commitZip s zr z w) ∧ SameView s (commitZip s zr z w)) ∧
    (∀ refs, (∀ r ∈ refs, (get s.b r).isSome = true) → Inv C (delSmall s refs) ∧ SameView s (delSmall s refs)) ∧
    (∀ w a b, Inv C (setWhole s w a b) ∧ SameView s (setWhole s w a b)) :=
  ⟨fun zr z hz => ⟨inv_putLarge h zr z hz, sameView_putLarge s zr z⟩,
   fun zr z w hz hp => ⟨inv_commitZip h zr z w hz, sameView_commitZip s zr z w hp⟩,
   fun refs hr => ⟨inv_delSmall h refs, sameView_delSmall h refs hr⟩,
   fun w a b => ⟨inv_setWhole h w a b, sameView_setWhole s w a b⟩⟩

/-- **ReceiveBlob refines the reference map**, whatever the pack it triggers does and wherever it is
cut: an acknowledged blob is visible afterwards with its bytes, nothing else changes; a failed
receive (the loose store failed) changes nothing -/
theorem C04_receive_refines (C : Ref → Bytes) (env : PackEnv) (s : St) (bud : Budget) (r : Ref)
    (lays : List ZipLayout) (fuel : Nat) (h : Inv C s) :
    let res := receive env s bud r (C r) lays fuel
    Inv C res.s ∧
    (res.size ≠ none → fetch res.s r = .ok (C r) ∧ ∀ x, x ≠ r → fetch res.s x = fetch s x ∧ stat res.s x = stat s x) ∧
    (res.size = none → ∀ x, fetch res.s x = fetch s x ∧ stat res.s x = stat s x) := by
  obtain ⟨h', hn, hs⟩ := receive_sound (C := C) env s bud r (C r) lays fuel h rfl
  refine ⟨h', fun hne => ?_, fun he x => ?_⟩
  · have hp := hs hne
    refine ⟨by rw [fetch_eq h', hp]; simp, fun x hx => ?_⟩
    have : present (receive env s bud r (C r) lays fuel).s x = present s x := by rw [hp]; simp [hx]
    rw [fetch_eq h', fetch_eq h, stat_eq h', stat_eq h, this]; exact ⟨rfl, rfl⟩
  · have v := hn he
    rw [fetch_eq h', fetch_eq h, stat_eq h', stat_eq h, v.pres]; exact ⟨rfl, rfl⟩

/-- **RemoveBlobs refines the reference map** (the code after the `fix:` commit): the removed blob is
gone – also when it was both packed and still loose – and nothing else changes -/
theorem C04_remove_refines (C : Ref → Bytes) (c : Cfg) (hc : c.legacy = false) (s : St) (r : Ref) (h : Inv C s) :
    Inv C (remove c s r) ∧ fetch (remove c s r) r = .notExist ∧ stat (remove c s r) r = none ∧
    ∀ x, x ≠ r → fetch (remove c s r) x = fetch s x ∧ stat (remove c s r) x = stat s x := by
  obtain ⟨h', hp⟩ := remove_sound (C := C) c hc s r h
  refine ⟨h', by rw [fetch_eq h', hp]; simp, by rw [stat_eq h', hp]; simp, fun x hx => ?_⟩
  have : present (remove c s r) x = present s x := by rw [hp]; simp [hx]
  rw [fetch_eq h', fetch_eq h, stat_eq h', stat_eq h, this]; exact ⟨rfl, rfl⟩

/-- every state reachable from the empty storage by receives of well-keyed blobs (with any packs, cut
anywhere), removals and recoveries satisfies the invariant -/
inductive Reachable (C : Ref → Bytes) (c : Cfg) : St → Prop where
  | empty : Reachable C c St.empty
  | recv (s : St) (K : Ref → Kind) (H : Bytes → Ref) (bud : Budget) (r : Ref) (lays : List ZipLayout) (fuel : Nat) :
      Reachable C c s → Reachable C c (receive ⟨c, K, H⟩ s bud r (C r) lays fuel).s
  | rm (s : St) (r : Ref) : Reachable C c s → Reachable C c (remove c s r)
  | recover (s s' : St) (full : Bool) : Reachable C c s → reindex full s = (s', .ok) → Reachable C c s'

theorem C04_reachable_inv (C : Ref → Bytes) (c : Cfg) (hc : c.legacy = false) (s : St) (h : Reachable C c s) :
    Inv C s := by
  induction h with
  | empty => exact inv_empty C
  | recv s K H bud r lays fuel _ ih => exact (receive_sound (C := C) ⟨c, K, H⟩ s bud r (C r) lays fuel ih rfl).1
  | rm s r _ ih => exact (remove_sound c hc s r ih).1
  | recover s s' full _ hr ih => exact (reindex_sound full s s' ih hr).1

/-! ## the zips a pack produces, and reading the file back -/

/-- **every zip a pack stores is valid** (for every budget, fuel and layout values): it is in `large`,
its byte size is within the zip size limit (the post-check of `writeAZip`), it is well-formed
(`ZipWF`: the manifest entries and schema blobs lie where the layout says and hold their blobs'
content), it carries the file's whole ref / whole size and its own part index, and **its first file
is the contiguous slice `[off, off+len)` of the concatenation of the file's chunks**, with manifest
offsets that are the running sums of the sizes.  The stored zips are numbered 0, 1, 2, … and their
offsets are the running sums of their data lengths (`Chain`); a pack that returns without error has
covered all the bytes. -/
theorem C04_zip_valid (C : Ref → Bytes) (env : PackEnv) (s : St) (bud : Budget) (fileRef : Ref)
    (lays : List ZipLayout) (fuel : Nat) (h : Inv C s) :
    let res := packFile env s bud fileRef lays fuel
    (∀ p ∈ res.zips, ∃ W, fileBytes env.K s fileRef = some W ∧
      GoodZip C env.c.zipMax (bytesOf C (chunkRefs env.K s fileRef)) (env.H W) W.length res.s p) ∧
    Chain res.zips 0 0 ∧
    (res.ok = true → sumLen res.zips = (bytesOf C (chunkRefs env.K s fileRef)).length) :=
  packFile_zips env s bud fileRef lays fuel h

/-- for a plain file (every data part is its whole blob from offset 0, every "bytes" part its whole
sub-tree from offset 0 – what every perkeep file writer produces) the bytes the file reader delivers
ARE the concatenation of the chunks in scan order, so `C04_zip_valid` speaks about slices of the
file's contents -/
theorem C04_plain_file_bytes (C : Ref → Bytes) (K : Ref → Kind) (s : St) (h : Inv C s) (fileRef : Ref) (v W : Bytes)
    (parts : List Part) (hv : fetch s fileRef = .ok v) (hk : (K fileRef).parts? = some parts)
    (hplain : simpleParts K C scanFuel parts = true)
    (hscan : (scanParts K s scanFuel [(fileRef, v)] parts).isSome = true)
    (hW : fileBytes K s fileRef = some W) :
    W = bytesOf C (chunkRefs K s fileRef) := by
  cases htbl : scanParts K s scanFuel [(fileRef, v)] parts with
  | none => rw [htbl] at hscan; cases hscan
  | some tbl =>
    have hcr : chunkRefs K s fileRef = tbl.map (·.ref) := by
      unfold chunkRefs; rw [hv, hk]; simp only; rw [htbl]
    have hW' : denoteParts K s scanFuel parts = some W := by
      unfold fileBytes at hW; rw [hk] at hW; exact hW
    rw [hcr]
    exact (simple_denote h K scanFuel _ parts tbl W hplain htbl hW').1

/-- **whole-file read from any offset = the file bytes.**  After a pack that ran to completion (first
pack of this content: no `w:` rows for its whole ref before), `OpenWholeRef(whole, off)` returns the
whole size and exactly the file's bytes from `off` on – for every offset, single- or multi-zip -/
theorem C04_wholeref_read (C : Ref → Bytes) (env : PackEnv) (s : St) (bud : Budget) (fileRef : Ref)
    (lays : List ZipLayout) (fuel : Nat) (h : Inv C s) (W : Bytes)
    (hW : fileBytes env.K s fileRef = some W) (hchunks : W = bytesOf C (chunkRefs env.K s fileRef))
    (hfresh : get s.w (env.H W) = none) (hok : (packFile env s bud fileRef lays fuel).ok = true) (off : Nat) :
    openWholeRef (packFile env s bud fileRef lays fuel).s (env.H W) off = .ok W.length (W.drop off) := by
  obtain ⟨hg, hc, hsum⟩ := packFile_zips (C := C) env s bud fileRef lays fuel h
  have hw := packFile_w (C := C) env s bud fileRef lays fuel h W hW hfresh hok
  refine openWholeRef_of_pack (C := C) (zipMax := env.c.zipMax) _ (env.H W) W.length _ W hw ?_ hc ?_ rfl off
  · intro p hp
    obtain ⟨W', hW'', hgz⟩ := hg p hp
    rw [hW] at hW''
    injection hW'' with hW''
    subst hW''
    rw [← hchunks] at hgz
    exact hgz
  · rw [hsum hok, ← hchunks]

/-- **`pack` terminates** (the code after the `fix:` commit: `writeAZip` returns an error instead of
storing a zip without data blobs): for `R` chunks, `(R+1)²` iterations of the `MakingZips` loop always
suffice, whatever the sizes, the layout values, the trunc hints and the budget – every stored zip
consumes at least one chunk and consecutive truncate-retries write strictly fewer chunks -/
theorem C04_pack_terminates (env : PackEnv) (hleg : env.c.legacy = false) (nameOK : Bool) (tbl : List Chunk)
    (whole : Ref) (wsz fuel : Nat) (s : St) (bud : Budget) (remain : List Ref) (lays : List ZipLayout)
    (hfuel : (remain.length + 1) * (remain.length + 1) ≤ fuel) :
    (packLoop env nameOK tbl whole wsz fuel s bud remain 0 0 none lays 0 0 []).outOfFuel = false := by
  apply packLoop_terminates env hleg
  have : (remain.length + 1) * (remain.length + 1) = remain.length * (remain.length + 1) + remain.length + 1 := by
    simp only [Nat.add_mul, Nat.one_mul]; omega
  simp only [cut]; omega

/-- **the start-up integrity check after a crash**: a pack stores the zip before it commits the zip's
`z:` row, and `large` never shrinks, so at every crash point (and after any removal) every `z:` row names
a zip that exists: `checkLargeIntegrity` can report zips missing from the index (→ fast recovery is
enough), never index rows without a zip (→ it never demands a full recovery) -/
theorem C04_integrity_after_crash (C : Ref → Bytes) (env : PackEnv) (s : St) (bud : Budget) (r : Ref)
    (lays : List ZipLayout) (fuel : Nat) (h : Inv C s) (hz : ZInv s) :
    ZInv (receive env s bud r (C r) lays fuel).s ∧
    checkLargeIntegrity (receive env s bud r (C r) lays fuel).s ≠ .full ∧
    (∀ x, ZInv (remove env.c s x) ∧ checkLargeIntegrity (remove env.c s x) ≠ .full) :=
  ⟨receive_zinv env s bud r (C r) lays fuel h rfl hz,
   integrity_not_full _ (receive_zinv env s bud r (C r) lays fuel h rfl hz),
   fun x => ⟨remove_zinv env.c s x hz, integrity_not_full _ (remove_zinv env.c s x hz)⟩⟩

/-! ## recovery from the zips -/

/-- nothing that is inside a zip has been removed -/
def NothingRemoved (s : St) : Prop := ∀ x, inSomeZip s.large x = true → present s x = true

/-- **recovery is invisible when nothing was removed**: rebuilding the meta index from the zips (fast:
on top of the existing rows; full: from scratch) serves every blob exactly as before – in particular
after any crash point of any pack -/
theorem C04_recover_invisible_partial (C : Ref → Bytes) (s s' : St) (full : Bool) (h : Inv C s)
    (hn : NothingRemoved s) (hr : reindex full s = (s', .ok)) :
    Inv C s' ∧ (∀ r, fetch s' r = fetch s r) ∧ (∀ r, stat s' r = stat s r) ∧
    (∀ r off len, subFetch s' r off len = subFetch s r off len) ∧
    (∀ after limit, enumerate s' after limit = enumerate s after limit) := by
  obtain ⟨h', hp⟩ := reindex_sound (C := C) full s s' h hr
  refine ⟨h', reads_eq_of_sameView h h' ⟨fun x => ?_⟩⟩
  rw [hp]
  by_cases hz : inSomeZip s.large x = true
  · simp [hz, hn x hz]
  · have hz' : inSomeZip s.large x = false := by simpa using hz
    by_cases hf : full = true
    · -- a packed blob is inside the zip its row names
      simp only [hf, if_true, hz', Bool.or_false]
      unfold present
      cases hb : get s.b x with
      | none => simp
      | some row =>
        obtain ⟨z, hzz, hm⟩ := h.b_ok x row hb
        have : inSomeZip s.large x = true := by
          unfold inSomeZip
          rw [List.any_eq_true]
          exact ⟨(row.zip, z), get_some_mem hzz, row_any hm⟩
        rw [this] at hz'; cases hz'
    · simp [hf, hz']
where
  row_any {zr : Ref} {z : Zip} {x : Ref} {row : BRow} (hm : (x, row) ∈ zipBlobRows zr z) :
      (zipBlobRows zr z).any (fun q => q.1 == x) = true := by
    simp only [List.any_eq_true, beq_iff_eq]; exact ⟨(x, row), hm, rfl⟩

/-- **rebuilding the meta rows from the zips yields the rows packing wrote**: after a complete first
pack of a file (no zips of its whole ref before), a full recovery that succeeds writes – from the zips
alone, the whole index having been wiped – exactly the whole-file rows (`w:<whole>` and every
`w:<whole>:<i>`) the pack wrote, and `OpenWholeRef` serves the file from every offset as before.
(The `b:` rows are rebuilt too – `C04_recover_invisible_partial`: same keys, each pointing at a zip
that holds the blob – but a blob contained in several zips, like the file schema blob of a multi-zip
file, may point at another of them: recovery takes the zip with the greatest ref, packing the last one
written.) -/
theorem C04_reindex_rebuilds_whole_rows (C : Ref → Bytes) (env : PackEnv) (s : St) (bud : Budget) (fileRef : Ref)
    (lays : List ZipLayout) (fuel : Nat) (h : Inv C s) (W : Bytes)
    (hW : fileBytes env.K s fileRef = some W) (hchunks : W = bytesOf C (chunkRefs env.K s fileRef)) (hWne : W ≠ [])
    (hfresh : get s.w (env.H W) = none)
    (hnoz : ∀ k z, get s.large k = some z → z.wholeRef ≠ env.H W)
    (hok : (packFile env s bud fileRef lays fuel).ok = true)
    (s'' : St) (hr : reindex true (packFile env s bud fileRef lays fuel).s = (s'', .ok)) :
    get s''.w (env.H W) = get (packFile env s bud fileRef lays fuel).s.w (env.H W) ∧
    ∀ off, openWholeRef s'' (env.H W) off = .ok W.length (W.drop off) := by
  obtain ⟨hg, hc, hsum⟩ := packFile_zips (C := C) env s bud fileRef lays fuel h
  have hw := packFile_w (C := C) env s bud fileRef lays fuel h W hW hfresh hok
  have hinv := (packFile_sound (C := C) env s bud fileRef lays fuel h).1
  have hg' : ∀ p ∈ (packFile env s bud fileRef lays fuel).zips,
      GoodZip C env.c.zipMax W (env.H W) W.length (packFile env s bud fileRef lays fuel).s p := by
    intro p hp
    obtain ⟨W', hW'', hgz⟩ := hg p hp
    rw [hW] at hW''
    injection hW'' with hW''
    subst hW''
    rw [← hchunks] at hgz
    exact hgz
  have hsum' : sumLen (packFile env s bud fileRef lays fuel).zips = W.length := by rw [hsum hok, ← hchunks]
  have hne : (packFile env s bud fileRef lays fuel).zips ≠ [] := by
    intro e
    rw [e] at hsum'
    simp only [sumLen] at hsum'
    exact hWne (List.eq_nil_of_length_eq_zero hsum'.symm)
  have hbound : ∀ k z, get (packFile env s bud fileRef lays fuel).s.large k = some z → z.wholeRef = env.H W →
      ∃ p ∈ (packFile env s bud fileRef lays fuel).zips, p.zr = k := by
    intro k z hk hwr
    rcases packFile_large (C := C) env s bud fileRef lays fuel h hok k z hk with hold | hnew
    · exact absurd hwr (hnoz k z hold)
    · exact hnew
  have hrows := reindex_full_whole_rows (C := C) (zipMax := env.c.zipMax) (allBytes := W) _ s'' (env.H W) W.length _
    hinv.klarge hg' hc hne hsum' hbound hr
  refine ⟨by rw [hrows, hw], fun off => ?_⟩
  have hl := reindex_large true _ s'' hr
  refine openWholeRef_of_pack (C := C) (zipMax := env.c.zipMax) s'' (env.H W) W.length _ W hrows ?_ hc hsum' rfl off
  intro p hp
  obtain ⟨z, hz, rest⟩ := hg' p hp
  exact ⟨z, by rw [hl]; exact hz, rest⟩

/-- **a crash at any point of a pack, followed by a restart with recovery, is invisible**: "nothing
inside a zip has been removed" survives every receive and every step of the pack it triggers (also the
step that leaves a stored but un-indexed zip behind), so the state at every crash point satisfies the
hypothesis of `C04_recover_invisible_partial`: whatever the budget, a recovery (fast or full) that
succeeds serves every blob exactly as the state it started from -/
theorem C04_crash_then_recover_invisible (C : Ref → Bytes) (env : PackEnv) (s : St) (bud : Budget) (r : Ref)
    (lays : List ZipLayout) (fuel : Nat) (h : Inv C s) (hn : NothingRemoved s) (full : Bool) (s2 : St)
    (hr : reindex full (receive env s bud r (C r) lays fuel).s = (s2, .ok)) :
    NothingRemoved (receive env s bud r (C r) lays fuel).s ∧ Inv C s2 ∧
    (∀ x, fetch s2 x = fetch (receive env s bud r (C r) lays fuel).s x) ∧
    (∀ x, stat s2 x = stat (receive env s bud r (C r) lays fuel).s x) ∧
    (∀ x off len, subFetch s2 x off len = subFetch (receive env s bud r (C r) lays fuel).s x off len) ∧
    (∀ after limit, enumerate s2 after limit = enumerate (receive env s bud r (C r) lays fuel).s after limit) := by
  have h1 := (receive_sound (C := C) env s bud r (C r) lays fuel h rfl).1
  have n1 : NothingRemoved (receive env s bud r (C r) lays fuel).s :=
    (nr_iff_inSomeZip h1.klarge).mp (receive_nr (C := C) env s bud r (C r) lays fuel h rfl ((nr_iff_inSomeZip h.klarge).mpr hn))
  exact ⟨n1, C04_recover_invisible_partial C _ s2 full h1 n1 hr⟩

/-! ### a concrete tiny world (non-vacuity of the hypotheses, witnesses of the counterexamples) -/

namespace Tiny

def rA : Ref := [1]
def rB : Ref := [2]
def rF : Ref := [9]

def C : Ref → Bytes := fun r => if r = rA then [10, 11] else if r = rB then [20] else [30, 31]

/-- packing threshold 2 bytes, zip limit 1000 -/
def cfg : Cfg := ⟨1000, 2, 10, 5, 1, false⟩

def K : Ref → Kind := fun r =>
  if r = rF then .file true [⟨.blob, rA, 0, 2⟩, ⟨.blob, rB, 0, 1⟩] else .raw

def env : PackEnv := ⟨cfg, K, fun _ => [7]⟩

/-- zip ref `[8]`, 100 bytes, the first file's data at 10, the file schema blob's data at 20 -/
def lay : ZipLayout := ⟨[8], 100, 10, [20]⟩

def s1 : St := (receive env St.empty Budget.unlimited rA (C rA) [] 10).s
def s2 : St := (receive env s1 Budget.unlimited rB (C rB) [] 10).s
/-- the file schema blob arrives: the file (3 bytes ≥ threshold 2) is packed into one zip -/
def s3 : St := (receive env s2 Budget.unlimited rF (C rF) [lay] 10).s
/-- the same, cut after the meta batch (3 writes: loose store, zip, meta): packed AND still loose -/
def s3cut : St := (receive env s2 ⟨some 3, 0, false⟩ rF (C rF) [lay] 10).s

theorem reach3 : Reachable C cfg s3 :=
  .recv _ K _ _ rF [lay] 10 (.recv _ K _ _ rB [] 10 (.recv _ K _ _ rA [] 10 .empty))

theorem reach3cut : Reachable C cfg s3cut :=
  .recv _ K _ _ rF [lay] 10 (.recv _ K _ _ rB [] 10 (.recv _ K _ _ rA [] 10 .empty))

end Tiny

/-- packed and still loose (pack cut after the meta batch): each blob is stat-ed once, not twice -/
example : statBlobs Tiny.s3cut [Tiny.rF, Tiny.rA, [3], Tiny.rB] = [(Tiny.rF, 2), (Tiny.rA, 2), (Tiny.rB, 1)] := by decide

/-- the hypotheses of the pack / read theorems hold in a non-trivial state: one zip in `large` holding
two data blobs and the file schema blob, all three packed and no longer loose, the whole-file row
written; and, cut after the meta batch, the same three blobs packed **and** still loose -/
example : Inv Tiny.C Tiny.s3 ∧ Tiny.s3.small = [] ∧ Tiny.s3.large.length = 1 ∧ Tiny.s3.b.length = 3 ∧
    (get Tiny.s3.w [7]).bind (·.final) = some (3, 1) ∧
    Inv Tiny.C Tiny.s3cut ∧ Tiny.s3cut.small.length = 3 ∧ Tiny.s3cut.b.length = 3 :=
  ⟨C04_reachable_inv _ _ rfl _ Tiny.reach3, by decide, by decide, by decide, by decide,
   C04_reachable_inv _ _ rfl _ Tiny.reach3cut, by decide, by decide⟩

example : NothingRemoved Tiny.s3 ∧ (reindex true Tiny.s3).2 = .ok := by
  refine ⟨?_, by decide⟩
  intro x hx
  have : x = Tiny.rA ∨ x = Tiny.rB ∨ x = Tiny.rF := by
    have h3 : Tiny.s3.large = [([8], buildZip Tiny.lay [(Tiny.rA, [10, 11]), (Tiny.rB, [20])] [(Tiny.rF, [30, 31])] [7] 3 0)] := by decide
    rw [h3] at hx
    simp [inSomeZip, zipBlobRows, buildZip, mkEntries, mkSchema, Tiny.lay] at hx
    rcases hx with (h | h) | h
    · exact Or.inl h.symm
    · exact Or.inr (Or.inl h.symm)
    · exact Or.inr (Or.inr h.symm)
  rcases this with rfl | rfl | rfl <;> decide

/-- the integrity check in the tiny world: a pack cut right after the zip was stored (2 writes) leaves a
zip without rows – fast recovery is what the check asks for; the complete state asks for nothing -/
example : ZInv St.empty ∧ checkLargeIntegrity Tiny.s3 = .none ∧
    checkLargeIntegrity (receive Tiny.env Tiny.s2 ⟨some 2, 0, false⟩ Tiny.rF (Tiny.C Tiny.rF) [Tiny.lay] 10).s = .fast :=
  ⟨zinv_empty, by decide, by decide⟩

/-- in the tiny world: the pack completes, the file is plain, and reading it back from offset 1 gives its
last two bytes -/
example : (packFile Tiny.env (putSmall Tiny.s2 Tiny.rF (Tiny.C Tiny.rF)) Budget.unlimited Tiny.rF [Tiny.lay] 10).ok = true ∧
    simpleParts Tiny.K Tiny.C scanFuel [⟨.blob, Tiny.rA, 0, 2⟩, ⟨.blob, Tiny.rB, 0, 1⟩] = true ∧
    fileBytes Tiny.K (putSmall Tiny.s2 Tiny.rF (Tiny.C Tiny.rF)) Tiny.rF = some [10, 11, 20] ∧
    openWholeRef Tiny.s3 [7] 1 = .ok 3 [11, 20] := by decide

/-- the hypotheses of `C04_reindex_rebuilds_whole_rows` hold in the tiny world, and a full recovery there
gives back the very same meta rows (`b:`, `w:`, `z:`) the pack wrote -/
example : get (putSmall Tiny.s2 Tiny.rF (Tiny.C Tiny.rF)).w [7] = none ∧ (putSmall Tiny.s2 Tiny.rF (Tiny.C Tiny.rF)).large = [] ∧
    (reindex true Tiny.s3).2 = .ok ∧ (reindex true Tiny.s3).1.b = Tiny.s3.b ∧ (reindex true Tiny.s3).1.w = Tiny.s3.w ∧
    (reindex true Tiny.s3).1.z = Tiny.s3.z := by decide

/-- **removed blobs come back on recovery** (the documented TODO at the end of `reindex`): the full
statement – recovery never changes what clients see – is false.  Witness: pack, remove a chunk, recover
in fast mode: the chunk is fetchable again. -/
theorem C04_recover_invisible_counterexample :
    ¬ (∀ (C : Ref → Bytes) (c : Cfg) (s s' : St) (full : Bool), c.legacy = false → Reachable C c s →
        reindex full s = (s', .ok) → ∀ r, fetch s' r = fetch s r) := by
  intro hall
  have hr : Reachable Tiny.C Tiny.cfg (remove Tiny.cfg Tiny.s3 Tiny.rA) := .rm _ _ Tiny.reach3
  have hok : (reindex false (remove Tiny.cfg Tiny.s3 Tiny.rA)).2 = .ok := by decide
  have := hall Tiny.C Tiny.cfg _ (reindex false (remove Tiny.cfg Tiny.s3 Tiny.rA)).1 false rfl hr
    (Prod.ext rfl hok) Tiny.rA
  revert this
  decide

namespace Tiny2

/-- a second tiny world, zip limit 26: the file schema blob `rF` (2 bytes) lets both chunks into one zip,
the schema blob `rG` of the same file under another name (3 bytes) only the first one -/
def rG : Ref := [5]
def C : Ref → Bytes := fun r => if r = Tiny.rA then [10, 11] else if r = Tiny.rB then [20] else if r = rG then [30, 31, 32] else [30, 31]
def cfg : Cfg := ⟨26, 2, 10, 5, 1, false⟩
def K : Ref → Kind := fun r =>
  if r = Tiny.rF ∨ r = rG then .file true [⟨.blob, Tiny.rA, 0, 2⟩, ⟨.blob, Tiny.rB, 0, 1⟩] else .raw
def H : Bytes → Ref := fun _ => [7]
def t1 : St := (receive ⟨cfg, K, H⟩ St.empty Budget.unlimited Tiny.rA (C Tiny.rA) [] 10).s
def t2 : St := (receive ⟨cfg, K, H⟩ t1 Budget.unlimited Tiny.rB (C Tiny.rB) [] 10).s
/-- the first pack is cut after the meta batch of its only zip (which holds both chunks) -/
def t3 : St := (receive ⟨cfg, K, H⟩ t2 ⟨some 3, 0, false⟩ Tiny.rF (C Tiny.rF) [⟨[8], 20, 5, [10]⟩] 10).s
/-- the same bytes under the other name: two zips, the first with one chunk -/
def t4 : St := (receive ⟨cfg, K, H⟩ t3 Budget.unlimited rG (C rG) [⟨[18], 20, 5, [10]⟩, ⟨[19], 20, 5, [10]⟩] 10).s

theorem reach4 : Reachable C cfg t4 :=
  .recv _ K H _ rG _ 10 (.recv _ K H _ Tiny.rF _ 10 (.recv _ K H _ Tiny.rB [] 10 (.recv _ K H _ Tiny.rA [] 10 .empty)))

end Tiny2

/-- **recovery can fail** (`hasDups` panics): the full statement "after any history of packs, cut
anywhere, recovery from the zips succeeds" is false.  Witness: a pack cut after its first zip, the same
bytes packed under another name with a different split; `large` then holds two zips with the same
whole ref and part index but different data sizes (3 zips in all), and both recovery modes panic.
The recovery theorems above therefore carry the explicit guard `reindex full s = (s', .ok)`. -/
theorem C04_recover_succeeds_counterexample :
    ¬ (∀ (C : Ref → Bytes) (c : Cfg) (s : St) (full : Bool), c.legacy = false → Reachable C c s →
        (reindex full s).2 = .ok) := by
  intro hall
  have h1 := hall Tiny2.C Tiny2.cfg Tiny2.t4 false rfl Tiny2.reach4
  revert h1
  decide

example : Tiny2.t4.large.length = 3 ∧ (reindex false Tiny2.t4).2 = .panic ∧ (reindex true Tiny2.t4).2 = .panic ∧
    openWholeRef Tiny2.t4 [7] 0 = .ok 3 [10, 11, 20] := by decide

/-- the code before the `fix:` commit (`legacy = true`): removing a blob that is packed and still loose
(a pack cut after its meta batch) left it fetchable -/
theorem C04_remove_legacy_counterexample :
    fetch (remove { Tiny.cfg with legacy := true } Tiny.s3cut Tiny.rA) Tiny.rA = .ok [10, 11] ∧
    fetch (remove Tiny.cfg Tiny.s3cut Tiny.rA) Tiny.rA = .notExist := by decide

/-- the code before the `fix:` commit (`legacy = true`) did not terminate when not even the first chunk
fits under the zip size limit: every iteration stores one more zip without data and consumes nothing
(here: zip limit 12 bytes, 20 iterations, 20 empty zips, still not done); the repaired code returns an
error at once and stores nothing -/
theorem C04_pack_legacy_nontermination_counterexample :
    let lays := (List.range 20).map (fun i => (⟨[100 + i], 10, 5, []⟩ : ZipLayout))
    let tbl : List Chunk := [⟨Tiny.rA, 2, [(Tiny.rF, [30, 31])]⟩, ⟨Tiny.rB, 1, [(Tiny.rF, [30, 31])]⟩]
    let old := packLoop ⟨{ Tiny.cfg with zipMax := 12, legacy := true }, Tiny.K, fun _ => [7]⟩ true tbl [7] 3 20
      (putSmall Tiny.s2 Tiny.rF [30, 31]) Budget.unlimited [Tiny.rA, Tiny.rB] 0 0 none lays 0 0 []
    let new := packLoop ⟨{ Tiny.cfg with zipMax := 12 }, Tiny.K, fun _ => [7]⟩ true tbl [7] 3 20
      (putSmall Tiny.s2 Tiny.rF [30, 31]) Budget.unlimited [Tiny.rA, Tiny.rB] 0 0 none lays 0 0 []
    old.outOfFuel = true ∧ old.zips.length = 20 ∧ old.s.large.length = 20 ∧
    new.outOfFuel = false ∧ new.ok = false ∧ new.zips = [] ∧ new.s.large = [] := by decide

end Pk.BP
