import PkVerif.Lemmas.FileSchema
import PkVerif.Gen.C15
/-!
# C15 – files and directories written as schema blobs read back exactly

Model: `PkVerif/Model/FileSchema.lean` (pkg/schema filewriter.go, filereader.go, schema.go
`SetStaticSetMembers`, dirreader.go `staticSet`).  Every statement is for all inputs: all contents, all
answers of the rolling checksum and of the EOF look-ahead (`In`), all well-formed part trees of any
depth, all offsets and lengths, all member lists.

The reader theorems are about the code after the `fix:` commit (F-C15-1); `C15_read_old_counterexample`
keeps the old behaviour's witness.
-/
namespace Pk.C15
open Pk Pk.FS

/-- the chunker's constants as they are in the source right now -/
def genCfg : Cfg :=
  { maxBlobSize := Gen.schemaMaxBlobSize, firstChunkSize := Gen.firstChunkSize,
    tooSmallThreshold := Gen.tooSmallThreshold }

/-! ## writer -/

/-- The chunks of the span tree, in tree order, spell the input – for every content, every answer
of the rolling checksum and every EOF look-ahead; the reported size is the input's length and the
chunks handed to the blob server are exactly the leaves of the tree. -/
theorem C15_chunks_reassemble (c : Cfg) (input : List In) :
    (chunksL (writeFileChunks c input).2.1).flatten = input.map In.byte ∧
    (writeFileChunks c input).1 = input.length ∧
    (writeFileChunks c input).2.2 = chunksL (writeFileChunks c input).2.1 := by
  have h := runChunker_fin c input
  exact ⟨h.content, h.n_eq.trans (by simp), h.uploads⟩

/-- No chunk exceeds `maxBlobSize` (any positive cap). -/
theorem C15_chunk_cap (c : Cfg) (hpos : 0 < c.maxBlobSize) (input : List In) :
    ∀ b ∈ chunksL (writeFileChunks c input).2.1, b.length ≤ c.maxBlobSize :=
  runChunker_cap c hpos input

/-- the side condition holds for the constant in the source, so the cap is 1 MiB there -/
theorem C15_gen_chunk_cap (input : List In) :
    ∀ b ∈ chunksL (writeFileChunks genCfg input).2.1, b.length ≤ Gen.schemaMaxBlobSize :=
  C15_chunk_cap genCfg (by decide) input

/-- a small configuration used by the examples: cap 8, first chunk 4, minimum 2 -/
def exCfg : Cfg := { maxBlobSize := 8, firstChunkSize := 4, tooSmallThreshold := 2 }
/-- 30 bytes; the rolling checksum "fires" at every third byte with varying strength -/
def exInput : List In :=
  (List.range 30).map (fun i => ⟨i, if i % 3 == 2 then some (13 + i % 5) else none, false⟩)

-- non-vacuity: the example input produces a nested tree (bytes blobs two levels deep) and 9 chunks
set_option maxRecDepth 10000 in
example : (chunksL (writeFileChunks exCfg exInput).2.1).length = 9 := by decide
set_option maxRecDepth 10000 in
example : (match writeFile exCfg exInput with | .ok (p, _) => depthL p | .error _ => 0) = 2 := by decide
example : 0 < exCfg.maxBlobSize := by decide

/-- `WriteFileFromReader` never fails in the tree builder (no "weird span" panic, no size mismatch in
`populateParts`), the parts of the file blob denote the input, are well-formed, and sum to its length. -/
theorem C15_write_parts_denote (c : Cfg) (input : List In) :
    ∃ parts objs, writeFile c input = .ok (parts, objs) ∧
      denoteL parts = input.map In.byte ∧ wfL parts = true ∧ sumPartsSize parts = input.length := by
  obtain ⟨parts, ups, h1, h2, h3, _, h5, _⟩ := writeFile_spec c input
  exact ⟨parts, _, h1, h2, h3, h5⟩

/-- Every object handed to the blob server references only objects handed over before it, and the
file schema blob comes last (filewriter.go:176-187 waits for all of them). -/
theorem C15_all_referenced_stored (c : Cfg) (input : List In) (parts : List Part) (objs : List Obj)
    (h : writeFile c input = .ok (parts, objs)) :
    (∃ pre, objs = pre ++ [.file parts]) ∧
    ∀ pre o post, objs = pre ++ o :: post → ∀ r ∈ o.refs, r ∈ pre := by
  obtain ⟨parts', ups, h1, _, _, _, _, h6⟩ := writeFile_spec c input
  rw [h1] at h
  injection h with h
  injection h with hp ho
  subst hp; subst ho
  refine ⟨⟨_, rfl⟩, ?_⟩
  intro pre o post he r hr
  rw [he] at h6
  exact (Ordered_prefix pre _ o post h6 r hr).elim False.elim id

-- non-vacuity: the example write hands over 9 chunks, 3 bytes schema blobs and the file blob
set_option maxRecDepth 10000 in
example : (match writeFile exCfg exInput with | .ok (_, o) => o.length | .error _ => 0) = 13 := by decide

/-- Over a blob server that may refuse blobs (`fails i` = the i-th upload fails, for EVERY such
assignment): if the write reports success, then no upload failed – every object of the list was
stored –, the list ends with the file blob and is closed under references (so everything the returned
file blob references, transitively, is stored), and the file reads back as the input. -/
theorem C15_success_all_stored (fails : Nat → Bool) (c : Cfg) (input : List In) (parts : List Part)
    (objs : List Obj) (h : writeFileF fails c input = .ok (parts, objs)) :
    (∀ i, i < objs.length → fails i = false) ∧
    (∃ pre, objs = pre ++ [.file parts]) ∧
    (∀ pre o post, objs = pre ++ o :: post → ∀ r ∈ o.refs, r ∈ pre) ∧
    denoteL parts = input.map In.byte ∧ wfL parts = true := by
  obtain ⟨hw, hf⟩ := writeFileF_ok fails c input parts objs h
  obtain ⟨h1, h2⟩ := C15_all_referenced_stored c input parts objs hw
  obtain ⟨p', o', h3, h4, h5, _⟩ := C15_write_parts_denote c input
  rw [hw] at h3
  injection h3 with h3
  injection h3 with hp _
  subst hp
  exact ⟨hf, h1, h2, h4, h5⟩

/-- the other direction: a refused blob – chunk, bytes schema blob or the file blob, whichever and
however many – always makes the write report an error. -/
theorem C15_failed_upload_reported (fails : Nat → Bool) (c : Cfg) (input : List In) (parts : List Part)
    (objs : List Obj) (hw : writeFile c input = .ok (parts, objs)) (i : Nat) (hi : i < objs.length)
    (hfail : fails i = true) : ∃ e, writeFileF fails c input = .error e := by
  cases hr : writeFileF fails c input with
  | error e => exact ⟨e, rfl⟩
  | ok po =>
    rcases po with ⟨p', o'⟩
    obtain ⟨hw', hf⟩ := writeFileF_ok fails c input p' o' hr
    rw [hw] at hw'
    injection hw' with hw'
    injection hw' with _ ho
    subst ho
    rw [hf i hi] at hfail
    cases hfail

-- non-vacuity: refusing the last chunk (upload 8 of 13) of the example write is reported …
set_option maxRecDepth 10000 in
example : (match writeFileF (fun i => i == 8) exCfg exInput with | .error .upload => true | _ => false) = true := by
  decide
-- … and with nothing refused the fallible writer succeeds
set_option maxRecDepth 10000 in
example : (match writeFileF (fun _ => false) exCfg exInput with | .ok (_, o) => o.length | _ => 0) = 13 := by
  decide

/-! ## reader -/

/-- `ReadAt` over ANY well-formed part tree (any depth; offsets, sub-ranges, holes, nested bytes)
returns exactly the requested slice of the bytes the tree denotes, with `io.EOF` at or past the end,
`io.ErrUnexpectedEOF` for a read that runs over the end and `nil` otherwise. -/
theorem C15_read_denotes (parts : List Part) (hwf : wfL parts = true) (off n : Nat) :
    readAt parts off n = (slice (denoteL parts) off n, readStatus (sumPartsSize parts) off n) :=
  readAtD_spec (depthL parts) parts hwf (Nat.le_refl _) off n

/-- the same through `Seek` + `Read` (io.SectionReader): never more than what is left -/
theorem C15_seek_read_denotes (parts : List Part) (hwf : wfL parts = true) (pos n : Nat) :
    seekRead parts pos n
      = (slice (denoteL parts) pos n, if sumPartsSize parts ≤ pos then .eof else .nil) := by
  unfold seekRead
  by_cases h : sumPartsSize parts ≤ pos
  · simp only [h, if_true]
    rw [slice_nil_of_le _ _ _ (by rw [denoteL_length parts hwf]; exact h)]
  · simp only [h, if_false]
    rw [C15_read_denotes parts hwf]
    have hl := denoteL_length parts hwf
    congr 1
    · unfold slice
      rw [List.take_eq_take_iff]
      simp only [List.length_drop]; omega
    · unfold readStatus
      have : ¬ sumPartsSize parts < pos + min n (sumPartsSize parts - pos) := by omega
      simp [h, this]

/-- a tree with an offset part whose blob continues past it, a hole, and nested bytes with sub-ranges -/
def exTree : List Part :=
  [.blob [0, 1, 2, 3, 4, 5, 6, 7, 8, 9] 2 4,
   .bytes [.hole 2, .bytes [.blob [20, 21, 22, 23, 24] 1 3, .hole 1] 1 3, .blob [30, 31] 0 2] 1 5,
   .blob [10, 11, 12, 13] 0 3]

example : wfL exTree = true := by decide
example : depthL exTree = 2 := by decide
example : denoteL exTree = [2, 3, 4, 5, 0, 22, 23, 0, 30, 10, 11, 12] := by decide
example : readAt exTree 1 8 = ([3, 4, 5, 0, 22, 23, 0, 30], .nil) := by decide

/-- The code before the fix (`io.LimitReader(rsc, p0.Size)`): a read starting inside a part whose blob
continues past `offset+size` returns bytes from beyond the part instead of the next part's bytes. -/
theorem C15_read_old_counterexample :
    wfL [.blob [0, 1, 2, 3, 4, 5, 6, 7, 8, 9] 2 4, .blob [10, 11, 12, 13] 0 3] = true ∧
    (readAtD true 0 [.blob [0, 1, 2, 3, 4, 5, 6, 7, 8, 9] 2 4, .blob [10, 11, 12, 13] 0 3] 1 6).1
      = [3, 4, 5, 6, 11, 12] ∧
    slice (denoteL [.blob [0, 1, 2, 3, 4, 5, 6, 7, 8, 9] 2 4, .blob [10, 11, 12, 13] 0 3]) 1 6
      = [3, 4, 5, 10, 11, 12] := by decide

/-- `ForeachChunk` over a well-formed tree whose bytesRef parts cover their referents completely (what
the writer produces) visits, in order, chunks that spell the content. -/
theorem C15_foreach_chunk_denotes (parts : List Part) (hwf : wfL parts = true) (hfull : fullL parts = true) :
    (foreachChunk parts).2 = none ∧ denoteL (foreachChunk parts).1 = denoteL parts :=
  foreachChunk_spec parts hwf hfull

example : fullL [.bytes [.blob [1, 2] 0 2, .hole 1] 0 3, .blob [3] 0 1] = true := by decide

/-- Round trip: what `WriteFileFromReader` stores reads back, at every offset and length, as the
input – for every content, every split oracle, every EOF look-ahead. -/
theorem C15_write_then_read (c : Cfg) (input : List In) (parts : List Part) (objs : List Obj)
    (h : writeFile c input = .ok (parts, objs)) (off n : Nat) :
    readAt parts off n = (slice (input.map In.byte) off n, readStatus input.length off n) ∧
    denoteL (foreachChunk parts).1 = input.map In.byte := by
  obtain ⟨parts', ups, h1, h2, h3, h4, h5, _⟩ := writeFile_spec c input
  rw [h1] at h
  injection h with h
  injection h with hp _
  subst hp
  refine ⟨?_, ?_⟩
  · rw [C15_read_denotes parts' h3, h2, h5]
  · rw [(foreachChunk_spec parts' h3 h4).2, h2]

/-! ## static sets -/

/-- Spreading any member list over static-set blobs and merging them back gives the original list,
and every subset a blob merges is among the returned `allSubsets` (so uploading what
`SetStaticSetMembers` returns is enough) – for every limit ≥ 3. -/
theorem C15_staticset_roundtrip (M : Nat) (hM : 3 ≤ M) (ms : List Nat) :
    ∃ top all, spread M ms = .ok (top, all) ∧ staticSet top = ms ∧
      ∀ s ∈ top :: all, ∀ c ∈ s.mergeSets, c ∈ all := by
  obtain ⟨t, a, h1, h2, h3, h4⟩ := setStatic_spec M hM (ms.length + 1) ms (Nat.lt_succ_self _)
  refine ⟨t, a, h1, h2, ?_⟩
  intro s hs
  rcases List.mem_cons.1 hs with rfl | hs
  · exact h3
  · exact h4 s hs

/-- the side condition on the limit in the source -/
theorem C15_gen_staticset_limit : 3 ≤ Gen.maxStaticSetMembers := by decide

example : (match spread 3 (List.range 11) with
    | .ok (t, a) => (staticSet t, a.length, t.mergeSets.length) | .error _ => ([], 0, 0))
    = (List.range 11, 7, 3) := by decide

/-- why the side condition is needed: with the limit lowered to 2 the recursion on 4 members calls
itself on the same 4 members (the model's fuel runs out); with 1 or 0 it divides by zero. -/
theorem C15_staticset_small_limit_counterexample :
    (match spread 2 [0, 1, 2, 3] with | .error .diverge => true | _ => false) = true ∧
    (match spread 1 [0, 1] with | .error .panic => true | _ => false) = true ∧
    (match spread 0 [0] with | .error .panic => true | _ => false) = true := by decide

end Pk.C15
