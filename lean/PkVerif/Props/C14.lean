import PkVerif.Lemmas.Conc
import PkVerif.Gen.C14
/-!
# C14 – concurrent clients see linearizable, race-free stores and index   (PARTIAL by design)

What is a theorem here: the **logic** of the locking.  In the interleaving model of
`PkVerif/Model/Conc.lean` – any number of clients, each running one public call at a time, a call
being the sequence of atomic sections that the Go code delimits by taking/releasing its mutex or by
touching the OS / its index, ANY interleaving of the sections of different calls – every completed
call answers what the sequential reference map `Pk.RefMap` answers at a designated linearisation
point inside the call's invocation/response interval (`C14_linearizable`, by forward simulation),
and every acknowledged, never-removed blob is in the final state (`C14_acked_survive`).

Where today's code does not satisfy this, the model reproduces the code and the theorem carries the
deviation as an explicit decidable guard (`dpAnom`, `fsAnom`; `C14_anomalies_confined` says what they
are) next to a concrete counterexample schedule:

* files: `ReceiveBlob` answers an error when the blob is removed between its `Rename` and the `Lstat`
  that follows (`C14_files_recv_err_counterexample`);
* diskpacked: `RemoveBlobs` zeroes the data before the index row is dropped; a `Fetch` in between
  returns zero bytes (`C14_diskpacked_fetch_zeroed_counterexample`);
* files, diskpacked: `EnumerateBlobs` is a scan of the live directory tree / index, not a snapshot
  (`C14_enum_scan_counterexample`).

What is NOT a theorem (and cannot be one in this model): that a section really is atomic.  That needs
(a) every access to the shared fields to be under the lock – checked syntactically on the source by
`/verif/extract` (fact kind Locks) and stated on the regenerated table as
`C14_gen_lock_discipline`, `C14_gen_no_nested_lock`; and (b) the Go memory model and scheduler,
which are not modelled: absence of data races in the binary is only *observed*, by the race detector
on the schedules the harness explores.
-/
namespace Pk.Conc
open Pk Pk.SMap Pk.RefMap

/-! ## linearizability, for every store whose sections satisfy the simulation obligations -/

/-- For ANY number of clients and ANY interleaving of their atomic sections, the recorded trace is
linearizable: every call has one linearisation event between its invocation and its response, the
operations taken in the order of these events form a run of the reference map, and every response
equals the reference map's answer at the call's linearisation event (or is an anomaly that `anom`
lists explicitly). -/
theorem C14_linearizable {content : Bytes → Bytes} {S : CStore} {anom : Op → Out → Bool}
    (R : CRefines content S anom) (sched : List Lbl) (hwk : SchedWK content sched) :
    Linearizable anom (exec S sched).trace = true :=
  (sim_exec R sched hwk).ok

/-- the shared state at the end is the reference map after the linearised history -/
theorem C14_final_state_is_sequential {content : Bytes → Bytes} {S : CStore} {anom : Op → Out → Bool}
    (R : CRefines content S anom) (sched : List Lbl) (hwk : SchedWK content sched) :
    R.abs (exec S sched).sh = runState [] (linOps (exec S sched).trace) := by
  have hs := sim_exec R sched hwk
  rw [← hs.m_eq]
  exact (replay_runState anom _ hs.ok).1

/-- every response in an accepted trace belongs to a call that passed its linearisation point (the
check `Linearizable` moreover forces the order invocation < linearisation < response per client) -/
theorem C14_response_has_lin_point (anom : Op → Out → Bool) (tr : List Ev)
    (h : Linearizable anom tr = true) (c : Nat) (op : Op) (o : Out) (hr : Ev.ret c op o ∈ tr) :
    ∃ c', Ev.lin c' op ∈ tr :=
  mem_linOps ((replay_runState anom tr h).2 c op o hr)

/-- All acknowledged, unremoved blobs are present in the final state: if some client's receive of `k`
has returned and no client ever invoked a remove of `k`, the final state has `k` – whatever the
interleaving, whatever else is still in flight. -/
theorem C14_acked_survive {content : Bytes → Bytes} {S : CStore} {anom : Op → Out → Bool}
    (R : CRefines content S anom) (sched : List Lbl) (hwk : SchedWK content sched)
    (k v : Bytes) (c : Nat) (o : Out) (hack : Ev.ret c (.recv k v) o ∈ (exec S sched).trace)
    (hnorm : ∀ c', Lbl.call c' (.rm k) ∉ sched) :
    has (R.abs (exec S sched).sh) k = true := by
  have hs := sim_exec R sched hwk
  obtain ⟨_, hret⟩ := replay_runState anom _ hs.ok
  rw [C14_final_state_is_sequential R sched hwk]
  apply has_runState kasc_nil k _ (Or.inr ⟨v, hret c _ o hack⟩)
  intro op hop
  obtain ⟨c', hl⟩ := mem_linOps hop
  exact exec_ops S (fun op => op ≠ .rm k) sched
    (fun c op hm e => hnorm c (by rw [← e]; exact hm)) _ hl

/-! ## the three stores -/

/-- memory.Storage (every method one section under `s.mu`): linearizable at full strength -/
theorem C14_lockmap_linearizable (content : Bytes → Bytes) (sched : List Lbl) (hwk : SchedWK content sched) :
    Linearizable noAnom (exec lockMap sched).trace = true :=
  C14_linearizable (lockMapRefines content) sched hwk

/-- diskpacked (unlocked duplicate check, then the locked append; remove = zero the data, then drop
the index row; enumerate = a scan): linearizable up to the two listed anomalies -/
theorem C14_diskpacked_linearizable_partial (content : Bytes → Bytes) (sched : List Lbl)
    (hwk : SchedWK content sched) : Linearizable dpAnom (exec dpStore sched).trace = true :=
  C14_linearizable (dpRefines content) sched hwk

/-- files/localdisk (mkdir / temp file / rename / lstat; fetch = stat then open): linearizable up to the
two listed anomalies -/
theorem C14_files_linearizable_partial (content : Bytes → Bytes) (sched : List Lbl)
    (hwk : SchedWK content sched) : Linearizable fsAnom (exec filesStore sched).trace = true :=
  C14_linearizable (fsRefines content) sched hwk

/-- the guards of the two partial theorems say exactly this: receive, stat and remove on diskpacked,
and fetch, stat and remove on files, always answer like the reference map; a diskpacked fetch may
only deviate by answering all-zero bytes, a files receive only by answering `err`; nothing is
claimed about the answer of an enumerate -/
theorem C14_anomalies_confined (op : Op) (o : Out) :
    (dpAnom op o = true → (∃ k b, op = .fetch k ∧ o = .bytes b ∧ b = zeros b.length) ∨ (∃ a n r, op = .enum a n ∧ o = .refs r)) ∧
    (fsAnom op o = true → (∃ k v, op = .recv k v ∧ o = .err) ∨ (∃ a n r, op = .enum a n ∧ o = .refs r)) := by
  constructor
  · intro h
    cases op <;> cases o <;> simp [dpAnom] at h
    · rename_i k b; exact Or.inl ⟨k, b, rfl, rfl, h⟩
    · rename_i a n r; exact Or.inr ⟨a, n, r, rfl, rfl⟩
  · intro h
    cases op <;> cases o <;> simp [fsAnom] at h
    · rename_i k v; exact Or.inl ⟨k, v, rfl, rfl⟩
    · rename_i a n r; exact Or.inr ⟨a, n, r, rfl, rfl⟩

/-! ## counterexamples: the same stores are NOT linearizable at full strength -/

/-- blobs are content-addressed: in the counterexamples every ref denotes the bytes `[7]` -/
def cex : Bytes → Bytes := fun _ => [7]

/-- client 0 receives `[1]`; after its rename client 1 removes the blob; client 0's final Lstat fails -/
def filesRecvErrSched : List Lbl :=
  [.call 0 (.recv [1] [7]), .step 0, .step 0, .step 0, .call 1 (.rm [1]), .step 1, .step 0]

theorem C14_files_recv_err_counterexample :
    SchedWK cex filesRecvErrSched ∧
    Linearizable noAnom (exec filesStore filesRecvErrSched).trace = false ∧
    Ev.ret 0 (.recv [1] [7]) .err ∈ (exec filesStore filesRecvErrSched).trace := by
  refine ⟨?_, by decide, by decide⟩
  intro c op h
  simp [filesRecvErrSched] at h
  rcases h with ⟨_, rfl⟩ | ⟨_, rfl⟩ <;> simp [Op.WK, cex]

/-- `[1]` is stored; client 0's remove has zeroed the data but not yet dropped the index row when
client 1 fetches: the fetch answers `[0]` instead of `[7]` -/
def dpFetchZeroedSched : List Lbl :=
  [.call 0 (.recv [1] [7]), .step 0, .step 0, .call 0 (.rm [1]), .step 0, .call 1 (.fetch [1]), .step 1, .step 0]

theorem C14_diskpacked_fetch_zeroed_counterexample :
    SchedWK cex dpFetchZeroedSched ∧
    Linearizable noAnom (exec dpStore dpFetchZeroedSched).trace = false ∧
    Ev.ret 1 (.fetch [1]) (.bytes [0]) ∈ (exec dpStore dpFetchZeroedSched).trace := by
  refine ⟨?_, by decide, by decide⟩
  intro c op h
  simp [dpFetchZeroedSched] at h
  rcases h with ⟨_, rfl⟩ | ⟨_, rfl⟩ | ⟨_, rfl⟩ <;> simp [Op.WK, cex]

/-- `[2]` is stored; client 0's enumerate has listed it and pauses; client 1 receives `[1]` and then
`[3]` (both acknowledged, one after the other); the enumerate goes on and lists `[3]` but not `[1]` –
no sequential order of the three calls explains that answer -/
def enumScanSched : List Lbl :=
  [.call 1 (.recv [2] [7]), .step 1, .step 1,
   .call 0 (.enum [] 10), .step 0,
   .call 1 (.recv [1] [7]), .step 1, .step 1,
   .call 1 (.recv [3] [7]), .step 1, .step 1,
   .step 0, .step 0]

/-- the same on files (a receive there has four sections) -/
def enumScanSchedFiles : List Lbl :=
  [.call 1 (.recv [2] [7]), .step 1, .step 1, .step 1, .step 1,
   .call 0 (.enum [] 10), .step 0,
   .call 1 (.recv [1] [7]), .step 1, .step 1, .step 1, .step 1,
   .call 1 (.recv [3] [7]), .step 1, .step 1, .step 1, .step 1,
   .step 0, .step 0]

theorem C14_enum_scan_counterexample :
    SchedWK cex enumScanSched ∧
    Linearizable noAnom (exec dpStore enumScanSched).trace = false ∧
    Ev.ret 0 (.enum [] 10) (.refs [([2], 1), ([3], 1)]) ∈ (exec dpStore enumScanSched).trace ∧
    Linearizable noAnom (exec filesStore enumScanSchedFiles).trace = false := by
  refine ⟨?_, by decide, by decide, by decide⟩
  intro c op h
  simp [enumScanSched] at h
  rcases h with ⟨_, rfl⟩ | ⟨_, rfl⟩ | ⟨_, rfl⟩ | ⟨_, rfl⟩ <;> simp [Op.WK, cex]

/-! ## the hypotheses are satisfiable: concrete overlapping runs -/

/-- three clients on diskpacked with their sections interleaved (two concurrent receives of the same
blob, a remove and a stat in between): accepted, with a non-trivial trace -/
example :
    let sched : List Lbl := [.call 0 (.recv [1] [7]), .call 1 (.recv [1] [7]), .step 0, .step 1, .call 2 (.rm [1]),
      .step 2, .step 1, .step 2, .step 0, .call 2 (.stat [1]), .step 2]
    SchedWK cex sched ∧ Linearizable dpAnom (exec dpStore sched).trace = true ∧
      Linearizable noAnom (exec dpStore sched).trace = true ∧ (exec dpStore sched).trace.length = 12 := by
  refine ⟨?_, by decide, by decide, by decide⟩
  intro c op h
  simp at h
  rcases h with ⟨_, rfl⟩ | ⟨_, rfl⟩ | ⟨_, rfl⟩ | ⟨_, rfl⟩ <;> simp [Op.WK, cex]

example : (lockMapRefines cex).Inv (exec lockMap [.call 0 (.recv [1] [7]), .step 0]).sh :=
  (sim_exec (lockMapRefines cex) _ (by intro c op h; simp at h; rcases h with ⟨_, rfl⟩; simp [Op.WK, cex])).inv

/-- `C14_acked_survive` applies: the receive of `[1]` is acknowledged while another client's call is
still in flight, nobody removes it -/
example :
    let sched : List Lbl := [.call 0 (.recv [1] [7]), .call 1 (.recv [2] [7]), .step 0, .step 1, .step 0, .step 0, .step 0]
    Ev.ret 0 (.recv [1] [7]) (.sized 1) ∈ (exec filesStore sched).trace ∧ (∀ c', Lbl.call c' (.rm [1]) ∉ sched) := by
  refine ⟨by decide, ?_⟩
  intro c' h
  simp at h

/-! ## lock discipline, on the table regenerated from the source -/

/-- the accesses that are genuinely outside their lock today: none.  (The two that were – DESIGN §12
rows 26 and 27: `diskpacked.(*storage).fetch` read `s.fds` without `s.mu` while `nextPack` appends to
it; `index.(*Index).populateDeleteClaim` called `GetBlobMeta`, i.e. read the corpus, before `ix.Lock()`
while `addBlob` writes it – were confirmed by the race detector and repaired in /repo.) -/
def knownUnguarded : List Gen.GuardedAccess := []

/-- every syntactic access to a lock-guarded field of diskpacked.storage, memory.Storage,
proxycache.Storage, encrypt.storage.smallMeta and index.Index (incl. corpus-mutating calls and calls of
the caller-holds-the-lock read API) is dominated by its lock -/
theorem C14_gen_lock_discipline : ∀ a ∈ Gen.guardedAccesses, a.held = true ∨ a ∈ knownUnguarded := by
  decide

/-- no method calls, with the lock held, a method of the same struct that takes the lock itself
(DESIGN §12 row 32: `search.(*Handler).serveClaims` held `index.RLock` around `GetClaims`, which takes it
again – repaired in /repo) -/
theorem C14_gen_no_nested_lock : Gen.nestedLocks = [] := by decide

/-- the table is not vacuous: every (struct, field) pair of the expectation table has accesses, and some
are writes -/
theorem C14_gen_table_covers_expectations :
    (∀ p ∈ Gen.guardedFields, ∃ a ∈ Gen.guardedAccesses, a.struct = p.1 ∧ a.field = p.2) ∧
    (∃ a ∈ Gen.guardedAccesses, a.write = true) ∧ 50 ≤ Gen.guardedAccesses.length := by
  decide

end Pk.Conc
