/-!
# Base: strict total orders on lists, cursor filtering, paging

`filter_gt_eq_drop` – for ANY cursor, what lies after it in an ascending list is a suffix.
`pages_suffix` – following "cursor = last item of the page" with any limit ≥ 1 reproduces the
remaining list exactly once, in order.  Used by C01, C09, C18.
-/
namespace Pk

section Paging
variable {K : Type} (lt : K → K → Bool)

structure StrictTotal (lt : K → K → Bool) : Prop where
  irrefl : ∀ a, lt a a = false
  trans : ∀ a b c, lt a b = true → lt b c = true → lt a c = true
  total : ∀ a b, lt a b = true ∨ a = b ∨ lt b a = true

def Asc : List K → Prop
  | [] => True
  | [_] => True
  | a :: b :: t => lt a b = true ∧ Asc (b :: t)

def enumerate (keys : List K) (after : Option K) (limit : Nat) : List K :=
  ((match after with
    | none => keys
    | some a => keys.filter (fun k => lt a k))).take limit

def pages (keys : List K) (limit : Nat) : Nat → Option K → List K
  | 0, _ => []
  | fuel + 1, cur =>
    let page := enumerate lt keys cur limit
    match page.getLast? with
    | none => []
    | some last => page ++ pages keys limit fuel (some last)

theorem asc_tail {a : K} {l : List K} (h : Asc lt (a :: l)) : Asc lt l := by
  cases l with
  | nil => trivial
  | cons b t => exact h.2

theorem asc_head_lt (st : StrictTotal lt) {a : K} {l : List K} (h : Asc lt (a :: l)) :
    ∀ x ∈ l, lt a x = true := by
  induction l generalizing a with
  | nil => intro x hx; cases hx
  | cons b t ih =>
    intro x hx
    cases hx with
    | head => exact h.1
    | tail _ hx' => exact st.trans _ _ _ h.1 (ih (a := b) h.2 x hx')

/-- for ANY cursor `c`, what lies after it in an ascending list is a suffix -/
theorem filter_gt_eq_drop (st : StrictTotal lt) (l : List K) (h : Asc lt l) (c : K) :
    ∃ n, l.filter (fun k => lt c k) = l.drop n ∧ ∀ x ∈ l.take n, lt c x = false := by
  induction l with
  | nil => exact ⟨0, by simp, by simp⟩
  | cons a t ih =>
    by_cases hca : lt c a = true
    · refine ⟨0, ?_, by simp⟩
      have hall : ∀ x ∈ a :: t, lt c x = true := by
        intro x hx
        cases hx with
        | head => exact hca
        | tail _ hx' => exact st.trans _ _ _ hca (asc_head_lt lt st h x hx')
      simp only [List.drop]
      exact List.filter_eq_self.mpr hall
    · obtain ⟨n, hn, hpre⟩ := ih (asc_tail lt h)
      refine ⟨n + 1, ?_, ?_⟩
      · simp [List.filter, hca, hn]
      · intro x hx
        simp only [List.take] at hx
        cases hx with
        | head => simpa using hca
        | tail _ hx' => exact hpre x hx'

theorem filter_gt_split (st : StrictTotal lt) (pre r : List K) (c : K)
    (h : Asc lt (pre ++ c :: r)) :
    (pre ++ c :: r).filter (fun k => lt c k) = r := by
  induction pre with
  | nil =>
    have hall : ∀ x ∈ r, lt c x = true := asc_head_lt lt st h
    simp [List.filter, st.irrefl c, List.filter_eq_self.mpr hall]
  | cons a t ih =>
    have hac : lt a c = true := asc_head_lt lt st h c (by simp)
    have hca : lt c a = false := by
      cases hx : lt c a with
      | false => rfl
      | true =>
        have := st.trans _ _ _ hx hac
        rw [st.irrefl] at this; cases this
    have := ih (asc_tail lt h)
    simp [List.filter, hca] at this ⊢
    exact this

/-- Paging with any limit ≥ 1 visits every remaining key exactly once, in order. -/
theorem pages_suffix (st : StrictTotal lt) (limit : Nat) (hl : 0 < limit) :
    ∀ (fuel : Nat) (pre r : List K) (c : K), Asc lt (pre ++ c :: r) → r.length < fuel →
      pages lt (pre ++ c :: r) limit fuel (some c) = r := by
  intro fuel
  induction fuel with
  | zero => intro pre r c _ hf; cases hf
  | succ n ih =>
    intro pre r c hasc hf
    unfold pages
    simp only [enumerate, filter_gt_split lt st pre r c hasc]
    cases hr : (r.take limit).getLast? with
    | none =>
      have : r.take limit = [] := List.getLast?_eq_none_iff.mp hr
      cases r with
      | nil => rfl
      | cons x xs =>
        cases limit with
        | zero => cases hl
        | succ m => simp at this
    | some last =>
      simp only
      obtain ⟨ini, hini⟩ : ∃ ini, r.take limit = ini ++ [last] :=
        List.getLast?_eq_some_iff.mp hr
      have hsplit : r = ini ++ last :: r.drop limit := by
        have := List.take_append_drop limit r
        rw [hini] at this
        simpa [List.append_assoc] using this.symm
      have hkeys : pre ++ c :: r = (pre ++ c :: ini) ++ last :: r.drop limit := by
        have : pre ++ c :: r = pre ++ c :: (ini ++ last :: r.drop limit) :=
          congrArg (fun x => pre ++ c :: x) hsplit
        rw [this]; simp [List.append_assoc]
      have hlen : (r.drop limit).length < n := by
        have : (r.drop limit).length < r.length := by
          rw [List.length_drop]
          have : 0 < r.length := by
            cases r with
            | nil => simp at hini
            | cons _ _ => simp
          omega
        omega
      have hrec := ih (pre ++ c :: ini) (r.drop limit) last (by rw [← hkeys]; exact hasc) hlen
      rw [hkeys, hrec]
      exact List.take_append_drop limit r
end Paging

end Pk
