/-!
# Base: byte strings, Go's string order, hex and decimal codecs

Byte strings are `List Nat` (every element < 256 wherever that matters: stated as an explicit
hypothesis `AllByte`).  Core Lean only – this file is linked into the `pkmodel` driver.
-/
namespace Pk

abbrev Bytes := List Nat

def AllByte (b : Bytes) : Prop := ∀ x ∈ b, x < 256

instance (b : Bytes) : Decidable (AllByte b) := by unfold AllByte; infer_instance

/-- Go's `<` on strings / `bytes.Compare(a,b) < 0`: lexicographic, shorter prefix first. -/
def ltB : Bytes → Bytes → Bool
  | [], [] => false
  | [], _ :: _ => true
  | _ :: _, [] => false
  | a :: as, b :: bs => if a < b then true else if b < a then false else ltB as bs

def leB (a b : Bytes) : Bool := !ltB b a

theorem ltB_irrefl (a : Bytes) : ltB a a = false := by
  induction a with
  | nil => rfl
  | cons x xs ih => simp [ltB, ih]

theorem ltB_trans : ∀ (a b c : Bytes), ltB a b = true → ltB b c = true → ltB a c = true
  | [], [], _, h, _ => by simp [ltB] at h
  | [], _ :: _, [], _, h => by simp [ltB] at h
  | [], _ :: _, _ :: _, _, _ => by simp [ltB]
  | _ :: _, [], _, h, _ => by simp [ltB] at h
  | _ :: _, _ :: _, [], _, h => by simp [ltB] at h
  | x :: xs, y :: ys, z :: zs, h1, h2 => by
    simp only [ltB] at h1 h2 ⊢
    by_cases hxy : x < y
    · by_cases hyz : y < z
      · have : x < z := by omega
        simp [this]
      · by_cases hzy : z < y
        · simp [hyz, hzy] at h2
        · have : y = z := by omega
          subst this; simp [hxy]
    · by_cases hyx : y < x
      · simp [hxy, hyx] at h1
      · have hxy' : x = y := by omega
        subst hxy'
        simp only [Nat.lt_irrefl, if_false] at h1
        by_cases hyz : x < z
        · simp [hyz]
        · by_cases hzy : z < x
          · simp [hyz, hzy] at h2
          · have : x = z := by omega
            subst this
            simp only [Nat.lt_irrefl, if_false] at h2 ⊢
            exact ltB_trans xs ys zs h1 h2

theorem ltB_total : ∀ (a b : Bytes), ltB a b = true ∨ a = b ∨ ltB b a = true
  | [], [] => by simp
  | [], _ :: _ => by simp [ltB]
  | _ :: _, [] => by simp [ltB]
  | x :: xs, y :: ys => by
    simp only [ltB]
    by_cases hxy : x < y
    · simp [hxy]
    · by_cases hyx : y < x
      · simp [hyx, hxy]
      · have : x = y := by omega
        subst this
        simp only [Nat.lt_irrefl, if_false]
        rcases ltB_total xs ys with h | h | h
        · simp [h]
        · simp [h]
        · simp [h]

theorem ltB_asymm (a b : Bytes) (h : ltB a b = true) : ltB b a = false := by
  cases hb : ltB b a with
  | false => rfl
  | true => have := ltB_trans a b a h hb; rw [ltB_irrefl] at this; cases this

/-- `ltB` when the two strings share a prefix -/
theorem ltB_append_left (p a b : Bytes) : ltB (p ++ a) (p ++ b) = ltB a b := by
  induction p with
  | nil => rfl
  | cons x xs ih => simp [ltB, ih]

/-! ## lower-case hex -/

def hexDigit (n : Nat) : Nat := if n < 10 then 48 + n else 87 + n

theorem hexDigit_mono (a b : Nat) (hb : b < 16) (h : a < b) : hexDigit a < hexDigit b := by
  unfold hexDigit; split <;> split <;> omega

theorem hexDigit_inj (a b : Nat) (ha : a < 16) (hb : b < 16) (h : hexDigit a = hexDigit b) : a = b := by
  unfold hexDigit at h; split at h <;> split at h <;> omega

def hexEnc : Bytes → Bytes
  | [] => []
  | b :: bs => hexDigit (b / 16) :: hexDigit (b % 16) :: hexEnc bs

theorem hexEnc_length (b : Bytes) : (hexEnc b).length = 2 * b.length := by
  induction b with
  | nil => rfl
  | cons x xs ih => simp [hexEnc, ih]; omega

theorem hexEnc_append (a b : Bytes) : hexEnc (a ++ b) = hexEnc a ++ hexEnc b := by
  induction a with
  | nil => rfl
  | cons x xs ih => simp [hexEnc, ih]

/-- `hexVal` of pkg/blob/ref.go: `some v` for `0-9a-f`, `none` (bad) otherwise. -/
def hexVal (c : Nat) : Option Nat :=
  if 48 ≤ c ∧ c ≤ 57 then some (c - 48)
  else if 97 ≤ c ∧ c ≤ 102 then some (c - 97 + 10)
  else none

theorem hexVal_hexDigit (n : Nat) (h : n < 16) : hexVal (hexDigit n) = some n := by
  unfold hexVal hexDigit
  by_cases h10 : n < 10
  · simp only [h10, if_true]
    rw [if_pos (by omega)]; congr 1; omega
  · simp only [h10, if_false]
    rw [if_neg (by omega), if_pos (by omega)]; congr 1; omega

theorem hexDigit_hexVal (c v : Nat) (h : hexVal c = some v) : hexDigit v = c ∧ v < 16 := by
  unfold hexVal at h
  split at h
  · injection h with h; subst h; unfold hexDigit; split <;> omega
  · split at h
    · injection h with h; subst h; unfold hexDigit; split <;> omega
    · cases h

/-- decode an even-length lower-hex string; `none` if any char is bad or the length is odd -/
def hexDec : Bytes → Option Bytes
  | [] => some []
  | [_] => none
  | a :: b :: rest =>
    match hexVal a, hexVal b, hexDec rest with
    | some x, some y, some r => some ((x * 16 + y) :: r)
    | _, _, _ => none

theorem hexDec_hexEnc (b : Bytes) (h : AllByte b) : hexDec (hexEnc b) = some b := by
  induction b with
  | nil => rfl
  | cons x xs ih =>
    have hx : x < 256 := h x (by simp)
    have ih' := ih (fun y hy => h y (by simp [hy]))
    simp only [hexEnc, hexDec, hexVal_hexDigit (x / 16) (by omega), hexVal_hexDigit (x % 16) (by omega), ih']
    congr 2; omega

theorem hexEnc_hexDec : ∀ (s b : Bytes), hexDec s = some b → hexEnc b = s ∧ AllByte b
  | [], b, h => by
    simp [hexDec] at h; subst h; exact ⟨rfl, by intro x hx; cases hx⟩
  | [_], b, h => by simp [hexDec] at h
  | a :: c :: rest, b, h => by
    simp only [hexDec] at h
    cases ha : hexVal a with
    | none => simp [ha] at h
    | some x =>
      cases hc : hexVal c with
      | none => simp [ha, hc] at h
      | some y =>
        cases hr : hexDec rest with
        | none => simp [ha, hc, hr] at h
        | some r =>
          simp only [ha, hc, hr] at h
          injection h with h; subst h
          obtain ⟨hx1, hx2⟩ := hexDigit_hexVal a x ha
          obtain ⟨hy1, hy2⟩ := hexDigit_hexVal c y hc
          obtain ⟨ih1, ih2⟩ := hexEnc_hexDec rest r hr
          refine ⟨?_, ?_⟩
          · simp only [hexEnc, ih1]
            have h1 : (x * 16 + y) / 16 = x := by omega
            have h2 : (x * 16 + y) % 16 = y := by omega
            rw [h1, h2, hx1, hy1]
          · intro z hz
            cases hz with
            | head => omega
            | tail _ hz' => exact ih2 z hz'

/-- hex text order = byte order, for equal-length byte strings -/
theorem ltB_hexEnc (xs ys : Bytes) (hx : AllByte xs) (hy : AllByte ys)
    (hlen : xs.length = ys.length) :
    ltB (hexEnc xs) (hexEnc ys) = ltB xs ys := by
  induction xs generalizing ys with
  | nil => cases ys <;> simp_all [hexEnc, ltB]
  | cons a as ih =>
    cases ys with
    | nil => simp at hlen
    | cons b bs =>
      have ha : a < 256 := hx a (by simp)
      have hb : b < 256 := hy b (by simp)
      have ih' := ih bs (fun x h => hx x (by simp [h])) (fun y h => hy y (by simp [h])) (by simpa using hlen)
      simp only [hexEnc, ltB]
      by_cases h1 : a / 16 < b / 16
      · have := hexDigit_mono (a/16) (b/16) (by omega) h1
        have hab : a < b := by omega
        simp [this, hab]
      · by_cases h2 : b / 16 < a / 16
        · have := hexDigit_mono (b/16) (a/16) (by omega) h2
          have : ¬ hexDigit (a/16) < hexDigit (b/16) := by omega
          have hba : b < a := by omega
          have : ¬ a < b := by omega
          simp [*]
        · have heq : a / 16 = b / 16 := by omega
          simp only [heq, Nat.lt_irrefl, if_false]
          by_cases h3 : a % 16 < b % 16
          · have := hexDigit_mono (a%16) (b%16) (by omega) h3
            have hab : a < b := by omega
            simp [this, hab]
          · by_cases h4 : b % 16 < a % 16
            · have := hexDigit_mono (b%16) (a%16) (by omega) h4
              have : ¬ hexDigit (a%16) < hexDigit (b%16) := by omega
              have hba : b < a := by omega
              have : ¬ a < b := by omega
              simp [*]
            · have : a = b := by omega
              subst this
              simp [ih']

/-! ## conversions used by the driver (not by theorems) -/

def ofString (s : String) : Bytes := s.toUTF8.toList.map UInt8.toNat

def toHexString (b : Bytes) : String :=
  if b.isEmpty then "-" else String.ofList ((hexEnc b).map Char.ofNat)

/-- parse the driver's hex token (`-` = empty). Upper-case hex is not accepted. -/
def ofHexString (s : String) : Option Bytes :=
  if s == "-" then some [] else hexDec (ofString s)

/-- bytes that are printable ASCII are shown raw, everything else is hex: used only for refs text -/
def toAsciiString (b : Bytes) : String := String.ofList (b.map Char.ofNat)

end Pk
