import PkVerif.Base.Bytes
/-!
# Base: sorted association lists keyed by byte strings (`SMap`)

The canonical representation of "a map from blobref text to …": a list of pairs strictly ascending
by key (`KAsc`).  Two `KAsc` lists with the same `get` are equal (`SMap.ext`), so every algebraic
fact about maps reduces to a pointwise fact about `get`.
-/
namespace Pk

abbrev SMap (V : Type) := List (Bytes × V)

namespace SMap
variable {V : Type}

/-- strictly ascending by key -/
def KAsc (m : SMap V) : Prop := m.Pairwise (fun a b => ltB a.1 b.1 = true)

def get : SMap V → Bytes → Option V
  | [], _ => none
  | (k, v) :: rest, x => if x = k then some v else get rest x

def has (m : SMap V) (k : Bytes) : Bool := (get m k).isSome

/-- insert or replace, keeping the order -/
def ins (k : Bytes) (v : V) : SMap V → SMap V
  | [] => [(k, v)]
  | (k', v') :: rest =>
    if ltB k k' then (k, v) :: (k', v') :: rest
    else if k = k' then (k, v) :: rest
    else (k', v') :: ins k v rest

def del (k : Bytes) : SMap V → SMap V
  | [] => []
  | (k', v') :: rest => if k = k' then rest else (k', v') :: del k rest

def keys (m : SMap V) : List Bytes := m.map (·.1)

theorem kasc_nil : KAsc ([] : SMap V) := List.Pairwise.nil

theorem kasc_tail {p : Bytes × V} {m : SMap V} (h : KAsc (p :: m)) : KAsc m :=
  (List.pairwise_cons.mp h).2

theorem kasc_head_lt {p : Bytes × V} {m : SMap V} (h : KAsc (p :: m)) :
    ∀ q ∈ m, ltB p.1 q.1 = true := (List.pairwise_cons.mp h).1

theorem get_none_of_lt_head {p : Bytes × V} {m : SMap V} (h : KAsc (p :: m)) (x : Bytes)
    (hx : ltB x p.1 = true) : get (p :: m) x = none := by
  induction m generalizing p with
  | nil =>
    obtain ⟨k, v⟩ := p
    have : x ≠ k := by intro e; subst e; rw [ltB_irrefl] at hx; cases hx
    simp [get, this]
  | cons q rest ih =>
    obtain ⟨k, v⟩ := p
    have hne : x ≠ k := by intro e; subst e; rw [ltB_irrefl] at hx; cases hx
    simp only [get, hne, if_false]
    have hkq : ltB k q.1 = true := kasc_head_lt h q (by simp)
    exact ih (kasc_tail h) (ltB_trans _ _ _ hx hkq)

theorem get_eq_none_of_all_gt {m : SMap V} (x : Bytes) (h : ∀ q ∈ m, ltB x q.1 = true) :
    get m x = none := by
  induction m with
  | nil => rfl
  | cons p rest ih =>
    obtain ⟨k, v⟩ := p
    have hk : ltB x k = true := h (k, v) (by simp)
    have hne : x ≠ k := by intro e; subst e; rw [ltB_irrefl] at hk; cases hk
    simp only [get, hne, if_false]
    exact ih (fun q hq => h q (by simp [hq]))

theorem get_some_mem {m : SMap V} {x : Bytes} {v : V} (h : get m x = some v) : (x, v) ∈ m := by
  induction m with
  | nil => simp [get] at h
  | cons p rest ih =>
    obtain ⟨k, w⟩ := p
    simp only [get] at h
    by_cases hx : x = k
    · simp [hx] at h; subst h; simp [hx]
    · simp only [hx, if_false] at h
      exact List.mem_cons_of_mem _ (ih h)

theorem mem_get {m : SMap V} (hm : KAsc m) {x : Bytes} {v : V} (h : (x, v) ∈ m) : get m x = some v := by
  induction m with
  | nil => cases h
  | cons p rest ih =>
    obtain ⟨k, w⟩ := p
    cases h with
    | head => simp [get]
    | tail _ h' =>
      have hlt : ltB k x = true := kasc_head_lt hm (x, v) h'
      have hne : x ≠ k := by intro e; subst e; rw [ltB_irrefl] at hlt; cases hlt
      simp only [get, hne, if_false]
      exact ih (kasc_tail hm) h'

/-- extensionality: sortedness makes the list representation canonical -/
theorem ext : ∀ {a b : SMap V}, KAsc a → KAsc b → (∀ k, get a k = get b k) → a = b
  | [], [], _, _, _ => rfl
  | [], (k, v) :: _, _, _, h => by have := h k; simp [get] at this
  | (k, v) :: _, [], _, _, h => by have := h k; simp [get] at this
  | (k, v) :: ra, (k', v') :: rb, ha, hb, h => by
    have hk : k = k' := by
      rcases ltB_total k k' with hlt | heq | hgt
      · have h1 := h k
        rw [get_none_of_lt_head hb k hlt] at h1
        simp [get] at h1
      · exact heq
      · have h1 := h k'
        rw [get_none_of_lt_head ha k' hgt] at h1
        simp [get] at h1
    subst hk
    have hv : v = v' := by have := h k; simpa [get] using this
    subst hv
    have hrest : ∀ x, get ra x = get rb x := by
      intro x
      by_cases hx : x = k
      · subst hx
        rw [get_eq_none_of_all_gt x (kasc_head_lt ha), get_eq_none_of_all_gt x (kasc_head_lt hb)]
      · have := h x; simpa [get, hx] using this
    rw [ext (kasc_tail ha) (kasc_tail hb) hrest]

theorem mem_ins {k : Bytes} {v : V} {m : SMap V} {q : Bytes × V} (h : q ∈ ins k v m) :
    q = (k, v) ∨ q ∈ m := by
  induction m with
  | nil => simp [ins] at h; exact Or.inl h
  | cons p rest ih =>
    obtain ⟨k', v'⟩ := p
    simp only [ins] at h
    split at h
    · cases h with
      | head => exact Or.inl rfl
      | tail _ h' => exact Or.inr h'
    · split at h
      · cases h with
        | head => exact Or.inl rfl
        | tail _ h' => exact Or.inr (List.mem_cons_of_mem _ h')
      · cases h with
        | head => exact Or.inr (by simp)
        | tail _ h' =>
          rcases ih h' with e | e
          · exact Or.inl e
          · exact Or.inr (List.mem_cons_of_mem _ e)

theorem kasc_ins (k : Bytes) (v : V) {m : SMap V} (hm : KAsc m) : KAsc (ins k v m) := by
  induction m with
  | nil => simp [ins, KAsc]
  | cons p rest ih =>
    obtain ⟨k', v'⟩ := p
    simp only [ins]
    by_cases h1 : ltB k k' = true
    · simp only [h1, if_true]
      refine List.pairwise_cons.mpr ⟨?_, hm⟩
      intro q hq
      cases hq with
      | head => exact h1
      | tail _ hq' => exact ltB_trans _ _ _ h1 (kasc_head_lt hm q hq')
    · simp only [h1, Bool.false_eq_true, if_false]
      by_cases h2 : k = k'
      · subst h2
        simp only [if_true]
        exact List.pairwise_cons.mpr ⟨fun q hq => kasc_head_lt hm q hq, kasc_tail hm⟩
      · simp only [h2, if_false]
        have hgt : ltB k' k = true := by
          rcases ltB_total k k' with a | a | a
          · exact absurd a h1
          · exact absurd a h2
          · exact a
        refine List.pairwise_cons.mpr ⟨?_, ih (kasc_tail hm)⟩
        intro q hq
        rcases mem_ins hq with e | e
        · subst e; exact hgt
        · exact kasc_head_lt hm q e

theorem get_ins (k : Bytes) (v : V) (m : SMap V) (x : Bytes) :
    get (ins k v m) x = if x = k then some v else get m x := by
  induction m with
  | nil => simp [ins, get]
  | cons p rest ih =>
    obtain ⟨k', v'⟩ := p
    simp only [ins]
    by_cases h1 : ltB k k' = true
    · simp [h1, get]
    · simp only [h1, Bool.false_eq_true, if_false]
      by_cases h2 : k = k'
      · subst h2
        by_cases hx : x = k <;> simp [get, hx]
      · simp only [h2, if_false, get, ih]
        by_cases hx : x = k
        · subst hx; simp [h2]
        · simp [hx]

theorem del_sublist (k : Bytes) (m : SMap V) : (del k m).Sublist m := by
  induction m with
  | nil => exact List.Sublist.slnil
  | cons p rest ih =>
    obtain ⟨k', v'⟩ := p
    simp only [del]
    split
    · exact List.sublist_cons_self _ _
    · exact ih.cons_cons _

theorem kasc_del (k : Bytes) {m : SMap V} (hm : KAsc m) : KAsc (del k m) :=
  List.Pairwise.sublist (del_sublist k m) hm

theorem get_del (k : Bytes) {m : SMap V} (hm : KAsc m) (x : Bytes) :
    get (del k m) x = if x = k then none else get m x := by
  induction m with
  | nil => simp [del, get]
  | cons p rest ih =>
    obtain ⟨k', v'⟩ := p
    simp only [del]
    by_cases h : k = k'
    · subst h
      simp only [if_true, get]
      by_cases hx : x = k
      · subst hx; simp [get_eq_none_of_all_gt x (kasc_head_lt hm)]
      · simp [hx]
    · simp only [h, if_false, get, ih (kasc_tail hm)]
      by_cases hx : x = k
      · subst hx; simp [h]
      · simp [hx]

theorem kasc_filter (p : Bytes × V → Bool) {m : SMap V} (hm : KAsc m) : KAsc (m.filter p) :=
  List.Pairwise.sublist List.filter_sublist hm

theorem get_filter_key (p : Bytes → Bool) {m : SMap V} (hm : KAsc m) (x : Bytes) :
    get (m.filter (fun q => p q.1)) x = if p x then get m x else none := by
  induction m with
  | nil => simp [get]
  | cons q rest ih =>
    obtain ⟨k, v⟩ := q
    have ih' := ih (kasc_tail hm)
    by_cases hk : p k = true
    · simp only [List.filter, hk, get, ih']
      by_cases hx : x = k
      · subst hx; simp [hk]
      · simp [hx]
    · have hk' : p k = false := by cases h : p k <;> simp_all
      simp only [List.filter, hk', get, ih']
      by_cases hx : x = k
      · subst hx; simp [hk']
      · simp [hx]

/-- left-biased union: entries of `a` win -/
def union (a b : SMap V) : SMap V := a.foldr (fun p acc => ins p.1 p.2 acc) b

theorem kasc_union (a : SMap V) {b : SMap V} (hb : KAsc b) : KAsc (union a b) := by
  induction a with
  | nil => exact hb
  | cons p rest ih => exact kasc_ins _ _ ih

theorem get_union (a b : SMap V) (x : Bytes) :
    get (union a b) x = match get a x with | some v => some v | none => get b x := by
  induction a with
  | nil => simp [union, get]
  | cons p rest ih =>
    obtain ⟨k, v⟩ := p
    simp only [union, List.foldr_cons] at ih ⊢
    rw [get_ins, ih]
    by_cases hx : x = k
    · subst hx; simp [get]
    · simp [get, hx]

/-- `a ⊆ b` as maps -/
def Sub (a b : SMap V) : Prop := ∀ k v, get a k = some v → get b k = some v

theorem Sub.refl (a : SMap V) : Sub a a := fun _ _ h => h

theorem Sub.trans {a b c : SMap V} (h1 : Sub a b) (h2 : Sub b c) : Sub a c :=
  fun k v h => h2 k v (h1 k v h)

end SMap
end Pk
