/-!
# Effects: the vocabulary of the regenerated, source-ordered effect sequences (Gen.Facts)
-/
namespace Pk

/-- one lower-layer call of interest, named after what it does -/
inductive Eff where
  -- VFS of the files store
  | mkdirAll | tempFile | remove | copy | sync | close | lstat | rename
  -- diskpacked append / delete
  | writeHeader | seek | truncate | nextPack | indexSet | indexDelete | punchHole | writeAt
  -- blobpacked / encrypt / generic sub-store traffic
  | recvLarge | recvSmall | recvBlobs | recvMeta | metaCommit | removeSmall | removeMeta | recordMeta
  -- blobserver.receive / hub / sync / index
  | storeReceive | hubNotify | queueSet | queueDelete | memEnqueue
  -- server/sync copy path (C19)
  | srcFetch | digestCheck | memDequeue | copyDone
  | commit | corpusAdd | noteIndexed | removeMissingEdges | initDeletes | initNeeded
  | gateStart | gateDone
deriving DecidableEq, Repr

/-- an effect with where it sits syntactically: inside a `defer`, and/or inside a conditional body -/
structure EffAt where
  e : Eff
  deferred : Bool
  cond : Bool
deriving DecidableEq, Repr

/-- the unconditional, non-deferred spine of an effect list -/
def spine (l : List EffAt) : List Eff := (l.filter (fun x => !x.deferred && !x.cond)).map (·.e)

end Pk
