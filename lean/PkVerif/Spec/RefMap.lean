import PkVerif.Base.SMap
/-!
# Spec: the reference content-addressed map, and the packaged refinement `Refines`

`Op`/`Out` are the storage API at model level (one blob per stat/remove call: batching is handled
by the driver as a sequence of single calls).  `RefMap.next/out` is the specification every storage
backend and every composition of backends must be observationally equal to (property C01).

An implementation model is an `Impl` (state, init, step) – executable, no proof content – and
`Refines content I` packages the proof that `I` refines the reference map on well-keyed operations
(`recv k v` always comes with `v = content k`: blobs are content-addressed).  Storage combinators
are functions on `Impl`s with matching functions on `Refines`, so any nesting of combinators is a
term and "for all nestings" is structural induction over the configuration tree.
-/
namespace Pk.RefMap
open Pk.SMap

inductive Op where
  | recv (k v : Bytes)
  | fetch (k : Bytes)
  | stat (k : Bytes)
  | enum (after : Bytes) (limit : Nat)
  | rm (k : Bytes)
deriving Repr, DecidableEq

inductive Out where
  | sized (n : Nat)                  -- receive / stat answer: the blob's size
  | bytes (b : Bytes)                -- fetch answer
  | notExist
  | refs (l : List (Bytes × Nat))    -- enumerate answer: (ref text, size), in the order sent
  | ok
  | err                              -- any other error (read-only, not implemented, I/O)
deriving Repr, DecidableEq

/-- the sizes view of a map, as enumerate/stat report it -/
def sizes (m : SMap Bytes) : List (Bytes × Nat) := m.map (fun p => (p.1, p.2.length))

/-- the specification of enumerate: strictly after the cursor (ANY string), ascending, at most limit -/
def enumOf (m : SMap Bytes) (after : Bytes) (limit : Nat) : List (Bytes × Nat) :=
  (sizes (m.filter (fun p => ltB after p.1))).take limit

def next (m : SMap Bytes) : Op → SMap Bytes
  | .recv k v => if has m k then m else ins k v m
  | .rm k => del k m
  | _ => m

def out (m : SMap Bytes) : Op → Out
  | .recv _ v => .sized v.length
  | .fetch k => match get m k with | some v => .bytes v | none => .notExist
  | .stat k => match get m k with | some v => .sized v.length | none => .notExist
  | .enum after limit => .refs (enumOf m after limit)
  | .rm _ => .ok

/-- run a history on the reference map -/
def run : SMap Bytes → List Op → List Out
  | _, [] => []
  | m, op :: ops => out m op :: run (next m op) ops

/-- well-keyed: a received blob's bytes are the ones its ref denotes (and a ref's text is not empty) -/
def Op.WK (content : Bytes → Bytes) : Op → Prop
  | .recv k v => v = content k ∧ k ≠ []
  | _ => True

/-- every stored value is the content of its key, and the list is canonical -/
def Good (content : Bytes → Bytes) (m : SMap Bytes) : Prop :=
  KAsc m ∧ ∀ k v, get m k = some v → v = content k ∧ k ≠ []

theorem good_nil (content : Bytes → Bytes) : Good content [] :=
  ⟨kasc_nil, by intro k v h; simp [SMap.get] at h⟩

theorem good_next {content : Bytes → Bytes} {m : SMap Bytes} (hm : Good content m) (op : Op)
    (hop : op.WK content) : Good content (next m op) := by
  cases op with
  | recv k v =>
    simp only [next]
    split
    · exact hm
    · refine ⟨kasc_ins k v hm.1, ?_⟩
      intro k' v' h
      rw [get_ins] at h
      by_cases hk : k' = k
      · subst hk; simp at h; subst h; exact hop
      · simp only [hk, if_false] at h; exact hm.2 _ _ h
  | rm k =>
    refine ⟨kasc_del k hm.1, ?_⟩
    intro k' v' h
    simp only [next] at h
    rw [get_del k hm.1] at h
    by_cases hk : k' = k
    · simp [hk] at h
    · simp only [hk, if_false] at h; exact hm.2 _ _ h
  | fetch _ => exact hm
  | stat _ => exact hm
  | enum _ _ => exact hm

/-- an executable model of a storage implementation -/
structure Impl where
  σ : Type
  init : σ
  step : σ → Op → σ × Out

def Impl.run (I : Impl) : I.σ → List Op → List Out
  | _, [] => []
  | s, op :: ops => (I.step s op).2 :: I.run (I.step s op).1 ops

/-- the packaged proof that `I` refines the reference map -/
structure Refines (content : Bytes → Bytes) (I : Impl) where
  abs : I.σ → SMap Bytes
  Inv : I.σ → Prop
  init_inv : Inv I.init
  init_abs : abs I.init = []
  good : ∀ s, Inv s → Good content (abs s)
  step_ok : ∀ s op, Inv s → op.WK content →
    (I.step s op).2 = out (abs s) op ∧ abs (I.step s op).1 = next (abs s) op ∧ Inv (I.step s op).1

/-- the one generic theorem: a refining implementation answers every well-keyed history exactly as
the reference map does, from any state satisfying its invariant -/
theorem Refines.run_eq {content : Bytes → Bytes} {I : Impl} (R : Refines content I) (s : I.σ)
    (h : R.Inv s) (ops : List Op) (hops : ∀ op ∈ ops, op.WK content) :
    I.run s ops = run (R.abs s) ops := by
  induction ops generalizing s with
  | nil => rfl
  | cons op ops ih =>
    obtain ⟨ho, ha, hi⟩ := R.step_ok s op h (hops op (by simp))
    simp only [Impl.run, run, ho]
    rw [ih _ hi (fun o ho' => hops o (by simp [ho'])), ha]

/-- the state after a history -/
def Impl.runState (I : Impl) : I.σ → List Op → I.σ
  | s, [] => s
  | s, op :: ops => I.runState (I.step s op).1 ops

/-- the reference map after a history -/
def runState : SMap Bytes → List Op → SMap Bytes
  | m, [] => m
  | m, op :: ops => runState (next m op) ops

/-- invariant and abstraction follow the history -/
theorem Refines.reach {content : Bytes → Bytes} {I : Impl} (R : Refines content I) (s : I.σ)
    (h : R.Inv s) (ops : List Op) (hops : ∀ op ∈ ops, op.WK content) :
    R.Inv (I.runState s ops) ∧ R.abs (I.runState s ops) = runState (R.abs s) ops := by
  induction ops generalizing s with
  | nil => exact ⟨h, rfl⟩
  | cons op ops ih =>
    obtain ⟨_, ha, hi⟩ := R.step_ok s op h (hops op (by simp))
    obtain ⟨h1, h2⟩ := ih _ hi (fun o ho => hops o (by simp [ho]))
    exact ⟨h1, by simp only [Impl.runState, runState]; rw [h2, ha]⟩

theorem Refines.run_init {content : Bytes → Bytes} {I : Impl} (R : Refines content I)
    (ops : List Op) (hops : ∀ op ∈ ops, op.WK content) :
    I.run I.init ops = run [] ops := by
  rw [R.run_eq I.init R.init_inv ops hops, R.init_abs]

/-! ## refinement restricted to histories whose received keys satisfy a predicate `K`

Disk-backed leaves derive file names and record headers from the ref text, so they refine the map
only for keys that really are ref texts (`K`).  `RefinesK` is `Refines` with that hypothesis on
received keys and the matching invariant "every held key satisfies `K`"; combinators preserve it, and
`Refines` is the special case `K = fun _ => True`. -/

/-- the received key of an op, if any, satisfies `K` -/
def Op.KOK (K : Bytes → Prop) : Op → Prop
  | .recv k _ => K k
  | _ => True

structure RefinesK (content : Bytes → Bytes) (K : Bytes → Prop) (I : Impl) where
  abs : I.σ → SMap Bytes
  Inv : I.σ → Prop
  init_inv : Inv I.init
  init_abs : abs I.init = []
  good : ∀ s, Inv s → Good content (abs s)
  keys : ∀ s, Inv s → ∀ k v, get (abs s) k = some v → K k
  step_ok : ∀ s op, Inv s → op.WK content → op.KOK K →
    (I.step s op).2 = out (abs s) op ∧ abs (I.step s op).1 = next (abs s) op ∧ Inv (I.step s op).1

theorem RefinesK.run_eq {content : Bytes → Bytes} {K : Bytes → Prop} {I : Impl} (R : RefinesK content K I)
    (s : I.σ) (h : R.Inv s) (ops : List Op) (hops : ∀ op ∈ ops, op.WK content)
    (hk : ∀ op ∈ ops, op.KOK K) : I.run s ops = run (R.abs s) ops := by
  induction ops generalizing s with
  | nil => rfl
  | cons op ops ih =>
    obtain ⟨ho, ha, hi⟩ := R.step_ok s op h (hops op (by simp)) (hk op (by simp))
    simp only [Impl.run, run, ho]
    rw [ih _ hi (fun o ho' => hops o (by simp [ho'])) (fun o ho' => hk o (by simp [ho'])), ha]

theorem RefinesK.run_init {content : Bytes → Bytes} {K : Bytes → Prop} {I : Impl} (R : RefinesK content K I)
    (ops : List Op) (hops : ∀ op ∈ ops, op.WK content) (hk : ∀ op ∈ ops, op.KOK K) :
    I.run I.init ops = run [] ops := by
  rw [R.run_eq I.init R.init_inv ops hops hk, R.init_abs]

/-- the keys of `next m op` are those of `m` plus the received key -/
theorem get_next_key {m : SMap Bytes} (hm : KAsc m) {op : Op} {k : Bytes} {v : Bytes}
    (h : get (next m op) k = some v) : (∃ w, get m k = some w) ∨ (∃ w, op = .recv k w) := by
  cases op with
  | recv k' v' =>
    simp only [next] at h
    split at h
    · exact Or.inl ⟨v, h⟩
    · rw [get_ins] at h
      by_cases hk : k = k'
      · subst hk; exact Or.inr ⟨v', rfl⟩
      · simp only [hk, if_false] at h; exact Or.inl ⟨v, h⟩
  | rm k' =>
    simp only [next] at h
    rw [get_del k' hm] at h
    by_cases hk : k = k'
    · simp [hk] at h
    · simp only [hk, if_false] at h; exact Or.inl ⟨v, h⟩
  | fetch _ => exact Or.inl ⟨v, h⟩
  | stat _ => exact Or.inl ⟨v, h⟩
  | enum _ _ => exact Or.inl ⟨v, h⟩

/-- an unrestricted refinement is a `K`-refinement for every `K` -/
def Refines.toK {content : Bytes → Bytes} {I : Impl} (R : Refines content I) (K : Bytes → Prop) :
    RefinesK content K I where
  abs := R.abs
  Inv := fun s => R.Inv s ∧ ∀ k v, get (R.abs s) k = some v → K k
  init_inv := ⟨R.init_inv, by intro k v h; rw [R.init_abs] at h; simp [SMap.get] at h⟩
  init_abs := R.init_abs
  good := fun s h => R.good s h.1
  keys := fun s h => h.2
  step_ok := by
    intro s op ⟨h, hk⟩ hop hK
    obtain ⟨ho, ha, hi⟩ := R.step_ok s op h hop
    refine ⟨ho, ha, hi, ?_⟩
    intro k v hg
    rw [ha] at hg
    rcases get_next_key (R.good s h).1 hg with ⟨w, hw⟩ | ⟨w, hw⟩
    · exact hk k w hw
    · subst hw; exact hK

/-- and back, for the trivial predicate -/
def RefinesK.toRefines {content : Bytes → Bytes} {I : Impl} (R : RefinesK content (fun _ => True) I) :
    Refines content I where
  abs := R.abs
  Inv := R.Inv
  init_inv := R.init_inv
  init_abs := R.init_abs
  good := R.good
  step_ok := fun s op h hop => R.step_ok s op h hop (by cases op <;> trivial)

/-- a weaker contract, for stores that may forget blobs on their own (an evicting cache): answers are
consistent with the store's own contents, and the contents only ever shrink relative to what a
faithful map would hold -/
structure Caches (content : Bytes → Bytes) (I : Impl) where
  abs : I.σ → SMap Bytes
  Inv : I.σ → Prop
  init_inv : Inv I.init
  init_abs : abs I.init = []
  good : ∀ s, Inv s → Good content (abs s)
  step_inv : ∀ s op, Inv s → op.WK content → Inv (I.step s op).1
  /-- reads answer from the current contents -/
  read_ok : ∀ s op, Inv s → (match op with | .fetch _ | .stat _ | .enum _ _ => True | _ => False) →
    (I.step s op).2 = out (abs s) op ∧ Sub (abs (I.step s op).1) (abs s)
  recv_ok : ∀ s k v, Inv s → (Op.recv k v).WK content →
    (I.step s (.recv k v)).2 = .sized v.length ∧ Sub (abs (I.step s (.recv k v)).1) (ins k v (abs s))
  rm_ok : ∀ s k, Inv s →
    (I.step s (.rm k)).2 = .ok ∧ Sub (abs (I.step s (.rm k)).1) (del k (abs s))

/-- a faithful store is in particular a cache -/
def Refines.toCaches {content : Bytes → Bytes} {I : Impl} (R : Refines content I) : Caches content I where
  abs := R.abs
  Inv := R.Inv
  init_inv := R.init_inv
  init_abs := R.init_abs
  good := R.good
  step_inv := fun s op h hop => (R.step_ok s op h hop).2.2
  read_ok := by
    intro s op h hr
    cases op with
    | recv _ _ => cases hr
    | rm _ => cases hr
    | fetch k => obtain ⟨ho, ha, _⟩ := R.step_ok s (.fetch k) h trivial; exact ⟨ho, by rw [ha]; exact Sub.refl _⟩
    | stat k => obtain ⟨ho, ha, _⟩ := R.step_ok s (.stat k) h trivial; exact ⟨ho, by rw [ha]; exact Sub.refl _⟩
    | enum a l => obtain ⟨ho, ha, _⟩ := R.step_ok s (.enum a l) h trivial; exact ⟨ho, by rw [ha]; exact Sub.refl _⟩
  recv_ok := by
    intro s k v h hop
    obtain ⟨ho, ha, _⟩ := R.step_ok s (.recv k v) h hop
    refine ⟨ho, ?_⟩
    rw [ha]
    simp only [next]
    split
    · rename_i hh
      intro k' v' hg
      rw [get_ins]
      by_cases hk : k' = k
      · subst hk
        simp only [if_true]
        have := (R.good s h).2 _ _ hg
        rw [this.1, hop.1]
      · simp [hk, hg]
    · exact Sub.refl _
  rm_ok := by
    intro s k h
    obtain ⟨ho, ha, _⟩ := R.step_ok s (.rm k) h trivial
    exact ⟨ho, by rw [ha]; exact Sub.refl _⟩

/-! ## the memory store (pkg/blobserver/memory without a size cap): the map itself -/

/-- memory.Storage: a Go map plus a sorted enumeration; receiving an existing ref is a no-op -/
def memImpl : Impl where
  σ := SMap Bytes
  init := []
  step := fun m op => (next m op, out m op)

def memRefines (content : Bytes → Bytes) : Refines content memImpl where
  abs := id
  Inv := Good content
  init_inv := good_nil content
  init_abs := rfl
  good := fun _ h => h
  step_ok := fun _ op h hop => ⟨rfl, rfl, good_next h op hop⟩

end Pk.RefMap
