import PkVerif.Model.Attr
/-!
# Spec of C07: what the attribute values of a permanode and "deleted" mean (doc/schema/permanode.md,
doc/schema/delete.md), stated over the model's claim type.  Definitions only.
-/
namespace Pk.Attr

/-- in claim-date order (ties allowed) -/
def Sorted (l : List Claim) : Prop := l.Pairwise (fun a b => a.date ≤ b.date)

/-- pairwise distinct dates -/
def DistinctDates (l : List Claim) : Prop := l.Pairwise (fun a b => a.date ≠ b.date)

/-- the order the code keeps claims in (camtypes.claimBefore, 83d40e9): by date, equal dates by blobref -/
def KeyLe (a b : Claim) : Prop := a.date < b.date ∨ (a.date = b.date ∧ a.rk ≤ b.rk)

/-- in the code's claim order; in particular in claim-date order -/
def SortedK (l : List Claim) : Prop := l.Pairwise KeyLe

/-- no two claims with the same date AND the same blobref (blobrefs of distinct claims are distinct) -/
def DistinctKeys (l : List Claim) : Prop := l.Pairwise (fun a b => a.date ≠ b.date ∨ a.rk ≠ b.rk)

/-- the claim rows of permanode `p`, in arrival order -/
def World.claimsOf (w : World) (p : Nat) : List Claim := w.claims.filter (fun c => decide (c.pn = p))

/-! ## the spec -/
namespace Spec

/-- a claim counts for (attribute, time, signer filter) when it is about that attribute, dated no later
than `t`, by that signer, and not deleted (a delete-claim row has `step = id`, so it never matters) -/
def counts (deleted : Nat → Bool) (attr : Bytes) (t : Nat) (f : Option Nat) (c : Claim) : Bool :=
  decide (c.attr = attr) && decide (c.date ≤ t) && signerOk f c && !deleted c.id

/-- `l` is the claim set `cs` arranged in claim-date order (equal dates in any order) -/
def IsLin (l cs : List Claim) : Prop := l.Perm cs ∧ Sorted l

/-- `l` is the claim set `cs` in the arrangement the code uses: equal dates by blobref -/
def IsLinK (l cs : List Claim) : Prop := l.Perm cs ∧ SortedK l

/-- the attribute values the documented semantics allow: the fold of SOME date-ordered arrangement -/
def AttrValues (cs : List Claim) (deleted : Nat → Bool) (attr : Bytes) (t : Nat) (f : Option Nat)
    (vs : List Bytes) : Prop :=
  ∃ l, IsLin l cs ∧ vs = foldVals (l.filter (counts deleted attr t f))

/-- the attribute values, as a function: the arrangement with equal dates ordered by blobref (THE
value when dates are pairwise distinct; one of the allowed values otherwise) -/
def attrValues (cs : List Claim) (deleted : Nat → Bool) (attr : Bytes) (t : Nat) (f : Option Nat) : List Bytes :=
  foldVals ((sortByDate cs).filter (counts deleted attr t f))

/-- `P` is a deletion predicate for the delete claims `ds`: deleted iff targeted by a delete claim
that is not itself deleted -/
def IsDeleted (ds : List Del) (P : Ref → Bool) : Prop :=
  ∀ x, P x = true ↔ ∃ d ∈ ds, d.target = x ∧ P (.cl d.deleter) = false

end Spec

/-- nothing is deleted -/
def noDel : Nat → Bool := fun _ => false

/-- position of a blob in the arrival order, as far as deletion needs it: ids grow with arrival -/
def refOrd : Ref → Nat
  | .pn _ => 0
  | .cl i => i + 1

/-- every delete claim arrived after its target (refs are hashes: a claim cannot name a later blob) -/
def World.WF (w : World) : Prop := ∀ d ∈ w.dels, refOrd d.target < d.deleter + 1 ∧ d.deleter ≤ w.maxId

/-- what every delivered history satisfies: ids are bounded by `maxId`, and delete claims follow their targets -/
structure World.Good (w : World) : Prop where
  claimIds : ∀ c ∈ w.claims, c.id ≤ w.maxId
  wf : w.WF

end Pk.Attr
