import PkVerif.Spec.RefMap
/-!
# Spec: refinement in the presence of transient lower-layer failures (C13)

`FRefines content I` is `Refines` weakened for implementations whose lower layers may fail: a step
may answer `.err`, and then the abstract contents are the before- or the after-state of that
operation (nothing else changes: no other blob is lost, nothing partial becomes visible); the
invariant is preserved by every step, faulted or not; and in `Quiet` states (no failure pending
anywhere below) every step is exact again.  From these three facts: after ANY history with ANY
pattern of failures, once failures stop the store behaves exactly like the reference map started
from its current contents (`FRefines.recovers`).
-/
namespace Pk.RefMap
open Pk Pk.SMap

/-- a faulted-or-exact step -/
def StepOK (abs abs' : SMap Bytes) (o : Out) (op : Op) : Prop :=
  (o = out abs op ∧ abs' = next abs op) ∨ (o = .err ∧ (abs' = abs ∨ abs' = next abs op))

structure FRefines (content : Bytes → Bytes) (I : Impl) where
  abs : I.σ → SMap Bytes
  Inv : I.σ → Prop
  /-- no failure is pending in any lower layer -/
  Quiet : I.σ → Prop
  init_inv : Inv I.init
  init_abs : abs I.init = []
  good : ∀ s, Inv s → Good content (abs s)
  step_ok : ∀ s op, Inv s → op.WK content →
    Inv (I.step s op).1 ∧ StepOK (abs s) (abs (I.step s op).1) (I.step s op).2 op
  quiet_step : ∀ s op, Inv s → Quiet s → op.WK content →
    (I.step s op).2 = out (abs s) op ∧ abs (I.step s op).1 = next (abs s) op ∧ Quiet (I.step s op).1

/-- the invariant survives every history, whatever failed during it -/
theorem FRefines.reach_inv {content : Bytes → Bytes} {I : Impl} (F : FRefines content I) (s : I.σ)
    (h : F.Inv s) (ops : List Op) (hops : ∀ op ∈ ops, op.WK content) : F.Inv (I.runState s ops) := by
  induction ops generalizing s with
  | nil => exact h
  | cons op ops ih =>
    exact ih _ (F.step_ok s op h (hops op (by simp))).1 (fun o ho => hops o (by simp [ho]))

/-- once failures have stopped, the store answers every further history exactly like the reference
map started from its current contents -/
theorem FRefines.recovers {content : Bytes → Bytes} {I : Impl} (F : FRefines content I) (s : I.σ)
    (h : F.Inv s) (hq : F.Quiet s) (ops : List Op) (hops : ∀ op ∈ ops, op.WK content) :
    I.run s ops = run (F.abs s) ops := by
  induction ops generalizing s with
  | nil => rfl
  | cons op ops ih =>
    obtain ⟨ho, ha, hq'⟩ := F.quiet_step s op h hq (hops op (by simp))
    have hi := (F.step_ok s op h (hops op (by simp))).1
    simp only [Impl.run, run, ho]
    rw [ih _ hi hq' (fun o ho' => hops o (by simp [ho'])), ha]

/-- a faithful store is in particular fault-tolerant (it never fails) -/
def Refines.toF {content : Bytes → Bytes} {I : Impl} (R : Refines content I) : FRefines content I where
  abs := R.abs
  Inv := R.Inv
  Quiet := fun _ => True
  init_inv := R.init_inv
  init_abs := R.init_abs
  good := R.good
  step_ok := fun s op h hop =>
    let ⟨ho, ha, hi⟩ := R.step_ok s op h hop
    ⟨hi, Or.inl ⟨ho, ha⟩⟩
  quiet_step := fun s op h _ hop =>
    let ⟨ho, ha, _⟩ := R.step_ok s op h hop
    ⟨ho, ha, trivial⟩

/-! ## a leaf store with a schedule of transient failures -/

/-- what happens to one lower-layer call -/
inductive Fault where
  | none      -- the call goes through
  | before    -- the call fails before having any effect
  | after     -- the call takes effect but its answer is lost: the caller sees an error
deriving DecidableEq, Repr

/-- `I` behind a failure schedule: the i-th call to this store suffers `sched[i]` (none once the
schedule is used up) -/
def faultLeaf (I : Impl) (sched : List Fault) : Impl where
  σ := I.σ × List Fault
  init := (I.init, sched)
  step := fun (s, sc) op =>
    match sc with
    | [] => (((I.step s op).1, []), (I.step s op).2)
    | .none :: rest => (((I.step s op).1, rest), (I.step s op).2)
    | .before :: rest => ((s, rest), Out.err)
    | .after :: rest => (((I.step s op).1, rest), Out.err)

def faultLeafF {content : Bytes → Bytes} {I : Impl} (R : Refines content I) (sched : List Fault) :
    FRefines content (faultLeaf I sched) where
  abs := fun s => R.abs s.1
  Inv := fun s => R.Inv s.1
  Quiet := fun s => ∀ f ∈ s.2, f = Fault.none
  init_inv := R.init_inv
  init_abs := R.init_abs
  good := fun s h => R.good s.1 h
  step_ok := by
    rintro ⟨s, sc⟩ op h hop
    obtain ⟨ho, ha, hi⟩ := R.step_ok s op h hop
    cases sc with
    | nil => exact ⟨hi, Or.inl ⟨ho, ha⟩⟩
    | cons f rest =>
      cases f with
      | none => exact ⟨hi, Or.inl ⟨ho, ha⟩⟩
      | before => exact ⟨h, Or.inr ⟨rfl, Or.inl rfl⟩⟩
      | after => exact ⟨hi, Or.inr ⟨rfl, Or.inr ha⟩⟩
  quiet_step := by
    rintro ⟨s, sc⟩ op h hq hop
    obtain ⟨ho, ha, _⟩ := R.step_ok s op h hop
    cases sc with
    | nil => exact ⟨ho, ha, by intro f hf; cases hf⟩
    | cons f rest =>
      have hf : f = Fault.none := hq f (by simp)
      subst hf
      exact ⟨ho, ha, fun g hg => hq g (List.mem_cons_of_mem _ hg)⟩

end Pk.RefMap
