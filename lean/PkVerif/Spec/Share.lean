import PkVerif.Model.Share
/-!
# Specification of C17: schema links and valid share chains

Written without reference to the handler's code: `Link` is the set of genuine schema links, a
`ValidChain` is what the property statement allows an unauthenticated request to follow.
-/
namespace Pk.Share

/-- the refs a blob links to through a genuine schema link: file/bytes parts, the directory's
entries (its static set), static-set members **and** sub-sets (`mergeSets`). Share claims, other
schema blobs and raw blobs link to nothing, whatever refs they mention. -/
def links : Blob → List Ref
  | .file ps => ps
  | .bytes ps => ps
  | .directory e => [e]
  | .staticSet ms subs => ms ++ subs
  | _ => []

/-- `b` is referenced by the stored blob `a` through a genuine schema link -/
def Link (st : Store) (a b : Ref) : Prop := ∃ s, st a = some s ∧ b ∈ links s.blob

/-- `a → l₀ → l₁ → …`: every hop is a `Link` -/
def LinkPath (st : Store) : Ref → List Ref → Prop
  | _, [] => True
  | a, b :: rest => Link st a b ∧ LinkPath st b rest

/-- not expired at `now`: no expiry date, or `now` is not after it -/
def Unexpired (now : Nat) (expires : Option Nat) : Prop := ∀ t, expires = some t → now ≤ t

/-- the chain of a request (via blobs followed by the requested blob) is valid: it starts at an
existing, undeleted, unexpired share claim and either asks for that claim itself, or hops to exactly
that claim's target and – for transitive shares only – continues through genuine schema links to the
requested blob -/
def ValidChain (e : Env) : List Ref → Prop
  | [] => False
  | c0 :: rest =>
    ∃ s0 tgt trans exp, e.store c0 = some s0 ∧ s0.blob = .share tgt trans exp ∧
      e.deleted c0 = false ∧ Unexpired e.now exp ∧
      (rest = [] ∨
       ∃ c1 more, rest = c1 :: more ∧ tgt = some c1 ∧
         (more = [] ∨ (trans = true ∧ LinkPath e.store c1 more)))

/-- the share claim a chain starts at is transitive -/
def StartsTransitive (e : Env) : List Ref → Prop
  | [] => False
  | c0 :: _ => ∃ s0 tgt exp, e.store c0 = some s0 ∧ s0.blob = .share tgt true exp

end Pk.Share
