import PkVerif.Base.Bytes
import PkVerif.Base.Order
/-!
# Spec.SortedKV – the contract of `sorted.KeyValue` (pkg/sorted/kv.go:44-95)

A store is a strictly ascending association list over `Pk.Bytes` (Go string order `ltB`).
`get / set / delete / batch / find[start,end)` are the observable operations; `set` (alone or inside
a batch) silently skips keys/values over the size limits (`CheckSizes`, pkg/sorted/kv.go:298).
`find`: `start = ""` means "from the first key", `end = ""` means "no upper bound"
(pkg/sorted/kv.go:84-88; mem.go:104-117).  Core Lean only (linked into `pkmodel-c10`).
-/
namespace Pk.SortedKV

abbrev KV := List (Bytes × Bytes)

/-- `MaxKeySize`, `MaxValueSize` (pkg/sorted/kv.go:29-30); instantiated from `Pk.Gen` by the users -/
structure Limits where
  maxKey : Nat
  maxVal : Nat

def keys (m : KV) : List Bytes := m.map Prod.fst

/-- strictly ascending keys -/
def WF (m : KV) : Prop := (keys m).Pairwise (fun a b => ltB a b = true)

instance (m : KV) : Decidable (WF m) := by unfold WF; infer_instance

/-- `CheckSizes(key, value) == nil` (pkg/sorted/kv.go:298) -/
def okSizes (L : Limits) (k v : Bytes) : Bool := k.length ≤ L.maxKey && v.length ≤ L.maxVal

/-- every stored pair respects the limits -/
def SizesOK (L : Limits) (m : KV) : Prop := ∀ p ∈ m, okSizes L p.1 p.2 = true

instance (L : Limits) (m : KV) : Decidable (SizesOK L m) := by unfold SizesOK; infer_instance

/-- `Get`: `none` is `ErrNotFound` -/
def get : KV → Bytes → Option Bytes
  | [], _ => none
  | (k', v) :: t, k => if k' = k then some v else get t k

/-- ordered insert-or-replace -/
def insert (k v : Bytes) : KV → KV
  | [] => [(k, v)]
  | (k', v') :: t =>
    if ltB k k' then (k, v) :: (k', v') :: t
    else if k = k' then (k, v) :: t
    else (k', v') :: insert k v t

/-- `Delete` (deleting an absent key is not an error) -/
def erase (k : Bytes) (m : KV) : KV := m.filter (fun p => !(p.1 == k))

/-- `Set`: oversize keys/values are silently skipped (mem.go:119-126 and every other engine) -/
def set (L : Limits) (m : KV) (k v : Bytes) : KV := if okSizes L k v then insert k v m else m

/-- one queued mutation of a `BatchMutation` (pkg/sorted/kv.go:148-160) -/
inductive Mut where
  | set (k v : Bytes)
  | del (k : Bytes)
  deriving DecidableEq, Repr

def applyMut (L : Limits) (m : KV) : Mut → KV
  | .set k v => set L m k v
  | .del k => erase k m

/-- `CommitBatch`: the loop of mem.go:145-166 – the mutations in the order they were queued -/
def batch (L : Limits) (m : KV) : List Mut → KV
  | [] => m
  | x :: xs => batch L (applyMut L m x) xs

/-- `start <= k` and (`end == ""` or `k < end`) -/
def inRange (s e k : Bytes) : Bool := !ltB k s && (e.isEmpty || ltB k e)

/-- `Find(start, end)` run to its end -/
def find (m : KV) (s e : Bytes) : KV := m.filter (fun p => inRange s e p.1)

end Pk.SortedKV

namespace Pk.SortedKV

/-! ## the store as a machine: operations and their observable answers -/

inductive Op where
  | get (k : Bytes)
  | set (k v : Bytes)
  | del (k : Bytes)
  | batch (ms : List Mut)
  | find (s e : Bytes)
  | flush      -- only meaningful for the write buffer; a no-op of the contract
  | reopen     -- Close, then open the same store again
  deriving DecidableEq, Repr

inductive Out where
  | val (v : Option Bytes)   -- `Get`: the value or ErrNotFound
  | ok
  | rows (l : KV)            -- `Find` iterated to its end
  deriving DecidableEq, Repr

/-- the contract: one operation on the byte-ordered map -/
def specStep (L : Limits) (m : KV) : Op → KV × Out
  | .get k => (m, .val (get m k))
  | .set k v => (set L m k v, .ok)
  | .del k => (erase k m, .ok)
  | .batch ms => (batch L m ms, .ok)
  | .find s e => (m, .rows (find m s e))
  | .flush => (m, .ok)
  | .reopen => (m, .ok)

/-- all answers of a history -/
def runSpec (L : Limits) (m : KV) : List Op → List Out
  | [] => []
  | o :: os => (specStep L m o).2 :: runSpec L (specStep L m o).1 os

/-- the state after a history -/
def specAfter (L : Limits) (m : KV) : List Op → KV
  | [] => m
  | o :: os => specAfter L (specStep L m o).1 os

/-- what a batch does to key `x`: `none` = untouched, `some none` = deleted, `some (some v)` = set to
`v`; the last mutation that touches `x` (an oversize set touches nothing) decides -/
def lastWrite (L : Limits) : List Mut → Bytes → Option (Option Bytes)
  | [], _ => none
  | mu :: ms, x =>
    match lastWrite L ms x with
    | some r => some r
    | none =>
      match mu with
      | .set k v => if okSizes L k v = true ∧ k = x then some (some v) else none
      | .del k => if k = x then some none else none

end Pk.SortedKV
