import PkVerif.Drv.Common
/-! `pkmodel-c18`: stub (property not built yet). -/
namespace Pk.Drv.C18
def machine : Machine := { σ := Unit, init := (), step := fun s _ => (s, "bad-op") }
end Pk.Drv.C18
