import PkVerif.Drv.Common
import PkVerif.Model.BlobHTTP
import PkVerif.Gen.Facts
import PkVerif.Gen.C18
/-! `pkmodel-c18`: the HTTP blob protocol (server handlers over the reference map, client loops).

    cfg <sto> <idx> <root>                              -> ok
    put <t> <true|none> <len|chunked> <body>            -> 204 | 400 | 500
    mp [<name> <true|none> <body> [| …]]                -> 200 <k:n …> err=0|1
    stat <get|post> <ver> <maxwait> <v1> <v2> …         -> 200 <k:n …> | 400
    get <t> | head <t>                                  -> 200 <len> <body|-> | 404 | 400
    enum <after> <limit> <maxwait>                      -> 200 <k:n …> cont=<k|-> | 400
    enumpoll <limit> <maxwait> <t> <true|none> <body>   -> (enum answer) put=<code>   (the PUT lands during the wait)
    statpoll <maxwait> <t> <true|none> <body> <v1> …    -> (stat answer) put=<code>
    cenum <batch|-> <after> <optlimit> <waitsec>        -> ok|err <k:n …>      (pkg/client EnumerateBlobsOpts)
    ccache on|off                                       -> ok
    cstat <k1> …                                        -> ok|err <k:n …>      (sorted)
    cupload <k> <true|none> <body> <skipstat 0|1>       -> ok <size> skipped=0|1 | err
    cfetch <k>                                          -> ok <size> <body> | notexist | err
All byte strings are lower hex, `-` = empty.  `true` is the content the ref denotes ("bytes hash to the
ref" = equality with it), `none` = nothing in play hashes to it.
-/
namespace Pk.Drv.C18
open Pk Pk.SMap Pk.RefMap Pk.BlobHTTP

def tbl : Pk.Ref.Tbl := genTbl

def cfg : Cfg := genCfg

structure St where
  m : SMap Bytes
  have_ : Have

def matcher (t : String) : Option (Bytes → Bool) :=
  if t == "none" then some (fun _ => false)
  else (hexArg t).map (fun tb => fun b => b == tb)

def showPairs (l : List (Bytes × Nat)) : String :=
  " ".intercalate (l.map (fun p => s!"{toHexString p.1}:{p.2}"))

def lePair (a b : Bytes × Nat) : Bool :=
  if ltB a.1 b.1 then true else if ltB b.1 a.1 then false else a.2 ≤ b.2

def sortPairs (l : List (Bytes × Nat)) : List (Bytes × Nat) := l.mergeSort lePair

def join2 (a b : String) : String := if b.isEmpty then a else a ++ " " ++ b

def showCode : Recv.Http → String
  | .noContent204 => "204" | .badRequest400 => "400" | .serverError500 => "500"

def showEnum : EnumResp → String
  | .badRequest => "400"
  | .ok l ca => join2 (join2 "200" (showPairs l)) ("cont=" ++ toHexString ca)

def showStat : StatResp → String
  | .bad _ => "400"      -- the reason is only logged by the server
  | .ok l => join2 "200" (showPairs (sortPairs l))

/-- a path element the harness can request without the mux or the router stepping in -/
def plainElem (t : Bytes) : Bool :=
  !t.contains 47 && t != ofString "." && t != ofString ".." &&
  t != ofString "enumerate-blobs" && t != ofString "stat" && t != ofString "ws"

def splitBar (ws : List String) : List (List String) :=
  ws.foldr (fun w acc => if w == "|" then [] :: acc else
    match acc with
    | [] => [[w]]
    | g :: gs => (w :: g) :: gs) [[]]

def parseMPart : List String → Option MPart
  | [n, t, b] =>
    match hexArg n, matcher t, hexArg b with
    | some n, some m, some b => some ⟨n, m, b⟩
    | _, _, _ => none
  | _ => none

def doPut (st : St) (t tr cl body : String) : Option (St × String) :=
  match hexArg t, matcher tr, hexArg body with
  | some t, some mt, some body =>
    if !plainElem t then none else
    let clv : Option (Option Nat) :=
      if cl == "chunked" then some none else if cl == "len" then some (some body.length) else none
    match clv with
    | none => none
    | some clv =>
      let r := handlePut cfg tbl st.m t clv mt body
      some ({ st with m := r.1 }, showCode r.2)
  | _, _, _ => none

def step (s : Option St) (ws : List String) : Option St × String :=
  match s, ws with
  | _, ["cfg", sto, idx, root] =>
    if ["mem", "disk", "diskpacked", "blobpacked"].contains sto && ["mem", "leveldb", "kv", "sqlite"].contains idx
        && ["bs", "cond"].contains root then (some ⟨[], none⟩, "ok")
    else (none, "bad-op")
  | none, _ => (none, "bad-op")
  | some st, ["put", t, tr, cl, body] =>
    (match doPut st t tr cl body with
     | some (st', o) => (some st', o)
     | none => (s, "bad-op"))
  | some st, "mp" :: rest =>
    (match (if rest.isEmpty then some [] else (splitBar rest).mapM parseMPart) with
     | some parts =>
       let r := handleMultipart cfg tbl st.m parts
       (some { st with m := r.1 },
        join2 (join2 "200" (showPairs r.2.received)) (if r.2.errorText then "err=1" else "err=0"))
     | none => (s, "bad-op"))
  | some st, "stat" :: meth :: ver :: mw :: vs =>
    (match hexArg ver, hexArg mw, vs.mapM hexArg with
     | some ver, some mw, some vs =>
       if meth != "get" && meth != "post" then (s, "bad-op") else
       (s, showStat (handleStat cfg tbl st.m [st.m] ⟨true, ver, vs, mw⟩))
     | _, _, _ => (s, "bad-op"))
  | some st, ["get", t] =>
    (match hexArg t with
     | some t =>
       if !plainElem t then (s, "bad-op") else
       (s, match handleGet tbl st.m t with
           | .badRequest => "400" | .notFound => "404"
           | .ok b => s!"200 {b.length} {toHexString b}")
     | none => (s, "bad-op"))
  | some st, ["head", t] =>
    (match hexArg t with
     | some t =>
       if !plainElem t then (s, "bad-op") else
       (s, match handleGet tbl st.m t with
           | .badRequest => "400" | .notFound => "404"
           | .ok b => s!"200 {b.length} -")
     | none => (s, "bad-op"))
  | some st, ["enum", a, l, mw] =>
    (match hexArg a, hexArg l, hexArg mw with
     | some a, some l, some mw => (s, showEnum (handleEnumerateBlobs cfg st.m [] ⟨a, l, mw⟩))
     | _, _, _ => (s, "bad-op"))
  | some st, ["enumpoll", l, mw, t, tr, body] =>
    (match hexArg l, hexArg mw, doPut st t tr "len" body with
     | some l, some mw, some (st', code) =>
       (some st', showEnum (handleEnumerateBlobs cfg st.m [st'.m] ⟨[], l, mw⟩) ++ " put=" ++ code)
     | _, _, _ => (s, "bad-op"))
  | some st, "statpoll" :: mw :: t :: tr :: body :: vs =>
    (match hexArg mw, doPut st t tr "len" body, vs.mapM hexArg with
     | some mw, some (st', code), some vs =>
       (some st', showStat (handleStat cfg tbl st.m [st'.m] ⟨true, [49], vs, mw⟩) ++ " put=" ++ code)
     | _, _, _ => (s, "bad-op"))
  | some st, ["cenum", batch, a, ol, wsec] =>
    (match hexArg a, ol.toNat?, wsec.toNat?,
        (if batch == "-" then some (natToDec cfg.clientBatch) else hexArg batch) with
     | some a, some ol, some wsec, some batch =>
       let srv := fun r => handleEnumerateBlobs cfg st.m [] r
       let okRef := fun k => (Pk.Ref.parse tbl k true).isSome
       let r := clientEnumerate srv okRef batch ⟨a, wsec, ol⟩ (st.m.length + 2)
       (s, join2 (if r.ok then "ok" else "err") (showPairs r.sent))
     | _, _, _, _ => (s, "bad-op"))
  | some st, ["ccache", "on"] => (some { st with have_ := some [] }, "ok")
  | some st, ["ccache", "off"] => (some { st with have_ := none }, "ok")
  | some st, "cstat" :: ks =>
    (match ks.mapM (fun k => (hexArg k).bind (fun k => (refOf tbl k).map (·.1))) with
     | some ks =>
       let r := clientStatBlobs (fun q => handleStat cfg tbl st.m [] q) st.have_ ks
       (some { st with have_ := r.1 }, join2 (if r.2.2 then "ok" else "err") (showPairs (sortPairs r.2.1)))
     | none => (s, "bad-op"))
  | some st, ["cupload", k, tr, body, ss] =>
    (match (hexArg k).bind (fun k => (refOf tbl k).map (·.1)), matcher tr, hexArg body with
     | some k, some mt, some body =>
       if ss != "0" && ss != "1" then (s, "bad-op") else
       let r := clientUpload cfg (fun q => handleStat cfg tbl st.m [] q) (handleMultipart cfg tbl st.m)
         st.m st.have_ k mt body (ss == "1")
       (some { st with m := r.1, have_ := r.2.1 },
        match r.2.2 with
        | .ok n sk => s!"ok {n} skipped={if sk then 1 else 0}"
        | .err => "err")
     | _, _, _ => (s, "bad-op"))
  | some st, ["cfetch", k] =>
    (match (hexArg k).bind (fun k => (refOf tbl k).map (·.1)) with
     | some k =>
       (s, match clientFetch (handleGet tbl st.m) k with
           | .ok b n => s!"ok {n} {toHexString b}"
           | .notExist => "notexist"
           | .err => "err")
     | none => (s, "bad-op"))
  | _, _ => (s, "bad-op")

def machine : Machine := { σ := Option St, init := none, step := step }

end Pk.Drv.C18
