import PkVerif.Drv.Common
import PkVerif.Model.Attr
/-! `pkmodel-c07`: the attribute/deletion model behind the c07 line protocol.

    pn <p>                                          p ∈ {0,1}
    claim <id> <p> <s> set|add|del <attr> <val> <date> <rk>
    delete <id> c<id>|p<p> <s> <date> <rk>
    attr idx|inc|load <p> <attr> <T> <f>            T = z | <date> ; f = a | 0 | 1 | u
                                                    <date> = seconds[.fraction, 1–9 digits, no trailing 0]
    vals inc|load <p> <attr> <T> <f>
    has inc|load <p> <attr> <val> <T>
    via inc|load <p> <T> <f>
    deleted idx|inc|load c<id>|p<p>
    claims idx|inc|load <p> <f> <attr>|*
    order inc|load <p>
    desc idx|inc|load <p> <attr> <T> <s>            search.Handler.Describe, owner = signer s
-/
namespace Pk.Drv.C07
open Pk Pk.Attr

/-- the harness checks that the wall clock lies between the past dates (< 1.7·10⁹) and the future
dates (> 4·10⁹) it generates; any `now` in between gives the same answers -/
def nowC : Nat := 3000000000 * nsPerSec
/-- largest second of the protocol -/
def maxTime : Nat := 9000000000

def natArg (s : String) (max : Nat) : Option Nat :=
  let cs := s.toList
  if cs.isEmpty || cs.length > 16 then none
  else if cs.length > 1 && cs.head? == some '0' then none
  else if cs.all (fun c => c.isDigit) then
    let v := cs.foldl (fun n c => n * 10 + (c.toNat - 48)) 0
    if v ≤ max then some v else none
  else none

def cont (b : Nat) : Bool := 0x80 ≤ b && b ≤ 0xBF

/-- Go's utf8.Valid -/
def utf8Valid : List Nat → Bool
  | [] => true
  | b0 :: rest =>
    if b0 < 0x80 then utf8Valid rest
    else if 0xC2 ≤ b0 && b0 ≤ 0xDF then
      match rest with
      | b1 :: r => cont b1 && utf8Valid r
      | _ => false
    else if 0xE0 ≤ b0 && b0 ≤ 0xEF then
      match rest with
      | b1 :: b2 :: r =>
        (if b0 = 0xE0 then 0xA0 ≤ b1 && b1 ≤ 0xBF
         else if b0 = 0xED then 0x80 ≤ b1 && b1 ≤ 0x9F
         else cont b1) && cont b2 && utf8Valid r
      | _ => false
    else if 0xF0 ≤ b0 && b0 ≤ 0xF4 then
      match rest with
      | b1 :: b2 :: b3 :: r =>
        (if b0 = 0xF0 then 0x90 ≤ b1 && b1 ≤ 0xBF
         else if b0 = 0xF4 then 0x80 ≤ b1 && b1 ≤ 0x8F
         else cont b1) && cont b2 && cont b3 && utf8Valid r
      | _ => false
    else false

def textArg (s : String) : Option Bytes :=
  match hexArg s with
  | some b => if utf8Valid b then some b else none
  | none => none

def pnArg (w : World) (s : String) : Option Nat :=
  match s with
  | "0" => if 0 ∈ w.pns then some 0 else none
  | "1" => if 1 ∈ w.pns then some 1 else none
  | _ => none

def sArg (s : String) : Option Nat :=
  match s with
  | "0" => some 0
  | "1" => some 1
  | _ => none

/-- a time: <seconds> or <seconds>.<1–9 digits, the last one not 0>, seconds in 1..maxTime; the value is
in nanoseconds -/
def timeArg (s : String) : Option Nat :=
  let secOf (a : String) : Option Nat :=
    match natArg a maxTime with
    | some 0 => none
    | some v => some (v * nsPerSec)
    | none => none
  match s.splitOn "." with
  | [a] => secOf a
  | [a, fr] =>
    let cs := fr.toList
    if cs.isEmpty || cs.length > 9 || !cs.all (fun c => c.isDigit) || cs.getLast? == some '0' then none
    else
      match secOf a with
      | some v => some (v + cs.foldl (fun n c => n * 10 + (c.toNat - 48)) 0 * 10 ^ (9 - cs.length))
      | none => none
  | _ => none

def tArg (s : String) : Option (Option Nat) :=
  if s == "z" then some none
  else (timeArg s).map some

/-- a | 0 | 1 | u (a key id nobody signed with: signer number 2) -/
def fArg (s : String) : Option (Option Nat) :=
  match s with
  | "a" => some none
  | "0" => some (some 0)
  | "1" => some (some 1)
  | "u" => some (some 2)
  | _ => none

def modeArg (s : String) : Option Mode :=
  match s with
  | "idx" => some .idx
  | "inc" => some .inc
  | "load" => some .load
  | _ => none

def corpusModeArg (s : String) : Option Mode :=
  match s with
  | "inc" => some .inc
  | "load" => some .load
  | _ => none

def tgtArg (w : World) (s : String) : Option Ref :=
  match s.toList with
  | 'p' :: r => (pnArg w (String.ofList r)).map Ref.pn
  | 'c' :: r =>
    match natArg (String.ofList r) (2 ^ 30) with
    | some id => if w.knownId id then some (.cl id) else none
    | none => none
  | _ => none

def showVals (vs : List Bytes) : String :=
  vs.foldl (fun s v => s ++ " " ++ toHexString v) (toString vs.length)

def showIds (cs : List Claim) : String :=
  match cs with
  | [] => "-"
  | c :: t => t.foldl (fun s c => s ++ " " ++ toString c.id) (toString c.id)

def kindArg (s : String) : Option Kind :=
  match s with
  | "set" => some .set
  | "add" => some .add
  | "del" => some .del
  | _ => none

def opt6 {α β γ δ ε ζ : Type} (a : Option α) (b : Option β) (c : Option γ) (d : Option δ) (e : Option ε)
    (f : Option ζ) : Option (α × β × γ × δ × ε × ζ) :=
  match a, b, c, d, e, f with
  | some a, some b, some c, some d, some e, some f => some (a, b, c, d, e, f)
  | _, _, _, _, _, _ => none

def step (w : World) (ws : List String) : World × String :=
  match ws with
  | ["pn", p] =>
    (match sArg p with
     | some p => if p ∈ w.pns then (w, "bad-op") else ({ w with pns := p :: w.pns }, "ok")
     | none => (w, "bad-op"))
  | ["claim", id, p, s, kind, attr, val, date, rk] =>
    (match opt6 (natArg id (2 ^ 30)) (pnArg w p) (sArg s) (kindArg kind) (textArg attr) (textArg val),
           timeArg date, natArg rk (2 ^ 48) with
     | some (id, p, s, kind, attr, val), some date, some rk =>
       if attr = [] then (w, "bad-op")
       else if w.claims.any (fun c => c.pn == p && c.signer == s && decide (c.kind = kind) && c.attr == attr
            && c.val == val && c.date == date) then (w, "bad-op")
       else
         (match w.addClaim ⟨id, rk, p, s, kind, attr, val, date⟩ with
          | some w' => (w', "ok")
          | none => (w, "bad-op"))
     | _, _, _ => (w, "bad-op"))
  | ["delete", id, tgt, s, date, rk] =>
    (match natArg id (2 ^ 30), tgtArg w tgt, sArg s, timeArg date, natArg rk (2 ^ 48) with
     | some id, some tgt, some s, some date, some rk =>
       if w.dels.any (fun d => decide (d.target = tgt) && d.signer == s && d.date == date) then (w, "bad-op")
       else
         (match w.addDelete ⟨tgt, id, s, date, rk⟩ with
          | some w' => (w', "ok")
          | none => (w, "bad-op"))
     | _, _, _, _, _ => (w, "bad-op"))
  | ["attr", m, p, attr, t, f] =>
    (w, match modeArg m, pnArg w p, textArg attr, tArg t, fArg f with
     | some .idx, some p, some attr, some t, some f => toHexString (w.idxAttrValue p attr t nowC f)
     | some m, some p, some attr, some t, some f => toHexString (w.corpusAttrValue m p attr t nowC f)
     | _, _, _, _, _ => "bad-op")
  | ["vals", m, p, attr, t, f] =>
    (w, match corpusModeArg m, pnArg w p, textArg attr, tArg t, fArg f with
     | some m, some p, some attr, some t, some f => showVals (w.corpusAttrValues m p attr t nowC f)
     | _, _, _, _, _ => "bad-op")
  | ["has", m, p, attr, val, t] =>
    (w, match corpusModeArg m, pnArg w p, textArg attr, textArg val, tArg t with
     | some m, some p, some attr, some val, some t => showBool (w.corpusHasAttrValue m p attr val t nowC)
     | _, _, _, _, _ => "bad-op")
  | ["via", m, p, t, f] =>
    (w, match corpusModeArg m, pnArg w p, tArg t, fArg f with
     | some m, some p, some t, some f =>
       (match w.pm m p with
        | none => "nopn"
        | some pm =>
          match valuesAtSigner pm t nowC f with
          | none => "fold"
          | some none => "nilok"
          | some (some _) => "cache")
     | _, _, _, _ => "bad-op")
  | ["deleted", m, tgt] =>
    (w, match modeArg m, tgtArg w tgt with
     | some m, some tgt => showBool (w.isDeleted m tgt)
     | _, _ => "bad-op")
  | ["claims", m, p, f, a] =>
    (w, match modeArg m, pnArg w p, fArg f,
          (if a == "*" then some none
           else match textArg a with
             | some [] => none
             | some b => some (some b)
             | none => none) with
     | some .idx, some p, some f, some a => showIds (w.idxAppendClaims p f a)
     | some m, some p, some f, some a => showIds (w.corpusAppendClaims m p f a)
     | _, _, _, _ => "bad-op")
  | ["desc", m, p, attr, t, s] =>
    (w, match modeArg m, pnArg w p, textArg attr, tArg t, sArg s with
     | some m, some p, some attr, some t, some s => showVals (w.describe m p attr t s)
     | _, _, _, _, _ => "bad-op")
  | ["order", m, p] =>
    (w, match corpusModeArg m, pnArg w p with
     | some m, some p =>
       (match w.pm m p with
        | none => "-"
        | some pm => showIds pm.claims)
     | _, _ => "bad-op")
  | _ => (w, "bad-op")

def machine : Machine := { σ := World, init := World.empty, step := step }

end Pk.Drv.C07
