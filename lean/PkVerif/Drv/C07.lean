import PkVerif.Drv.Common
/-! `pkmodel-c07`: stub (property not built yet). -/
namespace Pk.Drv.C07
def machine : Machine := { σ := Unit, init := (), step := fun s _ => (s, "bad-op") }
end Pk.Drv.C07
