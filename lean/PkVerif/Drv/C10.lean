import PkVerif.Drv.Common
import PkVerif.Model.SortedBuffer
import PkVerif.Gen.Facts
/-!
`pkmodel-c10`: the sorted-KV contract (`Pk.SortedKV`, for memory/leveldb/kvfile/sqlite) and the
write-buffer model (`Pk.SortedBuffer`, for `buffer.New(mem, mem, n)`) behind the c10 line protocol
(see harness/props/c10/exec.go).  Byte strings travel as run-length aware tokens.
-/
namespace Pk.Drv.C10
open Pk Pk.SortedKV Pk.SortedBuffer

/-- the limits as they are in /repo right now -/
def lim : Limits := ⟨Gen.maxKeySize, Gen.maxValueSize⟩

/-! ## tokens (mirror of harness/props/c10/codec.go) -/

def maxRep : Nat := 100000
def minRun : Nat := 8

def hexChar (n : Nat) : Char := Char.ofNat (hexDigit n)

def hexStr (b : Bytes) : String :=
  b.foldl (fun acc x => (acc.push (hexChar (x / 16))).push (hexChar (x % 16))) ""

/-- close the current run: long runs become a part of their own, short ones join the literal
(kept reversed) -/
def closeRun (cur cnt : Nat) (lit : Bytes) (parts : Array String) : Bytes × Array String :=
  if cnt ≥ minRun then
    let parts := if lit.isEmpty then parts else parts.push (hexStr lit.reverse)
    ([], parts.push (hexStr [cur] ++ "*" ++ toString cnt))
  else (List.replicate cnt cur ++ lit, parts)

def encLoop : Bytes → Nat → Nat → Bytes → Array String → Array String
  | [], cur, cnt, lit, parts =>
    let (lit, parts) := closeRun cur cnt lit parts
    if lit.isEmpty then parts else parts.push (hexStr lit.reverse)
  | x :: xs, cur, cnt, lit, parts =>
    if x = cur then encLoop xs cur (cnt + 1) lit parts
    else
      let (lit, parts) := closeRun cur cnt lit parts
      encLoop xs x 1 lit parts

def encTok : Bytes → String
  | [] => "-"
  | x :: xs => "+".intercalate (encLoop xs x 1 [] #[]).toList

def parseNatCs (cs : List Char) (maxDigits : Nat) : Option Nat :=
  if cs.isEmpty || cs.length > maxDigits then none
  else if cs.length > 1 && cs.head? == some '0' then none
  else if cs.all Char.isDigit then some (cs.foldl (fun n c => n * 10 + (c.toNat - 48)) 0)
  else none

def parseNat (d : String) (maxDigits : Nat) : Option Nat := parseNatCs d.toList maxDigits

def hexNib (c : Char) : Option Nat := hexVal c.toNat

/-- lower-case hex, even, non-empty (tail recursive: values may be 63001 bytes) -/
def hexPart (s : String) : Option Bytes :=
  let rec go : List Char → Bytes → Option Bytes
    | [], acc => some acc.reverse
    | [_], _ => none
    | a :: b :: r, acc =>
      match hexNib a, hexNib b with
      | some x, some y => go r ((x * 16 + y) :: acc)
      | _, _ => none
  if s.isEmpty then none else go s.toList []

def decPart (p : String) : Option Bytes :=
  match p.splitOn "*" with
  | [h] => hexPart h
  | [x, d] =>
    match hexPart x, parseNat d 6 with
    | some [b], some n => if 1 ≤ n && n ≤ maxRep then some (List.replicate n b) else none
    | _, _ => none
  | _ => none

def decTok (s : String) : Option Bytes :=
  if s == "-" then some []
  else
    (s.splitOn "+").foldl (fun acc p =>
      match acc, decPart p with
      | some a, some b => some (a ++ b)
      | _, _ => none) (some [])

/-- `-?[0-9]{1,9}`, no leading zeros, no `-0` -/
def parseInt (s : String) : Option Int :=
  if s.toList.head? == some '-' then
    match parseNatCs (s.toList.drop 1) 9 with
    | some n => if n = 0 then none else some (-(n : Int))
    | none => none
  else (parseNat s 9).map (fun n => (n : Int))

/-! ## the machine -/

inductive Cmd where
  | openSpec (persistent : Bool)
  | openBuf (max : Int)
  | op (o : Op)
  | dump

def parseMuts : List String → Option (List Mut)
  | [] => some []
  | "s" :: k :: v :: r =>
    match decTok k, decTok v, parseMuts r with
    | some k, some v, some ms => some (Mut.set k v :: ms)
    | _, _, _ => none
  | "d" :: k :: r =>
    match decTok k, parseMuts r with
    | some k, some ms => some (Mut.del k :: ms)
    | _, _ => none
  | _ => none

def parse : List String → Option Cmd
  | ["open", "mem"] => some (.openSpec false)
  | ["open", "leveldb"] => some (.openSpec true)
  | ["open", "kvfile"] => some (.openSpec true)
  | ["open", "sqlite"] => some (.openSpec true)
  | ["open", "buffer", n] => (parseInt n).map .openBuf
  | ["open", "buffer", n, back] =>
    if back == "mem" || back == "leveldb" || back == "kvfile" || back == "sqlite" then (parseInt n).map .openBuf
    else none
  | ["get", k] => (decTok k).map (fun k => .op (.get k))
  | ["del", k] => (decTok k).map (fun k => .op (.del k))
  | ["set", k, v] =>
    match decTok k, decTok v with
    | some k, some v => some (.op (.set k v))
    | _, _ => none
  | ["find", s, e] =>
    match decTok s, decTok e with
    | some s, some e => some (.op (.find s e))
    | _, _ => none
  | "batch" :: r => (parseMuts r).map (fun ms => .op (.batch ms))
  | ["flush"] => some (.op .flush)
  | ["reopen"] => some (.op .reopen)
  | ["dump"] => some .dump
  | _ => none

inductive St where
  | closed
  | spec (persistent : Bool) (m : KV)
  | buf (b : Buf)

def showRows (tag : String) (l : KV) : String :=
  l.foldl (fun acc p => acc ++ " " ++ encTok p.1 ++ "=" ++ encTok p.2) (tag ++ " " ++ toString l.length)

def showOut : Out → String
  | .val none => "notfound"
  | .val (some v) => "v " ++ encTok v
  | .ok => "ok"
  | .rows l => showRows "rows" l

def step (s : St) (ws : List String) : St × String :=
  match parse ws with
  | none => (s, "bad-op")
  | some c =>
    match s, c with
    | .closed, .openSpec p => (.spec p [], "ok")
    | .closed, .openBuf n => (.buf (Buf.new n), "ok")
    | .closed, _ => (s, "noopen")
    | _, .openSpec _ => (s, "bad-op")
    | _, .openBuf _ => (s, "bad-op")
    | .spec _ _, .dump => (s, "na")
    | .spec _ _, .op .flush => (s, "na")
    | .spec false _, .op .reopen => (s, "na")
    | .spec p m, .op o => let r := specStep lim m o; (.spec p r.1, showOut r.2)
    | .buf b, .op o => let r := bufStep lim b o; (.buf r.1, showOut r.2)
    | .buf b, .dump => (s, showRows "buf" b.buf ++ " | " ++ showRows "back" b.back)

def machine : Machine := { σ := St, init := .closed, step := step }

end Pk.Drv.C10
