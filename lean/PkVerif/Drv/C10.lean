import PkVerif.Drv.Common
/-! `pkmodel-c10`: stub (property not built yet). -/
namespace Pk.Drv.C10
def machine : Machine := { σ := Unit, init := (), step := fun s _ => (s, "bad-op") }
end Pk.Drv.C10
