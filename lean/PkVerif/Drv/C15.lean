import PkVerif.Drv.Common
/-! `pkmodel-c15`: stub (property not built yet). -/
namespace Pk.Drv.C15
def machine : Machine := { σ := Unit, init := (), step := fun s _ => (s, "bad-op") }
end Pk.Drv.C15
