import PkVerif.Drv.Common
import PkVerif.Model.FileSchema
import PkVerif.Gen.C15
/-!
`pkmodel-c15`: the file-schema model behind a line protocol.

    tree <enc>                               set the current parts tree        -> ok size=<n>
    readat <off> <n>                         FileReader.ReadAt                  -> <hex> <err>
    seekread <off> <n>                       Seek + one Read                    -> <hex> <err>
    foreach                                  ForeachChunk                       -> <leaf,leaf,…|-> <err>
    chunks <data> <reader> <len> <eofFrom|-> <pos:bits,…|->   WriteFileFromReader -> ok <n> <tree of sizes>
    chunksf <data> <reader> <len> <eofFrom|-> <splits|-> <c<k>[d],y<j>[d],f[d]|->   the same over a blob
                                             server that refuses the selected uploads    -> err | ok …
    sset <M> <L>                             SetStaticSetMembers + StaticSet    -> ok <shape> all=<k> flat=<b>

`<enc>` = parts separated by `,`:  `h<size>` | `x<size>` | `b<hex|->:<off>:<size>` | `n<off>:<size>[<enc>]`.
`chunks`: `<data>` and `<reader>` tell the implementation side how to regenerate the input; the model
only needs its length, from which byte count on `sawEOF` was true, and where `OnSplit` was true.
-/
namespace Pk.Drv.C15
open Pk Pk.FS

def cfg : Cfg :=
  { maxBlobSize := Gen.schemaMaxBlobSize, firstChunkSize := Gen.firstChunkSize,
    tooSmallThreshold := Gen.tooSmallThreshold }

/-- decimal digits only, 1..12 of them (the Go side applies the same rule) -/
def num? (w : String) : Option Nat :=
  let cs := w.toList
  if cs.isEmpty ∨ cs.length > 12 ∨ !cs.all Char.isDigit then none
  else some (cs.foldl (fun a c => a * 10 + (c.toNat - 48)) 0)

/-! ### tree syntax -/

def takeNum (cs : List Char) : Option (Nat × List Char) :=
  let ds := cs.takeWhile Char.isDigit
  if ds.isEmpty ∨ ds.length > 12 then none
  else some (ds.foldl (fun a c => a * 10 + (c.toNat - 48)) 0, cs.dropWhile Char.isDigit)

def isHexChar (c : Char) : Bool := c.isDigit || ('a' ≤ c && c ≤ 'f')

def takeHex (cs : List Char) : Option (Bytes × List Char) :=
  match cs with
  | '-' :: rest => some ([], rest)
  | _ =>
    let hs := cs.takeWhile isHexChar
    match ofHexString (String.ofList hs) with
    | some b => if hs.isEmpty then none else some (b, cs.dropWhile isHexChar)
    | none => none

mutual
def parsePart : Nat → List Char → Option (Part × List Char)
  | 0, _ => none
  | fuel + 1, cs =>
    match cs with
    | 'h' :: r => (takeNum r).map (fun (n, r) => (.hole n, r))
    | 'x' :: r => (takeNum r).map (fun (n, r) => (.both n, r))
    | 'b' :: r =>
      match takeHex r with
      | some (d, ':' :: r1) =>
        match takeNum r1 with
        | some (o, ':' :: r2) => (takeNum r2).map (fun (s, r3) => (.blob d o s, r3))
        | _ => none
      | _ => none
    | 'n' :: r =>
      match takeNum r with
      | some (o, ':' :: r1) =>
        match takeNum r1 with
        | some (s, '[' :: r2) =>
          match parseParts fuel r2 with
          | some (sub, ']' :: r3) => some (.bytes sub o s, r3)
          | _ => none
        | _ => none
      | _ => none
    | _ => none
def parseParts : Nat → List Char → Option (List Part × List Char)
  | 0, _ => none
  | fuel + 1, cs =>
    match cs with
    | [] => some ([], [])
    | ']' :: _ => some ([], cs)
    | _ =>
      match parsePart fuel cs with
      | none => none
      | some (p, ',' :: r) =>
        match r with
        | [] => none
        | ']' :: _ => none
        | _ => (parseParts fuel r).map (fun (ps, r') => (p :: ps, r'))
      | some (p, r) => some ([p], r)
end

def parseTree (w : String) : Option (List Part) :=
  if w = "-" then some [] else
  let cs := w.toList
  match parseParts (2 * cs.length + 2) cs with
  | some (ps, []) => some ps
  | _ => none

/-! ### output -/

def showErr : RErr → String
  | .nil => "nil" | .eof => "eof" | .unexpectedEOF => "unexpectedEOF" | .illegal => "illegal"
  | .tooDeep => "tooDeep"

def showRead (r : Bytes × RErr) : String := s!"{toHexString r.1} {showErr r.2}"

def showLeaf : Part → String
  | .hole s => s!"h{s}"
  | .blob d o s => s!"b{toHexString d}:{o}:{s}"
  | .both s => s!"x{s}"
  | .bytes _ o s => s!"n{o}:{s}[]"

def joinComma (xs : List String) : String := if xs.isEmpty then "-" else ",".intercalate xs

mutual
def showSizes : Part → String
  | .hole s => s!"h{s}"
  | .blob _ _ s => s!"b{s}"
  | .both s => s!"x{s}"
  | .bytes sub _ s => s!"B{s}[" ++ showSizesL sub ++ "]"
def showSizesL : List Part → String
  | [] => ""
  | [p] => showSizes p
  | p :: ps => showSizes p ++ "," ++ showSizesL ps
end

mutual
def showSSet : SSet → String
  | .mk m subs => s!"({m.length}" ++ showSSetL subs ++ ")"
def showSSetL : List SSet → String
  | [] => ""
  | s :: ss => showSSet s ++ showSSetL ss
end

/-! ### chunks input -/

def parseSplits (w : String) : Option (List (Nat × Nat)) :=
  if w = "-" then some [] else
  (w.splitOn ",").mapM (fun item =>
    match item.splitOn ":" with
    | [a, b] => match num? a, num? b with
      | some p, some k => some (p, k)
      | _, _ => none
    | _ => none)

/-- positions must be strictly increasing and within 1..len -/
def splitsOk (len : Nat) : List (Nat × Nat) → Nat → Bool
  | [], _ => true
  | (p, _) :: r, prev => decide (prev < p) && decide (p ≤ len) && splitsOk len r p

/-- the annotated input, built from the last byte down: byte `i` (1-based) carries value `i - 1` -/
def buildInput (eofFrom : Option Nat) : Nat → List (Nat × Nat) → List In → List In
  | 0, _, acc => acc
  | i + 1, rsplits, acc =>
    let eof := match eofFrom with | some k => decide (k < i + 1) | none => false
    match rsplits with
    | (p, b) :: rest =>
      if p = i + 1 then buildInput eofFrom i rest (⟨i, some b, eof⟩ :: acc)
      else buildInput eofFrom i rsplits (⟨i, none, eof⟩ :: acc)
    | [] => buildInput eofFrom i [] (⟨i, none, eof⟩ :: acc)

def doChunks (len : Nat) (eofFrom : Option Nat) (splits : List (Nat × Nat)) : String :=
  let input := buildInput eofFrom len splits.reverse []
  match writeFile cfg input with
  | .error .weirdSpan => "panic"
  | .error .sizeMismatch => "err"
  | .error .upload => "err"
  | .ok (parts, _) => s!"ok {sumPartsSize parts} {if parts.isEmpty then "-" else showSizesL parts}"

/-- which uploads the blob server refuses: chunk `k`, bytes schema blob `j` (both in start order), the file blob -/
inductive FailSel where
  | chunk (k : Nat) | bytes (j : Nat) | file

/-- `c<k>`, `y<j>`, `f`, each optionally followed by `d` (= fail after a delay: timing is not modelled) -/
def parseFailItem (w : String) : Option FailSel :=
  let cs := w.toList
  let cs := if cs.getLast? = some 'd' then cs.dropLast else cs
  match cs with
  | ['f'] => some .file
  | 'c' :: ds => (num? (String.ofList ds)).map .chunk
  | 'y' :: ds => (num? (String.ofList ds)).map .bytes
  | _ => none

def parseFails (w : String) : Option (List FailSel) :=
  if w = "-" then some [] else
  let items := w.splitOn ","
  if items.length > 8 then none else items.mapM parseFailItem

def isChunk : Obj → Bool
  | .chunk _ => true
  | _ => false

def doChunksF (len : Nat) (eofFrom : Option Nat) (splits : List (Nat × Nat)) (sel : List FailSel) : String :=
  let input := buildInput eofFrom len splits.reverse []
  match writeFile cfg input with
  | .error _ => "err"
  | .ok (_, objs) =>
    let nChunks := (objs.filter isChunk).length
    let nBytes := objs.length - nChunks - 1
    let fails : Nat → Bool := fun i => sel.any (fun s =>
      match s with
      | .chunk k => decide (k < nChunks) && i == k
      | .bytes j => decide (j < nBytes) && i == nChunks + j
      | .file => i == nChunks + nBytes)
    match writeFileF fails cfg input with
    | .error .weirdSpan => "panic"
    | .error _ => "err"
    | .ok (parts, _) => s!"ok {sumPartsSize parts} {if parts.isEmpty then "-" else showSizesL parts}"

def doSSet (m l : Nat) : String :=
  let ms := List.range l
  match spread m ms with
  | .error .panic => "panic"
  | .error .diverge => "diverge"
  | .ok (top, all) => s!"ok {showSSet top} all={all.length} flat={showBool (staticSet top == ms)}"

def step (st : List Part) (ws : List String) : List Part × String :=
  match ws with
  | ["tree", enc] =>
    (match parseTree enc with
     | some ps => (ps, s!"ok size={sumPartsSize ps}")
     | none => (st, "bad-op"))
  | ["readat", a, b] =>
    (match num? a, num? b with
     | some off, some n => if n > 16777216 then (st, "bad-op") else (st, showRead (readAt st off n))
     | _, _ => (st, "bad-op"))
  | ["seekread", a, b] =>
    (match num? a, num? b with
     | some off, some n => if n > 16777216 then (st, "bad-op") else (st, showRead (seekRead st off n))
     | _, _ => (st, "bad-op"))
  | ["foreach"] =>
    (match foreachChunk st with
     | (cs, e) => (st, s!"{joinComma (cs.map showLeaf)} {match e with | some e => showErr e | none => "nil"}"))
  | ["chunks", _, _, l, e, sp] =>
    (match num? l, (if e = "-" then some none else (num? e).map some), parseSplits sp with
     | some len, some eofFrom, some splits =>
       if len ≤ 67108864 ∧ splitsOk len splits 0 then (st, doChunks len eofFrom splits) else (st, "bad-op")
     | _, _, _ => (st, "bad-op"))
  | ["chunksf", _, _, l, e, sp, fl] =>
    (match num? l, (if e = "-" then some none else (num? e).map some), parseSplits sp, parseFails fl with
     | some len, some eofFrom, some splits, some sel =>
       if len ≤ 67108864 ∧ splitsOk len splits 0 then (st, doChunksF len eofFrom splits sel) else (st, "bad-op")
     | _, _, _, _ => (st, "bad-op"))
  | ["sset", a, b] =>
    (match num? a, num? b with
     | some m, some l => if m > 262144 ∨ l > 262144 then (st, "bad-op") else (st, doSSet m l)
     | _, _ => (st, "bad-op"))
  | _ => (st, "bad-op")

def machine : Machine := { σ := List Part, init := [], step := step }

end Pk.Drv.C15
