import PkVerif.Drv.Common
import PkVerif.Model.Ref
import PkVerif.Model.Pack
import PkVerif.Model.FilesStore
import PkVerif.Gen.Facts
import PkVerif.Gen.C03
/-! `pkmodel-c03`: the diskpacked pack model (`dp.*`) and the files-store VFS model (`fs.*`) behind the
line protocol of harness/props/c03.  Refs are plain ASCII tokens, bodies lower hex (`-` = empty). -/
namespace Pk.Drv.C03
open Pk Pk.Pack Pk.FilesStore

def tbl : Pk.Ref.Tbl := ⟨Gen.refSizes, Gen.testRefTypes, Gen.maxOtherDigestLen⟩

/-- `blob.Parse` accepts the text -/
def okRef (b : Bytes) : Bool := (Pk.Ref.parse tbl b true).isSome
/-- `blob.ParseBytes` accepts the text -/
def okRefB (b : Bytes) : Bool := (Pk.Ref.parseBytes tbl b).isSome

/-- the walker of the code as it is now (with the fit check of the repaired reindex.go) -/
def checkFit : Bool := true

def refArg (w : String) : Option Bytes :=
  let b := ofString w
  if okRef b then some b else none

def natArg (w : String) : Option Nat := if w.isEmpty then none else w.toNat?

def boolArg (w : String) : Option Bool :=
  if w == "1" then some true else if w == "0" then some false else none

def txt (b : Bytes) : String := toAsciiString b

inductive DpOp where
  | recv (ref body : Bytes)
  | remove (ref : Bytes)
  | rm (ref : Bytes) (mode : String)   -- a removal photographed at its write boundaries

inductive Step where
  | eff (e : Eff) (shown : Option String)   -- executed effect and its log line (none: no call is made)
  | failed (shown : String)                 -- the call that returned an error: logged, no effect

structure St where
  dp : Store
  dpPrev : Option (Store × DpOp)
  fs : VFS
  fsPrev : Option (VFS × Ctx × List Step)
  dpSlots : List (Nat × Store × Option (Store × DpOp)) := []
  fsSlots : List (Nat × VFS × Option (VFS × Ctx × List Step)) := []

def root : Bytes := ofString "/r"

def fsInit : VFS := ⟨[root], [], 1⟩

def init : St := { dp := Store.init 0, dpPrev := none, fs := fsInit, fsPrev := none }

def slotArg (w : String) : Option Nat := match natArg w with
  | some n => if n < 8 then some n else none
  | none => none

/-! ### diskpacked -/

def splitOn1 (s : String) (c : Char) : List String := s.splitOn (String.singleton c)

inductive Sub where
  | r (ref body : Bytes)
  | d (refs : List Bytes)

def parseSub (w : String) : Option Sub :=
  match splitOn1 w ':' with
  | ["r", r, b] => (match refArg r, hexArg b with
      | some r, some b => some (.r r b)
      | _, _ => none)
  | ["d", rs] =>
    let parts := splitOn1 rs ','
    let refs := parts.filterMap refArg
    if refs.length = parts.length ∧ refs ≠ [] then some (.d refs) else none
  | _ => none

def runSub (st : Store) : Sub → Store × String
  | .r ref body => (st.receive ref body, "ok")
  | .d refs => (st.remove refs, "done")

def showFetch : FetchRes → String
  | .notExist => "ne"
  | .err => "err"
  | .ok size body => s!"ok:{size}:{toHexString body}"

def commaJoin (l : List String) : String := if l.isEmpty then "-" else ",".intercalate l

def dpRead (st : Store) (refs : List Bytes) : String :=
  let f := refs.map (fun r => showFetch (st.fetch r))
  let s := refs.map (fun r => match st.stat r with | none => "none" | some n => toString n)
  let e := st.index.map (fun p => s!"{txt p.1}:{p.2.size}")
  let t := streamPacks okRefB st.packs
  let ts := t.1.map (fun p => s!"{txt p.1}:{toHexString p.2}")
  s!"F {commaJoin f} S {commaJoin s} E {commaJoin e} T {commaJoin ts} end={if t.2 then "ok" else "err"}"

def dpDump (st : Store) : String :=
  let ps := st.packs.map toHexString
  let rs := st.index.map (fun p => s!"{txt p.1}:{p.2.file},{p.2.offset},{p.2.size}")
  s!"packs={commaJoin ps} rows={commaJoin rs}"

/-- would `ReceiveBlob` append (not a duplicate whose extent is inside its pack)? -/
def willAppend (st : Store) (ref : Bytes) : Bool :=
  match st.index.get ref with
  | some m => (match st.packs[m.file]? with
     | some p => !(p.length ≥ m.offset + m.size)
     | none => true)
  | none => true

def dpCrashAppend (st0 : Store) (ref body : Bytes) (keep : Nat) (np row : Bool) : Option Store :=
  if !willAppend st0 ref then
    (if keep = 0 ∧ !np ∧ !row then some st0 else none)
  else
    let total := (appendBytes ref body).length
    let last := st0.packs.getLast?.getD []
    let rollover := decide (last.length + total > st0.maxSize)
    if keep > total then none
    else if np && !(rollover && keep == total) then none
    else some (st0.crashAppend ref body keep np row)

def rowInBounds (st : Store) (ref : Bytes) : Bool :=
  match st.index.get ref with
  | some m => (match st.packs[m.file]? with
    | some p => decide (m.offset + m.size ≤ p.length)
    | none => false)
  | none => false

/-- `delete` got as far as rewriting the header: the row and the pack with the rewritten header -/
def deleteReach (st : Store) (ref : Bytes) : Option (Meta × Bytes) :=
  match st.index.get ref with
  | none => none
  | some m => match st.packs[m.file]? with
    | none => none
    | some p => (deleteHeaderAt p ref m).map (fun p1 => (m, p1))

/-- the on-disk states at the write boundaries of `RemoveBlobs [ref]`, in the order of the code as
modelled (dele.go: header rewrite, then body reclaim; diskpacked.go: then the batch commit): entry to
the reclaim, [half of an interrupted zero fill], [exit of the hole punch], entry to `CommitBatch`,
returned -/
def photoStates (st0 : Store) (ref : Bytes) (mode : String) : List Store :=
  let mode := if rowInBounds st0 ref then mode else "punch"
  let done := st0.remove [ref]
  let commit := st0.crashDelete ref true true false
  match deleteReach st0 ref with
  | some (m, p1) =>
    if m.size = 0 then [commit, done] else
    let entry := st0.crashDelete ref true false false
    let half : Store := { st0 with packs := modifyNth st0.packs m.file (fun _ => zeroExtent p1 m.offset (m.size / 2)) }
    if mode == "fill" then [entry, commit, done]
    else if mode == "half" then [entry, half, commit, done]
    else [entry, commit, commit, done]
  | none => [commit, done]

def dpStep (s : St) (ws : List String) : St × String :=
  match ws with
  | ["dp.rm", mode, r] =>
    (match refArg r with
     | some ref =>
       if mode == "punch" ∨ mode == "fill" ∨ mode == "half" then
         ({ s with dp := s.dp.remove [ref], dpPrev := some (s.dp, DpOp.rm ref mode) },
           s!"done {(photoStates s.dp ref mode).length}")
       else (s, "bad-op")
     | none => (s, "bad-op"))
  | ["dp.photo", i] =>
    (match s.dpPrev, natArg i with
     | some (st0, .rm ref mode), some i =>
       (match (photoStates st0 ref mode)[i]? with
        | some st' => ({ s with dp := st', dpPrev := none }, "ok")
        | none => (s, "bad-op"))
     | _, _ => (s, "bad-op"))
  | ["dp.init", m] =>
    (match natArg m with
     | some m => ({ s with dp := Store.init m, dpPrev := none }, "ok")
     | none => (s, "bad-op"))
  | "dp.load" :: ps =>
    let packs := ps.filterMap hexArg
    if packs.length = ps.length ∧ packs ≠ [] then
      ({ s with dp := { s.dp with packs := packs, index := [] }, dpPrev := none }, "ok")
    else (s, "bad-op")
  | "dp.sess" :: subs =>
    let ps := subs.filterMap parseSub
    if ps.length ≠ subs.length ∨ ps = [] then (s, "bad-op") else
    let (st', outs) := ps.foldl (fun (acc : Store × List String) sub =>
      let r := runSub acc.1 sub; (r.1, acc.2 ++ [r.2])) (s.dp, [])
    let prev := match ps with
      | [.r ref body] => some (s.dp, DpOp.recv ref body)
      | [.d [ref]] => some (s.dp, DpOp.remove ref)
      | _ => none
    ({ s with dp := st', dpPrev := prev }, " ".intercalate outs)
  | ["dp.crash", "a", keep, np, row] =>
    (match s.dpPrev, natArg keep, boolArg np, boolArg row with
     | some (st0, .recv ref body), some keep, some np, some row =>
       (match dpCrashAppend st0 ref body keep np row with
        | some st' => ({ s with dp := st', dpPrev := none }, "ok")
        | none => (s, "bad-op"))
     | _, _, _, _ => (s, "bad-op"))
  | ["dp.crash", "d", hdr, body, row] =>
    (match s.dpPrev, boolArg hdr, boolArg body, boolArg row with
     | some (st0, .remove ref), some hdr, some body, some row =>
       ({ s with dp := st0.crashDelete ref hdr body row, dpPrev := none }, "ok")
     | some (st0, .rm ref _), some hdr, some body, some row =>
       ({ s with dp := st0.crashDelete ref hdr body row, dpPrev := none }, "ok")
     | _, _, _, _ => (s, "bad-op"))
  | ["dp.dump"] => (s, dpDump s.dp)
  | ["dp.save", n] =>
    (match slotArg n with
     | some n => ({ s with dpSlots := (n, s.dp, s.dpPrev) :: s.dpSlots.filter (·.1 != n) }, "ok")
     | none => (s, "bad-op"))
  | ["dp.restore", n] =>
    (match slotArg n with
     | some n => (match s.dpSlots.find? (·.1 == n) with
        | some (_, d, p) => ({ s with dp := d, dpPrev := p }, "ok")
        | none => (s, "bad-op"))
     | none => (s, "bad-op"))
  | ["dp.trunc", n] =>
    (match natArg n with
     | some n =>
       let last := s.dp.packs.getLast?.getD []
       if n ≤ last.length then
         ({ s with dp := { s.dp with packs := setLast s.dp.packs (last.take n) }, dpPrev := none }, "ok")
       else (s, "bad-op")
     | none => (s, "bad-op"))
  | "dp.read" :: refs =>
    let rs := refs.filterMap refArg
    if rs.length ≠ refs.length then (s, "bad-op") else (s, dpRead s.dp rs)
  | ["dp.reindex", mode] =>
    if mode == "fresh" ∨ mode == "over" then
      let r := s.dp.reindex okRef checkFit (mode == "fresh")
      ({ s with dp := r.1, dpPrev := none }, if r.2 then "ok" else "err")
    else (s, "bad-op")
  | _ => (s, "bad-op")

/-! ### files store -/

def showEff (c : Ctx) (tmp : Option Bytes) (renamed : Bool) : Eff → Option String
  | .mkdirAll => some s!"mkdirall:{txt c.dir}"
  | .tempFile => some s!"tempfile:{txt c.dir}:{txt c.pfx}"
  | .copy => if c.data.isEmpty then none else some s!"write:{c.data.length}"
  | .sync => some "sync"
  | .close => some "close"
  | .lstat => some s!"lstat:{txt (if renamed then c.final else tmp.getD [])}"
  | .rename => some s!"rename:{txt (tmp.getD [])}:{txt c.final}"
  | .remove => tmp.map (fun t => s!"remove:{txt t}")
  | _ => some "?"

/-- the steps of `ReceiveBlob` along an extracted effect list: the non-deferred, unconditional calls in
order; if `failAt = some k` the `k`-th of them returns an error and the deferred calls registered so
far run instead of the rest -/
def planSteps (c : Ctx) (v : VFS) (l : List EffAt) (failAt : Option Nat) : List Step :=
  let rec go (l : List EffAt) (i : Nat) (s : RunSt) (renamed : Bool) (defs : List Eff) (acc : List Step) : List Step :=
    match l with
    | [] => acc
    | x :: xs =>
      if x.deferred then go xs i s renamed (defs ++ [x.e]) acc
      else if x.cond then go xs i s renamed defs acc
      else if failAt = some i ∧ (showEff c s.tmp renamed x.e).isSome then
        -- this call fails: log it, then the deferred calls
        let acc := acc ++ [Step.failed ((showEff c s.tmp renamed x.e).getD "" ++ "!")]
        defs.foldl (fun a e => a ++ [Step.eff e (showEff c s.tmp renamed e)]) acc
      else
        let s' := step c s x.e
        go xs (i + 1) s' (renamed || x.e == .rename) defs (acc ++ [Step.eff x.e (showEff c s.tmp renamed x.e)])
  go l 0 ⟨v, none⟩ false [] []

def shownOf : Step → Option String
  | .eff _ s => s
  | .failed s => some s

def execSteps (c : Ctx) (s : RunSt) : List Step → RunSt
  | [] => s
  | .eff e _ :: t => execSteps c (step c s e) t
  | .failed _ :: t => execSteps c s t

/-- execute until `k` logged calls have been made -/
def execPrefix (c : Ctx) (s : RunSt) (k : Nat) : List Step → Option RunSt
  | [] => if k = 0 then some s else none
  | st :: t =>
    match shownOf st with
    | none => execPrefix c (execSteps c s [st]) k t
    | some _ => if k = 0 then some s else execPrefix c (execSteps c s [st]) (k - 1) t

def logOf (steps : List Step) : String :=
  commaJoin (steps.filterMap shownOf)

def insertFile (f : File) : List File → List File
  | [] => [f]
  | g :: gs => if ltB g.path f.path then g :: insertFile f gs else f :: g :: gs

def fsDump (v : VFS) : String :=
  let ds := (v.dirs.foldl (fun acc d => insertSorted d acc) []).map txt
  let fs := (v.files.foldl (fun acc f => insertFile f acc) []).map
    (fun f => s!"{txt f.path}:{toHexString f.dur}:{toHexString f.cur}")
  s!"dirs={commaJoin ds} files={commaJoin fs} ctr={v.counter}"

def fsRead (v : VFS) (refs : List Bytes) : String :=
  let f := refs.map (fun r => match fetch v root r with | none => "ne" | some b => s!"ok:{toHexString b}")
  let s := refs.map (fun r => match fetch v root r with | none => "none" | some b => toString b.length)
  let e := enumerate okRef v root
  let es := e.1.map (fun p => s!"{txt p.1}:{p.2}")
  s!"F {commaJoin f} S {commaJoin s} E {commaJoin es} end={if e.2 then "ok" else "err"}"

def effKind (w : String) : Option Eff :=
  match w with
  | "mkdirall" => some .mkdirAll | "tempfile" => some .tempFile | "write" => some .copy
  | "sync" => some .sync | "close" => some .close | "lstat" => some .lstat | "rename" => some .rename
  | _ => none

/-- index in the spine of the `occ`-th (1-based) call of kind `e` -/
def spineIndex (l : List EffAt) (e : Eff) (occ : Nat) : Option Nat :=
  let sp := spine l
  let rec go (sp : List Eff) (i n : Nat) : Option Nat :=
    match sp with
    | [] => none
    | x :: xs => if x == e then (if n + 1 == occ then some i else go xs (i + 1) (n + 1)) else go xs (i + 1) n
  go sp 0 0

def parentDir (p : Bytes) : Bytes :=
  let r := p.reverse
  match Pk.Pack.indexOf 47 r with
  | none => []
  | some i => (r.drop (i + 1)).reverse

def fsStep (s : St) (ws : List String) : St × String :=
  match ws with
  | ["fs.init"] => ({ s with fs := fsInit, fsPrev := none }, "ok")
  | ["fs.put", p, d] =>
    (match hexArg d with
     | some d =>
       let path := ofString p
       let v := (s.fs.mkdirAll (parentDir path)).remove path
       ({ s with fs := { v with files := v.files ++ [⟨path, d, d⟩] }, fsPrev := none }, "ok")
     | none => (s, "bad-op"))
  | ["fs.mkdir", p] => ({ s with fs := s.fs.mkdirAll (ofString p), fsPrev := none }, "ok")
  | ["fs.recv", r, d] =>
    (match refArg r, hexArg d with
     | some r, some d =>
       let c := ctxOf root r d
       let steps := planSteps c s.fs Gen.filesReceiveEffects none
       let fin := execSteps c ⟨s.fs, none⟩ steps
       ({ s with fs := fin.vfs, fsPrev := some (s.fs, c, steps) }, logOf steps ++ " -> ok")
     | _, _ => (s, "bad-op"))
  | ["fs.recvfail", r, d, kind, occ] =>
    (match refArg r, hexArg d, effKind kind, natArg occ with
     | some r, some d, some e, some occ =>
       let c := ctxOf root r d
       (match spineIndex Gen.filesReceiveEffects e occ with
        | none => (s, "bad-op")
        | some k =>
          let willFail := !(e == .copy && d.isEmpty)
          let steps := planSteps c s.fs Gen.filesReceiveEffects (if willFail then some k else none)
          let fin := execSteps c ⟨s.fs, none⟩ steps
          ({ s with fs := fin.vfs, fsPrev := some (s.fs, c, steps) },
            logOf steps ++ (if willFail then " -> err" else " -> ok")))
     | _, _, _, _ => (s, "bad-op"))
  | ["fs.remove", r] =>
    (match refArg r with
     | some r =>
       let p := blobPath root r
       let c : Ctx := ⟨[], [], p, []⟩
       -- RemoveBlobs (files.go:166): one `Remove(blobPath)`; modelled as `remove` of the "temp" name p
       let steps := [Step.eff .remove (some s!"remove:{txt p}")]
       ({ s with fs := s.fs.remove p, fsPrev := some (s.fs, c, steps) }, logOf steps ++ " -> ok")
     | none => (s, "bad-op"))
  | ["fs.crash", k, j] =>
    (match s.fsPrev, natArg k, natArg j with
     | some (v0, c, steps), some k, some j =>
       let start : RunSt := match steps with
         | [Step.eff .remove _] => ⟨v0, some c.final⟩
         | _ => ⟨v0, none⟩
       (match execPrefix c start k steps with
        | some st => ({ s with fs := st.vfs.crash j, fsPrev := none }, "ok")
        | none => (s, "bad-op"))
     | _, _, _ => (s, "bad-op"))
  | ["fs.dump"] => (s, fsDump s.fs)
  | ["fs.save", n] =>
    (match slotArg n with
     | some n => ({ s with fsSlots := (n, s.fs, s.fsPrev) :: s.fsSlots.filter (·.1 != n) }, "ok")
     | none => (s, "bad-op"))
  | ["fs.restore", n] =>
    (match slotArg n with
     | some n => (match s.fsSlots.find? (·.1 == n) with
        | some (_, v, p) => ({ s with fs := v, fsPrev := p }, "ok")
        | none => (s, "bad-op"))
     | none => (s, "bad-op"))
  | "fs.read" :: refs =>
    let rs := refs.filterMap refArg
    if rs.length ≠ refs.length then (s, "bad-op") else (s, fsRead s.fs rs)
  | _ => (s, "bad-op")

def step (s : St) (ws : List String) : St × String :=
  match ws with
  | [] => (s, "bad-op")
  | w :: _ => if w.startsWith "dp." then dpStep s ws else if w.startsWith "fs." then fsStep s ws else (s, "bad-op")

def machine : Machine := { σ := St, init := init, step := step }

end Pk.Drv.C03
