import PkVerif.Drv.Common
/-! `pkmodel-c03`: stub (property not built yet). -/
namespace Pk.Drv.C03
def machine : Machine := { σ := Unit, init := (), step := fun s _ => (s, "bad-op") }
end Pk.Drv.C03
