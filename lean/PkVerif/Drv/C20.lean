import PkVerif.Drv.Common
import PkVerif.Model.Ref
import PkVerif.Gen.Facts
/-! `pkmodel c20`: the Ref model behind a line protocol. -/
namespace Pk.Drv.C20
open Pk Pk.Ref

def tbl : Tbl := ⟨Gen.refSizes, Gen.testRefTypes, Gen.maxOtherDigestLen⟩

def showRef : Option Ref → String
  | none => "none"
  | some r => s!"ok {toHexString r.name} {toHexString r.sum} {showBool r.odd}"

def withRef (w : String) (f : Ref → String) : String :=
  match hexArg w with
  | none => "bad-op"
  | some s => match parse tbl s true with
    | none => "noref"
    | some r => f r

def step (_ : Unit) (ws : List String) : Unit × String :=
  ((), match ws with
  | ["parse", s] => (match hexArg s with | some b => showRef (parse tbl b true) | none => "bad-op")
  | ["parseknown", s] => (match hexArg s with | some b => showRef (parse tbl b false) | none => "bad-op")
  | ["parsebytes", s] => (match hexArg s with | some b => showRef (parseBytes tbl b) | none => "bad-op")
  | ["text", s] => withRef s (fun r => toHexString (toText r))
  | ["less", a, b] =>
    (match hexArg a, hexArg b with
     | some x, some y => showBool (lessOpt (parse tbl x true) (parse tbl y true))
     | _, _ => "bad-op")
  | ["eq", r, s] => (match hexArg s with | some b => withRef r (fun r => showOptBool (equalString tbl r b)) | none => "bad-op")
  | ["prefix", r, s] => (match hexArg s with | some b => withRef r (fun r => showOptBool (hasPrefix tbl true r b)) | none => "bad-op")
  | ["bin", r] => withRef r (fun r => toHexString (marshalBinary r))
  | ["unbin", s] => (match hexArg s with | some b => showRef (unmarshalBinary tbl b) | none => "bad-op")
  | ["json", r] => withRef r (fun r => toHexString (marshalJSON r))
  | ["unjson", s] =>
    (match hexArg s with
     | some b => (match unmarshalJSON tbl b with
        | none => "err" | some none => "zero" | some (some r) => showRef (some r))
     | none => "bad-op")
  | ["minus1", r] => withRef r (fun r => toHexString (stringMinusOne r))
  | ["sum32", r] => withRef r (fun r => match sum32 r with | none => "panic" | some v => toString v)
  | ["supported", r] => withRef r (fun r => showBool (supported tbl r))
  | _ => "bad-op")

def machine : Machine := { σ := Unit, init := (), step := step }

end Pk.Drv.C20
