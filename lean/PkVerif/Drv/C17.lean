import PkVerif.Drv.Common
import PkVerif.Model.Share
import PkVerif.Gen.C17
/-!
`pkmodel-c17`: the share handler model and the guard table behind a line protocol.

    blob <id> <extra> share <target|-> <0|1 transitive> <expires|->
    blob <id> <extra> file|bytes <parts>
    blob <id> <extra> dir <entries>
    blob <id> <extra> set <members> <mergeSets>
    blob <id> <extra> other|raw <mentions>            -> ok
    blob <id> <extra> odd <ctype> <field> <refs>      a blob of camliType <ctype> that carries the link
                               field <field> of ANOTHER type with <refs>: no link (`other`; for <ctype> =
                               jsonarray the blob is not a JSON object: `raw`)            -> ok
    del <id> <target>          a delete claim <id> (an `other` blob) of <target>      -> ok
    rm <id>                    the blob disappears from the storage                   -> ok
    now <t>                    the clock moves on to t (now ≤ t ≤ now+10)              -> ok
    get <METHOD> <0|1 assemble> <id|x> <via>          -> <errorCode> <status|*>
    guard <htype> <0|1 internal>                      -> deny|auth|camli|open
    access <htype> <0|1 internal> <0|1|s-… credentials> … -> 401|pass|handler
    after-auth <htype> <0|1 internal> <0|1|s-… credentials> …   the same request, sent right after a
                               credentialed one from the same address              -> 401|pass|handler
    discovery <prefix> <0|1|s-… credentials> …        -> 401|served
    fixed <path>                                      -> auth|open|none
    srvclose                                          -> ok

credentials: `1` = valid credentials of the configured auth mode, `0` = none, `s-<shape>` = none, but
the request is dressed up (websocket upgrade, empty/garbage Authorization, forwarded-for, …).

ids are decimal numbers, lists are comma separated, `-` is the empty list / absent value, `x` is a
malformed ref. The clock starts at 1000 (seconds) and only moves by `now`.
-/
namespace Pk.Drv.C17
open Pk Pk.Share

structure St where
  store : List (Nat × Stored) := []
  dels : List (Nat × Nat) := []   -- (deleter, target)
  now : Nat := 1000

def lookup (l : List (Nat × Stored)) (r : Nat) : Option Stored :=
  match l with
  | [] => none
  | (k, v) :: rest => if k == r then some v else lookup rest r

/-- pkg/index/index.go:779 `isDeleted`: deleted iff some delete claim of it is not itself deleted
(fuel = number of delete claims + 1; deleters are always newer blobs than their targets) -/
def isDeleted (dels : List (Nat × Nat)) : Nat → Nat → Bool
  | 0, _ => false
  | fuel + 1, r => dels.any (fun p => p.2 == r && !isDeleted dels fuel p.1)

def env (s : St) : Env :=
  ⟨lookup s.store, isDeleted s.dels (s.dels.length + 1), s.now⟩

def natArg (w : String) : Option Nat := if w.isEmpty then none else w.toNat?

def listArg (w : String) : Option (List Nat) :=
  if w == "-" then some [] else (w.splitOn ",").mapM natArg

def optArg (w : String) : Option (Option Nat) :=
  if w == "-" then some none else (natArg w).map some

def boolArg (w : String) : Option Bool :=
  if w == "0" then some false else if w == "1" then some true else none

/-- a ref in a request: `x` = does not parse -/
def reqRef (w : String) : Option (Option Nat) :=
  if w == "x" then some none else (natArg w).map some

def viaArg (w : String) : Option (List (Option Nat)) :=
  if w == "-" then some [] else (w.splitOn ",").mapM reqRef

def blobArg : List String → Option Blob
  | ["share", t, tr, ex] => do
    let t ← optArg t; let tr ← boolArg tr; let ex ← optArg ex
    pure (.share t tr ex)
  | ["file", ps] => (listArg ps).map .file
  | ["bytes", ps] => (listArg ps).map .bytes
  | ["dir", e] => (natArg e).map .directory
  | ["set", ms, subs] => do
    let ms ← listArg ms; let subs ← listArg subs
    pure (.staticSet ms subs)
  | ["odd", ctype, _, ms] =>
    (listArg ms).map (if ctype == "jsonarray" then .raw else .other)
  | ["other", ms] => (listArg ms).map .other
  | ["raw", ms] => (listArg ms).map .raw
  | _ => none

def isMethod (m : String) : Bool :=
  ["GET", "HEAD", "POST", "PUT", "DELETE", "PATCH", "OPTIONS", "CONNECT", "TRACE"].contains m

def showOutcome (st : Store) (o : Outcome) : String :=
  let code := match o with
    | .refused c => c.str
    | _ => ErrorCode.noError.str
  let status := match httpStatus st o with
    | some n => toString n
    | none => "*"
  code ++ " " ++ status

/-- does the request carry valid credentials? every `s-…` request shape carries none -/
def credsArg (w : String) : Option Bool :=
  if w == "1" then some true else if w == "0" || w.startsWith "s-" then some false else none

def htypeArg (w : String) : HType :=
  if w.startsWith Gen.storageTypePrefix then .storage (w.drop Gen.storageTypePrefix.length).toString
  else .handler w

def showGuard : Guard → String
  | .deny => "deny" | .auth => "auth" | .camliAuth => "camli" | .open_ => "open"

def step (s : St) (ws : List String) : St × String :=
  match ws with
  | "blob" :: id :: extra :: rest =>
    (match natArg id, listArg extra, blobArg rest with
     | some id, some extra, some b => ({ s with store := (id, ⟨b, extra⟩) :: s.store }, "ok")
     | _, _, _ => (s, "bad-op"))
  | ["del", id, target] =>
    (match natArg id, natArg target with
     | some id, some t =>
       ({ s with store := (id, ⟨.other [t], []⟩) :: s.store, dels := (id, t) :: s.dels }, "ok")
     | _, _ => (s, "bad-op"))
  | ["rm", id] =>
    (match natArg id with
     | some id => ({ s with store := s.store.filter (fun p => p.1 != id) }, "ok")
     | none => (s, "bad-op"))
  | ["now", t] =>
    (match natArg t with
     | some t => if s.now ≤ t && t ≤ s.now + 10 then ({ s with now := t }, "ok") else (s, "bad-op")
     | none => (s, "bad-op"))
  | ["get", m, asm, path, via] =>
    (match isMethod m, boolArg asm, reqRef path, viaArg via with
     | true, some asm, some path, some via =>
       let e := env s
       (s, showOutcome e.store (serveHTTP e (m == "GET" || m == "HEAD") path via asm))
     | _, _, _, _ => (s, "bad-op"))
  | "guard" :: ht :: internal :: _ =>
    (match boolArg internal with
     | some i => (s, showGuard (installedGuard Gen.authHandlerTypes (htypeArg ht) i))
     | none => (s, "bad-op"))
  | "after-auth" :: ht :: internal :: creds :: _ =>
    -- what an earlier request presented does not matter: this one is judged on its own credentials
    (match boolArg internal, credsArg creds with
     | some i, some c =>
       (s, match guardPasses (installedGuard Gen.authHandlerTypes (htypeArg ht) i) c with
           | some true => "pass" | some false => "401" | none => "handler")
     | _, _ => (s, "bad-op"))
  | "access" :: ht :: internal :: creds :: _ =>
    (match boolArg internal, credsArg creds with
     | some i, some c =>
       (s, match guardPasses (installedGuard Gen.authHandlerTypes (htypeArg ht) i) c with
           | some true => "pass" | some false => "401" | none => "handler")
     | _, _ => (s, "bad-op"))
  | "discovery" :: _ :: creds :: _ =>
    (match credsArg creds with
     | some c => (s, if rootDiscovery c then "served" else "401")
     | none => (s, "bad-op"))
  | ["srvclose"] => (s, "ok")
  | "fixed" :: path :: _ =>
    (s, match Gen.fixedEndpoints.find? (fun p => p.1 == path) with
        | some (_, true) => "auth" | some (_, false) => "open" | none => "none")
  | _ => (s, "bad-op")

def machine : Machine := { σ := St, init := {}, step := step }

end Pk.Drv.C17
