import PkVerif.Drv.Common
/-! `pkmodel-c17`: stub (property not built yet). -/
namespace Pk.Drv.C17
def machine : Machine := { σ := Unit, init := (), step := fun s _ => (s, "bad-op") }
end Pk.Drv.C17
