import PkVerif.Drv.Common
/-! `pkmodel-c09`: stub (property not built yet). -/
namespace Pk.Drv.C09
def machine : Machine := { σ := Unit, init := (), step := fun s _ => (s, "bad-op") }
end Pk.Drv.C09
