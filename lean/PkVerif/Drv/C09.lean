import PkVerif.Drv.Common
import PkVerif.Model.SearchPage
import PkVerif.Gen.Facts
/-! `pkmodel-c09`: the search-paging model behind the line protocol of harness/props/c09. -/
namespace Pk.Drv.C09
open Pk Pk.Ref Pk.SearchPage

def tbl : Tbl := ⟨Gen.refSizes, Gen.testRefTypes, Gen.maxOtherDigestLen⟩

/-- canonical decimal integer -/
def intArg (s : String) : Option Int :=
  match s.toInt? with
  | none => none
  | some n => if toString n == s then some n else none

/-- an instant of the years 0..9999, as true nanoseconds since the epoch -/
def baseTimeArg (s : String) : Option Int :=
  match intArg s with
  | none => none
  | some n =>
    let sec := n.ediv 1000000000
    if -62167219200 ≤ sec ∧ sec ≤ 253402300799 then some n else none

/-- a time argument `<nanos>[@<Z|offset minutes>[f<digit>]]`.  The presentation only says how the
harness spells the instant in the blob (zone offset, fractional zeros); the model orders by instant,
so it is validated (the local wall clock must keep a 4-digit year) and dropped. -/
def timeArg (s : String) : Option Int :=
  match s.splitOn "@" with
  | [b] => baseTimeArg b
  | [b, pres] =>
    match baseTimeArg b with
    | none => none
    | some n =>
      let parts := pres.splitOn "f"
      let zone? : Option Int :=
        match parts with
        | [z] | [z, _] =>
          if z == "Z" then some 0
          else (intArg z).bind (fun o => if -840 ≤ o ∧ o ≤ 840 then some o else none)
        | _ => none
      let kOk : Bool :=
        match parts with
        | [_] => true
        | [_, k] => k.length == 1 && k.toList.all Char.isDigit
        | _ => false
      match zone?, kOk with
      | some off, true =>
        let lsec := n.ediv 1000000000 + off * 60
        if -62167219200 ≤ lsec ∧ lsec ≤ 253402300799 then some n else none
      | _, _ => none
  | _ => none

/-- a claim date: not the zero Time, not within the first second of 1970 (`Time3339.IsAnyZero`) -/
def claimDateArg (s : String) : Option Int :=
  match timeArg s with
  | none => none
  | some n => if n = zeroTime ∨ (0 ≤ n ∧ n < 1000000000) then none else some n

def listArg (s : String) : Option (List Int) :=
  if s == "-" then some [] else (s.splitOn ",").mapM claimDateArg

def refArg (s : String) : Option Ref :=
  match hexArg s with
  | none => none
  | some b => parse tbl b true

def showTime : Option Int → String
  | none => "none"
  | some t => toString t

def indexOfRef (w : List PN) (k : RefKey) : String :=
  match w.findIdx? (fun p => p.ref == k) with
  | none => "?"
  | some i => toString i

def showBlobs (w : List PN) (bs : List Cand) : String :=
  if bs.isEmpty then "-" else ",".intercalate (bs.map (fun c => indexOfRef w c.2))

def showKeys (w : List PN) (bs : List RefKey) : String :=
  if bs.isEmpty then "-" else ",".intercalate (bs.map (indexOfRef w))

def doQuery (w : List PN) (srt cons lim : String) (cont : Option String) (around : Option String) : String :=
  let srt? : Option (SortBy ⊕ USort) :=
    if srt == "c" then some (.inl .created) else if srt == "m" then some (.inl .lastMod)
    else if srt == "C" then some (.inr .createdAsc) else if srt == "r" then some (.inr .blobRefAsc) else none
  let cons? : Option Cons := if cons == "all" then some .all else if cons == "a" then some .tagA else if cons == "b" then some .tagB
    else if cons == "t" then some .camliType else if cons == "n" then some .both
    else if cons == "y" then some .nodeType else if cons == "z" then some .nodeTypeAndA
    else if cons.startsWith "p" then
      (match hexArg (String.ofList (cons.toList.drop 1)) with
       | some pfx => if pfx.isEmpty then none else some (.refPrefix pfx)
       | none => none)
    else none
  let lim? := (intArg lim).bind (fun n => if -2147483648 ≤ n ∧ n ≤ 2147483647 then some n else none)
  let cont? : Option Bytes := match cont with | none => some [] | some c => hexArg c
  let around? : Option (Option Ref) := match around with | none => some none | some a => (refArg a).map some
  match srt?, cons?, lim?, cont?, around? with
  | some (.inl s), some c, some l, some ct, some ar =>
    match query tbl true w ⟨s, c, l, ct, ar⟩ with
    | none => "err"
    | some r => s!"ok {showBlobs w r.blobs} {toHexString r.cont}"
  | some (.inr us), some c, some l, some ct, some ar =>
    match queryUnsorted true w us c l ct ar with
    | .err => "err"
    | .panic => "panic"
    | .ok bs => s!"ok {showKeys w bs} -"
  | _, _, _, _, _ => "bad-op"

/-- the state: the permanodes in declaration order, and the declared content files (key ↦ index of
the permanode whose camliContent they are) -/
structure St where
  w : List PN                      -- `dates` here are ALL claim dates, in claim order
  files : List (String × Nat)
  dels : List DelTarget := []      -- the delete claims, in the order they were issued

/-- the world the corpus answers from: deleted claims do not count for the modtime -/
def St.eff (st : St) : List PN :=
  (List.range st.w.length).filterMap (fun i => st.w[i]?.map (fun p => { p with dates := liveDates st.dels i p.dates }))

/-- the permanode a delete claim is ultimately about -/
def rootPn (dels : List DelTarget) : Nat → Nat → Option Nat
  | 0, _ => none
  | fuel + 1, j =>
    match dels[j]? with
    | some (.claim pn _) => some pn
    | some (.del k) => rootPn dels fuel k
    | none => none

def showTimesAt (st : St) (i : Nat) : String :=
  match st.eff[i]? with
  | some p => s!"ok {showTime (permanodeAnyTime p)} {showTime (permanodeModtime p)}"
  | none => "bad-op"

def keyOk (key : String) : Bool := !key.isEmpty && key.toList.all (fun c => c.isLower || c.isDigit)

def showTimes (p : PN) : String := s!"ok {showTime (permanodeAnyTime p)} {showTime (permanodeModtime p)}"

def attrDateOk (d : Int) : Bool := decide (d < 1600000000000000000)

def step (st : St) (ws : List String) : St × String :=
  let w := st.w
  match ws with
  | ["del", pi, ci, d] =>
    match pi.toNat?, ci.toNat?, claimDateArg d with
    | some i, some c, some _ =>
      match w[i]? with
      | some p =>
        if toString i != pi || toString c != ci || c ≥ p.dates.length then (st, "bad-op") else
        let st' := { st with dels := st.dels ++ [.claim i c] }
        (st', showTimesAt st' i)
      | none => (st, "bad-op")
    | _, _, _ => (st, "bad-op")
  | ["deld", ji, d] =>
    match ji.toNat?, claimDateArg d with
    | some j, some _ =>
      if toString j != ji || j ≥ st.dels.length then (st, "bad-op") else
      let st' := { st with dels := st.dels ++ [.del j] }
      match rootPn st'.dels (st'.dels.length + 1) j with
      | some i => (st', showTimesAt st' i)
      | none => (st, "bad-op")
    | _, _ => (st, "bad-op")
  | ["pn", key, refhex, dc, tags, ds] =>
    let dc? : Option (Option Int) := if dc == "none" then some none else (timeArg dc).map some
    let tags? : Option (Bool × Bool × Bool) :=
      if tags == "-" then some (false, false, false)
      else if ["a", "b", "y", "ab", "ay", "by", "aby"].contains tags then
        some (tags.contains 'a', tags.contains 'b', tags.contains 'y')
      else none
    match keyOk key, refArg refhex, dc?, tags?, listArg ds with
    | true, some r, some dcv, some (ta, tb, ty), some dates =>
      let need := (if dcv.isSome then 1 else 0) + (if ta then 1 else 0) + (if tb then 1 else 0) + (if ty then 1 else 0)
      let k : RefKey := ⟨r.name, r.sum⟩
      -- claims that carry attributes are dated before 2020-09-13 (claims after time.Now() are not in effect)
      if r.odd || need > dates.length || w.any (fun p => p.ref == k)
          || (dates.take need).any (fun d => !attrDateOk d) then (st, "bad-op") else
      let p : PN := ⟨k, dcv, ta, tb, dates, ty, none⟩
      let st' := { st with w := w ++ [p] }
      (st', showTimesAt st' w.length)
    | _, _, _, _, _ => (st, "bad-op")
  | ["cc", idx, fkey, cd, ft] =>
    let ft? : Option (Option Int) := if ft == "none" then some none else (timeArg ft).map some
    match idx.toNat?, claimDateArg cd, ft? with
    | some i, some d, some ftv =>
      match w[i]? with
      | some p =>
        if toString i != idx || !keyOk fkey || p.cc.isSome || st.files.any (fun f => f.1 == fkey)
            || !attrDateOk d || ftv == some zeroTime then (st, "bad-op") else
        let p' : PN := { p with cc := some ⟨d, ftv, false⟩, dates := p.dates ++ [d] }
        let st' := { st with w := w.set i p', files := st.files ++ [(fkey, i)] }
        (st', showTimesAt st' i)
      | none => (st, "bad-op")
    | _, _, _ => (st, "bad-op")
  | ["file", fkey] =>
    match st.files.find? (fun f => f.1 == fkey) with
    | some (_, i) =>
      match w[i]? with
      | some p =>
        match p.cc with
        | some c =>
          if c.indexed then (st, "bad-op") else
          let p' : PN := { p with cc := some { c with indexed := true } }
          let st' := { st with w := w.set i p' }
          (st', showTimesAt st' i)
        | none => (st, "bad-op")
      | none => (st, "bad-op")
    | none => (st, "bad-op")
  | ["q", srt, cons, lim, cont] => (st, doQuery st.eff srt cons lim (some cont) none)
  | ["ar", srt, cons, lim, piv] => (st, doQuery st.eff srt cons lim none (some piv))
  | ["ar", srt, cons, lim, piv, cont] => (st, doQuery st.eff srt cons lim (some cont) (some piv))
  -- qr / arr: the same requests issued by a caller that reuses one Go query value; the handler must
  -- answer exactly as for fresh values (it owns no state of the caller)
  | ["qr", srt, cons, lim, cont] => (st, doQuery st.eff srt cons lim (some cont) none)
  | ["arr", srt, cons, lim, piv] => (st, doQuery st.eff srt cons lim none (some piv))
  | ["arr", srt, cons, lim, piv, cont] => (st, doQuery st.eff srt cons lim (some cont) (some piv))
  | _ => (st, "bad-op")

def machine : Machine := { σ := St, init := ⟨[], [], []⟩, step := step }

end Pk.Drv.C09
