import PkVerif.Drv.Common
/-! `pkmodel-c13`: stub (property not built yet). -/
namespace Pk.Drv.C13
def machine : Machine := { σ := Unit, init := (), step := fun s _ => (s, "bad-op") }
end Pk.Drv.C13
