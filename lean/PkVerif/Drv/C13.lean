import PkVerif.Drv.C01
import PkVerif.Model.StatGate
import PkVerif.Gen.C13
/-! `pkmodel-c13`: C01's storage configurations with every leaf behind a failure schedule.

    cfg <prefix expression>     as C01 (incl. shardN / replicaN), plus   faulty <sched> <cfg>   (sched: a word over n/b/a, or -)
    recv k v | fetch k | stat k | rm k | enum after limit          (stat and rm: exactly one ref)
    pending                     per `faulty` node, in tree order: schedule entries not yet consumed
    gatestat cap n fail         gate slots one call of StatBlobsParallelHelper leaves taken
-/
namespace Pk.Drv.C13
open Pk Pk.RefMap Pk.Stores Pk.Drv.C01

def parseSched (w : String) : Option (List Fault) :=
  if w == "-" then some []
  else w.toList.mapM (fun c =>
    if c == 'n' then some Fault.none else if c == 'b' then some Fault.before
    else if c == 'a' then some Fault.after else none)

mutual
partial def parseKids : Nat → List String → Option (List Cfg × List String)
  | 0, r => some ([], r)
  | n + 1, r =>
    match parseCfg r with
    | some (c, r1) => (parseKids n r1).map (fun (cs, r2) => (c :: cs, r2))
    | none => none
partial def parseCfg : List String → Option (Cfg × List String)
  | "mem" :: r => some (.mem, r)
  | "memcache" :: n :: r => n.toNat?.map (fun m => (.memCache m, r))
  | "faulty" :: s :: r =>
    match parseSched s, parseCfg r with
    | some sc, some (c, r1) => some (.faulty sc c, r1)
    | _, _ => none
  | "ns" :: r => (parseCfg r).map (fun (c, r') => (.ns c, r'))
  | "proxy" :: n :: r =>
    match n.toNat?, parseCfg r with
    | some m, some (o, r1) => (parseCfg r1).map (fun (c, r2) => (.proxy o c m, r2))
    | _, _ => none
  | "overlay" :: r =>
    match parseCfg r with
    | some (l, r1) => (parseCfg r1).map (fun (u, r2) => (.overlay l u, r2))
    | none => none
  | "shard2" :: r =>
    match parseCfg r with
    | some (a, r1) => (parseCfg r1).map (fun (b, r2) => (.shard2 a b, r2))
    | none => none
  | "replica2" :: r =>
    match parseCfg r with
    | some (a, r1) => (parseCfg r1).map (fun (b, r2) => (.replica2 a b, r2))
    | none => none
  | "cond2" :: r =>
    match parseCfg r with
    | some (a, r1) => (parseCfg r1).map (fun (b, r2) => (.cond2 a b, r2))
    | none => none
  | "shardN" :: n :: r =>
    match n.toNat? with
    | some m =>
      if 1 ≤ m ∧ m ≤ 16 then
        match parseKids m r with
        | some (k :: ks, r1) => some (Cfg.shardNest sum32 m 0 k ks, r1)
        | _ => none
      else none
    | none => none
  | "replicaN" :: n :: r =>
    match n.toNat? with
    | some m =>
      if 1 ≤ m ∧ m ≤ 16 then
        match parseKids m r with
        | some (k :: ks, r1) => some (Cfg.replicaNest k ks, r1)
        | _ => none
      else none
    | none => none
  | _ => none
end

/-- remaining schedule length of every `faulty` node, in tree order -/
def pendings : (c : Cfg) → (interp route isSchema c).σ → List Nat
  | .mem, _ => []
  | .memCache _, _ => []
  | .ns m, s => pendings m s.2
  | .proxy o c _, s => pendings o s.1 ++ pendings c s.2.1
  | .overlay l u, s => pendings l s.1 ++ pendings u s.2.1
  | .shard2 a b, s => pendings a s.1 ++ pendings b s.2
  | .shardBy _ a b, s => pendings a s.1 ++ pendings b s.2
  | .replica2 a b, s => pendings a s.1 ++ pendings b s.2
  | .cond2 t e, s => pendings t s.1 ++ pendings e s.2
  | .faulty _ c, s => s.2.length :: pendings c s.1
  | .leaf _, _ => []

/-- the forced schedule of the harness's `gatestat` (harness/props/c13/gate.go): with one slot the
workers run one after the other, so a failure of worker `f` is visible at iteration `f+1`; otherwise
the first `min cap n` workers hold their slots, the failing one is released first, and the loop –
blocked in `gate.Start()` of iteration `cap` if there is one – sees the cancellation there -/
def gateVisibleAt (cap n : Nat) : Option Nat → Option Nat
  | none => none
  | some f => if cap = 1 then (if f + 1 < n then some (f + 1) else none)
              else if cap < n then some cap else none

def gateStat (cap n : Nat) (fail : Option Nat) : String :=
  let ends := (List.range n).map (fun i => if some i = fail then StatGate.WorkerEnd.workerErr else .ok)
  let visible : Nat → Bool := fun i => match gateVisibleAt cap n fail with | some p => decide (p ≤ i) | none => false
  let lk := StatGate.leaked (StatGate.shapeOf Gen.statHelperEffects) visible ends
  s!"gate leaked {lk} {if fail.isSome then "err" else "ok"}"

def step (st : St) (ws : List String) : St × String :=
  match ws with
  | "cfg" :: rest =>
    match parseCfg (rest.takeWhile (· != "//")) with
    | some (c, []) =>
      if rest.any (· == "//") then (some ⟨c, (interp route isSchema c).init⟩, "ok") else (st, "bad-op")
    | _ => (st, "bad-op")
  | ["gatestat", c, n, f] =>
    match c.toNat?, n.toNat? with
    | some c, some n =>
      let fail : Option (Option Nat) := if f == "-" then some none else f.toNat?.map some
      match fail with
      | none => (st, "bad-op")
      | some fail =>
        let okf := match fail with
          | none => true
          | some i => decide (i < n) && (c == 1 || decide (i < min c n))
        if 1 ≤ c ∧ c ≤ 64 ∧ 1 ≤ n ∧ n ≤ 64 ∧ okf = true then (st, gateStat c n fail) else (st, "bad-op")
    | _, _ => (st, "bad-op")
  | ["pending"] =>
    match st with
    | some ⟨c, s⟩ => (st, (" ".intercalate ("pending" :: (pendings c s).map toString)))
    | none => (st, "bad-op")
  | ["recv", _, _] | ["fetch", _] | ["stat", _] | ["rm", _] | ["enum", _, _] => C01.step st ws
  | _ => (st, "bad-op")

def machine : Machine := { σ := St, init := none, step := step }

end Pk.Drv.C13
