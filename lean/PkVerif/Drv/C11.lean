import PkVerif.Drv.Common
import PkVerif.Model.Encrypt
import PkVerif.Model.EncryptSha
import PkVerif.Model.Ref
import PkVerif.Gen.Facts
import PkVerif.Gen.C11
/-!
`pkmodel-c11`: the encrypt store model behind the C11 line protocol.

The model never sees real ciphertext: it runs the toy cipher, and blobs of the wrapped stores are
named by tokens (`E<n>` / `M<n>` = the n-th distinct name ever written to `blobs` / `meta`); plain refs
are named `@<n>` (the n-th receive op of the case) when known.

    recv|recvlate <seg>+          seg = hex bytes | - | E<n> (that blob's ref text) | @<n> (that ref's text)
    recvas <ref> <seg>+           receive under the given ref
    fetch|stat <ref>              ref = @<n> | hex of the ref text
    enum <after> <limit>
    dump | sum | calls
    garble <tok> <kind> <pos> | copy <dst> <src> | swap <a> <b> | drop <tok> | plant M|E <src>
    snap | restore
    restart keep|wipe <M-tokens in arrival order, comma separated | ->
    fault E|M|I <k>               the k-th next ReceiveBlob of that wrapped store / index.Set of a receive fails once
    recvover <seg>+               two overlapping receives of one blob: A hangs in the blobs store, B runs, A resumes
-/
namespace Pk.Drv.C11
open Pk Pk.SMap Pk.Encrypt

def tbl : Ref.Tbl := ⟨Gen.refSizes, Gen.testRefTypes, Gen.maxOtherDigestLen⟩

def P : Params where
  A := toyAEAD
  key := [107]
  digest := Sha224.refText
  parseKnown := fun s => (Ref.parse tbl s false).isSome
  parseValid := fun s => (Ref.parse tbl s true).isSome
  version := Gen.encryptVersion
  full := Gen.encryptFullMetaBlobSize
  small := Gen.encryptSmallMetaCountLimit

def rsteps : List RStep := recvSteps Gen.encryptReceiveEffects Gen.encryptRecvTargets
def psteps : List PStep := packSteps Gen.encryptPackEffects

structure D where
  s : St := {}
  up : Bool := true
  eNames : Array Bytes := #[]
  mNames : Array Bytes := #[]
  seen : Nat := 0        -- trace entries already turned into tokens
  callsSeen : Nat := 0   -- trace entries already reported by `calls`
  labels : Array Bytes := #[]
  saved : Option (SMap Bytes × SMap Bytes) := none

/-! ### tokens -/

def idxOf (a : Array Bytes) (x : Bytes) : Option Nat := a.findIdx? (· == x)

def addName (a : Array Bytes) (x : Bytes) : Array Bytes := if (idxOf a x).isSome then a else a.push x

/-- give tokens to the names written since the last call -/
def sync (d : D) : D :=
  let fresh := (d.s.trace.take (d.s.trace.length - d.seen)).reverse
  let (e, m) := fresh.foldl (fun (em : Array Bytes × Array Bytes) c =>
    match c with
    | .putBlobs n _ => (addName em.1 n, em.2)
    | .putMeta n _ => (em.1, addName em.2 n)
    | .rmMeta _ => em) (d.eNames, d.mNames)
  { d with eNames := e, mNames := m, seen := d.s.trace.length }

def tokOf (pre : String) (a : Array Bytes) (x : Bytes) : String :=
  match idxOf a x with
  | some i => s!"{pre}{i + 1}"
  | none => pre ++ "?"

def labelOf (d : D) (ref : Bytes) : String :=
  match idxOf d.labels ref with
  | some i => s!"@{i + 1}"
  | none => toHexString ref

/-- `E12` / `M3` / `@4` -/
def parseTok (pre : Char) (w : String) : Option Nat :=
  match w.toList with
  | c :: rest => if c == pre && !rest.isEmpty && rest.all Char.isDigit then
      (match (String.ofList rest).toNat? with | some (n + 1) => some n | _ => none) else none
  | [] => none

inductive Loc where
  | e (i : Nat) | m (i : Nat)

def parseLoc (d : D) (w : String) : Option (Loc × Bytes) :=
  match parseTok 'E' w with
  | some i => (d.eNames[i]?).map (fun n => (.e i, n))
  | none => match parseTok 'M' w with
    | some i => (d.mNames[i]?).map (fun n => (.m i, n))
    | none => none

def refArg (d : D) (w : String) : Option Bytes :=
  match parseTok '@' w with
  | some i => d.labels[i]?
  | none => if w.startsWith "@" then none else hexArg w

def segs (d : D) : List String → Option Bytes
  | [] => some []
  | w :: ws =>
    let here : Option Bytes :=
      match parseTok 'E' w with
      | some i => d.eNames[i]?
      | none => match parseTok '@' w with
        | some i => d.labels[i]?
        | none => if w.startsWith "E" || w.startsWith "@" then none else hexArg w
    match here, segs d ws with
    | some a, some b => some (a ++ b)
    | _, _ => none

/-! ### canonical views -/

def sortStrings (l : List String) : List String := l.mergeSort (fun a b => decide (a ≤ b))

def isAsciiWord (b : Bytes) : Bool := !b.isEmpty && b.all (fun c => (48 ≤ c && c ≤ 57) || (97 ≤ c && c ≤ 122) || c == 45)

def wordOrHex (b : Bytes) : String := if isAsciiWord b then toAsciiString b else "x" ++ toHexString b

/-- an index value / the tail of a meta line: `<size text>/<enc token>` -/
def canonVal (d : D) (v : Bytes) : String :=
  match splitOn 47 v with
  | [a, b] => wordOrHex a ++ "/" ++ (match idxOf d.eNames b with | some i => s!"E{i + 1}" | none => wordOrHex b)
  | _ => "x" ++ toHexString v

def showLines (d : D) (ls : List (Bytes × Bytes)) : String :=
  ";".intercalate (sortStrings (ls.map (fun pv => labelOf d pv.1 ++ "/" ++ canonVal d pv.2)))

def showMetaBlob (d : D) (c : Bytes) : String :=
  match decryptBlob P c with
  | none => "!"
  | some text => match parseMeta P text with
    | none => "?"
    | some ls => showLines d ls

def showDataBlob (d : D) (c : Bytes) : String :=
  match decryptBlob P c with
  | none => "!"
  | some text =>
    match idxOf d.labels (P.digest text) with
    | some i => s!"@{i + 1}"
    | none => if (parseMeta P text).isSome then "~" else "?"

def present (names : Array Bytes) (store : SMap Bytes) : List (Nat × Bytes) :=
  (names.toList.zipIdx).filterMap (fun (n, i) => (get store n).map (fun c => (i + 1, c)))

def dump (d : D) : String :=
  let idx := sortStrings (d.s.index.map (fun kv => labelOf d kv.1 ++ "=" ++ canonVal d kv.2))
  let metas := (present d.mNames d.s.metas).map (fun (i, c) => s!"M{i}" ++ "{" ++ showMetaBlob d c ++ "}")
  let blobs := (present d.eNames d.s.blobs).map (fun (i, c) => s!"E{i}>" ++ showDataBlob d c)
  s!"up={if d.up then 1 else 0} idx=[{",".intercalate idx}] meta=[{",".intercalate metas}] blobs=[{",".intercalate blobs}]"

def showNats (l : List Nat) : String := ",".intercalate (l.map toString)

def summary (d : D) : String :=
  let counts := (d.s.metas.map (fun kv => match linesOf P kv.2 with | some ls => ls.length | none => 0))
  let sorted := counts.mergeSort (fun a b => decide (a ≤ b))
  s!"up={if d.up then 1 else 0} idx={d.s.index.length} meta={d.s.metas.length} lines=[{showNats sorted}] blobs={d.s.blobs.length}"

def showCall (d : D) : Call → String
  | .putBlobs n _ => "E+" ++ tokOf "E" d.eNames n
  | .putMeta n _ => "M+" ++ tokOf "M" d.mNames n
  | .rmMeta ns => "M-" ++ ",".intercalate (ns.map (tokOf "M" d.mNames))

def calls (d : D) : D × String :=
  let fresh := (d.s.trace.take (d.s.trace.length - d.callsSeen)).reverse
  ({ d with callsSeen := d.s.trace.length },
   if fresh.isEmpty then "-" else " ".intercalate (fresh.map (showCall d)))

def showRes (d : D) : Res → String
  | .sized n => s!"ok {n}"
  | .bytes b sz => s!"ok {labelOf d (P.digest b)} {sz}"
  | .notExist => "notexist"
  | .corrupt => "corrupt"
  | .err => "err"
  | .refs l => "refs " ++ (if l.isEmpty then "-" else ",".intercalate (l.map (fun (k, sz) => s!"{labelOf d k}:{sz}")))

/-! ### ops -/

def doRecv (d : D) (late : Bool) (ref plain : Bytes) : D × String :=
  let d := { d with labels := d.labels.push ref }
  if !d.up then (d, "down") else
  let (s', r) := receiveBlob P rsteps psteps late d.s ref plain
  let d := sync { d with s := s' }
  (d, showRes d r)

def getLoc (d : D) : Loc × Bytes → Option Bytes
  | (.e _, n) => get d.s.blobs n
  | (.m _, n) => get d.s.metas n

def setLoc (d : D) (l : Loc × Bytes) (c : Bytes) : D :=
  match l with
  | (.e _, n) => { d with s := { d.s with blobs := ins n c d.s.blobs } }
  | (.m _, n) => { d with s := { d.s with metas := ins n c d.s.metas } }

def parseOrder (d : D) (w : String) : Option (List Bytes) :=
  if w == "-" then some [] else
  (w.splitOn ",").foldr (fun t acc =>
    match parseTok 'M' t, acc with
    | some i, some l => (d.mNames[i]?).map (· :: l)
    | _, _ => none) (some [])

def step (d : D) (ws : List String) : D × String :=
  match ws with
  | "recv" :: rest@(_ :: _) =>
    (match segs d rest with | some b => doRecv d false (P.digest b) b | none => (d, "bad-op"))
  | "recvlate" :: rest@(_ :: _) =>
    (match segs d rest with | some b => doRecv d true (P.digest b) b | none => (d, "bad-op"))
  | "recvover" :: rest@(_ :: _) =>
    (match segs d rest with
     | some b =>
       let ref := P.digest b
       let d := { d with labels := d.labels.push ref }
       if !d.up then (d, "down") else
       let (s', ra, rb) := receiveOverlapping P rsteps psteps d.s ref b
       let d := sync { d with s := s' }
       (d, showRes d ra ++ " " ++ showRes d rb)
     | none => (d, "bad-op"))
  | "recvas" :: r :: rest@(_ :: _) =>
    (match refArg d r, segs d rest with
     | some ref, some b => doRecv d false ref b
     | _, _ => (d, "bad-op"))
  | ["fetch", r] =>
    (match refArg d r with
     | some ref => (d, if d.up then showRes d (fetch P d.s ref) else "down")
     | none => (d, "bad-op"))
  | ["stat", r] =>
    (match refArg d r with
     | some ref => (d, if d.up then showRes d (statBlob P d.s ref) else "down")
     | none => (d, "bad-op"))
  | ["enum", a, l] =>
    (match refArg d a, l.toNat? with
     | some after, some limit => (d, if d.up then showRes d (enumerateBlobs P d.s after limit) else "down")
     | _, _ => (d, "bad-op"))
  | ["dump"] => (d, dump d)
  | ["sum"] => (d, summary d)
  | ["calls"] => calls d
  | ["garble", t, kind, pos] =>
    if !(kind == "flip" || kind == "trunc" || kind == "extend") || pos.toNat?.isNone then (d, "bad-op") else
    (match parseLoc d t with
     | some l => (match getLoc d l with
        | some c => (setLoc d l (255 :: c), "ok")
        | none => (d, "noblob"))
     | none => (d, "bad-op"))
  | ["copy", a, b] =>
    (match parseLoc d a, parseLoc d b with
     | some la, some lb => (match getLoc d la, getLoc d lb with
        | some _, some cb => (setLoc d la cb, "ok")
        | _, _ => (d, "noblob"))
     | _, _ => (d, "bad-op"))
  | ["swap", a, b] =>
    (match parseLoc d a, parseLoc d b with
     | some la, some lb => (match getLoc d la, getLoc d lb with
        | some ca, some cb => (setLoc (setLoc d la cb) lb ca, "ok")
        | _, _ => (d, "noblob"))
     | _, _ => (d, "bad-op"))
  | ["drop", t] =>
    (match parseLoc d t with
     | some (.e _, n) => (if has d.s.blobs n then ({ d with s := { d.s with blobs := del n d.s.blobs } }, "ok") else (d, "noblob"))
     | some (.m _, n) => (if has d.s.metas n then ({ d with s := { d.s with metas := del n d.s.metas } }, "ok") else (d, "noblob"))
     | none => (d, "bad-op"))
  | ["plant", dst, src] =>
    if !(dst == "M" || dst == "E") then (d, "bad-op") else
    (match parseLoc d src with
     | some l => (match getLoc d l with
        | some c =>
          let n := P.digest c
          if dst == "M" then
            ({ d with s := { d.s with metas := ins n c d.s.metas }, mNames := addName d.mNames n }, "ok")
          else
            ({ d with s := { d.s with blobs := ins n c d.s.blobs }, eNames := addName d.eNames n }, "ok")
        | none => (d, "noblob"))
     | none => (d, "bad-op"))
  | ["fault", st, k] =>
    (match k.toNat? with
     | some n =>
       if st == "E" then ({ d with s := { d.s with failBlobs := n } }, "ok")
       else if st == "M" then ({ d with s := { d.s with failMeta := n } }, "ok")
       else if st == "I" then ({ d with s := { d.s with failIndex := n } }, "ok")
       else (d, "bad-op")
     | none => (d, "bad-op"))
  | ["snap"] => ({ d with saved := some (d.s.blobs, d.s.metas) }, "ok")
  | ["restore"] =>
    (match d.saved with
     | some (b, m) => ({ d with s := { d.s with blobs := b, metas := m } }, "ok")
     | none => (d, "nosnap"))
  | ["restart", mode, order] =>
    if !(mode == "keep" || mode == "wipe") then (d, "bad-op") else
    (match parseOrder d order with
     | some names =>
       -- the arrival order must list every meta blob present exactly once
       if !(names.all (has d.s.metas) && d.s.metas.all (fun kv => names.contains kv.1) &&
            names.eraseDups.length == names.length) then (d, "bad-op") else
       let (s1, ok) := restart P psteps (mode == "wipe") names d.s
       let s2 := drain P psteps (drainFuel s1) s1
       let d := sync { d with s := s2, up := ok }
       (d, if ok then "ok" else "err")
     | none => (d, "bad-op"))
  | _ => (d, "bad-op")

def machine : Machine := { σ := D, init := {}, step := step }

end Pk.Drv.C11
