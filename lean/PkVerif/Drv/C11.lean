import PkVerif.Drv.Common
/-! `pkmodel-c11`: stub (property not built yet). -/
namespace Pk.Drv.C11
def machine : Machine := { σ := Unit, init := (), step := fun s _ => (s, "bad-op") }
end Pk.Drv.C11
