import PkVerif.Drv.Common
/-! `pkmodel-c19`: stub (property not built yet). -/
namespace Pk.Drv.C19
def machine : Machine := { σ := Unit, init := (), step := fun s _ => (s, "bad-op") }
end Pk.Drv.C19
