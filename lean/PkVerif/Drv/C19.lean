import PkVerif.Drv.Common
import PkVerif.Model.Sync
import PkVerif.Gen.C19
/-! `pkmodel-c19`: the sync state machine behind a line protocol.

    up I ok|qseterr|srcerr              whole upload                       -> ack | err
    upbegin I Q pre|post                upload parked before/after queue.Set -> parked | busy | err
    upend I                             finish the parked upload           -> ack | err | none
    copy I FAULT ok|qdelerr             whole copy attempt                 -> ok | fail | notpending | busy
    cpbegin I FAULT DQ pre|post         copy parked before/after queue.Delete -> parked | ok | fail | notpending | busy
    cpend I                             finish the parked copy             -> ok | none
    drain FAULT I,I,…|-                 runSync until a batch copies nothing (listed ids fail with FAULT) -> copied=N | busy
    drainfirst FAULT K                  runSync loop; the first K attempts fail (fetcherr*/desterr*) -> copied=N | busy
    outage FAULT / recover              (live) the source/destination is down for every call / is back -> ok
    awaitfail K                         (live) wait until the outage has refused K calls since outage/restart -> ok
    bulkup N                            N distinct tiny blobs, each a whole clean upload (ids from 100000, printed as ranges) -> acked=N
    restart                             crash + readQueueToMemory          -> need=N   (live: ok)
    dump                                                                    -> state line
    multi N step|live                   (first op only, N = 2|3) N sync handlers with own queue and destination on one source
    mup I H / msettle / mrestart        (multi) upload during which handler H's queue.Set fails (0 = none) -> ack|err; drain all -> state line; restart all -> ok
    live                                (first op only) real syncLoop mode: only `up I ok`, `restart`, `settle`
    settle                              (live) wait for quiescence         -> state line
-/
namespace Pk.Drv.C19
open Pk Pk.Sync

structure DSt where
  s : St
  /-- parked uploads: id, row write ok, parked after the row write -/
  pu : List (Nat × Bool × Bool)
  /-- parked copies: id, row deletion ok, parked after the deletion -/
  pc : List (Nat × Bool × Bool)
  live : Bool
  started : Bool
  /-- multi-destination case: one machine per sync handler (empty = not a multi case) -/
  bulkNext : Nat := 0
  ms : List St := []
  macked : List Nat := []

/-- the variant is the one read off the regenerated `enqueue` effects; no default -/
def variant : Option Variant := variantOf Gen.syncEnqueueEffects

def init : DSt := { s := Sync.init, pu := [], pc := [], live := false, started := false }

def parseId (w : String) : Option Nat :=
  let cs := w.toList
  if cs.isEmpty || cs.length > 4 then none
  else if !cs.all Char.isDigit then none
  else if cs.length > 1 && cs.head? == some '0' then none
  else w.toNat?

def parseKind : String → Option ErrKind
  | "generic" => some .generic | "notexist" => some .notExist | "enoent" => some .pathNotExist
  | "canceled" => some .canceled | "deadline" => some .deadline | "eof" => some .eof
  | "ueof" => some .unexpectedEOF | "corruptblob" => some .corruptBlob | "notfound" => some .notFound
  | _ => none

/-- `base` or `base:kind` -/
def splitKind (w : String) : Option (String × ErrKind) :=
  match w.splitOn ":" with
  | [b] => some (b, .generic)
  | [b, k] => (parseKind k).map (fun k => (b, k))
  | _ => none

def parseFault (w : String) : Option Fault :=
  match w with
  | "ok" => some .ok | "fetchsize" => some .fetchSize | "corrupt" => some .corrupt
  | "destsize" => some .destSize | "shortread:eof0" => some .readEmpty
  | _ =>
    match splitKind w with
    | some ("fetcherr", k) => some (.fetchErr k)
    | some ("shortread", k) => some (.shortRead k)
    | some ("desterr", k) => some (.destErr k)
    | _ => none

/-- `some true` = fine, `some false` = the queue write fails, `none` = the source store refuses -/
def parseUp (w : String) : Option (Option Bool) :=
  if w == "ok" then some (some true) else
  match splitKind w with
  | some ("qseterr", _) => some (some false)
  | some ("srcerr", _) => some none
  | _ => none

def parseDq (w : String) : Option Bool :=
  if w == "ok" then some true else
  match splitKind w with
  | some ("qdelerr", _) => some false
  | _ => none

def parsePos : String → Option Bool
  | "pre" => some false | "post" => some true | _ => none

def parseIds (w : String) : Option (List Nat) :=
  if w == "-" then some [] else (w.splitOn ",").mapM parseId

def insertSorted (a : Nat) : List Nat → List Nat
  | [] => [a]
  | x :: xs => if a ≤ x then a :: x :: xs else x :: insertSorted a xs

def sortNat (l : List Nat) : List Nat := l.foldr insertSorted []

/-- ids of the blobs uploaded by `bulkup`; in state lines they are printed as ranges lo-hi -/
def bulkBase : Nat := 100000

def fmtRange (lo hi : Nat) : String := if lo == hi then toString lo else s!"{lo}-{hi}"

/-- a sorted id list as strings: ids below `bulkBase` one by one, bulk ids as maximal ranges -/
def rangeStrs : List Nat → Option (Nat × Nat) → List String
  | [], none => []
  | [], some (lo, hi) => [fmtRange lo hi]
  | x :: xs, none => if x < bulkBase then toString x :: rangeStrs xs none else rangeStrs xs (some (x, x))
  | x :: xs, some (lo, hi) =>
    if x == hi + 1 then rangeStrs xs (some (lo, x)) else fmtRange lo hi :: rangeStrs xs (some (x, x))

def joinNat (l : List Nat) : String := ",".intercalate (rangeStrs (sortNat l) none)

def showDst (d : List (Nat × Nat)) : String :=
  let ids := sortNat (d.map (·.1))
  let good := fun (i : Nat) => match d.find? (·.1 == i) with
    | some (_, p) => p == i
    | none => true
  let small := (ids.filter (· < bulkBase)).map (fun i => if good i then toString i else toString i ++ "!")
  let big := ids.filter (fun i => !(i < bulkBase))
  let goodBig := rangeStrs (big.filter good) none
  let badBig := (big.filter (fun i => !good i)).map (fun i => toString i ++ "!")
  ",".intercalate (small ++ goodBig ++ badBig)

def dump (d : DSt) : String :=
  s!"src={joinNat d.s.src} dst={showDst d.s.dst} rows={joinNat d.s.rows} need={joinNat d.s.need} " ++
  s!"copying={joinNat d.s.copying} acked={joinNat d.s.acked} upl={joinNat (d.pu.map (·.1))} cps={joinNat (d.pc.map (·.1))}"

def ack (ok : Bool) : String := if ok then "ack" else "err"

/-- one whole copy attempt of `i`; returns the state and whether `copyBlob` returned nil -/
def copyOnce (v : Variant) (s : St) (i : Nat) (f : Fault) (dq : Bool) : St × Bool :=
  let s1 := step v (step v s (.cpStart i)) (.cpXfer i f)
  if (i, CpPhase.xferred) ∈ s1.cps then
    (step v (step v s1 (.qDel i dq)) (.cpEnd i), true)
  else (step v s1 (.cpEnd i), false)

/-- one `runSync` batch over the pending list; returns the number of blobs copied -/
def batch (v : Variant) (s : St) (f : Fault) (bad : List Nat) : St × Nat :=
  (sortNat s.need).foldl (fun (acc : St × Nat) i =>
    let r := copyOnce v acc.1 i (if i ∈ bad then f else .ok) true
    (r.1, if r.2 then acc.2 + 1 else acc.2)) (s, 0)

/-- `for sh.runSync(…) > 0 {}` -/
def drainLoop (v : Variant) (f : Fault) (bad : List Nat) : Nat → St → Nat → St × Nat
  | 0, s, n => (s, n)
  | fuel + 1, s, n =>
    let r := batch v s f bad
    if r.2 == 0 then (r.1, n) else drainLoop v f bad fuel r.1 (n + r.2)

def drain (v : Variant) (s : St) (f : Fault) (bad : List Nat) : St × Nat :=
  drainLoop v f bad (s.need.length + 2) s 0

/-- the faults of `drainfirst` / `outage`: unconditional and without effect -/
def parseOutage (w : String) : Option Fault :=
  match parseFault w with
  | some (.fetchErr k) => some (.fetchErr k)
  | some (.destErr k) => some (.destErr k)
  | _ => none

/-- `bulkup N`: N distinct tiny blobs (ids from `bulkBase` up), each a whole clean upload -/
def bulkup (v : Variant) (d : DSt) (n : Nat) : DSt × String :=
  let s := (List.range n).foldl (fun s k => uploadOne v s (bulkBase + d.bulkNext + k) true) d.s
  ({ d with s := s, bulkNext := d.bulkNext + n }, s!"acked={n}")

def stepLive (v : Variant) (d : DSt) (ws : List String) : DSt × String :=
  match ws with
  | ["bulkup", n] => match parseId n with
    | some n => bulkup v d n
    | none => (d, "bad-op")
  | ["up", i, "ok"] =>
    match parseId i with
    | some i =>
      let s := step v (step v (step v d.s (.srcRecv i)) (.qSet i true)) (.memAdd i true)
      ({ d with s := s }, "ack")
    | none => (d, "bad-op")
  | ["restart"] => ({ d with s := step v d.s .restart, pu := [], pc := [] }, "ok")
  | ["outage", f] => if (parseOutage f).isSome then (d, "ok") else (d, "bad-op")
  | ["recover"] => (d, "ok")
  | ["awaitfail", k] => if (parseId k).isSome then (d, "ok") else (d, "bad-op")
  | ["settle"] =>
    let r := drain v d.s .ok []
    let d' := { d with s := r.1 }
    (d', dump d')
  | _ => (d, "bad-op")

def stepV (v : Variant) (d : DSt) (ws : List String) : DSt × String :=
  let d := { d with started := true }
  match ws with
  | ["up", i, q] =>
    match parseId i, parseUp q with
    | some i, some none => (d, "err")
    | some i, some (some ok) =>
      let s := step v (step v (step v d.s (.srcRecv i)) (.qSet i ok)) (.memAdd i ok)
      ({ d with s := s }, ack ok)
    | _, _ => (d, "bad-op")
  | ["upbegin", i, q, pos] =>
    match parseId i, parseUp q, parsePos pos with
    | some i, some q, some post =>
      if d.pu.any (·.1 == i) then (d, "busy") else
      match q with
      | none => (d, "err")
      | some ok =>
        let s1 := step v d.s (.srcRecv i)
        let s2 := if post then step v s1 (.qSet i ok) else s1
        ({ d with s := s2, pu := (i, ok, post) :: d.pu }, "parked")
    | _, _, _ => (d, "bad-op")
  | ["upend", i] =>
    match parseId i with
    | some i =>
      match d.pu.find? (·.1 == i) with
      | none => (d, "none")
      | some (_, ok, post) =>
        let s1 := if post then d.s else step v d.s (.qSet i ok)
        ({ d with s := step v s1 (.memAdd i ok), pu := d.pu.filter (·.1 != i) }, ack ok)
    | none => (d, "bad-op")
  | ["copy", i, f, dq] =>
    match parseId i, parseFault f, parseDq dq with
    | some i, some f, some dq =>
      if i ∉ d.s.need then (d, "notpending")
      else if i ∈ d.s.copying then (d, "busy")
      else
        let r := copyOnce v d.s i f dq
        ({ d with s := r.1 }, if r.2 then "ok" else "fail")
    | _, _, _ => (d, "bad-op")
  | ["cpbegin", i, f, dq, pos] =>
    match parseId i, parseFault f, parseDq dq, parsePos pos with
    | some i, some f, some dq, some post =>
      if i ∉ d.s.need then (d, "notpending")
      else if i ∈ d.s.copying then (d, "busy")
      else
        let s1 := step v (step v d.s (.cpStart i)) (.cpXfer i f)
        if (i, CpPhase.xferred) ∈ s1.cps then
          let s2 := if post then step v s1 (.qDel i dq) else s1
          ({ d with s := s2, pc := (i, dq, post) :: d.pc }, "parked")
        else ({ d with s := step v s1 (.cpEnd i) }, "fail")
    | _, _, _, _ => (d, "bad-op")
  | ["cpend", i] =>
    match parseId i with
    | some i =>
      match d.pc.find? (·.1 == i) with
      | none => (d, "none")
      | some (_, dq, post) =>
        let s1 := if post then d.s else step v d.s (.qDel i dq)
        ({ d with s := step v s1 (.cpEnd i), pc := d.pc.filter (·.1 != i) }, "ok")
    | none => (d, "bad-op")
  | ["drain", f, ids] =>
    match parseFault f, parseIds ids with
    | some f, some bad =>
      if !d.pc.isEmpty then (d, "busy") else
      let r := drain v d.s f bad
      ({ d with s := r.1 }, s!"copied={r.2}")
    | _, _ => (d, "bad-op")
  | ["bulkup", n] =>
    match parseId n with
    | some n => bulkup v d n
    | none => (d, "bad-op")
  | ["drainfirst", f, k] =>
    -- the first `k` copy attempts of the drain fail (whichever blobs the worker pool picks), the
    -- later ones are clean: if the whole first batch fails nothing is copied and the loop ends;
    -- otherwise the batch copies something, the loop goes on and everything pending is copied
    match parseOutage f, parseId k with
    | some _, some k =>
      if !d.pc.isEmpty then (d, "busy")
      else if k ≥ d.s.need.length then (d, "copied=0")
      else
        let r := drain v d.s .ok []
        ({ d with s := r.1 }, s!"copied={r.2}")
    | _, _ => (d, "bad-op")
  | ["restart"] =>
    let s := step v d.s .restart
    ({ d with s := s, pu := [], pc := [] }, s!"need={s.need.length}")
  | ["dump"] => (d, dump d)
  | _ => (d, "bad-op")

def dumpMulti (d : DSt) : String :=
  let src := match d.ms with | s :: _ => s.src | [] => []
  d.ms.foldl (fun acc s => acc ++ s!" | d={showDst s.dst} r={joinNat s.rows} n={joinNat s.need}")
    s!"src={joinNat src} acked={joinNat d.macked}"

/-- a source with N sync handlers: the product of N machines over one upload stream -/
def stepMulti (v : Variant) (d : DSt) (ws : List String) : DSt × String :=
  match ws with
  | ["mup", i, h] =>
    match parseId i, parseId h with
    | some i, some h =>
      if h > d.ms.length then (d, "bad-op")
      else
        let d' := { d with ms := uploadAll v d.ms i h }
        if h == 0 then ({ d' with macked := ins i d.macked }, "ack") else (d', "err")
    | _, _ => (d, "bad-op")
  | ["mrestart"] => ({ d with ms := d.ms.map (fun s => Sync.step v s .restart) }, "ok")
  | ["msettle"] =>
    let d' := { d with ms := d.ms.map (fun s => (drain v s .ok []).1) }
    (d', dumpMulti d')
  | _ => (d, "bad-op")

def step (d : DSt) (ws : List String) : DSt × String :=
  match variant with
  | none => (d, "no-variant")
  | some v =>
    if !d.ms.isEmpty then stepMulti v d ws
    else if !d.started && (ws == ["multi", "2", "step"] || ws == ["multi", "2", "live"]) then
      ({ d with started := true, ms := [Sync.init, Sync.init] }, "ok")
    else if !d.started && (ws == ["multi", "3", "step"] || ws == ["multi", "3", "live"]) then
      ({ d with started := true, ms := [Sync.init, Sync.init, Sync.init] }, "ok")
    else if d.live then stepLive v d ws
    else if ws == ["live"] then
      if d.started then ({ d with started := true }, "bad-op")
      else ({ d with live := true, started := true }, "ok")
    else stepV v d ws

def machine : Machine := { σ := DSt, init := init, step := step }

end Pk.Drv.C19
