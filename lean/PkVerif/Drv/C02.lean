import PkVerif.Drv.C01
import PkVerif.Model.Receive
/-! `pkmodel-c02`: verified receive, PUT and multipart decisions in front of a C01 storage model.

    cfg …                                                   (as in c01)
    recv <key> <true|none> <sup> <eof|eof+|err> <frag>…      -> accepted n hub=1 | corrupt hub=0 | …
    put  <key> <true|none> <sup> <parses> <cl|none> <fin> <frag>…   -> 204 | 400 | 500
    multipart <key> <true|none> <sup> <parses> <frag> [| …]   -> received k:n …
    fetch / stat / enum                                      (as in c01)
`true` is the content the ref denotes (hex) – "bytes hash to the ref" is equality with it; `none`
means no offered bytes can match (the digest is not the hash of anything in play).
-/
namespace Pk.Drv.C02
open Pk Pk.RefMap Pk.Stores Pk.Recv

def matcher (t : String) : Option (Bytes → Bool) :=
  if t == "none" then some (fun _ => false)
  else (hexArg t).map (fun tb => fun b => b == tb)

def finOf (s : String) : Option End :=
  if s == "eof" || s == "eof+" then some .eof else if s == "err" then some .err else none

def boolOf (s : String) : Option Bool :=
  if s == "1" then some true else if s == "0" then some false else none

def showRes : Res → String
  | .accepted d => s!"accepted {d.length}"
  | .corrupt => "corrupt"
  | .tooBig => "toobig"
  | .srcErr => "err"
  | .badHash => "badhash"

/-- split a word list at `|` -/
def splitBar (ws : List String) : List (List String) :=
  ws.foldr (fun w acc => if w == "|" then [] :: acc else
    match acc with
    | [] => [[w]]
    | g :: gs => (w :: g) :: gs) [[]]

def parsePart : List String → Option Part
  | k :: t :: sup :: par :: frags =>
    match hexArg k, matcher t, boolOf sup, boolOf par, frags.mapM hexArg with
    | some k, some m, some sup, some par, some fs => some ⟨k, par, sup, m, ⟨fs, .eof⟩⟩
    | _, _, _, _, _ => none
  | _ => none

def step (st : C01.St) (ws : List String) : C01.St × String :=
  match ws with
  | ["recvra", k, t, sup, skip, d] =>
    -- the source is a reader with ReadAt and Size (bytes.Reader …) that the caller has already advanced past
    -- `skip`: what Receive is offered is the REST of the stream, `d`, in one piece
    (match st, hexArg k, matcher t, boolOf sup, hexArg skip, hexArg d with
     | some ⟨c, s⟩, some k, some m, some sup, some _, some d =>
       let I := interp C01.route C01.isSchema c
       let e := receiveInto I Gen.maxBlobSize sup m s k ⟨[d], .eof⟩
       (some ⟨c, e.state⟩, s!"{showRes e.res} hub={e.hub.length}")
     | _, _, _, _, _, _ => (st, "bad-op"))
  | "recv" :: k :: t :: sup :: fin :: frags =>
    (match st, hexArg k, matcher t, boolOf sup, finOf fin, frags.mapM hexArg with
     | some ⟨c, s⟩, some k, some m, some sup, some fin, some fs =>
       let I := interp C01.route C01.isSchema c
       let e := receiveInto I Gen.maxBlobSize sup m s k ⟨fs, fin⟩
       (some ⟨c, e.state⟩, s!"{showRes e.res} hub={e.hub.length}")
     | _, _, _, _, _, _ => (st, "bad-op"))
  | "put" :: k :: t :: sup :: par :: cl :: fin :: frags =>
    (match st, hexArg k, matcher t, boolOf sup, boolOf par, finOf fin, frags.mapM hexArg with
     | some ⟨c, s⟩, some k, some m, some sup, some par, some fin, some fs =>
       let I := interp C01.route C01.isSchema c
       let clv : Option (Option Nat) := if cl == "none" then some none else cl.toNat?.map some
       (match clv with
        | none => (st, "bad-op")
        | some clv =>
          let (code, r) := putDecision Gen.maxBlobSize true clv par sup m ⟨fs, fin⟩
          let codeS := match code with | .noContent204 => "204" | .badRequest400 => "400" | .serverError500 => "500"
          match r with
          | .accepted d =>
            (match I.step s (.recv k d) with
             | (s', .sized _) => (some ⟨c, s'⟩, codeS)
             | (s', _) => (some ⟨c, s'⟩, "500"))
          | _ => (st, codeS))
     | _, _, _, _, _, _, _ => (st, "bad-op"))
  | "multipart" :: rest =>
    (match st, (splitBar rest).mapM parsePart with
     | some ⟨c, s⟩, some parts =>
       let I := interp C01.route C01.isSchema c
       let recvd := multipart Gen.maxBlobSize parts
       -- store what was accepted, in order
       let s' := recvd.foldl (fun s e =>
         match parts.find? (fun p => p.key == e.1 && p.parses) with
         | some p => (I.step s (.recv e.1 p.src.total)).1
         | none => s) s
       (some ⟨c, s'⟩, ("received " ++ C01.showPairs recvd).trimRight)
     | _, _ => (st, "bad-op"))
  | _ => C01.step st ws

def machine : Machine := { σ := C01.St, init := none, step := step }

end Pk.Drv.C02
