import PkVerif.Drv.Common
/-! `pkmodel-c02`: stub (property not built yet). -/
namespace Pk.Drv.C02
def machine : Machine := { σ := Unit, init := (), step := fun s _ => (s, "bad-op") }
end Pk.Drv.C02
