import PkVerif.Drv.C05
/-! `pkmodel-c06`: the same machine as `pkmodel-c05` (the protocol carries `obs` / `obsr`). -/
namespace Pk.Drv.C06
def machine : Machine := Pk.Drv.C05.machine
end Pk.Drv.C06
