import PkVerif.Drv.Common
/-! `pkmodel-c06`: stub (property not built yet). -/
namespace Pk.Drv.C06
def machine : Machine := { σ := Unit, init := (), step := fun s _ => (s, "bad-op") }
end Pk.Drv.C06
