import PkVerif.Drv.Common
import PkVerif.Model.Replica
/-!
`pkmodel-c12`: the replica model behind a line protocol.

    stores <n>                                 n ≤ 8 empty sub-stores (memory stores behind fault wrappers)
    put <i> <key> <content>                    sub-store i receives the blob directly
    puttr <i> <key> <content>                  sub-store i is left with a TRUNCATED copy (one byte short; content non-empty)
    cfg <min|-> <w,…|-> <r,…|->               blobserver.CreateStorage("replica", {backends, readBackends, minWritesForSuccess})
    down <i> <0|1>                             reads/removes on sub-store i fail
    recv <key> <content> <pos:kind,…> <run|cancel>
                                               ReceiveBlob with the results arriving in the given order;
                                               kind ∈ ok | ws (stores, reports size+1) | w0 (does not store,
                                               reports size+1) | err (does not store) | es (stores, then errors) |
                                               tr (leaves a truncated copy, reports its size; content non-empty);
                                               `cancel`: the caller cancels ctx when ReceiveBlob returns
    statc <key,…|-> <fast|yield|sleep|block>   StatBlobs with all read replicas answering concurrently and slow callbacks
    fetch <key> | stat <key,…|-> <order|-> | enum <after|-> <limit> | remove <key,…|-> | dump
-/
namespace Pk.Drv.C12
open Pk Pk.MergedEnum Pk.Replica

abbrev St := World

def init : St := ⟨[], none⟩

/-- strict decimal: 1..9 digits, nothing else -/
def natArg (w : String) : Option Nat :=
  if w.length ≥ 1 && w.length ≤ 9 && w.all Char.isDigit then w.toNat? else none

def intArg (w : String) : Option Int :=
  if w.startsWith "-" then (natArg (w.drop 1).toString).map (fun n => -(n : Int)) else (natArg w).map (fun n => (n : Int))

def splitList (w : String) : List String := if w == "-" then [] else w.splitOn ","

def natList (w : String) : Option (List Nat) := (splitList w).mapM natArg

def nodup : List Nat → Bool
  | [] => true
  | a :: t => !t.contains a && nodup t

def keyArg (w : String) : Option Bytes :=
  match hexArg w with
  | some b => if b.length = 28 then some b else none
  | none => none

def keyList (w : String) : Option (List Bytes) := (splitList w).mapM keyArg

def showNats (l : List Nat) : String := if l.isEmpty then "-" else ",".intercalate (l.map toString)

def showSRs (l : List SR) : String :=
  if l.isEmpty then "-" else ",".intercalate (l.map (fun e => s!"{toHexString e.1}:{e.2}"))

def parseKind (size : Nat) (pos : Nat) (k : String) : Option (Res × Bool) :=
  match k with
  | "ok" => some (⟨pos, true, .ok size⟩, false)
  | "ws" => some (⟨pos, true, .ok (size + 1)⟩, false)
  | "w0" => some (⟨pos, false, .ok (size + 1)⟩, false)
  | "err" => some (⟨pos, false, .err⟩, false)
  | "es" => some (⟨pos, true, .err⟩, false)
  | "tr" => if size ≥ 1 then some (⟨pos, false, .ok (size - 1)⟩, true) else none
  | _ => none

def parseArrival (size : Nat) (w : String) : Option (Res × Bool) :=
  match w.splitOn ":" with
  | [p, k] => match natArg p with
    | some pos => parseKind size pos k
    | none => none
  | _ => none

/-- the arrival order must name every write position exactly once -/
def isPermOfRange (ps : List Nat) (n : Nat) : Bool :=
  ps.length == n && nodup ps && ps.all (· < n)

/-- insertion sort of numbers (canonical output of id sets) -/
def sortNats (l : List Nat) : List Nat :=
  l.foldr (fun x acc => (acc.filter (· < x)) ++ x :: (acc.filter (fun y => !(y < x)))) []

def dedupNats (l : List Nat) : List Nat := l.foldr (fun x acc => if acc.contains x then acc else x :: acc) []

def readsOf (w : World) (c : Cfg) : List Sub := c.reads.map (fun i => w.subs.getD i ⟨[], false⟩)

def showFetchErr : FetchErr → String
  | .notExist => "notexist"
  | .down => "down"

def sortSRs (l : List SR) : List SR := l.foldr Store.insert []

def step (w : St) (ws : List String) : St × String :=
  match ws with
  | ["stores", n] =>
    (match natArg n with
     | some n => if n ≤ 8 then (⟨List.replicate n ⟨[], false⟩, none⟩, "ok") else (w, "bad-op")
     | none => (w, "bad-op"))
  | ["put", i, k, c] =>
    (match natArg i, keyArg k, hexArg c with
     | some i, some k, some c =>
       if i < w.subs.length then ({ w with subs := storeAt w.subs [i] (k, c.length) }, "ok") else (w, "bad-op")
     | _, _, _ => (w, "bad-op"))
  | ["puttr", i, k, c] =>
    (match natArg i, keyArg k, hexArg c with
     | some i, some k, some c =>
       if i < w.subs.length && c.length ≥ 1 then
         ({ w with subs := storeAt w.subs [i] (k, c.length - 1) }, "ok") else (w, "bad-op")
     | _, _, _ => (w, "bad-op"))
  | ["cfg", m, wl, rl] =>
    (match (if m == "-" then some none else (intArg m).map some), natList wl, natList rl with
     | some m, some wl, some rl =>
       if nodup wl && nodup rl then
         match newFromConfig w.subs.length wl rl m with
         | some c => ({ w with cfg := some c }, s!"ok min={c.min} nw={c.writes.length} nr={c.reads.length}")
         | none => ({ w with cfg := none }, "err")
       else (w, "bad-op")
     | _, _, _ => (w, "bad-op"))
  | ["down", i, b] =>
    (match natArg i, (if b == "0" then some false else if b == "1" then some true else none) with
     | some i, some b =>
       if i < w.subs.length then
         ({ w with subs := w.subs.mapIdx (fun j s => if j = i then { s with down := b } else s) }, "ok")
       else (w, "bad-op")
     | _, _ => (w, "bad-op"))
  | ["recv", k, c, arr, late] =>
    (match keyArg k, hexArg c, (if late == "run" then some true else if late == "cancel" then some false else none) with
     | some k, some c, some lateRun =>
       match w.cfg with
       | none => (w, "nocfg")
       | some cfg =>
         let size := c.length
         match (splitList arr).mapM (parseArrival size) with
         | none => (w, "bad-op")
         | some ups =>
           let arrivals := ups.map (·.1)
           if !isPermOfRange (arrivals.map (·.idx)) cfg.writes.length then (w, "bad-op") else
           let out := receiveBlob cfg.min size arrivals
           let consumed := consumedAtReturn out arrivals.length
           -- uploads that leave a truncated copy: those that ran before the return / all that ran
           let trAt (m : Nat) := idsOf cfg.writes (((ups.take m).filter (·.2)).map (·.1.idx))
           let atReturn := storeAt (storeAt w.subs (trAt consumed) (k, size - 1))
             (idsOf cfg.writes (holdersAtReturn cfg.min size arrivals)) (k, size)
           let held := sortNats (dedupNats (cfg.writes.filter (fun i =>
             ((atReturn.getD i ⟨[], false⟩).store.get? k == some size))))
           let final := storeAt (storeAt w.subs (trAt (if lateRun then ups.length else consumed)) (k, size - 1))
             (idsOf cfg.writes (completed cfg.min size arrivals lateRun)) (k, size)
           let o := match out with
             | .ack _ _ => "ack"
             | .fail (.replica idx) => s!"err replica {idx}"
             | .fail (.wrongSize got want) => s!"err wrongsize {got} {want}"
             | .zero => "zero"
           ({ w with subs := final }, s!"{o} held={showNats held}")
     | _, _, _ => (w, "bad-op"))
  | ["fetch", k] =>
    (match keyArg k with
     | some k =>
       match w.cfg with
       | none => (w, "nocfg")
       | some cfg =>
         (w, match fetch (readsOf w cfg) k with
             | .ok sz tried => s!"ok {sz} tried={tried}"
             | .err e tried => s!"err {showFetchErr e} tried={tried}"
             | .nilNil => "nil")
     | none => (w, "bad-op"))
  | ["stat", ks, order] =>
    (match keyList ks, natList order with
     | some ks, some order =>
       match w.cfg with
       | none => (w, "nocfg")
       | some cfg =>
         if !(order.isEmpty || isPermOfRange order cfg.reads.length) then (w, "bad-op") else
         let reads := readsOf w cfg
         let ord := if order.isEmpty then List.range reads.length else order
         let (out, ok) := statBlobs reads ks (orderedReports reads ks ord)
         (w, s!"{showSRs (sortSRs out)} {if ok then "ok" else "err"}")
     | _, _ => (w, "bad-op"))
  | ["statc", ks, mode] =>
    -- concurrent delivery (all read replicas released at once, slow callbacks): the delivery order is
    -- not forced, so only what does not depend on it is printed: the refs passed to fn (each once –
    -- C12_stat_exactly_once holds for EVERY order) and that the callbacks were serialised (the model's
    -- StatBlobs is a fold: one callback at a time under `mu`)
    (match keyList ks, ["fast", "yield", "sleep", "block"].contains mode with
     | some ks, true =>
       match w.cfg with
       | none => (w, "nocfg")
       | some cfg =>
         let reads := readsOf w cfg
         let (out, ok) := statBlobs reads ks (seqReports reads ks)
         let ksOut := (sortSRs out).map (fun e => toHexString e.1)
         (w, s!"{if ksOut.isEmpty then "-" else ",".intercalate ksOut} {if ok then "ok" else "err"} serial")
     | _, _ => (w, "bad-op"))
  | ["enum", after, limit] =>
    (match (if after == "-" then some none else (keyArg after).map some), natArg limit with
     | some after, some limit =>
       match w.cfg with
       | none => (w, "nocfg")
       | some cfg =>
         let reads := readsOf w cfg
         if reads.any (·.down) then (w, "racy")
         else (w, s!"{showSRs (enumerateBlobs reads after limit)} ok")
     | _, _ => (w, "bad-op"))
  | ["remove", ks] =>
    (match keyList ks with
     | some ks =>
       match w.cfg with
       | none => (w, "nocfg")
       | some cfg =>
         let (subs, ok) := removeBlobs w.subs cfg.writes ks
         ({ w with subs := subs }, if ok then "ok" else "err")
     | none => (w, "bad-op"))
  | ["dump"] =>
    (w, if w.subs.isEmpty then "-" else
      " ".intercalate (w.subs.mapIdx (fun i s => s!"{i}=[{showSRs s.store}]{if s.down then "!" else ""}")))
  | _ => (w, "bad-op")

def machine : Machine := { σ := St, init := init, step := step }

end Pk.Drv.C12
