import PkVerif.Drv.Common
/-! `pkmodel-c12`: stub (property not built yet). -/
namespace Pk.Drv.C12
def machine : Machine := { σ := Unit, init := (), step := fun s _ => (s, "bad-op") }
end Pk.Drv.C12
