import PkVerif.Drv.Common
/-! `pkmodel-c04`: stub (property not built yet). -/
namespace Pk.Drv.C04
def machine : Machine := { σ := Unit, init := (), step := fun s _ => (s, "bad-op") }
end Pk.Drv.C04
