import PkVerif.Drv.Common
import PkVerif.Model.BlobPacked
import PkVerif.Gen.C04
import PkVerif.Gen.Facts
/-! `pkmodel-c04`: the blobpacked model (`Pk.BP`) behind the line protocol of harness/props/c04. -/
namespace Pk.Drv.C04
open Pk Pk.BP Pk.SMap

structure DS where
  cfgd : Bool
  live : Bool
  c : Cfg
  s : St
  kinds : List (Ref × Kind)

def mkCfg (zipMax : Nat) : Cfg :=
  { zipMax := if zipMax = 0 then Gen.maxBlobSize else zipMax,
    packThreshold := Gen.bpPackThreshold, fixedOverhead := Gen.bpZipFixedOverhead,
    perEntryOverhead := Gen.bpZipPerEntryOverhead, manifestApprox := (204 + 0 * 119) / 2, legacy := false }

def init : DS := ⟨false, false, mkCfg 0, St.empty, []⟩

def lookupKind (kinds : List (Ref × Kind)) (r : Ref) : Kind :=
  match kinds.find? (fun p => p.1 == r) with
  | some p => p.2
  | none => .raw

/-- `s` without its first `n` characters -/
def dropS (s : String) (n : Nat) : String := String.ofList (s.toList.drop n)

def nat? (s : String) : Option Nat := if s.isEmpty then none else s.toNat?

def parsePart (w : String) : Option Part :=
  match w.splitOn ":" with
  | ["B", r, o, n] => do let o ← nat? o; let n ← nat? n; pure ⟨.blob, ofString r, o, n⟩
  | ["S", r, o, n] => do let o ← nat? o; let n ← nat? n; pure ⟨.bytes, ofString r, o, n⟩
  | ["H", n] => do let n ← nat? n; pure ⟨.hole, [], 0, n⟩
  | ["X", n] => do let n ← nat? n; pure ⟨.both, [], 0, n⟩
  | _ => none

def parseParts (w : String) : Option (List Part) :=
  if w == "-" then some [] else (w.splitOn ",").mapM parsePart

def parseKind (w : String) : Option Kind :=
  if w == "raw" then some .raw
  else if w.startsWith "bytes:" then (parseParts (dropS w 6)).map .bytes
  else if w.startsWith "file:1:" then (parseParts (dropS w 7)).map (.file true)
  else if w.startsWith "file:0:" then (parseParts (dropS w 7)).map (.file false)
  else none

def parseBudget (w : String) : Option Budget :=
  match (dropS w 2).splitOn "." with
  | [k] => do let k ← nat? k; pure ⟨some k, 0, false⟩
  | [k, j] => do let k ← nat? k; let j ← nat? j; pure ⟨some k, j, false⟩
  | _ => none

def parseLayout (w : String) : Option ZipLayout :=
  match w.splitOn ":" with
  | [r, sz, ds, so] => do
    let sz ← nat? sz
    let ds ← nat? ds
    let so ← if so == "-" then some [] else (so.splitOn "/").mapM nat?
    pure ⟨ofString r, sz, ds, so⟩
  | _ => none

def parseLayouts (w : String) : Option (List ZipLayout) :=
  if w == "-" then some [] else (w.splitOn ",").mapM parseLayout

def fnv64 (b : Bytes) : UInt64 :=
  b.foldl (fun h c => (h ^^^ UInt64.ofNat c) * 1099511628211) 14695981039346656037

def showBytes (b : Bytes) : String := s!"ok {b.length} {(fnv64 b).toNat}"

def showFOut : FOut → String
  | .ok b => showBytes b
  | .notExist => "notexist"
  | .err => "err"

def refStr (r : Ref) : String := toAsciiString r

def joinOrDash (sep : String) (l : List String) : String :=
  if l.isEmpty then "-" else sep.intercalate l

def sortStrings (l : List String) : List String := l.mergeSort (fun a b => decide (a ≤ b))

def dump (s : St) : String :=
  let rows : List String :=
    s.b.map (fun p => s!"b:{refStr p.1}={p.2.size},{refStr p.2.zip},{p.2.off}") ++
    s.w.flatMap (fun p =>
      (match p.2.final with
       | some (sz, n) => [s!"w:{refStr p.1}={sz},{n}"]
       | none => []) ++
      p.2.parts.map (fun q => s!"w:{refStr p.1}:{q.idx}={refStr q.zip},{q.zipOff},{q.wholeOff},{q.len}")) ++
    s.z.map (fun p => s!"z:{refStr p.1}={p.2.zipSize},{refStr p.2.wholeRef},{p.2.wholeSize},{p.2.off},{p.2.dataSize}") ++
    s.d.map (fun p => s!"d:{refStr p.1}=t")
  s!"small={joinOrDash ";" (sortStrings (s.small.map (fun p => refStr p.1)))} " ++
  s!"large={joinOrDash ";" (sortStrings (s.large.map (fun p => refStr p.1)))} " ++
  s!"meta={joinOrDash ";" (sortStrings rows)}"

def showMode : Mode → String
  | .none => "none"
  | .fast => "fast"
  | .full => "full"

/-- enough for 999 chunks (`C04_pack_terminates`: (R+1)² iterations suffice) -/
def loopFuel : Nat := 1000000

def doRecv (st : DS) (r v k : String) (bud : Budget) (whole : Ref) (lays : List ZipLayout) : DS × String :=
  match hexArg v, parseKind k with
  | some bytes, some kind =>
    if !st.live then (st, "nosto")
    else
      let ref := ofString r
      let kinds := if (st.kinds.find? (fun p => p.1 == ref)).isSome then st.kinds else (ref, kind) :: st.kinds
      let env : PackEnv := ⟨st.c, lookupKind kinds, fun _ => whole⟩
      let res := receive env st.s bud ref bytes lays loopFuel
      let st' := { st with s := res.s, kinds := kinds }
      if res.outOfFuel then (st', "fuel")
      else match res.size with
        | none => (st', "err")
        | some n => (st', s!"ok {n} t={res.truncs} o={res.overflows}")
  | _, _ => (st, "bad-op")

def isRef (w : String) : Bool :=
  w.startsWith "sha224-" && w.length == 63 && (dropS w 7).all (fun c => c.isDigit || ('a' ≤ c && c ≤ 'f'))

def step (st : DS) (ws : List String) : DS × String :=
  match ws with
  | ["cfg", n] =>
    match nat? n with
    | some n => ({ cfgd := true, live := true, c := mkCfg n, s := St.empty, kinds := [] }, "ok")
    | none => (st, "bad-op")
  | _ =>
    if !st.cfgd then (st, "bad-op")
    else match ws with
    | "recv" :: rest =>
      -- an optional k=… anywhere after the op name, then ref hex kind [whole= zips=]
      let ks := rest.filter (·.startsWith "k=")
      let rest := rest.filter (fun w => !w.startsWith "k=")
      let bud? : Option Budget :=
        match ks with
        | [] => some Budget.unlimited
        | [k] => parseBudget k
        | _ => none
      match bud?, rest with
      | some bud, [r, v, k] => if isRef r then doRecv st r v k bud [] [] else (st, "bad-op")
      | some bud, [r, v, k, w, z] =>
        if isRef r && w.startsWith "whole=" && z.startsWith "zips=" && isRef (dropS w 6) then
          match parseLayouts (dropS z 5) with
          | some lays => doRecv st r v k bud (ofString (dropS w 6)) lays
          | none => (st, "bad-op")
        else (st, "bad-op")
      | _, _ => (st, "bad-op")
    | ["fetch", r] =>
      if !isRef r then (st, "bad-op") else if !st.live then (st, "nosto")
      else (st, showFOut (fetch st.s (ofString r)))
    | ["sub", r, o, n] =>
      match nat? o, nat? n with
      | some o, some n =>
        if !isRef r then (st, "bad-op") else if !st.live then (st, "nosto")
        else (st, showFOut (subFetch st.s (ofString r) o n))
      | _, _ => (st, "bad-op")
    | "stat" :: refs =>
      if refs.isEmpty || !refs.all isRef then (st, "bad-op") else if !st.live then (st, "nosto")
      else (st, joinOrDash "," (sortStrings ((statBlobs st.s (refs.map ofString)).map (fun e => s!"{refStr e.1}:{e.2}"))))
    | ["enum", a, l] =>
      match hexArg a, nat? l with
      | some after, some limit =>
        if !st.live then (st, "nosto")
        else (st, joinOrDash "," ((BP.enumerate st.s after limit).map (fun e => s!"{refStr e.1}:{e.2}")))
      | _, _ => (st, "bad-op")
    | "rm" :: refs =>
      if refs.isEmpty || !refs.all isRef then (st, "bad-op") else if !st.live then (st, "nosto")
      else ({ st with s := refs.foldl (fun s r => remove st.c s (ofString r)) st.s }, "ok")
    | ["restart", "none"] =>
      let integ := showMode (checkLargeIntegrity st.s) ++ (if noMetaButZips st.s then "+nometa" else "")
      ({ st with live := true }, "ok " ++ integ)
    | ["restart", m] =>
      if m != "fast" && m != "full" then (st, "bad-op")
      else match reindex (m == "full") st.s with
        | (s', .ok) => ({ st with s := s', live := true }, "ok " ++ showMode (checkLargeIntegrity s'))
        | (s', .err) => ({ st with s := s', live := false }, "err none")
        | (s', .panic) => ({ st with s := s', live := false }, "panic none")
    | ["whole", r, o] =>
      match nat? o with
      | some o =>
        if !isRef r then (st, "bad-op") else if !st.live then (st, "nosto")
        else (st, match openWholeRef st.s (ofString r) o with
          | .ok sz b => s!"ok {sz} {b.length} {(fnv64 b).toNat}"
          | .notExist => "notexist"
          | .readErr n => s!"readerr {n}")
      | none => (st, "bad-op")
    | ["dump"] => (st, dump st.s)
    | _ => (st, "bad-op")

def machine : Machine := { σ := DS, init := init, step := step }

end Pk.Drv.C04
