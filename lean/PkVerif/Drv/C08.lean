import PkVerif.Drv.Common
import PkVerif.Model.Search
import PkVerif.Gen.Facts
/-! `pkmodel-c08`: the search model behind the line protocol of harness/props/c08 (see world.go). -/
namespace Pk.Drv.C08
open Pk Pk.Search

def tbl : Pk.Ref.Tbl := ⟨Gen.refSizes, Gen.testRefTypes, Gen.maxOtherDigestLen⟩

/-- canonical decimal integer -/
def intArg (s : String) : Option Int :=
  match s.toInt? with
  | none => none
  | some n => if toString n == s then some n else none

def int64Arg (s : String) : Option Int :=
  (intArg s).bind (fun n => if -9223372036854775808 ≤ n ∧ n ≤ 9223372036854775807 then some n else none)

def natArg (s : String) : Option Nat :=
  (int64Arg s).bind (fun n => if 0 ≤ n then some n.toNat else none)

/-- seconds from 0001-01-01T00:00:00Z (Go's zero time) to the Unix epoch: the model's `Time` counts
from the zero time, so that `0` IS the zero time and every time of the years 1..9999 is positive -/
def epochOffset : Nat := 62135596800

/-- a time on the wire: signed unix seconds of the years 1..9999, `0` = not set / the zero time
(the epoch itself cannot be written); as a model `Time` -/
def timeArg (s : String) : Option Nat :=
  match intArg s with
  | none => none
  | some x =>
    if x == 0 then some 0
    else if -62135596799 ≤ x ∧ x ≤ 253402300799 then some (x + (epochOffset : Int)).toNat
    else none

def flagArg (s : String) : Option Bool :=
  if s == "0" then some false else if s == "1" then some true else none

def isHexLower (c : Nat) : Bool := (48 ≤ c && c ≤ 57) || (97 ≤ c && c ≤ 102)

/-- "sha224-" followed by 56 lower-case hex digits -/
def refWord (s : String) : Option Ref :=
  let b := ofString s
  if b.length == 63 && (ofString "sha224-").isPrefixOf b && (b.drop 7).all isHexLower then some b else none

def keyOK (s : String) : Bool :=
  let b := ofString s
  !b.isEmpty && b.length ≤ 24 && b.all (fun c => (97 ≤ c && c ≤ 122) || (48 ≤ c && c ≤ 57))

/-! ### constraint parser (prefix notation; `fuel` bounds the nesting like the Go parser's depth) -/

abbrev P (α : Type) := List String → Option (α × List String)

def pIntC : P (Option IntC)
  | "-" :: r => some (none, r)
  | "i" :: mn :: mx :: zmn :: zmx :: e :: r =>
    match int64Arg mn, int64Arg mx, flagArg zmn, flagArg zmx with
    | some mn, some mx, some zmn, some zmx =>
      if e == "-" then some (some ⟨mn, mx, zmn, zmx, none⟩, r)
      else match int64Arg e with
        | some e => some (some ⟨mn, mx, zmn, zmx, some e⟩, r)
        | none => none
    | _, _, _, _ => none
  | _ => none

def pStrC : P (Option StrC)
  | "-" :: r => some (none, r)
  | "s" :: em :: eq :: ct :: hp :: hs :: ci :: r =>
    match flagArg em, hexArg eq, hexArg ct, hexArg hp, hexArg hs, flagArg ci, pIntC r with
    | some em, some eq, some ct, some hp, some hs, some ci, some (bl, r) => some (some ⟨em, eq, ct, hp, hs, bl, ci⟩, r)
    | _, _, _, _, _, _, _ => none
  | _ => none

def pTimeC : P (Option TimeC)
  | "-" :: r => some (none, r)
  | "t" :: b :: a :: r =>
    match timeArg b, timeArg a with
    | some b, some a => some (some ⟨b, a⟩, r)
    | _, _ => none
  | _ => none

def opOf (s : String) : Option Op :=
  if s == "and" then some .and else if s == "or" then some .or else if s == "xor" then some .xor
  else if s == "not" then some .not else none

mutual
def pCons : Nat → P Cons
  | 0, _ => none
  | fuel + 1, ws =>
    match ws with
    | "nil" :: r => some (.nil, r)
    | "c" :: o :: r =>
      let lg : Option (Op × Cons × Cons × List String) :=
        if o == "-" then some (.none, .nil, .nil, r) else
        match opOf o with
        | none => none
        | some op =>
          match pCons fuel r with
          | none => none
          | some (a, r) =>
            match pCons fuel r with
            | none => none
            | some (b, r) =>
              -- A is never nil; B is nil exactly for "not" (the protocol cannot express a nil deref)
              if a.isNil || (b.isNil != (op == .not)) then none else some (op, a, b, r)
      match lg with
      | none => none
      | some (op, a, b, r) =>
        match r with
        | an :: ct :: ac :: px :: r =>
          match flagArg an, hexArg ct, flagArg ac, hexArg px, pIntC r with
          | some an, some ct, some ac, some px, some (bs, r) =>
            match pPerm fuel r with
            | none => none
            | some (pn, r) =>
              match pFile fuel r with
              | none => none
              | some (fl, r) =>
                match pDir fuel r with
                | none => none
                | some (dr, r) => some (.mk op a b ⟨an, ct, ac, px, bs⟩ pn fl dr, r)
          | _, _, _, _, _ => none
        | _ => none
    | _ => none
def pPerm : Nat → P Perm
  | 0, _ => none
  | fuel + 1, ws =>
    match ws with
    | "-" :: r => some (.nil, r)
    | "p" :: tm :: atr :: sh :: r =>
      match timeArg tm, hexArg atr, flagArg sh, pIntC r with
      | some tm, some atr, some sh, some (nv, va :: v :: r) =>
        match flagArg va, hexArg v, pStrC r with
        | some va, some v, some (vm, r) =>
          match pIntC r with
          | none => none
          | some (vi, r) =>
            match pCons fuel r with
            | none => none
            | some (inSet, r) =>
              let rl : Option (Option RFlat × Cons × Cons × List String) :=
                match r with
                | "-" :: r => some (none, .nil, .nil, r)
                | "r" :: rn :: et :: r =>
                  match hexArg rn, hexArg et, pCons fuel r with
                  | some rn, some et, some (any, r) =>
                    match pCons fuel r with
                    | none => none
                    | some (all, r) =>
                      if (rn == sParent || rn == sChild) && (any.isNil != all.isNil)
                      then some (some ⟨rn, et⟩, any, all, r) else none
                  | _, _, _ => none
                | _ => none
              match rl with
              | none => none
              | some (rel, any, all, r) =>
                match pTimeC r with
                | none => none
                | some (mt, r) =>
                  match pTimeC r with
                  | none => none
                  | some (tmc, r) => some (.mk ⟨tm, atr, sh, nv, va, v, vm, vi, mt, tmc⟩ inSet rel any all, r)
        | _, _, _ => none
      | _, _, _, _ => none
    | _ => none
def pFile : Nat → P FileC
  | 0, _ => none
  | fuel + 1, ws =>
    match ws with
    | "-" :: r => some (.nil, r)
    | "f" :: r =>
      match pIntC r with
      | none => none
      | some (sz, r) =>
        match pStrC r with
        | none => none
        | some (nm, r) =>
          match pStrC r with
          | none => none
          | some (mi, r) =>
            match pTimeC r with
            | none => none
            | some (tm, r) =>
              match pTimeC r with
              | some (mt, wr :: r) =>
                match hexArg wr, pDir fuel r with
                | some wr, some (pd, r) => some (.mk ⟨sz, nm, mi, tm, mt, wr⟩ pd, r)
                | _, _ => none
              | _ => none
    | _ => none
def pDir : Nat → P DirC
  | 0, _ => none
  | fuel + 1, ws =>
    match ws with
    | "-" :: r => some (.nil, r)
    | "d" :: r =>
      match pStrC r with
      | some (nm, px :: r) =>
        match hexArg px, pDir fuel r with
        | some px, some (pd, r) =>
          match pIntC r with
          | none => none
          | some (tc, r) =>
            match pCons fuel r with
            | none => none
            | some (rc, r) =>
              match pCons fuel r with
              | none => none
              | some (cc, r) => some (.mk ⟨nm, px, tc⟩ pd rc cc, r)
        | _, _ => none
      | _ => none
    | _ => none
end

def sortOf (s : String) : Option SortT :=
  if s == "unspec" then some .unspec else if s == "unsorted" then some .unsorted
  else if s == "-mod" then some .lastModDesc else if s == "mod" then some .lastModAsc
  else if s == "-created" then some .createdDesc else if s == "created" then some .createdAsc
  else if s == "blobref" then some .blobRefAsc else if s == "map" then some .map else none

/-! ### state -/

structure S where
  w : World
  kinds : List (Ref × String)   -- pn | claim | bytes | file | dir | ss
  pns : List Ref                -- upload order
  lastDate : Nat

def S.init : S := ⟨⟨[], [], [], [], [], []⟩, [], [], 0⟩

def S.kind (s : S) (r : Ref) : String :=
  match s.kinds.find? (fun p => p.1 == r) with
  | some p => p.2
  | none => ""

def S.size (s : S) (r : Ref) : Nat :=
  match s.w.getBlob r with
  | some b => b.size
  | none => 0

def S.addBlob (s : S) (r : Ref) (ct : String) (size : Nat) (kind : String) : S :=
  { s with w := { s.w with blobs := s.w.blobs ++ [⟨r, ofString ct, size⟩] }, kinds := s.kinds ++ [(r, kind)] }

/-- a fresh (ref, size) pair of an upload op -/
def S.fresh (s : S) (ref size : String) : Option (Ref × Nat) :=
  match refWord ref, natArg size with
  | some r, some n => if s.kind r == "" then some (r, n) else none
  | _, _ => none

def dateCutoff : Nat := 1600000000 + epochOffset

/-- a claim date: positive, before the cutoff, different from the date of every claim the permanode
already has (so that the date order of its claims is determined); `mayBeLate = false`: not before
the latest date used so far -/
def S.dateOK (s : S) (d : String) (pn : Ref) (mayBeLate : Bool) : Option Nat :=
  match timeArg d with
  | none => none
  | some d =>
    if d == 0 || d ≥ dateCutoff || (!mayBeLate && d < s.lastDate) ||
       s.w.claims.any (fun c => c.pn == pn && c.date == d) then none else some d

/-- PermanodeMeta.Claims is kept sorted by date (corpus.go:192): a claim that arrives with an
older date goes to its place (after the claims of the same date, which arrived before it) -/
def insertByDate (c : Claim) : List Claim → List Claim
  | [] => [c]
  | x :: l => if x.date ≤ c.date then x :: insertByDate c l else c :: x :: l

def showTime (t : Nat) : String := if t == 0 then "none" else toString ((t : Int) - (epochOffset : Int))

def showRefs (l : List Ref) : String :=
  if l.isEmpty then "-" else ",".intercalate (l.map toAsciiString)

def sortRefs (l : List Ref) : List Ref := isort ltB l

/-- maximal runs of consecutive results with the same time -/
def runsBy (key : Ref → Nat) : List Ref → List (List Ref)
  | [] => []
  | r :: rs =>
    match runsBy key rs with
    | [] => [[r]]
    | (x :: run) :: more => if key x == key r then (r :: x :: run) :: more else [r] :: (x :: run) :: more
    | [] :: more => [r] :: more

def doQuery (s : S) (srt lim : String) (cw : List String) : String :=
  match sortOf srt, intArg lim, pCons 65 cw with
  | some st, some lim, some (c, []) =>
    if !(-2147483648 ≤ lim ∧ lim ≤ 2147483647) || c.isNil then "bad-op" else
    match query tbl s.w ⟨c, st, lim⟩ with
    | .error .invalid => "invalid"
    | .error .nilDeref => "panic"
    | .error _ => "err"
    | .ok (src, res) =>
      let refs := res.map (·.ref)
      let effLimit : Int := if lim == 0 then 200 else lim
      let mayCut := effLimit > 0 && (refs.length : Int) ≥ effLimit && st != .map
      let body :=
        if src.sorted || st == .blobRefAsc then showRefs refs
        else if st == .createdAsc then
          let runs := runsBy s.w.anyTime refs
          let n := runs.length
          let parts := (runs.zipIdx).map (fun (run, i) =>
            if mayCut && i + 1 == n then [ofString s!"~{run.length}"] else sortRefs run)
          showRefs parts.flatten
        else if mayCut then s!"n={refs.length}"
        else showRefs (sortRefs refs)
      s!"ok {src.name} {body}"
  | _, _, _ => "bad-op"

def step (s : S) (ws : List String) : S × String :=
  match ws with
  | ["pn", ref, size, key] =>
    (match s.fresh ref size with
     | some (r, n) => if keyOK key then ({ s.addBlob r "permanode" n "pn" with pns := s.pns ++ [r] }, "ok") else (s, "bad-op")
     | none => (s, "bad-op"))
  | ["cl", ref, size, pn, kind, attr, val, date, who] =>
    if who != "own" && who != "other" then (s, "bad-op") else
    (match s.fresh ref size, refWord pn, hexArg attr, hexArg val with
     | some (r, n), some p, some a, some v =>
       let k? : Option CKind := if kind == "set" then some .set else if kind == "add" then some .add
         else if kind == "del" then some .del else none
       -- a claim dated before the latest date so far must not name a blob (Corpus.claimBack is in
       -- arrival order, the model's claim list in date order: they agree on the claims that name blobs)
       match k?, s.dateOK date p (!refOK tbl v) with
       | some k, some d =>
         if s.kind p != "pn" || a.isEmpty then (s, "bad-op") else
         let s1 := s.addBlob r "claim" n "claim"
         ({ s1 with w := { s1.w with claims := insertByDate ⟨p, k, a, v, d, who == "other"⟩ s1.w.claims },
                    lastDate := max s1.lastDate d }, "ok")
       | _, _ => (s, "bad-op")
     | _, _, _, _ => (s, "bad-op"))
  | ["del", ref, size, pn, date] =>
    (match s.fresh ref size, refWord pn, (refWord pn).bind (fun p => s.dateOK date p false) with
     | some (r, n), some p, some d =>
       if s.kind p != "pn" || s.w.isDeleted p then (s, "bad-op") else
       let s1 := s.addBlob r "claim" n "claim"
       ({ s1 with w := { s1.w with deleted := p :: s1.w.deleted, claims := s1.w.claims ++ [⟨p, .delete, [], [], d, false⟩] },
                  lastDate := d }, "ok")
     | _, _, _ => (s, "bad-op"))
  | ["bytes", ref, size, content] =>
    (match s.fresh ref size, hexArg content with
     | some (r, n), some c =>
       if c.length != n then (s, "refmismatch") else (s.addBlob r "" n "bytes", "ok")
     | _, _ => (s, "bad-op"))
  | ["file", ref, size, name, whole, mtime, mime] =>
    (match s.fresh ref size, hexArg name, refWord whole, timeArg mtime, hexArg mime with
     | some (r, n), some nm, some wr, some mt, some mi =>
       if s.kind wr != "bytes" then (s, "bad-op") else
       let s1 := s.addBlob r "file" n "file"
       ({ s1 with w := { s1.w with files := s1.w.files ++ [⟨r, nm, s.size wr, mi, mt, 0, wr⟩] } }, "ok")
     | _, _, _, _, _ => (s, "bad-op"))
  | ["dir", ref, size, name, ssref, sssize, children] =>
    (match s.fresh ref size, hexArg name, s.fresh ssref sssize with
     | some (r, n), some nm, some (sr, sn) =>
       let ch? : Option (List Ref) := if children == "-" then some [] else (children.splitOn ",").mapM refWord
       match ch? with
       | none => (s, "bad-op")
       | some ch =>
         if r == sr || ch.eraseDups.length != ch.length then (s, "bad-op") else
         let s1 := (s.addBlob sr "static-set" sn "ss").addBlob r "directory" n "dir"
         ({ s1 with w := { s1.w with files := s1.w.files ++ [⟨r, nm, 0, [], 0, 0, []⟩],
                                     dirs := s1.w.dirs ++ [(r, ch)] } }, "ok")
     | _, _, _ => (s, "bad-op"))
  | ["ctime", pn, t] =>
    (match refWord pn with
     | some p =>
       if s.kind p != "pn" then (s, "bad-op") else
       if t == "none" then ({ s with w := { s.w with ctime := (p, 0) :: s.w.ctime } }, "ok") else
       match timeArg t with
       | some tt => if tt == 0 then (s, "bad-op") else ({ s with w := { s.w with ctime := (p, tt) :: s.w.ctime } }, "ok")
       | none => (s, "bad-op")
     | none => (s, "bad-op"))
  | ["times"] =>
    (s, if s.pns.isEmpty then "-" else
      " ".intercalate (s.pns.map (fun p => showTime (s.w.anyTime p) ++ "/" ++ showTime (s.w.modTime p))))
  | ["pv", pn, attr] =>
    (match refWord pn, hexArg attr with
     | some p, some a =>
       if s.kind p != "pn" || a.isEmpty then (s, "bad-op") else
       let sh := fun (vs : List Str) => if vs.isEmpty then "none" else ",".intercalate (vs.map toHexString)
       (s, sh (s.w.attrVals p a 0) ++ " / " ++ sh (s.w.attrValsAll p a 0))
     | _, _ => (s, "bad-op"))
  | "q" :: srt :: lim :: c1 :: cw => (s, doQuery s srt lim (c1 :: cw))
  | _ => (s, "bad-op")

def machine : Machine := { σ := S, init := S.init, step := step }

end Pk.Drv.C08
