import PkVerif.Drv.Common
/-! `pkmodel-c08`: stub (property not built yet). -/
namespace Pk.Drv.C08
def machine : Machine := { σ := Unit, init := (), step := fun s _ => (s, "bad-op") }
end Pk.Drv.C08
