import PkVerif.Drv.Common
/-! `pkmodel-c05`: stub (property not built yet). -/
namespace Pk.Drv.C05
def machine : Machine := { σ := Unit, init := (), step := fun s _ => (s, "bad-op") }
end Pk.Drv.C05
