import PkVerif.Drv.Common
import PkVerif.Model.Index
import PkVerif.Gen.C05
/-! `pkmodel-c05` / `pkmodel-c06`: the indexer model behind the line protocol of harness/props/c05. -/
namespace Pk.Drv.C05
open Pk Pk.Index

structure St where
  defs : List (Ref × Blob) := []
  opened : Bool := false
  dead : Bool := false
  withC : Bool := false
  s : State := State.init Gen.c05SchemaVersion false

def worldOf (defs : List (Ref × Blob)) : World :=
  fun r => (defs.lookup r).getD ⟨.opaque, 0, []⟩

def nat? (w : String) : Option Nat :=
  match w.toNat? with
  | some n => if toString n == w then some n else none
  | none => none

def tokNat? (c : Char) (w : String) : Option Nat :=
  if w.length ≥ 2 && w.front == c then nat? (w.drop 1).toString else none

def attr? (w : String) : Option Attr :=
  if w == "m" then some .member
  else match tokNat? 'i' w with
    | some n => if n ≤ 3 then some (.indexed n) else none
    | none => match tokNat? 'p' w with
      | some n => some (.path n)
      | none => (tokNat? 'o' w).map .other

def val? (w : String) : Option Val :=
  match tokNat? 's' w with
  | some n => some (.str n)
  | none => (tokNat? 'r' w).map .ref

def ctype? : String → Option CType
  | "set" => some .set | "add" => some .add | "del" => some .del | _ => none

def part? (w : String) : Option Part :=
  match w.splitOn ":" with
  | [a, sz] =>
    (nat? sz).bind fun n =>
      if a == "z" then some (.hole n)
      else match tokNat? 'c' a with
        | some id => some (.chunk id n)
        | none => (tokNat? 'y' a).map (fun id => .bytes id n)
  | _ => none

def listOf {α : Type} (f : String → Option α) (w : String) : Option (List α) :=
  if w == "-" then some [] else (w.splitOn ",").mapM f

def img? (w : String) : Option (Option (Nat × Nat)) :=
  match w.splitOn "x" with
  | [a, b] => match nat? a, nat? b with
    | some x, some y => some (if x == 0 && y == 0 then none else some (x, y))
    | _, _ => none
  | _ => none

def kindIs (defs : List (Ref × Blob)) (id : Ref) (p : Kind → Bool) : Bool :=
  match defs.lookup id with
  | some b => p b.kind
  | none => false

def isKey : Kind → Bool | .key _ => true | _ => false
def isPn : Kind → Bool | .pn _ => true | _ => false
def isOpaque : Kind → Bool | .opaque => true | _ => false
def isBytes : Kind → Bool | .bytes _ => true | _ => false
def isSSet : Kind → Bool | .sset .. => true | _ => false

def partsOk (defs : List (Ref × Blob)) (ps : List Part) : Bool :=
  ps.all fun p => match p with
    | .chunk r _ => kindIs defs r isOpaque
    | .bytes r _ => kindIs defs r isBytes
    | .hole _ => true

/-- a `def` line (without the leading word): the blob and whether its references are defined -/
def parseDef (defs : List (Ref × Blob)) (ws : List String) : Option (Ref × Blob) := do
  match ws with
  | [id, "key", k, size, mime] =>
    let id ← nat? id; let k ← nat? k; let size ← nat? size; let mime ← hexArg mime
    if id == 0 || k > 1 then none else some (id, ⟨.key k, size, mime⟩)
  | [id, "opaque", _nonce, size, mime] =>
    let id ← nat? id; let _ ← nat? _nonce; let size ← nat? size; let mime ← hexArg mime
    if id == 0 then none else some (id, ⟨.opaque, size, mime⟩)
  | [id, "pn", signer, nonce, size] =>
    let id ← nat? id; let signer ← nat? signer; let _ ← nat? nonce; let size ← nat? size
    if id == 0 || !kindIs defs signer isKey then none else some (id, ⟨.pn signer, size, []⟩)
  | [id, "claim", signer, pn, ct, attr, val, date, size, drop] =>
    let id ← nat? id; let signer ← nat? signer; let pn ← nat? pn; let ct ← ctype? ct
    let attr ← attr? attr; let val ← val? val; let date ← nat? date; let size ← nat? size; let drop ← nat? drop
    let vok := match val with | .ref r => (defs.lookup r).isSome | _ => true
    if id == 0 || !kindIs defs signer isKey || !kindIs defs pn isPn || !vok then none
    else some (id, ⟨.claim signer pn ct attr val date drop, size, []⟩)
  | [id, "del", signer, target, date, size] =>
    let id ← nat? id; let signer ← nat? signer; let target ← nat? target; let date ← nat? date; let size ← nat? size
    if id == 0 || !kindIs defs signer isKey || (defs.lookup target).isNone then none
    else some (id, ⟨.del signer target date, size, []⟩)
  | [id, "bytes", size, parts] =>
    let id ← nat? id; let size ← nat? size; let parts ← listOf part? parts
    if id == 0 || !partsOk defs parts then none else some (id, ⟨.bytes parts, size, []⟩)
  | [id, "file", size, name, mtime, fsize, mime, whole, img, parts] =>
    let id ← nat? id; let size ← nat? size; let name ← nat? name; let mtime ← nat? mtime; let fsize ← nat? fsize
    let mime ← hexArg mime; let whole ← nat? whole; let img ← img? img; let parts ← listOf part? parts
    if id == 0 || !partsOk defs parts then none
    else some (id, ⟨.file name mtime fsize mime whole img parts, size, []⟩)
  | [id, "dir", size, name, sset] =>
    let id ← nat? id; let size ← nat? size; let name ← nat? name; let sset ← nat? sset
    if id == 0 || !kindIs defs sset isSSet then none else some (id, ⟨.dir name sset, size, []⟩)
  | [id, "sset", size, k, refs] =>
    let id ← nat? id; let size ← nat? size; let refs ← listOf nat? refs
    let merge ← (if k == "m" then some false else if k == "g" then some true else none)
    let ok := refs.all fun r => if merge then kindIs defs r isSSet else (defs.lookup r).isSome
    if id == 0 || !ok then none else some (id, ⟨.sset merge refs, size, []⟩)
  | _ => none

/-! printing -/

def sortStrings (l : List String) : List String := sortBy (fun a b => decide (a ≤ b)) l

def dedup : List String → List String
  | a :: b :: rest => if a == b then dedup (b :: rest) else a :: dedup (b :: rest)
  | l => l

def joinOr (l : List String) (sep : String := ",") : String := if l.isEmpty then "-" else sep.intercalate l

def typeName : Nat → String
  | 1 => "permanode" | 2 => "claim" | 3 => "file" | 4 => "bytes" | 5 => "directory" | 6 => "static-set" | _ => "-"

def attrStr (a1 a2 : Nat) : String :=
  match a1 with
  | 0 => s!"i{a2}" | 1 => "m" | 2 => s!"p{a2}" | 3 => s!"o{a2}" | _ => "?"

def valStr (v1 v2 : Nat) : String := if v1 == 0 then s!"s{v2}" else s!"r{v2}"

def yn (n : Nat) : String := if n == 1 then "Y" else "N"

def ctStr : Nat → String
  | 0 => "set" | 1 => "add" | 2 => "del" | _ => "?"

def rowStr : Row → String
  | ([0], [v]) => s!"schemaversion={v}"
  | ([1, b], size :: tc :: mime) =>
    s!"meta|b{b}={size}," ++ (if tc == 0 then "m:" ++ toHexString mime else "t:" ++ typeName tc)
  | ([2, b], [size, f]) => s!"have|b{b}={size},{f}"
  | ([3, h, n], _) => s!"missing|b{h},b{n}=1"
  | ([4, s], [kid]) => s!"signerkeyid|b{s}=K{kid}"
  | ([5, pn, kid, date, cl], [ct, a1, a2, v1, v2, signer]) =>
    s!"claim|b{pn},K{kid},{date},b{cl}=" ++
      (if ct == 3 then "delete,-,-" else s!"{ctStr ct},{attrStr a1 a2},{valStr v1 v2}") ++ s!",b{signer}"
  | ([6, kid, date, cl], [pn]) => s!"recpn|K{kid},{date},b{cl}=b{pn}"
  | ([7, kid, t, cl], [date, base, act, sfx]) => s!"signertargetpath|K{kid},b{t},b{cl}={date},b{base},{yn act},{sfx}"
  | ([8, kid, base, sfx, date, cl], [act, t]) => s!"path|K{kid},b{base},{sfx},{date},b{cl}={yn act},b{t}"
  | ([9, w, f], _) => s!"wholetofile|w{w},b{f}=1"
  | ([10, f], 0 :: fsize :: name :: whole :: mime) => s!"fileinfo|b{f}={fsize},{name},{toHexString mime},w{whole}"
  | ([10, f], [1, count, name]) => s!"fileinfo|b{f}={count},{name},-,-"
  | ([11, f], [t]) => s!"filetimes|b{f}=" ++ (if t == 0 then "-" else toString t)
  | ([12, kid, a1, a2, v1, v2, date, cl], [pn]) =>
    s!"signerattrvalue|K{kid},{attrStr a1 a2},{valStr v1 v2},{date},b{cl}=b{pn}"
  | ([13, t, date, d], _) => s!"deleted|b{t},{date},b{d}=-"
  | ([14, child, parent, cl], _) => s!"edgeback|b{child},b{parent},b{cl}=permanode,-"
  | ([15, f], [w, h]) => s!"imagesize|b{f}={w},{h}"
  | ([16, d, c], _) => s!"dirchild|b{d},b{c}=1"
  | _ => "?row"

def dumpStr (s : State) : String := joinOr (sortStrings (s.rows.map rowStr)) ";"

def pendStr (s : State) : String :=
  let a := dedup (sortStrings (s.needs.map fun p => s!"b{p.1}>b{p.2}"))
  let b := dedup (sortStrings (s.neededBy.map fun p => s!"b{p.1}<b{p.2}"))
  let c := dedup (sortStrings (s.ready.map fun r => s!"b{r}"))
  s!"needs={joinOr a};neededby={joinOr b};ready={joinOr c}"

def optVal : Option (Nat × Nat) → String
  | some (v1, v2) => valStr v1 v2
  | none => "-"

def timeStr (t : Nat) : String := if t == 0 then "-" else toString t

def obsStr (o : Obs) : String :=
  let metas := o.metas.filterMap fun p => match p.2 with
    | some (size :: tc :: _) => some s!"b{p.1}:{size},{typeName tc}"
    | some _ => some s!"b{p.1}:?"
    | none => none
  let dels := o.deleted.filterMap fun p =>
    if p.2.1 || p.2.2 then some (s!"b{p.1}:" ++ (if p.2.1 then "i" else "") ++ (if p.2.2 then "c" else "")) else none
  let pns := o.pns.map fun p =>
    s!"b{p.pn}:c={joinOr (p.claims.map fun c => s!"b{c}")}:t={timeStr p.modtime}:y={timeStr p.anytime}:a={optVal p.tag},{optVal p.title},{optVal p.content}"
  let refs := fun (l : List Ref) => joinOr (l.map fun r => s!"b{r}")
  let backs := o.backs.filterMap fun p =>
    if p.2.isEmpty then none else some (s!"b{p.1}:" ++ "+".intercalate (sortStrings (p.2.map fun c => s!"b{c}")))
  (if o.bad then "BAD;" else "") ++
  s!"M={joinOr metas};D={joinOr dels};P={joinOr pns "/"};L={refs o.byMod};C={refs o.byCreated};B={joinOr backs}"

/-! the machine -/

def fuelOf (st : St) : Nat := 4 * st.defs.length + 8

def ids (st : St) : List Ref := sortBy (fun a b => decide (a ≤ b)) (st.defs.map (·.1))

def pnIds (st : St) : List Ref := (ids st).filter fun r => kindIs st.defs r isPn

/-- Index.KeyId / Corpus.KeyId of every key blob of the world: the corpus learns signer -> key id
(corpus.go:580 addKeyID, from `mm.signerID`) in exactly the commits that write the `signerkeyid:` row
(receive.go populateClaim sets both), so the answer is that of the rows, live and after a reload -/
def keyIdStr (st : St) : String :=
  let ks := (ids st).filterMap fun r =>
    if kindIs st.defs r isKey then
      match SMap.get st.s.rows (kSignerKeyId r) with
      | some [kid] => some s!"b{r}:K{kid}"
      | _ => none
    else none
  s!";K={joinOr ks}"

def recvDrain (st : St) (s : State) (b : Ref) : State :=
  State.drain (worldOf st.defs) (fuelOf st * fuelOf st) (s.receive (worldOf st.defs) b)

def known (st : St) (w : String) : Option Ref :=
  (nat? w).bind fun id => if (st.defs.lookup id).isSome then some id else none

def step (st : St) (ws : List String) : St × String :=
  if st.dead then (st, "bad-op") else
  match ws with
  | "def" :: rest =>
    match parseDef st.defs rest with
    | some (id, b) =>
      if (st.defs.lookup id).isSome then (st, "bad-op") else ({ st with defs := st.defs ++ [(id, b)] }, "ok")
    | none => (st, "bad-op")
  | ["open", kv, c] =>
    if st.opened || !(["mem", "leveldb", "sqlite", "kvfile"].contains kv) || !(c == "0" || c == "1") then (st, "bad-op")
    else ({ st with opened := true, withC := c == "1", s := State.init Gen.c05SchemaVersion (c == "1") }, "ok")
  | _ =>
    if !st.opened then (st, "bad-op") else
    match ws with
    | ["src", id] =>
      match known st id with
      | some b => ({ st with s := st.s.srcAdd b }, "ok")
      | none => (st, "bad-op")
    | ["recv", id] =>
      match known st id with
      | some b => ({ st with s := recvDrain st st.s b }, "ok")
      | none => (st, "bad-op")
    | ["frecv", id, f] =>
      match known st id, (match f with | "commit" => some Fault.commit | "set" => some Fault.set
                                        | "delete" => some Fault.delete | _ => none) with
      | some b, some flt =>
        let W := worldOf st.defs
        let r := st.s.receiveFault W b flt
        let n := fuelOf st * fuelOf st
        let s' := if flt == Fault.delete then State.drainNoDel W n r.1 else State.drain W n r.1
        ({ st with s := s' }, if r.2 then "ok" else "err")
      | _, _ => (st, "bad-op")
    | ["par", gs] =>
      match (gs.splitOn "/").mapM (fun g => if g == "-" then none else listOf (known st) g) with
      | some groups =>
        if groups.any (·.isEmpty) then (st, "bad-op") else
        let s := groups.flatten.foldl (fun s b => recvDrain st (s.srcAdd b) b) st.s
        ({ st with s := s }, "ok")
      | none => (st, "bad-op")
    | ["dump"] => (st, dumpStr st.s)
    | ["dumpx"] => (st, dumpStr { st.s with rows := st.s.rows.filter (fun r => !isMissingKey r.1) })
    | ["pend"] => (st, pendStr st.s)
    | ["restart"] => ({ st with s := st.s.restart Gen.c05SchemaVersion }, "ok")
    | ["reindex"] =>
      let f := fuelOf st
      let s := State.reindexAll (worldOf st.defs) Gen.c05SchemaVersion (f * f) st.s (sortBy (fun a b => decide (a ≤ b)) st.s.src)
      ({ st with s := s }, if s.needs.isEmpty then "ok" else "needed")
    | ["frestart", p, k] =>
      -- a start whose scan of one prefix fails: index.New / scanFromStorage propagate the iterator's Close
      -- error (closeIterator), the start fails and the running index stays
      match nat? k with
      | none => (st, "bad-op")
      | some _ =>
        if p == "deleted" || p == "missing" then (st, "err")
        else if p == "meta" || p == "claim" then
          (if st.withC then (st, "err") else ({ st with s := st.s.restart Gen.c05SchemaVersion }, "ok"))
        else (st, "bad-op")
    | ["reindexlive"] =>
      let f := fuelOf st
      let s := State.reindexLive (worldOf st.defs) Gen.c05SchemaVersion (f * f) st.s (sortBy (fun a b => decide (a ≤ b)) st.s.src)
      ({ st with s := s }, if s.needs.isEmpty then "ok" else "needed")
    | ["obs"] =>
      match st.s.observe (ids st) (pnIds st) (fuelOf st) with
      | some o => (st, obsStr o ++ keyIdStr st)
      | none => (st, "bad-op")
    | ["obsr"] =>
      if st.withC then (st, obsStr (observeReload st.s.rows (ids st) (pnIds st) (fuelOf st)) ++ keyIdStr st) else (st, "bad-op")
    | ["close"] => ({ st with dead := true }, "ok")
    | _ => (st, "bad-op")

def machine : Machine := { σ := St, init := {}, step := step }

end Pk.Drv.C05
