import PkVerif.Drv.Common
import PkVerif.Model.Conc
/-! `pkmodel-c14`: replays a *sequential* order of calls – the linearisation that the harness found
for a recorded concurrent history – on the reference map `RefMap.next/out` (which is also what every
linearisation step of the interleaving model `Pk.Conc` applies), and prints each call's answer; the
harness prints the answers the real store gave in the concurrent run.

    store <kind>                  start of a history (fresh map)
    recv <keyhex> <valhex> | fetch <k> | stat <k> | enum <afterhex> <limit> | rm <k>
    irecv <k> <v> | meta <k> | claims <permanode k> | query     (indexer: same map; a permanode's
                                   claims are the received blobs whose bytes mention its ref)
-/
namespace Pk.Drv.C14
open Pk Pk.RefMap

def showPairs (l : List (Bytes × Nat)) : String :=
  " ".intercalate (l.map (fun p => s!"{toHexString p.1}:{p.2}"))

def showOut : Out → String
  | .sized n => s!"sized {n}"
  | .bytes b => s!"bytes {toHexString b}"
  | .notExist => "notexist"
  | .refs l => ("refs " ++ showPairs l).trimRight
  | .ok => "ok"
  | .err => "err"

/-- `needle` occurs in `hay` -/
def isInfix (needle : Bytes) : Bytes → Bool
  | [] => needle.isEmpty
  | x :: rest => needle.isPrefixOf (x :: rest) || isInfix needle rest

/-- the claims of permanode `pn`: received blobs that mention its ref (attribute claims carry it as
`permaNode`, delete claims as `target`) -/
def claimsOf (m : SMap Bytes) (pn : Bytes) : List (Bytes × Nat) :=
  (m.filter (fun p => isInfix pn p.2)).map (fun p => (p.1, p.2.length))

abbrev St := Option (SMap Bytes)

def run1 (m : SMap Bytes) (op : Op) : St × String := (some (next m op), showOut (out m op))

def step (st : St) (ws : List String) : St × String :=
  match ws with
  | ["store", _] => (some [], "ok")
  | _ =>
    match st with
    | none => (st, "bad-op")
    | some m =>
      match ws with
      | [w, k, v] =>
        if w == "recv" || w == "irecv" then
          (match hexArg k, hexArg v with
           | some k, some v => run1 m (.recv k v)
           | _, _ => (st, "bad-op"))
        else if w == "enum" then
          (match hexArg k, v.toNat? with
           | some a, some n => run1 m (.enum a n)
           | _, _ => (st, "bad-op"))
        else (st, "bad-op")
      | [w, k] =>
        (match hexArg k with
         | none => (st, "bad-op")
         | some k =>
           if w == "fetch" then run1 m (.fetch k)
           else if w == "stat" || w == "meta" then run1 m (.stat k)
           else if w == "rm" then run1 m (.rm k)
           else if w == "claims" then (st, ("refs " ++ showPairs (claimsOf m k)).trimRight)
           else (st, "bad-op"))
      | ["query"] => (st, "ok")
      | _ => (st, "bad-op")

def machine : Machine := { σ := St, init := none, step := step }

end Pk.Drv.C14
