import PkVerif.Drv.Common
import PkVerif.Model.Conc
/-! `pkmodel-c14`: replays a *sequential* order of calls – the linearisation that the harness found
for a recorded concurrent history – on the reference map `RefMap.next/out` (which is also what every
linearisation step of the interleaving model `Pk.Conc` applies), and prints each call's answer; the
harness prints the answers the real store gave in the concurrent run.

    store <kind>                  start of a history (fresh map)
    recv <keyhex> <valhex> | fetch <k> | stat <k> | enum <afterhex> <limit> | rm <k>
    irecv <k> <v> | meta <k> | claims <permanode k> | query     (indexer: same map; a permanode's
                                   claims are the received blobs whose bytes mention its ref)
    aclaim <id> <pn> <date> <set|add|del> <valhex> <size> | adel <id> <target id> <size>
                                  an attribute claim on `tag` of permanode <pn> / a delete claim, received
    qd <valhex>                   search query "permanodes whose tag has this value" WITH describe: the
                                  matching permanodes, each with the tag values of its description – both
                                  taken from ONE state: the fold, in date order, of the claims received
-/
namespace Pk.Drv.C14
open Pk Pk.RefMap

def showPairs (l : List (Bytes × Nat)) : String :=
  " ".intercalate (l.map (fun p => s!"{toHexString p.1}:{p.2}"))

def showOut : Out → String
  | .sized n => s!"sized {n}"
  | .bytes b => s!"bytes {toHexString b}"
  | .notExist => "notexist"
  | .refs l => ("refs " ++ showPairs l).trimRight
  | .ok => "ok"
  | .err => "err"

/-- `needle` occurs in `hay` -/
def isInfix (needle : Bytes) : Bytes → Bool
  | [] => needle.isEmpty
  | x :: rest => needle.isPrefixOf (x :: rest) || isInfix needle rest

/-- the claims of permanode `pn`: received blobs that mention its ref (attribute claims carry it as
`permaNode`, delete claims as `target`) -/
def claimsOf (m : SMap Bytes) (pn : Bytes) : List (Bytes × Nat) :=
  (m.filter (fun p => isInfix pn p.2)).map (fun p => (p.1, p.2.length))

/-- an attribute claim (or a delete claim of one) as the query+describe programs see it -/
structure QItem where
  id : Nat
  pn : Nat
  date : Nat
  ctype : String      -- set | add | del | delete
  val : Bytes
  target : Nat

structure State where
  m : SMap Bytes
  items : List QItem

abbrev St := Option State

def insByDate (x : QItem) : List QItem → List QItem
  | [] => [x]
  | y :: r => if x.date < y.date then x :: y :: r else y :: insByDate x r

def insNat (x : Nat) : List Nat → List Nat
  | [] => [x]
  | y :: r => if x < y then x :: y :: r else if x = y then y :: r else y :: insNat x r

/-- one claim applied to a permanode's list of tag values (search/describe.go populatePermanodeFields:
set-attribute replaces, add-attribute appends a value not yet there, del-attribute removes the value) -/
def applyClaim (vals : List Bytes) (it : QItem) : List Bytes :=
  if it.ctype == "set" then [it.val]
  else if it.ctype == "add" then (if vals.contains it.val then vals else vals ++ [it.val])
  else if it.ctype == "del" then vals.filter (· != it.val)
  else vals

/-- the answer of the query with describe: from ONE set of received claims -/
def qdAnswer (items : List QItem) (want : Bytes) : String :=
  let deleted := (items.filter (·.ctype == "delete")).map (·.target)
  let live := (items.filter (fun it => it.ctype != "delete" && !deleted.contains it.id)).foldl
    (fun acc it => insByDate it acc) []
  let pns := items.foldl (fun acc it => if it.ctype == "delete" then acc else insNat it.pn acc) []
  let parts := pns.filterMap (fun pn =>
    let vals := (live.filter (·.pn == pn)).foldl applyClaim []
    if vals.contains want then some s!"{pn}={",".intercalate (vals.map toHexString)}" else none)
  ("q " ++ " ".intercalate parts).trimRight

def run1 (s : State) (op : Op) : St × String := (some { s with m := next s.m op }, showOut (out s.m op))

def step (st : St) (ws : List String) : St × String :=
  match ws with
  | ["store", _] => (some ⟨[], []⟩, "ok")
  | _ =>
    match st with
    | none => (st, "bad-op")
    | some s =>
      let m := s.m
      match ws with
      | ["aclaim", id, pn, date, ct, v, size] =>
        (match id.toNat?, pn.toNat?, date.toNat?, hexArg v, size.toNat? with
         | some id, some pn, some date, some v, some size =>
           if ct == "set" || ct == "add" || ct == "del" then
             (some { s with items := s.items ++ [⟨id, pn, date, ct, v, 0⟩] }, s!"sized {size}")
           else (st, "bad-op")
         | _, _, _, _, _ => (st, "bad-op"))
      | ["adel", id, tgt, size] =>
        (match id.toNat?, tgt.toNat?, size.toNat? with
         | some id, some tgt, some size =>
           (some { s with items := s.items ++ [⟨id, 0, 0, "delete", [], tgt⟩] }, s!"sized {size}")
         | _, _, _ => (st, "bad-op"))
      | ["qd", v] =>
        (match hexArg v with
         | some v => (st, qdAnswer s.items v)
         | none => (st, "bad-op"))
      | [w, k, v] =>
        if w == "recv" || w == "irecv" then
          (match hexArg k, hexArg v with
           | some k, some v => run1 s (.recv k v)
           | _, _ => (st, "bad-op"))
        else if w == "enum" then
          (match hexArg k, v.toNat? with
           | some a, some n => run1 s (.enum a n)
           | _, _ => (st, "bad-op"))
        else (st, "bad-op")
      | [w, k] =>
        (match hexArg k with
         | none => (st, "bad-op")
         | some k =>
           if w == "fetch" then run1 s (.fetch k)
           else if w == "stat" || w == "meta" then run1 s (.stat k)
           else if w == "rm" then run1 s (.rm k)
           else if w == "claims" then (st, ("refs " ++ showPairs (claimsOf m k)).trimRight)
           else (st, "bad-op"))
      | ["query"] => (st, "ok")
      | _ => (st, "bad-op")

def machine : Machine := { σ := St, init := none, step := step }

end Pk.Drv.C14
