import PkVerif.Drv.Common
/-! `pkmodel-c14`: stub (property not built yet). -/
namespace Pk.Drv.C14
def machine : Machine := { σ := Unit, init := (), step := fun s _ => (s, "bad-op") }
end Pk.Drv.C14
